package main

import (
	"fmt"
	"go/ast"
	"go/token"
	"strings"
)

const envelopeGo = "server/protocol/envelope.go"

func genEnvelope() *leanFile {
	l := newLean("Envelope", "/repo/"+envelopeGo)
	f := load(envelopeGo)

	// envelopeMagicNumber = []byte{...}
	var magic []string
	nTypes := 0
	for _, d := range f.f.Decls {
		gd, ok := d.(*ast.GenDecl)
		if !ok {
			continue
		}
		for _, s := range gd.Specs {
			vs, ok := s.(*ast.ValueSpec)
			if !ok {
				continue
			}
			for i, id := range vs.Names {
				if id.Name == "envelopeMagicNumber" && i < len(vs.Values) {
					if cl, ok := vs.Values[i].(*ast.CompositeLit); ok {
						for _, e := range cl.Elts {
							if bl, ok := e.(*ast.BasicLit); ok {
								var v int
								fmt.Sscanf(bl.Value, "%v", &v)
								magic = append(magic, fmt.Sprint(v))
							}
						}
					}
				}
				if gd.Tok == token.CONST && strings.HasPrefix(id.Name, "msgType") {
					nTypes++
				}
			}
		}
	}
	if len(magic) == 0 {
		lost = append(lost, envelopeGo+":envelopeMagicNumber")
		magic = []string{"185", "14", "67", "180"}
	}
	l.def("magic", "List Nat", "["+strings.Join(magic, ", ")+"]", "envelopeMagicNumber")
	l.nat("minHeaderLen", envelopeGo, "envelopeMinHeaderLen", 8)
	l.nat("protoV0", envelopeGo, "envelopeProtoV0", 0)
	l.def("numMsgTypes", "Nat", fmt.Sprint(nTypes), "number of msgType constants")
	l.cmp("guardShort", envelopeGo, "checkEnvelope", "len(data) ? envelopeMinHeaderLen", 0, "lt")
	l.cmp("guardHeaderBeyond", envelopeGo, "checkEnvelope", "headerLen ? len(data)", 0, "gt")
	l.cmp("guardCrcHeader", envelopeGo, "checkEnvelope", "headerLen ? envelopeMinHeaderLen+4", 0, "ne")
	l.cmp("guardReplShort", envelopeGo, "UnmarshalReplicationResponse", "len(payload) ? 16", 0, "lt")
	l.def("replMinLen", "Nat", "16", "")
	return l
}
