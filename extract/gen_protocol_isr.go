package main

// C02 (second part of Gen/Protocol.lean, called from genProtocol): ISR membership and the
// term fence of follower fetches, as DECISIONS rather than single operators.
//
//   - replicator.tick: `outOfSync := <boolean combination of lastSeenElapsed · maxLagTime and
//     lastCaughtUpElapsed · maxLagTime>` as a BExp (connectives AND both comparison operators);
//     for which (outOfSync, inISR) valuations the loop body calls r.shrinkISR() / r.expandISR()
//     (the if / else-if chain is executed symbolically for the four valuations);
//   - where r.lastSeen / r.lastCaughtUp are assigned (function, value, enclosing conditions) and
//     under which condition replicator.start calls r.caughtUp: "only when the follower's fetch
//     offset reached the leader's log end";
//   - the fields partition.sendReplicationRequest puts into the ReplicationRequest (keys and source
//     expressions) and where its leaderEpoch parameter comes from (replicationRequestLoop's
//     parameter, which becomeFollower feeds with p.LeaderEpoch);
//   - the leader-side rejection rule of handleReplicationRequest as a BExp over
//     `req.LeaderEpoch · 0` and `req.LeaderEpoch · p.LeaderEpoch`.
//
// Anything of a shape this file does not understand is reported `lost`; the generated value then
// keeps what the models were written against.

import (
	"fmt"
	"go/ast"
	"go/token"
	"sort"
	"strings"
)

type bexpAtom struct{ lhs, rhs string }

var cmpFlip = map[string]string{"lt": "gt", "le": "ge", "gt": "lt", "ge": "le", "eq": "eq", "ne": "ne"}

// parseBExp renders a Go boolean expression as a Lean `BExp` term over the given comparison
// atoms (`lhs · rhs`, either way round). ok = false: some leaf is not one of the atoms.
func parseBExp(f *file, e ast.Expr, atoms []bexpAtom) (string, bool) {
	switch x := e.(type) {
	case *ast.ParenExpr:
		return parseBExp(f, x.X, atoms)
	case *ast.UnaryExpr:
		if x.Op == token.NOT {
			s, ok := parseBExp(f, x.X, atoms)
			return "(.not " + s + ")", ok
		}
	case *ast.Ident:
		if x.Name == "true" || x.Name == "false" {
			return "(.const " + x.Name + ")", true
		}
	case *ast.BinaryExpr:
		switch x.Op {
		case token.LAND, token.LOR:
			a, ok1 := parseBExp(f, x.X, atoms)
			b, ok2 := parseBExp(f, x.Y, atoms)
			c := ".and"
			if x.Op == token.LOR {
				c = ".or"
			}
			return "(" + c + " " + a + " " + b + ")", ok1 && ok2
		}
		if op, ok := cmpName[x.Op]; ok {
			l, r := nows(f.src(x.X)), nows(f.src(x.Y))
			for i, a := range atoms {
				if l == nows(a.lhs) && r == nows(a.rhs) {
					return fmt.Sprintf("(.atom %d .%s)", i, op), true
				}
				if l == nows(a.rhs) && r == nows(a.lhs) {
					return fmt.Sprintf("(.atom %d .%s)", i, cmpFlip[op]), true
				}
			}
		}
	}
	return "(.const false)", false
}

// evalGoBool evaluates a Go condition over named boolean leaves (identifier or call texts).
func evalGoBool(f *file, e ast.Expr, env map[string]bool) (bool, bool) {
	switch x := e.(type) {
	case *ast.ParenExpr:
		return evalGoBool(f, x.X, env)
	case *ast.UnaryExpr:
		if x.Op == token.NOT {
			v, ok := evalGoBool(f, x.X, env)
			return !v, ok
		}
	case *ast.BinaryExpr:
		if x.Op == token.LAND || x.Op == token.LOR {
			a, ok1 := evalGoBool(f, x.X, env)
			b, ok2 := evalGoBool(f, x.Y, env)
			if x.Op == token.LAND {
				return a && b, ok1 && ok2
			}
			return a || b, ok1 && ok2
		}
	}
	if v, ok := env[nows(f.src(e))]; ok {
		return v, true
	}
	return false, false
}

func containsCallTo(f *file, n ast.Node, callee string) bool {
	found := false
	ast.Inspect(n, func(x ast.Node) bool {
		if ce, ok := x.(*ast.CallExpr); ok && nows(f.src(ce.Fun)) == nows(callee) {
			found = true
		}
		return true
	})
	return found
}

// tickCalls executes the statements symbolically under one valuation and reports which of the
// two ISR calls are reached. ok = false: a condition that guards one of the calls could not be
// evaluated, or a call sits in a statement of a shape that is not understood.
func tickCalls(f *file, stmts []ast.Stmt, env map[string]bool, shrink, expand *bool) bool {
	interesting := func(n ast.Node) bool {
		return containsCallTo(f, n, "r.shrinkISR") || containsCallTo(f, n, "r.expandISR")
	}
	for _, st := range stmts {
		switch s := st.(type) {
		case *ast.IfStmt:
			if s.Init != nil && interesting(s) {
				return false
			}
			v, ok := evalGoBool(f, s.Cond, env)
			if !ok {
				if interesting(s) {
					return false
				}
				continue
			}
			if v {
				if !tickCalls(f, s.Body.List, env, shrink, expand) {
					return false
				}
			} else if s.Else != nil {
				switch e := s.Else.(type) {
				case *ast.BlockStmt:
					if !tickCalls(f, e.List, env, shrink, expand) {
						return false
					}
				case *ast.IfStmt:
					if !tickCalls(f, []ast.Stmt{e}, env, shrink, expand) {
						return false
					}
				}
			}
		case *ast.BlockStmt:
			if !tickCalls(f, s.List, env, shrink, expand) {
				return false
			}
		case *ast.ExprStmt:
			if ce, ok := s.X.(*ast.CallExpr); ok {
				switch nows(f.src(ce.Fun)) {
				case "r.shrinkISR":
					*shrink = true
					continue
				case "r.expandISR":
					*expand = true
					continue
				}
			}
			if interesting(s) {
				return false
			}
		default:
			if interesting(st) {
				return false
			}
		}
	}
	return true
}

// enclosingConds returns, for every node selected by pick inside fd, the conditions of the if
// statements that enclose it ("!(" + cond + ")" for an else branch), outermost first.
func enclosingConds(f *file, fd *ast.FuncDecl, pick func(ast.Node) bool) [][]string {
	var out [][]string
	var walk func(n ast.Node, conds []string)
	walk = func(n ast.Node, conds []string) {
		if n == nil {
			return
		}
		if is, ok := n.(*ast.IfStmt); ok {
			if is.Init != nil {
				walk(is.Init, conds)
			}
			walk(is.Cond, conds)
			c := nows(f.src(is.Cond))
			walk(is.Body, append(append([]string(nil), conds...), c))
			if is.Else != nil {
				walk(is.Else, append(append([]string(nil), conds...), "!("+c+")"))
			}
			return
		}
		if pick(n) {
			out = append(out, append([]string(nil), conds...))
		}
		// children (one level), skipping function literals' own scoping is not needed here
		var kids []ast.Node
		first := true
		ast.Inspect(n, func(c ast.Node) bool {
			if first {
				first = false
				return true
			}
			if c != nil {
				kids = append(kids, c)
			}
			return false
		})
		for _, k := range kids {
			walk(k, conds)
		}
	}
	walk(fd.Body, nil)
	return out
}

func funcsOf(f *file) []*ast.FuncDecl {
	var out []*ast.FuncDecl
	for _, d := range f.f.Decls {
		if fd, ok := d.(*ast.FuncDecl); ok && fd.Body != nil {
			out = append(out, fd)
		}
	}
	return out
}

func funcName(fd *ast.FuncDecl) string {
	name := fd.Name.Name
	if fd.Recv != nil && len(fd.Recv.List) > 0 {
		t := fd.Recv.List[0].Type
		if s, ok := t.(*ast.StarExpr); ok {
			t = s.X
		}
		if id, ok := t.(*ast.Ident); ok {
			name = id.Name + "." + name
		}
	}
	return name
}

func paramNames(fd *ast.FuncDecl) []string {
	var out []string
	if fd.Type.Params == nil {
		return out
	}
	for _, fl := range fd.Type.Params.List {
		for _, n := range fl.Names {
			out = append(out, n.Name)
		}
	}
	return out
}

func leanBoolPairs(ps [][2]bool) string {
	var q []string
	for _, p := range ps {
		q = append(q, fmt.Sprintf("(%v, %v)", p[0], p[1]))
	}
	return "[" + strings.Join(q, ", ") + "]"
}

func genProtocolISR(l *leanFile) {
	// ------------------------------------------------------------------ replicator.tick
	rf := load(replicatorGo)
	tickExp := "(.or (.atom 0 .gt) (.atom 1 .gt))"
	shrinkWhen := [][2]bool{{true, true}}
	expandWhen := [][2]bool{{false, false}}
	var elapsed []string
	if fd := rf.fn("replicator.tick"); fd == nil || fd.Body == nil {
		lost = append(lost, replicatorGo+":replicator.tick (function not found)")
	} else {
		// outOfSync := …
		var defs []ast.Expr
		ast.Inspect(fd.Body, func(n ast.Node) bool {
			if as, ok := n.(*ast.AssignStmt); ok && len(as.Lhs) == 1 && len(as.Rhs) == 1 {
				if id, ok := as.Lhs[0].(*ast.Ident); ok && id.Name == "outOfSync" {
					defs = append(defs, as.Rhs[0])
				}
			}
			return true
		})
		if len(defs) != 1 {
			lost = append(lost, fmt.Sprintf("%s:replicator.tick: outOfSync := … (%d assignments)", replicatorGo, len(defs)))
		} else if s, ok := parseBExp(rf, defs[0], []bexpAtom{{"lastSeenElapsed", "r.maxLagTime"}, {"lastCaughtUpElapsed", "r.maxLagTime"}}); ok {
			tickExp = s
		} else {
			lost = append(lost, replicatorGo+":replicator.tick: outOfSync := "+rf.src(defs[0])+" (not a combination of lastSeenElapsed/lastCaughtUpElapsed · r.maxLagTime)")
		}
		// what the elapsed times are
		ast.Inspect(fd.Body, func(n ast.Node) bool {
			if vs, ok := n.(*ast.ValueSpec); ok {
				for i, id := range vs.Names {
					if i < len(vs.Values) {
						elapsed = append(elapsed, id.Name+"="+nows(rf.src(vs.Values[i])))
					}
				}
			}
			return true
		})
		sort.Strings(elapsed)
		// the loop body under the four valuations
		var loop *ast.ForStmt
		for _, st := range fd.Body.List {
			if fs, ok := st.(*ast.ForStmt); ok {
				loop = fs
			}
		}
		if loop == nil {
			lost = append(lost, replicatorGo+":replicator.tick: for loop")
		} else {
			var sw, ew [][2]bool
			okAll := true
			for _, oos := range []bool{true, false} {
				for _, in := range []bool{true, false} {
					var s, e bool
					env := map[string]bool{"outOfSync": oos, "r.partition.inISR(r.replica)": in}
					if !tickCalls(rf, loop.Body.List, env, &s, &e) {
						okAll = false
					}
					if s {
						sw = append(sw, [2]bool{oos, in})
					}
					if e {
						ew = append(ew, [2]bool{oos, in})
					}
				}
			}
			if okAll {
				shrinkWhen, expandWhen = sw, ew
			} else {
				lost = append(lost, replicatorGo+":replicator.tick: the conditions under which r.shrinkISR() / r.expandISR() are called")
			}
		}
	}
	facts["Protocol.tickOutOfSync"] = tickExp
	l.def("tickOutOfSync", "BExp", tickExp, "outOfSync := …  (replicator.tick); atom 0 = lastSeenElapsed · r.maxLagTime, atom 1 = lastCaughtUpElapsed · r.maxLagTime")
	l.def("tickElapsedSrc", "List String", leanStrList(elapsed), "the variables of replicator.tick")
	l.def("tickShrinkWhen", "List (Bool × Bool)", leanBoolPairs(shrinkWhen), "(outOfSync, inISR) valuations under which tick calls r.shrinkISR()")
	l.def("tickExpandWhen", "List (Bool × Bool)", leanBoolPairs(expandWhen), "(outOfSync, inISR) valuations under which tick calls r.expandISR()")

	// ------------------------------------------------------------------ the two timers
	var sites []string
	for _, fd := range funcsOf(rf) {
		fd := fd
		var texts []string
		conds := enclosingConds(rf, fd, func(n ast.Node) bool {
			as, ok := n.(*ast.AssignStmt)
			if !ok {
				return false
			}
			hit := false
			for i, lhs := range as.Lhs {
				t := nows(rf.src(lhs))
				if t == "r.lastSeen" || t == "r.lastCaughtUp" {
					rhs := "?"
					if i < len(as.Rhs) {
						rhs = nows(rf.src(as.Rhs[i]))
					}
					texts = append(texts, t+"="+rhs)
					hit = true
				}
			}
			return hit
		})
		for i, c := range conds {
			if i < len(texts) {
				sites = append(sites, funcName(fd)+":"+texts[i]+"@"+strings.Join(c, "&"))
			}
		}
	}
	sort.Strings(sites)
	facts["Protocol.timerAssignSites"] = sites
	l.def("timerAssignSites", "List String", leanStrList(sites), "assignments to r.lastSeen / r.lastCaughtUp in replicator.go: function:lhs=rhs@enclosing conditions")

	// r.caughtUp(…) is called only under `req.Offset · latest` with latest = the leader's newest offset
	guarded := true
	{
		type call struct {
			fn    string
			conds []string
		}
		var calls []call
		for _, fd := range funcsOf(rf) {
			for _, c := range enclosingConds(rf, fd, func(n ast.Node) bool {
				ce, ok := n.(*ast.CallExpr)
				return ok && nows(rf.src(ce.Fun)) == "r.caughtUp"
			}) {
				calls = append(calls, call{funcName(fd), c})
			}
		}
		var callTexts []string
		for _, c := range calls {
			callTexts = append(callTexts, c.fn+"@"+strings.Join(c.conds, "&"))
		}
		facts["Protocol.caughtUpCallSites"] = callTexts
		isOffsetCmp := func(c string) bool {
			for _, op := range []string{">=", "<=", "==", "!=", ">", "<"} {
				if c == "req.Offset"+op+"latest" {
					return true
				}
			}
			return false
		}
		switch {
		case len(calls) == 1 && calls[0].fn == "replicator.start" && len(calls[0].conds) == 1 && isOffsetCmp(calls[0].conds[0]):
			guarded = true
		case len(calls) == 1 && calls[0].fn == "replicator.start" && len(calls[0].conds) == 0:
			guarded = false
		default:
			lost = append(lost, replicatorGo+": r.caughtUp(…) call sites "+strings.Join(callTexts, " ; ")+" (expected one call in replicator.start under `if req.Offset · latest`)")
		}
		// latest = r.partition.log.NewestOffset()
		latestOK := false
		if fd := rf.fn("replicator.start"); fd != nil && fd.Body != nil {
			ast.Inspect(fd.Body, func(n ast.Node) bool {
				if vs, ok := n.(*ast.ValueSpec); ok {
					for i, id := range vs.Names {
						if id.Name == "latest" && i < len(vs.Values) && nows(rf.src(vs.Values[i])) == "r.partition.log.NewestOffset()" {
							latestOK = true
						}
					}
				}
				return true
			})
		}
		if !latestOK {
			lost = append(lost, replicatorGo+":replicator.start: latest = r.partition.log.NewestOffset()")
		}
	}
	// … and r.lastCaughtUp is assigned nowhere else (apart from the start of the loop)
	{
		seenCU, seenInit := false, false
		for _, st := range sites {
			if !strings.Contains(st, ":r.lastCaughtUp=") {
				continue
			}
			switch st {
			case "replicator.caughtUp:r.lastCaughtUp=req.received@":
				seenCU = true
			case "replicator.start:r.lastCaughtUp=now@":
				seenInit = true
			case "replicator.start:r.lastCaughtUp=req.received@":
				guarded = false // refreshed by every request
			default:
				lost = append(lost, replicatorGo+": assignment to r.lastCaughtUp of unknown shape: "+st)
			}
		}
		if !seenCU || !seenInit {
			lost = append(lost, replicatorGo+": r.lastCaughtUp = req.received in replicator.caughtUp / = now at the start of replicator.start")
		}
	}
	l.def("caughtUpGuarded", "Bool", fmt.Sprint(guarded), "lastCaughtUp is refreshed only by r.caughtUp, which replicator.start calls only under `if req.Offset · latest`, latest = r.partition.log.NewestOffset()")

	// ------------------------------------------------------------------ the follower's fetch
	pf := load(partitionGo)
	carries, offNewest := true, true
	var fields []string
	if fd := pf.fn("partition.sendReplicationRequest"); fd == nil || fd.Body == nil {
		lost = append(lost, partitionGo+":partition.sendReplicationRequest (function not found)")
	} else {
		var lits []*ast.CompositeLit
		ast.Inspect(fd.Body, func(n ast.Node) bool {
			if cl, ok := n.(*ast.CompositeLit); ok && nows(pf.src(cl.Type)) == "proto.ReplicationRequest" {
				lits = append(lits, cl)
			}
			return true
		})
		if len(lits) != 1 {
			lost = append(lost, fmt.Sprintf("%s:partition.sendReplicationRequest: proto.ReplicationRequest{…} (%d literals)", partitionGo, len(lits)))
		} else {
			src := map[string]string{}
			okShape := true
			for _, e := range lits[0].Elts {
				kv, ok := e.(*ast.KeyValueExpr)
				if !ok {
					okShape = false
					continue
				}
				k, v := nows(pf.src(kv.Key)), nows(pf.src(kv.Value))
				src[k] = v
				fields = append(fields, k+"="+v)
			}
			sort.Strings(fields)
			params := map[string]int{}
			for i, n := range paramNames(fd) {
				params[n] = i
			}
			for k, v := range src {
				switch k {
				case "ReplicaID":
					if v != "p.srv.config.Clustering.ServerID" {
						okShape = false
					}
				case "Offset":
					if v != "p.log.NewestOffset()" {
						okShape = false
					}
				case "LeaderEpoch":
					if v == "0" {
						break
					}
					idx, isParam := params[v]
					if !isParam {
						okShape = false
						break
					}
					// the parameter is fed by replicationRequestLoop's own parameter, which becomeFollower
					// feeds with p.LeaderEpoch
					arg, ok1 := uniqueArg(partitionGo, "partition.replicationRequestLoop", "p.sendReplicationRequest", idx)
					loop := pf.fn("partition.replicationRequestLoop")
					j := -1
					if ok1 && loop != nil {
						for i, n := range paramNames(loop) {
							if n == arg {
								j = i
							}
						}
					}
					if j < 0 {
						lost = append(lost, partitionGo+":partition.replicationRequestLoop: p.sendReplicationRequest(<own epoch parameter>)")
						break
					}
					if a2, ok2 := uniqueArg(partitionGo, "partition.becomeFollower", "p.replicationRequestLoop", j); !ok2 || a2 != "p.LeaderEpoch" {
						lost = append(lost, partitionGo+":partition.becomeFollower: p.replicationRequestLoop(…, p.LeaderEpoch, …): got "+a2)
					}
				default:
					okShape = false
				}
			}
			if _, ok := src["ReplicaID"]; !ok {
				okShape = false
			}
			if !okShape {
				lost = append(lost, partitionGo+":partition.sendReplicationRequest: fields of the request: "+strings.Join(fields, ", "))
			} else {
				_, offNewest = src["Offset"]
				v, has := src["LeaderEpoch"]
				carries = has && v != "0"
			}
		}
	}
	facts["Protocol.fetchFields"] = fields
	l.def("fetchFields", "List String", leanStrList(fields), "fields of the ReplicationRequest built by partition.sendReplicationRequest (key=source)")
	l.def("fetchCarriesEpoch", "Bool", fmt.Sprint(carries), "the request carries LeaderEpoch = the epoch the follower's replication loop was started for (p.LeaderEpoch at becomeFollower)")
	l.def("fetchOffsetIsNewest", "Bool", fmt.Sprint(offNewest), "the request carries Offset = p.log.NewestOffset()")

	// ------------------------------------------------------------------ the leader's term fence
	reject := "(.and (.atom 0 .ne) (.atom 1 .ne))"
	if fd := pf.fn("partition.handleReplicationRequest"); fd == nil || fd.Body == nil {
		lost = append(lost, partitionGo+":partition.handleReplicationRequest (function not found)")
	} else {
		var conds []ast.Expr
		bad := false
		for _, st := range fd.Body.List {
			is, ok := st.(*ast.IfStmt)
			if !ok {
				if strings.Contains(nows(pf.src(st)), "req.LeaderEpoch") {
					bad = true
				}
				continue
			}
			if !strings.Contains(nows(pf.src(is.Cond)), "req.LeaderEpoch") {
				if strings.Contains(nows(pf.src(is.Body)), "req.LeaderEpoch!=") || strings.Contains(nows(pf.src(is.Body)), "req.LeaderEpoch==") {
					bad = true
				}
				continue
			}
			if is.Init != nil || is.Else != nil || plLeaves(is.Body) != "yes" {
				bad = true
				continue
			}
			conds = append(conds, is.Cond)
		}
		switch {
		case bad || len(conds) > 1:
			lost = append(lost, partitionGo+":partition.handleReplicationRequest: if <req.LeaderEpoch …> { return }")
		case len(conds) == 0:
			reject = "(.const false)"
		default:
			if s, ok := parseBExp(pf, conds[0], []bexpAtom{{"req.LeaderEpoch", "0"}, {"req.LeaderEpoch", "p.LeaderEpoch"}}); ok {
				reject = s
			} else {
				lost = append(lost, partitionGo+":partition.handleReplicationRequest: if "+pf.src(conds[0])+" { return } (not a combination of req.LeaderEpoch · 0 / · p.LeaderEpoch)")
			}
		}
	}
	facts["Protocol.replReqReject"] = reject
	l.def("replReqReject", "BExp", reject, "handleReplicationRequest drops the request when …; atom 0 = req.LeaderEpoch · 0, atom 1 = req.LeaderEpoch · p.LeaderEpoch")
}
