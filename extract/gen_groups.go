package main

import (
	"fmt"
	"go/ast"
	"strings"
)

const (
	groupsGo   = "server/groups.go"
	metadataGo = "server/metadata.go"
)

// genGroups emits the decision points of the consumer-group assignment code (C12):
// the three epoch fences, the heap order (assignedCount, id), the partition loop bound,
// the early return of balanceAssignmentsForStream on an empty heap, and the structural
// fact that removeStream notifies the groups from a goroutine (asynchronously).
func genGroups() *leanFile {
	l := newLean("Groups", "/repo/"+groupsGo+", /repo/"+metadataGo)
	l.cmp("epochAddCmp", groupsGo, "consumerGroup.AddMember", "epoch ? c.epoch", 0, "lt")
	l.cmp("epochRemoveCmp", groupsGo, "consumerGroup.RemoveMember", "epoch ? c.epoch", 0, "lt")
	l.cmp("epochDeletedCmp", groupsGo, "consumerGroup.StreamDeleted", "epoch ? c.epoch", 0, "lt")
	// StreamDeleted returns before touching the epoch when the stream's subscriber heap is empty (fix abd9059)
	emptyKeeps := anyHas(condTexts(groupsGo, "consumerGroup.StreamDeleted"), "!ok || len(*subscribers) == 0")
	l.def("emptyHeapKeepsEpoch", "Bool", fmt.Sprint(emptyKeeps), "if !ok || len(*subscribers) == 0 { delete(c.subscribers, stream); return nil }")
	// consumerHeap.Less: `if c[i].assignedCount == c[j].assignedCount { return c[i].id < c[j].id };
	// return c[i].assignedCount < c[j].assignedCount` — two textual matches of the count
	// comparison, in source order.
	l.cmp("lessCountEq", groupsGo, "consumerHeap.Less", "c[i].assignedCount ? c[j].assignedCount", 1, "eq")
	l.cmp("lessCount", groupsGo, "consumerHeap.Less", "c[i].assignedCount ? c[j].assignedCount", 2, "lt")
	l.cmp("lessId", groupsGo, "consumerHeap.Less", "c[i].id ? c[j].id", 0, "lt")
	l.cmp("loopCmp", groupsGo, "consumerGroup.balanceAssignmentsForStream", "partition ? c.getStreamPartitions(streamName)", 0, "lt")
	l.cmp("balanceEmptyCmp", groupsGo, "consumerGroup.balanceAssignmentsForStream", "len(*subscribers) ? 0", 0, "eq")

	// Shape of Less: exactly one `if` whose condition is the count comparison, whose body
	// returns the id comparison, followed by a return of the count comparison.
	lessShape := false
	if fd := load(groupsGo).fn("consumerHeap.Less"); fd != nil && fd.Body != nil && len(fd.Body.List) == 2 {
		ifs, ok1 := fd.Body.List[0].(*ast.IfStmt)
		_, ok2 := fd.Body.List[1].(*ast.ReturnStmt)
		if ok1 && ok2 && ifs.Else == nil && ifs.Init == nil {
			if len(ifs.Body.List) == 1 {
				_, lessShape = ifs.Body.List[0].(*ast.ReturnStmt)
			}
		}
	}
	if !lessShape {
		lost = append(lost, groupsGo+":consumerHeap.Less shape (if count-cmp { return id-cmp }; return count-cmp)")
	}

	// removeConsumer rebalances a stream only under `if _, ok := cons.assignments[stream]; ok`.
	rebalanceGuard := false
	f := load(groupsGo)
	if fd := f.fn("consumerGroup.removeConsumer"); fd != nil && fd.Body != nil {
		ast.Inspect(fd.Body, func(n ast.Node) bool {
			ifs, ok := n.(*ast.IfStmt)
			if !ok || ifs.Init == nil {
				return true
			}
			if nows(f.src(ifs.Init)) == nows("_, ok := cons.assignments[stream]") && nows(f.src(ifs.Cond)) == "ok" {
				for _, s := range ifs.Body.List {
					if es, ok := s.(*ast.ExprStmt); ok && nows(f.src(es.X)) == nows("c.balanceAssignmentsForStream(stream)") {
						rebalanceGuard = true
					}
				}
			}
			return true
		})
	}
	if !rebalanceGuard {
		lost = append(lost, groupsGo+":consumerGroup.removeConsumer (rebalance only if the consumer had assignments for the stream)")
	}
	l.def("removeRebalanceIfAssigned", "Bool", boolLit(rebalanceGuard),
		"removeConsumer: if _, ok := cons.assignments[stream]; ok { balanceAssignmentsForStream(stream) }")

	// StreamDeleted returns early (before `c.epoch = epoch`) when the stream has no heap.
	// Position of the `c.epoch = epoch` assignment relative to the `!ok` return is what the
	// model mirrors; here we only pin that the assignment exists in each of the three ops.
	for _, fn := range []string{"consumerGroup.AddMember", "consumerGroup.RemoveMember", "consumerGroup.StreamDeleted"} {
		found := false
		if fd := f.fn(fn); fd != nil && fd.Body != nil {
			ast.Inspect(fd.Body, func(n ast.Node) bool {
				if as, ok := n.(*ast.AssignStmt); ok && len(as.Lhs) == 1 && len(as.Rhs) == 1 &&
					nows(f.src(as.Lhs[0])) == "c.epoch" && nows(f.src(as.Rhs[0])) == "epoch" {
					found = true
				}
				return true
			})
		}
		if !found {
			lost = append(lost, groupsGo+":"+fn+" (c.epoch = epoch)")
		}
	}

	// Where does metadata.go call group.StreamDeleted: inside a function literal handed to
	// m.startGoroutine / a go statement (asynchronously w.r.t. the FSM apply), or directly?
	async, direct := false, false
	mf := load(metadataGo)
	var scan func(n ast.Node, inside bool)
	scan = func(n ast.Node, inside bool) {
		ast.Inspect(n, func(x ast.Node) bool {
			switch v := x.(type) {
			case *ast.GoStmt:
				if !inside {
					scan(v.Call, true)
					return false
				}
			case *ast.CallExpr:
				fun := nows(mf.src(v.Fun))
				if fun == "group.StreamDeleted" {
					if inside {
						async = true
					} else {
						direct = true
					}
				}
				if !inside && (fun == "m.startGoroutine" || fun == "m.startGoroutineWithArgs") {
					for _, a := range v.Args {
						scan(a, true)
					}
					return false
				}
			}
			return true
		})
	}
	for _, d := range mf.f.Decls {
		if fd, ok := d.(*ast.FuncDecl); ok && fd.Body != nil {
			scan(fd.Body, false)
		}
	}
	if async == direct { // not found at all, or both ways
		lost = append(lost, metadataGo+": call of group.StreamDeleted (goroutine or direct)")
	}
	facts["Groups.streamDeletedInGoroutine"] = async && !direct
	l.def("streamDeletedInGoroutine", "Bool", boolLit(async && !direct),
		"metadata.go calls group.StreamDeleted from a goroutine (m.startGoroutine(func() { … })) rather than synchronously")

	// ---- the load counter (consumer.assignedCount, key of the least-loaded heaps) and what it counts
	// (consumer.assignments): EVERY statement of groups.go that writes one of the two, by function.
	// The model keeps the counter as a separate field (Cons.count) and Proofs.Groups.cinv_* prove
	// `count = number of partitions held` for the writers as they are paired HERE; a write outside
	// the two consumer methods (e.g. `delete(subscriber.assignments, stream)` in StreamDeleted)
	// changes this table and thereby breaks Props.C12.
	var writes []string
	isLoadField := func(e ast.Expr) bool {
		for {
			switch v := e.(type) {
			case *ast.IndexExpr:
				e = v.X
				continue
			case *ast.SelectorExpr:
				return v.Sel.Name == "assignments" || v.Sel.Name == "assignedCount"
			}
			return false
		}
	}
	for _, d := range f.f.Decls {
		fd, ok := d.(*ast.FuncDecl)
		if !ok || fd.Body == nil {
			continue
		}
		name := fd.Name.Name
		if fd.Recv != nil && len(fd.Recv.List) > 0 {
			t := fd.Recv.List[0].Type
			if st, ok := t.(*ast.StarExpr); ok {
				t = st.X
			}
			if id, ok := t.(*ast.Ident); ok {
				name = id.Name + "." + name
			}
		}
		ast.Inspect(fd.Body, func(n ast.Node) bool {
			switch v := n.(type) {
			case *ast.AssignStmt:
				for _, lhs := range v.Lhs {
					if isLoadField(lhs) {
						writes = append(writes, fmt.Sprintf("(%q, %q)", name, nows(f.src(v))))
						break
					}
				}
			case *ast.IncDecStmt:
				if isLoadField(v.X) {
					writes = append(writes, fmt.Sprintf("(%q, %q)", name, nows(f.src(v))))
				}
			case *ast.CallExpr:
				if id, ok := v.Fun.(*ast.Ident); ok && (id.Name == "delete" || id.Name == "clear") && len(v.Args) >= 1 && isLoadField(v.Args[0]) {
					writes = append(writes, fmt.Sprintf("(%q, %q)", name, nows(f.src(v))))
				}
			case *ast.KeyValueExpr:
				if id, ok := v.Key.(*ast.Ident); ok && (id.Name == "assignments" || id.Name == "assignedCount") {
					writes = append(writes, fmt.Sprintf("(%q, %q)", name, nows(f.src(v))))
				}
			}
			return true
		})
	}
	if len(writes) == 0 {
		lost = append(lost, groupsGo+": writers of consumer.assignments / consumer.assignedCount")
	}
	facts["Groups.loadWrites"] = writes
	l.def("loadWrites", "List (String × String)", "["+strings.Join(writes, ", ")+"]",
		"every statement of groups.go that writes consumer.assignments or consumer.assignedCount, by function")

	// StreamDeleted, for every subscriber of the deleted stream: `subscriber.removeStreamAssignments(stream)`
	// (assignments dropped AND counter lowered) or a bare `delete(subscriber.assignments, stream)`?
	lowers, bare := false, false
	if fd := f.fn("consumerGroup.StreamDeleted"); fd != nil && fd.Body != nil {
		ast.Inspect(fd.Body, func(n ast.Node) bool {
			rs, ok := n.(*ast.RangeStmt)
			if !ok || nows(f.src(rs.X)) != "*subscribers" {
				return true
			}
			val := ""
			if rs.Value != nil {
				val = nows(f.src(rs.Value))
			}
			for _, st := range rs.Body.List {
				es, ok := st.(*ast.ExprStmt)
				if !ok {
					continue
				}
				switch nows(f.src(es.X)) {
				case val + ".removeStreamAssignments(stream)":
					lowers = true
				case "delete(" + val + ".assignments,stream)":
					bare = true
				}
			}
			return true
		})
	}
	if lowers == bare {
		lost = append(lost, groupsGo+":consumerGroup.StreamDeleted (subscriber.removeStreamAssignments(stream) in the loop over the deleted stream's subscribers)")
	}
	facts["Groups.deletedLowersCount"] = lowers && !bare
	l.def("deletedLowersCount", "Bool", boolLit(lowers && !bare),
		"StreamDeleted drops a subscriber's assignments of the deleted stream through subscriber.removeStreamAssignments(stream), which also lowers assignedCount")
	return l
}

func boolLit(b bool) string {
	if b {
		return "true"
	}
	return "false"
}
