package main

import (
	"go/ast"
	"go/token"
	"strings"
)

const sealGo = "server/encryption/localkey_handler.go"

// hasExpr reports whether function fnName contains an expression (of any kind) whose
// normalised source text equals text.
func hasExpr(rel, fnName, text string) bool {
	f := load(rel)
	fd := f.fn(fnName)
	if fd == nil || fd.Body == nil {
		return false
	}
	found := false
	ast.Inspect(fd.Body, func(n ast.Node) bool {
		if e, ok := n.(ast.Expr); ok && nows(f.src(e)) == nows(text) {
			found = true
		}
		return !found
	})
	return found
}

// guardPrecedes checks that the comparison `pattern` (operator replaced by ?) of fnName is
// the condition of an `if` whose body ends in `return nil, <non-nil error>` and that this
// `if` comes textually before the first occurrence of every expression in uses (the
// indexing / slicing it is meant to protect). A guard that exists but sits after the
// slice, or that does not return, protects nothing: reported as lost.
func guardPrecedes(rel, fnName, pattern string, uses ...string) {
	f := load(rel)
	fd := f.fn(fnName)
	id := rel + ":" + fnName + ":" + pattern
	if fd == nil || fd.Body == nil {
		return // already reported by guard()
	}
	guardPos := token.NoPos
	ast.Inspect(fd.Body, func(n ast.Node) bool {
		is, ok := n.(*ast.IfStmt)
		if !ok {
			return true
		}
		be, ok := is.Cond.(*ast.BinaryExpr)
		if !ok || nows(f.src(be.X)+"?"+f.src(be.Y)) != nows(pattern) {
			return true
		}
		if _, isCmp := cmpName[be.Op]; !isCmp {
			return true
		}
		if len(is.Body.List) == 0 {
			return true
		}
		rs, ok := is.Body.List[len(is.Body.List)-1].(*ast.ReturnStmt)
		if !ok || len(rs.Results) != 2 {
			return true
		}
		if id, ok := rs.Results[1].(*ast.Ident); ok && id.Name == "nil" {
			return true
		}
		if guardPos == token.NoPos {
			guardPos = is.Pos()
		}
		return true
	})
	if guardPos == token.NoPos {
		lost = append(lost, id+" (not the condition of an if that returns an error)")
		return
	}
	for _, u := range uses {
		first := token.NoPos
		ast.Inspect(fd.Body, func(n ast.Node) bool {
			if e, ok := n.(ast.Expr); ok && nows(f.src(e)) == nows(u) {
				if first == token.NoPos || e.Pos() < first {
					first = e.Pos()
				}
			}
			return true
		})
		if first == token.NoPos {
			lost = append(lost, rel+":"+fnName+":"+u+" (slice expression not found)")
		} else if first < guardPos {
			lost = append(lost, id+" (guard comes after "+u+")")
		}
	}
}

// addConst finds `name := x + <int literal>` (or `<int literal> + x`) in fnName and returns
// the literal.
func addConst(rel, fnName, name, x string) (int64, bool) {
	f := load(rel)
	fd := f.fn(fnName)
	if fd == nil || fd.Body == nil {
		return 0, false
	}
	var v int64
	ok := false
	ast.Inspect(fd.Body, func(n ast.Node) bool {
		as, isAs := n.(*ast.AssignStmt)
		if !isAs || len(as.Lhs) != 1 || len(as.Rhs) != 1 {
			return true
		}
		if id, isID := as.Lhs[0].(*ast.Ident); !isID || id.Name != name {
			return true
		}
		be, isBE := as.Rhs[0].(*ast.BinaryExpr)
		if !isBE || be.Op != token.ADD {
			return true
		}
		lit, other := be.Y, be.X
		if _, isLit := lit.(*ast.BasicLit); !isLit {
			lit, other = be.X, be.Y
		}
		bl, isLit := lit.(*ast.BasicLit)
		if !isLit || bl.Kind != token.INT || nows(f.src(other)) != x {
			return true
		}
		var k int64
		for _, c := range bl.Value {
			if c < '0' || c > '9' {
				return true
			}
			k = k*10 + int64(c-'0')
		}
		v, ok = k, true
		return false
	})
	return v, ok
}

func genSeal() *leanFile {
	l := newLean("Seal", "/repo/"+sealGo)
	const read = "LocalEncryptionHandler.Read"
	const dec = "LocalEncryptionHandler.decryptData"
	const seal = "LocalEncryptionHandler.Seal"

	// data key length, and that generateDEK really uses it
	l.nat("dekLen", sealGo, "AES256KeyLength", 32)
	if !hasExpr(sealGo, "LocalEncryptionHandler.generateDEK", "make([]byte, AES256KeyLength)") {
		lost = append(lost, sealGo+":LocalEncryptionHandler.generateDEK:make([]byte, AES256KeyLength)")
	}

	// framing written by Seal: [byte(len wrapped)] ++ wrapped ++ ciphertext
	for _, e := range []string{"[]byte{byte(keyLength)}", "len(wrappedKey)", "dataSequence[:1]",
		"dataSequence[1:keyLength+1]", "dataSequence[keyLength+1:]",
		"len(keySize) + keyLength + len(ciphertext)"} {
		if !hasExpr(sealGo, seal, e) {
			lost = append(lost, sealGo+":"+seal+":"+e+" (framing expression not found)")
		}
	}
	// gcm.Seal(nonce, nonce, plaintext, nil): the nonce is the prefix of the ciphertext
	if !hasExpr(sealGo, "LocalEncryptionHandler.encryptData", "gcm.Seal(nonce, nonce, plaintextData, nil)") {
		lost = append(lost, sealGo+":LocalEncryptionHandler.encryptData:gcm.Seal(nonce, nonce, plaintextData, nil)")
	}

	// framing read back by Read / decryptData
	k, ok := addConst(sealGo, read, "keyEndPos", "keySize")
	if !ok {
		lost = append(lost, sealGo+":"+read+":keyEndPos := keySize + 1")
		k = 1
	}
	facts["Seal.keyEndOffset"] = k
	l.def("keyEndOffset", "Nat", itoa(k), "keyEndPos := keySize + <this>  (Read)")
	wrappedLo := int64(1)
	if !hasExpr(sealGo, read, "encryptedData[1:keyEndPos]") {
		lost = append(lost, sealGo+":"+read+":encryptedData[1:keyEndPos]")
	}
	l.def("wrappedLo", "Nat", itoa(wrappedLo), "encryptedData[<this>:keyEndPos]  (Read)")
	for _, e := range []string{"int(encryptedData[0])", "encryptedData[keyEndPos:]"} {
		if !hasExpr(sealGo, read, e) {
			lost = append(lost, sealGo+":"+read+":"+e)
		}
	}
	for _, e := range []string{"encryptedData[:nonceSize]", "encryptedData[nonceSize:]", "gcm.Open(nil, nonce, ciphertext, nil)"} {
		if !hasExpr(sealGo, dec, e) {
			lost = append(lost, sealGo+":"+dec+":"+e)
		}
	}

	// bounds checks (present only in the repaired code: fixes/C17-read-bounds.diff)
	guarded := func(name, fn, pattern, prev string, uses ...string) {
		n := len(lost)
		l.cmp(name, sealGo, fn, pattern, 0, prev)
		if len(lost) == n {
			guardPrecedes(sealGo, fn, pattern, uses...)
		}
	}
	guarded("guardEmpty", read, "len(encryptedData) ? 0", "eq", "encryptedData[0]")
	guarded("guardKeyBeyond", read, "keyEndPos ? len(encryptedData)", "gt", "encryptedData[1:keyEndPos]", "encryptedData[keyEndPos:]")
	guarded("guardNonceShort", dec, "len(encryptedData) ? nonceSize", "lt", "encryptedData[:nonceSize]", "encryptedData[nonceSize:]")

	// order inside Read: unwrap before decrypt (an unwrap error hides a short ciphertext)
	u := callPositions(sealGo, read, "handler.unwrapDEK")
	d := callPositions(sealGo, read, "handler.decryptData")
	if !(len(u) == 1 && len(d) == 1 && u[0] < d[0]) {
		lost = append(lost, sealGo+":"+read+" call order (unwrapDEK, decryptData)")
	}
	// order inside Seal: encrypt, then wrap
	e := callPositions(sealGo, seal, "handler.encryptData")
	w := callPositions(sealGo, seal, "handler.wrapDEK")
	if !(len(e) == 1 && len(w) == 1 && e[0] < w[0]) {
		lost = append(lost, sealGo+":"+seal+" call order (encryptData, wrapDEK)")
	}
	return l
}

func itoa(v int64) string {
	if v == 0 {
		return "0"
	}
	neg := v < 0
	if neg {
		v = -v
	}
	var b []string
	for v > 0 {
		b = append([]string{string(rune('0' + v%10))}, b...)
		v /= 10
	}
	if neg {
		return "-" + strings.Join(b, "")
	}
	return strings.Join(b, "")
}
