package main

import (
	"go/ast"
	"go/token"
	"strings"
)

// genGroupSub emits the decision points of the group-subscription hand-over (C13) in
// server/partition.go:
//
//   - refuseCmp: `existing.groupEpoch ? groupEpoch` => refuse (partition.Subscribe)
//   - cleanupBySubscription: does removeGroupSubscriber delete the group's entry after comparing
//     the SUBSCRIPTION (`member.sub == sub`, true) or the CONSUMER ID (`x.consumerID == consumerID`,
//     false)? Both shapes are located; any other shape is a lost decision point.
//   - shape facts the model mirrors literally (each one pinned by an `example … = true := rfl`
//     in Props/C13.lean): the group section of Subscribe runs with consumersMu held until
//     Subscribe returns; an accepted subscriber ALWAYS replaces (`previousSubscriber = existing`
//     is unconditional after the refusal test); the previous subscription is closed iff there was
//     one; registration is guarded by `groupID != ""` and stores {consumerID, groupEpoch, sub};
//     statement order  refusal < start/stop validation < Close(previous) < reader creation <
//     loop start < registration; the loop defers removeGroupSubscriber under `groupID != ""`,
//     before the read loop; removeGroupSubscriber runs under consumersMu; the loop's clean-up
//     argument matches the comparison.
func genGroupSub() *leanFile {
	l := newLean("GroupSub", "/repo/"+partitionGo)
	l.cmp("refuseCmp", partitionGo, "partition.Subscribe", "existing.groupEpoch ? groupEpoch", 0, "gt")

	f := load(partitionGo)
	lose := func(what string) { lost = append(lost, partitionGo+":"+what) }

	// ---------------------------------------------------------------- removeGroupSubscriber
	bySub, located := true, false
	cleanupLocked := false
	cleanupParam := "" // name of the second parameter
	if fd := f.fn("partition.removeGroupSubscriber"); fd != nil && fd.Body != nil {
		subParams := map[string]bool{} // parameters of type *subscription
		if fd.Type.Params != nil {
			idx := 0
			for _, fl := range fd.Type.Params.List {
				for _, nm := range fl.Names {
					if idx == 1 {
						cleanupParam = nm.Name
					}
					idx++
					if nows(f.src(fl.Type)) == "*subscription" {
						subParams[nm.Name] = true
					}
				}
			}
		}
		cleanupLocked = hasStmt(f, fd.Body.List, "p.consumersMu.Lock()") && hasStmt(f, fd.Body.List, "defer p.consumersMu.Unlock()")
		n := 0
		ast.Inspect(fd.Body, func(x ast.Node) bool {
			is, ok := x.(*ast.IfStmt)
			if !ok || !hasStmt(f, is.Body.List, "delete(p.consumers, groupID)") {
				return true
			}
			n++
			be, ok := is.Cond.(*ast.BinaryExpr)
			if !ok || be.Op != token.EQL || is.Else != nil {
				return true
			}
			for _, pair := range [][2]ast.Expr{{be.X, be.Y}, {be.Y, be.X}} {
				sel, ok1 := pair[0].(*ast.SelectorExpr)
				id, ok2 := pair[1].(*ast.Ident)
				if !ok1 || !ok2 {
					continue
				}
				switch {
				case sel.Sel.Name == "consumerID" && id.Name == "consumerID" && !subParams[id.Name]:
					bySub, located = false, true
				case sel.Sel.Name == "sub" && subParams[id.Name]:
					bySub, located = true, true
				}
			}
			return true
		})
		if n != 1 {
			located = false
		}
	}
	if !located {
		lose("partition.removeGroupSubscriber: if <entry>.sub == sub | <entry>.consumerID == consumerID { delete(p.consumers, groupID) }")
	}
	facts["GroupSub.cleanupBySubscription"] = map[string]interface{}{"file": partitionGo, "func": "partition.removeGroupSubscriber", "value": bySub, "found": located}
	l.def("cleanupBySubscription", "Bool", boolLit(bySub),
		"removeGroupSubscriber deletes the entry iff it still holds THIS subscription (true) / a subscription of the same consumer id (false)")
	if !cleanupLocked {
		lose("partition.removeGroupSubscriber: p.consumersMu.Lock(); defer p.consumersMu.Unlock()")
	}
	l.def("cleanupLocked", "Bool", boolLit(cleanupLocked), "removeGroupSubscriber runs under consumersMu")

	// ---------------------------------------------------------------- Subscribe
	var (
		lockDeferred, lookup, replaceAny, closePrev, registerGuard, registerFields bool
		posRefuse, posStart, posStop, posClose, posReader, posGo, posRegister      token.Pos
	)
	if fd := f.fn("partition.Subscribe"); fd != nil && fd.Body != nil {
		for _, st := range fd.Body.List {
			is, ok := st.(*ast.IfStmt)
			if !ok {
				continue
			}
			cond := nows(f.src(is.Cond))
			switch {
			case cond == nows(`groupID != ""`) && hasStmt(f, is.Body.List, "p.consumersMu.Lock()"):
				// lock section: Lock, defer Unlock (held until Subscribe returns), lookup, refusal, replacement
				lockDeferred = hasStmt(f, is.Body.List, "defer p.consumersMu.Unlock()")
				lookup = hasStmt(f, is.Body.List, "existing, ok := p.consumers[groupID]")
				for _, s2 := range is.Body.List {
					is2, ok := s2.(*ast.IfStmt)
					if !ok || nows(f.src(is2.Cond)) != "ok" || len(is2.Body.List) != 2 {
						continue
					}
					ref, ok1 := is2.Body.List[0].(*ast.IfStmt)
					if ok1 && len(ref.Body.List) == 1 && ref.Else == nil {
						if _, isRet := ref.Body.List[0].(*ast.ReturnStmt); isRet {
							if be, ok := ref.Cond.(*ast.BinaryExpr); ok && nows(f.src(be.X)) == "existing.groupEpoch" && nows(f.src(be.Y)) == "groupEpoch" {
								posRefuse = ref.Pos()
								// unconditional replacement of whoever is registered
								replaceAny = nows(f.src(is2.Body.List[1])) == nows("previousSubscriber = existing")
							}
						}
					}
				}
			case cond == nows("previousSubscriber != nil") && is.Else == nil:
				ast.Inspect(is.Body, func(x ast.Node) bool {
					if ce, ok := x.(*ast.CallExpr); ok && nows(f.src(ce.Fun)) == "previousSubscriber.sub.Close" {
						closePrev = true
						posClose = ce.Pos()
					}
					return true
				})
			case cond == nows(`groupID != ""`) && len(is.Body.List) == 1 && is.Else == nil:
				as, ok := is.Body.List[0].(*ast.AssignStmt)
				if !ok || len(as.Lhs) != 1 || nows(f.src(as.Lhs[0])) != "p.consumers[groupID]" {
					continue
				}
				registerGuard = true
				posRegister = as.Pos()
				rhs := nows(f.src(as.Rhs[0]))
				registerFields = strings.HasPrefix(rhs, "&groupMember{") &&
					strings.Contains(rhs, "consumerID:consumerID") && strings.Contains(rhs, "groupEpoch:groupEpoch") && strings.Contains(rhs, "sub:sub")
			}
		}
		first := func(callee string) token.Pos {
			var p token.Pos
			ast.Inspect(fd.Body, func(x ast.Node) bool {
				if ce, ok := x.(*ast.CallExpr); ok && p == 0 && nows(f.src(ce.Fun)) == callee {
					p = ce.Pos()
				}
				return true
			})
			return p
		}
		posStart, posStop = first("p.getStartOffset"), first("p.getStopOffset")
		posReader = first("p.log.NewReader")
		if r := first("p.log.NewReverseReader"); r != 0 && (posReader == 0 || r < posReader) {
			posReader = r
		}
		posGo = first("p.srv.startGoroutine")
	} else {
		lose("partition.Subscribe (function not found)")
	}
	for _, c := range []struct {
		ok   bool
		what string
	}{
		{lockDeferred, `partition.Subscribe: if groupID != "" { p.consumersMu.Lock(); defer p.consumersMu.Unlock() … }`},
		{lookup, "partition.Subscribe: existing, ok := p.consumers[groupID]"},
		{posRefuse != 0, "partition.Subscribe: if ok { if existing.groupEpoch ? groupEpoch { return … } … }"},
		{closePrev, "partition.Subscribe: if previousSubscriber != nil { … previousSubscriber.sub.Close() }"},
		{registerGuard, `partition.Subscribe: if groupID != "" { p.consumers[groupID] = … }`},
		{posStart != 0 && posStop != 0 && posReader != 0 && posGo != 0, "partition.Subscribe: calls of getStartOffset / getStopOffset / NewReader / startGoroutine"},
	} {
		if !c.ok {
			lose(c.what)
		}
	}
	l.def("subscribeLocked", "Bool", boolLit(lockDeferred && lookup), "the group section of Subscribe holds consumersMu until Subscribe returns (deferred unlock)")
	l.def("replaceAny", "Bool", boolLit(replaceAny), "if ok { if refuse { return }; previousSubscriber = existing } — every accepted subscriber replaces the registered one")
	l.def("closePrevious", "Bool", boolLit(closePrev), "if previousSubscriber != nil { previousSubscriber.sub.Close() }")
	l.def("registerGuarded", "Bool", boolLit(registerGuard && registerFields), `if groupID != "" { p.consumers[groupID] = &groupMember{consumerID, groupEpoch, sub} }`)
	order := posRefuse != 0 && posRefuse < posStart && posStart < posStop && posStop < posClose && posClose < posReader && posReader < posGo && posGo < posRegister
	l.def("orderOk", "Bool", boolLit(order), "refusal < getStartOffset < getStopOffset < Close(previous) < reader creation < loop start < registration")

	// ---------------------------------------------------------------- newSubscribeLoop
	deferGuard, deferArg := false, ""
	if fd := f.fn("partition.newSubscribeLoop"); fd != nil && fd.Body != nil {
		ast.Inspect(fd.Body, func(x ast.Node) bool {
			fl, ok := x.(*ast.FuncLit)
			if !ok || deferGuard {
				return true
			}
			seenFor := false
			for _, st := range fl.Body.List {
				if _, isFor := st.(*ast.ForStmt); isFor {
					seenFor = true
				}
				is, ok := st.(*ast.IfStmt)
				if !ok || seenFor || nows(f.src(is.Cond)) != nows(`groupID != ""`) || len(is.Body.List) != 1 {
					continue
				}
				if ds, ok := is.Body.List[0].(*ast.DeferStmt); ok && nows(f.src(ds.Call.Fun)) == "p.removeGroupSubscriber" && len(ds.Call.Args) == 2 &&
					nows(f.src(ds.Call.Args[0])) == "groupID" {
					deferGuard = true
					deferArg = nows(f.src(ds.Call.Args[1]))
				}
			}
			return false
		})
	}
	if !deferGuard {
		lose(`partition.newSubscribeLoop: if groupID != "" { defer p.removeGroupSubscriber(groupID, …) } before the read loop`)
	}
	l.def("cleanupDeferred", "Bool", boolLit(deferGuard), `the loop defers removeGroupSubscriber under groupID != "", before its read loop`)
	// the loop hands over what the clean-up compares (its own subscription / its consumer id)
	argOk := located && deferGuard && deferArg == cleanupParam && ((bySub && deferArg != "consumerID") || (!bySub && deferArg == "consumerID"))
	l.def("cleanupArgMatches", "Bool", boolLit(argOk), "defer p.removeGroupSubscriber(groupID, "+deferArg+") passes what removeGroupSubscriber compares")
	return l
}

// hasStmt: is one of the statements textually (whitespace-insensitive) equal to text?
func hasStmt(f *file, list []ast.Stmt, text string) bool {
	for _, s := range list {
		if nows(f.src(s)) == nows(text) {
			return true
		}
	}
	return false
}
