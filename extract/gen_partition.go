package main

import "fmt"

const (
	partitionGo = "server/partition.go"
	apiGo       = "server/api.go"
)

func genPartition() *leanFile {
	l := newLean("Partition", "/repo/server/partition.go, /repo/server/api.go")
	// C16: with concurrency control the sequencer appends one message at a time, and the
	// API refuses AckPolicy NONE for such streams.
	one := ifAssign(partitionGo, "partition.messageProcessingLoop", "p.log.IsConcurrencyControlEnabled()", "batchSize = 1")
	l.def("occBatchOne", "Bool", fmt.Sprint(one), "if p.log.IsConcurrencyControlEnabled() { batchSize = 1 }")
	none := hasCond(apiGo, "apiServer.ensurePublishPreconditions", "partition.log.IsConcurrencyControlEnabled() && req.AckPolicy == client.AckPolicy_NONE")
	l.def("occRefusesAckNone", "Bool", fmt.Sprint(none), "OCC streams refuse AckPolicy NONE")
	return l
}
