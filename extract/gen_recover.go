package main

// C05 (crash recovery): facts about the ORDER of file-system effects and about what
// recovery does, regenerated from server/commitlog on every run, plus the table of
// crashPoint("…") hooks that tie the model's crash marks to the code.

import (
	"fmt"
	"go/ast"
	"go/token"
	"sort"
	"strconv"
	"strings"
)

// c05CallsIn returns (callee text, position) of every call inside fnName, in source order.
func c05CallsIn(rel, fnName string) (out []struct {
	fun  string
	args []string
	pos  int
}, ok bool) {
	f := load(rel)
	fd := f.fn(fnName)
	if fd == nil || fd.Body == nil {
		lost = append(lost, rel+":"+fnName+" (function not found)")
		return nil, false
	}
	ast.Inspect(fd.Body, func(n ast.Node) bool {
		if ce, ok := n.(*ast.CallExpr); ok {
			var args []string
			for _, a := range ce.Args {
				args = append(args, nows(f.src(a)))
			}
			out = append(out, struct {
				fun  string
				args []string
				pos  int
			}{nows(f.src(ce.Fun)), args, int(ce.Pos())})
		}
		return true
	})
	sort.Slice(out, func(i, j int) bool { return out[i].pos < out[j].pos })
	return out, true
}

func c05FirstCall(rel, fnName, callee string) int {
	p := callPositions(rel, fnName, callee)
	if len(p) == 0 {
		return -1
	}
	return p[0]
}

// before reports whether the first call of a precedes the first call of b inside fnName;
// a missing call is a lost decision point.
func c05Before(rel, fnName, a, b string, prev bool) bool {
	pa, pb := c05FirstCall(rel, fnName, a), c05FirstCall(rel, fnName, b)
	if pa < 0 || pb < 0 {
		lost = append(lost, fmt.Sprintf("%s:%s: order of %s and %s", rel, fnName, a, b))
		return prev
	}
	return pa < pb
}

// C05Hooks: function -> crash point names expected inside it, in source order. A hook that
// is missing (or an extra one) breaks the tie between the model's marks and the code.
var c05Hooks = []struct{ file, fn string; names []string }{
	{segmentGo, "newSegment", []string{"segment.new.log", "segment.new.index"}},
	{segmentGo, "segment.seal", []string{"segment.seal.shrink"}},
	{segmentGo, "segment.WriteMessageSet", []string{"segment.write.log"}},
	{segmentGo, "segment.Replace", []string{"segment.replace.log-renamed", "segment.replace.index-renamed"}},
	{segmentGo, "segment.Delete", []string{"segment.delete.log", "segment.delete.index"}},
	{indexGo, "newIndex", []string{"index.new.open", "index.new.prealloc"}},
	{indexGo, "index.writeEntries", []string{"index.write"}},
	{indexGo, "index.Close", []string{"index.close.shrink"}},
	{commitlogGo, "commitLog.append", []string{"log.append.written", "log.append.done"}},
	{commitlogGo, "commitLog.close", []string{"log.close.hw", "log.close.segment"}},
	{commitlogGo, "commitLog.Truncate", []string{"log.truncate.deleted", "log.truncate.target-deleted", "log.truncate.created", "log.truncate.copied", "log.truncate.replaced"}},
	{commitlogGo, "commitLog.split", []string{"log.split.created"}},
	{commitlogGo, "commitLog.Clean", []string{"log.clean.cleaned", "log.clean.done"}},
	{commitlogGo, "commitLog.checkpointHW", []string{"log.hw.after", "log.hw.before"}},
	{epochGo, "leaderEpochCache.flush", []string{"epoch.flush.after", "epoch.flush.before"}},
	{compactGo, "compactCleaner.cleanSegment", []string{"compact.created", "compact.written", "compact.replaced"}},
	{compactGo, "cleanupEmptySegment", []string{"compact.empty.new-deleted"}},
	{deleteGo, "deleteCleaner.deleteSegments", []string{"retention.deleted"}},
}

func genRecover() *leanFile {
	l := newLean("Recover", "/repo/server/commitlog/{segment,index,commitlog,leader_epoch_cache,compact_cleaner,delete_cleaner}.go")

	// --- pre-allocation size of an index: `opts.bytes = 10 * 1024 * 1024` in newIndex
	var idxBytes int64 = 10 * 1024 * 1024
	found := false
	if fd := load(indexGo).fn("newIndex"); fd != nil && fd.Body != nil {
		f := load(indexGo)
		ast.Inspect(fd.Body, func(n ast.Node) bool {
			as, ok := n.(*ast.AssignStmt)
			if !ok || len(as.Lhs) != 1 || len(as.Rhs) != 1 || nows(f.src(as.Lhs[0])) != "opts.bytes" {
				return true
			}
			var eval func(e ast.Expr) (int64, bool)
			eval = func(e ast.Expr) (int64, bool) {
				switch x := e.(type) {
				case *ast.BasicLit:
					v, err := strconv.ParseInt(x.Value, 0, 64)
					return v, err == nil
				case *ast.ParenExpr:
					return eval(x.X)
				case *ast.BinaryExpr:
					a, ok1 := eval(x.X)
					b, ok2 := eval(x.Y)
					if ok1 && ok2 && x.Op == token.MUL {
						return a * b, true
					}
					if ok1 && ok2 && x.Op == token.ADD {
						return a + b, true
					}
				}
				return 0, false
			}
			if v, ok := eval(as.Rhs[0]); ok {
				idxBytes, found = v, true
			}
			return true
		})
	}
	if !found {
		lost = append(lost, indexGo+":newIndex: opts.bytes = <default index size>")
	}
	facts["Recover.indexBytes"] = idxBytes
	l.def("indexBytes", "Nat", fmt.Sprint(idxBytes), "newIndex: default size of a pre-allocated index file")

	// --- InitializePosition: the emptiness test of a slot
	ic := condTexts(indexGo, "index.InitializePosition")
	_ = ic
	emptyOK := false
	if fd := load(indexGo).fn("index.InitializePosition"); fd != nil {
		f := load(indexGo)
		ast.Inspect(fd.Body, func(n ast.Node) bool {
			if rs, ok := n.(*ast.ReturnStmt); ok && len(rs.Results) == 1 &&
				nows(f.src(rs.Results[0])) == nows("entry.Position == 0 && entry.Timestamp == 0 && entry.Size == 0") {
				emptyOK = true
			}
			return true
		})
	}
	if !emptyOK {
		lost = append(lost, indexGo+":index.InitializePosition: empty-slot test (Position == 0 && Timestamp == 0 && Size == 0)")
	}
	l.cmp("corruptCmp", indexGo, "index.InitializePosition", "entry.Offset ? idx.baseOffset", 0, "lt")

	// --- order of effects
	wl := c05Before(segmentGo, "segment.WriteMessageSet", "s.write", "s.Index.writeEntries", true)
	l.def("writeLogFirst", "Bool", fmt.Sprint(wl), "WriteMessageSet: s.write(log) before s.Index.writeEntries")

	// Replace: which file is renamed first
	renameLogFirst, rok := true, false
	if calls, ok := c05CallsIn(segmentGo, "segment.Replace"); ok {
		var ren []string
		for _, c := range calls {
			if c.fun == "os.Rename" && len(c.args) == 2 {
				ren = append(ren, c.args[0])
			}
		}
		if len(ren) == 2 && ren[0] == "s.logPath()" && ren[1] == "s.indexPath()" {
			renameLogFirst, rok = true, true
		} else if len(ren) == 2 && ren[0] == "s.indexPath()" && ren[1] == "s.logPath()" {
			renameLogFirst, rok = false, true
		}
	}
	if !rok {
		lost = append(lost, segmentGo+":segment.Replace: two os.Rename calls (log, index)")
	}
	l.def("renameLogFirst", "Bool", fmt.Sprint(renameLogFirst), "Replace: the log file is renamed before the index file")

	// append: the leader-epoch assignment relative to the write
	ef := c05Before(commitlogGo, "commitLog.append", "l.leaderEpochCache.Assign", "segment.WriteMessageSet", false)
	l.def("epochFirst", "Bool", fmt.Sprint(ef), "commitLog.append: leaderEpochCache.Assign before segment.WriteMessageSet")

	// Truncate: later segments are deleted before the target segment is rewritten
	td := c05Before(commitlogGo, "commitLog.Truncate", "l.segments[i].Delete", "seg.Truncated", true)
	l.def("truncateDeletesFirst", "Bool", fmt.Sprint(td), "Truncate: following segments are deleted before the target is rewritten")

	// --- stale `.cleaned` / `.truncated` files: reopened (O_APPEND) or removed first?
	stale := func(fn string) (removes, okk bool) {
		calls, ok := c05CallsIn(segmentGo, fn)
		if !ok {
			return false, false
		}
		direct, rem := -1, -1
		var helper string
		for _, c := range calls {
			switch {
			case c.fun == "newSegment" && direct < 0:
				direct = c.pos
			case c.fun == "os.Remove" && rem < 0:
				rem = c.pos
			case strings.HasPrefix(c.fun, "s.") && helper == "":
				helper = "segment." + strings.TrimPrefix(c.fun, "s.")
			}
		}
		if direct >= 0 {
			return rem >= 0 && rem < direct, true
		}
		if helper != "" && load(segmentGo).fn(helper) != nil {
			hc, _ := c05CallsIn(segmentGo, helper)
			d, r := -1, -1
			for _, c := range hc {
				if c.fun == "newSegment" && d < 0 {
					d = c.pos
				}
				if c.fun == "os.Remove" && r < 0 {
					r = c.pos
				}
			}
			if d >= 0 {
				return r >= 0 && r < d, true
			}
		}
		return false, false
	}
	rc, ok1 := stale("segment.Cleaned")
	rt, ok2 := stale("segment.Truncated")
	if !ok1 || !ok2 || rc != rt {
		lost = append(lost, segmentGo+":segment.Cleaned/Truncated: how the suffixed segment is created")
	}
	l.def("removeStaleSuffix", "Bool", fmt.Sprint(rc && rt), "Cleaned()/Truncated() remove a left-over file of that name before creating the segment")
	// the open flags of newSegment
	appendFlag := false
	if calls, ok := c05CallsIn(segmentGo, "newSegment"); ok {
		for _, c := range calls {
			if c.fun == "os.OpenFile" && len(c.args) >= 2 {
				appendFlag = strings.Contains(c.args[1], "os.O_APPEND") && !strings.Contains(c.args[1], "os.O_TRUNC")
			}
		}
	}
	l.def("openAppends", "Bool", fmt.Sprint(appendFlag), "newSegment opens the log with O_APPEND and without O_TRUNC (an existing file is appended to)")

	// --- does opening a segment reconcile the log file with the index (trim the tail)?
	trims := false
	for _, fn := range []string{"newSegment", "segment.setupIndex"} {
		calls, _ := c05CallsIn(segmentGo, fn)
		for _, c := range calls {
			if c.fun == "s.log.Truncate" || c.fun == "log.Truncate" {
				trims = true
			}
			if strings.HasPrefix(c.fun, "s.") {
				h := "segment." + strings.TrimPrefix(c.fun, "s.")
				if fd := load(segmentGo).fn(h); fd != nil && h != "segment.setupIndex" && h != "segment.rebuildIndex" {
					hc, _ := c05CallsIn(segmentGo, h)
					for _, c2 := range hc {
						if c2.fun == "s.log.Truncate" {
							trims = true
						}
					}
				}
			}
		}
	}
	l.def("validateOnOpen", "Bool", fmt.Sprint(trims), "opening a segment checks the last index entry against the log and cuts the log back to the indexed end")

	// --- open(): only names ending exactly in .index / .log are looked at
	oc := condTexts(commitlogGo, "commitLog.open")
	exact := anyHas(oc, "strings.HasSuffix(file.Name(), indexFileSuffix)") && anyHas(oc, "strings.HasSuffix(file.Name(), logFileSuffix)")
	if !exact {
		lost = append(lost, commitlogGo+":commitLog.open: HasSuffix(name, .index/.log) dispatch")
	}
	l.def("openExactSuffix", "Bool", fmt.Sprint(exact), "open(): files are dispatched by strings.HasSuffix(name, \".index\"/\".log\"); *.cleaned / *.truncated are ignored")

	// --- the hook table
	var rows []string
	for _, h := range c05Hooks {
		calls, ok := c05CallsIn(h.file, h.fn)
		if !ok {
			continue
		}
		var got []string
		for _, c := range calls {
			if c.fun == "crashPoint" && len(c.args) == 1 {
				got = append(got, strings.Trim(c.args[0], `"`))
			}
		}
		if strings.Join(got, ",") != strings.Join(h.names, ",") {
			lost = append(lost, fmt.Sprintf("%s:%s: crashPoint hooks %v (found %v)", h.file, h.fn, h.names, got))
		}
		for _, g := range got {
			rows = append(rows, fmt.Sprintf("(%q, %q)", h.fn, g))
		}
	}
	facts["Recover.hooks"] = rows
	l.def("hooks", "List (String × String)", "["+strings.Join(rows, ", ")+"]", "crashPoint hooks found: (function, name)")
	return l
}
