package main

import (
	"fmt"
	"go/ast"
	"go/token"
	"os"
	"path/filepath"
	"regexp"
	"sort"
	"strings"
)

const (
	c06FsmGo         = "server/fsm.go"
	c06InternalProto = "server/protocol/internal.proto"
)

// what the hand-written model (Model/Metadata.lean) covers; anything else that turns up in the
// source is reported as lost.
var (
	c06ModelledOps = map[string]string{
		"CREATE_STREAM": "s.applyCreateStream", "SHRINK_ISR": "s.applyShrinkISR", "CHANGE_LEADER": "s.applyChangePartitionLeader",
		"EXPAND_ISR": "s.applyExpandISR", "DELETE_STREAM": "s.applyDeleteStream", "PAUSE_STREAM": "s.applyPauseStream",
		"SET_STREAM_READONLY": "s.applySetStreamReadonly", "RESUME_STREAM": "s.applyResumeStream",
		"CREATE_CONSUMER_GROUP": "s.applyCreateConsumerGroup", "JOIN_CONSUMER_GROUP": "s.applyJoinConsumerGroup",
		"LEAVE_CONSUMER_GROUP": "s.applyLeaveConsumerGroup", "CHANGE_CONSUMER_GROUP_COORDINATOR": "s.applyChangeConsumerGroupCoordinator",
		"PUBLISH_ACTIVITY": "s.activity.SetLastPublishedRaftIndex",
	}
	// ops of the enum that are never written to the Raft log (propagation only)
	c06NotLogged = map[string]bool{"REPORT_LEADER": true, "REPORT_CONSUMER_GROUP_COORDINATOR": true}
	c06Messages  = map[string][]string{
		"Partition":        {"subject", "stream", "id", "group", "replicationFactor", "replicas", "leader", "isr", "leaderEpoch", "epoch", "paused", "readonly"},
		"Stream":           {"name", "subject", "partitions", "config", "creationTimestamp"},
		"ConsumerGroup":    {"id", "members", "coordinator", "epoch"},
		"Consumer":         {"id", "streams"},
		"MetadataSnapshot": {"streams", "groups"},
	}
)

func eqList(a, b []string) bool {
	if len(a) != len(b) {
		return false
	}
	for i := range a {
		if a[i] != b[i] {
			return false
		}
	}
	return true
}

// protoBlock returns the body of `kind name { … }` of the .proto file (no nesting inside expected).
func protoBlock(src, kind, name string) (string, bool) {
	re := regexp.MustCompile(`(?m)^` + kind + `\s+` + name + `\s*\{`)
	loc := re.FindStringIndex(src)
	if loc == nil {
		return "", false
	}
	rest := src[loc[1]:]
	depth := 0
	for i, c := range rest {
		switch c {
		case '{':
			depth++
		case '}':
			if depth == 0 {
				return rest[:i], true
			}
			depth--
		}
	}
	return "", false
}

var (
	protoComment = regexp.MustCompile(`//[^\n]*`)
	protoField   = regexp.MustCompile(`([A-Za-z_][A-Za-z0-9_]*)\s*=\s*[0-9]+\s*(\[[^\]]*\])?\s*;`)
)

func protoNames(body string) []string {
	body = protoComment.ReplaceAllString(body, "")
	var out []string
	for _, m := range protoField.FindAllStringSubmatch(body, -1) {
		out = append(out, m[1])
	}
	return out
}

// calleesIn lists the callee texts of all calls in fn whose text has one of the prefixes.
func calleesIn(rel, fnName string, prefixes ...string) []string {
	f := load(rel)
	fd := f.fn(fnName)
	if fd == nil || fd.Body == nil {
		lost = append(lost, rel+":"+fnName+" (function not found)")
		return nil
	}
	var out []string
	ast.Inspect(fd.Body, func(n ast.Node) bool {
		if ce, ok := n.(*ast.CallExpr); ok {
			t := nows(f.src(ce.Fun))
			for _, p := range prefixes {
				if strings.HasPrefix(t, p) {
					out = append(out, t)
					break
				}
			}
		}
		return true
	})
	return out
}

// assignsIn reports whether fn contains `<something><lhsSuffix> = <rhs>`.
func assignsIn(rel, fnName, lhsSuffix, rhs string) bool {
	f := load(rel)
	fd := f.fn(fnName)
	if fd == nil || fd.Body == nil {
		return false
	}
	found := false
	ast.Inspect(fd.Body, func(n ast.Node) bool {
		if as, ok := n.(*ast.AssignStmt); ok && as.Tok == token.ASSIGN && len(as.Lhs) == 1 && len(as.Rhs) == 1 {
			if strings.HasSuffix(nows(f.src(as.Lhs[0])), lhsSuffix) && nows(f.src(as.Rhs[0])) == rhs {
				found = true
			}
		}
		return true
	})
	return found
}

// methodsAssigning lists the methods of recv in rel that contain `<x><lhsSuffix> = <rhs>`.
func methodsAssigning(rel, recv, lhsSuffix, rhs string) []string {
	f := load(rel)
	var out []string
	for _, d := range f.f.Decls {
		fd, ok := d.(*ast.FuncDecl)
		if !ok || fd.Recv == nil || fd.Body == nil || len(fd.Recv.List) == 0 {
			continue
		}
		t := fd.Recv.List[0].Type
		if s, ok := t.(*ast.StarExpr); ok {
			t = s.X
		}
		if id, ok := t.(*ast.Ident); !ok || id.Name != recv {
			continue
		}
		if assignsIn(rel, recv+"."+fd.Name.Name, lhsSuffix, rhs) {
			out = append(out, fd.Name.Name)
		}
	}
	return out
}

func callsMethodNamed(rel, fnName string, methods []string) bool {
	f := load(rel)
	fd := f.fn(fnName)
	if fd == nil || fd.Body == nil {
		return false
	}
	found := false
	ast.Inspect(fd.Body, func(n ast.Node) bool {
		if ce, ok := n.(*ast.CallExpr); ok {
			if se, ok := ce.Fun.(*ast.SelectorExpr); ok {
				for _, m := range methods {
					if se.Sel.Name == m {
						found = true
					}
				}
			}
		}
		return true
	})
	return found
}

// genMetadata emits the decision points and tables of the metadata state machine (C06):
// the epoch idempotency guards, the op -> apply dispatch of Server.apply, the Op enum and the
// protobuf field lists of what a snapshot carries, the fields Snapshot() fills in, and the two
// behavioural switches (does resume clear the protobuf Paused flag; does newPartition carry the
// protobuf Readonly flag over to the new commit log).
func genMetadata() *leanFile {
	l := newLean("Metadata", "/repo/"+c06FsmGo+", /repo/"+metadataGo+", /repo/"+partitionGo+", /repo/"+groupsGo+", /repo/"+c06InternalProto)
	l.cmp("shrinkEpochGuard", metadataGo, "metadataAPI.RemoveFromISR", "partition.GetEpoch() ? epoch", 0, "ge")
	l.cmp("expandEpochGuard", metadataGo, "metadataAPI.AddToISR", "partition.GetEpoch() ? epoch", 0, "ge")
	l.cmp("leaderEpochGuard", metadataGo, "metadataAPI.ChangeLeader", "partition.GetEpoch() ? epoch", 0, "ge")
	l.cmp("coordEpochGuard", metadataGo, "metadataAPI.ChangeGroupCoordinator", "epoch ? newEpoch", 0, "ge")
	l.cmp("setLeaderGuard", partitionGo, "partition.SetLeader", "epoch ? p.LeaderEpoch", 0, "lt")
	l.cmp("setCoordinatorGuard", groupsGo, "consumerGroup.SetCoordinator", "epoch ? c.epoch", 0, "lt")

	// ---- pause / resume: the run-time flag and the protobuf flag
	if !assignsIn(partitionGo, "partition.Pause", "p.paused", "true") || !assignsIn(partitionGo, "partition.Pause", "p.Paused", "true") {
		lost = append(lost, partitionGo+":partition.Pause (p.paused = true; p.Paused = true)")
	}
	if !ifAssign(metadataGo, "metadataAPI.addPartition", "protoPartition.Paused", "if err := partition.Pause(); err != nil { return err }") {
		// ifAssign already recorded the loss
	}
	clearers := methodsAssigning(partitionGo, "partition", ".Paused", "false")
	clears := assignsIn(metadataGo, "metadataAPI.ResumePartition", ".Paused", "false") ||
		assignsIn(partitionGo, "Server.replacePartition", ".Paused", "false") ||
		(len(clearers) > 0 && (callsMethodNamed(metadataGo, "metadataAPI.ResumePartition", clearers) || callsMethodNamed(partitionGo, "Server.replacePartition", clearers)))
	if len(callPositions(metadataGo, "metadataAPI.ResumePartition", "m.replacePartition")) != 1 {
		lost = append(lost, metadataGo+":metadataAPI.ResumePartition (resumes by m.replacePartition)")
	}
	facts["Metadata.resumeClearsProtoPaused"] = clears
	l.def("resumeClearsProtoPaused", "Bool", boolLit(clears),
		"ResumePartition / replacePartition (or a partition method they call) assigns <partition>.Paused = false")

	// ---- readonly: run-time flag on the commit log, protobuf flag on the partition
	if !assignsIn(partitionGo, "partition.SetReadonly", "p.Readonly", "readonly") || len(callPositions(partitionGo, "partition.SetReadonly", "p.log.SetReadonly")) != 1 {
		lost = append(lost, partitionGo+":partition.SetReadonly (p.log.SetReadonly(readonly); p.Readonly = readonly)")
	}
	if len(callPositions(partitionGo, "partition.IsReadonly", "p.log.IsReadonly")) != 1 {
		lost = append(lost, partitionGo+":partition.IsReadonly (p.log.IsReadonly())")
	}
	restores := callsMethodNamed(partitionGo, "Server.newPartition", []string{"SetReadonly"})
	facts["Metadata.newPartitionRestoresReadonly"] = restores
	l.def("newPartitionRestoresReadonly", "Bool", boolLit(restores), "Server.newPartition calls <log>.SetReadonly")

	// ---- Server.apply: op -> apply function
	var dispatch [][2]string
	f := load(c06FsmGo)
	if fd := f.fn("Server.apply"); fd != nil && fd.Body != nil {
		ast.Inspect(fd.Body, func(n ast.Node) bool {
			sw, ok := n.(*ast.SwitchStmt)
			if !ok || nows(f.src(sw.Tag)) != "log.Op" {
				return true
			}
			for _, st := range sw.Body.List {
				cc := st.(*ast.CaseClause)
				for _, e := range cc.List {
					name := strings.TrimPrefix(nows(f.src(e)), "proto.Op_")
					callee := ""
					for _, b := range cc.Body {
						ast.Inspect(b, func(x ast.Node) bool {
							if ce, ok := x.(*ast.CallExpr); ok && callee == "" {
								t := nows(f.src(ce.Fun))
								if strings.HasPrefix(t, "s.apply") || strings.HasPrefix(t, "s.activity.") {
									callee = t
								}
							}
							return true
						})
					}
					dispatch = append(dispatch, [2]string{name, callee})
				}
			}
			return false
		})
	}
	if len(dispatch) == 0 {
		lost = append(lost, c06FsmGo+":Server.apply (switch log.Op)")
	}
	seen := map[string]bool{}
	var dl []string
	for _, d := range dispatch {
		seen[d[0]] = true
		if want, ok := c06ModelledOps[d[0]]; !ok {
			lost = append(lost, c06FsmGo+":Server.apply handles Op_"+d[0]+" which the metadata model does not know")
		} else if want != d[1] {
			lost = append(lost, c06FsmGo+":Server.apply Op_"+d[0]+" is dispatched to "+d[1]+", the model was written for "+want)
		}
		dl = append(dl, fmt.Sprintf("(%q, %q)", d[0], d[1]))
	}
	var missing []string
	for op := range c06ModelledOps {
		if !seen[op] {
			missing = append(missing, op)
		}
	}
	sort.Strings(missing)
	for _, op := range missing {
		lost = append(lost, c06FsmGo+":Server.apply no longer handles Op_"+op)
	}
	facts["Metadata.dispatch"] = dispatch
	l.def("dispatch", "List (String × String)", "["+strings.Join(dl, ", ")+"]", "switch log.Op in Server.apply: case -> first s.applyXxx / s.activity call")

	// ---- internal.proto: the Op enum and the messages a snapshot is made of
	pb, err := os.ReadFile(filepath.Join(repo, c06InternalProto))
	if err != nil {
		lost = append(lost, c06InternalProto+" (unreadable)")
	}
	var ops []string
	if body, ok := protoBlock(string(pb), "enum", "Op"); ok {
		ops = protoNames(body)
	} else {
		lost = append(lost, c06InternalProto+":enum Op")
	}
	for _, op := range ops {
		if _, ok := c06ModelledOps[op]; !ok && !c06NotLogged[op] {
			lost = append(lost, c06InternalProto+":enum Op has "+op+" which the metadata model does not know")
		}
		if c06NotLogged[op] && seen[op] {
			lost = append(lost, c06FsmGo+":Server.apply now handles Op_"+op+" (modelled as never logged)")
		}
	}
	l.def("opEnum", "List String", leanStrList(ops), "enum Op of internal.proto")
	for _, msg := range []string{"Partition", "Stream", "ConsumerGroup", "Consumer", "MetadataSnapshot"} {
		var fields []string
		if body, ok := protoBlock(string(pb), "message", msg); ok {
			fields = protoNames(body)
		} else {
			lost = append(lost, c06InternalProto+":message "+msg)
		}
		if !eqList(fields, c06Messages[msg]) {
			lost = append(lost, fmt.Sprintf("%s:message %s has fields %v, the metadata model was written for %v", c06InternalProto, msg, fields, c06Messages[msg]))
		}
		name := "proto" + msg + "Fields"
		if msg == "MetadataSnapshot" {
			name = "protoSnapshotFields"
		}
		l.def(name, "List String", leanStrList(fields), "message "+msg+" of internal.proto")
	}

	// ---- Snapshot(): which fields it fills in, and that it hands out the LIVE partition protobufs
	var sFields, gFields []string
	shares := false
	if fd := f.fn("Server.Snapshot"); fd != nil && fd.Body != nil {
		ast.Inspect(fd.Body, func(n ast.Node) bool {
			switch x := n.(type) {
			case *ast.CompositeLit:
				t := nows(f.src(x.Type))
				if t == "proto.Stream" || t == "proto.ConsumerGroup" {
					for _, e := range x.Elts {
						if kv, ok := e.(*ast.KeyValueExpr); ok {
							if t == "proto.Stream" {
								sFields = append(sFields, nows(f.src(kv.Key)))
							} else {
								gFields = append(gFields, nows(f.src(kv.Key)))
							}
						}
					}
				}
			case *ast.AssignStmt:
				if len(x.Lhs) == 1 && len(x.Rhs) == 1 {
					lhs, rhs := nows(f.src(x.Lhs[0])), nows(f.src(x.Rhs[0]))
					if strings.HasPrefix(lhs, "protoStream.") && !strings.Contains(lhs, "[") {
						sFields = append(sFields, strings.TrimPrefix(lhs, "protoStream."))
					}
					if lhs == "protoStream.Partitions[j]" && rhs == "partition.Partition" {
						shares = true
					}
				}
			}
			return true
		})
	} else {
		lost = append(lost, c06FsmGo+":Server.Snapshot (function not found)")
	}
	if !eqList(sFields, []string{"Name", "Subject", "Config", "Partitions", "CreationTimestamp"}) {
		lost = append(lost, fmt.Sprintf("%s:Server.Snapshot fills proto.Stream fields %v (model: Name Subject Config Partitions CreationTimestamp)", c06FsmGo, sFields))
	}
	if !eqList(gFields, []string{"Id", "Coordinator", "Epoch", "Members"}) {
		lost = append(lost, fmt.Sprintf("%s:Server.Snapshot fills proto.ConsumerGroup fields %v (model: Id Coordinator Epoch Members)", c06FsmGo, gFields))
	}
	if !shares && len(callPositions(c06FsmGo, "Server.Snapshot", "partition.Marshal")) == 0 {
		lost = append(lost, c06FsmGo+":Server.Snapshot (protoStream.Partitions[j] = partition.Partition, or a copy through partition.Marshal())")
	}
	l.def("snapshotStreamFields", "List String", leanStrList(sFields), "fields of proto.Stream set by Server.Snapshot")
	l.def("snapshotGroupFields", "List String", leanStrList(gFields), "fields of proto.ConsumerGroup set by Server.Snapshot")
	l.def("snapshotSharesPartitionProto", "Bool", boolLit(shares), "protoStream.Partitions[j] = partition.Partition (the live object, not a copy)")

	// ---- recovery structure: tombstone on a replayed delete, un-tombstone on a replayed create,
	// purge and start in finishedRecovery, Restore = Reset + create(recovered, epoch 0)
	// RemoveStream: `if recovered { stream.Tombstone() } else { m.deleteStream(…) }`. As found the consumer
	// groups are NOT told when the stream is only tombstoned; fixes/C12-streamdeleted-sync.diff moves the
	// body to removeOrTombstoneStream and notifies in both cases.
	rsWant := []string{"stream.Tombstone", "m.deleteStream", "stream.GetPartitions"}
	prefRS := []string{"stream.", "m.deleteStream", "m.removeStream", "m.notify", "group."}
	rs := calleesIn(metadataGo, "metadataAPI.RemoveStream", prefRS...)
	notifies := false
	hasCall := func(l []string, c string) bool {
		for _, x := range l {
			if x == c {
				return true
			}
		}
		return false
	}
	if !eqList(rs, rsWant) {
		inner := []string(nil)
		if load(metadataGo).fn("metadataAPI.removeOrTombstoneStream") != nil {
			inner = calleesIn(metadataGo, "metadataAPI.removeOrTombstoneStream", prefRS...)
		}
		if hasCall(rs, "m.notifyStreamDeleted") && eqList(inner, rsWant) {
			notifies = true
			rs = inner
		} else {
			lost = append(lost, fmt.Sprintf("%s:metadataAPI.RemoveStream calls %v (model: if recovered { stream.Tombstone() } else { m.deleteStream(…) }, groups notified either never or always)", metadataGo, rs))
		}
	}
	facts["Metadata.tombstoneNotifiesGroups"] = notifies
	l.def("tombstoneNotifiesGroups", "Bool", boolLit(notifies), "RemoveStream tells the consumer groups (m.notifyStreamDeleted) also when the stream is only tombstoned")
	l.def("removeStreamCalls", "List String", leanStrList(rs), "calls of RemoveStream (or removeOrTombstoneStream) on the stream / store")
	asWant := []string{"existing.IsTombstoned", "existing.Close", "m.removeStream", "m.addPartition", "m.removeStream"}
	prefAS := []string{"existing.", "m.removeStream", "m.addPartition", "m.notify"}
	as := calleesIn(metadataGo, "metadataAPI.AddStream", prefAS...)
	if !eqList(as, asWant) {
		inner := []string(nil)
		if load(metadataGo).fn("metadataAPI.addStream") != nil {
			inner = calleesIn(metadataGo, "metadataAPI.addStream", prefAS...)
		}
		if hasCall(as, "m.notifyStreamDeleted") && eqList(inner, asWant) {
			as = inner
		} else {
			lost = append(lost, fmt.Sprintf("%s:metadataAPI.AddStream calls %v (model: un-tombstone = Close + removeStream + group notification, then addPartition)", metadataGo, as))
		}
	}
	l.def("addStreamCalls", "List String", leanStrList(as), "calls of AddStream (or addStream) on an existing stream / the store")
	// StreamDeleted: which condition returns before `c.epoch = epoch`
	emptyKeeps, foundOk := false, false
	gf := load(groupsGo)
	if fd := gf.fn("consumerGroup.StreamDeleted"); fd != nil && fd.Body != nil {
		ast.Inspect(fd.Body, func(n ast.Node) bool {
			if is, ok := n.(*ast.IfStmt); ok {
				switch nows(gf.src(is.Cond)) {
				case "!ok":
					foundOk = true
				case "!ok||len(*subscribers)==0":
					foundOk, emptyKeeps = true, true
				}
			}
			return true
		})
	}
	if !foundOk {
		lost = append(lost, groupsGo+":consumerGroup.StreamDeleted (early return `if !ok` / `if !ok || len(*subscribers) == 0` before c.epoch = epoch)")
	}
	facts["Metadata.emptyHeapKeepsEpoch"] = emptyKeeps
	l.def("emptyHeapKeepsEpoch", "Bool", boolLit(emptyKeeps), "StreamDeleted returns before touching the epoch when the stream's subscriber heap is empty")
	fr := calleesIn(c06FsmGo, "Server.finishedRecovery", "s.metadata.Remove", "partition.Start", "group.Start", "stream.IsTombstoned")
	if !eqList(fr, []string{"stream.IsTombstoned", "s.metadata.RemoveTombstonedStream", "partition.StartRecovered", "group.StartRecovered"}) {
		lost = append(lost, fmt.Sprintf("%s:Server.finishedRecovery calls %v", c06FsmGo, fr))
	}
	l.def("finishedRecoveryCalls", "List String", leanStrList(fr), "calls of finishedRecovery")
	var rc []string
	if fd := f.fn("Server.Restore"); fd != nil && fd.Body != nil {
		ast.Inspect(fd.Body, func(n ast.Node) bool {
			if ce, ok := n.(*ast.CallExpr); ok {
				t := nows(f.src(ce.Fun))
				if t == "s.metadata.Reset" || strings.HasPrefix(t, "s.apply") {
					rc = append(rc, nows(f.src(ce)))
				}
			}
			return true
		})
	}
	if !eqList(rc, []string{"s.metadata.Reset()", "s.applyCreateStream(stream,true,0)", "s.applyCreateConsumerGroup(group,true)"}) {
		lost = append(lost, fmt.Sprintf("%s:Server.Restore calls %v (model: Reset, applyCreateStream(stream, true, 0), applyCreateConsumerGroup(group, true))", c06FsmGo, rc))
	}
	l.def("restoreCalls", "List String", leanStrList(rc), "calls of Restore")
	// What metadataAPI.Reset forgets: Restore relies on it to discard ALL previous state before the
	// snapshot's streams and groups are re-added (a snapshot installed on a running follower). The
	// top-level statements of Reset that re-make a field of the store (`m.<field> = make(...)`), and
	// whether the failover table is reset.
	var resetClears []string
	resetFailovers := false
	mf := load(metadataGo)
	if fd := mf.fn("metadataAPI.Reset"); fd != nil && fd.Body != nil {
		for _, st := range fd.Body.List {
			switch x := st.(type) {
			case *ast.AssignStmt:
				if len(x.Lhs) == 1 && len(x.Rhs) == 1 {
					if ce, ok := x.Rhs[0].(*ast.CallExpr); ok && nows(mf.src(ce.Fun)) == "make" {
						resetClears = append(resetClears, nows(mf.src(x.Lhs[0])))
					}
				}
			case *ast.ExprStmt:
				if nows(mf.src(x.X)) == "m.resetFailovers()" {
					resetFailovers = true
				}
			}
		}
	} else {
		lost = append(lost, metadataGo+":metadataAPI.Reset (function not found)")
	}
	if !eqList(resetClears, []string{"m.streams", "m.consumerGroups"}) || !resetFailovers {
		lost = append(lost, fmt.Sprintf("%s:metadataAPI.Reset re-makes %v, resetFailovers=%v (model: Restore discards every stream, every consumer group and the failover table)", metadataGo, resetClears, resetFailovers))
	}
	facts["Metadata.resetClears"] = resetClears
	l.def("resetClears", "List String", leanStrList(resetClears), "fields of the metadata store that metadataAPI.Reset re-makes (m.<field> = make(...))")
	l.def("resetFailovers", "Bool", boolLit(resetFailovers), "metadataAPI.Reset calls m.resetFailovers()")
	// What a snapshot says a group member is subscribed to: Snapshot() takes Members[].Streams from
	// consumerGroup.GetMembers, which must list the keys of consumer.streams (the subscription set)
	// — not, say, the keys of consumer.assignments, which lack the streams a stand-by member
	// currently holds nothing of. The maps ranged over inside GetMembers, in source order:
	var gmRanges []string
	gf = load(groupsGo)
	if fd := gf.fn("consumerGroup.GetMembers"); fd != nil && fd.Body != nil {
		ast.Inspect(fd.Body, func(n ast.Node) bool {
			if rs, ok := n.(*ast.RangeStmt); ok {
				gmRanges = append(gmRanges, nows(gf.src(rs.X)))
			}
			return true
		})
	}
	if !eqList(gmRanges, []string{"c.members", "member.streams"}) {
		lost = append(lost, fmt.Sprintf("%s:consumerGroup.GetMembers ranges over %v (model: the members, and for each member its subscription set member.streams)", groupsGo, gmRanges))
	}
	facts["Metadata.getMembersRanges"] = gmRanges
	l.def("getMembersRanges", "List String", leanStrList(gmRanges), "maps ranged over by consumerGroup.GetMembers (the source of Members[].Streams in a snapshot)")
	// apply stamps the Raft index on the partitions of a new stream
	if !assignsIn(c06FsmGo, "Server.apply", "partition.LeaderEpoch", "index") || !assignsIn(c06FsmGo, "Server.apply", "partition.Epoch", "index") {
		lost = append(lost, c06FsmGo+":Server.apply (partition.LeaderEpoch = index; partition.Epoch = index)")
	}
	// StartRecovered leaves a paused partition in recovery mode
	if !hasCond(partitionGo, "partition.StartRecovered", "p.paused") || !hasCond(partitionGo, "partition.StartRecovered", "!p.recovered") {
		// recorded by hasCond
	}
	return l
}
