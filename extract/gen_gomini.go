package main

// GoMini translator: whole function bodies of /repo -> Lean data (`Liftbridge.GoMini.Func`).
//
// Purely syntactic (go/ast). What falls outside the subset becomes `Stmt.unsupported` /
// `Expr.call "?…"` and is listed in `unsupported` of the generated file; for the functions the
// proofs depend on that is a lost tie (reported through `lost`). Dropped statements (logging,
// mutex operations, crash-point hooks) stay visible as `Stmt.skip "<source>"`.

import (
	"fmt"
	"go/parser"
	"os"
	"path/filepath"
	"regexp"
	"go/ast"
	"go/token"
	"sort"
	"strconv"
	"strings"
)

type gmUnit struct {
	file  *file
	name  string // "Recv.Name" or "Name"
	alias string // key in the generated program (method name / function name)
}

type gm struct {
	f           *file
	consts      map[string]string // package-level integer constants
	pkgs        map[string]bool   // imported package names
	unsupported []string
	cur         string
	ext         map[string]string   // pkg.Name -> integer value of constants of imported modules (module cache)
	scopes      []map[string]string // source name -> name in the embedding (a shadowing declaration is renamed)
	nshadow     int
	module      string
	cfiles      []*file // the files a unit reads its constants (and record declarations) from
	foreign     map[string]bool   // fields of the receiver that hold objects of other types (their methods are external calls)
	namedInts   map[string]string // package-level `type T <integer type>`: a conversion T(x) is the conversion to the underlying type
	namedRes    []string          // named results of the function being translated (embedding names): a bare `return` returns them
	capBase     int               // >0 while a closure body is translated: scopes below this index belong to the enclosing function
	captured    map[string]bool   // embedding names of enclosing-function variables the closure body mentions
	lifted      [][2]string       // closures lifted to functions of their own: (alias, Lean definition of the Func)
}

// namedIntTypes: `type msgType byte` … of the files a unit reads its constants from.
func namedIntTypes(files []*file) map[string]string {
	out := map[string]string{}
	for _, f := range files {
		for _, d := range f.f.Decls {
			gd, ok := d.(*ast.GenDecl)
			if !ok || gd.Tok != token.TYPE {
				continue
			}
			for _, sp := range gd.Specs {
				ts := sp.(*ast.TypeSpec)
				if id, ok := ts.Type.(*ast.Ident); ok && intTypes[id.Name] {
					out[ts.Name.Name] = id.Name
				}
			}
		}
	}
	return out
}

func (g *gm) push() { g.scopes = append(g.scopes, map[string]string{}) }
func (g *gm) pop()  { g.scopes = g.scopes[:len(g.scopes)-1] }

// resolve: the embedding's name of a source identifier (innermost declaration).
func (g *gm) resolve(name string) string {
	for i := len(g.scopes) - 1; i >= 0; i-- {
		if n, ok := g.scopes[i][name]; ok {
			if g.capBase > 0 && i < g.capBase && g.captured != nil {
				g.captured[n] = true
			}
			return n
		}
	}
	return name
}

// liftClosure: `name := func(params) … { body }` becomes a function of its own, `<function>·<name>`, whose parameters are the
// closure's parameters followed by the variables of the enclosing function its body mentions (sorted): the closure VALUE is an
// opaque record naming it. Captured variables are passed by value: a closure that assigns to one is outside the subset. What the
// code does with the value (passing it to a callee that may or may not call it) is visible as the argument of that call.
func (g *gm) liftClosure(name string, fl *ast.FuncLit) string {
	short := g.cur
	if i := strings.Index(short, "."); i >= 0 {
		short = short[i+1:]
	}
	alias := short + "·" + name
	savedRes, savedBase, savedCap := g.namedRes, g.capBase, g.captured
	g.namedRes, g.capBase, g.captured = nil, len(g.scopes), map[string]bool{}
	g.push()
	var params []string
	for _, p := range fl.Type.Params.List {
		for _, n := range p.Names {
			params = append(params, g.declare(n.Name))
		}
	}
	var bodyStmts []string
	if fl.Type.Results != nil {
		for _, p := range fl.Type.Results.List {
			for _, n := range p.Names {
				nm := g.declare(n.Name)
				if nm != "_" {
					g.namedRes = append(g.namedRes, nm)
					bodyStmts = append(bodyStmts, "(.assign [.var "+strconv.Quote(nm)+"] ["+zeroExpr(p.Type)+"])")
				}
			}
		}
	}
	for _, st := range fl.Body.List {
		bodyStmts = append(bodyStmts, g.stmt(st)...)
	}
	g.pop()
	var caps []string
	for c := range g.captured {
		caps = append(caps, c)
	}
	sort.Strings(caps)
	body := "[" + strings.Join(bodyStmts, ",\n      ") + "]"
	for _, c := range caps {
		q := regexp.QuoteMeta("(.var " + strconv.Quote(c) + ")")
		if regexp.MustCompile(`\(\.assign \[[^\]]*`+q).MatchString(body) || regexp.MustCompile(`\(\.opAssign "[^"]*" `+q).MatchString(body) {
			g.bad("closure assigns to a captured variable ("+c+")", fl)
		}
	}
	g.namedRes, g.capBase, g.captured = savedRes, savedBase, savedCap
	var ps []string
	for _, p := range append(params, caps...) {
		ps = append(ps, strconv.Quote(p))
	}
	def := "fn_" + strings.NewReplacer(".", "_", "·", "_").Replace(g.cur) + "_" + name
	g.lifted = append(g.lifted, [2]string{alias, fmt.Sprintf("/-- closure `%s` of `%s`, lifted: parameters = its own, then the captured variables %v -/\ndef %s : Func :=\n  { recv := none, params := [%s],\n    body := %s }\n\n",
		name, g.cur, caps, def, strings.Join(ps, ", "), body)})
	return "(.lit [(\"closure\", (.str " + strconv.Quote(alias) + "))])"
}

// declare: `name` is declared in the current scope (`:=`, `var`, range variable, parameter). Go's
// block scoping is kept by renaming a declaration that shadows one of an enclosing scope.
func (g *gm) declare(name string) string {
	if name == "_" {
		return "_"
	}
	cur := g.scopes[len(g.scopes)-1]
	if n, ok := cur[name]; ok {
		return n // `:=` with a variable already declared in THIS scope assigns it
	}
	shadows := false
	for i := len(g.scopes) - 2; i >= 0; i-- {
		if _, ok := g.scopes[i][name]; ok {
			shadows = true
		}
	}
	n := name
	if shadows {
		g.nshadow++
		n = fmt.Sprintf("%s·%d", name, g.nshadow)
	}
	cur[name] = n
	return n
}

func gmStr(s string) string {
	s = strings.Join(strings.Fields(s), " ")
	if len(s) > 70 {
		s = s[:67] + "..."
	}
	return strconv.Quote(s)
}

func (g *gm) bad(kind string, n ast.Node) string {
	src := g.f.src(n)
	g.unsupported = append(g.unsupported, g.cur+": "+kind+": "+src)
	return gmStr(kind + ": " + src)
}

var intTypes = map[string]bool{"int": true, "int8": true, "int16": true, "int32": true, "int64": true,
	"uint": true, "uint8": true, "uint16": true, "uint32": true, "uint64": true, "byte": true}

func zeroExpr(t ast.Expr) string {
	if id, ok := t.(*ast.Ident); ok {
		switch {
		case intTypes[id.Name]:
			return "(.int 0)"
		case id.Name == "bool":
			return "(.bool false)"
		case id.Name == "string":
			return "(.str \"\")"
		}
	}
	return ".nil"
}

// droppable: logging, locking, crash-point hooks.
func (g *gm) droppable(call *ast.CallExpr) bool {
	src := nows(g.f.src(call.Fun))
	if src == "crashPoint" {
		return true
	}
	if src == "cancel" && len(call.Args) == 0 { // `defer cancel()` of a context.WithTimeout
		return true
	}
	// `s.Lock()` / `defer s.RUnlock()` on a variable whose type embeds the mutex (segment, index)
	if sel, ok := call.Fun.(*ast.SelectorExpr); ok && len(call.Args) == 0 {
		if _, isId := sel.X.(*ast.Ident); isId {
			switch sel.Sel.Name {
			case "Lock", "Unlock", "RLock", "RUnlock":
				return true
			}
		}
	}
	// logging: a call THROUGH a field named log / Logger / logger whose method is a logging verb. (`p.log` of a partition is its
	// commit log: `p.log.SetHighWatermark(…)` is no logging call. Until session 4 every call through a `.log.` field was dropped;
	// no translated unit contained one that was not a logging call.)
	if sel, ok := call.Fun.(*ast.SelectorExpr); ok {
		for _, frag := range []string{".log.", ".Logger.", ".logger."} {
			if strings.Contains(src, frag) {
				switch sel.Sel.Name {
				case "Debugf", "Infof", "Warnf", "Errorf", "Fatalf", "Debug", "Info", "Warn", "Error", "Fatal", "Printf", "Println", "Tracef":
					return true
				}
			}
		}
	}
	for _, frag := range []string{".mu.Lock", ".mu.Unlock", ".mu.RLock", ".mu.RUnlock", ".Mutex.", ".RWMutex.",
		"Mu.Lock", "Mu.Unlock", "Mu.RLock", "Mu.RUnlock"} {
		if strings.Contains(src, frag) {
			return true
		}
	}
	return false
}

func (g *gm) exprs(es []ast.Expr) string {
	var out []string
	for _, e := range es {
		out = append(out, g.expr(e))
	}
	return "[" + strings.Join(out, ", ") + "]"
}

func (g *gm) optExpr(e ast.Expr) string {
	if e == nil {
		return "none"
	}
	return "(some " + g.expr(e) + ")"
}

func (g *gm) expr(e ast.Expr) string {
	switch x := e.(type) {
	case *ast.ParenExpr:
		return g.expr(x.X)
	case *ast.BasicLit:
		switch x.Kind {
		case token.INT:
			v, err := strconv.ParseInt(x.Value, 0, 64)
			if err != nil {
				return "(.call " + g.bad("?int literal", x) + " [])"
			}
			return fmt.Sprintf("(.int %d)", v)
		case token.STRING:
			s, err := strconv.Unquote(x.Value)
			if err != nil {
				s = x.Value
			}
			return "(.str " + gmStr(s) + ")"
		case token.CHAR:
			s, err := strconv.Unquote(x.Value)
			if err == nil && len([]rune(s)) == 1 {
				return fmt.Sprintf("(.int %d)", []rune(s)[0])
			}
		}
		return "(.call " + g.bad("?literal", x) + " [])"
	case *ast.Ident:
		switch x.Name {
		case "nil":
			return ".nil"
		case "true":
			return "(.bool true)"
		case "false":
			return "(.bool false)"
		}
		if v, ok := g.consts[x.Name]; ok {
			return "(.int " + v + ")"
		}
		// package-level sentinel errors (`var ErrX = errors.New(…)`), for the units that ask for it: the value "ErrX" itself, so that
		// a translated CALLEE (which sees its receiver and parameters only) can return them too
		if gmInlineErrs[g.module] && strings.HasPrefix(x.Name, "Err") && g.resolve(x.Name) == x.Name && !g.declared(x.Name) {
			return "(.str " + strconv.Quote(x.Name) + ")"
		}
		return "(.var " + strconv.Quote(g.resolve(x.Name)) + ")"
	case *ast.SelectorExpr:
		if id, ok := x.X.(*ast.Ident); ok && g.pkgs[id.Name] {
			if v, ok := g.ext[id.Name+"."+x.Sel.Name]; ok {
				return "(.int " + v + ")"
			}
			return "(.var " + strconv.Quote(id.Name+"."+x.Sel.Name) + ")"
		}
		return "(.sel " + g.expr(x.X) + " " + strconv.Quote(x.Sel.Name) + ")"
	case *ast.IndexExpr:
		return "(.idx " + g.expr(x.X) + " " + g.expr(x.Index) + ")"
	case *ast.SliceExpr:
		if x.Slice3 {
			return "(.call " + g.bad("?3-index slice", x) + " [])"
		}
		return "(.slice " + g.expr(x.X) + " " + g.optExpr(x.Low) + " " + g.optExpr(x.High) + ")"
	case *ast.StarExpr:
		return g.expr(x.X) // no aliasing: *p is p
	case *ast.TypeAssertExpr:
		// single-value `x.(*T)` to a POINTER type: the value itself (the embedding has no dynamic types: a failing
		// assertion, which panics in Go, is not modelled - listed with the semantic choices in DESIGN 9.5)
		if _, ok := x.Type.(*ast.StarExpr); ok && x.Type != nil {
			return g.expr(x.X)
		}
		// … and to an integer type (`offset.(int64)` of a value taken from a cache of int64s): the same choice
		if id, ok := x.Type.(*ast.Ident); ok && intTypes[id.Name] {
			return g.expr(x.X)
		}
		return "(.call " + g.bad("?expression", x) + " [])"
	case *ast.UnaryExpr:
		switch x.Op {
		case token.NOT:
			return "(.un \"!\" " + g.expr(x.X) + ")"
		case token.SUB:
			if bl, ok := x.X.(*ast.BasicLit); ok && bl.Kind == token.INT {
				v, err := strconv.ParseInt(bl.Value, 0, 64)
				if err == nil {
					return fmt.Sprintf("(.int (%d))", -v)
				}
			}
			return "(.un \"-\" " + g.expr(x.X) + ")"
		case token.AND:
			return g.expr(x.X) // &T{…}, &x: no aliasing
		}
		return "(.call " + g.bad("?unary", x) + " [])"
	case *ast.BinaryExpr:
		if x.Op == token.LAND {
			return "(.and " + g.expr(x.X) + " " + g.expr(x.Y) + ")"
		}
		if x.Op == token.LOR {
			return "(.or " + g.expr(x.X) + " " + g.expr(x.Y) + ")"
		}
		return "(.bin " + strconv.Quote(x.Op.String()) + " " + g.expr(x.X) + " " + g.expr(x.Y) + ")"
	case *ast.CompositeLit:
		if _, isArr := x.Type.(*ast.ArrayType); isArr {
			var els []string
			for _, el := range x.Elts {
				if _, kv := el.(*ast.KeyValueExpr); kv {
					return "(.call " + g.bad("?keyed array literal", x) + " [])"
				}
				els = append(els, g.expr(el))
			}
			return "(.listLit [" + strings.Join(els, ", ") + "])"
		}
		if _, isMap := x.Type.(*ast.MapType); isMap {
			return "(.call " + g.bad("?map literal", x) + " [])"
		}
		var fs []string
		// T{a, b, c}: a record whose fields are named by position ("·0", "·1", …) - the declared names are unknown without
		// types, so a selector on such a value is stuck (never silently wrong); it can be passed on and compared
		positional := len(x.Elts) > 0
		for _, el := range x.Elts {
			if _, kv := el.(*ast.KeyValueExpr); kv {
				positional = false
			}
		}
		if positional {
			for i, el := range x.Elts {
				fs = append(fs, "("+strconv.Quote(fmt.Sprintf("·%d", i))+", "+g.expr(el)+")")
			}
			return "(.lit [" + strings.Join(fs, ", ") + "])"
		}
		for _, el := range x.Elts {
			kv, ok := el.(*ast.KeyValueExpr)
			if !ok {
				return "(.call " + g.bad("?positional struct literal", x) + " [])"
			}
			k, ok := kv.Key.(*ast.Ident)
			if !ok {
				return "(.call " + g.bad("?struct literal key", x) + " [])"
			}
			fs = append(fs, "("+strconv.Quote(k.Name)+", "+g.expr(kv.Value)+")")
		}
		return "(.lit [" + strings.Join(fs, ", ") + "])"
	case *ast.CallExpr:
		return g.call(x)
	}
	return "(.call " + g.bad("?expression", e) + " [])"
}

func (g *gm) args(c *ast.CallExpr) string {
	var out []string
	for _, a := range c.Args {
		out = append(out, g.expr(a))
	}
	return "[" + strings.Join(out, ", ") + "]"
}

func (g *gm) call(c *ast.CallExpr) string {
	switch fn := c.Fun.(type) {
	case *ast.Ident:
		switch fn.Name {
		case "len":
			if len(c.Args) == 1 {
				return "(.len " + g.expr(c.Args[0]) + ")"
			}
		case "make":
			// make(chan T[, n]): a channel is an opaque value (sends are effects, receives are outside the subset)
			if len(c.Args) >= 1 {
				if _, isChan := c.Args[0].(*ast.ChanType); isChan {
					return "(.lit [(\"chan\", (.str " + gmStr(g.f.src(c.Args[0])) + "))])"
				}
			}
			// make(map[K]V[, n]): an empty map (a map is a record)
			if len(c.Args) >= 1 {
				if _, isMap := c.Args[0].(*ast.MapType); isMap {
					return "(.lit [])"
				}
			}
			// make([]T, n[, cap]) : only the length matters
			if len(c.Args) >= 1 {
				if _, isArr := c.Args[0].(*ast.ArrayType); isArr {
					if len(c.Args) == 1 {
						return "(.call \"make\" [])"
					}
					return "(.call \"make\" [" + g.expr(c.Args[1]) + "])"
				}
			}
			// make(T, n) with `type T []E` declared in the unit's declaration files
			if len(c.Args) == 2 {
				if id, ok := c.Args[0].(*ast.Ident); ok && g.namedSlice(id.Name) {
					return "(.call \"make\" [" + g.expr(c.Args[1]) + "])"
				}
			}
			return "(.call " + g.bad("?make", c) + " [])"
		case "panic":
			return "(.call \"panic\" " + g.args(c) + ")"
		case "new":
			// new(T): a fresh zero value; a record type is the empty record (its methods are external calls)
			if len(c.Args) == 1 && g.resolve("new") == "new" {
				return "(.lit [])"
			}
		}
		if c.Ellipsis.IsValid() {
			return "(.callSpread " + strconv.Quote(fn.Name) + " " + g.args(c) + ")"
		}
		if under, ok := g.namedInts[fn.Name]; ok && len(c.Args) == 1 && g.resolve(fn.Name) == fn.Name {
			return "(.call " + strconv.Quote(under) + " " + g.args(c) + ")" // conversion to a named integer type
		}
		return "(.call " + strconv.Quote(fn.Name) + " " + g.args(c) + ")"
	case *ast.SelectorExpr:
		if c.Ellipsis.IsValid() {
			return "(.call " + g.bad("?variadic spread in method call", c) + " [])"
		}
		if id, ok := fn.X.(*ast.Ident); ok && g.pkgs[id.Name] {
			q := id.Name + "." + fn.Sel.Name
			if q == "sort.Search" && len(c.Args) == 2 {
				if fl, ok := c.Args[1].(*ast.FuncLit); ok && len(fl.Type.Params.List) == 1 && len(fl.Type.Params.List[0].Names) == 1 &&
					len(fl.Body.List) == 1 {
					if rs, ok := fl.Body.List[0].(*ast.ReturnStmt); ok && len(rs.Results) == 1 {
						n := g.expr(c.Args[0])
						g.push()
						pn := g.declare(fl.Type.Params.List[0].Names[0].Name)
						pred := g.expr(rs.Results[0])
						g.pop()
						return "(.search " + n + " " + strconv.Quote(pn) + " " + pred + ")"
					}
				}
				return "(.call " + g.bad("?sort.Search closure", c) + " [])"
			}
			if q == "atomic.StorePointer" && len(c.Args) == 2 {
				// atomic.StorePointer((*unsafe.Pointer)(unsafe.Pointer(&x.f)), unsafe.Pointer(v)): an effect naming the field and the value
				// stored (readers of the field are accessor calls answered by the theorem's table)
				if inner, ok := c.Args[1].(*ast.CallExpr); ok && len(inner.Args) == 1 && nows(g.f.src(inner.Fun)) == "unsafe.Pointer" {
					field := regexp.MustCompile(`&([A-Za-z_][A-Za-z0-9_.]*)`).FindStringSubmatch(g.f.src(c.Args[0]))
					if field != nil {
						return "(.call \"atomic.StorePointer\" [(.str " + strconv.Quote(field[1]) + "), " + g.expr(inner.Args[0]) + "])"
					}
				}
			}
			return "(.call " + strconv.Quote(q) + " " + g.args(c) + ")"
		}
		name := fn.Sel.Name
		if sx, ok := fn.X.(*ast.SelectorExpr); ok && g.foreign[sx.Sel.Name] {
			// a method of ANOTHER type reached through a field (`a.metadata.DeleteStream`): never a function of this unit,
			// even when a function of this unit has the same method name
			name = sx.Sel.Name + "." + name
		} else if id, ok := fn.X.(*ast.Ident); ok && g.foreign[id.Name] && !g.pkgs[id.Name] {
			// the same for a LOCAL VARIABLE that holds a value of another type (`partition := m.GetPartition(…)`;
			// `partition.RemoveFromISR(…)` inside `metadataAPI.RemoveFromISR`): listed per unit by the variable's name
			name = id.Name + "." + name
		}
		return "(.mcall " + g.expr(fn.X) + " " + strconv.Quote(name) + " " + g.args(c) + ")"
	case *ast.ArrayType:
		// `[]byte(x)`: the byte string itself (strings and byte slices are one kind of value in the embedding, as for `string(b)`)
		if id, ok := fn.Elt.(*ast.Ident); ok && fn.Len == nil && id.Name == "byte" && len(c.Args) == 1 {
			return "(.call \"string\" [" + g.expr(c.Args[0]) + "])"
		}
		return "(.call " + g.bad("?call", c) + " [])"
	case *ast.ParenExpr, *ast.FuncLit:
		return "(.call " + g.bad("?call", c) + " [])"
	}
	return "(.call " + g.bad("?call", c) + " [])"
}

func (g *gm) block(ss []ast.Stmt) string {
	g.push()
	defer g.pop()
	var out []string
	for _, s := range ss {
		out = append(out, g.stmt(s)...)
	}
	return "[" + strings.Join(out, ",\n      ") + "]"
}

// lhsDefine: the left-hand sides of `a, b := …` (declared in the current scope AFTER the right-hand
// side has been translated, as in Go).
func (g *gm) lhsDefine(lhs []ast.Expr) string {
	var out []string
	for _, e := range lhs {
		if id, ok := e.(*ast.Ident); ok {
			out = append(out, "(.var "+strconv.Quote(g.declare(id.Name))+")")
		} else {
			out = append(out, g.expr(e))
		}
	}
	return "[" + strings.Join(out, ", ") + "]"
}

func (g *gm) optStmt(s ast.Stmt) string {
	if s == nil {
		return "[]"
	}
	return "[" + strings.Join(g.stmt(s), ", ") + "]"
}

func (g *gm) stmt(s ast.Stmt) []string {
	switch x := s.(type) {
	case *ast.EmptyStmt:
		return nil
	case *ast.ExprStmt:
		if c, ok := x.X.(*ast.CallExpr); ok && g.droppable(c) {
			return []string{"(.skip " + gmStr(g.f.src(x)) + ")"}
		}
		if c, ok := x.X.(*ast.CallExpr); ok {
			if id, ok := c.Fun.(*ast.Ident); ok && id.Name == "copy" && len(c.Args) == 2 {
				// `copy(d[lo:hi], src)` / `copy(d, src)` with d a variable: d = copyInto(d, lo, hi, src) (no aliasing:
				// the destination window belongs to d alone)
				var dst ast.Expr = c.Args[0]
				lo, hi := "(.int 0)", ""
				if sl, ok := dst.(*ast.SliceExpr); ok && !sl.Slice3 {
					dst = sl.X
					if sl.Low != nil {
						lo = g.expr(sl.Low)
					}
					if sl.High != nil {
						hi = g.expr(sl.High)
					}
				}
				if d, ok := dst.(*ast.Ident); ok {
					dv := g.expr(d)
					if hi == "" {
						hi = "(.len " + dv + ")"
					}
					return []string{"(.assign [" + dv + "] [(.call \"copyInto\" [" + dv + ", " + lo + ", " + hi + ", " + g.expr(c.Args[1]) + "])])"}
				}
				return []string{"(.unsupported " + g.bad("copy into a non-variable", x) + ")"}
			}
			if id, ok := c.Fun.(*ast.Ident); ok && id.Name == "delete" && len(c.Args) == 2 {
				m := g.expr(c.Args[0])
				return []string{"(.assign [" + m + "] [(.call \"mapDelete\" [" + m + ", " + g.expr(c.Args[1]) + "])])"}
			}
		}
		return []string{"(.expr " + g.expr(x.X) + ")"}
	case *ast.SendStmt:
		// `ch <- v`: an EFFECT (the value is recorded); whether the send can block is not modelled - the units that use it
		// send into a channel they have just made with a buffer
		return []string{"(.expr (.call \"chan.send\" [" + g.expr(x.Chan) + ", " + g.expr(x.Value) + "]))"}
	case *ast.GoStmt:
		// `go recv.m(args)` / `go f(args)`: starting the goroutine is an EFFECT named "go:m" (what it does is not run here)
		switch fn := x.Call.Fun.(type) {
		case *ast.SelectorExpr:
			return []string{"(.expr (.call " + strconv.Quote("go:"+fn.Sel.Name) + " " + g.args(x.Call) + "))"}
		case *ast.Ident:
			return []string{"(.expr (.call " + strconv.Quote("go:"+fn.Name) + " " + g.args(x.Call) + "))"}
		}
		return []string{"(.unsupported " + g.bad("go statement", x) + ")"}
	case *ast.DeferStmt:
		if g.droppable(x.Call) {
			return []string{"(.skip " + gmStr(g.f.src(x)) + ")"}
		}
		return []string{"(.unsupported " + g.bad("defer", x) + ")"}
	case *ast.AssignStmt:
		switch x.Tok {
		case token.ASSIGN:
			if ix, ok := commaOk(x); ok {
				return []string{"(.assign " + g.exprs(x.Lhs) + " [(.call \"mapLookup2\" [" + g.expr(ix.X) + ", " + g.expr(ix.Index) + "])])"}
			}
			return []string{"(.assign " + g.exprs(x.Lhs) + " " + g.exprs(x.Rhs) + ")"}
		case token.DEFINE:
			rhs := ""
			if ix, ok := commaOk(x); ok {
				rhs = "[(.call \"mapLookup2\" [" + g.expr(ix.X) + ", " + g.expr(ix.Index) + "])]"
			}
			if len(x.Lhs) == 2 && len(x.Rhs) == 1 {
				// `s, ok := v.(string)`: the comma-ok type assertion to string (never panics)
				if ta, ok := x.Rhs[0].(*ast.TypeAssertExpr); ok {
					if id, ok := ta.Type.(*ast.Ident); ok && id.Name == "string" {
						rhs = "[(.call \"assertString2\" [" + g.expr(ta.X) + "])]"
					}
				}
			}
			if len(x.Lhs) == 1 && len(x.Rhs) == 1 {
				if fl, ok := x.Rhs[0].(*ast.FuncLit); ok {
					if id, ok := x.Lhs[0].(*ast.Ident); ok {
						rhs = "[" + g.liftClosure(id.Name, fl) + "]"
					}
				}
			}
			if rhs == "" {
				rhs = g.exprs(x.Rhs)
			}
			return []string{"(.assign " + g.lhsDefine(x.Lhs) + " " + rhs + ")"}
		default:
			op := strings.TrimSuffix(x.Tok.String(), "=")
			if len(x.Lhs) == 1 && len(x.Rhs) == 1 {
				return []string{"(.opAssign " + strconv.Quote(op) + " " + g.expr(x.Lhs[0]) + " " + g.expr(x.Rhs[0]) + ")"}
			}
		}
		return []string{"(.unsupported " + g.bad("assignment", x) + ")"}
	case *ast.IncDecStmt:
		op := "+"
		if x.Tok == token.DEC {
			op = "-"
		}
		return []string{"(.opAssign " + strconv.Quote(op) + " " + g.expr(x.X) + " (.int 1))"}
	case *ast.DeclStmt:
		gd, ok := x.Decl.(*ast.GenDecl)
		if !ok || gd.Tok != token.VAR {
			return []string{"(.unsupported " + g.bad("declaration", x) + ")"}
		}
		var out []string
		for _, sp := range gd.Specs {
			vs := sp.(*ast.ValueSpec)
			if len(vs.Values) == 0 {
				for _, n := range vs.Names {
					out = append(out, "(.assign [.var "+strconv.Quote(g.declare(n.Name))+"] ["+zeroExpr(vs.Type)+"])")
				}
				continue
			}
			rhs := g.exprs(vs.Values)
			var lhs []string
			for _, n := range vs.Names {
				lhs = append(lhs, "(.var "+strconv.Quote(g.declare(n.Name))+")")
			}
			out = append(out, "(.assign ["+strings.Join(lhs, ", ")+"] "+rhs+")")
		}
		return out
	case *ast.ReturnStmt:
		if len(x.Results) == 0 && len(g.namedRes) > 0 {
			// bare `return` of a function with named results: their current values
			var vs []string
			for _, n := range g.namedRes {
				vs = append(vs, "(.var "+strconv.Quote(n)+")")
			}
			return []string{"(.ret [" + strings.Join(vs, ", ") + "])"}
		}
		return []string{"(.ret " + g.exprs(x.Results) + ")"}
	case *ast.BranchStmt:
		if x.Label != nil {
			return []string{"(.unsupported " + g.bad("labelled branch", x) + ")"}
		}
		switch x.Tok {
		case token.BREAK:
			return []string{".brk"}
		case token.CONTINUE:
			return []string{".cont"}
		}
		return []string{"(.unsupported " + g.bad("branch", x) + ")"}
	case *ast.BlockStmt:
		g.push()
		defer g.pop()
		var out []string
		for _, s := range x.List {
			out = append(out, g.stmt(s)...)
		}
		return out
	case *ast.IfStmt:
		g.push() // the scope of the init statement spans the condition and both branches
		defer g.pop()
		init := g.optStmt(x.Init)
		els := "[]"
		switch e := x.Else.(type) {
		case *ast.BlockStmt:
			els = g.block(e.List)
		case *ast.IfStmt:
			els = "[" + strings.Join(g.stmt(e), ", ") + "]"
		}
		return []string{"(.ite " + init + " " + g.expr(x.Cond) + "\n      " + g.block(x.Body.List) + "\n      " + els + ")"}
	case *ast.ForStmt:
		g.push()
		defer g.pop()
		finit := g.optStmt(x.Init)
		return []string{"(.forC " + finit + " " + g.optExpr(x.Cond) + " " + g.optStmt(x.Post) + "\n      " + g.block(x.Body.List) + ")"}
	case *ast.RangeStmt:
		rx := g.expr(x.X)
		g.push()
		defer g.pop()
		nm := func(e ast.Expr) string {
			if e == nil {
				return "none"
			}
			if id, ok := e.(*ast.Ident); ok {
				if id.Name == "_" {
					return "none"
				}
				if x.Tok == token.DEFINE {
					return "(some " + strconv.Quote(g.declare(id.Name)) + ")"
				}
				return "(some " + strconv.Quote(g.resolve(id.Name)) + ")"
			}
			return "(some " + g.bad("?range variable", e) + ")"
		}
		k, v := nm(x.Key), nm(x.Value)
		// a write THROUGH the range variable (`for _, p := range ps { p.f = v }`) changes the element itself when the
		// elements are pointers and a copy when they are values; the embedding has no aliasing and no types: outside the subset
		if vid, ok := x.Value.(*ast.Ident); ok && vid.Name != "_" {
			through := false
			root := func(e ast.Expr) (string, bool) {
				deep := false
				for {
					switch y := e.(type) {
					case *ast.SelectorExpr:
						e, deep = y.X, true
					case *ast.IndexExpr:
						e, deep = y.X, true
					case *ast.StarExpr:
						e, deep = y.X, true
					case *ast.ParenExpr:
						e = y.X
					case *ast.Ident:
						return y.Name, deep
					default:
						return "", false
					}
				}
			}
			ast.Inspect(x.Body, func(n ast.Node) bool {
				switch y := n.(type) {
				case *ast.AssignStmt:
					for _, l := range y.Lhs {
						if r, deep := root(l); deep && r == vid.Name {
							through = true
						}
					}
				case *ast.IncDecStmt:
					if r, deep := root(y.X); deep && r == vid.Name {
						through = true
					}
				}
				return true
			})
			if through {
				// the one shape that IS translated: a slice of POINTERS (declared per unit in gmPtrSlices by the name of the
				// field ranged over) whose loop body is nothing but `v.f = e` with e not mentioning the loop variables:
				// every element gets those fields, L = setFieldsAll(L, {f: e, …})
				if sx, ok := x.X.(*ast.SelectorExpr); ok && gmPtrSlices[g.module][sx.Sel.Name] && g.ptrSliceField(sx) {
					var fields []string
					okShape := true
					kname := ""
					if kid, ok := x.Key.(*ast.Ident); ok {
						kname = kid.Name
					}
					for _, st := range x.Body.List {
						as, ok := st.(*ast.AssignStmt)
						if !ok || as.Tok != token.ASSIGN || len(as.Lhs) != 1 || len(as.Rhs) != 1 {
							okShape = false
							break
						}
						sel, ok := as.Lhs[0].(*ast.SelectorExpr)
						id, ok2 := sel.X.(*ast.Ident)
						if !ok || !ok2 || id.Name != vid.Name {
							okShape = false
							break
						}
						ast.Inspect(as.Rhs[0], func(n ast.Node) bool {
							if i, ok := n.(*ast.Ident); ok && (i.Name == vid.Name || (kname != "" && kname != "_" && i.Name == kname)) {
								okShape = false
							}
							return true
						})
						fields = append(fields, "("+strconv.Quote(sel.Sel.Name)+", "+g.expr(as.Rhs[0])+")")
					}
					if okShape {
						return []string{"(.assign [" + rx + "] [(.call \"setFieldsAll\" [" + rx + ", (.lit [" + strings.Join(fields, ", ") + "])])])"}
					}
				}
				return []string{"(.unsupported " + g.bad("write through a range variable (aliasing)", x) + ")"}
			}
		}
		return []string{"(.forRange " + k + " " + v + " " + rx + "\n      " + g.block(x.Body.List) + ")"}
	case *ast.SwitchStmt:
		// switch [init;] [tag] { case a, b: …; default: … }  ->  if-chain (no fallthrough)
		g.push()
		defer g.pop()
		swInit := g.optStmt(x.Init)
		var cases []*ast.CaseClause
		var def *ast.CaseClause
		for _, c := range x.Body.List {
			cc := c.(*ast.CaseClause)
			for _, st := range cc.Body {
				if b, ok := st.(*ast.BranchStmt); ok && b.Tok == token.FALLTHROUGH {
					return []string{"(.unsupported " + g.bad("fallthrough", x) + ")"}
				}
			}
			if cc.List == nil {
				def = cc
			} else {
				cases = append(cases, cc)
			}
		}
		els := "[]"
		if def != nil {
			els = g.block(def.Body)
		}
		for i := len(cases) - 1; i >= 0; i-- {
			var conds []string
			for _, e := range cases[i].List {
				if x.Tag != nil {
					conds = append(conds, "(.bin \"==\" "+g.expr(x.Tag)+" "+g.expr(e)+")")
				} else {
					conds = append(conds, g.expr(e))
				}
			}
			c := conds[0]
			for _, d := range conds[1:] {
				c = "(.or " + c + " " + d + ")"
			}
			els = "[(.ite [] " + c + " " + g.block(cases[i].Body) + " " + els + ")]"
		}
		if swInit != "[]" {
			return []string{"(.ite " + swInit + " (.bool true) " + els + " [])"}
		}
		return []string{"(.ite [] (.bool true) " + els + " [])"}
	case *ast.SelectStmt:
		// `select { case ch <- v: default: }` (non-blocking notification): an effect
		var out []string
		for _, c := range x.Body.List {
			cc := c.(*ast.CommClause)
			if len(cc.Body) != 0 {
				return []string{"(.unsupported " + g.bad("select with a body", x) + ")"}
			}
			if cc.Comm == nil {
				continue
			}
			ss, ok := cc.Comm.(*ast.SendStmt)
			if !ok {
				return []string{"(.unsupported " + g.bad("select receive", x) + ")"}
			}
			out = append(out, "(.expr (.call \"chan.trySend\" [(.str "+gmStr(g.f.src(ss.Chan))+")]))")
		}
		return out
	}
	return []string{"(.unsupported " + g.bad("statement", s) + ")"}
}

// commaOk: `v, ok := m[k]` / `v, ok = m[k]`.
func commaOk(x *ast.AssignStmt) (*ast.IndexExpr, bool) {
	if len(x.Lhs) == 2 && len(x.Rhs) == 1 {
		if ix, ok := x.Rhs[0].(*ast.IndexExpr); ok {
			return ix, true
		}
	}
	return nil, false
}

// collectConsts: package-level `const name = <int literal>` of the given files.
func collectConsts(fs []*file) map[string]string {
	out := map[string]string{}
	for _, f := range fs {
		for _, d := range f.f.Decls {
			gd, ok := d.(*ast.GenDecl)
			if !ok || gd.Tok != token.CONST {
				continue
			}
			for _, sp := range gd.Specs {
				vs := sp.(*ast.ValueSpec)
				for i, n := range vs.Names {
					if i < len(vs.Values) {
						if bl, ok := vs.Values[i].(*ast.BasicLit); ok && bl.Kind == token.INT {
							if v, err := strconv.ParseInt(bl.Value, 0, 64); err == nil {
								out[n.Name] = strconv.FormatInt(v, 10)
							}
						}
						if ue, ok := vs.Values[i].(*ast.UnaryExpr); ok && ue.Op == token.SUB {
							if bl, ok := ue.X.(*ast.BasicLit); ok && bl.Kind == token.INT {
								if v, err := strconv.ParseInt(bl.Value, 0, 64); err == nil {
									out[n.Name] = "(" + strconv.FormatInt(-v, 10) + ")"
								}
							}
						}
					}
				}
			}
		}
	}
	return out
}

func importedPkgs(f *file) map[string]bool {
	out := map[string]bool{}
	for _, im := range f.f.Imports {
		p, _ := strconv.Unquote(im.Path.Value)
		name := p[strings.LastIndex(p, "/")+1:]
		if m := regexp.MustCompile(`^v[0-9]+$`); m.MatchString(name) { // …/pkg/v2
			q := p[:strings.LastIndex(p, "/")]
			name = q[strings.LastIndex(q, "/")+1:]
		}
		name = strings.TrimSuffix(name, ".go") // github.com/nats-io/nats.go is package nats
		name = strings.TrimPrefix(name, "go-")
		if im.Name != nil {
			name = im.Name.Name
		}
		out[name] = true
	}
	return out
}

// genGoMini translates the listed functions into module `Liftbridge.Gen.<module>`.
// units: file path (relative to the repo) -> function names.
func genGoMini(module string, order []string, units map[string][]string, constFiles []string) string {
	var cf []*file
	for _, p := range constFiles {
		cf = append(cf, load(p))
	}
	consts := collectConsts(cf)
	named := namedIntTypes(cf)
	var b strings.Builder
	fmt.Fprintf(&b, "-- GENERATED by /verif/extract (gen_gomini.go) from /repo — do not edit.\n")
	fmt.Fprintf(&b, "-- Whole function bodies translated syntactically into the GoMini embedding (Liftbridge/GoMini.lean).\n")
	fmt.Fprintf(&b, "import Liftbridge.GoMini\nnamespace Liftbridge.Gen.%s\nopen Liftbridge.GoMini\n\n", module)
	var names, allUnsupported []string
	for _, rel := range order {
		f := load(rel)
		for _, fnName := range units[rel] {
			fd := f.fn(fnName)
			short := fnName
			if i := strings.Index(fnName, "."); i >= 0 {
				short = fnName[i+1:]
			}
			def := "fn_" + strings.ReplaceAll(fnName, ".", "_")
			if fd == nil || fd.Body == nil {
				lost = append(lost, rel+":gomini:"+fnName+" (function not found)")
				fmt.Fprintf(&b, "/-- `%s` (%s): NOT FOUND -/\ndef %s : Func := { recv := none, params := [], body := [.unsupported \"function not found\"] }\n\n", fnName, rel, def)
				names = append(names, "("+strconv.Quote(short)+", "+def+")")
				continue
			}
			g := &gm{f: f, consts: consts, pkgs: importedPkgs(f), cur: fnName, ext: externalConsts(f), namedInts: named, foreign: gmForeign[module], module: module, cfiles: cf}
			g.push()
			recv := "none"
			if fd.Recv != nil && len(fd.Recv.List) > 0 && len(fd.Recv.List[0].Names) > 0 {
				recv = "(some " + strconv.Quote(g.declare(fd.Recv.List[0].Names[0].Name)) + ")"
			}
			var params []string
			for _, p := range fd.Type.Params.List {
				for _, n := range p.Names {
					params = append(params, strconv.Quote(g.declare(n.Name)))
				}
			}
			// parameters and the function's outermost block are ONE scope in Go
			var bodyStmts []string
			if fd.Type.Results != nil {
				for _, p := range fd.Type.Results.List {
					for _, n := range p.Names {
						// named results: declared with their zero value when the function starts; a bare `return` returns them.
						// (A deferred closure that changes a named result after the `return` is outside the subset like every closure.)
						nm := g.declare(n.Name)
						if nm != "_" {
							g.namedRes = append(g.namedRes, nm)
							bodyStmts = append(bodyStmts, "(.assign [.var "+strconv.Quote(nm)+"] ["+zeroExpr(p.Type)+"])")
						}
					}
				}
			}
			for _, st := range fd.Body.List {
				bodyStmts = append(bodyStmts, g.stmt(st)...)
			}
			body := "[" + strings.Join(bodyStmts, ",\n      ") + "]"
			fmt.Fprintf(&b, "/-- `%s` (%s) -/\ndef %s : Func :=\n  { recv := %s, params := [%s],\n    body := %s }\n\n", fnName, rel, def, recv, strings.Join(params, ", "), body)
			names = append(names, "("+strconv.Quote(short)+", "+def+")")
			for _, lf := range g.lifted {
				b.WriteString(lf[1])
				ldef := lf[1][strings.Index(lf[1], "\ndef ")+5:]
				ldef = ldef[:strings.Index(ldef, " ")]
				names = append(names, "("+strconv.Quote(lf[0])+", "+ldef+")")
			}
			for _, u := range g.unsupported {
				allUnsupported = append(allUnsupported, u)
				lost = append(lost, rel+":gomini:"+u)
			}
		}
	}
	fmt.Fprintf(&b, "/-- The translated functions, by (method) name. -/\ndef prog : Prog :=\n  [%s]\n\n", strings.Join(names, ",\n   "))
	sort.Strings(allUnsupported)
	var us []string
	for _, u := range allUnsupported {
		us = append(us, gmStr(u))
	}
	fmt.Fprintf(&b, "/-- Constructs outside the subset (must be empty for the tie to hold). -/\ndef unsupported : List String := [%s]\n\n", strings.Join(us, ", "))
	fmt.Fprintf(&b, "end Liftbridge.Gen.%s\n", module)
	facts["gomini_"+module+"_unsupported"] = allUnsupported
	return b.String()
}

// gmInlineErrs: units in which the package-level sentinel errors are values of their own (see expr, *ast.Ident).
var gmInlineErrs = map[string]bool{"GoFence": true, "GoReaderNew": true}

// declared: is the name declared in any scope of the function being translated?
func (g *gm) declared(name string) bool {
	for _, sc := range g.scopes {
		if _, ok := sc[name]; ok {
			return true
		}
	}
	return false
}

// gmForeign: per unit, the receiver fields whose methods belong to other types.
var gmForeign = map[string]map[string]bool{"GoAuthz": {"metadata": true, "cursors": true}, "GoFSM": {"metadata": true, "activity": true},
	"GoLogEpoch": {"leaderEpochCache": true},
	"GoMetaApply": {"partition": true, "stream": true, "group": true}, "GoSubEntry": {"metadata": true, "partition": true}}

// ptrSliceField: `….<Parent>.<Field>` where the unit's declaration files declare `type <Parent> struct { <Field> []*T }`
// (the parent is named by the selector before the field: protobuf records name a field after its message type).
func (g *gm) ptrSliceField(sx *ast.SelectorExpr) bool {
	px, ok := sx.X.(*ast.SelectorExpr)
	if !ok {
		return false
	}
	for _, f := range g.cfiles {
		for _, d := range f.f.Decls {
			gd, ok := d.(*ast.GenDecl)
			if !ok {
				continue
			}
			for _, sp := range gd.Specs {
				ts, ok := sp.(*ast.TypeSpec)
				if !ok || ts.Name.Name != px.Sel.Name {
					continue
				}
				st, ok := ts.Type.(*ast.StructType)
				if !ok {
					continue
				}
				for _, fl := range st.Fields.List {
					for _, n := range fl.Names {
						if n.Name == sx.Sel.Name {
							if at, ok := fl.Type.(*ast.ArrayType); ok && at.Len == nil {
								_, isPtr := at.Elt.(*ast.StarExpr)
								return isPtr
							}
						}
					}
				}
			}
		}
	}
	return false
}

// namedSlice: `type <name> []E` in the unit's declaration files.
func (g *gm) namedSlice(name string) bool {
	for _, f := range g.cfiles {
		for _, d := range f.f.Decls {
			if gd, ok := d.(*ast.GenDecl); ok {
				for _, sp := range gd.Specs {
					if ts, ok := sp.(*ast.TypeSpec); ok && ts.Name.Name == name {
						if at, ok := ts.Type.(*ast.ArrayType); ok && at.Len == nil {
							return true
						}
					}
				}
			}
		}
	}
	return false
}

// gmPtrSlices: per unit, fields that hold slices of POINTERS to records (protobuf `repeated` message fields).
var gmPtrSlices = map[string]map[string]bool{"GoFSM": {"Partitions": true}}

// genGoMiniAll: the translated units, one generated module per package area.
func genGoMiniAll() []*leanFile {
	cl := "server/commitlog/"
	clConsts := []string{cl + "leader_epoch_cache.go", cl + "message_set.go", cl + "index.go", cl + "segment.go", cl + "commitlog.go"}
	var out []*leanFile
	out = append(out, &leanFile{name: "GoEpochCache", raw: genGoMini("GoEpochCache",
		[]string{cl + "leader_epoch_cache.go", cl + "commitlog.go"},
		map[string][]string{cl + "commitlog.go": {"commitLog.append"}, cl + "leader_epoch_cache.go": {
			"leaderEpochCache.earliestOffset", "leaderEpochCache.latestEpoch", "leaderEpochCache.latestOffset",
			"leaderEpochCache.findEpoch", "leaderEpochCache.assign", "leaderEpochCache.Assign",
			"leaderEpochCache.LastOffsetForLeaderEpoch", "leaderEpochCache.LastLeaderEpoch",
			"leaderEpochCache.ClearLatest", "leaderEpochCache.ClearEarliest"}},
		clConsts)})
	out = append(out, &leanFile{name: "GoRetention", raw: genGoMini("GoRetention",
		[]string{cl + "delete_cleaner.go"},
		map[string][]string{cl + "delete_cleaner.go": {
			"deleteCleaner.noRetentionLimits", "deleteCleaner.applyMessagesLimit", "deleteCleaner.applyBytesLimit",
			"deleteCleaner.applyAgeLimit", "deleteCleaner.Clean"}},
		clConsts)})
	out = append(out, &leanFile{name: "GoSegments", raw: genGoMini("GoSegments",
		[]string{cl + "util.go"},
		map[string][]string{cl + "util.go": {"findSegment", "findSegmentContains", "findSegmentByBaseOffset", "roundDown"}},
		clConsts)})
	out = append(out, &leanFile{name: "GoTimestamps", raw: genGoMini("GoTimestamps",
		[]string{cl + "commitlog.go"},
		map[string][]string{cl + "commitlog.go": {"commitLog.EarliestOffsetAfterTimestamp", "commitLog.LatestOffsetBeforeTimestamp"}},
		clConsts)})
	out = append(out, &leanFile{name: "GoSplit", raw: genGoMini("GoSplit",
		[]string{cl + "commitlog.go", cl + "segment.go"},
		map[string][]string{cl + "commitlog.go": {"commitLog.checkAndPerformSplit"}, cl + "segment.go": {"segment.CheckSplit", "segment.NextOffset"}},
		clConsts)})
	out = append(out, &leanFile{name: "GoSegFiles", raw: genGoMini("GoSegFiles",
		[]string{cl + "segment.go"},
		map[string][]string{cl + "segment.go": {"segment.Replace", "segment.WriteMessageSet", "segment.write", "segment.newSuffixed"}},
		clConsts)})
	out = append(out, &leanFile{name: "GoTruncate", raw: genGoMini("GoTruncate",
		[]string{cl + "commitlog.go"},
		map[string][]string{cl + "commitlog.go": {"commitLog.Truncate"}},
		clConsts)})
	out = append(out, &leanFile{name: "GoRevScan", raw: genGoMini("GoRevScan",
		[]string{cl + "index.go"},
		map[string][]string{cl + "index.go": {"newReverseIndexScanner", "newReverseIndexScannerFromEnd", "reverseIndexScanner.Scan"}},
		clConsts)})
	out = append(out, &leanFile{name: "GoLogEpoch", raw: genGoMini("GoLogEpoch",
		[]string{cl + "commitlog.go"},
		map[string][]string{cl + "commitlog.go": {"commitLog.NewLeaderEpoch", "commitLog.LastOffsetForLeaderEpoch", "commitLog.NewestOffset"}},
		clConsts)})
	out = append(out, &leanFile{name: "GoAppendTop", raw: genGoMini("GoAppendTop",
		[]string{cl + "commitlog.go"},
		map[string][]string{cl + "commitlog.go": {"commitLog.Append", "commitLog.AppendMessageSet"}},
		clConsts)})
	out = append(out, &leanFile{name: "GoReaderNew", raw: genGoMini("GoReaderNew",
		[]string{cl + "reader.go"},
		map[string][]string{cl + "reader.go": {"commitLog.newReaderCommitted", "commitLog.newReaderUncommitted", "commitLog.NewReader"}},
		clConsts)})
	out = append(out, &leanFile{name: "GoHWPos", raw: genGoMini("GoHWPos",
		[]string{cl + "reader.go"},
		map[string][]string{cl + "reader.go": {"getHWPos"}},
		clConsts)})
	sv := "server/"
	out = append(out, &leanFile{name: "GoPartition", raw: genGoMini("GoPartition",
		[]string{sv + "partition.go"},
		map[string][]string{sv + "partition.go": {
			"partition.truncateUncommitted", "partition.truncateToHW", "partition.inReplicas", "partition.inISR",
			"partition.RemoveFromISR", "partition.AddToISR"}},
		[]string{sv + "partition.go"})})
	out = append(out, &leanFile{name: "GoCommit", raw: genGoMini("GoCommit",
		[]string{sv + "partition.go"},
		map[string][]string{sv + "partition.go": {"replica.updateLatestOffset", "replica.resetLatestOffset", "replica.getLatestOffset",
			"partition.updateISRLatestOffset", "min", "minInt64"}},
		[]string{sv + "partition.go"})})
	out = append(out, &leanFile{name: "GoReplication", raw: genGoMini("GoReplication",
		[]string{sv + "partition.go"},
		map[string][]string{sv + "partition.go": {"partition.handleReplicationRequest", "partition.handleReplicationResponse", "partition.handleLeaderOffsetRequest", "minInt64",
			"partition.checkLeaderHealth", "partition.sendReplicationRequest"}},
		[]string{sv + "partition.go"})})
	out = append(out, &leanFile{name: "GoElect", raw: genGoMini("GoElect",
		[]string{sv + "metadata.go"},
		map[string][]string{sv + "metadata.go": {"metadataAPI.electNewPartitionLeader"}},
		[]string{sv + "metadata.go"})})
	out = append(out, &leanFile{name: "GoAck", raw: genGoMini("GoAck",
		[]string{sv + "partition.go", sv + "api.go"},
		map[string][]string{sv + "partition.go": {"partition.processPendingMessage", "partition.sendAck", "partition.sendTooLargeNack", "partition.SetLeader"}, sv + "api.go": {"apiServer.ensurePublishPreconditions"}},
		[]string{sv + "partition.go", sv + "api.go"})})
	out = append(out, &leanFile{name: "GoNatsMsg", raw: genGoMini("GoNatsMsg",
		[]string{sv + "partition.go"},
		map[string][]string{sv + "partition.go": {"natsToProtoMessage", "getMessage", "computeTick"}},
		[]string{sv + "partition.go"})})
	out = append(out, &leanFile{name: "GoFence", raw: genGoMini("GoFence",
		[]string{sv + "metadata.go"},
		map[string][]string{sv + "metadata.go": {"metadataAPI.checkLeaderGeneration", "metadataAPI.partitionExists",
			"metadataAPI.checkShrinkISRPreconditions", "metadataAPI.checkExpandISRPreconditions", "metadataAPI.checkChangeLeaderPreconditions"}},
		[]string{sv + "metadata.go"})})
	out = append(out, &leanFile{name: "GoMetaApply", raw: genGoMini("GoMetaApply",
		[]string{sv + "metadata.go"},
		map[string][]string{sv + "metadata.go": {"metadataAPI.RemoveFromISR", "metadataAPI.AddToISR", "metadataAPI.ChangeLeader",
			"metadataAPI.ChangeGroupCoordinator", "metadataAPI.SetReadonly", "metadataAPI.PausePartitions"}},
		[]string{sv + "metadata.go"})})
	out = append(out, &leanFile{name: "GoFailover", raw: genGoMini("GoFailover",
		[]string{sv + "failover.go", sv + "partition.go"},
		map[string][]string{
			sv + "failover.go":  {"failoverStatus.report", "failoverStatus.cancel", "partitionFailover.Quorum", "partitionFailover.IsWitness", "partitionFailover.Timeout"},
			sv + "partition.go": {"partition.inISR", "partition.ISRSize", "partition.GetLeader"}},
		[]string{sv + "failover.go", sv + "partition.go"})})
	out = append(out, &leanFile{name: "GoCursors", raw: genGoMini("GoCursors",
		[]string{sv + "cursors.go"},
		map[string][]string{sv + "cursors.go": {"cursorManager.SetCursor", "cursorManager.GetCursor"}},
		[]string{sv + "cursors.go"})})
	out = append(out, &leanFile{name: "GoSubscribe", raw: genGoMini("GoSubscribe",
		[]string{sv + "partition.go"},
		map[string][]string{sv + "partition.go": {"partition.getStopOffset", "partition.getStartOffset"}},
		[]string{sv + "partition.go", sv + "api.go"})})
	out = append(out, &leanFile{name: "GoMessageSet", raw: genGoMini("GoMessageSet",
		[]string{cl + "message_set.go"},
		map[string][]string{cl + "message_set.go": {"newMessageSetFromProto"}},
		clConsts)})
	out = append(out, &leanFile{name: "GoGroupSub", raw: genGoMini("GoGroupSub",
		[]string{sv + "partition.go"},
		map[string][]string{sv + "partition.go": {"partition.Subscribe", "partition.removeGroupSubscriber"}},
		[]string{sv + "partition.go"})})
	out = append(out, &leanFile{name: "GoSubEntry", raw: genGoMini("GoSubEntry",
		[]string{sv + "api.go"},
		map[string][]string{sv + "api.go": {"apiServer.SubscribeInternal"}},
		[]string{sv + "api.go"})})
	out = append(out, &leanFile{name: "GoStreamConfig", raw: genGoMini("GoStreamConfig",
		[]string{sv + "api.go"},
		map[string][]string{sv + "api.go": {"getStreamConfig"}},
		[]string{sv + "api.go"})})
	out = append(out, &leanFile{name: "GoAuthz", raw: genGoMini("GoAuthz",
		[]string{sv + "api.go"},
		map[string][]string{sv + "api.go": {
			"apiServer.ensureAuthorizationPermission", "apiServer.CreateStream", "apiServer.DeleteStream", "apiServer.PauseStream",
			"apiServer.SetStreamReadonly", "apiServer.FetchMetadata", "apiServer.FetchPartitionMetadata", "apiServer.Publish",
			"apiServer.publishInternal", "apiServer.PublishToSubject", "apiServer.SetCursor", "apiServer.FetchCursor",
			"apiServer.JoinConsumerGroup", "apiServer.LeaveConsumerGroup"}},
		[]string{sv + "api.go"})})
	out = append(out, &leanFile{name: "GoFSM", raw: genGoMini("GoFSM",
		[]string{sv + "fsm.go"},
		map[string][]string{sv + "fsm.go": {"Server.apply", "Server.applyCreateStream", "Server.applyShrinkISR", "Server.applyExpandISR",
			"Server.applyChangePartitionLeader", "Server.applyDeleteStream", "Server.applyPauseStream", "Server.applySetStreamReadonly",
			"Server.applyResumeStream", "Server.applyCreateConsumerGroup", "Server.applyJoinConsumerGroup", "Server.applyLeaveConsumerGroup",
			"Server.applyChangeConsumerGroupCoordinator"}},
		[]string{sv + "fsm.go", "server/protocol/internal.pb.go"})})
	out = append(out, &leanFile{name: "GoRecover", raw: genGoMini("GoRecover",
		[]string{cl + "segment.go"},
		map[string][]string{cl + "segment.go": {"segment.indexMatchesLog", "segment.trimLog"}},
		clConsts)})
	out = append(out, &leanFile{name: "GoCompact", raw: genGoMini("GoCompact",
		[]string{cl + "compact_cleaner.go"},
		map[string][]string{cl + "compact_cleaner.go": {"compactCleaner.cleanSegment"}},
		clConsts)})
	out = append(out, &leanFile{name: "GoCompactAux", raw: genGoMini("GoCompactAux",
		[]string{cl + "compact_cleaner.go"},
		map[string][]string{cl + "compact_cleaner.go": {"keyOffset.set", "keyOffset.get", "cleanupEmptySegment"}},
		clConsts)})
	out = append(out, &leanFile{name: "GoHW", raw: genGoMini("GoHW",
		[]string{cl + "commitlog.go"},
		map[string][]string{cl + "commitlog.go": {"commitLog.waitForHW", "commitLog.SetHighWatermark", "commitLog.OverrideHighWatermark",
			"commitLog.notifyHWChange", "commitLog.notifyReadonly", "commitLog.removeHWWaiter", "commitLog.SetReadonly"}},
		clConsts)})
	out = append(out, &leanFile{name: "GoActivity", raw: genGoMini("GoActivity",
		[]string{sv + "activity.go"},
		map[string][]string{sv + "activity.go": {"activityManager.publishActivityEvent", "computeActivityPublishBackoff"}},
		[]string{sv + "activity.go"})})
	out = append(out, &leanFile{name: "GoGroups", raw: genGoMini("GoGroups",
		[]string{sv + "groups.go"},
		map[string][]string{sv + "groups.go": {"consumerHeap.Less", "consumer.assignPartition", "consumer.removeStreamAssignments"}},
		[]string{sv + "groups.go"})})
	en := "server/encryption/"
	out = append(out, &leanFile{name: "GoSeal", raw: genGoMini("GoSeal",
		[]string{en + "localkey_handler.go"},
		map[string][]string{en + "localkey_handler.go": {"LocalEncryptionHandler.Seal", "LocalEncryptionHandler.Read", "LocalEncryptionHandler.decryptData"}},
		[]string{en + "localkey_handler.go"})})
	tl := "server/telemetry/"
	out = append(out, &leanFile{name: "GoTelemetry", raw: genGoMini("GoTelemetry",
		[]string{tl + "telemetry.go", sv + "config.go"},
		map[string][]string{tl + "telemetry.go": {"Collector.Start"}, sv + "config.go": {"parseTelemetryConfig"}},
		[]string{tl + "telemetry.go", sv + "config.go"})})
	pr := "server/protocol/"
	out = append(out, &leanFile{name: "GoEnvelope", raw: genGoMini("GoEnvelope",
		[]string{pr + "envelope.go"},
		map[string][]string{pr + "envelope.go": {"checkEnvelope", "hasBit"}},
		[]string{pr + "envelope.go"})})
	return out
}

// externalConsts: integer constants (`Name T = <int>`) of the packages a file imports from OTHER modules,
// read from the module cache at the version go.mod pins (protobuf enums such as client.StopPosition_*).
var extConstCache = map[string]map[string]string{}

func externalConsts(f *file) map[string]string {
	out := map[string]string{}
	gomod, err := os.ReadFile(filepath.Join(repo, "go.mod"))
	if err != nil {
		return out
	}
	cache := os.Getenv("GOMODCACHE")
	if cache == "" {
		home, _ := os.UserHomeDir()
		gp := os.Getenv("GOPATH")
		if gp == "" {
			gp = filepath.Join(home, "go")
		}
		cache = filepath.Join(gp, "pkg", "mod")
	}
	req := regexp.MustCompile(`(?m)^\s*(\S+)\s+(v\S+)`)
	mods := map[string]string{}
	for _, m := range req.FindAllStringSubmatch(string(gomod), -1) {
		mods[m[1]] = m[2]
	}
	for _, im := range f.f.Imports {
		ip, _ := strconv.Unquote(im.Path.Value)
		if !strings.Contains(ip, "liftbridge-api") { // only the API module's enums are needed so far
			continue
		}
		alias := ""
		if im.Name != nil {
			alias = im.Name.Name
		} else {
			alias = ip[strings.LastIndex(ip, "/")+1:]
		}
		var dir string
		for mod, ver := range mods {
			if strings.HasPrefix(ip, mod) {
				dir = filepath.Join(cache, mod+"@"+ver, strings.TrimPrefix(ip, mod))
			}
		}
		if dir == "" {
			continue
		}
		if c, ok := extConstCache[dir]; ok {
			for k, v := range c {
				out[alias+"."+k] = v
			}
			continue
		}
		c := map[string]string{}
		ents, _ := os.ReadDir(dir)
		for _, e := range ents {
			if !strings.HasSuffix(e.Name(), ".go") || strings.HasSuffix(e.Name(), "_test.go") {
				continue
			}
			fset := token.NewFileSet()
			af, err := parser.ParseFile(fset, filepath.Join(dir, e.Name()), nil, 0)
			if err != nil {
				continue
			}
			for _, d := range af.Decls {
				gd, ok := d.(*ast.GenDecl)
				if !ok || gd.Tok != token.CONST {
					continue
				}
				for _, sp := range gd.Specs {
					vs := sp.(*ast.ValueSpec)
					for i, n := range vs.Names {
						if i < len(vs.Values) {
							if bl, ok := vs.Values[i].(*ast.BasicLit); ok && bl.Kind == token.INT {
								if v, err := strconv.ParseInt(bl.Value, 0, 64); err == nil {
									c[n.Name] = strconv.FormatInt(v, 10)
								}
							}
						}
					}
				}
			}
		}
		extConstCache[dir] = c
		for k, v := range c {
			out[alias+"."+k] = v
		}
	}
	return out
}
