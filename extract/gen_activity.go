package main

import (
	"fmt"
	"go/ast"
	"go/parser"
	"go/token"
	"os"
	"path/filepath"
	"regexp"
	"sort"
	"strconv"
	"strings"
)

const (
	activityGo = "server/activity.go"
	fsmGo      = "server/fsm.go"
	internalPb = "server/protocol/internal.pb.go"
)

// enumConsts reads `<prefix>NAME <type> = n` constants of an already parsed file.
func enumConsts(af *ast.File, typ, prefix string) map[string]int {
	out := map[string]int{}
	for _, d := range af.Decls {
		gd, ok := d.(*ast.GenDecl)
		if !ok || gd.Tok != token.CONST {
			continue
		}
		for _, s := range gd.Specs {
			vs := s.(*ast.ValueSpec)
			id, ok := vs.Type.(*ast.Ident)
			if !ok || id.Name != typ || len(vs.Names) != 1 || len(vs.Values) != 1 {
				continue
			}
			bl, ok := vs.Values[0].(*ast.BasicLit)
			if !ok || !strings.HasPrefix(vs.Names[0].Name, prefix) {
				continue
			}
			n, err := strconv.Atoi(bl.Value)
			if err != nil {
				continue
			}
			out[strings.TrimPrefix(vs.Names[0].Name, prefix)] = n
		}
	}
	return out
}

// apiModuleFile locates a file of the liftbridge-api module the repository builds against.
func apiModuleFile(name string) string {
	gm, err := os.ReadFile(filepath.Join(repo, "go.mod"))
	if err != nil {
		return ""
	}
	m := regexp.MustCompile(`(?m)^\s*(github\.com/liftbridge-io/liftbridge-api/v2)\s+(\S+)`).FindStringSubmatch(string(gm))
	if m == nil {
		return ""
	}
	cands := []string{filepath.Join(repo, "vendor", m[1], "go", name)}
	mc := os.Getenv("GOMODCACHE")
	if mc == "" {
		gp := os.Getenv("GOPATH")
		if gp == "" {
			home, _ := os.UserHomeDir()
			gp = filepath.Join(home, "go")
		}
		mc = filepath.Join(gp, "pkg", "mod")
	}
	cands = append(cands, filepath.Join(mc, m[1]+"@"+m[2], "go", name))
	for _, p := range cands {
		if _, err := os.Stat(p); err == nil {
			return p
		}
	}
	return ""
}

func leanPairs(m map[string]int) string {
	type kv struct {
		k string
		v int
	}
	var l []kv
	for k, v := range m {
		l = append(l, kv{k, v})
	}
	sort.Slice(l, func(i, j int) bool { return l[i].v < l[j].v })
	var p []string
	for _, e := range l {
		p = append(p, fmt.Sprintf("(%q, %d)", e.k, e.v))
	}
	return "[" + strings.Join(p, ", ") + "]"
}

// genActivity emits what the activity-stream model (C18) evaluates: the table of
// event-bearing operations read from the switch of activityManager.handleRaftLog (proto.Op
// -> client.ActivityStreamOp, with the one guarded early `return nil`), the decision points
// of the dispatch loop, the publish-then-record order, what the FSM stores for
// PUBLISH_ACTIVITY, and whether the FSM snapshot carries the last published index.
func genActivity() *leanFile {
	l := newLean("Activity", "/repo/"+activityGo+", /repo/"+fsmGo+", /repo/"+serverGo+", /repo/"+configGo+", /repo/"+internalPb)
	f := load(activityGo)

	// ---- enumerations
	protoOps := enumConsts(load(internalPb).f, "Op", "Op_")
	if len(protoOps) == 0 {
		lost = append(lost, internalPb+":enum Op")
	}
	actOps := map[string]int{}
	if p := apiModuleFile("api.pb.go"); p != "" {
		if af, err := parser.ParseFile(token.NewFileSet(), p, nil, 0); err == nil {
			actOps = enumConsts(af, "ActivityStreamOp", "ActivityStreamOp_")
		}
	}
	if len(actOps) == 0 {
		lost = append(lost, activityGo+":enum client.ActivityStreamOp of liftbridge-api not found (module cache / vendor)")
	}
	l.def("protoOps", "List (String × Nat)", leanPairs(protoOps), "proto.Op (server/protocol/internal.pb.go)")
	l.def("activityOps", "List (String × Nat)", leanPairs(actOps), "client.ActivityStreamOp (liftbridge-api)")
	pa, ok := protoOps["PUBLISH_ACTIVITY"]
	if !ok {
		lost = append(lost, internalPb+":Op_PUBLISH_ACTIVITY")
	}
	l.def("opPublishActivity", "Nat", fmt.Sprint(pa), "proto.Op_PUBLISH_ACTIVITY")

	// ---- handleRaftLog: the switch
	type evCase struct {
		op, act int
		guard   bool
		name    string
	}
	var cases []evCase
	defaultSkips := false
	idIsIndex := false
	if fd := f.fn("activityManager.handleRaftLog"); fd == nil || fd.Body == nil {
		lost = append(lost, activityGo+":activityManager.handleRaftLog (function not found)")
	} else {
		var sw *ast.SwitchStmt
		for _, st := range fd.Body.List {
			if s, ok := st.(*ast.SwitchStmt); ok && s.Tag != nil && nows(f.src(s.Tag)) == "log.Op" {
				sw = s
			}
		}
		if sw == nil {
			lost = append(lost, activityGo+":activityManager.handleRaftLog: switch log.Op")
		} else {
			for _, c := range sw.Body.List {
				cc := c.(*ast.CaseClause)
				if cc.List == nil { // default
					if len(cc.Body) == 1 && nows(f.src(cc.Body[0])) == "returnnil" {
						defaultSkips = true
					}
					continue
				}
				// the ActivityStreamOp assigned to event.Op, and early returns
				act, nAct := -1, 0
				var returns []string // conditions guarding a `return nil` inside the clause
				badReturn := false
				var walk func(n ast.Node, cond string)
				walk = func(n ast.Node, cond string) {
					ast.Inspect(n, func(x ast.Node) bool {
						switch v := x.(type) {
						case *ast.AssignStmt:
							if len(v.Lhs) == 1 && len(v.Rhs) == 1 && nows(f.src(v.Lhs[0])) == "event.Op" {
								r := nows(f.src(v.Rhs[0]))
								if strings.HasPrefix(r, "client.ActivityStreamOp_") {
									if n, ok := actOps[strings.TrimPrefix(r, "client.ActivityStreamOp_")]; ok {
										act = n
										nAct++
									}
								}
							}
						case *ast.IfStmt:
							if x != n {
								walk(v.Body, nows(f.src(v.Cond)))
								if v.Else != nil {
									walk(v.Else, "else:"+nows(f.src(v.Cond)))
								}
								return false
							}
						case *ast.ReturnStmt:
							if nows(f.src(v)) == "returnnil" && cond != "" {
								returns = append(returns, cond)
							} else {
								badReturn = true
							}
						}
						return true
					})
				}
				walk(&ast.BlockStmt{List: cc.Body}, "")
				guard := false
				if len(returns) == 1 && returns[0] == "len(members)==0" {
					// `members` must be the member list of the created group
					for _, st := range cc.Body {
						if nows(f.src(st)) == "members:=log.CreateConsumerGroupOp.ConsumerGroup.Members" {
							guard = true
						}
					}
					if !guard {
						badReturn = true
					}
				} else if len(returns) != 0 {
					badReturn = true
				}
				for _, e := range cc.List {
					name := strings.TrimPrefix(nows(f.src(e)), "proto.Op_")
					op, ok := protoOps[name]
					if !ok || nAct != 1 || badReturn {
						lost = append(lost, activityGo+":activityManager.handleRaftLog: case "+nows(f.src(e))+" (unrecognised shape)")
						continue
					}
					cases = append(cases, evCase{op, act, guard, name})
				}
			}
		}
		// event.Id is assigned exactly once, from l.Index, after the switch
		nID := 0
		ast.Inspect(fd.Body, func(x ast.Node) bool {
			if as, ok := x.(*ast.AssignStmt); ok && len(as.Lhs) == 1 && nows(f.src(as.Lhs[0])) == "event.Id" {
				nID++
				if len(as.Rhs) == 1 && nows(f.src(as.Rhs[0])) == "l.Index" {
					idIsIndex = true
				}
			}
			return true
		})
		if nID != 1 {
			idIsIndex = false
		}
		n := len(fd.Body.List)
		if n < 2 || nows(f.src(fd.Body.List[n-1])) != "returna.publishActivityEvent(event)" || nows(f.src(fd.Body.List[n-2])) != "event.Id=l.Index" {
			lost = append(lost, activityGo+":activityManager.handleRaftLog: `event.Id = l.Index; return a.publishActivityEvent(event)` after the switch")
		}
	}
	sort.Slice(cases, func(i, j int) bool { return cases[i].op < cases[j].op })
	var cs, cn []string
	for _, c := range cases {
		cs = append(cs, fmt.Sprintf("(%d, %d, %v)", c.op, c.act, c.guard))
		cn = append(cn, c.name)
	}
	facts["Activity.eventCases"] = cn
	l.def("eventCases", "List (Nat × Nat × Bool)", "["+strings.Join(cs, ", ")+"]",
		"handleRaftLog: (proto.Op, client.ActivityStreamOp, `if len(members) == 0 { return nil }` before the event is built) for "+strings.Join(cn, " "))
	l.def("defaultSkips", "Bool", boolLit(defaultSkips), "handleRaftLog: default: return nil")
	if !defaultSkips {
		lost = append(lost, activityGo+":activityManager.handleRaftLog: default: return nil")
	}
	l.def("idIsIndex", "Bool", boolLit(idIsIndex), "handleRaftLog: event.Id = l.Index (the only assignment to event.Id)")

	// ---- dispatch
	start := int64(-1)
	getLogPanics, getLogFound := false, false
	retryShape := false
	skipNonCmd := false
	if fd := f.fn("activityManager.dispatch"); fd == nil || fd.Body == nil {
		lost = append(lost, activityGo+":activityManager.dispatch (function not found)")
	} else {
		ast.Inspect(fd.Body, func(x ast.Node) bool {
			switch v := x.(type) {
			case *ast.ValueSpec:
				for i, id := range v.Names {
					if id.Name == "index" && i < len(v.Values) {
						if be, ok := v.Values[i].(*ast.BinaryExpr); ok && be.Op == token.ADD && nows(f.src(be.X)) == "a.LastPublishedRaftIndex()" {
							if bl, ok := be.Y.(*ast.BasicLit); ok {
								start, _ = strconv.ParseInt(bl.Value, 10, 64)
							}
						}
					}
				}
			case *ast.IfStmt:
				if v.Init != nil && strings.Contains(nows(f.src(v.Init)), "raftNode.store.GetLog(index,log)") && nows(f.src(v.Cond)) == "err!=nil" {
					getLogFound = true
					for _, st := range v.Body.List {
						if strings.HasPrefix(nows(f.src(st)), "panic(") {
							getLogPanics = true
						}
					}
				}
				if nows(f.src(v.Cond)) == "log.Type!=raft.LogCommand" && len(v.Body.List) == 2 &&
					nows(f.src(v.Body.List[0])) == "index++" && nows(f.src(v.Body.List[1])) == "continue" {
					skipNonCmd = true
				}
			case *ast.ForStmt:
				// RETRY: if err := a.handleRaftLog(log); err != nil { … goto RETRY / return … }  followed by index++
				for i, st := range v.Body.List {
					ls, ok := st.(*ast.LabeledStmt)
					if !ok || ls.Label.Name != "RETRY" {
						continue
					}
					is, ok := ls.Stmt.(*ast.IfStmt)
					if !ok || is.Init == nil || nows(f.src(is.Init)) != "err:=a.handleRaftLog(log)" || nows(f.src(is.Cond)) != "err!=nil" {
						continue
					}
					hasGoto, falls := false, false
					ast.Inspect(is.Body, func(y ast.Node) bool {
						if bs, ok := y.(*ast.BranchStmt); ok && bs.Tok == token.GOTO && bs.Label != nil && bs.Label.Name == "RETRY" {
							hasGoto = true
						}
						return true
					})
					// the error branch must end in a select whose every clause leaves (goto / return)
					if k := len(is.Body.List); k > 0 {
						if sel, ok := is.Body.List[k-1].(*ast.SelectStmt); ok {
							for _, c := range sel.Body.List {
								cc := c.(*ast.CommClause)
								if len(cc.Body) == 0 {
									falls = true
									continue
								}
								switch last := cc.Body[len(cc.Body)-1].(type) {
								case *ast.ReturnStmt:
								case *ast.BranchStmt:
									if last.Tok != token.GOTO {
										falls = true
									}
								default:
									falls = true
								}
							}
						} else {
							falls = true
						}
					}
					next := i+1 < len(v.Body.List) && nows(f.src(v.Body.List[i+1])) == "index++" && i+2 == len(v.Body.List)
					if hasGoto && !falls && next {
						retryShape = true
					}
				}
			}
			return true
		})
	}
	if start < 0 {
		lost = append(lost, activityGo+":activityManager.dispatch: index = a.LastPublishedRaftIndex() + <n>")
		start = 1
	}
	l.def("startOffset", "Nat", fmt.Sprint(start), "dispatch: index = a.LastPublishedRaftIndex() + n")
	l.cmp("caughtUpCmp", activityGo, "activityManager.dispatch", "index ? raftNode.getCommitIndex()", 0, "gt")
	if !getLogFound {
		lost = append(lost, activityGo+":activityManager.dispatch: if err := raftNode.store.GetLog(index, log); err != nil")
		getLogPanics = true
	}
	l.def("getLogErrorPanics", "Bool", boolLit(getLogPanics), "dispatch: if err := raftNode.store.GetLog(index, log); err != nil { panic(err) }")
	if !skipNonCmd {
		lost = append(lost, activityGo+":activityManager.dispatch: if log.Type != raft.LogCommand { index++; continue }")
	}
	if !retryShape {
		lost = append(lost, activityGo+":activityManager.dispatch: RETRY: if err := a.handleRaftLog(log); err != nil { …goto RETRY/return } index++")
	}

	// ---- publishActivityEvent: publish, return on error, then record event.Id through Raft
	// the event is published through the server's own Publish path: the handler itself, or its variant without the client
	// authorisation check (there is no client)
	pubPos := callPositions(activityGo, "activityManager.publishActivityEvent", "a.api.Publish")
	pubPos = append(pubPos, callPositions(activityGo, "activityManager.publishActivityEvent", "a.api.publishInternal")...)
	recPos := callPositions(activityGo, "activityManager.publishActivityEvent", "a.getRaft().applyOperation")
	order := len(pubPos) == 1 && len(recPos) == 1 && pubPos[0] < recPos[0]
	errReturn := false
	recordsID := false
	if fd := f.fn("activityManager.publishActivityEvent"); fd != nil && fd.Body != nil && order {
		ast.Inspect(fd.Body, func(x ast.Node) bool {
			switch v := x.(type) {
			case *ast.IfStmt:
				if int(v.Pos()) > pubPos[0] && int(v.Pos()) < recPos[0] && nows(f.src(v.Cond)) == "err!=nil" && len(v.Body.List) == 1 {
					if _, ok := v.Body.List[0].(*ast.ReturnStmt); ok {
						errReturn = true
					}
				}
			case *ast.KeyValueExpr:
				if nows(f.src(v.Key)) == "RaftIndex" && nows(f.src(v.Value)) == "event.Id" {
					recordsID = true
				}
			}
			return true
		})
	}
	if !order || !errReturn {
		lost = append(lost, activityGo+":activityManager.publishActivityEvent: a.api.Publish / publishInternal; if err != nil { return … }; a.getRaft().applyOperation")
	}
	l.def("recordArgIsEventId", "Bool", boolLit(recordsID), "publishActivityEvent: PublishActivityOp{RaftIndex: event.Id}")
	ackFromConfig := false
	if fd := f.fn("activityManager.publishActivityEvent"); fd != nil && fd.Body != nil {
		ast.Inspect(fd.Body, func(x ast.Node) bool {
			if kv, ok := x.(*ast.KeyValueExpr); ok && nows(f.src(kv.Key)) == "AckPolicy" && nows(f.src(kv.Value)) == "a.config.ActivityStream.PublishAckPolicy" {
				ackFromConfig = true
			}
			return true
		})
	}
	if !ackFromConfig {
		lost = append(lost, activityGo+":activityManager.publishActivityEvent: AckPolicy: a.config.ActivityStream.PublishAckPolicy")
	}

	// ---- leadership
	if len(callPositions(activityGo, "activityManager.BecomeLeader", "a.startGoroutine")) != 1 {
		lost = append(lost, activityGo+":activityManager.BecomeLeader: a.startGoroutine(a.dispatch)")
	}
	if len(callPositions(activityGo, "activityManager.BecomeFollower", "close")) != 1 {
		lost = append(lost, activityGo+":activityManager.BecomeFollower: close(a.leadershipLostCh)")
	}
	bar := callPositions(serverGo, "Server.leadershipAcquired", "raft.Barrier")
	bl := callPositions(serverGo, "Server.leadershipAcquired", "s.activity.BecomeLeader")
	if !(len(bar) == 1 && len(bl) == 1 && bar[0] < bl[0]) {
		lost = append(lost, serverGo+":Server.leadershipAcquired: raft.Barrier before s.activity.BecomeLeader")
	}
	if len(callPositions(serverGo, "Server.leadershipLost", "s.activity.BecomeFollower")) != 1 {
		lost = append(lost, serverGo+":Server.leadershipLost: s.activity.BecomeFollower")
	}

	// ---- FSM: what PUBLISH_ACTIVITY stores; which ops the FSM knows; snapshot contents
	ff := load(fsmGo)
	stores, storesFound := false, "(case not found)"
	var fsmOps []string
	if fd := ff.fn("Server.apply"); fd == nil || fd.Body == nil {
		lost = append(lost, fsmGo+":Server.apply (function not found)")
	} else {
		ast.Inspect(fd.Body, func(x ast.Node) bool {
			cc, ok := x.(*ast.CaseClause)
			if !ok {
				return true
			}
			for _, e := range cc.List {
				name := nows(ff.src(e))
				if !strings.HasPrefix(name, "proto.Op_") {
					continue
				}
				name = strings.TrimPrefix(name, "proto.Op_")
				if n, ok := protoOps[name]; ok {
					fsmOps = append(fsmOps, fmt.Sprint(n))
				}
				if name == "PUBLISH_ACTIVITY" {
					// the resume rule: WHICH expression the FSM stores (the index carried by the
					// entry = the recorded event; anything else, e.g. the position of the entry
					// itself, lets the next dispatcher resume past undelivered operations)
					var body []string
					for _, st := range cc.Body {
						body = append(body, nows(ff.src(st)))
					}
					storesFound = strings.Join(body, "; ")
					if len(cc.Body) == 1 && body[0] == "s.activity.SetLastPublishedRaftIndex(log.PublishActivityOp.RaftIndex)" {
						stores = true
					}
				}
			}
			return true
		})
	}
	l.def("applyStoresArg", "Bool", boolLit(stores), "fsm.go apply: case proto.Op_PUBLISH_ACTIVITY: s.activity.SetLastPublishedRaftIndex(log.PublishActivityOp.RaftIndex)")
	if !stores {
		lost = append(lost, fsmGo+":Server.apply: case proto.Op_PUBLISH_ACTIVITY: expected s.activity.SetLastPublishedRaftIndex(log.PublishActivityOp.RaftIndex), found "+storesFound)
	}
	l.def("fsmOps", "List Nat", "["+strings.Join(fsmOps, ", ")+"]", "proto.Op values handled by Server.apply")
	inSnap, inRestore := false, false
	if fd := ff.fn("Server.Snapshot"); fd != nil && fd.Body != nil {
		inSnap = strings.Contains(ff.src(fd.Body), "LastPublishedRaftIndex")
	} else {
		lost = append(lost, fsmGo+":Server.Snapshot (function not found)")
	}
	if fd := ff.fn("Server.Restore"); fd != nil && fd.Body != nil {
		inRestore = strings.Contains(ff.src(fd.Body), "SetLastPublishedRaftIndex")
	} else {
		lost = append(lost, fsmGo+":Server.Restore (function not found)")
	}
	if inSnap != inRestore {
		lost = append(lost, fsmGo+":Snapshot/Restore disagree about the last published activity index")
	}
	facts["Activity.snapshotCarriesLastPublished"] = inSnap && inRestore
	l.def("snapshotCarriesLastPublished", "Bool", boolLit(inSnap && inRestore),
		"fsm.go: Snapshot() stores activity.LastPublishedRaftIndex() and Restore() hands it to SetLastPublishedRaftIndex")

	// ---- configuration: default ack policy, and whether `none` is accepted
	cf := load(configGo)
	defAll := false
	for _, d := range cf.f.Decls {
		if gd, ok := d.(*ast.GenDecl); ok && gd.Tok == token.CONST {
			for _, s := range gd.Specs {
				vs := s.(*ast.ValueSpec)
				for i, id := range vs.Names {
					if id.Name == "defaultActivityStreamPublishAckPolicy" && i < len(vs.Values) {
						defAll = nows(cf.src(vs.Values[i])) == "client.AckPolicy_ALL"
					}
				}
			}
		}
	}
	l.def("defaultAckPolicyAll", "Bool", boolLit(defAll), "config.go: defaultActivityStreamPublishAckPolicy = client.AckPolicy_ALL")
	noneOK := false
	if fd := cf.fn("parseAckPolicy"); fd != nil && fd.Body != nil {
		ast.Inspect(fd.Body, func(x ast.Node) bool {
			if cc, ok := x.(*ast.CaseClause); ok && len(cc.List) == 1 && nows(cf.src(cc.List[0])) == `"none"` {
				for _, st := range cc.Body {
					if strings.Contains(nows(cf.src(st)), "client.AckPolicy_NONE") {
						noneOK = true
					}
				}
			}
			return true
		})
	} else {
		lost = append(lost, configGo+":parseAckPolicy (function not found)")
	}
	l.def("ackNoneAccepted", "Bool", boolLit(noneOK), "config.go parseAckPolicy: activity.stream.publish.ack.policy = none is accepted (fire and forget)")
	return l
}
