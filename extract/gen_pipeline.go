package main

// C04: the leader's publish pipeline (server/partition.go) as a STRUCTURAL TABLE. Emits
// Gen/Pipeline.lean.
//
//   - every receive site of partition.messageProcessingLoop (a select clause receiving from
//     the loop's channel parameter) with per-site facts about the statements between the
//     receive and `msgBatch = append(msgBatch, m)`: is the Seal error checked / negatively
//     acknowledged / does control leave before the message joins the batch; the same for the
//     size check (`int64(len(msg.Data)) > …ReplicationMaxBytes`). A site whose statements cannot
//     be classified (no join found, an unlabelled break, a rejection branch of unknown shape) is
//     reported `lost`;
//   - the error path of `p.log.Append(msgBatch)`: does it leave before any positive ack is
//     built, does ErrIncorrectOffset produce an INCORRECT_OFFSET nack, for which message;
//   - where the fields of a positive ack come from (processPendingMessage) and how it is called;
//   - the gate of commitLoop: the first `if … { …; continue }` before the commit queue is
//     consulted must compare the CURRENT size of p.isr with p.minISR.

import (
	"fmt"
	"go/ast"
	"go/token"
	"strings"
)

type pipeSite struct {
	Kind        string `json:"kind"` // first | drain | wait
	Line        int    `json:"line"`
	SealChecked bool   `json:"sealChecked"`
	SealNack    bool   `json:"sealNack"`
	SealSkip    bool   `json:"sealSkip"`
	SizeChecked bool   `json:"sizeChecked"`
	SizeNack    bool   `json:"sizeNack"`
	SizeSkip    bool   `json:"sizeSkip"`
	SizeOp      string `json:"sizeOp"`
	Joins       bool   `json:"joins"`
	Problem     string `json:"problem,omitempty"`
}

// plLeaves classifies the last statement of a rejection branch: "yes" = control leaves the
// handling of this message (continue / return / labelled break / goto), "no" = it falls through
// to the statements that follow, "?" = cannot tell (unlabelled break inside a select).
func plLeaves(body *ast.BlockStmt) string {
	if body == nil || len(body.List) == 0 {
		return "no"
	}
	switch s := body.List[len(body.List)-1].(type) {
	case *ast.ReturnStmt:
		return "yes"
	case *ast.BranchStmt:
		switch s.Tok {
		case token.CONTINUE, token.GOTO:
			return "yes"
		case token.BREAK:
			if s.Label != nil {
				return "yes"
			}
			return "?"
		}
	case *ast.ExprStmt:
		if ce, ok := s.X.(*ast.CallExpr); ok {
			if id, ok := ce.Fun.(*ast.Ident); ok && id.Name == "panic" {
				return "yes"
			}
		}
	}
	return "no"
}

func plContainsCall(f *file, n ast.Node, callee string) bool {
	found := false
	ast.Inspect(n, func(x ast.Node) bool {
		if ce, ok := x.(*ast.CallExpr); ok && nows(f.src(ce.Fun)) == nows(callee) {
			found = true
		}
		return true
	})
	return found
}

// plContainsKV reports whether n contains a composite-literal field `key: value`.
func plContainsKV(f *file, n ast.Node, key, value string) bool {
	found := false
	ast.Inspect(n, func(x ast.Node) bool {
		if kv, ok := x.(*ast.KeyValueExpr); ok && nows(f.src(kv.Key)) == key && nows(f.src(kv.Value)) == nows(value) {
			found = true
		}
		return true
	})
	return found
}

func plIsRecvFrom(f *file, s ast.Stmt, ch string) bool {
	var e ast.Expr
	switch x := s.(type) {
	case *ast.AssignStmt:
		if len(x.Rhs) == 1 {
			e = x.Rhs[0]
		}
	case *ast.ExprStmt:
		e = x.X
	}
	ue, ok := e.(*ast.UnaryExpr)
	return ok && ue.Op == token.ARROW && nows(f.src(ue.X)) == ch
}

const plSizeLhs = "int64(len(msg.Data))"
const plSizeRhs = "p.srv.config.Clustering.ReplicationMaxBytes"

// plClassifySite walks the statements that follow a receive until the message joins msgBatch.
func plClassifySite(f *file, stmts []ast.Stmt, site *pipeSite) {
	for _, st := range stmts {
		// the join
		if as, ok := st.(*ast.AssignStmt); ok && len(as.Lhs) == 1 && len(as.Rhs) == 1 && nows(f.src(as.Lhs[0])) == "msgBatch" {
			if ce, ok := as.Rhs[0].(*ast.CallExpr); ok && nows(f.src(ce.Fun)) == "append" && len(ce.Args) == 2 && nows(f.src(ce.Args[0])) == "msgBatch" {
				site.Joins = true
				return
			}
		}
		is, ok := st.(*ast.IfStmt)
		if !ok {
			// a nested statement that hides a join or a rejection is not understood
			if _, simple := st.(*ast.AssignStmt); !simple {
				if _, simple = st.(*ast.ExprStmt); !simple {
					if _, simple = st.(*ast.DeclStmt); !simple {
						if _, simple = st.(*ast.IncDecStmt); !simple {
							site.Problem = "statement of unknown shape before the join: " + f.src(st)
							return
						}
					}
				}
			}
			continue
		}
		cond := nows(f.src(is.Cond))
		switch {
		case cond == "p.encryptionHandler!=nil":
			// `v, err := p.encryptionHandler.Seal(…); if err != nil { nack; leave }`
			for _, inner := range is.Body.List {
				ii, ok := inner.(*ast.IfStmt)
				if !ok || nows(f.src(ii.Cond)) != "err!=nil" {
					continue
				}
				if !plContainsCall(f, is.Body, "p.encryptionHandler.Seal") {
					continue
				}
				site.SealChecked = true
				site.SealNack = plContainsCall(f, ii.Body, "p.sendAck") && plContainsKV(f, ii.Body, "AckError", "client.Ack_ENCRYPTION") &&
					plContainsKV(f, ii.Body, "CorrelationId", "m.CorrelationID") && plContainsKV(f, ii.Body, "AckInbox", "m.AckInbox")
				switch plLeaves(ii.Body) {
				case "yes":
					site.SealSkip = true
				case "?":
					site.Problem = "seal-error branch ends in an unlabelled break"
					return
				}
			}
			if is.Else != nil {
				site.Problem = "else branch on the encryption check"
				return
			}
		default:
			be, isCmp := is.Cond.(*ast.BinaryExpr)
			if isCmp && nows(f.src(be.X)) == plSizeLhs && nows(f.src(be.Y)) == plSizeRhs {
				op, ok := cmpName[be.Op]
				if !ok {
					site.Problem = "size check is not a comparison"
					return
				}
				site.SizeChecked = true
				site.SizeOp = op
				site.SizeNack = plContainsCall(f, is.Body, "p.sendTooLargeNack")
				switch plLeaves(is.Body) {
				case "yes":
					site.SizeSkip = true
				case "?":
					site.Problem = "too-large branch ends in an unlabelled break"
					return
				}
				if is.Else != nil {
					site.Problem = "else branch on the size check"
					return
				}
				continue
			}
			site.Problem = "if statement of unknown shape before the join: if " + f.src(is.Cond)
			return
		}
	}
	site.Problem = "the message never joins msgBatch (no `msgBatch = append(msgBatch, …)` after the receive)"
}

func pipelineSites() []pipeSite {
	f := load(partitionGo)
	fd := f.fn("partition.messageProcessingLoop")
	if fd == nil || fd.Body == nil {
		lost = append(lost, partitionGo+":partition.messageProcessingLoop (function not found)")
		return nil
	}
	ch := ""
	if fd.Type.Params != nil && len(fd.Type.Params.List) > 0 && len(fd.Type.Params.List[0].Names) > 0 {
		ch = fd.Type.Params.List[0].Names[0].Name
	}
	if ch == "" {
		lost = append(lost, partitionGo+":partition.messageProcessingLoop: receive channel parameter")
		return nil
	}
	var sites []pipeSite
	// walk with knowledge of the enclosing statement list and for-loop depth
	var walkList func(list []ast.Stmt, depth int)
	var walkStmt func(s ast.Stmt, rest []ast.Stmt, depth int)
	walkList = func(list []ast.Stmt, depth int) {
		for i, s := range list {
			walkStmt(s, list[i+1:], depth)
		}
	}
	walkStmt = func(s ast.Stmt, rest []ast.Stmt, depth int) {
		switch x := s.(type) {
		case *ast.BlockStmt:
			walkList(x.List, depth)
		case *ast.LabeledStmt:
			walkStmt(x.Stmt, rest, depth)
		case *ast.ForStmt:
			walkList(x.Body.List, depth+1)
		case *ast.RangeStmt:
			walkList(x.Body.List, depth+1)
		case *ast.IfStmt:
			walkList(x.Body.List, depth)
			if x.Else != nil {
				walkStmt(x.Else, nil, depth)
			}
		case *ast.SwitchStmt:
			walkList(x.Body.List, depth)
		case *ast.CaseClause:
			walkList(x.Body, depth)
		case *ast.SelectStmt:
			hasDefault, hasOther := false, false
			for _, c := range x.Body.List {
				cc := c.(*ast.CommClause)
				if cc.Comm == nil {
					hasDefault = true
				} else if !plIsRecvFrom(f, cc.Comm, ch) && !plIsRecvFrom(f, cc.Comm, "stop") {
					hasOther = true
				}
			}
			for _, c := range x.Body.List {
				cc := c.(*ast.CommClause)
				if cc.Comm != nil && plIsRecvFrom(f, cc.Comm, ch) {
					site := pipeSite{Line: f.fset.Position(cc.Pos()).Line}
					switch {
					case depth <= 1 && !hasDefault && !hasOther:
						site.Kind = "first"
					case depth >= 2 && hasDefault:
						site.Kind = "drain"
					case depth >= 2 && hasOther:
						site.Kind = "wait"
					default:
						site.Problem = "receive site of unknown kind"
					}
					cont := cc.Body
					if len(cont) == 0 {
						cont = rest // `case msg = <-recvChan:` with an empty body: handled after the select
					}
					if site.Problem == "" {
						plClassifySite(f, cont, &site)
					}
					sites = append(sites, site)
				}
				walkList(cc.Body, depth)
			}
		}
	}
	walkList(fd.Body.List, 0)
	return sites
}

func genPipeline() *leanFile {
	l := newLean("Pipeline", "/repo/server/partition.go (messageProcessingLoop, processPendingMessage, commitLoop, sendTooLargeNack)")
	f := load(partitionGo)

	// ---- receive sites ----
	sites := pipelineSites()
	kinds := map[string]int{"first": 0, "drain": 1, "wait": 2}
	var rows []string
	seen := map[string]int{}
	for i, s := range sites {
		if s.Problem != "" {
			lost = append(lost, fmt.Sprintf("%s:partition.messageProcessingLoop: receive site %d (line %d): %s", partitionGo, i, s.Line, s.Problem))
		}
		// the comparison operator of the size check is Gen.Protocol.tooLargeCmp's business (all sites must agree)
		seen[s.Kind]++
		rows = append(rows, fmt.Sprintf("{ kind := %d, sealChecked := %s, sealNack := %s, sealSkip := %s, sizeChecked := %s, sizeNack := %s, sizeSkip := %s }",
			kinds[s.Kind], leanBool(s.SealChecked), leanBool(s.SealNack), leanBool(s.SealSkip), leanBool(s.SizeChecked), leanBool(s.SizeNack), leanBool(s.SizeSkip)))
	}
	if len(sites) == 0 {
		lost = append(lost, partitionGo+":partition.messageProcessingLoop: no receive site found")
	}
	if seen["first"] != 1 {
		lost = append(lost, fmt.Sprintf("%s:partition.messageProcessingLoop: %d receive sites open a batch (expected 1)", partitionGo, seen["first"]))
	}
	facts["Pipeline.sites"] = sites
	l.lines = append(l.lines,
		"/-- One receive site of `messageProcessingLoop` (`kind`: 0 = opens the batch, 1 = non-blocking drain, 2 = timed wait).",
		"`…Checked`: the rejection test is present; `…Nack`: its branch sends the negative ack; `…Skip`: control leaves",
		"before `msgBatch = append(msgBatch, m)`. -/",
		"structure Site where",
		"  kind : Nat",
		"  sealChecked : Bool",
		"  sealNack : Bool",
		"  sealSkip : Bool",
		"  sizeChecked : Bool",
		"  sizeNack : Bool",
		"  sizeSkip : Bool",
		"  deriving DecidableEq, Repr, Inhabited")
	l.def("sites", "List Site", "["+strings.Join(rows, ",\n  ")+"]", "receive sites of messageProcessingLoop in source order")

	// sendTooLargeNack: builds AckError TOO_LARGE with the message's correlation id and publishes it
	tl := false
	if fd := f.fn("partition.sendTooLargeNack"); fd != nil && fd.Body != nil {
		tl = plContainsKV(f, fd.Body, "AckError", "client.Ack_TOO_LARGE") && plContainsKV(f, fd.Body, "CorrelationId", "msg.CorrelationID") &&
			plContainsKV(f, fd.Body, "AckInbox", "msg.AckInbox") && plContainsCall(f, fd.Body, "p.srv.ncAcks.Publish")
	} else {
		lost = append(lost, partitionGo+":partition.sendTooLargeNack (function not found)")
	}
	facts["Pipeline.tooLargeNackSends"] = tl
	l.def("tooLargeNackSends", "Bool", leanBool(tl), "sendTooLargeNack publishes AckError TOO_LARGE with the message's correlation id on its ack inbox")

	// ---- Append error path ----
	errSkips, incNack, incFirst := false, false, false
	foundAppend := false
	if fd := f.fn("partition.messageProcessingLoop"); fd != nil && fd.Body != nil {
		ast.Inspect(fd.Body, func(n ast.Node) bool {
			bs, ok := n.(*ast.BlockStmt)
			if !ok {
				return true
			}
			for i, st := range bs.List {
				as, ok := st.(*ast.AssignStmt)
				if !ok || len(as.Rhs) != 1 || !plContainsCall(f, as.Rhs[0], "p.log.Append") {
					continue
				}
				if len(as.Lhs) != 2 || nows(f.src(as.Lhs[0])) != "offsets" || nows(f.src(as.Lhs[1])) != "err" || i+1 >= len(bs.List) {
					continue
				}
				is, ok := bs.List[i+1].(*ast.IfStmt)
				if !ok || nows(f.src(is.Cond)) != "err!=nil" {
					continue
				}
				foundAppend = true
				errSkips = plLeaves(is.Body) == "yes"
				for _, inner := range is.Body.List {
					ii, ok := inner.(*ast.IfStmt)
					if !ok || nows(f.src(ii.Cond)) != "errors.Is(err,commitlog.ErrIncorrectOffset)" {
						continue
					}
					incNack = plContainsCall(f, ii.Body, "p.sendAck") && plContainsKV(f, ii.Body, "AckError", "client.Ack_INCORRECT_OFFSET") &&
						plContainsKV(f, ii.Body, "CorrelationId", "msg.CorrelationID") && plContainsKV(f, ii.Body, "AckInbox", "msg.AckInbox")
					for _, s2 := range ii.Body.List {
						if a2, ok := s2.(*ast.AssignStmt); ok && len(a2.Lhs) == 1 && len(a2.Rhs) == 1 &&
							nows(f.src(a2.Lhs[0])) == "msg" && nows(f.src(a2.Rhs[0])) == "msgBatch[0]" {
							incFirst = true
						}
					}
				}
			}
			return true
		})
	}
	if !foundAppend {
		lost = append(lost, partitionGo+":partition.messageProcessingLoop: `offsets, err := p.log.Append(msgBatch)` followed by `if err != nil`")
	}
	facts["Pipeline.appendErr"] = map[string]bool{"skips": errSkips, "incorrectOffsetNack": incNack, "nackFirst": incFirst}
	l.def("appendErrSkips", "Bool", leanBool(errSkips), "if err != nil { …; continue } right after p.log.Append(msgBatch): no positive ack is built for a refused batch")
	l.def("incorrectOffsetNack", "Bool", leanBool(incNack), "errors.Is(err, commitlog.ErrIncorrectOffset) ⇒ p.sendAck(AckError: INCORRECT_OFFSET, the message's correlation id / ack inbox)")
	l.def("incorrectOffsetNackFirst", "Bool", leanBool(incFirst), "the INCORRECT_OFFSET nack is built from msgBatch[0]")

	// ---- positive ack: fields and call ----
	ackOff, ackCid, ackInbox, ackPol, ackErrSet := "?", "?", "?", "?", false
	if fd := f.fn("partition.processPendingMessage"); fd != nil && fd.Body != nil {
		n := 0
		ast.Inspect(fd.Body, func(x ast.Node) bool {
			cl, ok := x.(*ast.CompositeLit)
			if !ok || nows(f.src(cl.Type)) != "client.Ack" {
				return true
			}
			n++
			for _, e := range cl.Elts {
				if kv, ok := e.(*ast.KeyValueExpr); ok {
					switch nows(f.src(kv.Key)) {
					case "Offset":
						ackOff = nows(f.src(kv.Value))
					case "CorrelationId":
						ackCid = nows(f.src(kv.Value))
					case "AckInbox":
						ackInbox = nows(f.src(kv.Value))
					case "AckPolicy":
						ackPol = nows(f.src(kv.Value))
					case "AckError":
						ackErrSet = true
					}
				}
			}
			return true
		})
		if n != 1 {
			lost = append(lost, fmt.Sprintf("%s:partition.processPendingMessage: %d client.Ack literals (expected 1)", partitionGo, n))
		}
	} else {
		lost = append(lost, partitionGo+":partition.processPendingMessage (function not found)")
	}
	params := "?"
	if fd := f.fn("partition.processPendingMessage"); fd != nil && fd.Type.Params != nil {
		var ps []string
		for _, p := range fd.Type.Params.List {
			for _, nm := range p.Names {
				ps = append(ps, nm.Name)
			}
		}
		params = strings.Join(ps, ",")
	}
	l.def("pendingParams", "String", fmt.Sprintf("%q", params), "parameters of processPendingMessage")
	l.def("pendingAckOffset", "String", fmt.Sprintf("%q", ackOff), "Offset field of the ack built by processPendingMessage")
	l.def("pendingAckCorrelation", "String", fmt.Sprintf("%q", ackCid), "CorrelationId field")
	l.def("pendingAckInbox", "String", fmt.Sprintf("%q", ackInbox), "AckInbox field")
	l.def("pendingAckPolicy", "String", fmt.Sprintf("%q", ackPol), "AckPolicy field")
	l.def("pendingAckSetsError", "Bool", leanBool(ackErrSet), "the literal sets AckError")
	// the call: for i, msg := range msgBatch { … p.processPendingMessage(offsets[i], msg) }
	callTxt := "?"
	if fd := f.fn("partition.messageProcessingLoop"); fd != nil && fd.Body != nil {
		n := 0
		ast.Inspect(fd.Body, func(x ast.Node) bool {
			rs, ok := x.(*ast.RangeStmt)
			if !ok {
				return true
			}
			ast.Inspect(rs.Body, func(y ast.Node) bool {
				if ce, ok := y.(*ast.CallExpr); ok && nows(f.src(ce.Fun)) == "p.processPendingMessage" {
					n++
					var as []string
					for _, a := range ce.Args {
						as = append(as, nows(f.src(a)))
					}
					key, val := "_", "_"
					if rs.Key != nil {
						key = nows(f.src(rs.Key))
					}
					if rs.Value != nil {
						val = nows(f.src(rs.Value))
					}
					callTxt = fmt.Sprintf("for %s,%s:=range %s{p.processPendingMessage(%s)}", key, val, nows(f.src(rs.X)), strings.Join(as, ","))
				}
				return true
			})
			return true
		})
		if n != 1 {
			lost = append(lost, fmt.Sprintf("%s:partition.messageProcessingLoop: %d calls of processPendingMessage inside a range loop (expected 1)", partitionGo, n))
		}
		if total := len(callPositions(partitionGo, "partition.messageProcessingLoop", "p.processPendingMessage")); total != 1 {
			lost = append(lost, fmt.Sprintf("%s:partition.messageProcessingLoop: %d calls of processPendingMessage (expected 1)", partitionGo, total))
		}
	}
	l.def("pendingCall", "String", fmt.Sprintf("%q", callTxt), "how messageProcessingLoop calls processPendingMessage")
	facts["Pipeline.positiveAck"] = map[string]interface{}{"params": params, "offset": ackOff, "correlation": ackCid, "inbox": ackInbox, "policy": ackPol, "setsError": ackErrSet, "call": callTxt}

	// ---- commitLoop gate ----
	gateCurrent, gateText, gateOp := false, "(none)", "lt"
	if fd := f.fn("partition.commitLoop"); fd != nil && fd.Body != nil {
		var loopBody []ast.Stmt
		for _, st := range fd.Body.List {
			if fs, ok := st.(*ast.ForStmt); ok {
				loopBody = fs.Body.List
				break
			}
		}
		// position of the first use of the commit queue
		qpos := token.Pos(0)
		for _, st := range loopBody {
			if qpos == 0 && (plContainsCall(f, st, "p.commitQueue.TakeUntil") || plContainsCall(f, st, "p.log.SetHighWatermark")) {
				qpos = st.Pos()
			}
		}
		if qpos == 0 {
			lost = append(lost, partitionGo+":partition.commitLoop: use of the commit queue / SetHighWatermark in the loop body")
		}
		// names bound to len(p.isr) in the loop body
		sizeNames := map[string]token.Pos{}
		for _, st := range loopBody {
			if as, ok := st.(*ast.AssignStmt); ok && len(as.Lhs) == 1 && len(as.Rhs) == 1 && nows(f.src(as.Rhs[0])) == "len(p.isr)" {
				sizeNames[nows(f.src(as.Lhs[0]))] = as.Pos()
			}
		}
		isSize := func(e ast.Expr, at token.Pos) bool {
			t := nows(f.src(e))
			if t == "len(p.isr)" {
				return true
			}
			p, ok := sizeNames[t]
			return ok && p < at
		}
		for _, st := range loopBody {
			is, ok := st.(*ast.IfStmt)
			if !ok || (qpos != 0 && is.Pos() > qpos) {
				continue
			}
			if plLeaves(is.Body) != "yes" {
				continue
			}
			// the first conditional `continue` before the queue is consulted is the gate
			gateText = f.src(is.Cond)
			if be, ok := is.Cond.(*ast.BinaryExpr); ok {
				if op, ok := cmpName[be.Op]; ok && isSize(be.X, is.Pos()) && nows(f.src(be.Y)) == "p.minISR" {
					gateCurrent, gateOp = true, op
				}
			}
			break
		}
	} else {
		lost = append(lost, partitionGo+":partition.commitLoop (function not found)")
	}
	facts["Pipeline.commitGate"] = map[string]interface{}{"text": gateText, "comparesCurrentIsrSize": gateCurrent, "op": gateOp}
	l.def("commitGateText", "String", fmt.Sprintf("%q", gateText), "condition of the first `if … { …; continue }` of commitLoop before the commit queue is consulted")
	l.def("commitGateCurrentIsr", "Bool", leanBool(gateCurrent), "that condition compares the CURRENT size of p.isr (len(p.isr), read in this iteration) with p.minISR")
	l.def("commitGateCmp", "Cmp", "."+gateOp, "len(p.isr) · p.minISR  (the gate; `lt` kept when the gate is not such a comparison)")
	return l
}
