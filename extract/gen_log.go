package main

import (
	"fmt"
	"go/ast"
	"strings"
)

const (
	commitlogGo = "server/commitlog/commitlog.go"
	segmentGo   = "server/commitlog/segment.go"
	epochGo     = "server/commitlog/leader_epoch_cache.go"
	utilGo      = "server/commitlog/util.go"
	msgsetGo    = "server/commitlog/message_set.go"
	readerGo    = "server/commitlog/reader.go"
	indexGo     = "server/commitlog/index.go"
	compactGo   = "server/commitlog/compact_cleaner.go"
	deleteGo    = "server/commitlog/delete_cleaner.go"
)

func genLog() *leanFile {
	l := newLean("Log", "/repo/server/commitlog/*.go")
	l.nat("msgSetHeaderLen", msgsetGo, "msgSetHeaderLen", 28)
	l.nat("entryWidth", indexGo, "entryWidth", 20)
	l.cmp("findEntryCmp", segmentGo, "segment.findEntry", "entry.Offset ? offset", 0, "ge")
	l.cmp("findEntryTsCmp", segmentGo, "segment.findEntryByTimestamp", "entry.Timestamp ? timestamp", 0, "ge")
	l.cmp("findSegmentCmp", utilGo, "findSegment", "segments[i].NextOffset() ? offset", 0, "gt")
	l.cmp("findSegmentByBaseCmp", utilGo, "findSegmentByBaseOffset", "segments[i].BaseOffset ? offset", 0, "ge")
	if anyHas(condTexts(utilGo, "findSegmentIndexByTimestamp"), "inclusive && entry.Timestamp == timestamp") {
		l.cmp("findSegmentTsCmp", utilGo, "findSegmentIndexByTimestamp", "entry.Timestamp ? timestamp", 2, "gt")
	} else {
		l.cmp("findSegmentTsCmp", utilGo, "findSegmentIndexByTimestamp", "entry.Timestamp ? timestamp", 0, "gt")
	}
	l.cmp("containsCmp", utilGo, "findSegmentContains", "seg.BaseOffset ? offset", 0, "le")
	l.cmp("assignEpochCmp", epochGo, "leaderEpochCache.assign", "epoch ? latestEpoch", 0, "gt")
	l.cmp("assignOffsetCmp", epochGo, "leaderEpochCache.assign", "offset ? latestOffset", 0, "ge")
	l.cmp("clearLatestSkipCmp", epochGo, "leaderEpochCache.ClearLatest", "offset ? l.latestOffset()", 0, "gt")
	l.cmp("clearLatestKeepCmp", epochGo, "leaderEpochCache.ClearLatest", "epoch.startOffset ? offset", 0, "lt")
	l.cmp("clearEarliestSkipCmp", epochGo, "leaderEpochCache.ClearEarliest", "l.earliestOffset() ? offset", 0, "ge")
	l.cmp("findEpochCmp", epochGo, "leaderEpochCache.findEpoch", "l.epochOffsets[i].leaderEpoch ? epoch", 0, "ge")
	l.cmp("appendEpochCmp", commitlogGo, "commitLog.append", "entry.LeaderEpoch ? lastLeaderEpoch", 0, "gt")
	l.cmp("splitCmp", segmentGo, "segment.CheckSplit", "s.position ? s.maxBytes", 0, "ge")
	l.cmp("truncateKeepCmp", commitlogGo, "commitLog.Truncate", "ms.Offset() ? offset", 0, "lt")
	l.cmp("truncateBaseCmp", commitlogGo, "commitLog.Truncate", "seg.BaseOffset ? offset", 0, "eq")
	l.cmp("setHWCmp", commitlogGo, "commitLog.SetHighWatermark", "hw ? l.hw", 0, "gt")
	l.cmp("occExpectedCmp", msgsetGo, "newMessageSetFromProto", "offset ? m.Offset", 0, "ne")
	l.cmp("occWaiveCmp", msgsetGo, "newMessageSetFromProto", "m.Offset ? -1", 0, "ne")
	l.cmp("occBatchCmp", msgsetGo, "newMessageSetFromProto", "len(msgs) ? 1", 0, "gt")
	l.cmp("entriesMinCmp", msgsetGo, "entriesForMessageSet", "len(ms) ? msgSetHeaderLen", 0, "le")
	l.cmp("readerBeyondHWCmp", readerGo, "commitLog.newReaderCommitted", "offset ? hw", 0, "gt")
	// newMessageSetFromProto: an encode error (header key longer than 32767 bytes) panics or is returned
	encPanics := false
	{
		f := load(msgsetGo)
		if fd := f.fn("newMessageSetFromProto"); fd != nil {
			ast.Inspect(fd.Body, func(n ast.Node) bool {
				if is, ok := n.(*ast.IfStmt); ok && is.Init == nil && nows(f.src(is.Cond)) == "err!=nil" && len(is.Body.List) > 0 &&
					strings.HasPrefix(nows(f.src(is.Body.List[0])), "panic(") {
					encPanics = true
				}
				return true
			})
		} else {
			lost = append(lost, msgsetGo+":newMessageSetFromProto (function not found)")
		}
	}
	l.def("encodeErrPanics", "Bool", fmt.Sprint(encPanics), "data, err := encode(m); if err != nil { panic(err) }")
	l.cmp("putStringLenCmp", "server/commitlog/encoder.go", "lenEncoder.PutString", "len(in) ? math.MaxInt16", 0, "gt")
	// the header count is stored in 16 bits: Encode refuses a message with more headers
	l.cmp("headerCountCmp", "server/commitlog/message.go", "Message.Encode", "len(m.Headers) ? math.MaxUint16", 0, "gt")
	// getHWPos: when the message at the HW is no longer retained, the first entry after it is not committed
	gone := anyHas(condTexts(readerGo, "getHWPos"), "hwEntry.Offset > hw")
	l.def("hwGoneCheck", "Bool", fmt.Sprint(gone), "if hwEntry.Offset > hw { return hwIdx, hwEntry.Position, nil }")
	return l
}
