package main

import (
	"fmt"
	"go/ast"
	"go/token"
	"os"
	"path/filepath"
	"sort"
	"strings"
)

// hwStmtTexts returns the whitespace-free texts of all statements in the block.
func hwStmtTexts(f *file, b *ast.BlockStmt) []string {
	var out []string
	if b == nil {
		return out
	}
	for _, st := range b.List {
		out = append(out, nows(f.src(st)))
	}
	return out
}

func has(ss []string, s string) bool {
	for _, x := range ss {
		if x == nows(s) {
			return true
		}
	}
	return false
}

// hasStmtAnywhere reports whether fnName contains a statement with exactly this text.
func hasStmtAnywhere(rel, fnName, text string) bool {
	f := load(rel)
	fd := f.fn(fnName)
	if fd == nil || fd.Body == nil {
		lost = append(lost, rel+":"+fnName+" (function not found)")
		return false
	}
	found := false
	ast.Inspect(fd.Body, func(n ast.Node) bool {
		if st, ok := n.(ast.Stmt); ok {
			if _, isBlock := st.(*ast.BlockStmt); !isBlock && nows(f.src(st)) == nows(text) {
				found = true
			}
		}
		return true
	})
	return found
}

// hwWriterCalls lists every call of SetHighWatermark / OverrideHighWatermark in the non-test Go
// files of server/ (not its sub-packages: the commit log itself only defines them) as
// "func: callee(arg)".
func hwWriterCalls() []string {
	var out []string
	ents, err := os.ReadDir(filepath.Join(repo, "server"))
	if err != nil {
		lost = append(lost, "server/ (cannot list)")
		return nil
	}
	for _, e := range ents {
		n := e.Name()
		if e.IsDir() || !strings.HasSuffix(n, ".go") || strings.HasSuffix(n, "_test.go") {
			continue
		}
		f := load("server/" + n)
		for _, d := range f.f.Decls {
			fd, ok := d.(*ast.FuncDecl)
			if !ok || fd.Body == nil {
				continue
			}
			ast.Inspect(fd.Body, func(nd ast.Node) bool {
				ce, ok := nd.(*ast.CallExpr)
				if !ok {
					return true
				}
				se, ok := ce.Fun.(*ast.SelectorExpr)
				if !ok || (se.Sel.Name != "SetHighWatermark" && se.Sel.Name != "OverrideHighWatermark") {
					return true
				}
				args := make([]string, len(ce.Args))
				for i, a := range ce.Args {
					args[i] = nows(f.src(a))
				}
				out = append(out, fmt.Sprintf("%s: %s(%s)", fd.Name.Name, nows(f.src(ce.Fun)), strings.Join(args, ",")))
				return true
			})
		}
	}
	sort.Strings(out)
	return out
}

// waitForHWRechecks reports whether commitLog.waitForHW, AFTER taking the log lock, compares the
// reader's HW sample with l.hw in an if statement whose body answers on the channel at once
// (`wait <- false`) and whose else chain is the only place where the reader is registered
// (`l.hwWaiters[r] = wait`). A waitForHW without that shape parks a reader on a stale sample: the
// model is then generated WITHOUT the re-check (Gen.HWReader.waitRechecks = false: the proofs of
// no_lost_wakeup no longer check and the driver predicts the lost wake-up), and the shape is
// reported as a lost decision point as well.
func waitForHWRechecks() bool {
	f := load(commitlogGo)
	fd := f.fn("commitLog.waitForHW")
	if fd == nil || fd.Body == nil {
		lost = append(lost, commitlogGo+":commitLog.waitForHW (function not found)")
		return false
	}
	const reg = "l.hwWaiters[r]=wait"
	contains := func(n ast.Node, text string) int {
		c := 0
		if n == nil {
			return 0
		}
		ast.Inspect(n, func(x ast.Node) bool {
			if st, ok := x.(ast.Stmt); ok {
				if _, isBlock := st.(*ast.BlockStmt); !isBlock && nows(f.src(st)) == text {
					c++
				}
			}
			return true
		})
		return c
	}
	locked, ok := false, false
	for _, st := range fd.Body.List {
		txt := nows(f.src(st))
		if txt == "l.mu.Lock()" {
			locked = true
			continue
		}
		if txt == "l.mu.Unlock()" {
			locked = false
			continue
		}
		is, isIf := st.(*ast.IfStmt)
		if !isIf || !locked {
			continue
		}
		be, isCmp := is.Cond.(*ast.BinaryExpr)
		if !isCmp {
			continue
		}
		if _, isRel := cmpName[be.Op]; !isRel || nows(f.src(be.X)) != "l.hw" || nows(f.src(be.Y)) != "hw" {
			continue
		}
		// the branch taken when the sample is stale answers at once and does not register;
		// the registration is in the else chain and nowhere else in the function
		if contains(is.Body, "wait<-false") == 1 && contains(is.Body, reg) == 0 &&
			is.Else != nil && contains(is.Else, reg) == 1 && contains(fd.Body, reg) == 1 {
			ok = true
		}
	}
	if !ok {
		lost = append(lost, commitlogGo+":commitLog.waitForHW: if l.hw ? hw { wait <- false } else ... { l.hwWaiters[r] = wait } under l.mu (re-check before parking)")
	}
	return ok
}

func genHWReader() *leanFile {
	l := newLean("HWReader", "/repo/server/commitlog/{commitlog,reader}.go, /repo/server/partition.go")
	l.cmp("waitRecheckCmp", commitlogGo, "commitLog.waitForHW", "l.hw ? hw", 0, "ne")
	l.def("waitRechecks", "Bool", fmt.Sprint(waitForHWRechecks()), "l.mu.Lock(); if l.hw ? hw { wait <- false } else ... { l.hwWaiters[r] = wait }  (commitLog.waitForHW re-checks the HW under the log lock before it parks the reader)")
	l.cmp("waitReadonlyCmp", commitlogGo, "commitLog.waitForHW", "l.hw ? l.NewestOffset()", 0, "eq")
	l.cmp("notifyReadonlyCmp", commitlogGo, "commitLog.notifyReadonly", "l.hw ? l.NewestOffset()", 0, "lt")
	l.cmp("readerHWSameCmp", readerGo, "committedReader.readLoop", "hw ? r.hw", 0, "eq")
	// the parking branch of Read must use the same test
	if op, ok := guard(readerGo, "committedReader.Read", "hw ? r.hw", 0); ok {
		if op2, ok2 := guard(readerGo, "committedReader.readLoop", "hw ? r.hw", 0); ok2 && op != op2 {
			lost = append(lost, readerGo+":committedReader.Read: hw ? r.hw differs from readLoop")
		}
	}
	// waitForHW: the read-only verdict needs the flag
	wc := condTexts(commitlogGo, "commitLog.waitForHW")
	if !anyHas(wc, "&& l.IsReadonly()") {
		lost = append(lost, commitlogGo+":commitLog.waitForHW: ... && l.IsReadonly()")
	}
	if !hasStmtAnywhere(commitlogGo, "commitLog.waitForHW", "l.hwWaiters[r] = wait") {
		lost = append(lost, commitlogGo+":commitLog.waitForHW: l.hwWaiters[r] = wait")
	}
	// readLoop: on the HW segment the read is limited to the HW position
	lim := ifAssign(readerGo, "committedReader.readLoop", "r.seg == r.hwSeg", "lim = min(lim, r.hwPos-r.pos)")
	l.def("hwSegLimit", "Bool", fmt.Sprint(lim), "if r.seg == r.hwSeg { lim = min(lim, r.hwPos-r.pos) }")
	// Read: a reader that parked at creation resumes at r.hw + 1
	if !hasStmtAnywhere(readerGo, "committedReader.Read", "offset := r.hw + 1") {
		lost = append(lost, readerGo+":committedReader.Read: offset := r.hw + 1")
	}
	// SetHighWatermark: the branch that stores the new HW also notifies
	notifies := false
	{
		f := load(commitlogGo)
		fd := f.fn("commitLog.SetHighWatermark")
		if fd == nil || fd.Body == nil {
			lost = append(lost, commitlogGo+":commitLog.SetHighWatermark (function not found)")
		} else {
			stores := false
			ast.Inspect(fd.Body, func(n ast.Node) bool {
				if is, ok := n.(*ast.IfStmt); ok {
					st := hwStmtTexts(f, is.Body)
					if has(st, "l.hw = hw") {
						stores = true
						notifies = has(st, "l.notifyHWChange()")
					}
				}
				return true
			})
			if !stores {
				lost = append(lost, commitlogGo+":commitLog.SetHighWatermark: if ... { l.hw = hw }")
			}
		}
	}
	l.def("setHWNotifies", "Bool", fmt.Sprint(notifies), "if hw ? l.hw { l.hw = hw; l.notifyHWChange() }")
	clears := hasStmtAnywhere(commitlogGo, "commitLog.notifyHWChange", "delete(l.hwWaiters, r)") &&
		hasStmtAnywhere(commitlogGo, "commitLog.notifyHWChange", "ch <- false") &&
		hasStmtAnywhere(commitlogGo, "commitLog.notifyReadonly", "delete(l.hwWaiters, r)") &&
		hasStmtAnywhere(commitlogGo, "commitLog.notifyReadonly", "ch <- true")
	l.def("notifyClearsWaiters", "Bool", fmt.Sprint(clears), "for r, ch := range l.hwWaiters { ch <- ...; delete(l.hwWaiters, r) }")

	// readLoop: is an error of getHWPos returned to the caller, or swallowed by a shadowed `err`?
	propagates := false
	{
		f := load(readerGo)
		fd := f.fn("committedReader.readLoop")
		if fd == nil || fd.Body == nil {
			lost = append(lost, readerGo+":committedReader.readLoop (function not found)")
		} else {
			found := false
			ast.Inspect(fd.Body, func(n ast.Node) bool {
				as, ok := n.(*ast.AssignStmt)
				if !ok || len(as.Rhs) != 1 || len(as.Lhs) != 3 {
					return true
				}
				ce, ok := as.Rhs[0].(*ast.CallExpr)
				if !ok || nows(f.src(ce.Fun)) != "getHWPos" {
					return true
				}
				found = true
				e := nows(f.src(as.Lhs[2]))
				switch {
				case as.Tok == token.ASSIGN && e == "err":
					propagates = true
				case as.Tok == token.DEFINE && e == "err":
					propagates = false // a new `err` local to the loop body: `break` then returns the outer nil
				default:
					propagates = hasStmtAnywhere(readerGo, "committedReader.readLoop", "err = "+e)
				}
				return true
			})
			if !found {
				lost = append(lost, readerGo+":committedReader.readLoop: ... := getHWPos(segments, r.hw)")
			}
		}
	}
	l.def("resyncErrPropagates", "Bool", fmt.Sprint(propagates), "readLoop returns the error of getHWPos (not shadowed by a loop-local err)")

	// the writers of the HW outside the commit log
	writers := hwWriterCalls()
	q := make([]string, len(writers))
	for i, w := range writers {
		q[i] = fmt.Sprintf("%q", w)
	}
	l.def("hwWriters", "List String", "["+strings.Join(q, ", ")+"]", "every SetHighWatermark/OverrideHighWatermark call in server/*.go (non-test)")
	// the functions that write the HW (deduplicated), and whether anybody outside tests overrides it
	seen := map[string]bool{}
	var funcs []string
	overrides := 0
	for _, w := range writers {
		fn := w[:strings.Index(w, ":")]
		if strings.Contains(w, "OverrideHighWatermark(") {
			overrides++
		}
		if !seen[fn] {
			seen[fn] = true
			funcs = append(funcs, fmt.Sprintf("%q", fn))
		}
	}
	l.def("hwWriterFuncs", "List String", "["+strings.Join(funcs, ", ")+"]", "functions of package server that call SetHighWatermark / OverrideHighWatermark")
	l.def("hwOverrideCalls", "Nat", fmt.Sprint(overrides), "calls of OverrideHighWatermark (may lower the HW) outside tests")
	// follower adoption: is the leader's HW capped at the follower's own log end?
	capped, nFollower := true, 0
	for _, w := range writers {
		if strings.HasPrefix(w, "handleReplicationResponse: ") {
			nFollower++
			arg := w[strings.Index(w, "(")+1 : len(w)-1]
			if !(strings.Contains(arg, "p.log.NewestOffset()") && strings.Contains(arg, "hw") && arg != "hw") {
				capped = false
			}
		}
	}
	if nFollower == 0 {
		lost = append(lost, partitionGo+":partition.handleReplicationResponse: p.log.SetHighWatermark(...)")
		capped = false
	}
	l.def("followerHWCapped", "Bool", fmt.Sprint(capped), "handleReplicationResponse never passes a HW beyond p.log.NewestOffset() to SetHighWatermark")
	facts["HWReader.hwWriters"] = writers
	return l
}
