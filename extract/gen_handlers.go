package main

// C15: regenerates Gen/Handlers.lean — one authorisation skeleton (`Authz.Stmt`) per RPC
// method of the client API, from the syntax tree of server/api.go (go/ast only).
//
// Method set: the methods of `type APIServer interface` in the liftbridge-api module the
// repository builds against (go.mod version, module cache / vendor), so an RPC that is
// added to the service cannot be forgotten; each must be a method of *apiServer in
// api.go (else it falls through to UnimplementedAPIServer and is listed as such), plus
// publishAsyncSession.publishLoop.
//
// Classification of calls is purely syntactic (callee text) against the hand-written
// sink table below; every call classified as an effect / report / handshake and every
// function literal that was not descended into is listed in the generated file so that
// a reader can audit it. Control flow this translator does not understand (break, goto,
// labels, fallthrough) is reported as a lost decision point, never guessed.

import (
	"fmt"
	"go/ast"
	"go/parser"
	"go/token"
	"os"
	"path/filepath"
	"regexp"
	"sort"
	"strings"
)


// ---- hand-written tables ----

// primitive effect sinks: callee text (whitespace removed) -> effect kind
var c15Sinks = []struct {
	re   *regexp.Regexp
	kind string
}{
	{regexp.MustCompile(`^\w+\.metadata\.CreateStream$`), "createStream"},
	{regexp.MustCompile(`^\w+\.metadata\.DeleteStream$`), "deleteStream"},
	{regexp.MustCompile(`^\w+\.metadata\.PauseStream$`), "pauseStream"},
	{regexp.MustCompile(`^\w+\.metadata\.ResumeStream$`), "resumeStream"},
	{regexp.MustCompile(`^\w+\.metadata\.SetStreamReadonly$`), "setReadonly"},
	{regexp.MustCompile(`^\w+\.metadata\.JoinConsumerGroup$`), "joinGroup"},
	{regexp.MustCompile(`^\w+\.metadata\.LeaveConsumerGroup$`), "leaveGroup"},
	{regexp.MustCompile(`^\w+\.metadata\.ReportGroupCoordinator$`), "reportCoordinator"},
	{regexp.MustCompile(`^\w+\.metadata\.GetConsumerGroupAssignments$`), "groupHeartbeat"},
	{regexp.MustCompile(`^\w+\.metadata\.(Add|Remove|Close|Reset)\w*$`), "metadataMutation"},
	{regexp.MustCompile(`^(\w+\.)+nc\w*\.(Publish\w*|Request\w*)$`), "natsPublish"},
	{regexp.MustCompile(`^\w+\.Subscribe$`), "subscribe"}, // partition.Subscribe (one-level receiver; nats conns are two-level)
	{regexp.MustCompile(`^\w+\.cursors\.SetCursor$`), "setCursor"},
	{regexp.MustCompile(`^\w+\.cursors\.GetCursor$`), "getCursor"},
	{regexp.MustCompile(`^(\w+\.)+Send$`), "send"},
	{regexp.MustCompile(`^\w+\.Close$`), "closeSub"},
	{regexp.MustCompile(`^\w+\.getRaft\(\)\.Apply$|\.applyOperation$`), "raftApply"},
}

const c15CheckFn = "ensureAuthorizationPermission"

// refusal reports on a response stream (must build a response with AsyncError set)
var c15ReportFns = map[string]bool{"sendPublishAsyncError": true}

// variables that hold an apiServer / publishAsyncSession besides the receiver names
var c15ReceiverAliases = map[string]bool{"session": true}

// calls that are never interesting for the audit list of unclassified calls
var c15Boring = regexp.MustCompile(`^(len|make|append|new|int32|int64|string|status\.\w+|errors\.\w+|fmt\.\w+|\w+\.logger\.\w+|\w+\.mu\.\w+|\w+\.(Err|Error|Code))$`)

// callee skeletons that are inlined as `call`
var c15InlineFns = map[string]string{"publishLoop": "publishAsyncSession.publishLoop"}

// action the documentation names for a method (default: the method name)
var c15ExpectedAct = map[string]string{"PublishAsync": "Publish", "publishLoop": "Publish"}

var c15ErrCtors = map[string]bool{"status.Error": true, "status.Errorf": true, "errors.New": true,
	"errors.Errorf": true, "errors.Wrap": true, "errors.Wrapf": true, "fmt.Errorf": true}

// ---- skeleton ----

type hs struct {
	k        string // skip check effect report ret cont seq ite loop call
	a, b     *hs
	res, act string
	kind     string
	forever  bool
}

var hSkip = &hs{k: "skip"}

func hSeq(a, b *hs) *hs {
	if a.k == "skip" {
		return b
	}
	if b.k == "skip" {
		return a
	}
	// right-nest
	if a.k == "seq" {
		return hSeq(a.a, hSeq(a.b, b))
	}
	return &hs{k: "seq", a: a, b: b}
}

func hIte(t, e *hs) *hs {
	if t.k == "skip" && e.k == "skip" {
		return hSkip
	}
	return &hs{k: "ite", a: t, b: e}
}

func (s *hs) lean(ind string) string {
	q := func(x string) string { return fmt.Sprintf("%q", x) }
	switch s.k {
	case "skip":
		return ".skip"
	case "check":
		if s.a.k == "skip" {
			return fmt.Sprintf(".check %s %s .skip", q(s.res), q(s.act))
		}
		return fmt.Sprintf(".check %s %s\n%s  (%s)", q(s.res), q(s.act), ind, s.a.lean(ind+"  "))
	case "effect":
		return ".effect " + q(s.kind)
	case "report":
		return ".report"
	case "ret":
		return ".ret ." + s.kind
	case "cont":
		return ".cont"
	case "seq":
		return fmt.Sprintf(".seq (%s)\n%s(%s)", s.a.lean(ind+"  "), ind, s.b.lean(ind))
	case "ite":
		return fmt.Sprintf(".ite\n%s  (%s)\n%s  (%s)", ind, s.a.lean(ind+"  "), ind, s.b.lean(ind+"  "))
	case "loop":
		return fmt.Sprintf(".loop %v\n%s  (%s)", s.forever, ind, s.a.lean(ind+"  "))
	case "call":
		return fmt.Sprintf(".call\n%s  (%s)", ind, s.a.lean(ind+"  "))
	}
	panic("hs.lean " + s.k)
}

func (s *hs) firstCheck(act string) string {
	if s == nil {
		return ""
	}
	if s.k == "check" && s.act == act {
		return s.res
	}
	if r := s.a.firstCheck(act); r != "" {
		return r
	}
	return s.b.firstCheck(act)
}

// ---- translator ----

type c15tr struct {
	f         *file
	fn        string                   // handler being translated (for audit lines / lost)
	local     map[string]*ast.FuncDecl // methods of apiServer / publishAsyncSession in api.go
	recvNames map[string]bool
	reach     map[string][]string // local method -> effect kinds it may reach
	nonNil    map[string]bool
	authVar   string
	inRecv    bool
	effCalls  *[][3]string
	reports   *[][2]string
	shakes    *[][2]string
	funcLits  *[][2]string
	others    *[][2]string
	depth     int
	recvOK    map[*ast.CallExpr]bool // Recv calls that are a top-level statement of a for body
	sessLoops *[]c15SessLoop         // per-message loops found (handler being translated, body)
}

// c15SessLoop: a `for` whose body receives one request per iteration.
type c15SessLoop struct {
	fn   string
	body *hs
	line int
}

func (t *c15tr) lose(what string) {
	lost = append(lost, apiGo+":"+t.fn+" ("+what+")")
}

func calleeText(f *file, ce *ast.CallExpr) string { return nows(f.src(ce.Fun)) }

func lastSel(s string) string {
	if i := strings.LastIndex(s, "."); i >= 0 {
		return s[i+1:]
	}
	return s
}

// primitive kind of a call, "" if none; handshake = Send(&client.Message{})
func (t *c15tr) primitive(ce *ast.CallExpr) (kind string, handshake bool) {
	txt := calleeText(t.f, ce)
	for _, s := range c15Sinks {
		if s.re.MatchString(txt) {
			if s.kind == "send" && len(ce.Args) == 1 {
				if u, ok := ce.Args[0].(*ast.UnaryExpr); ok && u.Op == token.AND {
					if cl, ok := u.X.(*ast.CompositeLit); ok && len(cl.Elts) == 0 {
						return "", true
					}
				}
			}
			return s.kind, false
		}
	}
	return "", false
}

// localName returns the api.go method a call refers to syntactically (x.name(...)).
func (t *c15tr) localName(ce *ast.CallExpr) string {
	se, ok := ce.Fun.(*ast.SelectorExpr)
	if !ok {
		return ""
	}
	if _, ok := t.local[se.Sel.Name]; ok {
		// receiver must be a receiver name used in api.go (a, p), a listed alias, or an
		// `x.api` selector (the embedded server); `partition.Subscribe` is NOT apiServer.Subscribe
		switch x := se.X.(type) {
		case *ast.Ident:
			if t.recvNames[x.Name] || c15ReceiverAliases[x.Name] {
				return se.Sel.Name
			}
		case *ast.SelectorExpr:
			if x.Sel.Name == "api" || x.Sel.Name == "apiServer" {
				return se.Sel.Name
			}
		}
	}
	return ""
}

// calls returns the calls of an expression/statement in evaluation order (arguments
// before the call), without descending into function literals.
func (t *c15tr) calls(n ast.Node) []*ast.CallExpr {
	var out []*ast.CallExpr
	var visit func(n ast.Node)
	visit = func(n ast.Node) {
		if n == nil {
			return
		}
		switch x := n.(type) {
		case *ast.FuncLit:
			*t.funcLits = append(*t.funcLits, [2]string{t.fn, fmt.Sprintf("api.go:%d", t.f.fset.Position(x.Pos()).Line)})
			return
		case *ast.CallExpr:
			visit(x.Fun)
			for _, a := range x.Args {
				visit(a)
			}
			out = append(out, x)
			return
		}
		ast.Inspect(n, func(m ast.Node) bool {
			if m == n {
				return true
			}
			if m != nil {
				visit(m)
			}
			return false
		})
	}
	visit(n)
	return out
}

// computeReach: which primitive effect kinds each local method may reach (fixpoint).
func (t *c15tr) computeReach() {
	direct := map[string]map[string]bool{}
	callees := map[string]map[string]bool{}
	for name, fd := range t.local {
		direct[name] = map[string]bool{}
		callees[name] = map[string]bool{}
		if fd.Body == nil {
			continue
		}
		save := t.fn
		t.fn = name
		for _, ce := range t.calls(fd.Body) {
			if k, _ := t.primitive(ce); k != "" {
				direct[name][k] = true
			}
			if ln := t.localName(ce); ln != "" {
				callees[name][ln] = true
			}
		}
		t.fn = save
	}
	for changed := true; changed; {
		changed = false
		for n := range direct {
			for c := range callees[n] {
				for k := range direct[c] {
					if !direct[n][k] {
						direct[n][k] = true
						changed = true
					}
				}
			}
		}
	}
	t.reach = map[string][]string{}
	for n, ks := range direct {
		var l []string
		for k := range ks {
			l = append(l, k)
		}
		sort.Strings(l)
		t.reach[n] = l
	}
}

// callStmt translates one call.
func (t *c15tr) callStmt(ce *ast.CallExpr) *hs {
	txt := calleeText(t.f, ce)
	name := lastSel(txt)
	if name == c15CheckFn {
		// a check whose result is not bound-and-tested: the denial has no consequence
		return t.check(ce, hSkip)
	}
	if name == "Recv" && len(ce.Args) == 0 {
		// the only shape understood: `req, err := <stream>.Recv(); if err != nil {…}` as
		// top-level statements of a for body (handled in block)
		t.lose(fmt.Sprintf("Recv at api.go:%d is not `x, err := s.Recv(); if err != nil {…}` at the top level of a for body: per-message shape not understood", t.f.fset.Position(ce.Pos()).Line))
		return hSkip
	}
	if ln := t.localName(ce); ln != "" {
		if c15ReportFns[ln] {
			*t.reports = append(*t.reports, [2]string{t.fn, t.f.src(ce)})
			return &hs{k: "report"}
		}
		if full, ok := c15InlineFns[ln]; ok {
			fd := t.f.fn(full)
			if fd == nil || fd.Body == nil {
				t.lose("inlined callee " + full + " not found")
				return hSkip
			}
			if t.depth > 3 {
				t.lose("inlining too deep")
				return hSkip
			}
			sub := *t
			sub.nonNil, sub.authVar, sub.inRecv, sub.depth = map[string]bool{}, "", false, t.depth+1
			return &hs{k: "call", a: sub.block(fd.Body.List)}
		}
		out := hSkip
		for _, k := range t.reach[ln] {
			*t.effCalls = append(*t.effCalls, [3]string{t.fn, txt + " (reaches)", k})
			out = hSeq(out, &hs{k: "effect", kind: k})
		}
		if len(t.reach[ln]) == 0 {
			*t.others = append(*t.others, [2]string{t.fn, txt})
		}
		return out
	}
	k, shake := t.primitive(ce)
	if shake {
		*t.shakes = append(*t.shakes, [2]string{t.fn, t.f.src(ce)})
		return hSkip
	}
	if k != "" {
		*t.effCalls = append(*t.effCalls, [3]string{t.fn, txt, k})
		return &hs{k: "effect", kind: k}
	}
	if !c15Boring.MatchString(txt) {
		*t.others = append(*t.others, [2]string{t.fn, txt})
	}
	return hSkip
}

func (t *c15tr) check(ce *ast.CallExpr, onDeny *hs) *hs {
	if len(ce.Args) != 3 {
		t.lose("ensureAuthorizationPermission: expected 3 arguments")
		return hSkip
	}
	act := ""
	if bl, ok := ce.Args[2].(*ast.BasicLit); ok && bl.Kind == token.STRING {
		act = strings.Trim(bl.Value, "\"`")
	} else {
		t.lose("ensureAuthorizationPermission: action is not a string literal: " + t.f.src(ce.Args[2]))
		act = "?" + t.f.src(ce.Args[2])
	}
	res := t.f.src(ce.Args[1])
	if bl, ok := ce.Args[1].(*ast.BasicLit); ok && bl.Kind == token.STRING {
		res = "lit:" + strings.Trim(bl.Value, "\"`")
	}
	return &hs{k: "check", res: res, act: act, a: onDeny}
}

func (t *c15tr) exprCalls(n ast.Node) *hs {
	out := hSkip
	if n == nil {
		return out
	}
	for _, ce := range t.calls(n) {
		out = hSeq(out, t.callStmt(ce))
	}
	return out
}

// isCheckAssign: `x := recv.ensureAuthorizationPermission(...)` / `x = ...`
func (t *c15tr) isCheckAssign(s ast.Stmt) (string, *ast.CallExpr) {
	as, ok := s.(*ast.AssignStmt)
	if !ok || len(as.Lhs) != 1 || len(as.Rhs) != 1 {
		return "", nil
	}
	id, ok := as.Lhs[0].(*ast.Ident)
	if !ok {
		return "", nil
	}
	ce, ok := as.Rhs[0].(*ast.CallExpr)
	if !ok || lastSel(calleeText(t.f, ce)) != c15CheckFn {
		return "", nil
	}
	return id.Name, ce
}

// isRecvAssign: `req, err := <stream>.Recv()` returns the error variable.
func (t *c15tr) isRecvAssign(s ast.Stmt) string {
	as, ok := s.(*ast.AssignStmt)
	if !ok || len(as.Lhs) != 2 || len(as.Rhs) != 1 {
		return ""
	}
	ce, ok := as.Rhs[0].(*ast.CallExpr)
	if !ok || lastSel(calleeText(t.f, ce)) != "Recv" {
		return ""
	}
	if id, ok := as.Lhs[1].(*ast.Ident); ok {
		return id.Name
	}
	return ""
}

// neqNil: cond is `x != nil`
func neqNil(e ast.Expr) string {
	be, ok := e.(*ast.BinaryExpr)
	if !ok || be.Op != token.NEQ {
		return ""
	}
	x, ok1 := be.X.(*ast.Ident)
	y, ok2 := be.Y.(*ast.Ident)
	if ok1 && ok2 && y.Name == "nil" {
		return x.Name
	}
	return ""
}

func (t *c15tr) with(v string, auth, recv bool, f func() *hs) *hs {
	oldNN, oldAuth, oldRecv := t.nonNil[v], t.authVar, t.inRecv
	t.nonNil[v] = true
	if auth {
		t.authVar = v
	}
	if recv {
		t.inRecv = true
	}
	r := f()
	t.nonNil[v], t.authVar, t.inRecv = oldNN, oldAuth, oldRecv
	return r
}

func (t *c15tr) block(list []ast.Stmt) *hs {
	out := hSkip
	for i := 0; i < len(list); i++ {
		s := list[i]
		// x := check(...) ; if x != nil { onDeny }
		if v, ce := t.isCheckAssign(s); ce != nil {
			pre := hSkip
			for _, a := range ce.Args {
				pre = hSeq(pre, t.exprCalls(a))
			}
			onDeny := hSkip
			if i+1 < len(list) {
				if is, ok := list[i+1].(*ast.IfStmt); ok && is.Init == nil && neqNil(is.Cond) == v {
					if is.Else != nil {
						t.lose("authorisation test with an else branch")
					}
					onDeny = t.with(v, true, false, func() *hs { return t.block(is.Body.List) })
					i++
				}
			}
			out = hSeq(out, hSeq(pre, t.check(ce, onDeny)))
			continue
		}
		// req, err := stream.Recv() ; if err != nil { no request }
		if v := t.isRecvAssign(s); v != "" && i+1 < len(list) && t.recvOK[s.(*ast.AssignStmt).Rhs[0].(*ast.CallExpr)] {
			if is, ok := list[i+1].(*ast.IfStmt); ok && is.Init == nil && neqNil(is.Cond) == v && is.Else == nil {
				body := t.with(v, false, true, func() *hs { return t.block(is.Body.List) })
				out = hSeq(out, hIte(body, hSkip))
				i++
				continue
			}
		}
		out = hSeq(out, t.stmt(s))
	}
	return out
}

func (t *c15tr) retKind(rs *ast.ReturnStmt) *hs {
	pre := hSkip
	for _, r := range rs.Results {
		pre = hSeq(pre, t.exprCalls(r))
	}
	mk := func(k string) *hs {
		if t.inRecv && (k == "ok" || k == "err") {
			k = "noreq"
		}
		return &hs{k: "ret", kind: k}
	}
	if len(rs.Results) == 0 {
		return hSeq(pre, hIte(mk("err"), mk("ok"))) // named results: unknown
	}
	last := rs.Results[len(rs.Results)-1]
	switch x := last.(type) {
	case *ast.Ident:
		if x.Name == "nil" {
			return hSeq(pre, mk("ok"))
		}
		if x.Name == t.authVar && t.authVar != "" {
			return hSeq(pre, mk("auth"))
		}
		if t.nonNil[x.Name] {
			return hSeq(pre, mk("err"))
		}
	case *ast.CallExpr:
		txt := calleeText(t.f, x)
		if c15ErrCtors[txt] {
			return hSeq(pre, mk("err"))
		}
		// v.Err() / convertPublishAsyncError(v) with v known non-nil
		if se, ok := x.Fun.(*ast.SelectorExpr); ok && se.Sel.Name == "Err" {
			if id, ok := se.X.(*ast.Ident); ok && t.nonNil[id.Name] {
				return hSeq(pre, mk("err"))
			}
		}
		if txt == "convertPublishAsyncError" && len(x.Args) == 1 {
			if id, ok := x.Args[0].(*ast.Ident); ok && t.nonNil[id.Name] {
				return hSeq(pre, mk("err"))
			}
		}
	}
	// may be nil: either
	return hSeq(pre, hIte(mk("err"), mk("ok")))
}

func (t *c15tr) stmt(s ast.Stmt) *hs {
	switch x := s.(type) {
	case nil:
		return hSkip
	case *ast.EmptyStmt:
		return hSkip
	case *ast.BlockStmt:
		return t.block(x.List)
	case *ast.ExprStmt, *ast.AssignStmt, *ast.DeclStmt, *ast.IncDecStmt, *ast.SendStmt:
		return t.exprCalls(x)
	case *ast.GoStmt:
		return t.exprCalls(x.Call)
	case *ast.DeferStmt:
		// an effect of a deferred call happens iff the defer statement is reached
		return t.exprCalls(x.Call)
	case *ast.ReturnStmt:
		return t.retKind(x)
	case *ast.BranchStmt:
		if x.Tok == token.CONTINUE && x.Label == nil {
			return &hs{k: "cont"}
		}
		t.lose("unsupported control flow: " + x.Tok.String())
		return hSkip
	case *ast.IfStmt:
		pre := hSkip
		if x.Init != nil {
			if v, ce := t.isCheckAssign(x.Init); ce != nil && neqNil(x.Cond) == v {
				if x.Else != nil {
					t.lose("authorisation test with an else branch")
				}
				onDeny := t.with(v, true, false, func() *hs { return t.block(x.Body.List) })
				return t.check(ce, onDeny)
			}
			pre = t.stmt(x.Init)
		}
		pre = hSeq(pre, t.exprCalls(x.Cond))
		var th *hs
		if v := neqNil(x.Cond); v != "" {
			th = t.with(v, false, false, func() *hs { return t.block(x.Body.List) })
		} else {
			th = t.block(x.Body.List)
		}
		el := hSkip
		if x.Else != nil {
			el = t.stmt(x.Else)
		}
		return hSeq(pre, hIte(th, el))
	case *ast.ForStmt:
		pre := hSeq(t.stmt(x.Init), t.exprCalls(x.Cond))
		// per-message loop: a top-level statement of the body receives the next request
		nrecv := 0
		for _, bs := range x.Body.List {
			if t.isRecvAssign(bs) != "" {
				t.recvOK[bs.(*ast.AssignStmt).Rhs[0].(*ast.CallExpr)] = true
				nrecv++
			}
		}
		body := hSeq(t.block(x.Body.List), t.stmt(x.Post))
		if nrecv > 0 {
			if nrecv > 1 || x.Cond != nil || x.Init != nil || x.Post != nil {
				t.lose(fmt.Sprintf("per-message loop at api.go:%d: more than one Recv per iteration or a loop header", t.f.fset.Position(x.Pos()).Line))
			}
			*t.sessLoops = append(*t.sessLoops, c15SessLoop{t.fn, body, t.f.fset.Position(x.Pos()).Line})
		}
		if body.k == "skip" {
			return pre
		}
		return hSeq(pre, &hs{k: "loop", forever: x.Cond == nil, a: body})
	case *ast.RangeStmt:
		pre := t.exprCalls(x.X)
		body := t.block(x.Body.List)
		if body.k == "skip" {
			return pre
		}
		return hSeq(pre, &hs{k: "loop", forever: false, a: body})
	case *ast.SwitchStmt:
		pre := hSeq(t.stmt(x.Init), t.exprCalls(x.Tag))
		return hSeq(pre, t.clauses(x.Body.List, false))
	case *ast.TypeSwitchStmt:
		pre := hSeq(t.stmt(x.Init), t.stmt(x.Assign))
		return hSeq(pre, t.clauses(x.Body.List, false))
	case *ast.SelectStmt:
		return t.clauses(x.Body.List, true)
	}
	t.lose(fmt.Sprintf("unsupported statement %T", s))
	return hSkip
}

// clauses: nondeterministic choice between the clause bodies (plus "no clause" for a
// switch without default).
func (t *c15tr) clauses(list []ast.Stmt, isSelect bool) *hs {
	var alts []*hs
	hasDefault := false
	for _, c := range list {
		switch cc := c.(type) {
		case *ast.CaseClause:
			if cc.List == nil {
				hasDefault = true
			}
			pre := hSkip
			for _, e := range cc.List {
				pre = hSeq(pre, t.exprCalls(e))
			}
			alts = append(alts, hSeq(pre, t.block(cc.Body)))
		case *ast.CommClause:
			if cc.Comm == nil {
				hasDefault = true
			}
			alts = append(alts, hSeq(t.stmt(cc.Comm), t.block(cc.Body)))
		}
	}
	if !hasDefault && !isSelect {
		alts = append(alts, hSkip)
	}
	if len(alts) == 0 {
		return hSkip
	}
	out := alts[len(alts)-1]
	allSkip := out.k == "skip"
	for i := len(alts) - 2; i >= 0; i-- {
		if alts[i].k != "skip" {
			allSkip = false
		}
		out = &hs{k: "ite", a: alts[i], b: out}
	}
	if allSkip {
		return hSkip
	}
	return out
}

// ---- service method set ----

func parserParse(fset *token.FileSet, p string) (*ast.File, error) {
	return parser.ParseFile(fset, p, nil, 0)
}

// c15Streams: StreamName -> ClientStreams, from the grpc.StreamDesc literals of the service
// descriptor in api_grpc.pb.go (filled by c15ServiceMethods).
var c15Streams = map[string]bool{}

func c15ScanStreams(af *ast.File) {
	ast.Inspect(af, func(n ast.Node) bool {
		cl, ok := n.(*ast.CompositeLit)
		if !ok {
			return true
		}
		name, cs, has := "", false, false
		for _, e := range cl.Elts {
			kv, ok := e.(*ast.KeyValueExpr)
			if !ok {
				continue
			}
			k, ok := kv.Key.(*ast.Ident)
			if !ok {
				continue
			}
			switch k.Name {
			case "StreamName":
				if bl, ok := kv.Value.(*ast.BasicLit); ok {
					name, has = strings.Trim(bl.Value, "\""), true
				}
			case "ClientStreams":
				if id, ok := kv.Value.(*ast.Ident); ok && id.Name == "true" {
					cs = true
				}
			}
		}
		if has {
			c15Streams[name] = cs
		}
		return true
	})
}

func c15ServiceMethods() ([]string, string) {
	// version from go.mod
	gm, err := os.ReadFile(filepath.Join(repo, "go.mod"))
	if err != nil {
		return nil, ""
	}
	m := regexp.MustCompile(`(?m)^\s*(github\.com/liftbridge-io/liftbridge-api/v2)\s+(\S+)`).FindStringSubmatch(string(gm))
	if m == nil {
		return nil, ""
	}
	var cands []string
	cands = append(cands, filepath.Join(repo, "vendor", m[1], "go", "api_grpc.pb.go"))
	mc := os.Getenv("GOMODCACHE")
	if mc == "" {
		gp := os.Getenv("GOPATH")
		if gp == "" {
			home, _ := os.UserHomeDir()
			gp = filepath.Join(home, "go")
		}
		mc = filepath.Join(gp, "pkg", "mod")
	}
	cands = append(cands, filepath.Join(mc, m[1]+"@"+m[2], "go", "api_grpc.pb.go"))
	for _, p := range cands {
		fset := token.NewFileSet()
		af, err := parserParse(fset, p)
		if err != nil {
			continue
		}
		var names []string
		ast.Inspect(af, func(n ast.Node) bool {
			ts, ok := n.(*ast.TypeSpec)
			if !ok || ts.Name.Name != "APIServer" {
				return true
			}
			it, ok := ts.Type.(*ast.InterfaceType)
			if !ok {
				return false
			}
			for _, fl := range it.Methods.List {
				for _, id := range fl.Names {
					if ast.IsExported(id.Name) {
						names = append(names, id.Name)
					}
				}
			}
			return false
		})
		if len(names) > 0 {
			c15ScanStreams(af)
			return names, p
		}
	}
	return nil, ""
}

// ---- generator ----

func genHandlers() *leanFile {
	l := newLean("Handlers", "/repo/"+apiGo, "Liftbridge.Model.Authz")
	l.lines = append(l.lines, "open Liftbridge.Authz")
	f := load(apiGo)

	local := map[string]*ast.FuncDecl{}
	recvNames := map[string]bool{}
	for _, d := range f.f.Decls {
		fd, ok := d.(*ast.FuncDecl)
		if !ok || fd.Recv == nil || len(fd.Recv.List) == 0 {
			continue
		}
		rt := fd.Recv.List[0].Type
		if s, ok := rt.(*ast.StarExpr); ok {
			rt = s.X
		}
		if id, ok := rt.(*ast.Ident); ok && (id.Name == "apiServer" || id.Name == "publishAsyncSession") {
			local[fd.Name.Name] = fd
			for _, n := range fd.Recv.List[0].Names {
				recvNames[n.Name] = true
			}
		}
	}

	var effCalls [][3]string
	var reports, shakes, funcLits, others [][2]string
	var sessLoops []c15SessLoop
	t := &c15tr{f: f, local: local, recvNames: recvNames, nonNil: map[string]bool{}, effCalls: &effCalls, reports: &reports,
		shakes: &shakes, funcLits: &funcLits, others: &others, recvOK: map[*ast.CallExpr]bool{}, sessLoops: &sessLoops}
	t.computeReach()

	// report functions must really be refusal reports
	for name := range c15ReportFns {
		fd := local[name]
		ok := false
		if fd != nil && fd.Body != nil {
			ast.Inspect(fd.Body, func(n ast.Node) bool {
				if kv, isKV := n.(*ast.KeyValueExpr); isKV {
					if id, isID := kv.Key.(*ast.Ident); isID && id.Name == "AsyncError" {
						ok = true
					}
				}
				return true
			})
		}
		if !ok {
			lost = append(lost, apiGo+":"+name+" (no longer builds a response with AsyncError)")
		}
	}

	methods, src := c15ServiceMethods()
	if len(methods) == 0 {
		lost = append(lost, apiGo+":APIServer interface of liftbridge-api not found (module cache / vendor)")
		// fall back: exported methods of *apiServer with an RPC-shaped signature
		for name, fd := range local {
			if ast.IsExported(name) && c15RPCShaped(f, fd) {
				methods = append(methods, name)
			}
		}
		sort.Strings(methods)
	}
	facts["Handlers.serviceSource"] = src

	type handler struct {
		name, res, act string
		body           *hs
	}
	var hl []handler
	var unimpl []string
	add := func(name string, fd *ast.FuncDecl) {
		t.fn = name
		t.nonNil, t.authVar, t.inRecv, t.depth = map[string]bool{}, "", false, 0
		body := t.block(fd.Body.List)
		act := name
		if a, ok := c15ExpectedAct[name]; ok {
			act = a
		}
		res := body.firstCheck(act)
		if res == "" {
			res = "<none>"
		}
		hl = append(hl, handler{name, res, act, body})
	}
	for _, m := range methods {
		fd := f.fn("apiServer." + m)
		if fd == nil || fd.Body == nil {
			unimpl = append(unimpl, m)
			continue
		}
		add(m, fd)
	}
	for short, full := range c15InlineFns {
		fd := f.fn(full)
		if fd == nil || fd.Body == nil {
			lost = append(lost, apiGo+":"+full+" (function not found)")
			continue
		}
		add(short, fd)
	}

	qs := func(xs []string) string {
		var o []string
		for _, x := range xs {
			o = append(o, fmt.Sprintf("%q", x))
		}
		return "[" + strings.Join(o, ", ") + "]"
	}
	l.def("serviceMethods", "List String", qs(methods), "methods of `type APIServer interface` ("+filepath.Base(filepath.Dir(filepath.Dir(src)))+")")
	l.def("unimplemented", "List String", qs(unimpl), "service methods without a method on *apiServer in api.go (UnimplementedAPIServer answers)")

	// audit tables
	l.lines = append(l.lines, "/-- AUDIT: every call classified as an effect: (handler, callee, kind). -/",
		"def effectCalls : List (String × String × String) := [")
	for i, e := range effCalls {
		c := ","
		if i == len(effCalls)-1 {
			c = ""
		}
		l.lines = append(l.lines, fmt.Sprintf("  (%q, %q, %q)%s", e[0], e[1], e[2], c))
	}
	l.lines = append(l.lines, "]")
	pair := func(name, doc string, xs [][2]string) {
		l.lines = append(l.lines, "/-- AUDIT: "+doc+" -/", "def "+name+" : List (String × String) := [")
		seen := map[[2]string]bool{}
		var u [][2]string
		for _, x := range xs {
			if !seen[x] {
				seen[x] = true
				u = append(u, x)
			}
		}
		for i, e := range u {
			c := ","
			if i == len(u)-1 {
				c = ""
			}
			l.lines = append(l.lines, fmt.Sprintf("  (%q, %q)%s", e[0], e[1], c))
		}
		l.lines = append(l.lines, "]")
	}
	pair("reportCalls", "calls classified as a refusal report on the response stream.", reports)
	pair("handshakeSends", "Send of an empty message (subscription handshake), not an effect.", shakes)
	pair("skippedFuncLits", "function literals (callbacks) whose bodies were NOT translated.", funcLits)
	pair("otherCalls", "calls classified as neither check nor effect (handler, callee).", others)
	var reachLines []string
	var rn []string
	for n := range t.reach {
		rn = append(rn, n)
	}
	sort.Strings(rn)
	for _, n := range rn {
		if len(t.reach[n]) > 0 {
			reachLines = append(reachLines, fmt.Sprintf("  (%q, %s)", n, qs(t.reach[n])))
		}
	}
	l.lines = append(l.lines, "/-- AUDIT: api.go methods that reach an effect sink, and which. -/",
		"def helperReach : List (String × List String) := [", strings.Join(reachLines, ",\n"), "]")

	var names []string
	for _, h := range hl {
		id := "h_" + h.name
		names = append(names, id)
		l.lines = append(l.lines, fmt.Sprintf("def b_%s : Stmt :=\n  %s", h.name, h.body.lean("  ")))
		l.lines = append(l.lines, fmt.Sprintf("def %s : Handler := { name := %q, res := %q, act := %q, body := b_%s }",
			id, h.name, h.res, h.act, h.name))
	}
	l.lines = append(l.lines, "/-- One skeleton per RPC method of the client API, plus the async publish loop. -/",
		"def handlers : List Handler := ["+strings.Join(names, ", ")+"]")

	// ---- streaming RPCs and their per-message loops ----
	var streaming, clientStreaming []string
	for _, m := range methods {
		fd := f.fn("apiServer." + m)
		if fd == nil {
			continue
		}
		isStream := false
		for _, p := range fd.Type.Params.List {
			if strings.HasPrefix(f.src(p.Type), "client.API_") {
				isStream = true
			}
		}
		cs, known := c15Streams[m]
		if isStream != known && len(c15Streams) > 0 {
			lost = append(lost, apiGo+":"+m+" (stream parameter and the service descriptor disagree on whether this is a streaming RPC)")
		}
		if !isStream {
			continue
		}
		streaming = append(streaming, m)
		if !known {
			// descriptor not available: a handler that calls Recv is client-streaming
			cs = false
			for _, sl := range sessLoops {
				if sl.fn == m {
					cs = true
				}
			}
		}
		if cs {
			clientStreaming = append(clientStreaming, m)
			n := 0
			for _, sl := range sessLoops {
				if sl.fn == m {
					n++
				}
			}
			if n == 0 {
				lost = append(lost, apiGo+":"+m+" (client-streaming RPC without a recognisable per-message Recv loop)")
			}
		}
	}
	l.def("streamingMethods", "List String", qs(streaming), "RPCs whose handler takes a client.API_*Server stream")
	l.def("clientStreamingMethods", "List String", qs(clientStreaming), "of those, the ones whose descriptor says ClientStreams (requests arrive one by one on the stream): each must have a per-message loop below")
	var slNames []string
	for i, sl := range sessLoops {
		h := handler{}
		for _, x := range hl {
			if x.name == sl.fn {
				h = x
			}
		}
		act := sl.fn
		if a, ok := c15ExpectedAct[sl.fn]; ok {
			act = a
		}
		res := sl.body.firstCheck(act)
		if res == "" {
			res = "<none>"
		}
		_ = h
		id := fmt.Sprintf("sl_%s_%d", sl.fn, i)
		slNames = append(slNames, id)
		l.lines = append(l.lines, fmt.Sprintf("/-- body of the per-message loop at api.go:%d as reached from handler %s (one iteration = one received request) -/", sl.line, sl.fn),
			fmt.Sprintf("def b_%s : Stmt :=\n  %s", id, sl.body.lean("  ")),
			fmt.Sprintf("def %s : Handler := { name := %q, res := %q, act := %q, body := b_%s }", id, sl.fn, res, act, id))
	}
	l.lines = append(l.lines, "/-- Every `for` of the handlers whose body starts an iteration with `<stream>.Recv()`: the loop BODY as a pseudo-handler (name = the RPC it is reached from). -/",
		"def sessionLoops : List Handler := ["+strings.Join(slNames, ", ")+"]")

	// ---- ensureAuthorizationPermission as a decision tree ----
	l.lines = append(l.lines, c15DecisionTree(f)...)

	// ---- ensureAuthorizationPermission / enforcePolicy shape (policy read per call) ----
	l.cmp("guardEmptyClient", apiGo, "apiServer."+c15CheckFn, `clientID ? ""`, 0, "eq")
	ok := func(b bool, what string) string {
		if !b {
			lost = append(lost, apiGo+":"+what)
			return "false"
		}
		return "true"
	}
	enf := f.fn("apiServer.enforcePolicy")
	perCall, argOrder := false, false
	if enf != nil && enf.Body != nil {
		rl := len(callPositions(apiGo, "apiServer.enforcePolicy", "a.authzEnforcer.authzLock.RLock")) == 1
		ast.Inspect(enf.Body, func(n ast.Node) bool {
			if ce, isCE := n.(*ast.CallExpr); isCE && nows(f.src(ce.Fun)) == "a.authzEnforcer.enforcer.Enforce" {
				perCall = rl
				if len(ce.Args) == 3 && len(enf.Type.Params.List) >= 1 {
					var ps []string
					for _, p := range enf.Type.Params.List {
						for _, n := range p.Names {
							ps = append(ps, n.Name)
						}
					}
					argOrder = len(ps) == 3 && f.src(ce.Args[0]) == ps[0] && f.src(ce.Args[1]) == ps[1] && f.src(ce.Args[2]) == ps[2]
				}
			}
			return true
		})
	}
	l.def("enforcePerCall", "Bool", ok(perCall, "enforcePolicy: Enforce under RLock on every call"), "enforcePolicy takes the read lock and calls Enforce on every call (no caching): a reloaded policy is seen by the next call")
	l.def("enforceArgOrder", "Bool", ok(argOrder, "enforcePolicy: Enforce(subject, object, action)"), "Enforce(subject, object, action) in parameter order")
	chk := f.fn("apiServer." + c15CheckFn)
	passes, gate, ctxKey := false, false, ""
	if chk != nil && chk.Body != nil {
		ast.Inspect(chk.Body, func(n ast.Node) bool {
			switch x := n.(type) {
			case *ast.CallExpr:
				if nows(f.src(x.Fun)) == "a.enforcePolicy" && len(x.Args) == 3 && len(chk.Type.Params.List) >= 2 {
					var ps []string
					for _, p := range chk.Type.Params.List {
						for _, n := range p.Names {
							ps = append(ps, n.Name)
						}
					}
					passes = len(ps) == 3 && f.src(x.Args[0]) == "clientID" && f.src(x.Args[1]) == ps[1] && f.src(x.Args[2]) == ps[2]
				}
				if nows(f.src(x.Fun)) == "ctx.Value" && len(x.Args) == 1 {
					if bl, isBL := x.Args[0].(*ast.BasicLit); isBL {
						ctxKey = strings.Trim(bl.Value, "\"")
					}
				}
			case *ast.IfStmt:
				if nows(f.src(x.Cond)) == "a.config.TLSClientAuthz" {
					gate = true
				}
			}
			return true
		})
	}
	l.def("checkPassesArgs", "Bool", ok(passes, c15CheckFn+": enforcePolicy(clientID, resource, action)"), "the check forwards (clientID, resource, action) unchanged")
	l.def("checkGatedByConfig", "Bool", ok(gate, c15CheckFn+": if a.config.TLSClientAuthz"), "the check is active iff config.TLSClientAuthz")
	if ctxKey == "" {
		lost = append(lost, apiGo+":"+c15CheckFn+" (context key of the client id)")
	}
	l.def("ctxKey", "String", fmt.Sprintf("%q", ctxKey), "context key the client id is read from (authz.go stores it under the same key)")
	// authz.go must store the id under the same key
	az := load("server/authz.go")
	same := false
	ast.Inspect(az.f, func(n ast.Node) bool {
		if ce, isCE := n.(*ast.CallExpr); isCE && nows(az.src(ce.Fun)) == "context.WithValue" && len(ce.Args) == 3 {
			if bl, isBL := ce.Args[1].(*ast.BasicLit); isBL && strings.Trim(bl.Value, "\"") == ctxKey {
				same = true
			}
		}
		return true
	})
	if !same {
		lost = append(lost, "server/authz.go:addUserContext (context key differs from the one the check reads)")
	}
	// SIGHUP handler reloads under the write lock
	sg := load("server/signal.go")
	reload := len(callPositions("server/signal.go", "Server.handleSignals", "s.authzEnforcer.enforcer.LoadPolicy")) == 1 &&
		len(callPositions("server/signal.go", "Server.handleSignals", "s.authzEnforcer.authzLock.Lock")) == 1
	_ = sg
	l.def("sighupReloads", "Bool", ok(reload, "handleSignals: LoadPolicy under authzLock.Lock"), "SIGHUP: LoadPolicy under the write lock")
	return l
}

func c15RPCShaped(f *file, fd *ast.FuncDecl) bool {
	ft := fd.Type
	if ft.Results == nil {
		return false
	}
	rs := ft.Results.List
	last := f.src(rs[len(rs)-1].Type)
	if last != "error" {
		return false
	}
	if len(rs) == 2 {
		return strings.HasPrefix(f.src(rs[0].Type), "*client.") && strings.HasSuffix(f.src(rs[0].Type), "Response")
	}
	for _, p := range ft.Params.List {
		if strings.HasPrefix(f.src(p.Type), "client.API_") {
			return true
		}
	}
	return false
}

// ---- ensureAuthorizationPermission as a decision tree (Authz.DTree) ----
//
// Every statement of the function must be one of: the binding of the client id from the
// context (`id, _ := ctx.Value(key).(string)` / `id, ok := …`), the binding of
// `enforcePolicy(id, …)`, an `if` over the configuration switch / the comma-ok / the id
// compared with "" / the enforce error / the enforce boolean (combined with ! && ||), a
// `return`, a logging call, or an assignment of a formatted string to a fresh variable.
// Anything else is a lost decision point and a `.lost` leaf (which evaluates to allow, so
// no theorem can rest on it).

type c15dt struct {
	k    string // ret ite lost
	out  string // Lean term of a DOut
	cond string // Lean term of a DCond
	t, e *c15dt
}

func (d *c15dt) lean(ind string) string {
	switch d.k {
	case "ret":
		return "(.ret " + d.out + ")"
	case "ite":
		return fmt.Sprintf("(.ite %s\n%s  %s\n%s  %s)", d.cond, ind, d.t.lean(ind+"  "), ind, d.e.lean(ind+"  "))
	}
	if d.k == "fall" {
		return "FALL"
	}
	return ".lost"
}

type c15dec struct {
	f                                    *file
	recv, ctx                            string
	idVar, idOkVar, enfOkVar, enfErrVar string
	nonNil                               map[string]bool
}

func (d *c15dec) lose(what string) *c15dt {
	lost = append(lost, apiGo+":"+c15CheckFn+" (decision tree: "+what+")")
	return &c15dt{k: "lost"}
}

func (d *c15dec) tracked(name string) bool {
	return name != "" && name != "_" && (name == d.idVar || name == d.idOkVar || name == d.enfOkVar || name == d.enfErrVar || name == d.ctx || name == d.recv)
}

var c15FlipCmp = map[string]string{"lt": "gt", "le": "ge", "gt": "lt", "ge": "le", "eq": "eq", "ne": "ne"}

func isEmptyStringLit(e ast.Expr) bool {
	bl, ok := e.(*ast.BasicLit)
	return ok && bl.Kind == token.STRING && (bl.Value == `""` || bl.Value == "``")
}

func (d *c15dec) cond(e ast.Expr, t, el *c15dt) *c15dt {
	ite := func(c string) *c15dt { return &c15dt{k: "ite", cond: c, t: t, e: el} }
	switch x := e.(type) {
	case *ast.ParenExpr:
		return d.cond(x.X, t, el)
	case *ast.UnaryExpr:
		if x.Op == token.NOT {
			return d.cond(x.X, el, t)
		}
	case *ast.Ident:
		if x.Name == d.enfOkVar && d.enfOkVar != "" {
			return ite(".enfOk")
		}
		if x.Name == d.idOkVar && d.idOkVar != "" {
			return ite(".hasID")
		}
	case *ast.SelectorExpr:
		if nows(d.f.src(x)) == d.recv+".config.TLSClientAuthz" {
			return ite(".enabled")
		}
	case *ast.BinaryExpr:
		switch x.Op {
		case token.LAND:
			return d.cond(x.X, d.cond(x.Y, t, el), el)
		case token.LOR:
			return d.cond(x.X, t, d.cond(x.Y, t, el))
		}
		op, isCmp := cmpName[x.Op]
		if !isCmp {
			break
		}
		isID := func(e ast.Expr) bool {
			id, ok := e.(*ast.Ident)
			return ok && d.idVar != "" && id.Name == d.idVar
		}
		isLenID := func(e ast.Expr) bool {
			ce, ok := e.(*ast.CallExpr)
			return ok && d.f.src(ce.Fun) == "len" && len(ce.Args) == 1 && isID(ce.Args[0])
		}
		isZero := func(e ast.Expr) bool {
			bl, ok := e.(*ast.BasicLit)
			return ok && bl.Kind == token.INT && bl.Value == "0"
		}
		switch {
		case isID(x.X) && isEmptyStringLit(x.Y), isLenID(x.X) && isZero(x.Y):
			return ite("(.idVsEmpty ." + op + ")")
		case isEmptyStringLit(x.X) && isID(x.Y), isZero(x.X) && isLenID(x.Y):
			return ite("(.idVsEmpty ." + c15FlipCmp[op] + ")")
		}
		if v := neqNil(e); v != "" && v == d.enfErrVar {
			return ite(".enfErr")
		}
		if xi, ok := x.X.(*ast.Ident); ok && x.Op == token.EQL && xi.Name == d.enfErrVar && d.enfErrVar != "" {
			if yi, ok := x.Y.(*ast.Ident); ok && yi.Name == "nil" {
				return &c15dt{k: "ite", cond: ".enfErr", t: el, e: t}
			}
		}
	}
	return d.lose("condition not understood: " + d.f.src(e))
}

func (d *c15dec) ret(rs *ast.ReturnStmt) *c15dt {
	allow := &c15dt{k: "ret", out: ".allow"}
	refuse := func(why string) *c15dt {
		if len(why) > 60 {
			why = why[:60]
		}
		return &c15dt{k: "ret", out: fmt.Sprintf("(.refuse %q)", why)}
	}
	if len(rs.Results) != 1 {
		return d.lose("return with other than one result")
	}
	switch x := rs.Results[0].(type) {
	case *ast.Ident:
		if x.Name == "nil" {
			return allow
		}
		if x.Name == d.enfErrVar && d.enfErrVar != "" {
			if d.nonNil[x.Name] {
				return refuse("enforce error")
			}
			return &c15dt{k: "ite", cond: ".enfErr", t: refuse("enforce error"), e: allow}
		}
	case *ast.CallExpr:
		if c15ErrCtors[calleeText(d.f, x)] {
			return refuse(d.f.src(x))
		}
	}
	return d.lose("return value not understood: " + d.f.src(rs.Results[0]))
}

var c15PureFns = regexp.MustCompile(`^(fmt\.Sprintf|fmt\.Sprint|strings\.\w+|errors\.\w+|status\.\w+)$`)

func (d *c15dec) pureExpr(e ast.Expr) bool {
	ok := true
	ast.Inspect(e, func(n ast.Node) bool {
		if ce, isCE := n.(*ast.CallExpr); isCE && !c15PureFns.MatchString(calleeText(d.f, ce)) {
			ok = false
		}
		if _, isFL := n.(*ast.FuncLit); isFL {
			ok = false
		}
		return ok
	})
	return ok
}

// assign: returns false if the statement is not understood.
func (d *c15dec) assign(as *ast.AssignStmt) bool {
	names := make([]string, len(as.Lhs))
	for i, l := range as.Lhs {
		id, ok := l.(*ast.Ident)
		if !ok {
			return false
		}
		names[i] = id.Name
	}
	if len(as.Rhs) == 1 {
		// id, ok := ctx.Value(key).(string)
		if ta, ok := as.Rhs[0].(*ast.TypeAssertExpr); ok && len(names) == 2 && ta.Type != nil && d.f.src(ta.Type) == "string" {
			if ce, ok := ta.X.(*ast.CallExpr); ok && nows(d.f.src(ce.Fun)) == d.ctx+".Value" && len(ce.Args) == 1 {
				if d.idVar != "" || d.tracked(names[0]) || d.tracked(names[1]) {
					return false
				}
				d.idVar = names[0]
				if names[1] != "_" {
					d.idOkVar = names[1]
				}
				return names[0] != "_"
			}
		}
		// ok, err := a.enforcePolicy(id, …)
		if ce, ok := as.Rhs[0].(*ast.CallExpr); ok && nows(d.f.src(ce.Fun)) == d.recv+".enforcePolicy" {
			if len(names) != 2 || len(ce.Args) != 3 || d.idVar == "" || d.f.src(ce.Args[0]) != d.idVar || d.enfOkVar != "" {
				return false
			}
			if names[0] == "_" || names[1] == "_" || names[0] == d.idVar || names[1] == d.idVar {
				return false
			}
			// `ok` of the type assertion may be shadowed by the enforce boolean from here on
			if names[0] == d.idOkVar || names[1] == d.idOkVar {
				d.idOkVar = ""
			}
			d.enfOkVar, d.enfErrVar = names[0], names[1]
			return true
		}
	}
	// fresh variables from pure expressions (message formatting)
	for _, n := range names {
		if d.tracked(n) {
			return false
		}
	}
	for _, r := range as.Rhs {
		if !d.pureExpr(r) {
			return false
		}
	}
	return true
}

func (d *c15dec) block(list []ast.Stmt, k *c15dt) *c15dt {
	if len(list) == 0 {
		return k
	}
	rest := func() *c15dt { return d.block(list[1:], k) }
	switch x := list[0].(type) {
	case *ast.EmptyStmt:
		return rest()
	case *ast.BlockStmt:
		return d.block(append(append([]ast.Stmt{}, x.List...), list[1:]...), k)
	case *ast.ReturnStmt:
		return d.ret(x)
	case *ast.ExprStmt:
		if ce, ok := x.X.(*ast.CallExpr); ok && regexp.MustCompile(`^\w+\.logger\.\w+$`).MatchString(calleeText(d.f, ce)) {
			pure := true
			for _, a := range ce.Args {
				pure = pure && d.pureExpr(a)
			}
			if pure {
				return rest()
			}
		}
		return d.lose("statement not understood: " + d.f.src(x))
	case *ast.AssignStmt:
		if !d.assign(x) {
			return d.lose("assignment not understood: " + d.f.src(x))
		}
		return rest()
	case *ast.IfStmt:
		if x.Init != nil {
			as, ok := x.Init.(*ast.AssignStmt)
			if !ok || !d.assign(as) {
				return d.lose("if-initialiser not understood: " + d.f.src(x.Init))
			}
		}
		// the condition is resolved FIRST, against the variables bound so far (a later
		// `ok, err := enforcePolicy(…)` may rebind a name the condition uses)
		ct := d.cond(x.Cond, &c15dt{k: "T"}, &c15dt{k: "E"})
		v := neqNil(x.Cond)
		old := d.nonNil[v]
		if v != "" {
			d.nonNil[v] = true
		}
		th := d.block(x.Body.List, &c15dt{k: "fall"})
		if v != "" {
			d.nonNil[v] = old
		}
		el := &c15dt{k: "fall"}
		if x.Else != nil {
			el = d.block([]ast.Stmt{x.Else}, &c15dt{k: "fall"})
		}
		r := rest()
		return c15Place(ct, c15Subst(th, r), c15Subst(el, r))
	}
	return d.lose(fmt.Sprintf("statement not understood: %T", list[0]))
}

// c15Subst replaces the "fall off the end of the branch" leaves by the continuation.
func c15Subst(t, k *c15dt) *c15dt {
	switch t.k {
	case "fall":
		return k
	case "ite":
		return &c15dt{k: "ite", cond: t.cond, t: c15Subst(t.t, k), e: c15Subst(t.e, k)}
	}
	return t
}

// c15Place puts the branch trees at the T / E placeholders of a resolved condition.
func c15Place(ct, th, el *c15dt) *c15dt {
	switch ct.k {
	case "T":
		return th
	case "E":
		return el
	case "ite":
		return &c15dt{k: "ite", cond: ct.cond, t: c15Place(ct.t, th, el), e: c15Place(ct.e, th, el)}
	}
	return ct
}

func c15DecisionTree(f *file) []string {
	fd := f.fn("apiServer." + c15CheckFn)
	tree := &c15dt{k: "lost"}
	if fd == nil || fd.Body == nil || fd.Recv == nil || len(fd.Recv.List[0].Names) != 1 {
		lost = append(lost, apiGo+":"+c15CheckFn+" (function not found)")
	} else {
		d := &c15dec{f: f, recv: fd.Recv.List[0].Names[0].Name, nonNil: map[string]bool{}}
		if ps := fd.Type.Params.List; len(ps) > 0 && len(ps[0].Names) == 1 && f.src(ps[0].Type) == "context.Context" {
			d.ctx = ps[0].Names[0].Name
		}
		if d.ctx == "" {
			lost = append(lost, apiGo+":"+c15CheckFn+" (decision tree: first parameter is not a context.Context)")
		} else {
			tree = d.block(fd.Body.List, &c15dt{k: "lost"})
			if strings.Contains(tree.lean(""), "FALL") {
				tree = d.lose("internal: unresolved continuation")
			}
		}
	}
	return []string{
		"/-- `ensureAuthorizationPermission` as a decision tree: every `if` and every `return` of the function, in source order. -/",
		"def ensureDecision : DTree :=\n  " + tree.lean("  "),
	}
}
