package main

func genCompact() *leanFile {
	l := newLean("Compact", "/repo/"+compactGo)
	l.cmp("scanStopCmp", compactGo, "compactCleaner.scanSegments", "offset ? hw", 0, "gt")
	l.cmp("retainLatestCmp", compactGo, "compactCleaner.cleanSegment", "offset ? latestOffset", 0, "eq")
	l.cmp("retainHWCmp", compactGo, "compactCleaner.cleanSegment", "offset ? hw", 0, "ge")
	l.cmp("retainNilKeyCmp", compactGo, "compactCleaner.cleanSegment", "key ? nil", 0, "eq")
	l.cmp("skipCmp", compactGo, "compactCleaner.Compact", "len(segments) ? 1", 0, "le")
	l.cmp("scanSkipNilKeyCmp", compactGo, "compactCleaner.scanSegments", "key ? nil", 0, "eq")
	return l
}
