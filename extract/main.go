// Command extract regenerates /verif/lean/Liftbridge/Gen/*.lean from the current
// working tree of the repository (go/ast only, no type checking, no dependencies).
//
// It emits Lean *data*: constants, comparison operators of hand-picked decision
// points ("guards"), and program skeletons/tables for the properties that are about
// program shape (C15 handlers, C19 telemetry, C06/C18 op dispatch). The hand-written
// models evaluate their decision points through these definitions, so every theorem is
// re-checked against what the code says now. A decision point that can no longer be
// located is reported in lost.json (a broken tie), never silently skipped: the
// generated file then keeps the previous operator so that the project still builds and
// the check can search for a failing input.
//
// usage: extract <repo> <gen-dir> <facts.json>
package main

import (
	"bytes"
	"encoding/json"
	"fmt"
	"go/ast"
	"go/parser"
	"go/printer"
	"go/token"
	"os"
	"path/filepath"
	"sort"
	"strings"
)

type file struct {
	fset *token.FileSet
	f    *ast.File
	path string
}

var (
	repo  string
	files = map[string]*file{}
	lost  []string
	facts = map[string]interface{}{}
)

func load(rel string) *file {
	if f, ok := files[rel]; ok {
		return f
	}
	fset := token.NewFileSet()
	af, err := parser.ParseFile(fset, filepath.Join(repo, rel), nil, parser.ParseComments)
	if err != nil {
		fmt.Fprintf(os.Stderr, "extract: parse %s: %v\n", rel, err)
		os.Exit(2)
	}
	f := &file{fset, af, rel}
	files[rel] = f
	return f
}

func (f *file) src(n ast.Node) string {
	var b bytes.Buffer
	printer.Fprint(&b, f.fset, n)
	return strings.Join(strings.Fields(b.String()), " ")
}

// fn finds a function or method by name ("Recv.Name" or "Name").
func (f *file) fn(name string) *ast.FuncDecl {
	recv, nm := "", name
	if i := strings.Index(name, "."); i >= 0 {
		recv, nm = name[:i], name[i+1:]
	}
	for _, d := range f.f.Decls {
		fd, ok := d.(*ast.FuncDecl)
		if !ok || fd.Name.Name != nm {
			continue
		}
		r := ""
		if fd.Recv != nil && len(fd.Recv.List) > 0 {
			t := fd.Recv.List[0].Type
			if s, ok := t.(*ast.StarExpr); ok {
				t = s.X
			}
			if id, ok := t.(*ast.Ident); ok {
				r = id.Name
			}
		}
		if r == recv {
			return fd
		}
	}
	return nil
}

func nows(s string) string { return strings.Join(strings.Fields(s), "") }

var cmpName = map[token.Token]string{token.LSS: "lt", token.LEQ: "le", token.GTR: "gt", token.GEQ: "ge", token.EQL: "eq", token.NEQ: "ne"}

// guard finds, inside function fnName of file rel, the comparison whose source text is
// `pattern` with the operator replaced by "?"; e.g. "len(data) ? envelopeMinHeaderLen".
// nth selects among several textual matches (0 = must be unique).
func guard(rel, fnName, pattern string, nth int) (string, bool) {
	f := load(rel)
	fd := f.fn(fnName)
	id := rel + ":" + fnName + ":" + pattern
	if fd == nil || fd.Body == nil {
		lost = append(lost, id+" (function not found)")
		return "", false
	}
	var found []string
	ast.Inspect(fd.Body, func(n ast.Node) bool {
		be, ok := n.(*ast.BinaryExpr)
		if !ok {
			return true
		}
		op, ok := cmpName[be.Op]
		if !ok {
			return true
		}
		if nows(f.src(be.X)+"?"+f.src(be.Y)) == nows(pattern) {
			found = append(found, op)
		}
		return true
	})
	if len(found) == 0 {
		lost = append(lost, id+" (no such comparison)")
		return "", false
	}
	if nth == 0 {
		for _, o := range found[1:] {
			if o != found[0] {
				lost = append(lost, id+" (ambiguous)")
				return "", false
			}
		}
		return found[0], true
	}
	if nth > len(found) {
		lost = append(lost, id+" (fewer matches than expected)")
		return "", false
	}
	return found[nth-1], true
}

// callPositions returns the source positions of calls whose function text is callee
// (e.g. "c.applyAgeLimit") inside fnName.
func callPositions(rel, fnName, callee string) []int {
	f := load(rel)
	fd := f.fn(fnName)
	if fd == nil || fd.Body == nil {
		lost = append(lost, rel+":"+fnName+" (function not found)")
		return nil
	}
	var out []int
	ast.Inspect(fd.Body, func(n ast.Node) bool {
		if ce, ok := n.(*ast.CallExpr); ok && nows(f.src(ce.Fun)) == nows(callee) {
			out = append(out, int(ce.Pos()))
		}
		return true
	})
	return out
}

// ifAssign reports whether fnName contains `if <cond> { ... <assign> ... }` with the given
// (whitespace-insensitive) condition and assignment texts.
func ifAssign(rel, fnName, cond, assign string) bool {
	f := load(rel)
	fd := f.fn(fnName)
	if fd == nil || fd.Body == nil {
		lost = append(lost, rel+":"+fnName+" (function not found)")
		return false
	}
	found := false
	ast.Inspect(fd.Body, func(n ast.Node) bool {
		is, ok := n.(*ast.IfStmt)
		if !ok || nows(f.src(is.Cond)) != nows(cond) {
			return true
		}
		for _, st := range is.Body.List {
			if nows(f.src(st)) == nows(assign) {
				found = true
			}
		}
		return true
	})
	if !found {
		lost = append(lost, rel+":"+fnName+": if "+cond+" { "+assign+" }")
	}
	return found
}

// hasCond reports whether fnName contains an if statement with exactly this condition.
func hasCond(rel, fnName, cond string) bool {
	f := load(rel)
	fd := f.fn(fnName)
	if fd == nil || fd.Body == nil {
		lost = append(lost, rel+":"+fnName+" (function not found)")
		return false
	}
	found := false
	ast.Inspect(fd.Body, func(n ast.Node) bool {
		if is, ok := n.(*ast.IfStmt); ok && nows(f.src(is.Cond)) == nows(cond) {
			found = true
		}
		return true
	})
	if !found {
		lost = append(lost, rel+":"+fnName+": if "+cond)
	}
	return found
}

// constInt returns the value of an integer constant declared as a basic literal or a
// simple sum/product of literals and other constants of the same file.
func constInt(rel, name string) (int64, bool) {
	f := load(rel)
	var eval func(e ast.Expr) (int64, bool)
	lookup := func(n string) (int64, bool) {
		for _, d := range f.f.Decls {
			gd, ok := d.(*ast.GenDecl)
			if !ok || (gd.Tok != token.CONST && gd.Tok != token.VAR) {
				continue
			}
			for _, s := range gd.Specs {
				vs := s.(*ast.ValueSpec)
				for i, id := range vs.Names {
					if id.Name == n && i < len(vs.Values) {
						return eval(vs.Values[i])
					}
				}
			}
		}
		return 0, false
	}
	eval = func(e ast.Expr) (int64, bool) {
		switch x := e.(type) {
		case *ast.BasicLit:
			var v int64
			if _, err := fmt.Sscanf(x.Value, "%v", &v); err == nil {
				return v, true
			}
			return 0, false
		case *ast.Ident:
			return lookup(x.Name)
		case *ast.ParenExpr:
			return eval(x.X)
		case *ast.BinaryExpr:
			a, ok1 := eval(x.X)
			b, ok2 := eval(x.Y)
			if !ok1 || !ok2 {
				return 0, false
			}
			switch x.Op {
			case token.ADD:
				return a + b, true
			case token.SUB:
				return a - b, true
			case token.MUL:
				return a * b, true
			}
		}
		return 0, false
	}
	v, ok := lookup(name)
	if !ok {
		lost = append(lost, rel+":const "+name)
	}
	return v, ok
}

// ---------- Lean emission ----------

type leanFile struct {
	name  string
	src   string
	lines []string
	raw   string // complete file content (GoMini translations)
}

func newLean(name, src string, imports ...string) *leanFile {
	l := &leanFile{name: name, src: src}
	l.lines = append(l.lines, fmt.Sprintf("-- GENERATED by /verif/extract from %s — do not edit.", src))
	for _, i := range append([]string{"Liftbridge.Cmp"}, imports...) {
		l.lines = append(l.lines, "import "+i)
	}
	l.lines = append(l.lines, "namespace Liftbridge.Gen."+name)
	return l
}

func (l *leanFile) def(name, ty, val, doc string) {
	if doc != "" {
		l.lines = append(l.lines, "/-- `"+doc+"` -/")
	}
	l.lines = append(l.lines, fmt.Sprintf("def %s : %s := %s", name, ty, val))
}

// cmp emits a guard; prev is the operator the models were written against, used when the
// decision point was lost so the project still builds (the loss is reported separately).
func (l *leanFile) cmp(name, rel, fn, pattern string, nth int, prev string) {
	op, ok := guard(rel, fn, pattern, nth)
	if !ok {
		op = prev
	}
	facts[l.name+"."+name] = map[string]interface{}{"file": rel, "func": fn, "pattern": pattern, "op": op, "found": ok}
	l.def(name, "Cmp", "."+op, strings.Replace(pattern, "?", "·", 1)+"  ("+fn+")")
}

func (l *leanFile) nat(name, rel, cname string, prev int64) {
	v, ok := constInt(rel, cname)
	if !ok {
		v = prev
	}
	facts[l.name+"."+name] = map[string]interface{}{"file": rel, "const": cname, "value": v, "found": ok}
	l.def(name, "Nat", fmt.Sprint(v), cname)
}

func (l *leanFile) write(dir string) {
	l.lines = append(l.lines, "end Liftbridge.Gen."+l.name, "")
	content := strings.Join(l.lines, "\n")
	if l.raw != "" {
		content = l.raw
	}
	p := filepath.Join(dir, l.name+".lean")
	if old, err := os.ReadFile(p); err == nil && string(old) == content {
		return // keep mtime: no rebuild
	}
	tmp := p + ".tmp"
	if err := os.WriteFile(tmp, []byte(content), 0644); err != nil {
		panic(err)
	}
	if err := os.Rename(tmp, p); err != nil {
		panic(err)
	}
}

func main() {
	if len(os.Args) != 4 {
		fmt.Fprintln(os.Stderr, "usage: extract <repo> <gen-dir> <facts.json>")
		os.Exit(2)
	}
	repo = os.Args[1]
	gen := os.Args[2]
	os.MkdirAll(gen, 0755)

	var out []*leanFile
	out = append(out, genEnvelope(), genLog(), genRetention(), genCompact(), genPartition(), genSubscribe(), genTelemetry(), genHandlers(), genGroups(), genSeal(), genGroupSub(), genActivity(), genFailover(), genMetadata(), genRecover(), genProtocol(), genCursors(), genHWReader(), genSealPipe(), genPipeline())
	out = append(out, genGoMiniAll()...)

	keep := map[string]bool{}
	for _, l := range out {
		l.write(gen)
		keep[l.name+".lean"] = true
	}
	// stale generated files are deleted
	ents, _ := os.ReadDir(gen)
	for _, e := range ents {
		if strings.HasSuffix(e.Name(), ".lean") && !keep[e.Name()] {
			os.Remove(filepath.Join(gen, e.Name()))
		}
	}
	sort.Strings(lost)
	facts["lost"] = lost
	b, _ := json.MarshalIndent(facts, "", " ")
	os.WriteFile(os.Args[3], b, 0644)
	if len(lost) > 0 {
		for _, l := range lost {
			fmt.Fprintln(os.Stderr, "extract: LOST decision point:", l)
		}
		os.Exit(3)
	}
}
