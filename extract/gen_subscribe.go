package main

import (
	"fmt"
	"go/ast"
	"strings"
)

// condTexts returns the (whitespace-free) texts of all if-conditions in fnName.
func condTexts(rel, fnName string) []string {
	f := load(rel)
	fd := f.fn(fnName)
	if fd == nil || fd.Body == nil {
		lost = append(lost, rel+":"+fnName+" (function not found)")
		return nil
	}
	var out []string
	ast.Inspect(fd.Body, func(n ast.Node) bool {
		if is, ok := n.(*ast.IfStmt); ok {
			out = append(out, nows(f.src(is.Cond)))
		}
		return true
	})
	return out
}

func anyHas(ss []string, sub string) bool {
	for _, s := range ss {
		if strings.Contains(s, nows(sub)) {
			return true
		}
	}
	return false
}

func genSubscribe() *leanFile {
	l := newLean("Subscribe", "/repo/server/partition.go, /repo/server/commitlog/commitlog.go")
	// EarliestOffsetAfterTimestamp: which segments may be searched after the previous one had no match
	ec := condTexts(commitlogGo, "commitLog.EarliestOffsetAfterTimestamp")
	switch {
	case anyHas(ec, "idx < len(l.segments)-1"):
		l.def("tsNextSegCmp", "Cmp", ".lt", "idx < len(l.segments)-1")
		l.def("tsNextSegOff", "Int", "1", "")
	case anyHas(ec, "idx < len(l.segments)"):
		l.def("tsNextSegCmp", "Cmp", ".lt", "idx < len(l.segments)")
		l.def("tsNextSegOff", "Int", "0", "")
	default:
		lost = append(lost, commitlogGo+":commitLog.EarliestOffsetAfterTimestamp: idx < len(l.segments)[-1]")
		l.def("tsNextSegCmp", "Cmp", ".lt", "LOST")
		l.def("tsNextSegOff", "Int", "0", "")
	}
	// findSegmentIndexByTimestamp: is an empty segment an error (io.EOF) or "after every timestamp"?
	fc := condTexts(utilGo, "findSegmentIndexByTimestamp")
	l.def("tsEmptySegNoError", "Bool", fmt.Sprint(anyHas(fc, "e != io.EOF")), "a segment without entries sorts after every timestamp instead of failing the search")
	lc0 := condTexts(commitlogGo, "commitLog.LatestOffsetBeforeTimestamp")
	if !anyHas(lc0, "timestamp < seg.FirstWriteTime()") {
		lost = append(lost, commitlogGo+":commitLog.LatestOffsetBeforeTimestamp: timestamp < seg.FirstWriteTime()")
	}
	l.def("tsLatestEmptyCheck", "Bool", fmt.Sprint(anyHas(lc0, "seg.IsEmpty() || timestamp < seg.FirstWriteTime()")), "LatestOffsetBeforeTimestamp refuses an empty first segment")
	exact := len(callPositions(commitlogGo, "commitLog.LatestOffsetBeforeTimestamp", "seg.findLatestEntryByTimestamp")) > 0
	l.def("tsLatestExact", "Bool", fmt.Sprint(exact), "LatestOffsetBeforeTimestamp returns the last ENTRY at or before the timestamp (not 'first later offset - 1')")
	if exact {
		l.cmp("tsLatestCmp", segmentGo, "segment.findLatestEntryByTimestamp", "entry.Timestamp ? timestamp", 0, "gt")
	} else {
		l.def("tsLatestCmp", "Cmp", ".gt", "")
	}
	// EarliestOffsetAfterTimestamp: segment search inclusive of an equal base timestamp?
	incl := false
	{
		f := load(commitlogGo)
		if fd := f.fn("commitLog.EarliestOffsetAfterTimestamp"); fd != nil {
			ast.Inspect(fd.Body, func(n ast.Node) bool {
				if ce, ok := n.(*ast.CallExpr); ok && nows(f.src(ce.Fun)) == "findSegmentIndexByTimestamp" && len(ce.Args) == 3 && nows(f.src(ce.Args[2])) == "true" {
					incl = true
				}
				return true
			})
		}
		inclImpl := anyHas(condTexts(utilGo, "findSegmentIndexByTimestamp"), "inclusive && entry.Timestamp == timestamp")
		incl = incl && inclImpl
	}
	l.def("tsEarliestInclusive", "Bool", fmt.Sprint(incl), "EarliestOffsetAfterTimestamp looks for the first segment whose base timestamp is >= (not >) the timestamp")
	// getStopOffset: read-only partitions stop at the newest offset (forward only?)
	sc := condTexts(partitionGo, "partition.getStopOffset")
	switch {
	case anyHas(sc, "p.log.IsReadonly() && !req.Reverse"):
		l.def("readonlyStopForwardOnly", "Bool", "true", "if p.log.IsReadonly() && !req.Reverse")
	case anyHas(sc, "p.log.IsReadonly()"):
		l.def("readonlyStopForwardOnly", "Bool", "false", "if p.log.IsReadonly()")
	default:
		lost = append(lost, partitionGo+":partition.getStopOffset: if p.log.IsReadonly()")
		l.def("readonlyStopForwardOnly", "Bool", "true", "LOST")
	}
	// Subscribe: stop/start validation
	vc := condTexts(partitionGo, "partition.Subscribe")
	switch {
	case anyHas(vc, "req.Reverse && stopOffset > startOffset") && anyHas(vc, "!req.Reverse && stopOffset < startOffset"):
		l.def("reverseStopRule", "Bool", "true", "reverse: stop must not be after start; forward: not before")
	case anyHas(vc, "stopOffset != waitForNewMessages && stopOffset < startOffset"):
		l.def("reverseStopRule", "Bool", "false", "stopOffset != waitForNewMessages && stopOffset < startOffset (both directions)")
	default:
		lost = append(lost, partitionGo+":partition.Subscribe: stop/start validation")
		l.def("reverseStopRule", "Bool", "true", "LOST")
	}
	// subscribe loop: stop test
	lc := condTexts(partitionGo, "partition.newSubscribeLoop")
	if !anyHas(lc, "offset == stopOffset") {
		lost = append(lost, partitionGo+":partition.newSubscribeLoop: offset == stopOffset")
	}
	beyond := anyHas(lc, "stopOffset != waitForNewMessages && ((!reverse && offset > stopOffset) || (reverse && offset < stopOffset))")
	l.def("stopBeyondCheck", "Bool", fmt.Sprint(beyond), "end the subscription once the stop offset has been passed")
	// end of a reverse subscription
	if anyHas(lc, "reverse && err == io.EOF") {
		l.def("reverseEndStatus", "String", `"ResourceExhausted:begin"`, "reverse && err == io.EOF => ResourceExhausted")
	} else {
		l.def("reverseEndStatus", "String", `"Unknown:EOF"`, "status.Convert(io.EOF)")
	}
	return l
}
