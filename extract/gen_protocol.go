package main

// C02 / C04: decision points and call shapes of the replication protocol glue
// (server/partition.go, server/replicator.go, server/metadata.go,
// server/commitlog/commitlog.go). Emits Gen/Protocol.lean.
//
//   - comparison operators ("guards") the model evaluates its decisions through;
//   - `+k` addends of the three offset computations (Truncate(lastOffset+1),
//     Truncate(hw+1), NewReader(req.Offset+1)) and of `offset < NewestOffset()+1`;
//   - argument texts of the calls that make up the two epoch-boundary conventions
//     (NewLeaderEpoch: Assign(epoch, NewestOffset()) vs append: Assign(entry.LeaderEpoch,
//     entry.Offset)) and of the reconciliation RPC, as strings a Props theorem pins;
//   - the list of functions that (re)create a `replica{offset: …}` (the only places
//     where the leader's view of a replica's offset is ever lowered).

import (
	"fmt"
	"go/ast"
	"go/token"
	"sort"
	"strings"
)

const replicatorGo = "server/replicator.go"

// callArgs returns the whitespace-free argument texts of the calls to callee inside fnName.
func callArgs(rel, fnName, callee string) [][]string {
	f := load(rel)
	fd := f.fn(fnName)
	if fd == nil || fd.Body == nil {
		lost = append(lost, rel+":"+fnName+" (function not found)")
		return nil
	}
	var out [][]string
	ast.Inspect(fd.Body, func(n ast.Node) bool {
		if ce, ok := n.(*ast.CallExpr); ok && nows(f.src(ce.Fun)) == nows(callee) {
			var as []string
			for _, a := range ce.Args {
				as = append(as, nows(f.src(a)))
			}
			out = append(out, as)
		}
		return true
	})
	return out
}

// addendOf parses "x+k" / "x-k" / "x" (whitespace-free) against the expected base text.
func addendOf(text, base string) (int64, bool) {
	if text == base {
		return 0, true
	}
	if strings.HasPrefix(text, base+"+") {
		var k int64
		if _, err := fmt.Sscanf(text[len(base)+1:], "%d", &k); err == nil {
			return k, true
		}
	}
	if strings.HasPrefix(text, base+"-") {
		var k int64
		if _, err := fmt.Sscanf(text[len(base)+1:], "%d", &k); err == nil {
			return -k, true
		}
	}
	return 0, false
}

// uniqueArg returns argument idx of the single call to callee in fnName.
func uniqueArg(rel, fnName, callee string, idx int) (string, bool) {
	cs := callArgs(rel, fnName, callee)
	id := rel + ":" + fnName + ": call " + callee
	if len(cs) != 1 || idx >= len(cs[0]) {
		lost = append(lost, fmt.Sprintf("%s (%d calls)", id, len(cs)))
		return "", false
	}
	return cs[0][idx], true
}

func (l *leanFile) addend(name, rel, fnName, callee string, idx int, base string, prev int64) {
	txt, ok := uniqueArg(rel, fnName, callee, idx)
	k := prev
	if ok {
		if v, ok2 := addendOf(txt, nows(base)); ok2 {
			k = v
		} else {
			lost = append(lost, rel+":"+fnName+": "+callee+"("+base+"+k): got "+txt)
			ok = false
		}
	}
	facts[l.name+"."+name] = map[string]interface{}{"file": rel, "func": fnName, "call": callee, "text": txt, "addend": k, "found": ok}
	l.def(name, "Int", fmt.Sprintf("(%d)", k), callee+"("+base+" + k)  ("+fnName+")")
}

func (l *leanFile) argText(name, rel, fnName, callee string, idx int, prev string) {
	txt, ok := uniqueArg(rel, fnName, callee, idx)
	if !ok {
		txt = prev
	}
	facts[l.name+"."+name] = map[string]interface{}{"file": rel, "func": fnName, "call": callee, "text": txt, "found": ok}
	l.def(name, "String", fmt.Sprintf("%q", txt), fmt.Sprintf("argument %d of %s  (%s)", idx, callee, fnName))
}

// replicaLiteralSites lists the functions of partition.go containing a composite literal
// `replica{...}` together with the text of its offset field.
func replicaLiteralSites() []string {
	f := load(partitionGo)
	var out []string
	for _, d := range f.f.Decls {
		fd, ok := d.(*ast.FuncDecl)
		if !ok || fd.Body == nil {
			continue
		}
		name := fd.Name.Name
		if fd.Recv != nil && len(fd.Recv.List) > 0 {
			t := fd.Recv.List[0].Type
			if s, ok := t.(*ast.StarExpr); ok {
				t = s.X
			}
			if id, ok := t.(*ast.Ident); ok {
				name = id.Name + "." + name
			}
		}
		ast.Inspect(fd.Body, func(n ast.Node) bool {
			cl, ok := n.(*ast.CompositeLit)
			if !ok {
				return true
			}
			if id, ok := cl.Type.(*ast.Ident); !ok || id.Name != "replica" {
				return true
			}
			off := "?"
			for _, e := range cl.Elts {
				if kv, ok := e.(*ast.KeyValueExpr); ok && nows(f.src(kv.Key)) == "offset" {
					off = nows(f.src(kv.Value))
				}
			}
			out = append(out, name+":"+off)
			return true
		})
	}
	sort.Strings(out)
	return out
}

// offsetAssignSites lists functions of partition.go that assign to a `.offset` field
// (the max-only update must be the only one).
func offsetAssignSites() []string {
	f := load(partitionGo)
	var out []string
	for _, d := range f.f.Decls {
		fd, ok := d.(*ast.FuncDecl)
		if !ok || fd.Body == nil {
			continue
		}
		name := fd.Name.Name
		if fd.Recv != nil && len(fd.Recv.List) > 0 {
			t := fd.Recv.List[0].Type
			if s, ok := t.(*ast.StarExpr); ok {
				t = s.X
			}
			if id, ok := t.(*ast.Ident); ok {
				name = id.Name + "." + name
			}
		}
		ast.Inspect(fd.Body, func(n ast.Node) bool {
			as, ok := n.(*ast.AssignStmt)
			if !ok || as.Tok != token.ASSIGN {
				return true
			}
			for _, lhs := range as.Lhs {
				if se, ok := lhs.(*ast.SelectorExpr); ok && se.Sel.Name == "offset" {
					out = append(out, name)
				}
			}
			return true
		})
	}
	sort.Strings(out)
	return out
}

func genProtocol() *leanFile {
	l := newLean("Protocol", "/repo/server/partition.go, replicator.go, metadata.go, commitlog/commitlog.go", "Liftbridge.BExp")

	// ---- leader's view of replica offsets: max-only, reset sites ----
	l.cmp("updateOffsetCmp", partitionGo, "replica.updateLatestOffset", "offset ? r.offset", 0, "gt")
	sites := replicaLiteralSites()
	facts["Protocol.replicaLiteralSites"] = sites
	l.def("replicaLiteralSites", "List String", leanStrList(sites), "functions of partition.go creating a replica{offset: …} (function:offset text)")
	as := offsetAssignSites()
	facts["Protocol.offsetAssignSites"] = as
	l.def("offsetAssignSites", "List String", leanStrList(as), "functions of partition.go assigning to a .offset field")

	// does becomeLeader forget the replica offsets of earlier terms? = inside a `range p.isr` loop of
	// becomeLeader, a call to a replica method that assigns .offset other than the max-only update
	resets := false
	{
		setters := map[string]bool{}
		for _, a := range as {
			if strings.HasPrefix(a, "replica.") && a != "replica.updateLatestOffset" {
				setters[strings.TrimPrefix(a, "replica.")] = true
			}
		}
		f := load(partitionGo)
		if fd := f.fn("partition.becomeLeader"); fd != nil && fd.Body != nil {
			ast.Inspect(fd.Body, func(n ast.Node) bool {
				rs, ok := n.(*ast.RangeStmt)
				if !ok || nows(f.src(rs.X)) != "p.isr" {
					return true
				}
				ast.Inspect(rs.Body, func(m ast.Node) bool {
					if ce, ok := m.(*ast.CallExpr); ok {
						if se, ok := ce.Fun.(*ast.SelectorExpr); ok && setters[se.Sel.Name] {
							resets = true
						}
					}
					return true
				})
				return true
			})
		} else {
			lost = append(lost, partitionGo+":partition.becomeLeader (function not found)")
		}
	}
	facts["Protocol.becomeLeaderResetsOffsets"] = resets
	l.def("becomeLeaderResetsOffsets", "Bool", fmt.Sprint(resets), "becomeLeader resets the recorded offset of every ISR member (range p.isr { r.<unconditional setter>(…) })")

	// ---- commit rule ----
	l.cmp("commitMinISRCmp", partitionGo, "partition.commitLoop", "isrSize ? p.minISR", 0, "lt")
	l.cmp("commitTakeCmp", partitionGo, "partition.commitLoop", "pending.(*client.Ack).Offset ? minLatest", 0, "le")
	l.cmp("commitAckPolicyCmp", partitionGo, "partition.commitLoop", "ack.AckPolicy ? client.AckPolicy_ALL", 0, "eq")
	l.argText("commitSetsHW", partitionGo, "partition.commitLoop", "p.log.SetHighWatermark", 0, "minLatest")

	// ---- publish path ----
	l.cmp("tooLargeCmp", partitionGo, "partition.messageProcessingLoop", "int64(len(msg.Data)) ? p.srv.config.Clustering.ReplicationMaxBytes", 0, "gt")
	l.cmp("fastPathRFCmp", partitionGo, "partition.messageProcessingLoop", "p.ReplicationFactor ? 1", 0, "eq")
	l.cmp("fastPathAllCmp", partitionGo, "partition.messageProcessingLoop", "msg.AckPolicy ? client.AckPolicy_ALL", 0, "eq")
	l.cmp("pendingLeaderCmp", partitionGo, "partition.processPendingMessage", "msg.AckPolicy ? client.AckPolicy_LEADER", 0, "eq")
	l.cmp("pendingRFCmp", partitionGo, "partition.processPendingMessage", "p.ReplicationFactor ? 1", 0, "eq")
	l.cmp("pendingAllCmp", partitionGo, "partition.processPendingMessage", "msg.AckPolicy ? client.AckPolicy_ALL", 0, "ne")
	l.argText("fastPathSetsHW", partitionGo, "partition.messageProcessingLoop", "p.log.SetHighWatermark", 0, "offsets[len(offsets)-1]")

	// ---- follower side ----
	l.cmp("replRespEpochCmp", partitionGo, "partition.handleReplicationResponse", "p.LeaderEpoch ? leaderEpoch", 0, "ne")
	l.cmp("replRespOffsetCmp", partitionGo, "partition.handleReplicationResponse", "offset ? p.log.NewestOffset()+1", 0, "lt")
	hwPos := callPositions(partitionGo, "partition.handleReplicationResponse", "p.log.SetHighWatermark")
	apPos := callPositions(partitionGo, "partition.handleReplicationResponse", "p.log.AppendMessageSet")
	hwFirst := len(hwPos) >= 1 && len(apPos) == 1 && hwPos[0] < apPos[0]
	// since fix ba85aea: SetHighWatermark(minInt64(hw, NewestOffset())) before AND after the append
	capped := len(hwPos) == 2 && len(apPos) == 1 && hwPos[0] < apPos[0] && apPos[0] < hwPos[1]
	if capped {
		f := load(partitionGo)
		if fd := f.fn("partition.handleReplicationResponse"); fd != nil {
			n := 0
			ast.Inspect(fd.Body, func(nd ast.Node) bool {
				if ce, ok := nd.(*ast.CallExpr); ok && nows(f.src(ce.Fun)) == "p.log.SetHighWatermark" && len(ce.Args) == 1 &&
					nows(f.src(ce.Args[0])) == "minInt64(hw,p.log.NewestOffset())" {
					n++
				}
				return true
			})
			capped = n == 2
		}
	}
	if !(len(hwPos) == 1 && len(apPos) == 1) && !capped {
		lost = append(lost, partitionGo+":partition.handleReplicationResponse: SetHighWatermark/AppendMessageSet calls")
	}
	l.def("hwBeforeAppend", "Bool", fmt.Sprint(hwFirst), "handleReplicationResponse adopts the leader's HW before appending the data")
	l.def("followerHwCapped", "Bool", fmt.Sprint(capped), "the adopted HW is capped at the follower's newest offset, before and after the append")
	l.argText("fetchOffsetArg", partitionGo, "partition.sendReplicationRequest", "proto.MarshalReplicationRequest", 0, "")
	l.addend("truncAddend", partitionGo, "partition.truncateUncommitted", "p.log.Truncate", 0, "lastOffset", 1)
	l.argText("reconcileEpochArg", partitionGo, "partition.truncateUncommitted", "p.sendLeaderOffsetRequest", 0, "leaderEpoch")
	recEpoch := false
	{
		f := load(partitionGo)
		if fd := f.fn("partition.truncateUncommitted"); fd != nil && fd.Body != nil {
			ast.Inspect(fd.Body, func(n ast.Node) bool {
				if vs, ok := n.(*ast.ValueSpec); ok {
					for i, id := range vs.Names {
						if id.Name == "leaderEpoch" && i < len(vs.Values) && nows(f.src(vs.Values[i])) == "p.log.LastLeaderEpoch()" {
							recEpoch = true
						}
					}
				}
				return true
			})
		}
		if !recEpoch {
			lost = append(lost, partitionGo+":partition.truncateUncommitted: leaderEpoch = p.log.LastLeaderEpoch()")
		}
	}
	l.def("reconcileUsesLastLeaderEpoch", "Bool", fmt.Sprint(recEpoch), "leaderEpoch = p.log.LastLeaderEpoch()")
	l.cmp("truncHWEqCmp", partitionGo, "partition.truncateToHW", "newestOffset ? hw", 0, "eq")
	l.addend("truncHWAddend", partitionGo, "partition.truncateToHW", "p.log.Truncate", 0, "hw", 1)
	fb := len(callPositions(partitionGo, "partition.truncateUncommitted", "p.truncateToHW")) == 1
	if !fb {
		lost = append(lost, partitionGo+":partition.truncateUncommitted: return p.truncateToHW()")
	}
	l.def("hwFallback", "Bool", fmt.Sprint(fb), "truncateUncommitted falls back to truncateToHW when the leader-offset RPC fails")

	// ---- leader side ----
	l.cmp("replReqEpochCmp", partitionGo, "partition.handleReplicationRequest", "req.LeaderEpoch ? p.LeaderEpoch", 0, "ne")
	l.cmp("replReqEpochZeroCmp", partitionGo, "partition.handleReplicationRequest", "req.LeaderEpoch ? 0", 0, "ne")
	l.argText("offsetAnswerArg", partitionGo, "partition.handleLeaderOffsetRequest", "p.log.LastOffsetForLeaderEpoch", 0, "req.LeaderEpoch")
	l.cmp("caughtUpCmp", replicatorGo, "replicator.start", "req.Offset ? latest", 0, "ge")
	l.argText("serveUpdatesOffsetArg", replicatorGo, "replicator.start", "r.partition.updateISRLatestOffset", 1, "req.Offset")
	l.addend("serveReadAddend", replicatorGo, "replicator.start", "r.partition.log.NewReader", 0, "req.Offset", 1)
	l.cmp("tickSeenCmp", replicatorGo, "replicator.tick", "lastSeenElapsed ? r.maxLagTime", 0, "gt")
	l.cmp("tickCaughtUpCmp", replicatorGo, "replicator.tick", "lastCaughtUpElapsed ? r.maxLagTime", 0, "gt")

	// ---- role changes ----
	l.cmp("setLeaderEpochCmp", partitionGo, "partition.SetLeader", "epoch ? p.LeaderEpoch", 0, "lt")
	skip := hasCond(partitionGo, "partition.becomeLeader", "!p.recovered")
	l.def("recoveredSkipsNewEpoch", "Bool", fmt.Sprint(skip), "becomeLeader: if !p.recovered { p.log.NewLeaderEpoch(epoch) }")
	// the leader's own offset: rep.updateLatestOffset(newest) before, rep.resetLatestOffset(newest) after the repair
	if len(callArgs(partitionGo, "partition.becomeLeader", "rep.updateLatestOffset")) == 1 {
		l.argText("becomeLeaderOwnOffsetArg", partitionGo, "partition.becomeLeader", "rep.updateLatestOffset", 0, "p.log.NewestOffset()")
	} else {
		l.argText("becomeLeaderOwnOffsetArg", partitionGo, "partition.becomeLeader", "rep.resetLatestOffset", 0, "p.log.NewestOffset()")
	}

	// ---- the two epoch-boundary conventions of the commit log ----
	l.argText("electedAssignEpochArg", commitlogGo, "commitLog.NewLeaderEpoch", "l.leaderEpochCache.Assign", 0, "epoch")
	l.addend("electedAssignAddend", commitlogGo, "commitLog.NewLeaderEpoch", "l.leaderEpochCache.Assign", 1, "l.NewestOffset()", 0)
	l.argText("replicatedAssignEpochArg", commitlogGo, "commitLog.append", "l.leaderEpochCache.Assign", 0, "entry.LeaderEpoch")
	l.argText("replicatedAssignOffsetArg", commitlogGo, "commitLog.append", "l.leaderEpochCache.Assign", 1, "entry.Offset")

	// ---- controller ----
	l.cmp("electISRCmp", metadataGo, "metadataAPI.electNewPartitionLeader", "len(isr) ? 1", 0, "le")
	l.cmp("shrinkLeaderCmp", metadataGo, "metadataAPI.ShrinkISR", "req.Leader ? leader", 0, "ne")
	l.cmp("shrinkEpochCmp", metadataGo, "metadataAPI.ShrinkISR", "req.LeaderEpoch ? epoch", 0, "ne")
	l.cmp("expandLeaderCmp", metadataGo, "metadataAPI.ExpandISR", "req.Leader ? leader", 0, "ne")
	l.cmp("expandEpochCmp", metadataGo, "metadataAPI.ExpandISR", "req.LeaderEpoch ? epoch", 0, "ne")
	l.cmp("applyIdempotentCmp", metadataGo, "metadataAPI.ChangeLeader", "partition.GetEpoch() ? epoch", 0, "ge")

	// ---- ISR membership rule, timers, fetch fields, term fence (gen_protocol_isr.go) ----
	genProtocolISR(l)
	return l
}
