package main

func genRetention() *leanFile {
	l := newLean("Retention", "/repo/"+deleteGo)
	l.cmp("ageCmp", deleteGo, "deleteCleaner.applyAgeLimit", "seg.lastWriteTime ? ttl", 0, "lt")
	l.cmp("msgsCmp", deleteGo, "deleteCleaner.applyMessagesLimit", "totalMessages ? c.Retention.Messages", 0, "gt")
	l.cmp("bytesCmp", deleteGo, "deleteCleaner.applyBytesLimit", "totalBytes ? c.Retention.Bytes", 0, "gt")
	l.cmp("ageOnCmp", deleteGo, "deleteCleaner.Clean", "c.Retention.Age ? 0", 0, "gt")
	l.cmp("msgsOnCmp", deleteGo, "deleteCleaner.Clean", "c.Retention.Messages ? 0", 0, "gt")
	l.cmp("bytesOnCmp", deleteGo, "deleteCleaner.Clean", "c.Retention.Bytes ? 0", 0, "gt")
	// is the age limit applied a second time, after the byte limit?
	age := callPositions(deleteGo, "deleteCleaner.Clean", "c.applyAgeLimit")
	byt := callPositions(deleteGo, "deleteCleaner.Clean", "c.applyBytesLimit")
	msg := callPositions(deleteGo, "deleteCleaner.Clean", "c.applyMessagesLimit")
	second := "false"
	if len(age) == 2 && len(byt) == 1 && len(msg) == 1 && age[0] < msg[0] && msg[0] < byt[0] && byt[0] < age[1] {
		second = "true"
	} else if !(len(age) == 1 && len(byt) == 1 && len(msg) == 1 && age[0] < msg[0] && msg[0] < byt[0]) {
		lost = append(lost, deleteGo+":deleteCleaner.Clean stage order (age, messages, bytes[, age])")
	}
	facts["Retention.ageSecondPass"] = second
	l.def("ageSecondPass", "Bool", second, "Clean applies: age, messages, bytes, then age again")
	return l
}
