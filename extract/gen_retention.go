package main

func genRetention() *leanFile {
	l := newLean("Retention", "/repo/"+deleteGo)
	l.cmp("ageCmp", deleteGo, "deleteCleaner.applyAgeLimit", "seg.lastWriteTime ? ttl", 0, "lt")
	l.cmp("msgsCmp", deleteGo, "deleteCleaner.applyMessagesLimit", "totalMessages ? c.Retention.Messages", 0, "gt")
	l.cmp("bytesCmp", deleteGo, "deleteCleaner.applyBytesLimit", "totalBytes ? c.Retention.Bytes", 0, "gt")
	l.cmp("ageOnCmp", deleteGo, "deleteCleaner.Clean", "c.Retention.Age ? 0", 0, "gt")
	l.cmp("msgsOnCmp", deleteGo, "deleteCleaner.Clean", "c.Retention.Messages ? 0", 0, "gt")
	l.cmp("bytesOnCmp", deleteGo, "deleteCleaner.Clean", "c.Retention.Bytes ? 0", 0, "gt")
	return l
}
