package main

import (
	"strconv"
	"fmt"
	"go/ast"
	"go/token"
	"strings"
)

const (
	cursorsGo = "server/cursors.go"
	streamGo  = "server/stream.go"
)

// litFields returns, for the first composite literal of the given type text inside fnName,
// the "Key:Value" texts of its fields (whitespace-free).
func litFields(rel, fnName, typ string) (map[string]string, bool) {
	f := load(rel)
	fd := f.fn(fnName)
	if fd == nil || fd.Body == nil {
		return nil, false
	}
	var out map[string]string
	ast.Inspect(fd.Body, func(n ast.Node) bool {
		cl, ok := n.(*ast.CompositeLit)
		if !ok || out != nil || cl.Type == nil || nows(f.src(cl.Type)) != nows(typ) {
			return true
		}
		out = map[string]string{}
		for _, e := range cl.Elts {
			if kv, ok := e.(*ast.KeyValueExpr); ok {
				out[nows(f.src(kv.Key))] = nows(f.src(kv.Value))
			}
		}
		return true
	})
	return out, out != nil
}

// firstPos returns the position of the first node inside fnName whose source text (whitespace
// free) equals text; 0 if there is none. Only calls, inc/dec and assignment statements, binary
// expressions and defer statements are considered.
func firstPos(rel, fnName, text string) token.Pos {
	f := load(rel)
	fd := f.fn(fnName)
	if fd == nil || fd.Body == nil {
		return 0
	}
	var pos token.Pos
	ast.Inspect(fd.Body, func(n ast.Node) bool {
		if n == nil || pos != 0 {
			return false
		}
		switch n.(type) {
		case *ast.CallExpr, *ast.IncDecStmt, *ast.AssignStmt, *ast.BinaryExpr, *ast.DeferStmt:
			if nows(f.src(n)) == nows(text) {
				pos = n.Pos()
				return false
			}
		}
		return true
	})
	return pos
}

// callPos returns the position of the first call of callee (function text) inside fnName.
func callPos(rel, fnName, callee string) token.Pos {
	p := callPositions(rel, fnName, callee)
	if len(p) == 0 {
		return 0
	}
	return token.Pos(p[0])
}

// enclosingIfConds returns the conditions of the if statements that enclose the first call of
// callee inside fnName (innermost last) and whether the call was found.
func enclosingIfConds(rel, fnName, callee string) ([]string, bool) {
	f := load(rel)
	fd := f.fn(fnName)
	if fd == nil || fd.Body == nil {
		return nil, false
	}
	var (
		stack []ast.Node
		conds []string
		found bool
	)
	ast.Inspect(fd.Body, func(n ast.Node) bool {
		if found {
			return false
		}
		if n == nil {
			stack = stack[:len(stack)-1]
			return false
		}
		stack = append(stack, n)
		if ce, ok := n.(*ast.CallExpr); ok && nows(f.src(ce.Fun)) == nows(callee) {
			found = true
			for _, s := range stack {
				if is, ok := s.(*ast.IfStmt); ok && is.Body.Pos() <= ce.Pos() && ce.End() <= is.Body.End() {
					conds = append(conds, nows(f.src(is.Cond)))
				}
			}
			return false
		}
		return true
	})
	return conds, found
}

func genCursors() *leanFile {
	l := newLean("Cursors", "/repo/server/cursors.go, /repo/server/partition.go, /repo/server/stream.go")
	l.nat("cacheSize", cursorsGo, "cursorCacheSize", 512)
	scan := "cursorManager.getLatestCursorOffset"
	l.cmp("hwEmptyCmp", cursorsGo, scan, "hw ? -1", 0, "eq")
	l.cmp("oldestEmptyCmp", cursorsGo, scan, "oldest ? -1", 0, "eq")
	l.cmp("oldestExitCmp", cursorsGo, scan, "msg.Offset ? oldest", 0, "eq")
	l.cmp("endCodeCmp", cursorsGo, scan, "err.Code() ? codes.ResourceExhausted", 0, "eq")

	lose := func(what string) { lost = append(lost, cursorsGo+":"+what) }

	// shapes the model has no alternative for: a change is a lost decision point
	if fs, ok := litFields(cursorsGo, scan, "client.SubscribeRequest"); !ok ||
		fs["StartPosition"] != "client.StartPosition_LATEST" || fs["Reverse"] != "true" || fs["Resume"] != "true" ||
		fs["StopPosition"] != "" || fs["Stream"] != "cursorsStream" {
		lose(scan + ": SubscribeRequest{Stream: cursorsStream, StartPosition: LATEST, Resume: true, Reverse: true}")
	}
	if a, b := callPos(cursorsGo, scan, "bytes.Equal"), firstPos(cursorsGo, scan, "msg.Offset == oldest"); a == 0 || b == 0 || a > b {
		if b != 0 { // the comparison itself is reported by the guard above when it is missing
			lose(scan + ": bytes.Equal(msg.Key, cursorKey) is tested before msg.Offset == oldest")
		}
	}
	if a, b, c := callPos(cursorsGo, scan, "partition.log.HighWatermark"), callPos(cursorsGo, scan, "partition.log.OldestOffset"),
		callPos(cursorsGo, scan, "c.api.SubscribeInternal"); a == 0 || b == 0 || c == 0 || !(a < b && b < c) {
		lose(scan + ": HighWatermark(), OldestOffset() are read (in this order) before SubscribeInternal")
	}
	set := "cursorManager.SetCursor"
	lk, ul, pb, ad := callPos(cursorsGo, set, "c.mu.Lock"), firstPos(cursorsGo, set, "defer c.mu.Unlock()"),
		callPos(cursorsGo, set, "c.api.Publish"), callPos(cursorsGo, set, "c.cache.Add")
	if lk == 0 || ul == 0 || pb == 0 || ad == 0 || !(lk < pb && ul < pb && pb < ad) {
		lose(set + ": c.mu.Lock(); defer c.mu.Unlock(); c.api.Publish(...); c.cache.Add(...)")
	}
	if fs, ok := litFields(cursorsGo, set, "client.PublishRequest"); !ok || fs["AckPolicy"] != "client.AckPolicy_ALL" ||
		fs["Key"] != "cursorKey" || fs["Stream"] != "cursorsStream" {
		lose(set + ": PublishRequest{Key: cursorKey, Stream: cursorsStream, AckPolicy: client.AckPolicy_ALL}")
	}
	if fs, ok := litFields(cursorsGo, "cursorManager.Initialize", "proto.StreamConfig"); !ok ||
		fs["CompactEnabled"] != nows("&proto.NullableBool{Value: true}") {
		lose("cursorManager.Initialize: StreamConfig{CompactEnabled: true}")
	}
	if txt := "fmt.Sprintf(\"%s,%s,%d\", cursorID, streamName, partitionID)"; firstPos(cursorsGo, "cursorManager.getCursorKey", txt) == 0 {
		lose("cursorManager.getCursorKey: " + txt)
	}

	// the end of the reverse scan: a CANCELLED request is told apart from "beginning of the log reached" by the request context,
	// first thing in the error branch (the reverse reader reports a cancelled context with the same status code as the end of the log)
	cancelByCtx := false
	{
		ss := stmtTexts(cursorsGo, scan)
		if i := indexOfStmt(ss, "case err := <-errC:"); i >= 0 {
			for j := i + 1; j < len(ss) && j <= i+2; j++ {
				if ss[j] == nows("err := <-errC") {
					continue
				}
				cancelByCtx = ss[j] == nows("if ctx.Err() != nil { return 0, ctx.Err() }")
				break
			}
		} else {
			lose(scan + ": case err := <-errC")
		}
	}
	l.def("cancelGuardByCtx", "Bool", fmt.Sprint(cancelByCtx), "getLatestCursorOffset: the error branch of the scan first tests ctx.Err() != nil and fails with it (a cancelled scan is not 'cursor absent')")

	// cache purge on becoming leader of a cursors partition
	purge := callPos(cursorsGo, "cursorManager.BecomePartitionLeader", "c.cache.Purge") != 0
	if conds, ok := enclosingIfConds(partitionGo, "partition.becomeLeader", "p.srv.cursors.BecomePartitionLeader"); !ok ||
		len(conds) != 1 || conds[0] != nows("p.Stream == cursorsStream") {
		purge = false
	}
	l.def("purgeOnLeader", "Bool", fmt.Sprint(purge), "BecomePartitionLeader purges the cache and partition.becomeLeader calls it for the cursors stream")

	// the miss path of GetCursor: is the cache.Add guarded by "no SetCursor since the lookup"?
	get := "cursorManager.GetCursor"
	guarded := false
	conds, found := enclosingIfConds(cursorsGo, get, "c.cache.Add")
	switch {
	case !found:
		lose(get + ": c.cache.Add(string(cursorKey), offset)")
	case len(conds) == 0:
		guarded = false
	case len(conds) == 1 && conds[0] == nows("c.sets == sets"):
		rd, rl, lookup, scanCall := firstPos(cursorsGo, get, "sets := c.sets"), callPos(cursorsGo, get, "c.mu.RLock"),
			callPos(cursorsGo, get, "c.cache.Get"), callPos(cursorsGo, get, "c.getLatestCursorOffset")
		inc := firstPos(cursorsGo, set, "c.sets++")
		if rd != 0 && rl != 0 && rl < rd && rd < lookup && lookup < scanCall && inc != 0 && lk < inc && inc < pb {
			guarded = true
		} else {
			lose(get + ": sets := c.sets under c.mu.RLock() before the cache lookup / c.sets++ under c.mu.Lock() before the publish")
		}
	default:
		lose(get + ": unrecognised guard around c.cache.Add: " + strings.Join(conds, " && "))
	}
	l.def("missAddGuarded", "Bool", fmt.Sprint(guarded), "GetCursor caches the scanned offset only if no SetCursor ran since the cache lookup (if c.sets == sets)")

	// is the cursors stream exempt from the server-wide retention limits?
	off := true
	for _, fld := range []string{"RetentionMaxBytes", "RetentionMaxMessages", "RetentionMaxAge"} {
		txt := "s.config." + fld + " = &proto.NullableInt64{Value: 0}"
		p := firstPos(streamGo, "applyReservedStreamOverrides", txt)
		if p == 0 {
			off = false
			continue
		}
	}
	if off {
		// all three assignments must sit inside `if s.name == cursorsStream`
		f := load(streamGo)
		fd := f.fn("applyReservedStreamOverrides")
		inside := 0
		ast.Inspect(fd.Body, func(n ast.Node) bool {
			if is, ok := n.(*ast.IfStmt); ok && nows(f.src(is.Cond)) == nows("s.name == cursorsStream") {
				for _, st := range is.Body.List {
					if as, ok := st.(*ast.AssignStmt); ok && strings.HasPrefix(nows(f.src(as)), "s.config.Retention") &&
						strings.HasSuffix(nows(f.src(as)), nows("&proto.NullableInt64{Value: 0}")) {
						inside++
					}
				}
			}
			return true
		})
		if inside != 3 {
			off = false
		}
	}
	if load(streamGo).fn("applyReservedStreamOverrides") == nil {
		lost = append(lost, streamGo+":applyReservedStreamOverrides (function not found)")
	}
	l.def("retentionOff", "Bool", fmt.Sprint(off), "the cursors stream is exempt from the server-wide retention limits")
	// the key under which a cursor is stored: the format string of getCursorKey and the order of its arguments
	keyFmt := ""
	if fd := load("server/cursors.go").fn("cursorManager.getCursorKey"); fd != nil && fd.Body != nil {
		f := load("server/cursors.go")
		ast.Inspect(fd.Body, func(n ast.Node) bool {
			if c, ok := n.(*ast.CallExpr); ok && nows(f.src(c.Fun)) == "fmt.Sprintf" && len(c.Args) == 4 {
				if bl, ok := c.Args[0].(*ast.BasicLit); ok {
					if v, err := strconv.Unquote(bl.Value); err == nil &&
						nows(f.src(c.Args[1])) == "cursorID" && nows(f.src(c.Args[2])) == "streamName" && nows(f.src(c.Args[3])) == "partitionID" {
						keyFmt = v
					}
				}
			}
			return true
		})
	}
	if keyFmt == "" {
		lost = append(lost, "server/cursors.go:getCursorKey (fmt.Sprintf(<format>, cursorID, streamName, partitionID) not found)")
	}
	l.def("keyFormat", "String", strconv.Quote(keyFmt), "getCursorKey: fmt.Sprintf(<this>, cursorID, streamName, partitionID)")
	return l
}
