package main

// C19 — regenerated model parts for "telemetry can be switched off and never carries
// user data". Everything here is program SHAPE read from the go/ast:
//
//   payloadKeys      JSON tags of TelemetryPayload, recursively (dotted paths)
//   sources          what collectPayload (and helpers of the same file it calls) reads
//   requestSources   what sendTelemetry reads besides the payload (URL, headers, client)
//   idSources        what loadOrCreateInstanceID / generateUUID read (origin of instance_id)
//   httpEntryPoints  exported functions/methods of the package from which an HTTP send is reachable
//   config facts     default, config key, viper env prefix / key replacer / AutomaticEnv and
//                    whether they are in effect on the two paths of NewConfig (with and
//                    without a config file), the shape of parseTelemetryConfig
//   server facts     the guard around telemetry.New in Server.Start, the value given to
//                    telemetry.Config.Enabled, the nil guard around Start(), the version
//                    argument, the number of creation sites
//   path facts       gen_telemetry_path.go: DefaultConfig(), the rewrites telemetry.New applies
//                    to its *Config parameter, assignments to `config` fields, the
//                    telemetry.Config literal of Server.Start, the paths of loadOrCreateInstanceID
//
// A shape that is neither the one the model was written against nor a recognised variant
// is appended to `lost` (a broken tie), never guessed.

import (
	"fmt"
	"go/ast"
	"go/token"
	"os"
	"path/filepath"
	"reflect"
	"sort"
	"strconv"
	"strings"
)

const (
	telemetryGo = "server/telemetry/telemetry.go"
	configGo    = "server/config.go"
	serverGo    = "server/server.go"
)

var goUniverse = map[string]bool{
	"nil": true, "true": true, "false": true, "iota": true, "_": true,
	"append": true, "cap": true, "clear": true, "close": true, "complex": true, "copy": true, "delete": true,
	"imag": true, "len": true, "make": true, "max": true, "min": true, "new": true, "panic": true, "print": true,
	"println": true, "real": true, "recover": true,
	"any": true, "bool": true, "byte": true, "comparable": true, "complex64": true, "complex128": true, "error": true,
	"float32": true, "float64": true, "int": true, "int8": true, "int16": true, "int32": true, "int64": true,
	"rune": true, "string": true, "uint": true, "uint8": true, "uint16": true, "uint32": true, "uint64": true, "uintptr": true,
}

func leanStr(s string) string {
	var b strings.Builder
	b.WriteByte('"')
	for _, r := range s {
		switch {
		case r == '"' || r == '\\':
			b.WriteByte('\\')
			b.WriteRune(r)
		case r < 0x20 || r > 0x7e:
			fmt.Fprintf(&b, "\\u{%x}", r)
		default:
			b.WriteRune(r)
		}
	}
	b.WriteByte('"')
	return b.String()
}

func leanStrList(xs []string) string {
	q := make([]string, len(xs))
	for i, x := range xs {
		q[i] = leanStr(x)
	}
	return "[" + strings.Join(q, ", ") + "]"
}

func leanBool(b bool) string {
	if b {
		return "true"
	}
	return "false"
}

// ---------- payload keys ----------

func (f *file) structType(name string) *ast.StructType {
	for _, d := range f.f.Decls {
		gd, ok := d.(*ast.GenDecl)
		if !ok || gd.Tok != token.TYPE {
			continue
		}
		for _, s := range gd.Specs {
			ts := s.(*ast.TypeSpec)
			if ts.Name.Name == name {
				if st, ok := ts.Type.(*ast.StructType); ok {
					return st
				}
			}
		}
	}
	return nil
}

// jsonKeys lists the JSON object keys encoding/json produces for the struct, recursively
// (dotted paths). Anything whose encoding is not a fixed key set (maps, interfaces,
// embedded fields, types of other packages other than the basic ones) is reported lost:
// such a field could carry arbitrary keys.
func jsonKeys(f *file, st *ast.StructType, prefix string, depth int, where string) []string {
	var out []string
	if depth > 8 {
		lost = append(lost, where+" (struct nesting too deep)")
		return out
	}
	for _, fld := range st.Fields.List {
		if len(fld.Names) == 0 {
			lost = append(lost, where+" (embedded field "+f.src(fld.Type)+": not modelled)")
			continue
		}
		for _, nm := range fld.Names {
			if !nm.IsExported() {
				continue
			}
			key := nm.Name
			if fld.Tag != nil {
				tag, _ := strconv.Unquote(fld.Tag.Value)
				if js, ok := reflect.StructTag(tag).Lookup("json"); ok {
					name := strings.Split(js, ",")[0]
					if name == "-" && !strings.Contains(js, ",") {
						continue
					}
					if name != "" {
						key = name
					}
				}
			}
			out = append(out, prefix+key)
			t := fld.Type
			for {
				switch x := t.(type) {
				case *ast.StarExpr:
					t = x.X
					continue
				case *ast.ArrayType:
					t = x.Elt
					continue
				case *ast.ParenExpr:
					t = x.X
					continue
				}
				break
			}
			switch x := t.(type) {
			case *ast.Ident:
				if goUniverse[x.Name] && x.Name != "any" && x.Name != "error" {
					break // basic type: a JSON scalar
				}
				if sub := f.structType(x.Name); sub != nil {
					out = append(out, jsonKeys(f, sub, prefix+key+".", depth+1, where)...)
				} else {
					lost = append(lost, where+" (field "+prefix+key+" of type "+x.Name+": key set not fixed)")
				}
			case *ast.StructType:
				out = append(out, jsonKeys(f, x, prefix+key+".", depth+1, where)...)
			default:
				lost = append(lost, where+" (field "+prefix+key+" of type "+f.src(t)+": key set not fixed)")
			}
		}
	}
	return out
}

// ---------- reads of a function ----------

type readCtx struct {
	f       *file
	imports map[string]string // local name -> import path
	seen    map[string]bool // functions already expanded
	out     map[string]bool
}

func newReadCtx(f *file) *readCtx {
	c := &readCtx{f: f, imports: map[string]string{}, seen: map[string]bool{}, out: map[string]bool{}}
	for _, im := range f.f.Imports {
		p, _ := strconv.Unquote(im.Path.Value)
		name := p[strings.LastIndex(p, "/")+1:]
		if im.Name != nil {
			name = im.Name.Name
		}
		c.imports[name] = p
	}
	return c
}

func recvOf(fd *ast.FuncDecl) (name, typ string) {
	if fd.Recv == nil || len(fd.Recv.List) == 0 {
		return "", ""
	}
	t := fd.Recv.List[0].Type
	if s, ok := t.(*ast.StarExpr); ok {
		t = s.X
	}
	if id, ok := t.(*ast.Ident); ok {
		typ = id.Name
	}
	if len(fd.Recv.List[0].Names) > 0 {
		name = fd.Recv.List[0].Names[0].Name
	}
	return
}

func qualName(fd *ast.FuncDecl) string {
	if _, t := recvOf(fd); t != "" {
		return t + "." + fd.Name.Name
	}
	return fd.Name.Name
}

// reads records every identifier/selector the function reads that is not a local:
// `<recv>.<field chain>`, `<import>.<Name>`, `pkg:<package-level identifier>`; calls to
// functions and methods declared in the same file are expanded (their reads are added).
func (c *readCtx) reads(fd *ast.FuncDecl) {
	q := qualName(fd)
	if c.seen[q] || fd.Body == nil {
		return
	}
	c.seen[q] = true
	recvName, recvType := recvOf(fd)
	locals := map[string]bool{}
	addFields := func(fl *ast.FieldList) {
		if fl == nil {
			return
		}
		for _, p := range fl.List {
			for _, n := range p.Names {
				locals[n.Name] = true
			}
		}
	}
	addFields(fd.Type.Params)
	addFields(fd.Type.Results)
	ast.Inspect(fd.Body, func(n ast.Node) bool {
		switch x := n.(type) {
		case *ast.AssignStmt:
			if x.Tok == token.DEFINE {
				for _, l := range x.Lhs {
					if id, ok := l.(*ast.Ident); ok {
						locals[id.Name] = true
					}
				}
			}
		case *ast.ValueSpec:
			for _, id := range x.Names {
				locals[id.Name] = true
			}
		case *ast.RangeStmt:
			if x.Tok == token.DEFINE {
				for _, e := range []ast.Expr{x.Key, x.Value} {
					if id, ok := e.(*ast.Ident); ok {
						locals[id.Name] = true
					}
				}
			}
		case *ast.FuncLit:
			addFields(x.Type.Params)
			addFields(x.Type.Results)
		case *ast.LabeledStmt:
			locals[x.Label.Name] = true
		}
		return true
	})

	var expr func(e ast.Expr)
	var stmts func(n ast.Node)
	expr = func(e ast.Expr) {
		switch x := e.(type) {
		case nil:
		case *ast.BasicLit:
		case *ast.Ident:
			switch {
			case x.Name == recvName && recvName != "":
				c.out[recvName+" (whole receiver)"] = true
			case locals[x.Name], goUniverse[x.Name]:
			default:
				if h := c.f.fn(x.Name); h != nil {
					c.reads(h)
				} else if c.f.structType(x.Name) == nil {
					c.out["pkg:"+x.Name] = true
				}
			}
		case *ast.SelectorExpr:
			// find the root of the selector chain
			chain := []string{x.Sel.Name}
			root := x.X
			for {
				if s, ok := root.(*ast.SelectorExpr); ok {
					chain = append([]string{s.Sel.Name}, chain...)
					root = s.X
					continue
				}
				if p, ok := root.(*ast.ParenExpr); ok {
					root = p.X
					continue
				}
				break
			}
			if id, ok := root.(*ast.Ident); ok {
				switch {
				case id.Name == recvName && recvName != "":
					if len(chain) == 1 {
						if h := c.f.fn(recvType + "." + chain[0]); h != nil {
							c.reads(h) // method of the same type declared in this file
							return
						}
					}
					c.out[recvName+"."+strings.Join(chain, ".")] = true
				case locals[id.Name]:
				case c.imports[id.Name] != "":
					c.out[c.imports[id.Name]+"."+chain[0]] = true
				default:
					c.out["pkg:"+id.Name+"."+strings.Join(chain, ".")] = true
				}
				return
			}
			expr(root)
		case *ast.CallExpr:
			expr(x.Fun)
			for _, a := range x.Args {
				expr(a)
			}
		case *ast.CompositeLit:
			for _, el := range x.Elts {
				if kv, ok := el.(*ast.KeyValueExpr); ok {
					if _, isIdent := kv.Key.(*ast.Ident); !isIdent {
						expr(kv.Key)
					}
					expr(kv.Value)
				} else {
					expr(el)
				}
			}
		case *ast.KeyValueExpr:
			expr(x.Value)
		case *ast.UnaryExpr:
			expr(x.X)
		case *ast.BinaryExpr:
			expr(x.X)
			expr(x.Y)
		case *ast.ParenExpr:
			expr(x.X)
		case *ast.StarExpr:
			expr(x.X)
		case *ast.IndexExpr:
			expr(x.X)
			expr(x.Index)
		case *ast.SliceExpr:
			expr(x.X)
			expr(x.Low)
			expr(x.High)
			expr(x.Max)
		case *ast.TypeAssertExpr:
			expr(x.X)
		case *ast.FuncLit:
			stmts(x.Body)
		case *ast.ArrayType, *ast.MapType, *ast.ChanType, *ast.FuncType, *ast.InterfaceType, *ast.StructType:
			// type expressions are not data sources
		default:
			lost = append(lost, c.f.path+":"+q+" (expression form not handled by the source extractor: "+c.f.src(e)+")")
		}
	}
	stmts = func(n ast.Node) {
		ast.Inspect(n, func(n ast.Node) bool {
			switch x := n.(type) {
			case *ast.ValueSpec:
				for _, v := range x.Values {
					expr(v)
				}
				return false
			case ast.Expr:
				expr(x)
				return false
			}
			return true
		})
	}
	stmts(fd.Body)
}

func (c *readCtx) list() []string {
	var out []string
	for k := range c.out {
		out = append(out, k)
	}
	sort.Strings(out)
	return out
}

func readsOf(f *file, fns ...string) []string {
	c := newReadCtx(f)
	for _, n := range fns {
		fd := f.fn(n)
		if fd == nil {
			lost = append(lost, f.path+":"+n+" (function not found)")
			continue
		}
		c.reads(fd)
	}
	return c.list()
}

// httpSenders: functions of the file that perform an HTTP request themselves
// (`<x>.Do(`, `http.Get/Post/PostForm/Head(`, `<x>.Get/Post/…` on a client field).
func httpEntryPoints(f *file) []string {
	direct := map[string]bool{}
	calls := map[string]map[string]bool{} // caller -> callees (same file)
	decls := map[string]*ast.FuncDecl{}
	for _, d := range f.f.Decls {
		fd, ok := d.(*ast.FuncDecl)
		if !ok || fd.Body == nil {
			continue
		}
		q := qualName(fd)
		decls[q] = fd
		calls[q] = map[string]bool{}
		_, recvType := recvOf(fd)
		recvName, _ := recvOf(fd)
		ast.Inspect(fd.Body, func(n ast.Node) bool {
			ce, ok := n.(*ast.CallExpr)
			if !ok {
				return true
			}
			switch fun := ce.Fun.(type) {
			case *ast.Ident:
				if f.fn(fun.Name) != nil {
					calls[q][fun.Name] = true
				}
			case *ast.SelectorExpr:
				txt := nows(f.src(fun))
				if id, ok := fun.X.(*ast.Ident); ok && id.Name == recvName && recvName != "" {
					if f.fn(recvType+"."+fun.Sel.Name) != nil {
						calls[q][recvType+"."+fun.Sel.Name] = true
					}
				}
				switch fun.Sel.Name {
				case "Do", "Get", "Post", "PostForm", "Head", "RoundTrip":
					if strings.HasPrefix(txt, "http.") || strings.Contains(strings.ToLower(txt), "client") || strings.Contains(strings.ToLower(txt), "transport") {
						direct[q] = true
					}
				}
				if strings.HasPrefix(txt, "net.Dial") || strings.HasPrefix(txt, "tls.Dial") {
					direct[q] = true
				}
			}
			return true
		})
	}
	if len(direct) == 0 {
		lost = append(lost, f.path+" (no HTTP send located)")
	}
	// reach: functions from which a direct sender is reachable
	reach := map[string]bool{}
	for q := range direct {
		reach[q] = true
	}
	for changed := true; changed; {
		changed = false
		for q, cs := range calls {
			if reach[q] {
				continue
			}
			for c := range cs {
				if reach[c] {
					reach[q] = true
					changed = true
					break
				}
			}
		}
	}
	var out []string
	for q := range reach {
		if decls[q].Name.IsExported() {
			out = append(out, q)
		}
	}
	sort.Strings(out)
	return out
}

// ---------- config.go / server.go facts ----------

func constValue(f *file, name string) ast.Expr {
	for _, d := range f.f.Decls {
		gd, ok := d.(*ast.GenDecl)
		if !ok || (gd.Tok != token.CONST && gd.Tok != token.VAR) {
			continue
		}
		for _, s := range gd.Specs {
			vs := s.(*ast.ValueSpec)
			for i, id := range vs.Names {
				if id.Name == name && i < len(vs.Values) {
					return vs.Values[i]
				}
			}
		}
	}
	return nil
}

// enclosingIfs returns, innermost first, the conditions of the if statements whose BODY
// (not else branch) encloses pos inside fd.
func enclosingIfs(f *file, fd *ast.FuncDecl, pos token.Pos) []string {
	var out []string
	ast.Inspect(fd.Body, func(n ast.Node) bool {
		if is, ok := n.(*ast.IfStmt); ok && is.Body.Pos() <= pos && pos < is.Body.End() {
			out = append([]string{nows(f.src(is.Cond))}, out...)
		}
		return true
	})
	return out
}

func firstCall(f *file, n ast.Node, callee string) *ast.CallExpr {
	var found *ast.CallExpr
	ast.Inspect(n, func(n ast.Node) bool {
		if ce, ok := n.(*ast.CallExpr); ok && found == nil && nows(f.src(ce.Fun)) == callee {
			found = ce
		}
		return found == nil
	})
	return found
}

func genTelemetry() *leanFile {
	l := newLean("Telemetry", "/repo/"+telemetryGo+", "+configGo+", "+serverGo, "Liftbridge.Model.TelemetryTypes")
	tf, cf, sf := load(telemetryGo), load(configGo), load(serverGo)

	// the path config → Server.Start → telemetry.New → Collector.Start (gen_telemetry_path.go)
	genTelemetryPath(l, tf, sf)

	// (a) payload keys
	var keys []string
	if st := tf.structType("TelemetryPayload"); st != nil {
		keys = jsonKeys(tf, st, "", 0, telemetryGo+":TelemetryPayload")
	} else {
		lost = append(lost, telemetryGo+":TelemetryPayload (struct not found)")
	}
	l.def("payloadKeys", "List String", leanStrList(keys), "JSON keys of TelemetryPayload, recursively (dotted paths), declaration order")
	facts["Telemetry.payloadKeys"] = keys

	// what sendTelemetry marshals must be the result of collectPayload, as a TelemetryPayload
	marshalsPayload := false
	if fd := tf.fn("Collector.sendTelemetry"); fd != nil {
		if ce := firstCall(tf, fd.Body, "json.Marshal"); ce != nil && len(ce.Args) == 1 {
			if id, ok := ce.Args[0].(*ast.Ident); ok {
				ast.Inspect(fd.Body, func(n ast.Node) bool {
					if as, ok := n.(*ast.AssignStmt); ok && len(as.Lhs) == 1 && len(as.Rhs) == 1 {
						if l0, ok := as.Lhs[0].(*ast.Ident); ok && l0.Name == id.Name && nows(tf.src(as.Rhs[0])) == "c.collectPayload()" {
							marshalsPayload = true
						}
					}
					return true
				})
			}
		}
	}
	retPayload := false
	if fd := tf.fn("Collector.collectPayload"); fd != nil && fd.Type.Results != nil && len(fd.Type.Results.List) == 1 {
		retPayload = nows(tf.src(fd.Type.Results.List[0].Type)) == "*TelemetryPayload"
	}
	if !marshalsPayload || !retPayload {
		lost = append(lost, telemetryGo+":Collector.sendTelemetry (body is no longer json.Marshal(c.collectPayload()) of a *TelemetryPayload)")
	}

	// (b) sources
	src := readsOf(tf, "Collector.collectPayload")
	l.def("sources", "List String", leanStrList(src), "everything collectPayload (and same-file helpers it calls) reads")
	facts["Telemetry.sources"] = src
	var req []string
	// what sendTelemetry itself reads (collectPayload is not expanded here: its reads are `sources`)
	{
		c := newReadCtx(tf)
		c.seen["Collector.collectPayload"] = true
		if fd := tf.fn("Collector.sendTelemetry"); fd != nil {
			c.reads(fd)
		}
		req = c.list()
	}
	l.def("requestSources", "List String", leanStrList(req), "everything sendTelemetry itself reads (URL, headers, client, logger)")
	facts["Telemetry.requestSources"] = req
	ids := readsOf(tf, "loadOrCreateInstanceID")
	l.def("idSources", "List String", leanStrList(ids), "everything loadOrCreateInstanceID / generateUUID read (origin of instance_id)")
	facts["Telemetry.idSources"] = ids
	// New: which expressions fill instanceID and version of the Collector
	idExpr, verExpr := "", ""
	if fd := tf.fn("New"); fd != nil {
		ast.Inspect(fd.Body, func(n ast.Node) bool {
			if cl, ok := n.(*ast.CompositeLit); ok && nows(tf.src(cl.Type)) == "Collector" {
				for _, el := range cl.Elts {
					if kv, ok := el.(*ast.KeyValueExpr); ok {
						switch nows(tf.src(kv.Key)) {
						case "instanceID":
							idExpr = nows(tf.src(kv.Value))
						case "version":
							verExpr = nows(tf.src(kv.Value))
						}
					}
				}
			}
			if as, ok := n.(*ast.AssignStmt); ok && len(as.Rhs) == 1 && len(as.Lhs) >= 1 {
				if l0, ok := as.Lhs[0].(*ast.Ident); ok && l0.Name == idExpr && idExpr != "" {
					idExpr = nows(tf.src(as.Rhs[0]))
				}
			}
			return true
		})
		// the assignment precedes the literal in source order; resolve once more
		ast.Inspect(fd.Body, func(n ast.Node) bool {
			if as, ok := n.(*ast.AssignStmt); ok && len(as.Rhs) == 1 && len(as.Lhs) >= 1 {
				if l0, ok := as.Lhs[0].(*ast.Ident); ok && l0.Name == idExpr {
					idExpr = nows(tf.src(as.Rhs[0]))
				}
			}
			return true
		})
		if len(fd.Type.Params.List) >= 2 && len(fd.Type.Params.List[1].Names) == 1 && fd.Type.Params.List[1].Names[0].Name == verExpr {
			verExpr = "param:1"
		}
	}
	if idExpr == "" || verExpr == "" {
		lost = append(lost, telemetryGo+":New (Collector literal: instanceID / version not found)")
	}
	l.def("instanceIdExpr", "String", leanStr(idExpr), "what New stores in Collector.instanceID")
	l.def("versionExpr", "String", leanStr(verExpr), "what New stores in Collector.version (param:1 = its second parameter)")
	facts["Telemetry.instanceIdExpr"], facts["Telemetry.versionExpr"] = idExpr, verExpr

	eps := httpEntryPoints(tf)
	l.def("httpEntryPoints", "List String", leanStrList(eps), "exported functions of package telemetry from which an HTTP request is reachable")
	facts["Telemetry.httpEntryPoints"] = eps

	endpoint := ""
	if v, ok := constValue(tf, "DefaultEndpoint").(*ast.BasicLit); ok {
		endpoint, _ = strconv.Unquote(v.Value)
	} else {
		lost = append(lost, telemetryGo+":const DefaultEndpoint")
	}
	l.def("endpoint", "String", leanStr(endpoint), "DefaultEndpoint")

	// Collector.Start: first statement `if !c.config.Enabled { …; return }`
	startChecks := false
	if fd := tf.fn("Collector.Start"); fd != nil && len(fd.Body.List) > 0 {
		if is, ok := fd.Body.List[0].(*ast.IfStmt); ok && nows(tf.src(is.Cond)) == "!c.config.Enabled" && is.Else == nil && len(is.Body.List) > 0 {
			if _, ok := is.Body.List[len(is.Body.List)-1].(*ast.ReturnStmt); ok {
				startChecks = true
			}
		}
	} else {
		lost = append(lost, telemetryGo+":Collector.Start (function not found)")
	}
	l.def("startChecksEnabled", "Bool", leanBool(startChecks), "Collector.Start returns first thing when !c.config.Enabled")
	facts["Telemetry.startChecksEnabled"] = startChecks

	// ---- config.go ----
	defEnabled := true
	if id, ok := constValue(cf, "defaultTelemetryEnabled").(*ast.Ident); ok && (id.Name == "true" || id.Name == "false") {
		defEnabled = id.Name == "true"
	} else {
		lost = append(lost, configGo+":const defaultTelemetryEnabled")
	}
	l.def("defaultEnabled", "Bool", leanBool(defEnabled), "defaultTelemetryEnabled")
	facts["Telemetry.defaultEnabled"] = defEnabled
	defAssigned := false
	if fd := cf.fn("NewDefaultConfig"); fd != nil {
		ast.Inspect(fd.Body, func(n ast.Node) bool {
			if as, ok := n.(*ast.AssignStmt); ok && nows(cf.src(as)) == "config.Telemetry.Enabled=defaultTelemetryEnabled" {
				defAssigned = true
			}
			return true
		})
	}
	if !defAssigned {
		lost = append(lost, configGo+":NewDefaultConfig (config.Telemetry.Enabled = defaultTelemetryEnabled not found)")
	}
	key := "telemetry.enabled"
	if v, ok := constValue(cf, "configTelemetryEnabled").(*ast.BasicLit); ok {
		key, _ = strconv.Unquote(v.Value)
	} else {
		lost = append(lost, configGo+":const configTelemetryEnabled")
	}
	l.def("configKey", "String", leanStr(key), "configTelemetryEnabled")
	facts["Telemetry.configKey"] = key

	// parseTelemetryConfig: if v.IsSet(k) { config.Telemetry.Enabled = v.GetBool(k) }
	parseOK := false
	if fd := cf.fn("parseTelemetryConfig"); fd != nil {
		for _, st := range fd.Body.List {
			if is, ok := st.(*ast.IfStmt); ok && nows(cf.src(is.Cond)) == "v.IsSet(configTelemetryEnabled)" && is.Else == nil &&
				len(is.Body.List) == 1 && nows(cf.src(is.Body.List[0])) == "config.Telemetry.Enabled=v.GetBool(configTelemetryEnabled)" {
				parseOK = true
			}
		}
		// no other assignment to config.Telemetry.Enabled in that function
		n := 0
		ast.Inspect(fd.Body, func(nd ast.Node) bool {
			if as, ok := nd.(*ast.AssignStmt); ok {
				for _, lh := range as.Lhs {
					if nows(cf.src(lh)) == "config.Telemetry.Enabled" {
						n++
					}
				}
			}
			return true
		})
		if n != 1 {
			parseOK = false
		}
	}
	if !parseOK {
		lost = append(lost, configGo+":parseTelemetryConfig (shape `if v.IsSet(k) { config.Telemetry.Enabled = v.GetBool(k) }` not found)")
	}

	// NewConfig: the two paths
	var (
		envAuto, noFileParses, noFileEnv, fileParses, fileEnv, earlyReturn bool
		envPrefix                                                         string
		replacer                                                          []string
	)
	if fd := cf.fn("NewConfig"); fd != nil {
		var earlyIf *ast.IfStmt
		var earlyParse, mainParse token.Pos
		type setup struct {
			name string
			pos  token.Pos
		}
		var setups []setup
		for _, st := range fd.Body.List { // top-level statements only
			switch x := st.(type) {
			case *ast.IfStmt:
				if nows(cf.src(x.Cond)) == `configFile==""` && earlyIf == nil {
					if n := len(x.Body.List); n > 0 {
						if _, ok := x.Body.List[n-1].(*ast.ReturnStmt); ok {
							earlyIf = x
							for _, s2 := range x.Body.List {
								if ce := firstCall(cf, s2, "parseTelemetryConfig"); ce != nil && earlyParse == 0 {
									earlyParse = ce.Pos()
								}
							}
						}
					}
				}
			case *ast.ExprStmt:
				if ce, ok := x.X.(*ast.CallExpr); ok {
					switch nows(cf.src(ce.Fun)) {
					case "v.AutomaticEnv":
						envAuto = true
						setups = append(setups, setup{"AutomaticEnv", ce.Pos()})
					case "v.SetEnvPrefix":
						if len(ce.Args) == 1 {
							if bl, ok := ce.Args[0].(*ast.BasicLit); ok {
								envPrefix, _ = strconv.Unquote(bl.Value)
								setups = append(setups, setup{"SetEnvPrefix", ce.Pos()})
								break
							}
						}
						lost = append(lost, configGo+":NewConfig (SetEnvPrefix argument is not a string literal)")
					case "v.SetEnvKeyReplacer":
						ok := false
						if len(ce.Args) == 1 {
							if in, ok2 := ce.Args[0].(*ast.CallExpr); ok2 && nows(cf.src(in.Fun)) == "strings.NewReplacer" && len(in.Args)%2 == 0 {
								ok = true
								for _, a := range in.Args {
									bl, isLit := a.(*ast.BasicLit)
									if !isLit {
										ok = false
										break
									}
									s, _ := strconv.Unquote(bl.Value)
									if len([]rune(s)) != 1 {
										ok = false
										break
									}
									replacer = append(replacer, s)
								}
							}
						}
						if !ok {
							replacer = nil
							lost = append(lost, configGo+":NewConfig (SetEnvKeyReplacer argument is not strings.NewReplacer of single-character literals)")
						} else {
							setups = append(setups, setup{"SetEnvKeyReplacer", ce.Pos()})
						}
					case "parseTelemetryConfig":
						if mainParse == 0 {
							mainParse = ce.Pos()
						}
					}
				}
			}
		}
		// env set-up calls that are NOT top-level statements of NewConfig are not modelled
		for _, callee := range []string{"v.AutomaticEnv", "v.SetEnvPrefix", "v.SetEnvKeyReplacer", "v.BindEnv", "v.SetDefault", "v.Set"} {
			n := len(callPositions(configGo, "NewConfig", callee))
			top := 0
			for _, s := range setups {
				if "v."+s.name == callee {
					top++
				}
			}
			if n != top {
				lost = append(lost, configGo+":NewConfig ("+callee+" called in a position the extractor does not model)")
			}
		}
		earlyReturn = earlyIf != nil
		fileParses = mainParse != 0
		noFileParses = earlyParse != 0
		before := func(p token.Pos) (all bool, any bool) {
			all = true
			for _, s := range setups {
				if s.pos < p {
					any = true
				} else {
					all = false
				}
			}
			return
		}
		if fileParses {
			all, any := before(mainParse)
			fileEnv = all && envAuto
			if any && !all {
				lost = append(lost, configGo+":NewConfig (env set-up partly after parseTelemetryConfig: not modelled)")
			}
		} else {
			lost = append(lost, configGo+":NewConfig (parseTelemetryConfig call not found)")
		}
		if earlyReturn {
			all, any := before(earlyIf.Pos())
			noFileEnv = all && envAuto
			if any && !all {
				lost = append(lost, configGo+":NewConfig (env set-up partly after the no-config-file branch: not modelled)")
			}
			if mainParse != 0 && mainParse < earlyIf.Pos() {
				// parsed before the branch: the no-file path parses too
				noFileParses = true
			}
		} else {
			// no early return: the no-file path is the main path (ReadInConfig decides)
			lost = append(lost, configGo+":NewConfig (`if configFile == \"\" { …; return }` not found: no-config-file path not modelled)")
		}
	} else {
		lost = append(lost, configGo+":NewConfig (function not found)")
	}
	var pairs []string
	for i := 0; i+1 < len(replacer); i += 2 {
		pairs = append(pairs, fmt.Sprintf("(%s, %s)", leanChar(replacer[i]), leanChar(replacer[i+1])))
	}
	l.def("envAutomatic", "Bool", leanBool(envAuto), "NewConfig calls v.AutomaticEnv()")
	l.def("envPrefix", "String", leanStr(envPrefix), "argument of v.SetEnvPrefix (empty = none)")
	l.def("envReplacer", "List (Char × Char)", "["+strings.Join(pairs, ", ")+"]", "strings.NewReplacer pairs given to v.SetEnvKeyReplacer (empty = none)")
	l.def("earlyReturnWithoutFile", "Bool", leanBool(earlyReturn), `NewConfig: if configFile == "" { …; return config, nil }`)
	l.def("noFileParsesTelemetry", "Bool", leanBool(noFileParses), "the no-config-file path calls parseTelemetryConfig before returning")
	l.def("noFileEnvActive", "Bool", leanBool(noFileEnv), "the viper env set-up precedes the no-config-file return")
	l.def("fileParsesTelemetry", "Bool", leanBool(fileParses), "the config-file path calls parseTelemetryConfig")
	l.def("fileEnvActive", "Bool", leanBool(fileEnv), "the viper env set-up precedes parseTelemetryConfig on the config-file path")
	for k, v := range map[string]interface{}{"envAutomatic": envAuto, "envPrefix": envPrefix, "envReplacer": replacer, "earlyReturnWithoutFile": earlyReturn,
		"noFileParsesTelemetry": noFileParses, "noFileEnvActive": noFileEnv, "fileParsesTelemetry": fileParses, "fileEnvActive": fileEnv} {
		facts["Telemetry."+k] = v
	}

	// ---- server.go: Server.Start ----
	createGuarded, startNilGuard := false, false
	versionArg := ""
	if fd := sf.fn("Server.Start"); fd != nil {
		if ce := firstCall(sf, fd.Body, "telemetry.New"); ce != nil {
			conds := enclosingIfs(sf, fd, ce.Pos())
			switch {
			case len(conds) == 0:
				createGuarded = false
			case len(conds) == 1 && conds[0] == "s.config.Telemetry.Enabled":
				createGuarded = true
			default:
				lost = append(lost, serverGo+":Server.Start (telemetry.New guarded by "+strings.Join(conds, " && ")+": not the modelled guard)")
			}
			if len(ce.Args) >= 2 {
				versionArg = nows(sf.src(ce.Args[1]))
			}
			// the assignment target must be s.telemetry
			okTarget := false
			ast.Inspect(fd.Body, func(n ast.Node) bool {
				if as, ok := n.(*ast.AssignStmt); ok && len(as.Rhs) == 1 && as.Rhs[0] == ast.Expr(ce) && len(as.Lhs) >= 1 && nows(sf.src(as.Lhs[0])) == "s.telemetry" {
					okTarget = true
				}
				return true
			})
			if !okTarget {
				lost = append(lost, serverGo+":Server.Start (result of telemetry.New is not assigned to s.telemetry)")
			}
		} else {
			lost = append(lost, serverGo+":Server.Start (telemetry.New call not found)")
		}
		if ce := firstCall(sf, fd.Body, "s.telemetry.Start"); ce != nil {
			conds := enclosingIfs(sf, fd, ce.Pos())
			if len(conds) == 1 && conds[0] == "s.telemetry!=nil" {
				startNilGuard = true
			} else {
				lost = append(lost, serverGo+":Server.Start (s.telemetry.Start() guard is not `s.telemetry != nil`)")
			}
		} else {
			lost = append(lost, serverGo+":Server.Start (s.telemetry.Start() not found)")
		}
	} else {
		lost = append(lost, serverGo+":Server.Start (function not found)")
	}
	l.def("createGuarded", "Bool", leanBool(createGuarded), "Server.Start: telemetry.New only inside `if s.config.Telemetry.Enabled`")
	l.def("startNilGuard", "Bool", leanBool(startNilGuard), "Server.Start: `if s.telemetry != nil { s.telemetry.Start() }`")
	l.def("versionArg", "String", leanStr(versionArg), "second argument of telemetry.New in Server.Start")
	facts["Telemetry.createGuarded"], facts["Telemetry.versionArg"] = createGuarded, versionArg

	// creation sites of a collector and assignments to the telemetry field, over all
	// non-test Go files of the module outside package telemetry
	newSites, assignSites, startSites := 0, 0, 0
	filepath.Walk(repo, func(p string, info os.FileInfo, err error) error {
		if err != nil {
			return nil
		}
		if info.IsDir() {
			b := info.Name()
			if b == ".git" || b == "vendor" || b == "website" || b == "node_modules" || (p != repo && strings.HasPrefix(b, ".")) {
				return filepath.SkipDir
			}
			return nil
		}
		if !strings.HasSuffix(p, ".go") || strings.HasSuffix(p, "_test.go") {
			return nil
		}
		rel, _ := filepath.Rel(repo, p)
		if filepath.ToSlash(filepath.Dir(rel)) == "server/telemetry" {
			return nil
		}
		b, err := os.ReadFile(p)
		if err != nil || !strings.Contains(string(b), "telemetry") {
			return nil
		}
		gf := load(filepath.ToSlash(rel))
		ast.Inspect(gf.f, func(n ast.Node) bool {
			switch x := n.(type) {
			case *ast.CallExpr:
				switch nows(gf.src(x.Fun)) {
				case "telemetry.New":
					newSites++
				}
				if se, ok := x.Fun.(*ast.SelectorExpr); ok && se.Sel.Name == "Start" && strings.HasSuffix(nows(gf.src(se.X)), ".telemetry") {
					startSites++
				}
			case *ast.AssignStmt:
				for _, lh := range x.Lhs {
					if strings.HasSuffix(nows(gf.src(lh)), ".telemetry") {
						assignSites++
					}
				}
			case *ast.CompositeLit:
				if nows(gf.src(x.Type)) == "telemetry.Collector" {
					newSites++
				}
			}
			return true
		})
		return nil
	})
	l.def("collectorCreationSites", "Nat", fmt.Sprint(newSites), "calls of telemetry.New / telemetry.Collector literals outside package telemetry (non-test files)")
	l.def("collectorAssignSites", "Nat", fmt.Sprint(assignSites), "assignments to a `.telemetry` field outside package telemetry")
	l.def("collectorStartSites", "Nat", fmt.Sprint(startSites), "calls of `<x>.telemetry.Start()` outside package telemetry")
	facts["Telemetry.collectorCreationSites"] = newSites
	return l
}

func leanChar(s string) string {
	r := []rune(s)[0]
	switch {
	case r == '\'' || r == '\\':
		return "'\\" + string(r) + "'"
	case r < 0x20 || r > 0x7e:
		return fmt.Sprintf("'\\u{%x}'", r)
	}
	return "'" + string(r) + "'"
}
