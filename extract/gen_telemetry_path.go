package main

// C19 — the path  config → Server.Start → telemetry.New(cfg, …) → Collector.Start → send,
// regenerated as program SHAPE (vocabulary: lean/Liftbridge/Model/TelemetryTypes.lean):
//
//   dfltEnabled/dfltIntervalNs/dfltDataDir   the literal DefaultConfig() returns
//   newSteps          every guarded block of telemetry.New that writes to its *Config
//                     parameter (whole or field), as net effect per field
//   newStoresParam    the Collector literal stores that very parameter in `config`
//   configFields      fields of telemetry.Config
//   configWriteSites  every assignment to `<x>.config` / `<x>.config.<f>` in the package
//   startArg*         what Server.Start puts into the telemetry.Config it passes to New
//   idPaths           every syntactic path of loadOrCreateInstanceID to a return
//   idLenGuard        the comparison in `len(data) > 0`
//
// Shapes that are not understood are reported `lost` and emitted as `.unknown` (the model
// then assumes the worst), never guessed.

import (
	"fmt"
	"go/ast"
	"go/token"
	"regexp"
	"strconv"
	"strings"
)

var timeUnits = map[string]int64{"Nanosecond": 1, "Microsecond": 1e3, "Millisecond": 1e6, "Second": 1e9, "Minute": 60e9, "Hour": 3600e9}

// evalDur evaluates a constant integer / time.Duration expression of the file.
func evalDur(f *file, e ast.Expr, depth int) (int64, bool) {
	if depth > 8 {
		return 0, false
	}
	switch x := e.(type) {
	case *ast.BasicLit:
		if x.Kind == token.INT {
			v, err := strconv.ParseInt(x.Value, 0, 64)
			return v, err == nil
		}
	case *ast.ParenExpr:
		return evalDur(f, x.X, depth+1)
	case *ast.UnaryExpr:
		if v, ok := evalDur(f, x.X, depth+1); ok {
			switch x.Op {
			case token.SUB:
				return -v, true
			case token.ADD:
				return v, true
			}
		}
	case *ast.BinaryExpr:
		a, ok1 := evalDur(f, x.X, depth+1)
		b, ok2 := evalDur(f, x.Y, depth+1)
		if ok1 && ok2 {
			switch x.Op {
			case token.MUL:
				return a * b, true
			case token.ADD:
				return a + b, true
			case token.SUB:
				return a - b, true
			case token.QUO:
				if b != 0 {
					return a / b, true
				}
			}
		}
	case *ast.SelectorExpr:
		if id, ok := x.X.(*ast.Ident); ok && id.Name == "time" {
			if u, ok := timeUnits[x.Sel.Name]; ok {
				return u, true
			}
		}
	case *ast.Ident:
		if v := constValue(f, x.Name); v != nil {
			return evalDur(f, v, depth+1)
		}
	case *ast.CallExpr:
		if nows(f.src(x.Fun)) == "time.Duration" && len(x.Args) == 1 {
			return evalDur(f, x.Args[0], depth+1)
		}
	}
	return 0, false
}

func leanInt(v int64) string {
	if v < 0 {
		return fmt.Sprintf("(%d)", v)
	}
	return fmt.Sprint(v)
}

var cfgFields = []string{"Enabled", "Interval", "DataDir"}

// cfgState: Lean `Src` term per field of *cfg.
type cfgState map[string]string

func keepState() cfgState {
	return cfgState{"Enabled": ".keep", "Interval": ".keep", "DataDir": ".keep"}
}
func (s cfgState) setAll(v string) {
	for _, f := range cfgFields {
		s[f] = v
	}
}
func (s cfgState) changed() bool {
	for _, f := range cfgFields {
		if s[f] != ".keep" {
			return true
		}
	}
	return false
}

type newExec struct {
	f     *file
	param string
	where string
	saved map[string][2]string // local -> {field, Src at the time of saving}
	lostN int
}

func (x *newExec) lose(what string) {
	x.lostN++
	lost = append(lost, x.where+" ("+what+")")
}

// wholeUses counts occurrences of the parameter that are not the base of a field selector
// and not the `config:` value of the Collector literal.
func (x *newExec) wholeUses(n ast.Node) int {
	cnt := 0
	var stack []ast.Node
	ast.Inspect(n, func(nd ast.Node) bool {
		if nd == nil {
			stack = stack[:len(stack)-1]
			return true
		}
		if id, ok := nd.(*ast.Ident); ok && id.Name == x.param {
			whole := true
			if len(stack) > 0 {
				switch p := stack[len(stack)-1].(type) {
				case *ast.SelectorExpr:
					if p.X == ast.Expr(id) {
						whole = false
					}
				case *ast.KeyValueExpr:
					if k, ok := p.Key.(*ast.Ident); ok && k.Name == "config" && p.Value == ast.Expr(id) {
						whole = false
					}
				}
			}
			if whole {
				cnt++
			}
		}
		stack = append(stack, nd)
		return true
	})
	return cnt
}

// writes: does the node assign to the parameter, to *param or to one of its fields?
func (x *newExec) writes(n ast.Node) bool {
	w := false
	ast.Inspect(n, func(nd ast.Node) bool {
		switch s := nd.(type) {
		case *ast.AssignStmt:
			for _, l := range s.Lhs {
				t := nows(x.f.src(l))
				if t == x.param || t == "*"+x.param || strings.HasPrefix(t, x.param+".") || strings.HasPrefix(t, "(*"+x.param+")") {
					w = true
				}
			}
		case *ast.IncDecStmt:
			if strings.HasPrefix(nows(x.f.src(s.X)), x.param+".") {
				w = true
			}
		}
		return true
	})
	return w
}

func (x *newExec) fieldValue(field string, rhs ast.Expr, st cfgState) string {
	t := nows(x.f.src(rhs))
	if t == x.param+"."+field {
		return st[field]
	}
	if t == "DefaultConfig()."+field {
		return ".dflt"
	}
	if id, ok := rhs.(*ast.Ident); ok {
		if sv, ok := x.saved[id.Name]; ok {
			if sv[0] == field {
				return sv[1]
			}
			x.lose("field " + field + " assigned from a local saved from field " + sv[0])
			return ".unknown"
		}
	}
	switch field {
	case "Enabled":
		if t == "true" || t == "false" {
			return "(.lit " + t + ")"
		}
	case "Interval":
		if v, ok := evalDur(x.f, rhs, 0); ok {
			return "(.lit " + leanInt(v) + ")"
		}
	case "DataDir":
		if bl, ok := rhs.(*ast.BasicLit); ok && bl.Kind == token.STRING {
			s, _ := strconv.Unquote(bl.Value)
			return "(.lit " + leanStr(s) + ")"
		}
	}
	x.lose("value assigned to cfg." + field + " not understood: " + x.f.src(rhs))
	return ".unknown"
}

func zeroOf(field string) string {
	switch field {
	case "Enabled":
		return "(.lit false)"
	case "Interval":
		return "(.lit 0)"
	}
	return `(.lit "")`
}

// wholeValue: `cfg = <rhs>` / `*cfg = <rhs>`.
func (x *newExec) wholeValue(rhs ast.Expr, deref bool, st cfgState) {
	t := nows(x.f.src(rhs))
	if (!deref && t == "DefaultConfig()") || (deref && t == "*DefaultConfig()") {
		st.setAll(".dflt")
		return
	}
	e := rhs
	if !deref {
		if u, ok := e.(*ast.UnaryExpr); ok && u.Op == token.AND {
			e = u.X
		} else {
			e = nil
		}
	}
	if cl, ok := e.(*ast.CompositeLit); ok && nows(x.f.src(cl.Type)) == "Config" {
		nst := cfgState{}
		for _, fld := range cfgFields {
			nst[fld] = zeroOf(fld)
		}
		for _, el := range cl.Elts {
			kv, ok := el.(*ast.KeyValueExpr)
			if !ok {
				x.lose("positional Config literal")
				st.setAll(".unknown")
				return
			}
			k := nows(x.f.src(kv.Key))
			if _, known := nst[k]; known {
				nst[k] = x.fieldValue(k, kv.Value, st)
			}
		}
		for k, v := range nst {
			st[k] = v
		}
		return
	}
	x.lose("value assigned to the Config parameter not understood: " + x.f.src(rhs))
	st.setAll(".unknown")
}

func (x *newExec) block(stmts []ast.Stmt, st cfgState) {
	for _, s := range stmts {
		switch a := s.(type) {
		case *ast.AssignStmt:
			if len(a.Lhs) == 1 && len(a.Rhs) == 1 {
				lt := nows(x.f.src(a.Lhs[0]))
				switch {
				case lt == x.param:
					x.wholeValue(a.Rhs[0], false, st)
					continue
				case lt == "*"+x.param:
					x.wholeValue(a.Rhs[0], true, st)
					continue
				case strings.HasPrefix(lt, x.param+"."):
					fld := strings.TrimPrefix(lt, x.param+".")
					if _, ok := st[fld]; ok && a.Tok == token.ASSIGN {
						st[fld] = x.fieldValue(fld, a.Rhs[0], st)
					} else {
						x.lose("assignment " + x.f.src(a) + " not understood")
						if _, ok := st[fld]; ok {
							st[fld] = ".unknown"
						}
					}
					continue
				}
				if id, ok := a.Lhs[0].(*ast.Ident); ok {
					rt := nows(x.f.src(a.Rhs[0]))
					saved := false
					for _, fld := range cfgFields {
						if rt == x.param+"."+fld {
							x.saved[id.Name] = [2]string{fld, st[fld]}
							saved = true
						}
					}
					if !saved {
						delete(x.saved, id.Name)
					}
					if !saved && x.wholeUses(a.Rhs[0]) > 0 {
						x.lose("the Config parameter escapes: " + x.f.src(a))
						st.setAll(".unknown")
					}
					continue
				}
			}
			if x.writes(a) || x.wholeUses(a) > 0 {
				x.lose("statement " + x.f.src(a) + " not understood")
				st.setAll(".unknown")
			}
		case *ast.ExprStmt, *ast.DeclStmt, *ast.GoStmt, *ast.DeferStmt:
			if x.wholeUses(s) > 0 {
				x.lose("the Config parameter is passed on: " + x.f.src(s))
				st.setAll(".unknown")
			}
		case *ast.ReturnStmt:
			x.lose("telemetry.New returns from inside a block that rewrites its Config: not modelled")
		default:
			if x.writes(s) || x.wholeUses(s) > 0 {
				x.lose("nested statement writes to / passes on the Config parameter: " + x.f.src(s))
				st.setAll(".unknown")
			}
		}
	}
}

func (x *newExec) guard(cond ast.Expr) string {
	t := nows(x.f.src(cond))
	switch t {
	case x.param + "==nil":
		return ".isNil true"
	case x.param + "!=nil":
		return ".isNil false"
	case x.param + ".Enabled":
		return ".enabled true"
	case "!" + x.param + ".Enabled":
		return ".enabled false"
	}
	if be, ok := cond.(*ast.BinaryExpr); ok && nows(x.f.src(be.X)) == x.param+".Interval" {
		if op, ok := cmpName[be.Op]; ok {
			if k, ok := evalDur(x.f, be.Y, 0); ok {
				return fmt.Sprintf(".interval .%s %s", op, leanInt(k))
			}
		}
	}
	x.lose("condition `" + x.f.src(cond) + "` guarding a rewrite of the Config parameter is not understood")
	return ".unknown"
}

func rewriteTerm(g string, st cfgState) string {
	return fmt.Sprintf("{ guard := %s, enabled := %s, interval := %s, dataDir := %s }", g, st["Enabled"], st["Interval"], st["DataDir"])
}

// telemetryNewSteps extracts the rewrites of telemetry.New and whether the Collector stores
// the parameter itself.
func telemetryNewSteps(tf *file) (steps []string, storesParam bool) {
	where := telemetryGo + ":New"
	fd := tf.fn("New")
	if fd == nil || fd.Type.Params == nil || len(fd.Type.Params.List) == 0 || len(fd.Type.Params.List[0].Names) != 1 ||
		nows(tf.src(fd.Type.Params.List[0].Type)) != "*Config" {
		lost = append(lost, where+" (function with a first parameter of type *Config not found)")
		return []string{rewriteTerm(".unknown", cfgState{"Enabled": ".unknown", "Interval": ".unknown", "DataDir": ".unknown"})}, false
	}
	x := &newExec{f: tf, param: fd.Type.Params.List[0].Names[0].Name, where: where, saved: map[string][2]string{}}
	for _, s := range fd.Body.List {
		switch a := s.(type) {
		case *ast.IfStmt:
			if !x.writes(a) && x.wholeUsesExceptNilTest(a) == 0 {
				continue
			}
			if a.Init != nil || a.Else != nil {
				x.lose("if with init/else rewrites the Config parameter: " + tf.src(a.Cond))
				st := keepState()
				st.setAll(".unknown")
				steps = append(steps, rewriteTerm(".unknown", st))
				continue
			}
			g := x.guard(a.Cond)
			st := keepState()
			x.block(a.Body.List, st)
			if st.changed() {
				steps = append(steps, rewriteTerm(g, st))
			}
		default:
			// the Collector literal
			ast.Inspect(s, func(n ast.Node) bool {
				if cl, ok := n.(*ast.CompositeLit); ok && nows(tf.src(cl.Type)) == "Collector" {
					for _, el := range cl.Elts {
						if kv, ok := el.(*ast.KeyValueExpr); ok && nows(tf.src(kv.Key)) == "config" {
							storesParam = nows(tf.src(kv.Value)) == x.param
						}
					}
				}
				return true
			})
			if x.writes(s) || x.wholeUses(s) > 0 {
				st := keepState()
				x.block([]ast.Stmt{s}, st)
				if st.changed() {
					steps = append(steps, rewriteTerm(".always", st))
				}
			}
		}
	}
	if !storesParam {
		lost = append(lost, where+" (the Collector literal does not store the *Config parameter in `config`)")
	}
	return steps, storesParam
}

// wholeUsesExceptNilTest: whole uses of the parameter in an if statement, not counting
// the comparison with nil in its condition.
func (x *newExec) wholeUsesExceptNilTest(is *ast.IfStmt) int {
	n := x.wholeUses(is)
	t := nows(x.f.src(is.Cond))
	if t == x.param+"==nil" || t == x.param+"!=nil" {
		n--
	}
	return n
}

var configLHS = regexp.MustCompile(`(^|\.)config($|\.|\))`)

// configWriteSites lists every assignment to a `config` field (or through it) in the file.
func configWriteSites(tf *file) []string {
	var out []string
	for _, d := range tf.f.Decls {
		fd, ok := d.(*ast.FuncDecl)
		if !ok || fd.Body == nil {
			continue
		}
		q := qualName(fd)
		ast.Inspect(fd.Body, func(n ast.Node) bool {
			switch s := n.(type) {
			case *ast.AssignStmt:
				for _, l := range s.Lhs {
					if _, isIdent := l.(*ast.Ident); isIdent {
						continue
					}
					if configLHS.MatchString(nows(tf.src(l))) {
						out = append(out, q+": "+tf.src(s))
					}
				}
			case *ast.IncDecStmt:
				if configLHS.MatchString(nows(tf.src(s.X))) {
					out = append(out, q+": "+tf.src(s))
				}
			case *ast.UnaryExpr:
				if s.Op == token.AND && configLHS.MatchString(nows(tf.src(s.X))) {
					out = append(out, q+": "+tf.src(s)+" (address taken)")
				}
			}
			return true
		})
	}
	return out
}

// ---------- loadOrCreateInstanceID: paths ----------

type idEnum struct {
	f     *file
	paths []string
	where string
	n     int
}

func idOpOf(call string) string {
	switch call {
	case "os.MkdirAll", "os.Mkdir":
		return "mkdir"
	case "os.ReadFile", "ioutil.ReadFile":
		return "read"
	case "generateUUID":
		return "rand"
	case "os.WriteFile", "ioutil.WriteFile":
		return "write"
	}
	return ""
}

func copyBind(b map[string]string) map[string]string {
	c := make(map[string]string, len(b))
	for k, v := range b {
		c[k] = v
	}
	return c
}

// bindAssign records what the assigned locals stand for.
func (e *idEnum) bindAssign(a *ast.AssignStmt, bind map[string]string) {
	names := make([]string, len(a.Lhs))
	for i, l := range a.Lhs {
		if id, ok := l.(*ast.Ident); ok {
			names[i] = id.Name
		}
	}
	if len(a.Rhs) == 1 {
		if ce, ok := a.Rhs[0].(*ast.CallExpr); ok {
			op := idOpOf(nows(e.f.src(ce.Fun)))
			switch {
			case op == "read" && len(names) == 2:
				bind[names[0]], bind[names[1]] = "file", "op:read"
				return
			case op == "rand" && len(names) == 2:
				bind[names[0]], bind[names[1]] = "fresh", "op:rand"
				return
			case op != "" && len(names) == 1:
				bind[names[0]] = "op:" + op
				return
			}
		}
	}
	for _, n := range names {
		if n != "" && n != "_" {
			bind[n] = "other:" + e.f.src(a)
		}
	}
}

// classify an if condition: Lean terms for the branch taken / not taken.
func (e *idEnum) cond(c ast.Expr, bind map[string]string) (string, string) {
	t := nows(e.f.src(c))
	if be, ok := c.(*ast.BinaryExpr); ok {
		if id, ok := be.X.(*ast.Ident); ok && nows(e.f.src(be.Y)) == "nil" && strings.HasPrefix(bind[id.Name], "op:") {
			op := strings.TrimPrefix(bind[id.Name], "op:")
			switch be.Op {
			case token.NEQ:
				return ".op ." + op + " false", ".op ." + op + " true"
			case token.EQL:
				return ".op ." + op + " true", ".op ." + op + " false"
			}
		}
		if be.Op == token.LAND {
			if l, ok := be.X.(*ast.BinaryExpr); ok && l.Op == token.EQL && nows(e.f.src(l.Y)) == "nil" {
				if id, ok := l.X.(*ast.Ident); ok && bind[id.Name] == "op:read" {
					if r, ok := be.Y.(*ast.BinaryExpr); ok && nows(e.f.src(r.Y)) == "0" {
						if _, isCmp := cmpName[r.Op]; isCmp {
							if ce, ok := r.X.(*ast.CallExpr); ok && nows(e.f.src(ce.Fun)) == "len" && len(ce.Args) == 1 {
								if a, ok := ce.Args[0].(*ast.Ident); ok && bind[a.Name] == "file" {
									return ".fileUsable true", ".fileUsable false"
								}
							}
						}
					}
				}
			}
		}
	}
	_ = t
	txt := leanStr(e.f.src(c))
	return ".other " + txt + " true", ".other " + txt + " false"
}

func (e *idEnum) out(r *ast.ReturnStmt, bind map[string]string) string {
	if len(r.Results) != 2 {
		return ".other " + leanStr(e.f.src(r))
	}
	v, er := r.Results[0], nows(e.f.src(r.Results[1]))
	if er != "nil" {
		if bl, ok := v.(*ast.BasicLit); ok && bl.Value == `""` {
			return ".err"
		}
		// a value together with a possibly non-nil error: New looks at the error first,
		// but whether it is nil is not known here
		return ".other " + leanStr(e.f.src(r))
	}
	if id, ok := v.(*ast.Ident); ok && bind[id.Name] == "fresh" {
		return ".fresh"
	}
	// an expression over the file content and trimming/conversion functions only
	usesFile, clean := false, true
	ast.Inspect(v, func(n ast.Node) bool {
		switch x := n.(type) {
		case *ast.SelectorExpr:
			t := nows(e.f.src(x))
			if t != "bytes.TrimSpace" && t != "strings.TrimSpace" {
				clean = false
			}
			return false
		case *ast.Ident:
			switch {
			case bind[x.Name] == "file":
				usesFile = true
			case x.Name == "string":
			default:
				clean = false
			}
		case *ast.BasicLit:
			clean = false
		}
		return true
	})
	if usesFile && clean {
		return ".file"
	}
	return ".other " + leanStr(e.f.src(v))
}

func (e *idEnum) walk(stmts []ast.Stmt, conds []string, bind map[string]string) {
	e.n++
	if e.n > 4096 {
		return
	}
	for i, s := range stmts {
		switch a := s.(type) {
		case *ast.ReturnStmt:
			e.paths = append(e.paths, "{ conds := ["+strings.Join(conds, ", ")+"], out := "+e.out(a, bind)+" }")
			return
		case *ast.AssignStmt:
			e.bindAssign(a, bind)
		case *ast.IfStmt:
			b := copyBind(bind)
			if init, ok := a.Init.(*ast.AssignStmt); ok {
				e.bindAssign(init, b)
			} else if a.Init != nil {
				lost = append(lost, e.where+" (if with a non-assignment init statement)")
			}
			ct, cf := e.cond(a.Cond, b)
			rest := stmts[i+1:]
			e.walk(append(append([]ast.Stmt{}, a.Body.List...), rest...), append(append([]string{}, conds...), ct), copyBind(b))
			var els []ast.Stmt
			switch x := a.Else.(type) {
			case *ast.BlockStmt:
				els = x.List
			case *ast.IfStmt:
				els = []ast.Stmt{x}
			}
			// the init's bindings go out of scope after the if; the outer ones stay
			nb := copyBind(bind)
			if a.Else != nil {
				nb = copyBind(b)
			}
			e.walk(append(append([]ast.Stmt{}, els...), rest...), append(append([]string{}, conds...), cf), nb)
			return
		case *ast.ExprStmt, *ast.DeclStmt, *ast.EmptyStmt:
		default:
			lost = append(lost, e.where+" (statement form not handled by the path enumerator: "+e.f.src(s)+")")
		}
	}
	e.paths = append(e.paths, "{ conds := ["+strings.Join(conds, ", ")+"], out := .other \"<falls off the end>\" }")
}

func idPathsOf(tf *file) []string {
	e := &idEnum{f: tf, where: telemetryGo + ":loadOrCreateInstanceID"}
	fd := tf.fn("loadOrCreateInstanceID")
	if fd == nil {
		lost = append(lost, e.where+" (function not found)")
		return []string{`{ conds := [], out := .other "<function not found>" }`}
	}
	e.walk(fd.Body.List, nil, map[string]string{})
	if e.n > 4096 {
		lost = append(lost, e.where+" (too many paths)")
	}
	return e.paths
}

// ---------- Server.Start: the Config handed to New ----------

type startArgFacts struct {
	enabled                 string // Src Bool term: .keep = s.config.Telemetry.Enabled
	intervalFromConfig      bool
	dataDirFromConfig       bool
	argIsLiteral            bool
}

func serverStartArg(sf *file, fd *ast.FuncDecl) startArgFacts {
	out := startArgFacts{enabled: ".unknown"}
	where := serverGo + ":Server.Start"
	ce := firstCall(sf, fd.Body, "telemetry.New")
	if ce == nil || len(ce.Args) == 0 {
		return out
	}
	var lit *ast.CompositeLit
	litOf := func(e ast.Expr) *ast.CompositeLit {
		if u, ok := e.(*ast.UnaryExpr); ok && u.Op == token.AND {
			if cl, ok := u.X.(*ast.CompositeLit); ok && nows(sf.src(cl.Type)) == "telemetry.Config" {
				return cl
			}
		}
		return nil
	}
	if lit = litOf(ce.Args[0]); lit == nil {
		if id, ok := ce.Args[0].(*ast.Ident); ok {
			defs, writes := 0, 0
			ast.Inspect(fd.Body, func(n ast.Node) bool {
				if as, ok := n.(*ast.AssignStmt); ok {
					for i, l := range as.Lhs {
						lt := nows(sf.src(l))
						if lt == id.Name && len(as.Rhs) == len(as.Lhs) {
							defs++
							if cl := litOf(as.Rhs[i]); cl != nil {
								lit = cl
							}
						} else if lt == id.Name || strings.HasPrefix(lt, id.Name+".") || lt == "*"+id.Name {
							writes++
						}
					}
				}
				return true
			})
			if defs != 1 || writes != 0 {
				lit = nil
				lost = append(lost, where+" (the variable passed to telemetry.New is assigned more than once or modified after the literal)")
			}
		}
	}
	if lit == nil {
		lost = append(lost, where+" (first argument of telemetry.New is not &telemetry.Config{…} or a variable initialised with it)")
		return out
	}
	out.argIsLiteral = true
	vals := map[string]string{}
	for _, el := range lit.Elts {
		kv, ok := el.(*ast.KeyValueExpr)
		if !ok {
			lost = append(lost, where+" (positional telemetry.Config literal)")
			return out
		}
		vals[nows(sf.src(kv.Key))] = nows(sf.src(kv.Value))
	}
	switch v, present := vals["Enabled"]; {
	case !present:
		out.enabled = "(.lit false)"
	case v == "true" || v == "false":
		out.enabled = "(.lit " + v + ")"
	case v == "s.config.Telemetry.Enabled":
		out.enabled = ".keep"
	default:
		lost = append(lost, where+" (telemetry.Config{Enabled: "+v+"} is neither a literal nor s.config.Telemetry.Enabled)")
	}
	out.intervalFromConfig = vals["Interval"] == "time.Duration(s.config.Telemetry.IntervalSeconds)*time.Second"
	if !out.intervalFromConfig {
		lost = append(lost, where+" (telemetry.Config{Interval: "+vals["Interval"]+"} is not time.Duration(s.config.Telemetry.IntervalSeconds) * time.Second)")
	}
	out.dataDirFromConfig = vals["DataDir"] == "s.config.DataDir"
	if !out.dataDirFromConfig {
		lost = append(lost, where+" (telemetry.Config{DataDir: "+vals["DataDir"]+"} is not s.config.DataDir)")
	}
	for k := range vals {
		if k != "Enabled" && k != "Interval" && k != "DataDir" {
			lost = append(lost, where+" (telemetry.Config literal sets the field "+k+", which is not modelled)")
		}
	}
	return out
}

// genTelemetryPath emits the facts of this file into l.
func genTelemetryPath(l *leanFile, tf, sf *file) {
	l.lines = append(l.lines, "open Liftbridge.TelemetryTypes")

	// DefaultConfig()
	dEn, dIv, dDir := true, int64(86400e9), "./data"
	okDef := false
	if fd := tf.fn("DefaultConfig"); fd != nil && len(fd.Body.List) == 1 {
		if rs, ok := fd.Body.List[0].(*ast.ReturnStmt); ok && len(rs.Results) == 1 {
			if u, ok := rs.Results[0].(*ast.UnaryExpr); ok && u.Op == token.AND {
				if cl, ok := u.X.(*ast.CompositeLit); ok && nows(tf.src(cl.Type)) == "Config" {
					got := map[string]bool{}
					en, iv, dir := false, int64(0), ""
					good := true
					for _, el := range cl.Elts {
						kv, ok := el.(*ast.KeyValueExpr)
						if !ok {
							good = false
							break
						}
						k := nows(tf.src(kv.Key))
						got[k] = true
						switch k {
						case "Enabled":
							t := nows(tf.src(kv.Value))
							if t != "true" && t != "false" {
								good = false
							}
							en = t == "true"
						case "Interval":
							v, ok := evalDur(tf, kv.Value, 0)
							if !ok {
								good = false
							}
							iv = v
						case "DataDir":
							if bl, ok := kv.Value.(*ast.BasicLit); ok && bl.Kind == token.STRING {
								dir, _ = strconv.Unquote(bl.Value)
							} else {
								good = false
							}
						default:
							good = false
						}
					}
					if good {
						okDef = true
						dEn, dIv, dDir = en, iv, dir
					}
				}
			}
		}
	}
	if !okDef {
		lost = append(lost, telemetryGo+":DefaultConfig (not a single `return &Config{Enabled: <bool>, Interval: <const>, DataDir: <string>}`)")
	}
	l.def("dfltEnabled", "Bool", leanBool(dEn), "DefaultConfig().Enabled")
	l.def("dfltIntervalNs", "Int", leanInt(dIv), "DefaultConfig().Interval in nanoseconds")
	l.def("dfltDataDir", "String", leanStr(dDir), "DefaultConfig().DataDir")
	facts["Telemetry.dfltEnabled"], facts["Telemetry.dfltIntervalNs"] = dEn, dIv

	// fields of Config
	var fields []string
	if st := tf.structType("Config"); st != nil {
		for _, fl := range st.Fields.List {
			if len(fl.Names) == 0 {
				fields = append(fields, "embedded:"+tf.src(fl.Type))
			}
			for _, n := range fl.Names {
				fields = append(fields, n.Name)
			}
		}
	} else {
		lost = append(lost, telemetryGo+":Config (struct not found)")
	}
	l.def("configFields", "List String", leanStrList(fields), "fields of telemetry.Config, declaration order")
	facts["Telemetry.configFields"] = fields

	steps, stores := telemetryNewSteps(tf)
	l.def("newSteps", "List Rewrite", "["+strings.Join(steps, ", ")+"]", "telemetry.New: every guarded block that writes to its *Config parameter, in order (net effect per field)")
	l.def("newStoresParam", "Bool", leanBool(stores), "telemetry.New: Collector{config: <the parameter>}")
	facts["Telemetry.newSteps"], facts["Telemetry.newStoresParam"] = steps, stores

	ws := configWriteSites(tf)
	l.def("configWriteSites", "List String", leanStrList(ws), "assignments to / through a `config` field anywhere in package telemetry (the Collector literal is not an assignment)")
	facts["Telemetry.configWriteSites"] = ws

	// loadOrCreateInstanceID
	l.cmp("idLenGuard", telemetryGo, "loadOrCreateInstanceID", "len(data) ? 0", 0, "gt")
	paths := idPathsOf(tf)
	l.def("idPaths", "List IdPath", "[\n  "+strings.Join(paths, ",\n  ")+"]", "loadOrCreateInstanceID: every syntactic path to a return, first match wins (paths are mutually exclusive by construction)")
	facts["Telemetry.idPaths"] = paths

	// Server.Start: the argument
	arg := startArgFacts{enabled: ".unknown"}
	if fd := sf.fn("Server.Start"); fd != nil {
		arg = serverStartArg(sf, fd)
	}
	l.def("startArgEnabled", "Src Bool", arg.enabled, "Server.Start: telemetry.Config{Enabled: …} (.keep = s.config.Telemetry.Enabled; key absent = .lit false)")
	l.def("startArgIntervalFromConfig", "Bool", leanBool(arg.intervalFromConfig), "Server.Start: telemetry.Config{Interval: time.Duration(s.config.Telemetry.IntervalSeconds) * time.Second}")
	l.def("startArgDataDirFromConfig", "Bool", leanBool(arg.dataDirFromConfig), "Server.Start: telemetry.Config{DataDir: s.config.DataDir}")
	facts["Telemetry.startArgEnabled"] = arg.enabled
}
