package main

import (
	"fmt"
	"go/ast"
	"go/token"
	"os"
	"path/filepath"
	"strings"
)

const failoverGo = "server/failover.go"

// tryGuard is guard() without recording a loss.
func tryGuard(rel, fn, pattern string, nth int) (string, bool) {
	n := len(lost)
	op, ok := guard(rel, fn, pattern, nth)
	lost = lost[:n]
	return op, ok
}

// stmtTexts returns the whitespace-free texts of every statement (at any depth, function
// literals included) of fnName, in source order.
func stmtTexts(rel, fnName string) []string {
	f := load(rel)
	fd := f.fn(fnName)
	if fd == nil || fd.Body == nil {
		return nil
	}
	var out []string
	ast.Inspect(fd.Body, func(n ast.Node) bool {
		if s, ok := n.(ast.Stmt); ok {
			if _, blk := s.(*ast.BlockStmt); !blk {
				out = append(out, nows(f.src(s)))
			}
		}
		return true
	})
	return out
}

// indexOfStmt: position of the first statement whose text starts with prefix (-1 if none).
func indexOfStmt(ss []string, prefix string) int {
	p := nows(prefix)
	for i, s := range ss {
		if strings.HasPrefix(s, p) {
			return i
		}
	}
	return -1
}

// ifReturns reports whether fnName has `if <cond> { … return … }` with exactly this condition.
func ifReturns(rel, fnName, cond string) bool {
	f := load(rel)
	fd := f.fn(fnName)
	if fd == nil || fd.Body == nil {
		return false
	}
	found := false
	ast.Inspect(fd.Body, func(n ast.Node) bool {
		is, ok := n.(*ast.IfStmt)
		if !ok || nows(f.src(is.Cond)) != nows(cond) {
			return true
		}
		for _, st := range is.Body.List {
			if _, ok := st.(*ast.ReturnStmt); ok {
				found = true
			}
		}
		return true
	})
	return found
}

// genFailover emits the decision points of partition leader failover and ISR changes (C07).
func genFailover() *leanFile {
	l := newLean("Failover", "/repo/"+metadataGo+", /repo/"+failoverGo+", /repo/"+partitionGo+", /repo/"+fsmGo)

	// --- the (leader, epoch) staleness checks of the three requests: `req.Leader != leader || req.LeaderEpoch != epoch`
	for _, fn := range []struct{ name, fn string }{{"Shrink", "metadataAPI.ShrinkISR"}, {"Expand", "metadataAPI.ExpandISR"}, {"Report", "metadataAPI.ReportLeader"}} {
		l.cmp("staleLeader"+fn.name, metadataGo, fn.fn, "req.Leader ? leader", 0, "ne")
		l.cmp("staleEpoch"+fn.name, metadataGo, fn.fn, "req.LeaderEpoch ? epoch", 0, "ne")
		// connective and consequence: the condition is the disjunction and its body returns
		lop, ok1 := tryGuard(metadataGo, fn.fn, "req.Leader ? leader", 0)
		eop, ok2 := tryGuard(metadataGo, fn.fn, "req.LeaderEpoch ? epoch", 0)
		sym := map[string]string{"ne": "!=", "eq": "==", "lt": "<", "le": "<=", "gt": ">", "ge": ">="}
		if !(ok1 && ok2 && ifReturns(metadataGo, fn.fn, "req.Leader "+sym[lop]+" leader || req.LeaderEpoch "+sym[eop]+" epoch")) {
			lost = append(lost, metadataGo+":"+fn.fn+": if req.Leader · leader || req.LeaderEpoch · epoch { return … }")
		}
	}

	// --- failoverStatus.report: quorum test; what is counted
	counted := false
	if op, ok := tryGuard(failoverGo, "failoverStatus.report", "reports ? f.failover.Quorum()", 0); ok {
		// repaired shape: `for reporter := range f.witnesses { if f.failover.IsWitness(reporter) { reports++ } }`
		ss := stmtTexts(failoverGo, "failoverStatus.report")
		loop := indexOfStmt(ss, "for reporter := range f.witnesses {")
		inc := indexOfStmt(ss, "if f.failover.IsWitness(reporter) { reports++ }")
		use := indexOfStmt(ss, "leaderFailed := reports")
		if loop >= 0 && inc > loop && use > inc {
			counted = true
			l.def("quorumCmp", "Cmp", "."+op, "reports · f.failover.Quorum()  (failoverStatus.report; reports = number of witnesses with IsWitness)")
			facts["Failover.quorumCmp"] = op
		}
	}
	if !counted {
		l.cmp("quorumCmp", failoverGo, "failoverStatus.report", "len(f.witnesses) ? f.failover.Quorum()", 0, "gt")
	}
	// partitionFailover.IsWitness = in-sync follower
	follower := false
	if fd := load(failoverGo).fn("partitionFailover.IsWitness"); fd != nil && fd.Body != nil {
		for _, st := range fd.Body.List {
			if nows(load(failoverGo).src(st)) == nows("return reporter != leader && p.partition.inISR(reporter)") {
				follower = true
			}
		}
		ss := stmtTexts(failoverGo, "partitionFailover.IsWitness")
		if indexOfStmt(ss, "leader, _ := p.partition.GetLeader()") < 0 {
			follower = false
		}
		if !follower {
			lost = append(lost, failoverGo+":partitionFailover.IsWitness (expected: reporter != leader && p.partition.inISR(reporter))")
		}
	}
	if counted != follower {
		lost = append(lost, failoverGo+": report counts IsWitness reporters but partitionFailover.IsWitness is not the in-sync-follower test (or vice versa)")
	}
	l.def("witnessFollowerOnly", "Bool", boolLit(counted && follower),
		"only witnesses that are in-sync followers (≠ leader, in the ISR) at the time of the test count towards the quorum")

	// witness insertion and timer handling keep their shape
	{
		ss := stmtTexts(failoverGo, "failoverStatus.report")
		ins := indexOfStmt(ss, "f.witnesses[witness] = struct{}{}")
		test := indexOfStmt(ss, "leaderFailed :=")
		if !(ins >= 0 && test > ins) {
			lost = append(lost, failoverGo+":failoverStatus.report (witness inserted before the quorum test)")
		}
		if !ifReturns(failoverGo, "failoverStatus.report", "leaderFailed") ||
			indexOfStmt(ss, "f.timer.Stop()") < 0 || indexOfStmt(ss, "f.timer.Reset(f.failover.Timeout())") < 0 ||
			indexOfStmt(ss, "f.timer = time.AfterFunc(f.failover.Timeout(), f.failover.OnExpired)") < 0 {
			lost = append(lost, failoverGo+":failoverStatus.report (if leaderFailed { stop timer; return Failover } else (re)arm timer)")
		}
	}

	// Quorum = (ISRSize() - a) / b
	qa, qb, qok := int64(1), int64(2), false
	if fd := load(failoverGo).fn("partitionFailover.Quorum"); fd != nil && fd.Body != nil && len(fd.Body.List) == 1 {
		if rs, ok := fd.Body.List[0].(*ast.ReturnStmt); ok && len(rs.Results) == 1 {
			if q, ok := rs.Results[0].(*ast.BinaryExpr); ok && q.Op == token.QUO {
				if p, ok := q.X.(*ast.ParenExpr); ok {
					if sub, ok := p.X.(*ast.BinaryExpr); ok && sub.Op == token.SUB &&
						nows(load(failoverGo).src(sub.X)) == "p.partition.ISRSize()" {
						a, ok1 := sub.Y.(*ast.BasicLit)
						b, ok2 := q.Y.(*ast.BasicLit)
						if ok1 && ok2 {
							if _, e1 := fmt.Sscan(a.Value, &qa); e1 == nil {
								if _, e2 := fmt.Sscan(b.Value, &qb); e2 == nil {
									qok = true
								}
							}
						}
					}
				}
			}
		}
	}
	if !qok {
		lost = append(lost, failoverGo+":partitionFailover.Quorum (expected: return (p.partition.ISRSize() - a) / b)")
		qa, qb = 1, 2
	}
	l.def("quorumSub", "Nat", fmt.Sprint(qa), "Quorum = (ISRSize() - quorumSub) / quorumDiv")
	l.def("quorumDiv", "Nat", fmt.Sprint(qb), "")

	// --- electNewPartitionLeader
	l.cmp("electIsrCmp", metadataGo, "metadataAPI.electNewPartitionLeader", "len(isr) ? 1", 0, "le")
	if op, ok := tryGuard(metadataGo, "metadataAPI.electNewPartitionLeader", "candidate ? oldLeader", 0); ok {
		l.def("electSkipCmp", "Cmp", "."+op, "candidate · oldLeader  (metadataAPI.electNewPartitionLeader)")
	} else {
		l.cmp("electSkipCmp", metadataGo, "metadataAPI.electNewPartitionLeader", "candidate ? leader", 0, "eq")
	}
	l.cmp("electNoneCmp", metadataGo, "metadataAPI.electNewPartitionLeader", "len(candidates) ? 0", 0, "eq")
	{
		ss := stmtTexts(metadataGo, "metadataAPI.selectPartitionLeader")
		if indexOfStmt(ss, "return replicas[0]") < 0 {
			lost = append(lost, metadataGo+":metadataAPI.selectPartitionLeader (returns one of the candidates: replicas[0] after a sort)")
		}
	}

	// --- commit side: epochs
	l.cmp("setLeaderCmp", partitionGo, "partition.SetLeader", "epoch ? p.LeaderEpoch", 0, "lt")
	l.cmp("idemShrinkCmp", metadataGo, "metadataAPI.RemoveFromISR", "partition.GetEpoch() ? epoch", 0, "ge")
	l.cmp("idemExpandCmp", metadataGo, "metadataAPI.AddToISR", "partition.GetEpoch() ? epoch", 0, "ge")
	l.cmp("idemChangeCmp", metadataGo, "metadataAPI.ChangeLeader", "partition.GetEpoch() ? epoch", 0, "ge")
	for _, c := range []struct{ fn, cond string }{
		{"partition.RemoveFromISR", "!p.inReplicas(replica)"}, {"partition.AddToISR", "!p.inReplicas(rep)"}} {
		if !ifReturns(partitionGo, c.fn, c.cond) {
			lost = append(lost, partitionGo+":"+c.fn+": if "+c.cond+" { return error }")
		}
	}
	{
		// the epoch handed to the apply functions is the Raft index of the entry
		ss := stmtTexts(fsmGo, "Server.apply")
		for _, call := range []string{
			"if err := s.applyShrinkISR(stream, replica, partition, index); err != nil {",
			"if err := s.applyExpandISR(stream, replica, partition, index); err != nil {",
			"if err := s.applyChangePartitionLeader(stream, leader, partition, index); err != nil {",
			"partition.LeaderEpoch = index", "partition.Epoch = index"} {
			if indexOfStmt(ss, call) < 0 {
				lost = append(lost, fsmGo+":Server.apply: "+call)
			}
		}
		cs := stmtTexts(metadataGo, "metadataAPI.ChangeLeader")
		a, b := indexOfStmt(cs, "if err := partition.SetLeader(leader, epoch); err != nil {"), indexOfStmt(cs, "partition.SetEpoch(epoch)")
		if !(a >= 0 && b > a) {
			lost = append(lost, metadataGo+":metadataAPI.ChangeLeader (SetLeader(leader, epoch) then SetEpoch(epoch))")
		}
	}

	// --- structural facts (the repairs proposed by fixes/C07-*.diff)
	// (a) the failover entry is dropped when a failover is triggered, and when the leader changes
	dropTrig := false
	{
		ss := stmtTexts(metadataGo, "metadataAPI.newPartitionFailoverHandler")
		d, e := indexOfStmt(ss, "delete(m.partitionFailovers, p)"), indexOfStmt(ss, "return m.electNewPartitionLeader(ctx, p)")
		if e < 0 {
			lost = append(lost, metadataGo+":metadataAPI.newPartitionFailoverHandler (return m.electNewPartitionLeader(ctx, p))")
		}
		dropTrig = d >= 0 && e > d
	}
	l.def("dropOnTrigger", "Bool", boolLit(dropTrig), "newPartitionFailoverHandler deletes partitionFailovers[p] before electing")
	dropChange := false
	{
		cs := stmtTexts(metadataGo, "metadataAPI.ChangeLeader")
		a, b := indexOfStmt(cs, "if err := partition.SetLeader(leader, epoch); err != nil {"), indexOfStmt(cs, "m.dropPartitionFailover(partition)")
		ds := stmtTexts(metadataGo, "metadataAPI.dropPartitionFailover")
		dropChange = a >= 0 && b > a && indexOfStmt(ds, "delete(m.partitionFailovers, p)") >= 0
	}
	l.def("dropOnChange", "Bool", boolLit(dropChange), "ChangeLeader (commit) deletes partitionFailovers[partition] after SetLeader")

	// (c) the (leader, epoch) pair — and the candidate — are validated again by the precondition
	// callback, i.e. under the Raft lock after the barrier
	gen := false
	{
		gs := stmtTexts(metadataGo, "metadataAPI.checkLeaderGeneration")
		gen = indexOfStmt(gs, "if curLeader, curEpoch := partition.GetLeader(); leader != curLeader || epoch != curEpoch {") >= 0 &&
			indexOfStmt(gs, "if err := m.partitionExists(streamName, partitionID); err != nil {") >= 0
	}
	has := func(fn, stmt string) bool { return indexOfStmt(stmtTexts(metadataGo, fn), stmt) >= 0 }
	lockShrink := gen && has("metadataAPI.checkShrinkISRPreconditions",
		"return m.checkLeaderGeneration(op.ShrinkISROp.Stream, op.ShrinkISROp.Partition, op.ShrinkISROp.Leader, op.ShrinkISROp.LeaderEpoch)")
	lockExpand := gen && has("metadataAPI.checkExpandISRPreconditions",
		"return m.checkLeaderGeneration(op.ExpandISROp.Stream, op.ExpandISROp.Partition, op.ExpandISROp.Leader, op.ExpandISROp.LeaderEpoch)")
	lockChange := gen && anyHas(stmtTexts(metadataGo, "metadataAPI.electNewPartitionLeader"), "oldLeader, oldEpoch = partition.GetLeader()") &&
		has("metadataAPI.electNewPartitionLeader", "if err := m.checkLeaderGeneration(partition.Stream, partition.Id, oldLeader, oldEpoch); err != nil {") &&
		has("metadataAPI.electNewPartitionLeader", "if current == nil || !current.inISR(leader) {") &&
		has("metadataAPI.electNewPartitionLeader", "future, err := m.getRaft().applyOperation(ctx, op, checkPreconditions)")
	if !(lockShrink == lockExpand && lockExpand == lockChange) {
		lost = append(lost, fmt.Sprintf("%s: re-validation under the Raft lock is present for some requests only (shrink=%v expand=%v change=%v)",
			metadataGo, lockShrink, lockExpand, lockChange))
	}
	if !lockShrink && !has("metadataAPI.checkShrinkISRPreconditions", "return m.partitionExists(op.ShrinkISROp.Stream, op.ShrinkISROp.Partition)") {
		lost = append(lost, metadataGo+":metadataAPI.checkShrinkISRPreconditions (neither partitionExists nor checkLeaderGeneration)")
	}
	if !lockExpand && !has("metadataAPI.checkExpandISRPreconditions", "return m.partitionExists(op.ExpandISROp.Stream, op.ExpandISROp.Partition)") {
		lost = append(lost, metadataGo+":metadataAPI.checkExpandISRPreconditions (neither partitionExists nor checkLeaderGeneration)")
	}
	if !lockChange && !has("metadataAPI.electNewPartitionLeader", "future, err := m.getRaft().applyOperation(ctx, op, m.checkChangeLeaderPreconditions)") {
		lost = append(lost, metadataGo+":metadataAPI.electNewPartitionLeader (applyOperation precondition callback)")
	}
	// the precondition callback runs under the Raft lock, after a barrier
	{
		rs := stmtTexts("server/raft.go", "raftNode.applyOperation")
		lk, br, ck, ap := indexOfStmt(rs, "r.Lock()"), indexOfStmt(rs, "barrierFuture :="), indexOfStmt(rs, "if err := checkPreconditions(op); err != nil {"), indexOfStmt(rs, "return newTimeoutFuture(deadline, r.Apply(")
		if !(lk >= 0 && br > lk && ck > br && ap > ck && indexOfStmt(rs, "defer r.Unlock()") > lk) {
			lost = append(lost, "server/raft.go:raftNode.applyOperation (Lock; Barrier; checkPreconditions; Apply)")
		}
	}
	// …and it is the only place where the server proposes to Raft: `<x>.Apply(data, timeout)` occurs
	// once in the non-test files of package server (inside raftNode.applyOperation)
	{
		n, where := 0, []string{}
		ents, _ := os.ReadDir(filepath.Join(repo, "server"))
		for _, e := range ents {
			if e.IsDir() || !strings.HasSuffix(e.Name(), ".go") || strings.HasSuffix(e.Name(), "_test.go") {
				continue
			}
			f := load("server/" + e.Name())
			for _, d := range f.f.Decls {
				fd, ok := d.(*ast.FuncDecl)
				if !ok || fd.Body == nil {
					continue
				}
				ast.Inspect(fd.Body, func(x ast.Node) bool {
					if ce, ok := x.(*ast.CallExpr); ok && len(ce.Args) == 2 {
						if se, ok := ce.Fun.(*ast.SelectorExpr); ok && se.Sel.Name == "Apply" {
							n++
							where = append(where, e.Name()+":"+fd.Name.Name)
						}
					}
					return true
				})
			}
		}
		if n != 1 || where[0] != "raft.go:applyOperation" {
			lost = append(lost, fmt.Sprintf("server/raft.go: Raft proposals outside raftNode.applyOperation (call sites of .Apply(data, timeout): %v)", where))
		}
		facts["Failover.raftApplySites"] = where
	}
	l.def("underLock", "Bool", boolLit(lockShrink && lockExpand && lockChange),
		"the (leader, epoch) pair of ShrinkISR/ExpandISR and the (leader, epoch, candidate) of a leader change are validated by the applyOperation precondition (Raft lock held, FSM up to date)")

	// (d) requests that cannot be applied are refused when they come in
	shrinkLeader := ifReturns(metadataGo, "metadataAPI.ShrinkISR", "req.ReplicaToRemove == leader")
	shrinkRep := ifReturns(metadataGo, "metadataAPI.ShrinkISR", "!partition.inReplicas(req.ReplicaToRemove)")
	expandRep := ifReturns(metadataGo, "metadataAPI.ExpandISR", "!partition.inReplicas(req.ReplicaToAdd)")
	if shrinkRep != expandRep {
		lost = append(lost, metadataGo+": replica membership is checked for one of ShrinkISR/ExpandISR only")
	}
	l.def("shrinkRefusesLeader", "Bool", boolLit(shrinkLeader), "ShrinkISR: if req.ReplicaToRemove == leader { refuse }")
	l.def("isrChangeRequiresReplica", "Bool", boolLit(shrinkRep && expandRep), "ShrinkISR/ExpandISR: if !partition.inReplicas(replica) { refuse }")
	return l
}
