package main

import (
	"go/ast"
	"go/token"
	"os"
	"path/filepath"
	"sort"
	"strconv"
	"strings"
)

// genSealPipe regenerates the SEAL / DELIVER PIPELINE of package server (C17): a table of
// every place where a commit-log message is built from a received publish and put into the
// partition log, and of every place where a stored message is read back and handed on.
//
// Ingest side (all non-test files of /repo/server):
//   - a "builder" is a function that returns *commitlog.Message and contains a
//     `commitlog.Message{…}` literal (today: natsToProtoMessage). A literal anywhere else is an
//     unclassified construction => lost.
//   - an INGEST SITE is a call of a builder. It must have the shape `m := builder(…)` as a
//     statement of a block; the statements that follow in the same block are scanned for
//         if <recv>.encryptionHandler != nil {            (guarded)
//             c, err := <recv>.encryptionHandler.Seal(m.Value)
//             if err != nil { …; continue|return }          (errSkips)
//             m.Value = c                                    (seals)
//         }
//         B = append(B, m)                                   (the store into the batch)
//     `seals` needs the seal block BEFORE the store and no other assignment to m.Value between
//     the seal and the store. A site whose message is never stored, or stored in a way that is
//     not recognised, is lost.
//   - every `<x>.log.Append(B)` must be fed only by stores of classified sites of the same
//     function; every `<x>.log.AppendMessageSet(…)` must be the follower's copy of the leader's
//     stored bytes (partition.handleReplicationResponse) — anything else is lost.
//
// Deliver side:
//   - a DELIVER SITE is a call `<r>.ReadMessage(…)` outside the replicator (whose reads are
//     copied verbatim to followers, never to clients). It must have the shape
//         m, … := reader.ReadMessage(…)
//         v := m.Value()
//         if <recv>.encryptionHandler != nil {            (guarded)
//             d, err := <recv>.encryptionHandler.Read(v)
//             if err != nil { s := status.Convert(err); …errCh <- s…; return }   (errReports, errEnds)
//             v = d                                          (reads)
//         }
//         … client.Message{…, Value: v, …} …                (deliversRead; the only literal)
//     `errEnds` = the error branch ends in `return` and sends nothing on the message channel;
//     `errReports` = it sends a status derived from err. `m.Value()` used anywhere else in the
//     function, or a second client.Message literal with a Value, is lost.
//   - every `<x>.log.NewReader/NewReverseReader(…)` must sit in a function that contains a
//     classified read site, calls a function that does, or belongs to the replicator.
//
// Lost entries carry the prefix "server/partition.go#seal-pipeline" whatever file they are in,
// so that only C17 treats them as relevant.
const sealPipeID = "server/partition.go#seal-pipeline"

type spIngest struct {
	fn, ctx, file          string
	line                   int
	guarded, seals, skips  bool
	storePos               token.Pos
	batch                  string
	varName, handler, note string
}

type spDeliver struct {
	fn, file                                     string
	line                                         int
	guarded, reads, errReports, errEnds, delRead bool
}

func spServerFiles() []string {
	ents, err := os.ReadDir(filepath.Join(repo, "server"))
	if err != nil {
		return nil
	}
	var out []string
	for _, e := range ents {
		n := e.Name()
		if e.IsDir() || !strings.HasSuffix(n, ".go") || strings.HasSuffix(n, "_test.go") {
			continue
		}
		out = append(out, "server/"+n)
	}
	sort.Strings(out)
	return out
}

func spFuncName(fd *ast.FuncDecl) string {
	r := ""
	if fd.Recv != nil && len(fd.Recv.List) > 0 {
		t := fd.Recv.List[0].Type
		if s, ok := t.(*ast.StarExpr); ok {
			t = s.X
		}
		if id, ok := t.(*ast.Ident); ok {
			r = id.Name + "."
		}
	}
	return r + fd.Name.Name
}

// spParents maps every node below root to its parent.
func spParents(root ast.Node) map[ast.Node]ast.Node {
	par := map[ast.Node]ast.Node{}
	var stack []ast.Node
	ast.Inspect(root, func(n ast.Node) bool {
		if n == nil {
			stack = stack[:len(stack)-1]
			return true
		}
		if len(stack) > 0 {
			par[n] = stack[len(stack)-1]
		}
		stack = append(stack, n)
		return true
	})
	return par
}

// spStmtList returns the statement list that directly contains st, and its index there.
func spStmtList(par map[ast.Node]ast.Node, st ast.Stmt) ([]ast.Stmt, int) {
	var list []ast.Stmt
	switch p := par[st].(type) {
	case *ast.BlockStmt:
		list = p.List
	case *ast.CaseClause:
		list = p.Body
	case *ast.CommClause:
		list = p.Body
	}
	for i, s := range list {
		if s == st {
			return list, i
		}
	}
	return nil, -1
}

func spIsHandlerGuard(f *file, cond ast.Expr) (string, bool) {
	be, ok := cond.(*ast.BinaryExpr)
	if !ok || be.Op != token.NEQ {
		return "", false
	}
	if id, ok := be.Y.(*ast.Ident); !ok || id.Name != "nil" {
		return "", false
	}
	sel, ok := be.X.(*ast.SelectorExpr)
	if !ok || sel.Sel.Name != "encryptionHandler" {
		return "", false
	}
	return nows(f.src(be.X)), true
}

// spLeaves reports whether the statement list ends by leaving the current iteration /
// function: `continue [label]` or `return`.
func spLeaves(list []ast.Stmt) (leaves, returns bool) {
	if len(list) == 0 {
		return false, false
	}
	switch s := list[len(list)-1].(type) {
	case *ast.ReturnStmt:
		return true, true
	case *ast.BranchStmt:
		return s.Tok == token.CONTINUE, false
	}
	return false, false
}

// spCodecBlock analyses the body of `if handler != nil { … }`:
//
//	c, err := handler.<method>(<arg>)
//	if err != nil { … }
//	<target> = c
//
// and returns the error branch and whether the result is assigned to target afterwards.
func spCodecBlock(f *file, body []ast.Stmt, handler, method, arg, target string) (found bool, errBody []ast.Stmt, assigned bool) {
	res, errName := "", ""
	stage := 0
	for _, st := range body {
		switch stage {
		case 0:
			as, ok := st.(*ast.AssignStmt)
			if !ok || len(as.Lhs) != 2 || len(as.Rhs) != 1 {
				continue
			}
			ce, ok := as.Rhs[0].(*ast.CallExpr)
			if !ok || nows(f.src(ce.Fun)) != handler+"."+method || len(ce.Args) != 1 || nows(f.src(ce.Args[0])) != arg {
				continue
			}
			res, errName = nows(f.src(as.Lhs[0])), nows(f.src(as.Lhs[1]))
			found = true
			stage = 1
		case 1, 2:
			if is, ok := st.(*ast.IfStmt); ok && stage == 1 && nows(f.src(is.Cond)) == errName+"!=nil" && is.Else == nil {
				errBody = is.Body.List
				stage = 2
				continue
			}
			if as, ok := st.(*ast.AssignStmt); ok && len(as.Lhs) == 1 && len(as.Rhs) == 1 && nows(f.src(as.Lhs[0])) == target {
				// the last assignment to the target decides
				assigned = stage == 2 && as.Tok == token.ASSIGN && nows(f.src(as.Rhs[0])) == res
			}
		}
	}
	return
}

func spAssignsTo(f *file, n ast.Node, target string) bool {
	hit := false
	ast.Inspect(n, func(x ast.Node) bool {
		if as, ok := x.(*ast.AssignStmt); ok {
			for _, l := range as.Lhs {
				if nows(f.src(l)) == target {
					hit = true
				}
			}
		}
		return true
	})
	return hit
}

func spIngestCtx(par map[ast.Node]ast.Node, n ast.Node) string {
	// innermost select the site sits in
	for x := par[n]; x != nil; x = par[x] {
		cc, ok := x.(*ast.CommClause)
		if !ok {
			continue
		}
		sel, _ := par[par[cc]].(*ast.SelectStmt)
		if sel == nil {
			return "other"
		}
		hasDefault := false
		for _, c := range sel.Body.List {
			if c.(*ast.CommClause).Comm == nil {
				hasDefault = true
			}
		}
		if hasDefault {
			return "queued" // non-blocking receive: messages that are already there
		}
		for y := par[sel]; y != nil; y = par[y] {
			if oc, ok := y.(*ast.CommClause); ok && oc.Comm == nil {
				return "waiting" // blocking receive inside a default branch: waits for the batch to fill
			}
		}
		return "blocking"
	}
	return "first"
}

func genSealPipe() *leanFile {
	l := newLean("SealPipe", "/repo/server/*.go (non-test)", "Liftbridge.Model.SealSite")
	lose := func(what string) { lost = append(lost, sealPipeID+": "+what) }

	filesList := spServerFiles()
	if len(filesList) == 0 {
		lose("no source files under server/")
	}

	// ------------------------------------------------------------ builders and stray literals
	builders := map[string]bool{}
	for _, rel := range filesList {
		f := load(rel)
		for _, d := range f.f.Decls {
			fd, ok := d.(*ast.FuncDecl)
			if !ok || fd.Body == nil {
				continue
			}
			has := false
			ast.Inspect(fd.Body, func(n ast.Node) bool {
				if cl, ok := n.(*ast.CompositeLit); ok && cl.Type != nil && nows(f.src(cl.Type)) == "commitlog.Message" {
					has = true
				}
				return true
			})
			if !has {
				continue
			}
			retOK := fd.Type.Results != nil && len(fd.Type.Results.List) == 1 && nows(f.src(fd.Type.Results.List[0].Type)) == "*commitlog.Message"
			appends := false
			ast.Inspect(fd.Body, func(n ast.Node) bool {
				if ce, ok := n.(*ast.CallExpr); ok {
					if s, ok := ce.Fun.(*ast.SelectorExpr); ok && (s.Sel.Name == "Append" || s.Sel.Name == "AppendMessageSet") {
						appends = true
					}
				}
				return true
			})
			if retOK && !appends && fd.Recv == nil {
				builders[fd.Name.Name] = true
			} else {
				lose(rel + ":" + spFuncName(fd) + ": commitlog.Message{…} literal outside a builder function (unclassified construction)")
			}
		}
	}
	if len(builders) == 0 {
		lose("no function builds a commitlog.Message from a received publish (natsToProtoMessage not found)")
	}

	// ------------------------------------------------------------ ingest sites
	var ingest []spIngest
	appendCalls, replicaCopies := []string{}, []string{}
	for _, rel := range filesList {
		f := load(rel)
		for _, d := range f.f.Decls {
			fd, ok := d.(*ast.FuncDecl)
			if !ok || fd.Body == nil || (fd.Recv == nil && builders[fd.Name.Name]) {
				continue
			}
			fname := spFuncName(fd)
			par := spParents(fd.Body)
			var here []spIngest
			ast.Inspect(fd.Body, func(n ast.Node) bool {
				ce, ok := n.(*ast.CallExpr)
				if !ok {
					return true
				}
				id, ok := ce.Fun.(*ast.Ident)
				if !ok || !builders[id.Name] {
					return true
				}
				site := spIngest{fn: fname, file: rel, line: f.fset.Position(ce.Pos()).Line, ctx: spIngestCtx(par, ce)}
				where := rel + ":" + fname + ":" + strconv.Itoa(site.line)
				as, ok := par[ce].(*ast.AssignStmt)
				if !ok || as.Tok != token.DEFINE || len(as.Lhs) != 1 || len(as.Rhs) != 1 {
					lose(where + ": " + id.Name + "(…) is not of the shape `m := " + id.Name + "(…)`")
					return true
				}
				mv, ok := as.Lhs[0].(*ast.Ident)
				if !ok {
					lose(where + ": message is not bound to a variable")
					return true
				}
				site.varName = mv.Name
				list, idx := spStmtList(par, as)
				if idx < 0 {
					lose(where + ": `" + mv.Name + " := …` is not a statement of a block")
					return true
				}
				valueOf := mv.Name + ".Value"
				sealIdx, storeIdx := -1, -1
				for j := idx + 1; j < len(list) && storeIdx < 0; j++ {
					st := list[j]
					if is, ok := st.(*ast.IfStmt); ok {
						if h, ok := spIsHandlerGuard(f, is.Cond); ok && sealIdx < 0 && is.Else == nil && is.Init == nil {
							found, errBody, assigned := spCodecBlock(f, is.Body.List, h, "Seal", valueOf, valueOf)
							if found {
								sealIdx = j
								site.guarded = true
								site.handler = h
								site.seals = assigned
								leaves, _ := spLeaves(errBody)
								stores := false
								for _, es := range errBody {
									ast.Inspect(es, func(x ast.Node) bool {
										if c, ok := x.(*ast.CallExpr); ok {
											if fi, ok := c.Fun.(*ast.Ident); ok && fi.Name == "append" {
												stores = true
											}
										}
										return true
									})
								}
								site.skips = leaves && !stores
								continue
							}
						}
					}
					// the store: B = append(B, m)
					if as2, ok := st.(*ast.AssignStmt); ok && len(as2.Lhs) == 1 && len(as2.Rhs) == 1 {
						if c, ok := as2.Rhs[0].(*ast.CallExpr); ok {
							if fi, ok := c.Fun.(*ast.Ident); ok && fi.Name == "append" && len(c.Args) == 2 &&
								nows(f.src(c.Args[1])) == mv.Name && nows(f.src(c.Args[0])) == nows(f.src(as2.Lhs[0])) {
								storeIdx = j
								site.storePos = as2.Pos()
								site.batch = nows(f.src(as2.Lhs[0]))
								continue
							}
						}
					}
					// anything else that rewrites the value after the seal cancels it
					if sealIdx >= 0 && spAssignsTo(f, st, valueOf) {
						site.seals = false
						site.note = "value reassigned after Seal"
					}
				}
				if storeIdx < 0 {
					lose(where + ": no `B = append(B, " + mv.Name + ")` follows in the same block (where does the message go?)")
					return true
				}
				here = append(here, site)
				return true
			})
			// log appends of this function
			ast.Inspect(fd.Body, func(n ast.Node) bool {
				ce, ok := n.(*ast.CallExpr)
				if !ok {
					return true
				}
				s, ok := ce.Fun.(*ast.SelectorExpr)
				if !ok || !strings.HasSuffix(nows(f.src(s.X)), ".log") {
					return true
				}
				where := rel + ":" + fname + ":" + strconv.Itoa(f.fset.Position(ce.Pos()).Line)
				switch s.Sel.Name {
				case "Append":
					appendCalls = append(appendCalls, fname+": "+nows(f.src(ce)))
					if len(ce.Args) != 1 {
						lose(where + ": log.Append with unexpected arguments")
						return true
					}
					b := nows(f.src(ce.Args[0]))
					// every element put into b must come from a classified site
					ast.Inspect(fd.Body, func(x ast.Node) bool {
						as, ok := x.(*ast.AssignStmt)
						if !ok || len(as.Lhs) != 1 || len(as.Rhs) != 1 || nows(f.src(as.Lhs[0])) != b {
							return true
						}
						c, ok := as.Rhs[0].(*ast.CallExpr)
						if !ok {
							return true
						}
						if fi, ok := c.Fun.(*ast.Ident); !ok || fi.Name != "append" {
							return true
						}
						known := false
						for _, si := range here {
							if si.storePos == as.Pos() {
								known = true
							}
						}
						if !known {
							lose(where + ": " + nows(f.src(as)) + " feeds log.Append from an unclassified source")
						}
						return true
					})
					fed := false
					for _, si := range here {
						if si.batch == b {
							fed = true
						}
					}
					if !fed {
						lose(where + ": log.Append(" + b + ") is not fed by any classified ingest site")
					}
				case "AppendMessageSet":
					replicaCopies = append(replicaCopies, fname+": "+nows(f.src(ce)))
					if fname != "partition.handleReplicationResponse" {
						lose(where + ": log.AppendMessageSet outside the follower's replication path (unclassified append of raw bytes)")
					}
				}
				return true
			})
			ingest = append(ingest, here...)
		}
	}
	if len(ingest) == 0 {
		lose("no ingest site found")
	}
	if len(appendCalls) == 0 {
		lose("no log.Append call found")
	}

	// ------------------------------------------------------------ deliver sites
	var deliver []spDeliver
	replicaReads := []string{}
	readerFuncs := map[string]bool{} // functions containing a classified read (deliver or replicate)
	for _, rel := range filesList {
		f := load(rel)
		for _, d := range f.f.Decls {
			fd, ok := d.(*ast.FuncDecl)
			if !ok || fd.Body == nil {
				continue
			}
			fname := spFuncName(fd)
			par := spParents(fd.Body)
			ast.Inspect(fd.Body, func(n ast.Node) bool {
				ce, ok := n.(*ast.CallExpr)
				if !ok {
					return true
				}
				s, ok := ce.Fun.(*ast.SelectorExpr)
				if !ok || s.Sel.Name != "ReadMessage" {
					return true
				}
				line := f.fset.Position(ce.Pos()).Line
				where := rel + ":" + fname + ":" + strconv.Itoa(line)
				if strings.HasPrefix(fname, "replicator.") {
					replicaReads = append(replicaReads, fname+": "+nows(f.src(ce.Fun)))
					readerFuncs[fd.Name.Name] = true
					return true
				}
				site := spDeliver{fn: fname, file: rel, line: line}
				as, ok := par[ce].(*ast.AssignStmt)
				if !ok || len(as.Lhs) < 1 || len(as.Rhs) != 1 {
					lose(where + ": ReadMessage result is not bound by an assignment")
					return true
				}
				mv := nows(f.src(as.Lhs[0]))
				list, idx := spStmtList(par, as)
				if idx < 0 {
					lose(where + ": ReadMessage assignment is not a statement of a block")
					return true
				}
				// the function literal / function the read sits in
				var scope ast.Node = fd.Body
				for x := par[as]; x != nil; x = par[x] {
					if fl, ok := x.(*ast.FuncLit); ok {
						scope = fl.Body
						break
					}
				}
				// v := m.Value()  — exactly one use of m.Value() in the scope
				valVar, valIdx, uses := "", -1, 0
				ast.Inspect(scope, func(x ast.Node) bool {
					if c, ok := x.(*ast.CallExpr); ok && nows(f.src(c.Fun)) == mv+".Value" {
						uses++
					}
					return true
				})
				for j := idx + 1; j < len(list); j++ {
					if a2, ok := list[j].(*ast.AssignStmt); ok && len(a2.Lhs) == 1 && len(a2.Rhs) == 1 {
						if c, ok := a2.Rhs[0].(*ast.CallExpr); ok && nows(f.src(c.Fun)) == mv+".Value" {
							if id, ok := a2.Lhs[0].(*ast.Ident); ok {
								valVar, valIdx = id.Name, j
								break
							}
						}
					}
				}
				if valIdx < 0 || uses != 1 {
					lose(where + ": stored value is not taken by exactly one `v := " + mv + ".Value()` in the read loop")
					return true
				}
				// client.Message literals with a Value in the scope
				var lits []*ast.CompositeLit
				ast.Inspect(scope, func(x ast.Node) bool {
					if cl, ok := x.(*ast.CompositeLit); ok && cl.Type != nil && nows(f.src(cl.Type)) == "client.Message" {
						lits = append(lits, cl)
					}
					return true
				})
				if len(lits) != 1 {
					lose(where + ": expected exactly one client.Message{…} literal in the read loop, found " + strconv.Itoa(len(lits)))
					return true
				}
				litVal := ""
				for _, e := range lits[0].Elts {
					if kv, ok := e.(*ast.KeyValueExpr); ok && nows(f.src(kv.Key)) == "Value" {
						litVal = nows(f.src(kv.Value))
					}
				}
				if litVal != valVar {
					lose(where + ": client.Message.Value is `" + litVal + "`, not the variable holding the stored value (`" + valVar + "`)")
					return true
				}
				// the decryption block between v := m.Value() and the literal
				readSeen := false
				for j := valIdx + 1; j < len(list) && list[j].Pos() < lits[0].Pos(); j++ {
					st := list[j]
					if lits[0].Pos() >= st.Pos() && lits[0].End() <= st.End() {
						break
					}
					if is, ok := st.(*ast.IfStmt); ok && !readSeen {
						if h, ok := spIsHandlerGuard(f, is.Cond); ok && is.Else == nil && is.Init == nil {
							found, errBody, assigned := spCodecBlock(f, is.Body.List, h, "Read", valVar, valVar)
							if found {
								readSeen = true
								site.guarded = true
								site.reads = assigned
								site.delRead = assigned
								_, returns := spLeaves(errBody)
								// sends in the error branch: a status derived from err, nothing else
								errName := "err"
								statusVars := map[string]bool{}
								sendsStatus, sendsOther := false, false
								for _, es := range errBody {
									ast.Inspect(es, func(x ast.Node) bool {
										switch y := x.(type) {
										case *ast.AssignStmt:
											if len(y.Lhs) == 1 && len(y.Rhs) == 1 {
												if c, ok := y.Rhs[0].(*ast.CallExpr); ok {
													for _, a := range c.Args {
														if strings.Contains(nows(f.src(a)), errName) {
															statusVars[nows(f.src(y.Lhs[0]))] = true
														}
													}
												}
											}
										case *ast.SendStmt:
											if statusVars[nows(f.src(y.Value))] {
												sendsStatus = true
											} else {
												sendsOther = true
											}
										}
										return true
									})
								}
								site.errReports = sendsStatus
								site.errEnds = returns && !sendsOther
								continue
							}
						}
					}
					if readSeen && spAssignsTo(f, st, valVar) {
						site.reads, site.delRead = false, false
					}
				}
				readerFuncs[fd.Name.Name] = true
				deliver = append(deliver, site)
				return true
			})
		}
	}
	if len(deliver) == 0 {
		lose("no deliver site found (ReadMessage outside the replicator)")
	}
	// reader creation sites
	for _, rel := range filesList {
		f := load(rel)
		for _, d := range f.f.Decls {
			fd, ok := d.(*ast.FuncDecl)
			if !ok || fd.Body == nil {
				continue
			}
			fname := spFuncName(fd)
			creates := []string{}
			callsReader := false
			ast.Inspect(fd.Body, func(n ast.Node) bool {
				ce, ok := n.(*ast.CallExpr)
				if !ok {
					return true
				}
				if s, ok := ce.Fun.(*ast.SelectorExpr); ok {
					if (s.Sel.Name == "NewReader" || s.Sel.Name == "NewReverseReader") && strings.HasSuffix(nows(f.src(s.X)), ".log") {
						creates = append(creates, rel+":"+fname+":"+strconv.Itoa(f.fset.Position(ce.Pos()).Line))
					}
					if readerFuncs[s.Sel.Name] {
						callsReader = true
					}
				}
				return true
			})
			if len(creates) > 0 && !(readerFuncs[fd.Name.Name] || callsReader || strings.HasPrefix(fname, "replicator.")) {
				for _, c := range creates {
					lose(c + ": log reader created outside a classified read path")
				}
			}
		}
	}

	// ------------------------------------------------------------ emit
	sort.SliceStable(ingest, func(i, j int) bool {
		if ingest[i].file != ingest[j].file {
			return ingest[i].file < ingest[j].file
		}
		return ingest[i].line < ingest[j].line
	})
	var il, dl []string
	var fi, fd []map[string]interface{}
	for _, s := range ingest {
		il = append(il, "{ func := "+strconv.Quote(s.fn)+", ctx := "+strconv.Quote(s.ctx)+", guarded := "+boolLit(s.guarded)+
			", seals := "+boolLit(s.seals)+", errSkips := "+boolLit(s.skips)+" }")
		fi = append(fi, map[string]interface{}{"file": s.file, "func": s.fn, "line": s.line, "ctx": s.ctx, "guarded": s.guarded, "seals": s.seals, "errSkips": s.skips, "note": s.note})
	}
	for _, s := range deliver {
		dl = append(dl, "{ func := "+strconv.Quote(s.fn)+", guarded := "+boolLit(s.guarded)+", reads := "+boolLit(s.reads)+
			", errReports := "+boolLit(s.errReports)+", errEnds := "+boolLit(s.errEnds)+", deliversRead := "+boolLit(s.delRead)+" }")
		fd = append(fd, map[string]interface{}{"file": s.file, "func": s.fn, "line": s.line, "guarded": s.guarded, "reads": s.reads, "errReports": s.errReports, "errEnds": s.errEnds, "deliversRead": s.delRead})
	}
	facts["SealPipe.ingestSites"] = fi
	facts["SealPipe.deliverSites"] = fd
	strList := func(xs []string) string {
		q := make([]string, len(xs))
		for i, x := range xs {
			q[i] = strconv.Quote(x)
		}
		return "[" + strings.Join(q, ", ") + "]"
	}
	l.def("ingestSites", "List Liftbridge.SealPipe.IngestSite", "["+strings.Join(il, ",\n  ")+"]",
		"every `m := natsToProtoMessage(…)` of package server, in source order: is m.Value replaced by handler.Seal(m.Value) under `handler != nil` before m is put into the batch, and does a Seal error keep m out of the batch")
	l.def("deliverSites", "List Liftbridge.SealPipe.DeliverSite", "["+strings.Join(dl, ",\n  ")+"]",
		"every ReadMessage outside the replicator: is the stored value replaced by handler.Read(value) under `handler != nil` before it goes into the client.Message, and does a Read error end the loop with a status")
	sort.Strings(appendCalls)
	sort.Strings(replicaCopies)
	sort.Strings(replicaReads)
	l.def("appendCalls", "List String", strList(appendCalls), "every <x>.log.Append(batch): fed only by the stores of the ingest sites above")
	l.def("replicaCopies", "List String", strList(replicaCopies), "every <x>.log.AppendMessageSet(…): the follower's verbatim copy of what the leader stored")
	l.def("replicaReads", "List String", strList(replicaReads), "ReadMessage calls of the replicator: bytes go verbatim to followers, never to clients")
	var mine []string
	for _, x := range lost {
		if strings.HasPrefix(x, sealPipeID) {
			mine = append(mine, x)
		}
	}
	l.def("unclassified", "List String", strList(mine), "constructions / appends / reads of package server that could not be classified (also reported as lost)")
	return l
}
