/-
Helper lemmas for Props/C06.lean (metadata state machine, Model/Metadata.lean).

Part A: the observable part of the streams evolves by a function of the observable part alone
        (`obsStreams_applyOp`), the same function for a live and for a recovered apply.
-/
import Liftbridge.Model.Metadata
import Liftbridge.Proofs.Groups

namespace Liftbridge.Proofs.Metadata
open Liftbridge Liftbridge.Metadata

/-! ## A. streams -/

def nt (st : Stream) : Bool := !st.tombstone

def obsStreams (s : State) : List StreamObs := (s.streams.filter nt).map obsStream

theorem obs_streams (s : State) : (obs s).streams = obsStreams s := rfl

def updO (l : List StreamObs) (n : String) (f : StreamObs → StreamObs) : List StreamObs :=
  l.map fun st => if st.name = n then f st else st

def updPO (ps : List PartObs) (sel : PartObs → Bool) (f : PartObs → PartObs) : List PartObs :=
  ps.map fun p => if sel p then f p else p

def selIdsO (ids : List Nat) (p : PartObs) : Bool := ids.isEmpty || ids.contains p.id

def pauseO (p : PartObs) : PartObs := { p with paused := true, reportedPaused := true }
def resumeO (cfg : Cfg) (p : PartObs) : PartObs :=
  { p with paused := false, reportedPaused := if cfg.clearPaused then false else p.reportedPaused,
           readonly := cfg.restoreReadonly && p.reportedReadonly }
def roO (ro : Bool) (p : PartObs) : PartObs := { p with readonly := ro, reportedReadonly := ro }
def shrinkO (r : String) (idx : Nat) (p : PartObs) : PartObs :=
  if Gen.Metadata.shrinkEpochGuard.evalNat p.epoch idx then p else { p with isr := p.isr.filter (· ≠ r), epoch := idx }
def expandO (r : String) (idx : Nat) (p : PartObs) : PartObs :=
  if Gen.Metadata.expandEpochGuard.evalNat p.epoch idx then p
  else { p with isr := if p.isr.contains r then p.isr else p.isr ++ [r], epoch := idx }
def leaderO (l : String) (idx : Nat) (p : PartObs) : PartObs :=
  if Gen.Metadata.leaderEpochGuard.evalNat p.epoch idx then p else { p with leader := l, leaderEpoch := idx, epoch := idx }

/-- The transition of the observable streams. -/
def stepO (cfg : Cfg) (op : Op) (idx : Nat) (l : List StreamObs) : List StreamObs :=
  match op with
  | .create sp => l.filter (·.name ≠ sp.name) ++ [obsStream (mkStream cfg (stamp sp idx) false)]
  | .delete n => l.filter (·.name ≠ n)
  | .pause n ids _ => updO l n fun st => { st with parts := updPO st.parts (selIdsO ids) pauseO }
  | .resume n ids => updO l n fun st => { st with parts := updPO st.parts (fun p => ids.contains p.id && p.paused) (resumeO cfg) }
  | .readonly n ids ro => updO l n fun st => { st with parts := updPO st.parts (selIdsO ids) (roO ro) }
  | .shrink n pid r => updO l n fun st => { st with parts := updPO st.parts (·.id = pid) (shrinkO r idx) }
  | .expand n pid r => updO l n fun st => { st with parts := updPO st.parts (·.id = pid) (expandO r idx) }
  | .leader n pid ld => updO l n fun st => { st with parts := updPO st.parts (·.id = pid) (leaderO ld idx) }
  | _ => l

theorem map_updParts (ps : List Part) (sel : Part → Bool) (f : Part → Part)
    (selO : PartObs → Bool) (fo : PartObs → PartObs)
    (hsel : ∀ p, sel p = selO (obsPart p)) (hf : ∀ p, obsPart (f p) = fo (obsPart p)) :
    (updParts ps sel f).map obsPart = updPO (ps.map obsPart) selO fo := by
  induction ps with
  | nil => rfl
  | cons p ps ih =>
    simp only [updParts, updPO, List.map_cons] at ih ⊢
    rw [ih, hsel p]
    by_cases h : selO (obsPart p) = true
    · simp [h, hf]
    · simp [h]

theorem obsStream_name (st : Stream) : (obsStream st).name = st.name := rfl

theorem obsStreams_upd (ss : List Stream) (n : String) (f : Stream → Stream) (fo : StreamObs → StreamObs)
    (htomb : ∀ st, (f st).tombstone = st.tombstone)
    (hobs : ∀ st, obsStream (f st) = fo (obsStream st)) :
    ((updStream ss n f).filter nt).map obsStream = updO ((ss.filter nt).map obsStream) n fo := by
  have hg : ∀ st : Stream, nt (if st.name = n then f st else st) = nt st := by
    intro st; by_cases h : st.name = n <;> simp [h, nt, htomb]
  have ho : ∀ st : Stream, obsStream (if st.name = n then f st else st) =
      (if (obsStream st).name = n then fo (obsStream st) else obsStream st) := by
    intro st
    rw [obsStream_name]
    by_cases h : st.name = n
    · rw [if_pos h, if_pos h, hobs]
    · rw [if_neg h, if_neg h]
  unfold updStream updO
  rw [List.filter_map]
  have : (ss.filter (nt ∘ fun st => if st.name = n then f st else st)) = ss.filter nt := by
    apply List.filter_congr; intro st _; exact hg st
  rw [this, List.map_map, List.map_map]
  apply List.map_congr_left
  intro st _
  exact ho st

theorem obsStream_mk (cfg : Cfg) (sp : StreamP) (r : Bool) :
    obsStream (mkStream cfg sp r) = obsStream (mkStream cfg sp false) := by
  simp [obsStream, mkStream, obsPart, mkPart, List.map_map, Function.comp_def]

theorem filter_nt_filter_name (ss : List Stream) (n : String) :
    ((ss.filter (fun st => decide (st.name ≠ n))).filter nt).map obsStream =
      ((ss.filter nt).map obsStream).filter (fun o => decide (o.name ≠ n)) := by
  rw [List.filter_map, List.filter_filter, List.filter_filter]
  congr 1
  apply List.filter_congr
  intro st _
  simp only [Function.comp, obsStream_name]
  exact Bool.and_comm _ _

/-- Tombstoning a stream hides it, exactly like deleting it. -/
theorem obsStreams_tomb (ss : List Stream) (n : String) :
    ((updStream ss n fun st => { st with tombstone := true }).filter nt).map obsStream =
      ((ss.filter nt).map obsStream).filter (fun o => decide (o.name ≠ n)) := by
  unfold updStream
  rw [List.filter_map, List.filter_map, List.filter_filter, List.map_map]
  have h1 : ss.filter (nt ∘ fun st => if st.name = n then { st with tombstone := true } else st) =
      ss.filter (fun a => ((fun o : StreamObs => decide (o.name ≠ n)) ∘ obsStream) a && nt a) := by
    apply List.filter_congr
    intro st _
    simp only [Function.comp, obsStream_name]
    by_cases h : st.name = n <;> simp [h, nt]
  rw [h1]
  apply List.map_congr_left
  intro st hst
  have := (List.mem_filter.1 hst).2
  simp only [Function.comp, obsStream_name, Bool.and_eq_true, decide_eq_true_eq] at this
  have hne : ¬ st.name = n := of_decide_eq_true this.1
  simp only [Function.comp, if_neg hne]

/-- **The observable streams evolve by `stepO`, whether the op is applied live or in recovery mode.** -/
theorem obsStreams_applyOp (cfg : Cfg) (s : State) (op : Op) (idx : Nat) (r : Bool) :
    obsStreams (applyOp cfg s op idx r) = stepO cfg op idx (obsStreams s) := by
  cases op with
  | create sp =>
    simp only [applyOp, addStream, obsStreams, stepO]
    rw [List.filter_append, List.map_append, filter_nt_filter_name]
    have : [mkStream cfg (stamp sp idx) r].filter nt = [mkStream cfg (stamp sp idx) r] := by
      simp [List.filter_cons, nt, mkStream]
    rw [this, List.map_singleton, obsStream_mk]
    rfl
  | delete n =>
    cases r with
    | true => simp only [applyOp, obsStreams, stepO]; exact obsStreams_tomb s.streams n
    | false => simp only [applyOp, obsStreams, stepO]; exact filter_nt_filter_name s.streams n
  | pause n ids ra =>
    simp only [applyOp, obsStreams, stepO]
    apply obsStreams_upd
    · intro st; rfl
    · intro st
      simp only [obsStream]
      congr 1
      exact map_updParts st.parts (selIds ids) pausePart (selIdsO ids) pauseO (fun p => rfl) (fun p => rfl)
  | resume n ids =>
    simp only [applyOp, obsStreams, stepO]
    apply obsStreams_upd
    · intro st; rfl
    · intro st
      simp only [obsStream]
      congr 1
      exact map_updParts st.parts _ (resumePart cfg r) (fun p => ids.contains p.id && p.paused) (resumeO cfg) (fun p => rfl) (fun p => rfl)
  | readonly n ids ro =>
    simp only [applyOp, obsStreams, stepO]
    apply obsStreams_upd
    · intro st; rfl
    · intro st
      simp only [obsStream]
      congr 1
      exact map_updParts st.parts (selIds ids) (roPart ro) (selIdsO ids) (roO ro) (fun p => rfl) (fun p => rfl)
  | shrink n pid rp =>
    simp only [applyOp, obsStreams, stepO]
    apply obsStreams_upd
    · intro st; rfl
    · intro st
      simp only [obsStream]
      congr 1
      refine map_updParts st.parts _ (shrinkPart rp idx) (fun p => decide (p.id = pid)) (shrinkO rp idx) (fun p => rfl) ?_
      intro p
      by_cases h : Gen.Metadata.shrinkEpochGuard.evalNat p.epoch idx = true
      · simp [shrinkPart, shrinkO, staleShrink, obsPart, h]
      · simp [shrinkPart, shrinkO, staleShrink, obsPart, h]
  | expand n pid rp =>
    simp only [applyOp, obsStreams, stepO]
    apply obsStreams_upd
    · intro st; rfl
    · intro st
      simp only [obsStream]
      congr 1
      refine map_updParts st.parts _ (expandPart rp idx) (fun p => decide (p.id = pid)) (expandO rp idx) (fun p => rfl) ?_
      intro p
      by_cases h : Gen.Metadata.expandEpochGuard.evalNat p.epoch idx = true
      · simp [expandPart, expandO, staleExpand, obsPart, h]
      · simp [expandPart, expandO, staleExpand, obsPart, h]
  | leader n pid ld =>
    simp only [applyOp, obsStreams, stepO]
    apply obsStreams_upd
    · intro st; rfl
    · intro st
      simp only [obsStream]
      congr 1
      refine map_updParts st.parts _ (leaderPart ld idx) (fun p => decide (p.id = pid)) (leaderO ld idx) (fun p => rfl) ?_
      intro p
      by_cases h : Gen.Metadata.leaderEpochGuard.evalNat p.epoch idx = true
      · simp [leaderPart, leaderO, staleLeader, obsPart, h]
      · simp [leaderPart, leaderO, staleLeader, obsPart, h]
  | group gp => rfl
  | join gid cid ss => rfl
  | leave gid cid => rfl
  | coord gid c => rfl
  | activity k => rfl
  | unknown => rfl


/-! ## B. consumer groups up to the streams that are tombstoned -/

abbrev GObs := String × String × List Member

/-- Drop the names in `T` from a stream list. -/
def filtT (T : List String) (l : List String) : List String := l.filter (fun x => !T.contains x)

/-- A group as a client sees it once the streams in `T` (tombstoned, to be purged) are gone; no epoch. -/
def gobs (T : List String) (g : Group) : GObs := (g.id, g.coordinator, g.members.map fun m => (m.1, filtT T m.2))

def dropStream (n : String) (o : GObs) : GObs := (o.1, o.2.1, o.2.2.map fun m => (m.1, m.2.filter (· ≠ n)))

/-- Every stream a member subscribes to has a subscriber heap. -/
def MemSub (g : Group) : Prop := ∀ m ∈ g.members, ∀ x ∈ m.2, x ∈ g.subKeys

def EpochLe (gs : List Group) (i : Nat) : Prop := ∀ g ∈ gs, g.epoch ≤ i

theorem filtT_nil (l : List String) : filtT [] l = l := by simp [filtT]

theorem filtT_congr {T1 T2 : List String} {l : List String} (h : ∀ x ∈ l, (x ∈ T1 ↔ x ∈ T2)) :
    filtT T1 l = filtT T2 l := by
  unfold filtT
  apply List.filter_congr
  intro x hx
  have := h x hx
  by_cases h1 : x ∈ T1
  · have h2 := this.1 h1; simp [h1, h2]
  · have h2 : x ∉ T2 := fun h2 => h1 (this.2 h2); simp [h1, h2]

theorem filtT_id {T : List String} {l : List String} (h : ∀ x ∈ l, x ∉ T) : filtT T l = l := by
  unfold filtT
  rw [List.filter_eq_self]
  intro x hx
  simp [h x hx]

theorem filtT_drop {T T' : List String} (n : String) (l : List String)
    (hT : ∀ x, x ∈ T' ↔ (x = n ∨ x ∈ T)) : filtT T' l = (filtT T l).filter (· ≠ n) := by
  unfold filtT
  rw [List.filter_filter]
  apply List.filter_congr
  intro x _
  by_cases h1 : x = n
  · subst h1
    have : x ∈ T' := (hT x).2 (Or.inl rfl)
    simp [this]
  · by_cases h2 : x ∈ T
    · have : x ∈ T' := (hT x).2 (Or.inr h2); simp [h1, h2, this]
    · have : x ∉ T' := fun h => by rcases (hT x).1 h with h | h; exact h1 h; exact h2 h
      simp [h1, h2, this]

theorem filtT_filter_comm (T : List String) (n : String) (l : List String) :
    filtT T (l.filter (· ≠ n)) = (filtT T l).filter (· ≠ n) := by
  unfold filtT
  rw [List.filter_filter, List.filter_filter]
  apply List.filter_congr
  intro x _
  exact Bool.and_comm _ _

theorem gobs_congr {T1 T2 : List String} (g : Group) (h : ∀ x, (x ∈ T1 ↔ x ∈ T2)) : gobs T1 g = gobs T2 g := by
  unfold gobs
  congr 2
  apply List.map_congr_left
  intro m _
  rw [filtT_congr (fun x _ => h x)]

theorem dropStream_id (n : String) (T : List String) (g : Group) (h : subscribed g n = false) :
    dropStream n (gobs T g) = gobs T g := by
  simp only [gobs, dropStream, List.map_map]
  congr 2
  apply List.map_congr_left
  intro m hm
  simp only [Function.comp]
  congr 1
  rw [List.filter_eq_self]
  intro x hx
  have hx' : x ∈ m.2 := (List.mem_filter.1 hx).1
  apply decide_eq_true
  rintro rfl
  have : subscribed g x = true := List.any_eq_true.2 ⟨m, hm, by simpa using hx'⟩
  rw [h] at this; cases this

/-- `StreamDeleted` (accepted: the epoch is newer) removes the stream from every member. -/
theorem gobs_notify (cfg : Cfg) (T : List String) (n : String) (idx : Nat) (g : Group) (hsub : MemSub g)
    (he : g.epoch ≤ idx) : gobs T (notifyGroup cfg n idx g) = dropStream n (gobs T g) := by
  have hg : Gen.Groups.epochDeletedCmp.evalNat idx g.epoch = false := by
    simp [Gen.Groups.epochDeletedCmp, Cmp.evalNat]; omega
  unfold notifyGroup
  rw [hg]
  simp only [Bool.false_eq_true, if_false]
  by_cases hk : g.subKeys.contains n = true
  · rw [if_pos hk]
    by_cases hem : (cfg.emptyHeapNoEpoch && !subscribed g n) = true
    · rw [if_pos hem]
      have hns : subscribed g n = false := by
        simp only [Bool.and_eq_true, Bool.not_eq_true'] at hem; exact hem.2
      exact (dropStream_id n T g hns).symm
    · rw [if_neg hem]
      simp only [gobs, dropStream, List.map_map]
      congr 2
      apply List.map_congr_left
      intro m _
      simp only [Function.comp]
      rw [filtT_filter_comm]
  · rw [if_neg hk]
    symm
    apply dropStream_id
    rw [Bool.eq_false_iff]
    intro hs
    obtain ⟨m, hm, hmx⟩ := List.any_eq_true.1 hs
    have : n ∈ g.subKeys := hsub m hm n (by simpa using hmx)
    exact hk (by simpa using this)

theorem dropStream_idem (n : String) (o : GObs) : dropStream n (dropStream n o) = dropStream n o := by
  simp only [dropStream, List.map_map]
  congr 2
  apply List.map_congr_left
  intro m _
  simp only [Function.comp]
  congr 1
  rw [List.filter_filter]
  apply List.filter_congr
  intro x _
  simp

theorem gobs_drop {T T' : List String} (n : String) (g : Group)
    (hT : ∀ x, x ∈ T' ↔ (x = n ∨ x ∈ T)) : gobs T' g = dropStream n (gobs T g) := by
  simp only [gobs, dropStream, List.map_map]
  congr 2
  apply List.map_congr_left
  intro m _
  simp only [Function.comp]
  rw [filtT_drop n m.2 hT]

theorem memSub_notify (cfg : Cfg) (n : String) (idx : Nat) (g : Group) (h : MemSub g) :
    MemSub (notifyGroup cfg n idx g) := by
  unfold notifyGroup
  split
  · exact h
  · split
    · split
      · next hem =>
        have hns : subscribed g n = false := by
          simp only [Bool.and_eq_true, Bool.not_eq_true'] at hem; exact hem.2
        intro m hm x hx
        simp only [List.mem_filter]
        refine ⟨h m hm x hx, decide_eq_true ?_⟩
        rintro rfl
        have : subscribed g x = true := List.any_eq_true.2 ⟨m, hm, by simpa using hx⟩
        rw [hns] at this; cases this
      · intro m hm x hx
        simp only [List.mem_map] at hm
        obtain ⟨m0, hm0, rfl⟩ := hm
        simp only [List.mem_filter] at hx ⊢
        exact ⟨h m0 hm0 x hx.1, hx.2⟩
    · exact h

theorem epoch_notify (cfg : Cfg) (n : String) (idx : Nat) (g : Group) (i : Nat) (h : g.epoch ≤ i) (hi : idx ≤ i) :
    (notifyGroup cfg n idx g).epoch ≤ i := by
  unfold notifyGroup
  split
  · exact h
  · split
    · split
      · exact h
      · exact hi
    · exact h

/-! ## C. names, tombstones -/

def liveNames (s : State) : List String := (obsStreams s).map (·.name)

theorem liveNames_eq (s : State) : liveNames s = names s := by
  unfold liveNames names obsStreams
  rw [List.map_map]
  rfl

theorem mem_liveNames {s : State} {x : String} :
    x ∈ liveNames s ↔ ∃ st ∈ s.streams, st.tombstone = false ∧ st.name = x := by
  simp only [liveNames, obsStreams, List.map_map, List.mem_map, List.mem_filter, nt, Function.comp]
  constructor
  · rintro ⟨st, ⟨h1, h2⟩, rfl⟩; exact ⟨st, h1, by simpa using h2, rfl⟩
  · rintro ⟨st, h1, h2, rfl⟩; exact ⟨st, ⟨h1, by simp [h2]⟩, rfl⟩

theorem mem_tombNames {s : State} {x : String} :
    x ∈ tombNames s ↔ ∃ st ∈ s.streams, st.tombstone = true ∧ st.name = x := by
  simp only [tombNames, List.mem_map, List.mem_filter]
  constructor
  · rintro ⟨st, ⟨h1, h2⟩, rfl⟩; exact ⟨st, h1, h2, rfl⟩
  · rintro ⟨st, h1, h2, rfl⟩; exact ⟨st, ⟨h1, h2⟩, rfl⟩

theorem name_unique : ∀ {ss : List Stream}, (ss.map (·.name)).Nodup → ∀ {a b : Stream}, a ∈ ss → b ∈ ss →
    a.name = b.name → a = b := by
  intro ss
  induction ss with
  | nil => intro _ a b ha; cases ha
  | cons c ss ih =>
    intro hnd a b ha hb hn
    rw [List.map_cons, List.nodup_cons] at hnd
    rcases List.mem_cons.1 ha with rfl | ha' <;> rcases List.mem_cons.1 hb with rfl | hb'
    · rfl
    · exact absurd (List.mem_map.2 ⟨b, hb', hn.symm⟩) hnd.1
    · exact absurd (List.mem_map.2 ⟨a, ha', hn⟩) hnd.1
    · exact ih hnd.2 ha' hb' hn

/-- A name cannot be visible and tombstoned at the same time. -/
theorem live_not_tomb {s : State} (hnd : (s.streams.map (·.name)).Nodup) {x : String}
    (hx : x ∈ liveNames s) : x ∉ tombNames s := by
  intro ht
  obtain ⟨a, ha, hat, rfl⟩ := mem_liveNames.1 hx
  obtain ⟨b, hb, hbt, hbn⟩ := mem_tombNames.1 ht
  have := name_unique hnd ha hb hbn.symm
  subst this
  rw [hat] at hbt; cases hbt

theorem hasStream_iff {s : State} {n : String} : hasStream s n = true ↔ ∃ st ∈ s.streams, st.name = n := by
  simp [hasStream, List.any_eq_true]

theorem map_name_updStream (ss : List Stream) (n : String) (f : Stream → Stream)
    (h : ∀ st, (f st).name = st.name) : (updStream ss n f).map (·.name) = ss.map (·.name) := by
  unfold updStream
  rw [List.map_map]
  apply List.map_congr_left
  intro st _
  simp only [Function.comp]
  split
  · exact h st
  · rfl

theorem mem_updStream {ss : List Stream} {n : String} {f : Stream → Stream} {x : Stream}
    (hx : x ∈ updStream ss n f) : ∃ st ∈ ss, (st.name ≠ n ∧ x = st) ∨ (st.name = n ∧ x = f st) := by
  unfold updStream at hx
  obtain ⟨st, hst, rfl⟩ := List.mem_map.1 hx
  refine ⟨st, hst, ?_⟩
  by_cases h : st.name = n
  · rw [if_pos h]; exact Or.inr ⟨h, rfl⟩
  · rw [if_neg h]; exact Or.inl ⟨h, rfl⟩

theorem tombNames_updStream (s : State) (n : String) (f : Stream → Stream)
    (hn : ∀ st, (f st).name = st.name) (ht : ∀ st, (f st).tombstone = st.tombstone) :
    tombNames { s with streams := updStream s.streams n f } = tombNames s := by
  simp only [tombNames, updStream]
  rw [List.filter_map, List.map_map]
  have : s.streams.filter ((fun st : Stream => st.tombstone) ∘ fun st => if st.name = n then f st else st) =
      s.streams.filter (fun st => st.tombstone) := by
    apply List.filter_congr
    intro st _
    simp only [Function.comp]
    split
    · exact ht st
    · rfl
  rw [this]
  apply List.map_congr_left
  intro st _
  simp only [Function.comp]
  split
  · exact hn st
  · rfl

/-! ## D. the simulation between a live server and a replaying server -/

/-- `live` applied a prefix of the log as it was committed, `rep` is replaying it (from a snapshot or
from scratch) in recovery mode; both have applied the entries up to index `i`. -/
structure Sim (live rep : State) (i : Nat) : Prop where
  streams : obsStreams live = obsStreams rep
  noTomb : ∀ st ∈ live.streams, st.tombstone = false
  nodup : (rep.streams.map (·.name)).Nodup
  groups : live.groups.map (gobs []) = rep.groups.map (gobs (tombNames rep))
  subL : ∀ g ∈ live.groups, MemSub g
  subR : ∀ g ∈ rep.groups, MemSub g
  epL : EpochLe live.groups i
  epR : EpochLe rep.groups i

def isPartOp : Op → Bool
  | .pause .. | .resume .. | .readonly .. | .shrink .. | .expand .. | .leader .. => true
  | _ => false

theorem partOp_form (cfg : Cfg) (s : State) (op : Op) (idx : Nat) (r : Bool) (h : isPartOp op = true) :
    ∃ n f, (∀ st : Stream, (f st).name = st.name ∧ (f st).tombstone = st.tombstone) ∧
      applyOp cfg s op idx r = { s with streams := updStream s.streams n f } := by
  cases op <;> simp [isPartOp] at h <;> (refine ⟨_, _, ?_, rfl⟩; intro st; exact ⟨rfl, rfl⟩)

theorem epochLe_mono {gs : List Group} {i j : Nat} (h : EpochLe gs i) (hij : i ≤ j) : EpochLe gs j :=
  fun g hg => Nat.le_trans (h g hg) hij

theorem sim_partOp (cfg : Cfg) {live rep : State} {i : Nat} (h : Sim live rep i) (op : Op)
    (hp : isPartOp op = true) :
    Sim (applyOp cfg live op (i + 1) false) (applyOp cfg rep op (i + 1) true) (i + 1) := by
  have hs : obsStreams (applyOp cfg live op (i + 1) false) = obsStreams (applyOp cfg rep op (i + 1) true) := by
    rw [obsStreams_applyOp, obsStreams_applyOp, h.streams]
  obtain ⟨n1, f1, hf1, e1⟩ := partOp_form cfg live op (i + 1) false hp
  obtain ⟨n2, f2, hf2, e2⟩ := partOp_form cfg rep op (i + 1) true hp
  refine ⟨hs, ?_, ?_, ?_, ?_, ?_, ?_, ?_⟩
  · rw [e1]
    intro st hst
    obtain ⟨st0, h0, ⟨_, rfl⟩ | ⟨_, rfl⟩⟩ := mem_updStream hst
    · exact h.noTomb _ h0
    · rw [(hf1 st0).2]; exact h.noTomb _ h0
  · rw [e2]
    show ((updStream rep.streams n2 f2).map (·.name)).Nodup
    rw [map_name_updStream _ _ _ (fun st => (hf2 st).1)]; exact h.nodup
  · rw [e2, tombNames_updStream rep n2 f2 (fun st => (hf2 st).1) (fun st => (hf2 st).2), e1]
    exact h.groups
  · rw [e1]; exact h.subL
  · rw [e2]; exact h.subR
  · rw [e1]; exact epochLe_mono h.epL (Nat.le_succ i)
  · rw [e2]; exact epochLe_mono h.epR (Nat.le_succ i)


theorem liveNames_of_sim {live rep : State} {i : Nat} (h : Sim live rep i) : liveNames live = liveNames rep := by
  unfold liveNames; rw [h.streams]

theorem hasStream_live {live rep : State} {i : Nat} (h : Sim live rep i) {n : String}
    (hn : hasStream live n = true) : n ∈ liveNames rep := by
  obtain ⟨st, hst, rfl⟩ := hasStream_iff.1 hn
  rw [← liveNames_of_sim h]
  exact mem_liveNames.2 ⟨st, hst, h.noTomb st hst, rfl⟩

theorem not_hasStream_live {live rep : State} {i : Nat} (h : Sim live rep i) {n : String}
    (hn : hasStream live n = false) : n ∉ liveNames rep := by
  intro hx
  rw [← liveNames_of_sim h] at hx
  obtain ⟨st, hst, _, rfl⟩ := mem_liveNames.1 hx
  have : hasStream live st.name = true := hasStream_iff.2 ⟨st, hst, rfl⟩
  rw [hn] at this; cases this

theorem notifyDeleted_gobs (cfg : Cfg) (T : List String) (n : String) (idx : Nat) (gs : List Group)
    (hsub : ∀ g ∈ gs, MemSub g) (he : ∀ g ∈ gs, g.epoch ≤ idx) :
    (notifyDeleted cfg gs n idx).map (gobs T) = (gs.map (gobs T)).map (dropStream n) := by
  unfold notifyDeleted
  rw [List.map_map, List.map_map]
  apply List.map_congr_left
  intro g hg
  exact gobs_notify cfg T n idx g (hsub g hg) (he g hg)

theorem notifyDeleted_sub (cfg : Cfg) (n : String) (idx : Nat) (gs : List Group) (hsub : ∀ g ∈ gs, MemSub g) :
    ∀ g ∈ notifyDeleted cfg gs n idx, MemSub g := by
  intro g hg
  obtain ⟨g0, h0, rfl⟩ := List.mem_map.1 hg
  exact memSub_notify cfg n idx g0 (hsub g0 h0)

theorem notifyDeleted_epoch (cfg : Cfg) (n : String) (idx : Nat) (gs : List Group) (i : Nat) (h : EpochLe gs i) (hi : idx ≤ i) :
    EpochLe (notifyDeleted cfg gs n idx) i := by
  intro g hg
  obtain ⟨g0, h0, rfl⟩ := List.mem_map.1 hg
  exact epoch_notify cfg n idx g0 i (h g0 h0) hi

theorem sim_delete (cfg : Cfg) {live rep : State} {i : Nat} (h : Sim live rep i) (n : String)
    (hp : pre live (.delete n) = true) :
    Sim (applyOp cfg live (.delete n) (i + 1) false) (applyOp cfg rep (.delete n) (i + 1) true) (i + 1) := by
  have hs : obsStreams (applyOp cfg live (.delete n) (i + 1) false) = obsStreams (applyOp cfg rep (.delete n) (i + 1) true) := by
    rw [obsStreams_applyOp, obsStreams_applyOp, h.streams]
  have hn : n ∈ liveNames rep := hasStream_live h hp
  obtain ⟨stn, hstn, hstnt, hstnn⟩ := mem_liveNames.1 hn
  have hT : ∀ x, x ∈ tombNames (applyOp cfg rep (.delete n) (i + 1) true) ↔ (x = n ∨ x ∈ tombNames rep) := by
    intro x
    simp only [applyOp, if_true]
    rw [mem_tombNames, mem_tombNames]
    constructor
    · rintro ⟨st, hst, ht, rfl⟩
      obtain ⟨st0, h0, ⟨_, rfl⟩ | ⟨hn0, rfl⟩⟩ := mem_updStream hst
      · exact Or.inr ⟨st, h0, ht, rfl⟩
      · exact Or.inl hn0
    · rintro (rfl | ⟨st, hst, ht, rfl⟩)
      · refine ⟨{ stn with tombstone := true }, ?_, rfl, hstnn⟩
        unfold updStream
        exact List.mem_map.2 ⟨stn, hstn, by rw [if_pos hstnn]⟩
      · by_cases hst0 : st.name = n
        · refine ⟨{ st with tombstone := true }, ?_, rfl, rfl⟩
          unfold updStream
          exact List.mem_map.2 ⟨st, hst, by rw [if_pos hst0]⟩
        · refine ⟨st, ?_, ht, rfl⟩
          unfold updStream
          exact List.mem_map.2 ⟨st, hst, by rw [if_neg hst0]⟩
  have heL : ∀ g ∈ live.groups, g.epoch ≤ i + 1 := fun g hg => Nat.le_succ_of_le (h.epL g hg)
  have heR : ∀ g ∈ rep.groups, g.epoch ≤ i + 1 := fun g hg => Nat.le_succ_of_le (h.epR g hg)
  have e1 : (applyOp cfg live (.delete n) (i + 1) false).groups = notifyDeleted cfg live.groups n (i + 1) := rfl
  have e2 : (applyOp cfg rep (.delete n) (i + 1) true).groups =
      if cfg.notifyOnTombstone = true then notifyDeleted cfg rep.groups n (i + 1) else rep.groups := rfl
  refine ⟨hs, ?_, ?_, ?_, ?_, ?_, ?_, ?_⟩
  · intro st hst
    simp only [applyOp] at hst
    exact h.noTomb st (List.mem_filter.1 hst).1
  · simp only [applyOp, if_true]
    rw [map_name_updStream rep.streams n (fun st => { st with tombstone := true }) (fun st => rfl)]; exact h.nodup
  · rw [e1, e2, notifyDeleted_gobs cfg [] n (i + 1) live.groups h.subL heL, h.groups, List.map_map]
    by_cases hnt : cfg.notifyOnTombstone = true
    · rw [if_pos hnt, notifyDeleted_gobs cfg _ n (i + 1) rep.groups h.subR heR, List.map_map]
      apply List.map_congr_left
      intro g _
      simp only [Function.comp]
      rw [gobs_drop n g hT, dropStream_idem]
    · rw [if_neg hnt]
      apply List.map_congr_left
      intro g _
      exact (gobs_drop n g hT).symm
  · rw [e1]; exact notifyDeleted_sub cfg n (i + 1) live.groups h.subL
  · rw [e2]; split
    · exact notifyDeleted_sub cfg n (i + 1) rep.groups h.subR
    · exact h.subR
  · rw [e1]; exact notifyDeleted_epoch cfg n (i + 1) live.groups (i + 1) (epochLe_mono h.epL (Nat.le_succ i)) (Nat.le_refl _)
  · rw [e2]; split
    · exact notifyDeleted_epoch cfg n (i + 1) rep.groups (i + 1) (epochLe_mono h.epR (Nat.le_succ i)) (Nat.le_refl _)
    · exact epochLe_mono h.epR (Nat.le_succ i)

theorem pre_create {s : State} {sp : StreamP} (h : pre s (.create sp) = true) : hasStream s sp.name = false := by
  simp only [pre, Bool.and_eq_true, Bool.not_eq_true'] at h
  exact h.2

theorem mkStream_tomb (cfg : Cfg) (sp : StreamP) (r : Bool) : (mkStream cfg sp r).tombstone = false := rfl
theorem mkStream_name (cfg : Cfg) (sp : StreamP) (r : Bool) : (mkStream cfg sp r).name = sp.name := rfl

theorem sim_create (cfg : Cfg) {live rep : State} {i : Nat} (h : Sim live rep i) (sp : StreamP)
    (hp : pre live (.create sp) = true) :
    Sim (applyOp cfg live (.create sp) (i + 1) false) (applyOp cfg rep (.create sp) (i + 1) true) (i + 1) := by
  have hs : obsStreams (applyOp cfg live (.create sp) (i + 1) false) = obsStreams (applyOp cfg rep (.create sp) (i + 1) true) := by
    rw [obsStreams_applyOp, obsStreams_applyOp, h.streams]
  have hno : hasStream live sp.name = false := pre_create hp
  have hnl : sp.name ∉ liveNames rep := not_hasStream_live h hno
  -- the streams of the replaying server after the op
  have hstr : (applyOp cfg rep (.create sp) (i + 1) true).streams =
      rep.streams.filter (fun st => decide (st.name ≠ sp.name)) ++ [mkStream cfg (stamp sp (i + 1)) true] := rfl
  have hT : ∀ x, x ∈ tombNames (applyOp cfg rep (.create sp) (i + 1) true) ↔ (x ≠ sp.name ∧ x ∈ tombNames rep) := by
    intro x
    rw [mem_tombNames, mem_tombNames, hstr]
    constructor
    · rintro ⟨st, hst, ht, rfl⟩
      rcases List.mem_append.1 hst with h1 | h1
      · have := List.mem_filter.1 h1
        exact ⟨of_decide_eq_true this.2, st, this.1, ht, rfl⟩
      · rw [List.mem_singleton.1 h1, mkStream_tomb] at ht; cases ht
    · rintro ⟨hne, st, hst, ht, rfl⟩
      exact ⟨st, List.mem_append.2 (Or.inl (List.mem_filter.2 ⟨hst, decide_eq_true hne⟩)), ht, rfl⟩
  have heR : ∀ g ∈ rep.groups, g.epoch ≤ i + 1 := fun g hg => Nat.le_succ_of_le (h.epR g hg)
  have egL : (applyOp cfg live (.create sp) (i + 1) false).groups = live.groups := by
    show (if hasStream live (stamp sp (i + 1)).name = true then _ else live.groups) = live.groups
    rw [show (stamp sp (i + 1)).name = sp.name from rfl, hno]; rfl
  have egR : (applyOp cfg rep (.create sp) (i + 1) true).groups =
      if hasStream rep sp.name = true then notifyDeleted cfg rep.groups sp.name (i + 1) else rep.groups := rfl
  refine ⟨hs, ?_, ?_, ?_, ?_, ?_, ?_, ?_⟩
  · intro st hst
    have : (applyOp cfg live (.create sp) (i + 1) false).streams =
      live.streams.filter (fun st => decide (st.name ≠ sp.name)) ++ [mkStream cfg (stamp sp (i + 1)) false] := rfl
    rw [this] at hst
    rcases List.mem_append.1 hst with h1 | h1
    · exact h.noTomb st (List.mem_filter.1 h1).1
    · rw [List.mem_singleton.1 h1]; rfl
  · rw [hstr, List.map_append, List.nodup_append]
    refine ⟨(h.nodup.sublist (List.Sublist.map _ List.filter_sublist)), by simp, ?_⟩
    intro a ha b hb
    obtain ⟨st, hst, rfl⟩ := List.mem_map.1 ha
    simp only [List.map_cons, List.map_nil, List.mem_singleton] at hb
    subst hb
    exact of_decide_eq_true (List.mem_filter.1 hst).2
  · rw [egL, egR, h.groups]
    by_cases hex : hasStream rep sp.name = true
    · rw [if_pos hex]
      obtain ⟨st, hst, hstn⟩ := hasStream_iff.1 hex
      have htomb : st.tombstone = true := by
        cases ht : st.tombstone with
        | true => rfl
        | false => exact absurd (mem_liveNames.2 ⟨st, hst, ht, hstn⟩) hnl
      have hnT : sp.name ∈ tombNames rep := mem_tombNames.2 ⟨st, hst, htomb, hstn⟩
      have hT' : ∀ x, x ∈ tombNames rep ↔ (x = sp.name ∨ x ∈ tombNames (applyOp cfg rep (.create sp) (i + 1) true)) := by
        intro x
        rw [hT x]
        constructor
        · intro hx
          by_cases hxn : x = sp.name
          · exact Or.inl hxn
          · exact Or.inr ⟨hxn, hx⟩
        · rintro (rfl | ⟨_, hx⟩)
          · exact hnT
          · exact hx
      rw [notifyDeleted_gobs cfg _ sp.name (i + 1) rep.groups h.subR heR, List.map_map]
      apply List.map_congr_left
      intro g _
      exact gobs_drop sp.name g hT'
    · rw [if_neg hex]
      apply List.map_congr_left
      intro g _
      apply gobs_congr
      intro x
      rw [hT x]
      constructor
      · intro hx
        refine ⟨?_, hx⟩
        rintro rfl
        obtain ⟨st, hst, _, hstn⟩ := mem_tombNames.1 hx
        exact hex (hasStream_iff.2 ⟨st, hst, hstn⟩)
      · exact fun hx => hx.2
  · rw [egL]; exact h.subL
  · rw [egR]
    split
    · exact notifyDeleted_sub cfg _ _ _ h.subR
    · exact h.subR
  · rw [egL]; exact epochLe_mono h.epL (Nat.le_succ i)
  · rw [egR]
    split
    · exact notifyDeleted_epoch cfg _ _ _ _ (epochLe_mono h.epR (Nat.le_succ i)) (Nat.le_refl _)
    · exact epochLe_mono h.epR (Nat.le_succ i)


/-! ## E. group operations at the level of `gobs` -/

theorem mem_unionKeys (ss : List String) : ∀ (k : List String) (x : String), x ∈ unionKeys k ss ↔ (x ∈ k ∨ x ∈ ss) := by
  induction ss with
  | nil => intro k x; simp [unionKeys]
  | cons a ss ih =>
    intro k x
    have : unionKeys k (a :: ss) = unionKeys (if k.contains a then k else k ++ [a]) ss := rfl
    rw [this, ih]
    by_cases ha : k.contains a = true
    · rw [if_pos ha]
      have : a ∈ k := by simpa using ha
      constructor
      · rintro (h | h); exact Or.inl h; exact Or.inr (List.mem_cons_of_mem _ h)
      · rintro (h | h)
        · exact Or.inl h
        · rcases List.mem_cons.1 h with rfl | h
          · exact Or.inl this
          · exact Or.inr h
    · rw [if_neg ha]
      simp [List.mem_append, or_assoc]

theorem mem_upsert {ms : List Member} {id : String} {v : List String} {m : Member}
    (h : m ∈ upsertMember ms id v) : m ∈ ms ∨ m = (id, v) := by
  unfold upsertMember at h
  split at h
  · obtain ⟨m0, h0, rfl⟩ := List.mem_map.1 h
    split
    · exact Or.inr rfl
    · exact Or.inl h0
  · rcases List.mem_append.1 h with h | h
    · exact Or.inl h
    · exact Or.inr (List.mem_singleton.1 h)

theorem map_upsert (F : List String → List String) (ms : List Member) (id : String) (v : List String) :
    (upsertMember ms id v).map (fun m => (m.1, F m.2)) =
      upsertMember (ms.map (fun m => (m.1, F m.2))) id (F v) := by
  unfold upsertMember
  have hany : (ms.map (fun m : Member => (m.1, F m.2))).any (fun m => decide (m.1 = id)) = ms.any (fun m => decide (m.1 = id)) := by
    rw [List.any_map]; rfl
  rw [hany]
  split
  · rw [List.map_map, List.map_map]
    apply List.map_congr_left
    intro m _
    simp only [Function.comp]
    split <;> rfl
  · rw [List.map_append]; rfl

theorem memSub_addMember (g : Group) (m : Member) (h : MemSub g) : MemSub (addMember g m) := by
  intro m' hm' x hx
  simp only [addMember] at hm' ⊢
  rw [mem_unionKeys]
  rcases mem_upsert hm' with h1 | rfl
  · exact Or.inl (h m' h1 x hx)
  · exact Or.inr hx

theorem gobs_addMember (T : List String) (g : Group) (cid : String) (ss : List String) (idx : Nat) :
    gobs T { addMember g (cid, ss) with epoch := idx } =
      (g.id, g.coordinator, upsertMember (gobs T g).2.2 cid (filtT T (Groups.sortDedup ss))) := by
  simp only [gobs, addMember]
  rw [map_upsert (filtT T)]

/-- `updGroup` seen through a projection. -/
theorem map_updGroup {β : Type} (P : Group → β) (key : β → String) (hkey : ∀ g, key (P g) = g.id)
    (gs : List Group) (gid : String) (f : Group → Group) (fo : β → β)
    (hf : ∀ g ∈ gs, g.id = gid → P (f g) = fo (P g)) :
    (updGroup gs gid f).map P = (gs.map P).map (fun o => if key o = gid then fo o else o) := by
  unfold updGroup
  rw [List.map_map, List.map_map]
  apply List.map_congr_left
  intro g hg
  simp only [Function.comp, hkey]
  by_cases h : g.id = gid
  · rw [if_pos h, if_pos h]; exact hf g hg h
  · rw [if_neg h, if_neg h]

theorem gobs_id (T : List String) (g : Group) : (gobs T g).1 = g.id := rfl

theorem mem_updGroup {gs : List Group} {gid : String} {f : Group → Group} {x : Group}
    (hx : x ∈ updGroup gs gid f) : ∃ g ∈ gs, x = g ∨ x = f g := by
  unfold updGroup at hx
  obtain ⟨g, hg, rfl⟩ := List.mem_map.1 hx
  refine ⟨g, hg, ?_⟩
  split
  · exact Or.inr rfl
  · exact Or.inl rfl

/-- The streams named by an op exist on the live server, hence are not tombstoned on the replaying one. -/
theorem streams_not_tomb {live rep : State} {i : Nat} (h : Sim live rep i) {ss : List String}
    (hss : ss.all (hasStream live) = true) : ∀ x ∈ Groups.sortDedup ss, x ∉ tombNames rep := by
  intro x hx
  rw [Proofs.Groups.mem_sortDedup] at hx
  have := List.all_eq_true.1 hss x hx
  exact live_not_tomb h.nodup (hasStream_live h this)

theorem sim_join (cfg : Cfg) {live rep : State} {i : Nat} (h : Sim live rep i) (gid cid : String) (ss : List String)
    (hp : pre live (.join gid cid ss) = true) :
    Sim (applyOp cfg live (.join gid cid ss) (i + 1) false) (applyOp cfg rep (.join gid cid ss) (i + 1) true) (i + 1) := by
  have hs : obsStreams (applyOp cfg live (.join gid cid ss) (i + 1) false) = obsStreams (applyOp cfg rep (.join gid cid ss) (i + 1) true) := by
    rw [obsStreams_applyOp, obsStreams_applyOp, h.streams]
  have hss : ss.all (hasStream live) = true := by
    simp only [pre] at hp
    split at hp
    · simp only [Bool.and_eq_true] at hp; exact hp.2
    · cases hp
  have hnt := streams_not_tomb h hss
  let f : Group → Group := fun g => { addMember g (cid, ss) with epoch := i + 1 }
  have eL : applyOp cfg live (.join gid cid ss) (i + 1) false = { live with groups := updGroup live.groups gid f } := rfl
  have eR : applyOp cfg rep (.join gid cid ss) (i + 1) true = { rep with groups := updGroup rep.groups gid f } := rfl
  have hTR : tombNames (applyOp cfg rep (.join gid cid ss) (i + 1) true) = tombNames rep := rfl
  refine ⟨hs, h.noTomb, h.nodup, ?_, ?_, ?_, ?_, ?_⟩
  · rw [hTR, eL, eR]
    show (updGroup live.groups gid f).map (gobs []) = (updGroup rep.groups gid f).map (gobs (tombNames rep))
    rw [map_updGroup (gobs []) (·.1) (gobs_id []) live.groups gid f
          (fun o => (o.1, o.2.1, upsertMember o.2.2 cid (Groups.sortDedup ss)))
          (fun g _ _ => by rw [gobs_addMember, filtT_nil]; rfl),
        map_updGroup (gobs (tombNames rep)) (·.1) (gobs_id _) rep.groups gid f
          (fun o => (o.1, o.2.1, upsertMember o.2.2 cid (Groups.sortDedup ss)))
          (fun g _ _ => by rw [gobs_addMember, filtT_id hnt]; rfl),
        h.groups]
  · rw [eL]
    intro g hg
    obtain ⟨g0, h0, rfl | rfl⟩ := mem_updGroup hg
    · exact h.subL _ h0
    · exact memSub_addMember g0 _ (h.subL _ h0)
  · rw [eR]
    intro g hg
    obtain ⟨g0, h0, rfl | rfl⟩ := mem_updGroup hg
    · exact h.subR _ h0
    · exact memSub_addMember g0 _ (h.subR _ h0)
  · rw [eL]
    intro g hg
    obtain ⟨g0, h0, rfl | rfl⟩ := mem_updGroup hg
    · exact Nat.le_succ_of_le (h.epL _ h0)
    · exact Nat.le_refl _
  · rw [eR]
    intro g hg
    obtain ⟨g0, h0, rfl | rfl⟩ := mem_updGroup hg
    · exact Nat.le_succ_of_le (h.epR _ h0)
    · exact Nat.le_refl _


def leaveO (gid cid : String) (l : List GObs) : List GObs :=
  (l.map fun o => if o.1 = gid then (o.1, o.2.1, o.2.2.filter (fun m => decide (m.1 ≠ cid))) else o).filter
    fun o => !(decide (o.1 = gid) && o.2.2.isEmpty)

theorem gobs_leave (T : List String) (gs : List Group) (gid cid : String) (idx : Nat) :
    (leaveGroup gs gid cid idx).map (gobs T) = leaveO gid cid (gs.map (gobs T)) := by
  unfold leaveGroup leaveO
  rw [← map_updGroup (gobs T) (·.1) (gobs_id T) gs gid
        (fun g => { g with members := g.members.filter (fun m => decide (m.1 ≠ cid)), epoch := idx })
        (fun o => (o.1, o.2.1, o.2.2.filter (fun m => decide (m.1 ≠ cid))))]
  · rw [List.filter_map]
    congr 1
    apply List.filter_congr
    intro g _
    simp only [Function.comp, gobs, List.isEmpty_map]
    rfl
  · intro g _ _
    simp only [gobs]
    rw [List.filter_map]
    rfl

theorem sim_leave (cfg : Cfg) {live rep : State} {i : Nat} (h : Sim live rep i) (gid cid : String) :
    Sim (applyOp cfg live (.leave gid cid) (i + 1) false) (applyOp cfg rep (.leave gid cid) (i + 1) true) (i + 1) := by
  have hs : obsStreams (applyOp cfg live (.leave gid cid) (i + 1) false) = obsStreams (applyOp cfg rep (.leave gid cid) (i + 1) true) := by
    rw [obsStreams_applyOp, obsStreams_applyOp, h.streams]
  have eL : applyOp cfg live (.leave gid cid) (i + 1) false = { live with groups := leaveGroup live.groups gid cid (i + 1) } := rfl
  have eR : applyOp cfg rep (.leave gid cid) (i + 1) true = { rep with groups := leaveGroup rep.groups gid cid (i + 1) } := rfl
  have hmem : ∀ (gs : List Group) (g : Group), g ∈ leaveGroup gs gid cid (i + 1) →
      ∃ g0 ∈ gs, g = g0 ∨ g = { g0 with members := g0.members.filter (fun m => decide (m.1 ≠ cid)), epoch := i + 1 } := by
    intro gs g hg
    unfold leaveGroup at hg
    exact mem_updGroup (List.mem_filter.1 hg).1
  refine ⟨hs, h.noTomb, h.nodup, ?_, ?_, ?_, ?_, ?_⟩
  · rw [eL, eR]
    show (leaveGroup live.groups gid cid (i + 1)).map (gobs []) = (leaveGroup rep.groups gid cid (i + 1)).map (gobs (tombNames rep))
    rw [gobs_leave, gobs_leave, h.groups]
  · rw [eL]
    intro g hg
    obtain ⟨g0, h0, rfl | rfl⟩ := hmem _ g hg
    · exact h.subL _ h0
    · intro m hm x hx
      exact h.subL _ h0 m (List.mem_filter.1 hm).1 x hx
  · rw [eR]
    intro g hg
    obtain ⟨g0, h0, rfl | rfl⟩ := hmem _ g hg
    · exact h.subR _ h0
    · intro m hm x hx
      exact h.subR _ h0 m (List.mem_filter.1 hm).1 x hx
  · rw [eL]
    intro g hg
    obtain ⟨g0, h0, rfl | rfl⟩ := hmem _ g hg
    · exact Nat.le_succ_of_le (h.epL _ h0)
    · exact Nat.le_refl _
  · rw [eR]
    intro g hg
    obtain ⟨g0, h0, rfl | rfl⟩ := hmem _ g hg
    · exact Nat.le_succ_of_le (h.epR _ h0)
    · exact Nat.le_refl _

theorem sim_coord (cfg : Cfg) {live rep : State} {i : Nat} (h : Sim live rep i) (gid c : String) :
    Sim (applyOp cfg live (.coord gid c) (i + 1) false) (applyOp cfg rep (.coord gid c) (i + 1) true) (i + 1) := by
  have hs : obsStreams (applyOp cfg live (.coord gid c) (i + 1) false) = obsStreams (applyOp cfg rep (.coord gid c) (i + 1) true) := by
    rw [obsStreams_applyOp, obsStreams_applyOp, h.streams]
  let f : Group → Group := fun g =>
    if Gen.Metadata.coordEpochGuard.evalNat g.epoch (i + 1) then g else { g with coordinator := c, epoch := i + 1 }
  have eL : applyOp cfg live (.coord gid c) (i + 1) false = { live with groups := updGroup live.groups gid f } := rfl
  have eR : applyOp cfg rep (.coord gid c) (i + 1) true = { rep with groups := updGroup rep.groups gid f } := rfl
  have hf : ∀ g : Group, g.epoch ≤ i → f g = { g with coordinator := c, epoch := i + 1 } := by
    intro g hg
    have : Gen.Metadata.coordEpochGuard.evalNat g.epoch (i + 1) = false := by
      simp [Gen.Metadata.coordEpochGuard, Cmp.evalNat]; omega
    simp only [f, this]; rfl
  have hfo : ∀ (T : List String) (gs : List Group), EpochLe gs i →
      (updGroup gs gid f).map (gobs T) = (gs.map (gobs T)).map (fun o => if o.1 = gid then (o.1, c, o.2.2) else o) := by
    intro T gs he
    exact map_updGroup (gobs T) (·.1) (gobs_id T) gs gid f (fun o => (o.1, c, o.2.2))
      (fun g hg _ => by rw [hf g (he g hg)]; rfl)
  have hsub : ∀ g : Group, MemSub g → MemSub (f g) := by
    intro g hg
    simp only [f]
    split
    · exact hg
    · exact hg
  have hep : ∀ g : Group, g.epoch ≤ i → (f g).epoch ≤ i + 1 := by
    intro g hg
    rw [hf g hg]; exact Nat.le_refl _
  refine ⟨hs, h.noTomb, h.nodup, ?_, ?_, ?_, ?_, ?_⟩
  · rw [eL, eR]
    show (updGroup live.groups gid f).map (gobs []) = (updGroup rep.groups gid f).map (gobs (tombNames rep))
    rw [hfo _ _ h.epL, hfo _ _ h.epR, h.groups]
  · rw [eL]
    intro g hg
    obtain ⟨g0, h0, rfl | rfl⟩ := mem_updGroup hg
    · exact h.subL _ h0
    · exact hsub g0 (h.subL _ h0)
  · rw [eR]
    intro g hg
    obtain ⟨g0, h0, rfl | rfl⟩ := mem_updGroup hg
    · exact h.subR _ h0
    · exact hsub g0 (h.subR _ h0)
  · rw [eL]
    intro g hg
    obtain ⟨g0, h0, rfl | rfl⟩ := mem_updGroup hg
    · exact Nat.le_succ_of_le (h.epL _ h0)
    · exact hep g0 (h.epL _ h0)
  · rw [eR]
    intro g hg
    obtain ⟨g0, h0, rfl | rfl⟩ := mem_updGroup hg
    · exact Nat.le_succ_of_le (h.epR _ h0)
    · exact hep g0 (h.epR _ h0)


theorem foldl_addMember_rec (ms : List Member) : ∀ (g : Group) (r : Bool),
    ms.foldl addMember { g with recovered := r } = { ms.foldl addMember g with recovered := r } := by
  induction ms with
  | nil => intro g r; rfl
  | cons m ms ih =>
    intro g r
    simp only [List.foldl_cons]
    have : addMember { g with recovered := r } m = { addMember g m with recovered := r } := rfl
    rw [this, ih]

theorem mkGroup_rec (gp : GroupP) (r : Bool) : mkGroup gp r = { mkGroup gp false with recovered := r } := by
  unfold mkGroup
  exact foldl_addMember_rec gp.members
    { id := gp.id, coordinator := gp.coordinator, epoch := gp.epoch, members := [], subKeys := [], recovered := false } r

theorem foldl_addMember_fields (ms : List Member) : ∀ (g : Group),
    (ms.foldl addMember g).id = g.id ∧ (ms.foldl addMember g).coordinator = g.coordinator ∧
      (ms.foldl addMember g).epoch = g.epoch := by
  induction ms with
  | nil => intro g; exact ⟨rfl, rfl, rfl⟩
  | cons m ms ih =>
    intro g
    simp only [List.foldl_cons]
    obtain ⟨h1, h2, h3⟩ := ih (addMember g m)
    exact ⟨h1, h2, h3⟩

theorem foldl_addMember_members (ms : List Member) : ∀ (g : Group), ∀ m ∈ (ms.foldl addMember g).members,
    m ∈ g.members ∨ ∃ m0 ∈ ms, m = (m0.1, Groups.sortDedup m0.2) := by
  induction ms with
  | nil => intro g m hm; exact Or.inl hm
  | cons a ms ih =>
    intro g m hm
    simp only [List.foldl_cons] at hm
    rcases ih (addMember g a) m hm with h | ⟨m0, h0, rfl⟩
    · rcases mem_upsert h with h | h
      · exact Or.inl h
      · exact Or.inr ⟨a, List.mem_cons_self, h⟩
    · exact Or.inr ⟨m0, List.mem_cons_of_mem _ h0, rfl⟩

theorem foldl_addMember_sub (ms : List Member) : ∀ (g : Group), MemSub g → MemSub (ms.foldl addMember g) := by
  induction ms with
  | nil => intro g h; exact h
  | cons a ms ih => intro g h; exact ih _ (memSub_addMember g a h)

theorem memSub_mkGroup (gp : GroupP) (r : Bool) : MemSub (mkGroup gp r) := by
  unfold mkGroup
  apply foldl_addMember_sub
  intro m hm; cases hm

theorem mkGroup_epoch (gp : GroupP) (r : Bool) : (mkGroup gp r).epoch = gp.epoch :=
  (foldl_addMember_fields gp.members _).2.2

theorem gobs_untouched (T : List String) (g : Group) (h : ∀ m ∈ g.members, ∀ x ∈ m.2, x ∉ T) :
    gobs T g = gobs [] g := by
  simp only [gobs]
  congr 2
  apply List.map_congr_left
  intro m hm
  rw [filtT_nil, filtT_id (h m hm)]

theorem sim_group (cfg : Cfg) {live rep : State} {i : Nat} (h : Sim live rep i) (gp : GroupP)
    (hp : pre live (.group gp) = true) :
    Sim (applyOp cfg live (.group gp) (i + 1) false) (applyOp cfg rep (.group gp) (i + 1) true) (i + 1) := by
  have hs : obsStreams (applyOp cfg live (.group gp) (i + 1) false) = obsStreams (applyOp cfg rep (.group gp) (i + 1) true) := by
    rw [obsStreams_applyOp, obsStreams_applyOp, h.streams]
  simp only [pre, Bool.and_eq_true, beq_iff_eq] at hp
  obtain ⟨⟨⟨_, hep⟩, _⟩, hall⟩ := hp
  have eL : applyOp cfg live (.group gp) (i + 1) false = { live with groups := live.groups ++ [mkGroup gp false] } := rfl
  have eR : applyOp cfg rep (.group gp) (i + 1) true = { rep with groups := rep.groups ++ [mkGroup gp true] } := rfl
  have hnt : ∀ m ∈ (mkGroup gp false).members, ∀ x ∈ m.2, x ∉ tombNames rep := by
    intro m hm x hx
    unfold mkGroup at hm
    rcases foldl_addMember_members gp.members _ m hm with h0 | ⟨m0, h0, rfl⟩
    · cases h0
    · exact streams_not_tomb h (List.all_eq_true.1 hall m0 h0) x hx
  refine ⟨hs, h.noTomb, h.nodup, ?_, ?_, ?_, ?_, ?_⟩
  · rw [eL, eR]
    show (live.groups ++ [mkGroup gp false]).map (gobs []) = (rep.groups ++ [mkGroup gp true]).map (gobs (tombNames rep))
    rw [List.map_append, List.map_append, h.groups, mkGroup_rec gp true]
    congr 1
    simp only [List.map_cons, List.map_nil]
    congr 1
    exact (gobs_untouched (tombNames rep) (mkGroup gp false) hnt).symm
  · rw [eL]
    intro g hg
    rcases List.mem_append.1 hg with h1 | h1
    · exact h.subL _ h1
    · rw [List.mem_singleton.1 h1]; exact memSub_mkGroup gp false
  · rw [eR]
    intro g hg
    rcases List.mem_append.1 hg with h1 | h1
    · exact h.subR _ h1
    · rw [List.mem_singleton.1 h1]; exact memSub_mkGroup gp true
  · rw [eL]
    intro g hg
    rcases List.mem_append.1 hg with h1 | h1
    · exact Nat.le_succ_of_le (h.epL _ h1)
    · rw [List.mem_singleton.1 h1, mkGroup_epoch, hep]; exact Nat.zero_le _
  · rw [eR]
    intro g hg
    rcases List.mem_append.1 hg with h1 | h1
    · exact Nat.le_succ_of_le (h.epR _ h1)
    · rw [List.mem_singleton.1 h1, mkGroup_epoch, hep]; exact Nat.zero_le _

/-- **One log entry keeps the live server and the replaying server in step.** -/
theorem sim_step (cfg : Cfg) {live rep : State} {i : Nat} (h : Sim live rep i) (op : Op)
    (hp : pre live op = true) :
    Sim (applyOp cfg live op (i + 1) false) (applyOp cfg rep op (i + 1) true) (i + 1) := by
  cases op with
  | create sp => exact sim_create cfg h sp hp
  | delete n => exact sim_delete cfg h n hp
  | pause n ids ra => exact sim_partOp cfg h _ rfl
  | resume n ids => exact sim_partOp cfg h _ rfl
  | readonly n ids ro => exact sim_partOp cfg h _ rfl
  | shrink n pid r => exact sim_partOp cfg h _ rfl
  | expand n pid r => exact sim_partOp cfg h _ rfl
  | leader n pid l => exact sim_partOp cfg h _ rfl
  | group gp => exact sim_group cfg h gp hp
  | join gid cid ss => exact sim_join cfg h gid cid ss hp
  | leave gid cid => exact sim_leave cfg h gid cid
  | coord gid c => exact sim_coord cfg h gid c
  | activity k =>
    exact ⟨h.streams, h.noTomb, h.nodup, h.groups, h.subL, h.subR,
      epochLe_mono h.epL (Nat.le_succ i), epochLe_mono h.epR (Nat.le_succ i)⟩
  | unknown => simp [pre] at hp


/-! ## F. whole histories, end of recovery -/

theorem runFrom_append (cfg : Cfg) (r : Bool) : ∀ (a b : List Op) (s : State) (i : Nat),
    runFrom cfg r s i (a ++ b) = runFrom cfg r (runFrom cfg r s i a) (i + a.length) b := by
  intro a
  induction a with
  | nil => intro b s i; rfl
  | cons op a ih =>
    intro b s i
    simp only [List.cons_append, runFrom, List.length_cons]
    rw [ih]
    congr 1
    omega

theorem validFrom_append (cfg : Cfg) : ∀ (a b : List Op) (s : State) (i : Nat),
    ValidFrom cfg s i (a ++ b) ↔
      (ValidFrom cfg s i a ∧ ValidFrom cfg (runFrom cfg false s i a) (i + a.length) b) := by
  intro a
  induction a with
  | nil => intro b s i; simp [ValidFrom, runFrom]
  | cons op a ih =>
    intro b s i
    simp only [List.cons_append, ValidFrom, runFrom, List.length_cons]
    rw [ih, and_assoc]
    have : i + 1 + a.length = i + (a.length + 1) := by omega
    rw [this]

theorem sim_run (cfg : Cfg) : ∀ (ops : List Op) (live rep : State) (i : Nat), Sim live rep i →
    ValidFrom cfg live i ops →
    Sim (runFrom cfg false live i ops) (runFrom cfg true rep i ops) (i + ops.length) := by
  intro ops
  induction ops with
  | nil => intro live rep i h _; exact h
  | cons op ops ih =>
    intro live rep i h hv
    simp only [runFrom, List.length_cons]
    have := ih _ _ (i + 1) (sim_step cfg h op hv.1) hv.2
    have e : i + (ops.length + 1) = i + 1 + ops.length := by omega
    rw [e]; exact this

theorem sim_init (d : List String) : Sim init { disk := d } 0 := by
  refine ⟨rfl, ?_, List.nodup_nil, rfl, ?_, ?_, ?_, ?_⟩ <;> intro x hx <;> cases hx

theorem obsPart_finish (p : Part) : obsPart (finishPart p) = obsPart p := by
  unfold finishPart
  split <;> rfl

theorem obsStreams_finish (cfg : Cfg) (s : State) (e : Nat) : obsStreams (finish cfg s e) = obsStreams s := by
  simp only [obsStreams, finish]
  have hnt : ∀ st : Stream, nt { st with parts := st.parts.map finishPart } = nt st := fun _ => rfl
  rw [List.filter_map]
  have h1 : (s.streams.filter fun st => !st.tombstone).filter (nt ∘ fun st => { st with parts := st.parts.map finishPart }) =
      s.streams.filter nt := by
    rw [List.filter_filter]
    apply List.filter_congr
    intro st _
    simp [Function.comp, nt]
  rw [h1, List.map_map]
  apply List.map_congr_left
  intro st _
  simp only [Function.comp, obsStream, List.map_map]
  congr 1
  apply List.map_congr_left
  intro p _
  exact obsPart_finish p

theorem purge_gobs (cfg : Cfg) (e : Nat) : ∀ (L : List String) (T0 : List String) (gs : List Group),
    (∀ g ∈ gs, MemSub g) → EpochLe gs e →
    (L.foldl (fun gs n => notifyDeleted cfg gs n e) gs).map (gobs T0) = gs.map (gobs (L ++ T0)) := by
  intro L
  induction L with
  | nil => intro T0 gs _ _; rfl
  | cons n L ih =>
    intro T0 gs hsub hep
    simp only [List.foldl_cons]
    rw [ih T0 (notifyDeleted cfg gs n e) (notifyDeleted_sub cfg n e gs hsub) (notifyDeleted_epoch cfg n e gs e hep (Nat.le_refl e)),
      notifyDeleted_gobs cfg (L ++ T0) n e gs hsub hep, List.map_map]
    apply List.map_congr_left
    intro g _
    exact (gobs_drop n g (fun x => by simp)).symm

def toObs (o : GObs) : GroupObs := { id := o.1, coordinator := o.2.1, epoch := 0, members := o.2.2 }

theorem obsNoGroupEpoch_eq (s : State) :
    obsNoGroupEpoch s = { streams := obsStreams s, groups := (s.groups.map (gobs [])).map toObs } := by
  simp only [obsNoGroupEpoch, obs, List.map_map]
  congr 1
  apply List.map_congr_left
  intro g _
  simp only [Function.comp, toObs, gobs, obsGroup]
  congr 1
  have : g.members.map (fun m => (m.1, filtT [] m.2)) = g.members.map id := by
    apply List.map_congr_left; intro m _; rw [filtT_nil]; rfl
  rw [this, List.map_id]

/-- **End of recovery**: once the tombstoned streams are purged the replaying server shows what the
live server shows (group epochs aside). -/
theorem sim_finish (cfg : Cfg) {live rep : State} {i : Nat} (h : Sim live rep i) (e : Nat) (hie : i ≤ e) :
    obsNoGroupEpoch (finish cfg rep e) = obsNoGroupEpoch live := by
  rw [obsNoGroupEpoch_eq, obsNoGroupEpoch_eq, obsStreams_finish, h.streams, h.groups]
  congr 2
  have : (finish cfg rep e).groups =
      ((tombNames rep).foldl (fun gs n => notifyDeleted cfg gs n e) rep.groups).map ({ · with recovered := false }) := rfl
  rw [this, List.map_map]
  have h2 : (gobs [] ∘ fun g : Group => { g with recovered := false }) = gobs [] := rfl
  rw [h2, purge_gobs cfg e (tombNames rep) [] rep.groups h.subR (epochLe_mono h.epR hie), List.append_nil]


/-! ## G. invariants of the live server -/

def isResume : Op → Bool
  | .resume .. => true
  | _ => false

def isReadonlyOn : Op → Bool
  | .readonly _ _ true => true
  | _ => false

/-- The op is harmless for the run-time/protobuf flag pairs: either the code keeps them in step
(the repairs), or the op is not one of those that separate them. -/
def OpOK (cfg : Cfg) (op : Op) : Prop :=
  (cfg.clearPaused = true ∨ isResume op = false) ∧ (cfg.restoreReadonly = true ∨ isReadonlyOn op = false)

/-- The run-time flags agree with the protobuf flags (what a snapshot would carry). -/
structure PartSync (cfg : Cfg) (p : Part) : Prop where
  pa : p.paused = p.protoPaused
  ro : p.readonly = p.protoReadonly
  rr : cfg.restoreReadonly = false → p.protoReadonly = false
  le : p.leaderEpoch ≤ p.epoch

structure Inv (cfg : Cfg) (s : State) (i : Nat) : Prop where
  noTomb : ∀ st ∈ s.streams, st.tombstone = false
  nodup : (s.streams.map (·.name)).Nodup
  sync : ∀ st ∈ s.streams, ∀ p ∈ st.parts, PartSync cfg p
  sub : ∀ g ∈ s.groups, MemSub g
  memNodup : ∀ g ∈ s.groups, (g.members.map (·.1)).Nodup
  memSorted : ∀ g ∈ s.groups, ∀ m ∈ g.members, m.2.Pairwise (· < ·)
  ep : EpochLe s.groups i

theorem inv_init (cfg : Cfg) : Inv cfg init 0 := by
  refine ⟨?_, List.nodup_nil, ?_, ?_, ?_, ?_, ?_⟩ <;> intro x hx <;> cases hx

theorem mem_updParts {ps : List Part} {sel : Part → Bool} {g : Part → Part} {p : Part}
    (hp : p ∈ updParts ps sel g) : ∃ p0 ∈ ps, p = p0 ∨ p = g p0 := by
  unfold updParts at hp
  obtain ⟨p0, h0, rfl⟩ := List.mem_map.1 hp
  refine ⟨p0, h0, ?_⟩
  split
  · exact Or.inr rfl
  · exact Or.inl rfl

theorem partOp_form2 (cfg : Cfg) (s : State) (op : Op) (idx : Nat) (hp : isPartOp op = true) (hok : OpOK cfg op) :
    ∃ (n : String) (sel : Part → Bool) (g : Part → Part) (f : Stream → Stream),
      (∀ st : Stream, (f st).name = st.name ∧ (f st).tombstone = st.tombstone ∧ (f st).parts = updParts st.parts sel g) ∧
      (∀ p, PartSync cfg p → PartSync cfg (g p)) ∧
      applyOp cfg s op idx false = { s with streams := updStream s.streams n f } := by
  cases op with
  | pause n ids ra =>
    refine ⟨n, selIds ids, pausePart,
      (fun st => { st with parts := updParts st.parts (selIds ids) pausePart, resumeAll := ra }),
      fun st => ⟨rfl, rfl, rfl⟩, ?_, rfl⟩
    intro p hs; exact ⟨rfl, hs.ro, hs.rr, hs.le⟩
  | resume n ids =>
    refine ⟨n, (fun p => ids.contains p.id && p.paused), resumePart cfg false,
      (fun st => { st with parts := updParts st.parts (fun p => ids.contains p.id && p.paused) (resumePart cfg false) }),
      fun st => ⟨rfl, rfl, rfl⟩, ?_, rfl⟩
    intro p hs
    have hc : cfg.clearPaused = true := by
      rcases hok.1 with h | h
      · exact h
      · simp [isResume] at h
    refine ⟨?_, ?_, hs.rr, hs.le⟩
    · simp [resumePart, hc]
    · simp only [resumePart]
      cases hr : cfg.restoreReadonly with
      | true => simp
      | false => simp [hs.rr hr]
  | readonly n ids ro =>
    refine ⟨n, selIds ids, roPart ro,
      (fun st => { st with parts := updParts st.parts (selIds ids) (roPart ro) }),
      fun st => ⟨rfl, rfl, rfl⟩, ?_, rfl⟩
    intro p hs
    refine ⟨hs.pa, rfl, ?_, hs.le⟩
    intro hr
    cases ro with
    | false => rfl
    | true =>
      rcases hok.2 with h | h
      · rw [hr] at h; cases h
      · simp [isReadonlyOn] at h
  | shrink n pid r =>
    refine ⟨n, (fun p => decide (p.id = pid)), shrinkPart r idx,
      (fun st => { st with parts := updParts st.parts (fun p => decide (p.id = pid)) (shrinkPart r idx) }),
      fun st => ⟨rfl, rfl, rfl⟩, ?_, rfl⟩
    intro p hs; unfold shrinkPart; split
    · exact hs
    · next hst =>
      refine ⟨hs.pa, hs.ro, hs.rr, ?_⟩
      have : ¬ p.epoch ≥ idx := by simpa [staleShrink, Gen.Metadata.shrinkEpochGuard, Cmp.evalNat] using hst
      have := hs.le
      show p.leaderEpoch ≤ idx
      omega
  | expand n pid r =>
    refine ⟨n, (fun p => decide (p.id = pid)), expandPart r idx,
      (fun st => { st with parts := updParts st.parts (fun p => decide (p.id = pid)) (expandPart r idx) }),
      fun st => ⟨rfl, rfl, rfl⟩, ?_, rfl⟩
    intro p hs; unfold expandPart; split
    · exact hs
    · next hst =>
      refine ⟨hs.pa, hs.ro, hs.rr, ?_⟩
      have : ¬ p.epoch ≥ idx := by simpa [staleExpand, Gen.Metadata.expandEpochGuard, Cmp.evalNat] using hst
      have := hs.le
      show p.leaderEpoch ≤ idx
      omega
  | leader n pid l =>
    refine ⟨n, (fun p => decide (p.id = pid)), leaderPart l idx,
      (fun st => { st with parts := updParts st.parts (fun p => decide (p.id = pid)) (leaderPart l idx) }),
      fun st => ⟨rfl, rfl, rfl⟩, ?_, rfl⟩
    intro p hs; unfold leaderPart; split
    · exact hs
    · exact ⟨hs.pa, hs.ro, hs.rr, Nat.le_refl _⟩
  | create _ => simp [isPartOp] at hp
  | delete _ => simp [isPartOp] at hp
  | group _ => simp [isPartOp] at hp
  | join _ _ _ => simp [isPartOp] at hp
  | leave _ _ => simp [isPartOp] at hp
  | coord _ _ => simp [isPartOp] at hp
  | activity _ => simp [isPartOp] at hp
  | unknown => simp [isPartOp] at hp

theorem upsert_ids_nodup (ms : List Member) (id : String) (v : List String) (h : (ms.map (·.1)).Nodup) :
    ((upsertMember ms id v).map (·.1)).Nodup := by
  unfold upsertMember
  split
  · rw [List.map_map]
    have : ms.map ((fun m : Member => m.1) ∘ fun m => if m.1 = id then (id, v) else m) = ms.map (·.1) := by
      apply List.map_congr_left
      intro m _
      simp only [Function.comp]
      split
      · next h1 => exact h1.symm
      · rfl
    rw [this]; exact h
  · next hany =>
    rw [List.map_append, List.nodup_append]
    refine ⟨h, by simp, ?_⟩
    intro a ha b hb
    simp only [List.map_cons, List.map_nil, List.mem_singleton] at hb
    subst hb
    intro hab
    subst hab
    apply hany
    obtain ⟨m, hm, hm1⟩ := List.mem_map.1 ha
    exact List.any_eq_true.2 ⟨m, hm, by simpa using hm1⟩

theorem foldl_addMember_fresh : ∀ (ms : List Member) (g : Group),
    (g.members.map (·.1) ++ ms.map (·.1)).Nodup →
    (ms.foldl addMember g).members = g.members ++ ms.map (fun m => (m.1, Groups.sortDedup m.2)) := by
  intro ms
  induction ms with
  | nil => intro g _; simp
  | cons a ms ih =>
    intro g hnd
    simp only [List.foldl_cons, List.map_cons]
    have ha : g.members.any (fun m => decide (m.1 = a.1)) = false := by
      rw [Bool.eq_false_iff]
      intro hany
      obtain ⟨m, hm, hm1⟩ := List.any_eq_true.1 hany
      have hm1' : m.1 = a.1 := by simpa using hm1
      rw [List.nodup_append] at hnd
      exact hnd.2.2 m.1 (List.mem_map.2 ⟨m, hm, rfl⟩) a.1 (by simp) hm1'
    have hmem : (addMember g a).members = g.members ++ [(a.1, Groups.sortDedup a.2)] := by
      simp only [addMember, upsertMember, ha]
      simp
    rw [ih (addMember g a), hmem, List.append_assoc]
    · rfl
    · rw [hmem, List.map_append]
      simpa [List.append_assoc] using hnd

theorem sortDedup_sorted {l : List String} (h : l.Pairwise (· < ·)) : Groups.sortDedup l = l :=
  Proofs.Groups.sorted_ext _ _ (Proofs.Groups.sorted_sortDedup l) h (fun x => Proofs.Groups.mem_sortDedup x l)

theorem notify_ids (cfg : Cfg) (n : String) (idx : Nat) (g : Group) :
    (notifyGroup cfg n idx g).members.map (·.1) = g.members.map (·.1) := by
  unfold notifyGroup
  split
  · rfl
  · split
    · split
      · rfl
      · simp [List.map_map, Function.comp_def]
    · rfl

theorem notify_sorted (cfg : Cfg) (n : String) (idx : Nat) (g : Group) (h : ∀ m ∈ g.members, m.2.Pairwise (· < ·)) :
    ∀ m ∈ (notifyGroup cfg n idx g).members, m.2.Pairwise (· < ·) := by
  unfold notifyGroup
  split
  · exact h
  · split
    · split
      · exact h
      · intro m hm
        obtain ⟨m0, h0, rfl⟩ := List.mem_map.1 hm
        exact (h m0 h0).filter _
    · exact h

theorem memSorted_mkGroup (gp : GroupP) (r : Bool) : ∀ m ∈ (mkGroup gp r).members, m.2.Pairwise (· < ·) := by
  intro m hm
  unfold mkGroup at hm
  rcases foldl_addMember_members gp.members _ m hm with h0 | ⟨m0, _, rfl⟩
  · cases h0
  · exact Proofs.Groups.sorted_sortDedup _

theorem memNodup_foldl (ms : List Member) : ∀ (g : Group), (g.members.map (·.1)).Nodup →
    ((ms.foldl addMember g).members.map (·.1)).Nodup := by
  induction ms with
  | nil => intro g h; exact h
  | cons a ms ih =>
    intro g h
    simp only [List.foldl_cons]
    exact ih _ (upsert_ids_nodup g.members a.1 _ h)

theorem memNodup_mkGroup (gp : GroupP) (r : Bool) : ((mkGroup gp r).members.map (·.1)).Nodup := by
  unfold mkGroup
  exact memNodup_foldl gp.members _ List.nodup_nil

theorem not_hasStream_name {s : State} {n : String} (h : hasStream s n = false) : n ∉ s.streams.map (·.name) := by
  intro hm
  obtain ⟨st, hst, hn⟩ := List.mem_map.1 hm
  have : hasStream s n = true := hasStream_iff.2 ⟨st, hst, hn⟩
  rw [h] at this; cases this

/-- **The invariant is kept by every op the propose-time checks accept.** -/
theorem inv_step (cfg : Cfg) {s : State} {i : Nat} (h : Inv cfg s i) (op : Op) (hp : pre s op = true)
    (hok : OpOK cfg op) : Inv cfg (applyOp cfg s op (i + 1) false) (i + 1) := by
  have hep' : EpochLe s.groups (i + 1) := epochLe_mono h.ep (Nat.le_succ i)
  by_cases hpo : isPartOp op = true
  · obtain ⟨n, sel, g, f, hf, hg, e⟩ := partOp_form2 cfg s op (i + 1) hpo hok
    rw [e]
    refine ⟨?_, ?_, ?_, h.sub, h.memNodup, h.memSorted, hep'⟩
    · intro st hst
      obtain ⟨st0, h0, ⟨_, rfl⟩ | ⟨_, rfl⟩⟩ := mem_updStream hst
      · exact h.noTomb _ h0
      · rw [(hf st0).2.1]; exact h.noTomb _ h0
    · show ((updStream s.streams n f).map (·.name)).Nodup
      rw [map_name_updStream _ _ _ (fun st => (hf st).1)]; exact h.nodup
    · intro st hst p hpp
      obtain ⟨st0, h0, ⟨_, rfl⟩ | ⟨_, rfl⟩⟩ := mem_updStream hst
      · exact h.sync _ h0 p hpp
      · rw [(hf st0).2.2] at hpp
        obtain ⟨p0, hp0, rfl | rfl⟩ := mem_updParts hpp
        · exact h.sync _ h0 _ hp0
        · exact hg _ (h.sync _ h0 _ hp0)
  · cases op with
    | create sp =>
      have hno : hasStream s sp.name = false := pre_create hp
      have hflags : sp.parts.all (fun p => !p.paused && !p.readonly) = true := by
        simp only [pre, Bool.and_eq_true] at hp; exact hp.1.2
      have hstr : (applyOp cfg s (.create sp) (i + 1) false).streams =
          s.streams.filter (fun st => decide (st.name ≠ sp.name)) ++ [mkStream cfg (stamp sp (i + 1)) false] := rfl
      have hgr : (applyOp cfg s (.create sp) (i + 1) false).groups = s.groups := by
        show (if hasStream s (stamp sp (i + 1)).name = true then _ else s.groups) = s.groups
        rw [show (stamp sp (i + 1)).name = sp.name from rfl, hno]; rfl
      have hfil : s.streams.filter (fun st => decide (st.name ≠ sp.name)) = s.streams := by
        rw [List.filter_eq_self]
        intro st hst
        have := not_hasStream_name hno
        apply decide_eq_true
        intro hn
        exact this (List.mem_map.2 ⟨st, hst, hn⟩)
      refine ⟨?_, ?_, ?_, ?_, ?_, ?_, ?_⟩
      · intro st hst
        rw [hstr] at hst
        rcases List.mem_append.1 hst with h1 | h1
        · exact h.noTomb st (List.mem_filter.1 h1).1
        · rw [List.mem_singleton.1 h1]; rfl
      · rw [hstr, hfil, List.map_append, List.nodup_append]
        refine ⟨h.nodup, by simp, ?_⟩
        intro a ha b hb
        simp only [List.map_cons, List.map_nil, List.mem_singleton] at hb
        subst hb
        intro hab
        subst hab
        exact not_hasStream_name hno ha
      · intro st hst p hpp
        rw [hstr] at hst
        rcases List.mem_append.1 hst with h1 | h1
        · exact h.sync st (List.mem_filter.1 h1).1 p hpp
        · rw [List.mem_singleton.1 h1] at hpp
          simp only [mkStream, stamp, List.map_map, List.mem_map, Function.comp] at hpp
          obtain ⟨pp, hpp0, rfl⟩ := hpp
          have := List.all_eq_true.1 hflags pp hpp0
          simp only [Bool.and_eq_true, Bool.not_eq_true'] at this
          refine ⟨?_, ?_, ?_, ?_⟩ <;> simp [mkPart, this.1, this.2]
      · rw [hgr]; exact h.sub
      · rw [hgr]; exact h.memNodup
      · rw [hgr]; exact h.memSorted
      · rw [hgr]; exact hep'
    | delete n =>
      have hgr : (applyOp cfg s (.delete n) (i + 1) false).groups = notifyDeleted cfg s.groups n (i + 1) := rfl
      have hstr : (applyOp cfg s (.delete n) (i + 1) false).streams = s.streams.filter (fun st => decide (st.name ≠ n)) := rfl
      refine ⟨?_, ?_, ?_, ?_, ?_, ?_, ?_⟩
      · intro st hst; rw [hstr] at hst; exact h.noTomb st (List.mem_filter.1 hst).1
      · rw [hstr]; exact h.nodup.sublist (List.Sublist.map _ List.filter_sublist)
      · intro st hst; rw [hstr] at hst; exact h.sync st (List.mem_filter.1 hst).1
      · rw [hgr]; exact notifyDeleted_sub cfg _ _ _ h.sub
      · rw [hgr]
        intro g hg
        obtain ⟨g0, h0, rfl⟩ := List.mem_map.1 hg
        rw [notify_ids]; exact h.memNodup g0 h0
      · rw [hgr]
        intro g hg
        obtain ⟨g0, h0, rfl⟩ := List.mem_map.1 hg
        exact notify_sorted cfg n (i + 1) g0 (h.memSorted g0 h0)
      · rw [hgr]; exact notifyDeleted_epoch cfg _ _ _ _ hep' (Nat.le_refl _)
    | group gp =>
      simp only [pre, Bool.and_eq_true, beq_iff_eq] at hp
      obtain ⟨⟨⟨_, hepz⟩, _⟩, _⟩ := hp
      have hgr : (applyOp cfg s (.group gp) (i + 1) false).groups = s.groups ++ [mkGroup gp false] := rfl
      refine ⟨h.noTomb, h.nodup, h.sync, ?_, ?_, ?_, ?_⟩
      · rw [hgr]; intro g hg
        rcases List.mem_append.1 hg with h1 | h1
        · exact h.sub _ h1
        · rw [List.mem_singleton.1 h1]; exact memSub_mkGroup gp false
      · rw [hgr]; intro g hg
        rcases List.mem_append.1 hg with h1 | h1
        · exact h.memNodup _ h1
        · rw [List.mem_singleton.1 h1]; exact memNodup_mkGroup gp false
      · rw [hgr]; intro g hg
        rcases List.mem_append.1 hg with h1 | h1
        · exact h.memSorted _ h1
        · rw [List.mem_singleton.1 h1]; exact memSorted_mkGroup gp false
      · rw [hgr]; intro g hg
        rcases List.mem_append.1 hg with h1 | h1
        · exact hep' _ h1
        · rw [List.mem_singleton.1 h1, mkGroup_epoch, hepz]; exact Nat.zero_le _
    | join gid cid ss =>
      have hgr : (applyOp cfg s (.join gid cid ss) (i + 1) false).groups =
          updGroup s.groups gid (fun g => { addMember g (cid, ss) with epoch := i + 1 }) := rfl
      refine ⟨h.noTomb, h.nodup, h.sync, ?_, ?_, ?_, ?_⟩
      · rw [hgr]; intro g hg
        obtain ⟨g0, h0, rfl | rfl⟩ := mem_updGroup hg
        · exact h.sub _ h0
        · exact memSub_addMember g0 _ (h.sub _ h0)
      · rw [hgr]; intro g hg
        obtain ⟨g0, h0, rfl | rfl⟩ := mem_updGroup hg
        · exact h.memNodup _ h0
        · exact upsert_ids_nodup g0.members cid _ (h.memNodup _ h0)
      · rw [hgr]; intro g hg
        obtain ⟨g0, h0, rfl | rfl⟩ := mem_updGroup hg
        · exact h.memSorted _ h0
        · intro m hm
          rcases mem_upsert hm with h1 | rfl
          · exact h.memSorted _ h0 m h1
          · exact Proofs.Groups.sorted_sortDedup _
      · rw [hgr]; intro g hg
        obtain ⟨g0, h0, rfl | rfl⟩ := mem_updGroup hg
        · exact hep' _ h0
        · exact Nat.le_refl _
    | leave gid cid =>
      have hgr : (applyOp cfg s (.leave gid cid) (i + 1) false).groups = leaveGroup s.groups gid cid (i + 1) := rfl
      have hmem : ∀ g ∈ leaveGroup s.groups gid cid (i + 1),
          ∃ g0 ∈ s.groups, g = g0 ∨ g = { g0 with members := g0.members.filter (fun m => decide (m.1 ≠ cid)), epoch := i + 1 } := by
        intro g hg
        unfold leaveGroup at hg
        exact mem_updGroup (List.mem_filter.1 hg).1
      refine ⟨h.noTomb, h.nodup, h.sync, ?_, ?_, ?_, ?_⟩
      · rw [hgr]; intro g hg
        obtain ⟨g0, h0, rfl | rfl⟩ := hmem g hg
        · exact h.sub _ h0
        · intro m hm x hx; exact h.sub _ h0 m (List.mem_filter.1 hm).1 x hx
      · rw [hgr]; intro g hg
        obtain ⟨g0, h0, rfl | rfl⟩ := hmem g hg
        · exact h.memNodup _ h0
        · exact (h.memNodup _ h0).sublist (List.Sublist.map _ List.filter_sublist)
      · rw [hgr]; intro g hg
        obtain ⟨g0, h0, rfl | rfl⟩ := hmem g hg
        · exact h.memSorted _ h0
        · intro m hm; exact h.memSorted _ h0 m (List.mem_filter.1 hm).1
      · rw [hgr]; intro g hg
        obtain ⟨g0, h0, rfl | rfl⟩ := hmem g hg
        · exact hep' _ h0
        · exact Nat.le_refl _
    | coord gid c =>
      have hgr : (applyOp cfg s (.coord gid c) (i + 1) false).groups =
          updGroup s.groups gid (fun g => if Gen.Metadata.coordEpochGuard.evalNat g.epoch (i + 1) then g
            else { g with coordinator := c, epoch := i + 1 }) := rfl
      refine ⟨h.noTomb, h.nodup, h.sync, ?_, ?_, ?_, ?_⟩
      · rw [hgr]; intro g hg
        obtain ⟨g0, h0, rfl | rfl⟩ := mem_updGroup hg
        · exact h.sub _ h0
        · split
          · exact h.sub g0 h0
          · exact h.sub g0 h0
      · rw [hgr]; intro g hg
        obtain ⟨g0, h0, rfl | rfl⟩ := mem_updGroup hg
        · exact h.memNodup _ h0
        · split
          · exact h.memNodup g0 h0
          · exact h.memNodup g0 h0
      · rw [hgr]; intro g hg
        obtain ⟨g0, h0, rfl | rfl⟩ := mem_updGroup hg
        · exact h.memSorted _ h0
        · split
          · exact h.memSorted g0 h0
          · exact h.memSorted g0 h0
      · rw [hgr]; intro g hg
        obtain ⟨g0, h0, rfl | rfl⟩ := mem_updGroup hg
        · exact hep' _ h0
        · split
          · exact hep' _ h0
          · exact Nat.le_refl _
    | activity k => exact ⟨h.noTomb, h.nodup, h.sync, h.sub, h.memNodup, h.memSorted, hep'⟩
    | unknown => simp [pre] at hp
    | pause _ _ _ => simp [isPartOp] at hpo
    | resume _ _ => simp [isPartOp] at hpo
    | readonly _ _ _ => simp [isPartOp] at hpo
    | shrink _ _ _ => simp [isPartOp] at hpo
    | expand _ _ _ => simp [isPartOp] at hpo
    | leader _ _ _ => simp [isPartOp] at hpo

theorem inv_run (cfg : Cfg) : ∀ (ops : List Op) (s : State) (i : Nat), Inv cfg s i → ValidFrom cfg s i ops →
    (∀ op ∈ ops, OpOK cfg op) → Inv cfg (runFrom cfg false s i ops) (i + ops.length) := by
  intro ops
  induction ops with
  | nil => intro s i h _ _; exact h
  | cons op ops ih =>
    intro s i h hv hok
    simp only [runFrom, List.length_cons]
    have := ih _ (i + 1) (inv_step cfg h op hv.1 (hok op List.mem_cons_self)) hv.2
      (fun o ho => hok o (List.mem_cons_of_mem _ ho))
    have e : i + (ops.length + 1) = i + 1 + ops.length := by omega
    rw [e]; exact this


/-! ## H. snapshot and restore -/

theorem foldl_addStream (cfg : Cfg) : ∀ (sps : List StreamP) (acc : State), acc.groups = [] →
    (acc.streams.map (·.name) ++ sps.map (·.name)).Nodup →
    (sps.foldl (fun a sp => addStream cfg a sp true 0) acc).streams = acc.streams ++ sps.map (mkStream cfg · true) ∧
    (sps.foldl (fun a sp => addStream cfg a sp true 0) acc).groups = [] := by
  intro sps
  induction sps with
  | nil => intro acc hg _; simp [hg]
  | cons sp sps ih =>
    intro acc hg hnd
    simp only [List.foldl_cons, List.map_cons]
    have hfresh : sp.name ∉ acc.streams.map (·.name) := by
      intro hm
      rw [List.nodup_append] at hnd
      exact hnd.2.2 sp.name hm sp.name (by simp) rfl
    have hfil : acc.streams.filter (fun st => decide (st.name ≠ sp.name)) = acc.streams := by
      rw [List.filter_eq_self]
      intro st hst
      apply decide_eq_true
      intro hn
      exact hfresh (List.mem_map.2 ⟨st, hst, hn⟩)
    have hstr : (addStream cfg acc sp true 0).streams = acc.streams ++ [mkStream cfg sp true] := by
      show acc.streams.filter (fun st => decide (st.name ≠ sp.name)) ++ [mkStream cfg sp true] = _
      rw [hfil]
    have hgr : (addStream cfg acc sp true 0).groups = [] := by
      show (if hasStream acc sp.name = true then notifyDeleted cfg acc.groups sp.name 0 else acc.groups) = []
      rw [hg]; split <;> rfl
    have := ih (addStream cfg acc sp true 0) hgr (by
      rw [hstr, List.map_append]
      simpa [List.append_assoc, mkStream_name] using hnd)
    rw [this.1, this.2, hstr, List.append_assoc]
    exact ⟨rfl, rfl⟩

theorem foldl_addGroup : ∀ (gps : List GroupP) (acc : State),
    (gps.foldl (fun a gp => addGroup a gp true) acc).groups = acc.groups ++ gps.map (mkGroup · true) ∧
    (gps.foldl (fun a gp => addGroup a gp true) acc).streams = acc.streams := by
  intro gps
  induction gps with
  | nil => intro acc; simp
  | cons gp gps ih =>
    intro acc
    simp only [List.foldl_cons, List.map_cons]
    have := ih (addGroup acc gp true)
    rw [this.1, this.2]
    simp [addGroup, List.append_assoc]

theorem restore_streams (cfg : Cfg) (d : List String) (s : State) (hnd : (s.streams.map (·.name)).Nodup) :
    (restore cfg { disk := d } (snapshot s)).streams = s.streams.map (fun st => mkStream cfg (snapStream st) true) ∧
    (restore cfg { disk := d } (snapshot s)).groups = s.groups.map (fun g => mkGroup (snapGroup g) true) := by
  unfold restore
  have h1 := foldl_addStream cfg (snapshot s).streams { ({ disk := d } : State) with streams := [], groups := [] } rfl
    (by simpa [snapshot, List.map_map, Function.comp_def, snapStream] using hnd)
  have h2 := foldl_addGroup (snapshot s).groups
    ((snapshot s).streams.foldl (fun a sp => addStream cfg a sp true 0) { ({ disk := d } : State) with streams := [], groups := [] })
  simp only at h1 h2 ⊢
  rw [h2.1, h2.2, h1.1, h1.2]
  simp [snapshot, List.map_map, Function.comp_def]

theorem obsStream_restore (cfg : Cfg) (st : Stream) (hs : ∀ p ∈ st.parts, PartSync cfg p) :
    obsStream (mkStream cfg (snapStream st) true) = obsStream st := by
  simp only [obsStream, mkStream, snapStream, List.map_map]
  congr 1
  apply List.map_congr_left
  intro p hp
  obtain ⟨h1, h2, h3, _⟩ := hs p hp
  simp only [Function.comp, obsPart, mkPart, snapPart]
  have hr : (cfg.restoreReadonly && p.protoReadonly) = p.readonly := by
    cases hc : cfg.restoreReadonly with
    | true => simp [h2]
    | false => simp [h2, h3 hc]
  rw [hr, ← h1]

theorem mkGroup_snap (g : Group) (hnd : (g.members.map (·.1)).Nodup) (hs : ∀ m ∈ g.members, m.2.Pairwise (· < ·)) :
    (mkGroup (snapGroup g) true).members = g.members := by
  unfold mkGroup
  rw [foldl_addMember_fresh (snapGroup g).members _ (by simpa [snapGroup] using hnd)]
  simp only [snapGroup, List.nil_append]
  have : g.members.map (fun m => (m.1, Groups.sortDedup m.2)) = g.members.map id := by
    apply List.map_congr_left
    intro m hm
    rw [sortDedup_sorted (hs m hm)]; rfl
  rw [this, List.map_id]

/-- **A restored snapshot is in step with the server it was taken from.** -/
theorem sim_restore (cfg : Cfg) (d : List String) {s : State} {i : Nat} (h : Inv cfg s i) :
    Sim s (restore cfg { disk := d } (snapshot s)) i := by
  obtain ⟨hstr, hgr⟩ := restore_streams cfg d s h.nodup
  have hfil : s.streams.filter nt = s.streams := by
    rw [List.filter_eq_self]; intro st hst; simp [nt, h.noTomb st hst]
  have hnoT : tombNames (restore cfg { disk := d } (snapshot s)) = [] := by
    simp only [tombNames, hstr]
    rw [List.filter_map]
    have : s.streams.filter ((fun st : Stream => st.tombstone) ∘ fun st => mkStream cfg (snapStream st) true) = [] := by
      rw [List.filter_eq_nil_iff]; intro st _; simp [Function.comp, mkStream]
    rw [this]; rfl
  refine ⟨?_, h.noTomb, ?_, ?_, h.sub, ?_, h.ep, ?_⟩
  · simp only [obsStreams, hstr, hfil]
    rw [List.filter_map]
    have : s.streams.filter (nt ∘ fun st => mkStream cfg (snapStream st) true) = s.streams := by
      rw [List.filter_eq_self]; intro st _; simp [Function.comp, nt, mkStream]
    rw [this, List.map_map]
    apply List.map_congr_left
    intro st hst
    exact (obsStream_restore cfg st (h.sync st hst)).symm
  · rw [hstr, List.map_map]
    exact h.nodup
  · rw [hnoT, hgr, List.map_map]
    apply List.map_congr_left
    intro g hg
    simp only [Function.comp, gobs]
    rw [mkGroup_snap g (h.memNodup g hg) (h.memSorted g hg)]
    have := foldl_addMember_fields (snapGroup g).members
      { id := g.id, coordinator := g.coordinator, epoch := g.epoch, members := [], subKeys := [], recovered := true }
    have e1 : (mkGroup (snapGroup g) true).id = g.id := this.1
    have e2 : (mkGroup (snapGroup g) true).coordinator = g.coordinator := this.2.1
    rw [e1, e2]
  · rw [hgr]; intro g hg
    obtain ⟨g0, _, rfl⟩ := List.mem_map.1 hg
    exact memSub_mkGroup _ _
  · rw [hgr]; intro g hg
    obtain ⟨g0, h0, rfl⟩ := List.mem_map.1 hg
    rw [mkGroup_epoch]; exact h.ep g0 h0


/-! ## I. names and data directories (independent of the flag switches and of validity) -/

def allNames (s : State) : List String := s.streams.map (·.name)

def NoTomb (s : State) : Prop := ∀ st ∈ s.streams, st.tombstone = false

/-- The transition of the visible stream names. -/
def stepN (op : Op) (l : List String) : List String :=
  match op with
  | .create sp => l.filter (· ≠ sp.name) ++ [sp.name]
  | .delete n => l.filter (· ≠ n)
  | _ => l

theorem map_name_updO (l : List StreamObs) (n : String) (f : StreamObs → StreamObs) (hf : ∀ o, (f o).name = o.name) :
    (updO l n f).map (·.name) = l.map (·.name) := by
  unfold updO
  rw [List.map_map]
  apply List.map_congr_left
  intro o _
  simp only [Function.comp]
  split
  · exact hf o
  · rfl

theorem liveNames_applyOp (cfg : Cfg) (s : State) (op : Op) (idx : Nat) (r : Bool) :
    liveNames (applyOp cfg s op idx r) = stepN op (liveNames s) := by
  unfold liveNames
  rw [obsStreams_applyOp]
  cases op with
  | create sp =>
    simp only [stepO, stepN, List.map_append, List.map_cons, List.map_nil]
    rw [List.filter_map]
    rfl
  | delete n =>
    simp only [stepO, stepN]
    rw [List.filter_map]
    rfl
  | pause n ids ra => exact map_name_updO _ _ _ (fun _ => rfl)
  | resume n ids => exact map_name_updO _ _ _ (fun _ => rfl)
  | readonly n ids ro => exact map_name_updO _ _ _ (fun _ => rfl)
  | shrink n pid rp => exact map_name_updO _ _ _ (fun _ => rfl)
  | expand n pid rp => exact map_name_updO _ _ _ (fun _ => rfl)
  | leader n pid ld => exact map_name_updO _ _ _ (fun _ => rfl)
  | group gp => rfl
  | join gid cid ss => rfl
  | leave gid cid => rfl
  | coord gid c => rfl
  | activity k => rfl
  | unknown => rfl

/-- How an op changes the list of ALL stream names (tombstoned ones included) and the disk. -/
theorem allNames_disk_applyOp (cfg : Cfg) (s : State) (op : Op) (idx : Nat) (r : Bool) :
    (∃ sp, op = .create sp ∧ allNames (applyOp cfg s op idx r) = (allNames s).filter (· ≠ sp.name) ++ [sp.name] ∧
        (applyOp cfg s op idx r).disk = (if s.disk.contains sp.name then s.disk else s.disk ++ [sp.name])) ∨
    (∃ n, op = .delete n ∧ r = false ∧ allNames (applyOp cfg s op idx r) = (allNames s).filter (· ≠ n) ∧
        (applyOp cfg s op idx r).disk = s.disk.filter (· ≠ n)) ∨
    (allNames (applyOp cfg s op idx r) = allNames s ∧ (applyOp cfg s op idx r).disk = s.disk) := by
  by_cases hpo : isPartOp op = true
  · obtain ⟨n, f, hf, e⟩ := partOp_form cfg s op idx r hpo
    refine Or.inr (Or.inr ?_)
    rw [e]
    exact ⟨map_name_updStream _ _ _ (fun st => (hf st).1), rfl⟩
  · cases op with
    | create sp =>
      refine Or.inl ⟨sp, rfl, ?_, rfl⟩
      show (s.streams.filter (fun st => decide (st.name ≠ sp.name)) ++ [mkStream cfg (stamp sp idx) r]).map (·.name) = _
      rw [List.map_append, allNames, List.filter_map]
      rfl
    | delete n =>
      cases r with
      | true =>
        refine Or.inr (Or.inr ⟨?_, rfl⟩)
        show (updStream s.streams n _).map (·.name) = _
        exact map_name_updStream _ _ _ (fun _ => rfl)
      | false =>
        refine Or.inr (Or.inl ⟨n, rfl, rfl, ?_, rfl⟩)
        show (s.streams.filter (fun st => decide (st.name ≠ n))).map (·.name) = _
        rw [allNames, List.filter_map]
        rfl
    | group gp => exact Or.inr (Or.inr ⟨rfl, rfl⟩)
    | join gid cid ss => exact Or.inr (Or.inr ⟨rfl, rfl⟩)
    | leave gid cid => exact Or.inr (Or.inr ⟨rfl, rfl⟩)
    | coord gid c => exact Or.inr (Or.inr ⟨rfl, rfl⟩)
    | activity k => exact Or.inr (Or.inr ⟨rfl, rfl⟩)
    | unknown => exact Or.inr (Or.inr ⟨rfl, rfl⟩)
    | pause _ _ _ => simp [isPartOp] at hpo
    | resume _ _ => simp [isPartOp] at hpo
    | readonly _ _ _ => simp [isPartOp] at hpo
    | shrink _ _ _ => simp [isPartOp] at hpo
    | expand _ _ _ => simp [isPartOp] at hpo
    | leader _ _ _ => simp [isPartOp] at hpo

theorem nodup_filter_append (l : List String) (n : String) (h : l.Nodup) : (l.filter (· ≠ n) ++ [n]).Nodup := by
  rw [List.nodup_append]
  refine ⟨h.sublist List.filter_sublist, by simp, ?_⟩
  intro a ha b hb
  simp only [List.mem_singleton] at hb
  subst hb
  exact of_decide_eq_true (List.mem_filter.1 ha).2

/-- Stream names stay distinct whatever is applied, live or in recovery mode. -/
theorem nodup_applyOp (cfg : Cfg) (s : State) (op : Op) (idx : Nat) (r : Bool) (h : (allNames s).Nodup) :
    (allNames (applyOp cfg s op idx r)).Nodup := by
  rcases allNames_disk_applyOp cfg s op idx r with ⟨sp, _, e, _⟩ | ⟨n, _, _, e, _⟩ | ⟨e, _⟩
  · rw [e]; exact nodup_filter_append _ _ h
  · rw [e]; exact h.sublist List.filter_sublist
  · rw [e]; exact h

theorem noTomb_applyOp (cfg : Cfg) (s : State) (op : Op) (idx : Nat) (h : NoTomb s) :
    NoTomb (applyOp cfg s op idx false) := by
  by_cases hpo : isPartOp op = true
  · obtain ⟨n, f, hf, e⟩ := partOp_form cfg s op idx false hpo
    rw [e]
    intro st hst
    obtain ⟨st0, h0, ⟨_, rfl⟩ | ⟨_, rfl⟩⟩ := mem_updStream hst
    · exact h _ h0
    · rw [(hf st0).2]; exact h _ h0
  · cases op with
    | create sp =>
      intro st hst
      have : (applyOp cfg s (.create sp) idx false).streams =
        s.streams.filter (fun st => decide (st.name ≠ sp.name)) ++ [mkStream cfg (stamp sp idx) false] := rfl
      rw [this] at hst
      rcases List.mem_append.1 hst with h1 | h1
      · exact h st (List.mem_filter.1 h1).1
      · rw [List.mem_singleton.1 h1]; rfl
    | delete n =>
      intro st hst
      exact h st (List.mem_filter.1 hst).1
    | group gp => exact h
    | join gid cid ss => exact h
    | leave gid cid => exact h
    | coord gid c => exact h
    | activity k => exact h
    | unknown => exact h
    | pause _ _ _ => simp [isPartOp] at hpo
    | resume _ _ => simp [isPartOp] at hpo
    | readonly _ _ _ => simp [isPartOp] at hpo
    | shrink _ _ _ => simp [isPartOp] at hpo
    | expand _ _ _ => simp [isPartOp] at hpo
    | leader _ _ _ => simp [isPartOp] at hpo


structure NSim (live rep : State) : Prop where
  names : liveNames live = liveNames rep
  noTomb : NoTomb live
  nodup : (allNames rep).Nodup

theorem nsim_step (cfg : Cfg) {live rep : State} (h : NSim live rep) (op : Op) (idx : Nat) :
    NSim (applyOp cfg live op idx false) (applyOp cfg rep op idx true) :=
  ⟨by rw [liveNames_applyOp, liveNames_applyOp, h.names], noTomb_applyOp cfg live op idx h.noTomb,
    nodup_applyOp cfg rep op idx true h.nodup⟩

theorem nsim_run (cfg : Cfg) : ∀ (ops : List Op) (live rep : State) (i : Nat), NSim live rep →
    NSim (runFrom cfg false live i ops) (runFrom cfg true rep i ops) := by
  intro ops
  induction ops with
  | nil => intro live rep i h; exact h
  | cons op ops ih => intro live rep i h; exact ih _ _ (i + 1) (nsim_step cfg h op (i + 1))

/-- Invariant of a live server started empty: no tombstones, distinct names, every data directory
belongs to a stream. -/
structure LInv (s : State) : Prop where
  noTomb : NoTomb s
  nodup : (allNames s).Nodup
  disk : ∀ x ∈ s.disk, x ∈ allNames s

theorem linv_init : LInv init :=
  ⟨fun _ h => (by cases h), List.nodup_nil, fun _ h => (by cases h)⟩

theorem mem_filter_append_self {l : List String} {n x : String} (hx : x ∈ l) : x ∈ l.filter (· ≠ n) ++ [n] := by
  by_cases h : x = n
  · subst h; simp
  · exact List.mem_append.2 (Or.inl (List.mem_filter.2 ⟨hx, decide_eq_true h⟩))

theorem linv_step (cfg : Cfg) {s : State} (h : LInv s) (op : Op) (idx : Nat) : LInv (applyOp cfg s op idx false) := by
  refine ⟨noTomb_applyOp cfg s op idx h.noTomb, nodup_applyOp cfg s op idx false h.nodup, ?_⟩
  rcases allNames_disk_applyOp cfg s op idx false with ⟨sp, _, e, ed⟩ | ⟨n, _, _, e, ed⟩ | ⟨e, ed⟩
  · rw [e, ed]
    intro x hx
    split at hx
    · exact mem_filter_append_self (h.disk x hx)
    · rcases List.mem_append.1 hx with h1 | h1
      · exact mem_filter_append_self (h.disk x h1)
      · rw [List.mem_singleton.1 h1]; simp
  · rw [e, ed]
    intro x hx
    have := List.mem_filter.1 hx
    exact List.mem_filter.2 ⟨h.disk x this.1, this.2⟩
  · rw [e, ed]; exact h.disk

theorem linv_run (cfg : Cfg) : ∀ (ops : List Op) (s : State) (i : Nat), LInv s → LInv (runFrom cfg false s i ops) := by
  intro ops
  induction ops with
  | nil => intro s i h; exact h
  | cons op ops ih => intro s i h; exact ih _ (i + 1) (linv_step cfg h op (i + 1))

/-- Invariant of a replaying server that found `d0` on disk at restart. -/
structure RInv (d0 : List String) (s : State) : Prop where
  nodup : (allNames s).Nodup
  covers : ∀ x ∈ allNames s, x ∈ s.disk
  keeps : ∀ x ∈ d0, x ∈ s.disk
  bound : ∀ x ∈ s.disk, x ∈ d0 ∨ x ∈ allNames s

theorem rinv_create_shape {d0 : List String} {s s' : State} {n : String} (h : RInv d0 s)
    (e : allNames s' = (allNames s).filter (· ≠ n) ++ [n])
    (ed : s'.disk = if s.disk.contains n then s.disk else s.disk ++ [n]) : RInv d0 s' := by
  have hsub : ∀ x ∈ s.disk, x ∈ s'.disk := by
    intro x hx; rw [ed]; split
    · exact hx
    · exact List.mem_append.2 (Or.inl hx)
  have hn : n ∈ s'.disk := by
    rw [ed]; split
    · next hc => simpa using hc
    · simp
  refine ⟨by rw [e]; exact nodup_filter_append _ _ h.nodup, ?_, fun x hx => hsub x (h.keeps x hx), ?_⟩
  · intro x hx
    rw [e] at hx
    rcases List.mem_append.1 hx with h1 | h1
    · exact hsub x (h.covers x (List.mem_filter.1 h1).1)
    · rw [List.mem_singleton.1 h1]; exact hn
  · intro x hx
    rw [ed] at hx
    rw [e]
    split at hx
    · rcases h.bound x hx with h1 | h1
      · exact Or.inl h1
      · exact Or.inr (mem_filter_append_self h1)
    · rcases List.mem_append.1 hx with h1 | h1
      · rcases h.bound x h1 with h2 | h2
        · exact Or.inl h2
        · exact Or.inr (mem_filter_append_self h2)
      · rw [List.mem_singleton.1 h1]; exact Or.inr (by simp)

theorem rinv_step (cfg : Cfg) {d0 : List String} {s : State} (h : RInv d0 s) (op : Op) (idx : Nat) :
    RInv d0 (applyOp cfg s op idx true) := by
  rcases allNames_disk_applyOp cfg s op idx true with ⟨sp, _, e, ed⟩ | ⟨n, _, hr, _, _⟩ | ⟨e, ed⟩
  · exact rinv_create_shape h e ed
  · cases hr
  · exact ⟨by rw [e]; exact h.nodup, by rw [e, ed]; exact h.covers, by rw [ed]; exact h.keeps, by rw [e, ed]; exact h.bound⟩

theorem rinv_run (cfg : Cfg) (d0 : List String) : ∀ (ops : List Op) (s : State) (i : Nat), RInv d0 s →
    RInv d0 (runFrom cfg true s i ops) := by
  intro ops
  induction ops with
  | nil => intro s i h; exact h
  | cons op ops ih => intro s i h; exact ih _ (i + 1) (rinv_step cfg h op (i + 1))

theorem allNames_mono_rec (cfg : Cfg) (s : State) (op : Op) (idx : Nat) {x : String} (hx : x ∈ allNames s) :
    x ∈ allNames (applyOp cfg s op idx true) := by
  rcases allNames_disk_applyOp cfg s op idx true with ⟨sp, _, e, _⟩ | ⟨n, _, hr, _, _⟩ | ⟨e, _⟩
  · rw [e]; exact mem_filter_append_self hx
  · cases hr
  · rw [e]; exact hx

theorem allNames_mono_run (cfg : Cfg) : ∀ (ops : List Op) (s : State) (i : Nat) {x : String}, x ∈ allNames s →
    x ∈ allNames (runFrom cfg true s i ops) := by
  intro ops
  induction ops with
  | nil => intro s i x h; exact h
  | cons op ops ih => intro s i x h; exact ih _ (i + 1) (allNames_mono_rec cfg s op (i + 1) h)

theorem rinv_restore_fold (cfg : Cfg) (d0 : List String) : ∀ (sps : List StreamP) (acc : State), RInv d0 acc →
    RInv d0 (sps.foldl (fun a sp => addStream cfg a sp true 0) acc) := by
  intro sps
  induction sps with
  | nil => intro acc h; exact h
  | cons sp sps ih =>
    intro acc h
    simp only [List.foldl_cons]
    apply ih
    refine rinv_create_shape (n := sp.name) h ?_ rfl
    show (acc.streams.filter (fun st => decide (st.name ≠ sp.name)) ++ [mkStream cfg sp true]).map (·.name) = _
    rw [List.map_append, allNames, List.filter_map]
    rfl

theorem rinv_restore (cfg : Cfg) (d0 : List String) (snap : Snap) : RInv d0 (restore cfg { disk := d0 } snap) := by
  unfold restore
  have h0 : RInv d0 { ({ disk := d0 } : State) with streams := [], groups := [] } :=
    ⟨List.nodup_nil, fun _ h => (by cases h), fun x hx => hx, fun x hx => Or.inl hx⟩
  have h1 := rinv_restore_fold cfg d0 snap.streams _ h0
  have h2 : ∀ (gps : List GroupP) (acc : State), RInv d0 acc → RInv d0 (gps.foldl (fun a gp => addGroup a gp true) acc) := by
    intro gps
    induction gps with
    | nil => intro acc h; exact h
    | cons gp gps ih => intro acc h; exact ih _ ⟨h.nodup, h.covers, h.keeps, h.bound⟩
  exact h2 snap.groups _ h1

theorem liveNames_eq_allNames {s : State} (h : NoTomb s) : liveNames s = allNames s := by
  unfold liveNames obsStreams allNames
  have : s.streams.filter nt = s.streams := by
    rw [List.filter_eq_self]; intro st hst; simp [nt, h st hst]
  rw [this, List.map_map]; rfl

theorem nsim_restore (cfg : Cfg) (d : List String) {s : State} (h : LInv s) :
    NSim s (restore cfg { disk := d } (snapshot s)) := by
  obtain ⟨hstr, _⟩ := restore_streams cfg d s h.nodup
  have hnd : (allNames (restore cfg { disk := d } (snapshot s))).Nodup := (rinv_restore cfg d (snapshot s)).nodup
  have hnt : NoTomb (restore cfg { disk := d } (snapshot s)) := by
    intro st hst; rw [hstr] at hst
    obtain ⟨st0, _, rfl⟩ := List.mem_map.1 hst; rfl
  refine ⟨?_, h.noTomb, hnd⟩
  rw [liveNames_eq_allNames h.noTomb, liveNames_eq_allNames hnt]
  unfold allNames
  rw [hstr, List.map_map]; rfl

theorem liveNames_finish (cfg : Cfg) (s : State) (e : Nat) : liveNames (finish cfg s e) = liveNames s := by
  unfold liveNames; rw [obsStreams_finish]

theorem mem_disk_finish {cfg : Cfg} {s : State} {e : Nat} {x : String} :
    x ∈ (finish cfg s e).disk ↔ (x ∈ s.disk ∧ x ∉ tombNames s) := by
  show x ∈ s.disk.filter (fun y => !(tombNames s).contains y) ↔ _
  rw [List.mem_filter]
  simp

theorem liveNames_sub_allNames {s : State} {x : String} (h : x ∈ liveNames s) : x ∈ allNames s := by
  obtain ⟨st, hst, _, rfl⟩ := mem_liveNames.1 h
  exact List.mem_map.2 ⟨st, hst, rfl⟩


/-! ## J. the fully repaired code: group epochs agree as well -/

def joinGO (gid cid : String) (v : List String) (idx : Nat) (l : List GroupObs) : List GroupObs :=
  l.map fun o => if o.id = gid then { o with members := upsertMember o.members cid v, epoch := idx } else o

def leaveGO (gid cid : String) (idx : Nat) (l : List GroupObs) : List GroupObs :=
  (l.map fun o => if o.id = gid then { o with members := o.members.filter (fun m => decide (m.1 ≠ cid)), epoch := idx } else o).filter
    fun o => !(decide (o.id = gid) && o.members.isEmpty)

def coordGO (gid c : String) (idx : Nat) (l : List GroupObs) : List GroupObs :=
  l.map fun o => if o.id = gid then { o with coordinator := c, epoch := idx } else o

def subscribedO (o : GroupObs) (n : String) : Bool := o.members.any (fun m => m.2.contains n)

def notifyGO (n : String) (e : Nat) (o : GroupObs) : GroupObs :=
  if subscribedO o n then { o with members := o.members.map (fun m => (m.1, m.2.filter (· ≠ n))), epoch := e } else o

theorem obsGroup_id (g : Group) : (obsGroup g).id = g.id := rfl

/-- With the empty-heap repair, what `StreamDeleted` does to the observable group depends on the
observable group alone. -/
theorem obs_notify (cfg : Cfg) (hc : cfg.emptyHeapNoEpoch = true) (n : String) (e : Nat) (g : Group)
    (hsub : MemSub g) (he : g.epoch ≤ e) : obsGroup (notifyGroup cfg n e g) = notifyGO n e (obsGroup g) := by
  have hg : Gen.Groups.epochDeletedCmp.evalNat e g.epoch = false := by
    simp [Gen.Groups.epochDeletedCmp, Cmp.evalNat]; omega
  have hso : subscribedO (obsGroup g) n = subscribed g n := rfl
  unfold notifyGroup notifyGO
  rw [hg, hso, hc]
  simp only [Bool.false_eq_true, if_false, Bool.true_and]
  by_cases hk : g.subKeys.contains n = true
  · rw [if_pos hk]
    cases hs : subscribed g n with
    | true => simp [obsGroup]
    | false => simp [obsGroup]
  · rw [if_neg hk]
    have : subscribed g n = false := by
      rw [Bool.eq_false_iff]
      intro hs
      obtain ⟨m, hm, hmx⟩ := List.any_eq_true.1 hs
      exact hk (by simpa using hsub m hm n (by simpa using hmx))
    rw [this]; rfl

theorem notifyGO_id (n : String) (e : Nat) (o : GroupObs) (h : subscribedO o n = false) : notifyGO n e o = o := by
  unfold notifyGO; rw [h]; rfl

theorem subscribed_notify (cfg : Cfg) (n : String) (e : Nat) (g : Group) (x : String)
    (h : subscribed (notifyGroup cfg n e g) x = true) : subscribed g x = true := by
  unfold notifyGroup at h
  split at h
  · exact h
  · split at h
    · split at h
      · exact h
      · obtain ⟨m, hm, hmx⟩ := List.any_eq_true.1 h
        obtain ⟨m0, hm0, rfl⟩ := List.mem_map.1 hm
        have : x ∈ m0.2.filter (· ≠ n) := by simpa using hmx
        exact List.any_eq_true.2 ⟨m0, hm0, by simpa using (List.mem_filter.1 this).1⟩
    · exact h

/-- After an accepted `StreamDeleted(n)` nobody subscribes to `n`. -/
theorem not_subscribed_after_notify (cfg : Cfg) (n : String) (e : Nat) (g : Group) (hsub : MemSub g) (he : g.epoch ≤ e) :
    subscribed (notifyGroup cfg n e g) n = false := by
  have hg : Gen.Groups.epochDeletedCmp.evalNat e g.epoch = false := by
    simp [Gen.Groups.epochDeletedCmp, Cmp.evalNat]; omega
  unfold notifyGroup
  rw [hg]
  simp only [Bool.false_eq_true, if_false]
  by_cases hk : g.subKeys.contains n = true
  · rw [if_pos hk]
    split
    · next hem => simp only [Bool.and_eq_true, Bool.not_eq_true'] at hem; exact hem.2
    · rw [Bool.eq_false_iff]
      intro hs
      obtain ⟨m, hm, hmx⟩ := List.any_eq_true.1 hs
      obtain ⟨m0, _, rfl⟩ := List.mem_map.1 hm
      have : n ∈ m0.2.filter (· ≠ n) := by simpa using hmx
      have := (List.mem_filter.1 this).2
      simp at this
  · rw [if_neg hk]
    rw [Bool.eq_false_iff]
    intro hs
    obtain ⟨m, hm, hmx⟩ := List.any_eq_true.1 hs
    exact hk (by simpa using hsub m hm n (by simpa using hmx))

/-- The repairs that concern the consumer-group epochs. -/
def EpochFixed (cfg : Cfg) : Prop := cfg.notifyOnTombstone = true ∧ cfg.emptyHeapNoEpoch = true

/-- `Sim` plus: the groups are observably EQUAL (epochs included) and no member of a replaying group
still subscribes to a tombstoned stream. -/
structure SimE (live rep : State) (i : Nat) : Prop where
  sim : Sim live rep i
  exact : live.groups.map obsGroup = rep.groups.map obsGroup
  clean : ∀ g ∈ rep.groups, ∀ x ∈ tombNames rep, subscribed g x = false

theorem obsGroup_addMember (g : Group) (cid : String) (ss : List String) (idx : Nat) :
    obsGroup { addMember g (cid, ss) with epoch := idx } =
      { obsGroup g with members := upsertMember (obsGroup g).members cid (Groups.sortDedup ss), epoch := idx } := rfl

theorem map_obs_join (gs : List Group) (gid cid : String) (ss : List String) (idx : Nat) :
    (updGroup gs gid fun g => { addMember g (cid, ss) with epoch := idx }).map obsGroup =
      joinGO gid cid (Groups.sortDedup ss) idx (gs.map obsGroup) :=
  map_updGroup obsGroup (·.id) obsGroup_id gs gid _ _ (fun _ _ _ => rfl)

theorem map_obs_leave (gs : List Group) (gid cid : String) (idx : Nat) :
    (leaveGroup gs gid cid idx).map obsGroup = leaveGO gid cid idx (gs.map obsGroup) := by
  unfold leaveGroup leaveGO
  rw [← map_updGroup obsGroup (·.id) obsGroup_id gs gid
        (fun g => { g with members := g.members.filter (fun m => decide (m.1 ≠ cid)), epoch := idx })
        (fun o => { o with members := o.members.filter (fun m => decide (m.1 ≠ cid)), epoch := idx })
        (fun _ _ _ => rfl)]
  rw [List.filter_map]
  rfl

theorem map_obs_coord (gs : List Group) (gid c : String) (i : Nat) (he : EpochLe gs i) :
    (updGroup gs gid fun g => if Gen.Metadata.coordEpochGuard.evalNat g.epoch (i + 1) then g
        else { g with coordinator := c, epoch := i + 1 }).map obsGroup =
      coordGO gid c (i + 1) (gs.map obsGroup) := by
  apply map_updGroup obsGroup (·.id) obsGroup_id gs gid
  intro g hg _
  have : Gen.Metadata.coordEpochGuard.evalNat g.epoch (i + 1) = false := by
    have := he g hg
    simp [Gen.Metadata.coordEpochGuard, Cmp.evalNat]; omega
  simp only [this]; rfl

theorem map_obs_notify (cfg : Cfg) (hc : cfg.emptyHeapNoEpoch = true) (n : String) (e : Nat) (gs : List Group)
    (hsub : ∀ g ∈ gs, MemSub g) (he : EpochLe gs e) :
    (notifyDeleted cfg gs n e).map obsGroup = (gs.map obsGroup).map (notifyGO n e) := by
  unfold notifyDeleted
  rw [List.map_map, List.map_map]
  apply List.map_congr_left
  intro g hg
  exact obs_notify cfg hc n e g (hsub g hg) (he g hg)

theorem obsGroup_mkGroup (gp : GroupP) (r : Bool) : obsGroup (mkGroup gp r) = obsGroup (mkGroup gp false) := by
  rw [mkGroup_rec gp r]; rfl

theorem subscribed_tomb_congr {T1 T2 : List String} (g : Group) (h : ∀ x ∈ T2, x ∈ T1)
    (hc : ∀ x ∈ T1, subscribed g x = false) : ∀ x ∈ T2, subscribed g x = false :=
  fun x hx => hc x (h x hx)

theorem simE_step (cfg : Cfg) (hf : EpochFixed cfg) {live rep : State} {i : Nat} (h : SimE live rep i) (op : Op)
    (hp : pre live op = true) :
    SimE (applyOp cfg live op (i + 1) false) (applyOp cfg rep op (i + 1) true) (i + 1) := by
  have hsim := sim_step cfg h.sim op hp
  have heL : EpochLe live.groups (i + 1) := epochLe_mono h.sim.epL (Nat.le_succ i)
  have heR : EpochLe rep.groups (i + 1) := epochLe_mono h.sim.epR (Nat.le_succ i)
  refine ⟨hsim, ?_, ?_⟩
  · -- the groups stay observably equal
    by_cases hpo : isPartOp op = true
    · obtain ⟨n1, f1, _, e1⟩ := partOp_form cfg live op (i + 1) false hpo
      obtain ⟨n2, f2, _, e2⟩ := partOp_form cfg rep op (i + 1) true hpo
      rw [e1, e2]; exact h.exact
    · cases op with
      | create sp =>
        have hno : hasStream live sp.name = false := pre_create hp
        have egL : (applyOp cfg live (.create sp) (i + 1) false).groups = live.groups := by
          show (if hasStream live (stamp sp (i + 1)).name = true then _ else live.groups) = live.groups
          rw [show (stamp sp (i + 1)).name = sp.name from rfl, hno]; rfl
        have egR : (applyOp cfg rep (.create sp) (i + 1) true).groups =
            if hasStream rep sp.name = true then notifyDeleted cfg rep.groups sp.name (i + 1) else rep.groups := rfl
        rw [egL, egR, h.exact]
        by_cases hex : hasStream rep sp.name = true
        · rw [if_pos hex, map_obs_notify cfg hf.2 sp.name (i + 1) rep.groups h.sim.subR heR, List.map_map]
          apply List.map_congr_left
          intro g hg
          simp only [Function.comp]
          symm
          apply notifyGO_id
          -- the existing stream of that name is tombstoned, so nobody subscribes to it
          obtain ⟨st, hst, hstn⟩ := hasStream_iff.1 hex
          have hnl : sp.name ∉ liveNames rep := not_hasStream_live h.sim hno
          have htomb : st.tombstone = true := by
            cases ht : st.tombstone with
            | true => rfl
            | false => exact absurd (mem_liveNames.2 ⟨st, hst, ht, hstn⟩) hnl
          exact h.clean g hg sp.name (mem_tombNames.2 ⟨st, hst, htomb, hstn⟩)
        · rw [if_neg hex]
      | delete n =>
        have e1 : (applyOp cfg live (.delete n) (i + 1) false).groups = notifyDeleted cfg live.groups n (i + 1) := rfl
        have e2 : (applyOp cfg rep (.delete n) (i + 1) true).groups =
            if cfg.notifyOnTombstone = true then notifyDeleted cfg rep.groups n (i + 1) else rep.groups := rfl
        rw [e1, e2, if_pos hf.1, map_obs_notify cfg hf.2 n (i + 1) live.groups h.sim.subL heL,
          map_obs_notify cfg hf.2 n (i + 1) rep.groups h.sim.subR heR, h.exact]
      | group gp =>
        show (live.groups ++ [mkGroup gp false]).map obsGroup = (rep.groups ++ [mkGroup gp true]).map obsGroup
        rw [List.map_append, List.map_append, h.exact]
        simp only [List.map_cons, List.map_nil]
        rw [obsGroup_mkGroup gp true]
      | join gid cid ss =>
        show (updGroup live.groups gid _).map obsGroup = (updGroup rep.groups gid _).map obsGroup
        rw [map_obs_join, map_obs_join, h.exact]
      | leave gid cid =>
        show (leaveGroup live.groups gid cid (i + 1)).map obsGroup = (leaveGroup rep.groups gid cid (i + 1)).map obsGroup
        rw [map_obs_leave, map_obs_leave, h.exact]
      | coord gid c =>
        show (updGroup live.groups gid _).map obsGroup = (updGroup rep.groups gid _).map obsGroup
        rw [map_obs_coord live.groups gid c i h.sim.epL, map_obs_coord rep.groups gid c i h.sim.epR, h.exact]
      | activity k => exact h.exact
      | unknown => simp [pre] at hp
      | pause _ _ _ => simp [isPartOp] at hpo
      | resume _ _ => simp [isPartOp] at hpo
      | readonly _ _ _ => simp [isPartOp] at hpo
      | shrink _ _ _ => simp [isPartOp] at hpo
      | expand _ _ _ => simp [isPartOp] at hpo
      | leader _ _ _ => simp [isPartOp] at hpo
  · -- nobody subscribes to a tombstoned stream
    by_cases hpo : isPartOp op = true
    · obtain ⟨n2, f2, hf2, e2⟩ := partOp_form cfg rep op (i + 1) true hpo
      rw [e2]
      intro g hg x hx
      rw [tombNames_updStream rep n2 f2 (fun st => (hf2 st).1) (fun st => (hf2 st).2)] at hx
      exact h.clean g hg x hx
    · cases op with
      | create sp =>
        have hstr : (applyOp cfg rep (.create sp) (i + 1) true).streams =
            rep.streams.filter (fun st => decide (st.name ≠ sp.name)) ++ [mkStream cfg (stamp sp (i + 1)) true] := rfl
        have hT : ∀ x ∈ tombNames (applyOp cfg rep (.create sp) (i + 1) true), x ∈ tombNames rep := by
          intro x hx
          rw [mem_tombNames, hstr] at hx
          obtain ⟨st, hst, ht, rfl⟩ := hx
          rcases List.mem_append.1 hst with h1 | h1
          · exact mem_tombNames.2 ⟨st, (List.mem_filter.1 h1).1, ht, rfl⟩
          · rw [List.mem_singleton.1 h1, mkStream_tomb] at ht; cases ht
        have egR : (applyOp cfg rep (.create sp) (i + 1) true).groups =
            if hasStream rep sp.name = true then notifyDeleted cfg rep.groups sp.name (i + 1) else rep.groups := rfl
        intro g hg x hx
        rw [egR] at hg
        split at hg
        · obtain ⟨g0, h0, rfl⟩ := List.mem_map.1 hg
          rw [Bool.eq_false_iff]
          intro hs
          have := subscribed_notify cfg sp.name (i + 1) g0 x hs
          rw [h.clean g0 h0 x (hT x hx)] at this; cases this
        · exact h.clean g hg x (hT x hx)
      | delete n =>
        have e2 : (applyOp cfg rep (.delete n) (i + 1) true).groups =
            if cfg.notifyOnTombstone = true then notifyDeleted cfg rep.groups n (i + 1) else rep.groups := rfl
        have hT : ∀ x ∈ tombNames (applyOp cfg rep (.delete n) (i + 1) true), x = n ∨ x ∈ tombNames rep := by
          intro x hx
          simp only [applyOp, if_true] at hx
          rw [mem_tombNames] at hx
          obtain ⟨st, hst, ht, rfl⟩ := hx
          obtain ⟨st0, h0, ⟨_, rfl⟩ | ⟨hn0, rfl⟩⟩ := mem_updStream hst
          · exact Or.inr (mem_tombNames.2 ⟨st, h0, ht, rfl⟩)
          · exact Or.inl hn0
        intro g hg x hx
        rw [e2, if_pos hf.1] at hg
        obtain ⟨g0, h0, rfl⟩ := List.mem_map.1 hg
        rcases hT x hx with rfl | hxT
        · exact not_subscribed_after_notify cfg x (i + 1) g0 (h.sim.subR g0 h0) (heR g0 h0)
        · rw [Bool.eq_false_iff]
          intro hs
          have := subscribed_notify cfg n (i + 1) g0 x hs
          rw [h.clean g0 h0 x hxT] at this; cases this
      | group gp =>
        simp only [pre, Bool.and_eq_true, beq_iff_eq] at hp
        obtain ⟨_, hall⟩ := hp
        intro g hg x hx
        have hg' : g ∈ rep.groups ++ [mkGroup gp true] := hg
        have hx' : x ∈ tombNames rep := hx
        rcases List.mem_append.1 hg' with h1 | h1
        · exact h.clean g h1 x hx'
        · rw [List.mem_singleton.1 h1, Bool.eq_false_iff]
          intro hs
          obtain ⟨m, hm, hmx⟩ := List.any_eq_true.1 hs
          unfold mkGroup at hm
          rcases foldl_addMember_members gp.members _ m hm with h0 | ⟨m0, h0, rfl⟩
          · cases h0
          · exact streams_not_tomb h.sim (List.all_eq_true.1 hall m0 h0) x (by simpa using hmx) hx'
      | join gid cid ss =>
        have hss : ss.all (hasStream live) = true := by
          simp only [pre] at hp
          split at hp
          · simp only [Bool.and_eq_true] at hp; exact hp.2
          · cases hp
        intro g hg x hx
        have hx' : x ∈ tombNames rep := hx
        have hg' : g ∈ updGroup rep.groups gid (fun g => { addMember g (cid, ss) with epoch := i + 1 }) := hg
        obtain ⟨g0, h0, rfl | rfl⟩ := mem_updGroup hg'
        · exact h.clean _ h0 x hx'
        · rw [Bool.eq_false_iff]
          intro hs
          obtain ⟨m, hm, hmx⟩ := List.any_eq_true.1 hs
          rcases mem_upsert hm with h1 | rfl
          · have : subscribed g0 x = true := List.any_eq_true.2 ⟨m, h1, hmx⟩
            rw [h.clean g0 h0 x hx'] at this; cases this
          · exact streams_not_tomb h.sim hss x (by simpa using hmx) hx'
      | leave gid cid =>
        intro g hg x hx
        have hx' : x ∈ tombNames rep := hx
        have hg' : g ∈ leaveGroup rep.groups gid cid (i + 1) := hg
        unfold leaveGroup at hg'
        obtain ⟨g0, h0, rfl | rfl⟩ := mem_updGroup (List.mem_filter.1 hg').1
        · exact h.clean _ h0 x hx'
        · rw [Bool.eq_false_iff]
          intro hs
          obtain ⟨m, hm, hmx⟩ := List.any_eq_true.1 hs
          have : subscribed g0 x = true := List.any_eq_true.2 ⟨m, (List.mem_filter.1 hm).1, hmx⟩
          rw [h.clean g0 h0 x hx'] at this; cases this
      | coord gid c =>
        intro g hg x hx
        have hx' : x ∈ tombNames rep := hx
        have hg' : g ∈ updGroup rep.groups gid (fun g => if Gen.Metadata.coordEpochGuard.evalNat g.epoch (i + 1) then g
            else { g with coordinator := c, epoch := i + 1 }) := hg
        obtain ⟨g0, h0, rfl | rfl⟩ := mem_updGroup hg'
        · exact h.clean _ h0 x hx'
        · split
          · exact h.clean g0 h0 x hx'
          · exact h.clean g0 h0 x hx'
      | activity k => exact h.clean
      | unknown => simp [pre] at hp
      | pause _ _ _ => simp [isPartOp] at hpo
      | resume _ _ => simp [isPartOp] at hpo
      | readonly _ _ _ => simp [isPartOp] at hpo
      | shrink _ _ _ => simp [isPartOp] at hpo
      | expand _ _ _ => simp [isPartOp] at hpo
      | leader _ _ _ => simp [isPartOp] at hpo

theorem simE_run (cfg : Cfg) (hf : EpochFixed cfg) : ∀ (ops : List Op) (live rep : State) (i : Nat), SimE live rep i →
    ValidFrom cfg live i ops →
    SimE (runFrom cfg false live i ops) (runFrom cfg true rep i ops) (i + ops.length) := by
  intro ops
  induction ops with
  | nil => intro live rep i h _; exact h
  | cons op ops ih =>
    intro live rep i h hv
    simp only [runFrom, List.length_cons]
    have := ih _ _ (i + 1) (simE_step cfg hf h op hv.1) hv.2
    have e : i + (ops.length + 1) = i + 1 + ops.length := by omega
    rw [e]; exact this

theorem simE_restore (cfg : Cfg) (d : List String) {s : State} {i : Nat} (h : Inv cfg s i) :
    SimE s (restore cfg { disk := d } (snapshot s)) i := by
  have hsim := sim_restore cfg d h
  obtain ⟨hstr, hgr⟩ := restore_streams cfg d s h.nodup
  have hnoT : tombNames (restore cfg { disk := d } (snapshot s)) = [] := by
    simp only [tombNames, hstr]
    rw [List.filter_map, List.filter_eq_nil_iff.2]
    · rfl
    · intro st _; simp [Function.comp, mkStream]
  refine ⟨hsim, ?_, ?_⟩
  · rw [hgr, List.map_map]
    apply List.map_congr_left
    intro g hg
    simp only [Function.comp, obsGroup]
    rw [mkGroup_snap g (h.memNodup g hg) (h.memSorted g hg)]
    have := foldl_addMember_fields (snapGroup g).members
      { id := g.id, coordinator := g.coordinator, epoch := g.epoch, members := [], subKeys := [], recovered := true }
    have e1 : (mkGroup (snapGroup g) true).id = g.id := this.1
    have e2 : (mkGroup (snapGroup g) true).coordinator = g.coordinator := this.2.1
    have e3 : (mkGroup (snapGroup g) true).epoch = g.epoch := this.2.2
    rw [e1, e2, e3]
  · intro g _ x hx
    rw [hnoT] at hx; cases hx

theorem purge_obs (cfg : Cfg) (hc : cfg.emptyHeapNoEpoch = true) (e : Nat) : ∀ (L : List String) (gs : List Group),
    (∀ g ∈ gs, MemSub g) → EpochLe gs e → (∀ g ∈ gs, ∀ x ∈ L, subscribed g x = false) →
    (L.foldl (fun gs n => notifyDeleted cfg gs n e) gs).map obsGroup = gs.map obsGroup := by
  intro L
  induction L with
  | nil => intro gs _ _ _; rfl
  | cons n L ih =>
    intro gs hsub hep hcl
    simp only [List.foldl_cons]
    rw [ih (notifyDeleted cfg gs n e) (notifyDeleted_sub cfg n e gs hsub) (notifyDeleted_epoch cfg n e gs e hep (Nat.le_refl e))]
    · rw [map_obs_notify cfg hc n e gs hsub hep, List.map_map]
      have : ∀ g ∈ gs, (notifyGO n e ∘ obsGroup) g = obsGroup g := by
        intro g hg
        exact notifyGO_id n e _ (hcl g hg n List.mem_cons_self)
      rw [List.map_congr_left this]
    · intro g hg x hx
      obtain ⟨g0, h0, rfl⟩ := List.mem_map.1 hg
      rw [Bool.eq_false_iff]
      intro hs
      have := subscribed_notify cfg n e g0 x hs
      rw [hcl g0 h0 x (List.mem_cons_of_mem _ hx)] at this; cases this

/-- **End of recovery on the fully repaired code**: everything observable agrees, epochs included. -/
theorem simE_finish (cfg : Cfg) (hf : EpochFixed cfg) {live rep : State} {i : Nat} (h : SimE live rep i) (e : Nat)
    (hie : i ≤ e) : obs (finish cfg rep e) = obs live := by
  have hs : (obs (finish cfg rep e)).streams = (obs live).streams := by
    rw [obs_streams, obs_streams, obsStreams_finish, h.sim.streams]
  have hg : (obs (finish cfg rep e)).groups = (obs live).groups := by
    show (finish cfg rep e).groups.map obsGroup = live.groups.map obsGroup
    have : (finish cfg rep e).groups =
        ((tombNames rep).foldl (fun gs n => notifyDeleted cfg gs n e) rep.groups).map ({ · with recovered := false }) := rfl
    rw [this, List.map_map]
    have h2 : (obsGroup ∘ fun g : Group => { g with recovered := false }) = obsGroup := rfl
    rw [h2, purge_obs cfg hf.2 e (tombNames rep) rep.groups h.sim.subR (epochLe_mono h.sim.epR hie) h.clean, h.exact]
  show (⟨(obs (finish cfg rep e)).streams, (obs (finish cfg rep e)).groups⟩ : Obs) = ⟨(obs live).streams, (obs live).groups⟩
  rw [hs, hg]

end Liftbridge.Proofs.Metadata
