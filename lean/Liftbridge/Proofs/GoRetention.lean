/-
Symbolic execution of the translated retention cleaner (Gen/GoRetention.lean, from
server/commitlog/delete_cleaner.go): loop lemmas in Hoare style (final value of the variables the rest
of the body reads + frame + effects), one per loop of the Go code, and functional mirrors of the loops
that are then related to the model (`Retention.applyAge`, `Retention.keepBack`) by plain list reasoning.
-/
import Liftbridge.Proofs.GoCodeBase
import Liftbridge.Gen.GoRetention
import Liftbridge.Model.Retention

namespace Liftbridge.Props.GoRetention
open Liftbridge Liftbridge.GoMini Liftbridge.GoCode Liftbridge.Log Liftbridge.Retention
open Liftbridge.Gen.GoRetention

def encSegs (segs : List Seg) : Val := .list (segs.map encSeg)

/-- `*deleteCleaner`: the retention limits (`c.Retention.{Bytes,Messages,Age}`) -/
def encC (lim : Limits) : Val :=
  .struct [("Retention", .struct [("Bytes", .int lim.bytes), ("Messages", .int lim.msgs), ("Age", .int lim.age)])]

/-- `computeTTL(age)` answers `ttl` (the clock is an input); `deleteSegments` succeeds (an effect yielding nil) -/
def retExt (ttl : Int) : Ext := fun f _ _ => if f = "computeTTL" then some (.int ttl) else none

@[simp] theorem lk_a : evalE.lookup' "noRetentionLimits" prog = some fn_deleteCleaner_noRetentionLimits := by simp [prog, gomini]
@[simp] theorem lk_b : evalE.lookup' "applyMessagesLimit" prog = some fn_deleteCleaner_applyMessagesLimit := by simp [prog, gomini]
@[simp] theorem lk_c : evalE.lookup' "applyBytesLimit" prog = some fn_deleteCleaner_applyBytesLimit := by simp [prog, gomini]
@[simp] theorem lk_d : evalE.lookup' "applyAgeLimit" prog = some fn_deleteCleaner_applyAgeLimit := by simp [prog, gomini]
@[simp] theorem lk_e : evalE.lookup' "Clean" prog = some fn_deleteCleaner_Clean := by simp [prog, gomini]
@[simp] theorem lk_f : evalE.lookup' "computeTTL" prog = none := by simp [prog, gomini]
@[simp] theorem lk_g : evalE.lookup' "deleteSegments" prog = none := by simp [prog, gomini]
@[simp] theorem lk_h : evalE.lookup' "MessageCount" prog = none := by simp [prog, gomini]
@[simp] theorem lk_i : evalE.lookup' "Position" prog = none := by simp [prog, gomini]

theorem facts : Gen.Retention.ageCmp = .lt ∧ Gen.Retention.msgsCmp = .gt ∧ Gen.Retention.bytesCmp = .gt ∧
    Gen.Retention.ageOnCmp = .gt ∧ Gen.Retention.msgsOnCmp = .gt ∧ Gen.Retention.bytesOnCmp = .gt ∧
    Gen.Retention.ageSecondPass = true := by decide

/-! ### the age limit -/

/-- number of leading segments the age loop deletes: not the last one, last write before the TTL -/
def ageCnt (ttl : Int) : List Seg → Nat
  | [] => 0
  | [_] => 0
  | s :: s' :: rest => if s.lastTs < ttl then ageCnt ttl (s' :: rest) + 1 else 0

theorem applyAge_eq_drop (ttl : Int) : ∀ segs : List Seg, applyAge ttl segs = segs.drop (ageCnt ttl segs)
  | [] => rfl
  | [_] => rfl
  | s :: s' :: rest => by
    by_cases h : s.lastTs < ttl
    · simp [applyAge, ageCnt, facts, Cmp.evalInt, h, applyAge_eq_drop ttl (s' :: rest)]
    · simp [applyAge, ageCnt, facts, Cmp.evalInt, h]

theorem ageCnt_lt (ttl : Int) : ∀ segs : List Seg, segs ≠ [] → ageCnt ttl segs < segs.length
  | [], h => absurd rfl h
  | [_], _ => by simp [ageCnt]
  | s :: s' :: rest, _ => by
    have := ageCnt_lt ttl (s' :: rest) (by simp)
    by_cases h : s.lastTs < ttl <;> simp [ageCnt, h] <;> simp at this <;> omega

/-- the value of `toDelete` (declared `var toDelete []*segment`, i.e. nil until the first append) -/
def tdVal (acc : List Val) : Val := if acc = [] then .nil else .list acc

@[simp] theorem asList_tdVal (acc : List Val) : asList (tdVal acc) = some acc := by
  unfold tdVal; split <;> simp_all [asList]
@[simp] theorem lenOf_tdVal (acc : List Val) : lenOf (tdVal acc) = some (Int.ofNat acc.length) := by
  unfold tdVal; split <;> simp_all [lenOf]
@[simp] theorem tdVal_append (acc : List Val) (v : Val) : tdVal (acc ++ [v]) = .list (acc ++ [v]) := by
  simp [tdVal]
@[simp] theorem tdVal_nil : tdVal [] = .nil := rfl

def ageBody : List Stmt :=
  [(.ite [] (.and (.bin "!=" (.var "i") (.bin "-" (.len (.var "segments")) (.int 1))) (.bin "<" (.sel (.var "seg") "lastWriteTime") (.var "ttl")))
      [(.assign [(.var "toDelete")] [(.call "append" [(.var "toDelete"), (.var "seg")])])]
      [(.assign [(.var "idx")] [(.var "i")]),
      .brk])]

theorem age_loop (n : Nat) (ttl : Int) (ext : Ext) (L : List Val) : ∀ (xs : List Seg) (i : Nat) (acc : List Val) (st : St),
    xs ≠ [] → i + xs.length = L.length → st.env "segments" = some (.list L) → st.env "ttl" = some (.int ttl) →
    st.env "toDelete" = some (tdVal acc) →
    ∃ st', runRange (runBlock (exec prog ext (n+8)) ageBody) (some "i") (some "seg") i (xs.map encSeg) st = .ok (.next, st')
      ∧ st'.env "idx" = some (.int (i + ageCnt ttl xs : Nat))
      ∧ st'.env "toDelete" = some (tdVal (acc ++ (xs.take (ageCnt ttl xs)).map encSeg))
      ∧ (∀ y, y ≠ "i" → y ≠ "seg" → y ≠ "idx" → y ≠ "toDelete" → st'.env y = st.env y) ∧ st'.eff = st.eff := by
  intro xs
  induction xs with
  | nil => intro i acc st h; exact absurd rfl h
  | cons s rest ih =>
    intro i acc st _ hlen hseg httl htd
    cases rest with
    | nil =>
      have hi : ((i : Int) = (L.length : Int) - 1) := by simp at hlen; omega
      refine ⟨((st.set "i" (.int i)).set "seg" (encSeg s)).set "idx" (.int i), ?_, ?_, ?_, ?_, ?_⟩
      · simp [ageBody, gomini, hseg, httl, htd, binInt, hi]
      · simp [gomini, ageCnt]
      · simp [gomini, ageCnt, htd]
      · intro y h1 h2 h3 h4; simp [gomini, h1, h2, h3]
      · simp [gomini]
    | cons s' rest' =>
      have hi : ((i : Int) = (L.length : Int) - 1) = False := by apply eq_false; simp at hlen; omega
      by_cases hlt : s.lastTs < ttl
      · obtain ⟨st', h, h1, h2, h3, h4⟩ := ih (i+1) (acc ++ [encSeg s])
          (((st.set "i" (.int i)).set "seg" (encSeg s)).set "toDelete" (.list (acc ++ [encSeg s])))
          (by simp) (by simp at hlen ⊢; omega) (by simp [gomini, hseg]) (by simp [gomini, httl]) (by simp [gomini])
        refine ⟨st', ?_, ?_, ?_, ?_, ?_⟩
        · simpa [ageBody, gomini, hseg, httl, htd, binInt, hi, hlt, encSeg, builtin] using h
        · rw [h1]; simp [ageCnt, hlt]; omega
        · rw [h2]; simp [ageCnt, hlt]
        · intro y y1 y2 y3 y4; rw [h3 y y1 y2 y3 y4]; simp [gomini, y1, y2, y4]
        · rw [h4]; simp [gomini]
      · refine ⟨((st.set "i" (.int i)).set "seg" (encSeg s)).set "idx" (.int i), ?_, ?_, ?_, ?_, ?_⟩
        · simp [ageBody, gomini, hseg, httl, htd, binInt, hi, hlt, encSeg]
        · simp [gomini, ageCnt, hlt]
        · simp [gomini, ageCnt, hlt, htd]
        · intro y h1 h2 h3 h4; simp [gomini, h1, h2, h3]
        · simp [gomini]

/-- the effects of one age pass: the clock is read (only when there is more than one segment), then ONE
`deleteSegments` call with exactly the dropped prefix, oldest first (none when nothing is dropped) -/
def ageEff (age ttl : Int) (segs : List Seg) : List (String × List Val) :=
  if segs.length ≤ 1 then [] else
    ("computeTTL", [.int age]) ::
      (if ageCnt ttl segs = 0 then [] else [("deleteSegments", [encSegs (segs.take (ageCnt ttl segs))])])

theorem applyAge_body (n : Nat) (lim : Limits) (ttl : Int) (segs : List Seg) (eff : List (String × List Val)) :
    ∃ st', runBlock (exec prog (retExt ttl) (n+14)) fn_deleteCleaner_applyAgeLimit.body
        { env := envOf [("c", encC lim), ("segments", encSegs segs)], eff := eff } =
      .ok (.ret [encSegs (applyAge ttl segs), .nil], st') ∧ st'.env "c" = some (encC lim) ∧
      st'.eff = eff ++ ageEff lim.age ttl segs := by
  by_cases hlen : segs.length ≤ 1
  · refine ⟨{ env := envOf [("c", encC lim), ("segments", encSegs segs)], eff := eff }, ?_, ?_, ?_⟩
    · have h1 : applyAge ttl segs = segs := by
        match segs, hlen with
        | [], _ => rfl
        | [_], _ => rfl
      have hleni : ((segs.length : Int) ≤ 1) := by omega
      simp [fn_deleteCleaner_applyAgeLimit, gomini, encSegs, binInt, hleni, h1]
    · simp [gomini]
    · simp [ageEff, hlen]
  · have hne : segs ≠ [] := by intro h; simp [h] at hlen
    have hlen' : ((segs.length : Int) ≤ 1) = False := by apply eq_false; omega
    obtain ⟨st', h, h1, h2, h3, h4⟩ := age_loop (n+5) ttl (retExt ttl) (segs.map encSeg) segs 0 []
      (((((({ env := envOf [("c", encC lim), ("segments", encSegs segs)], eff := eff } : St).log "computeTTL" [.int lim.age]).set "ttl" (.int ttl)).set "idx" (.int 0)).set "toDelete" .nil))
      hne (by simp) (by simp [gomini, encSegs]) (by simp [gomini]) (by simp [gomini])
    have hc := h3 "c" (by decide) (by decide) (by decide) (by decide)
    have hs := h3 "segments" (by decide) (by decide) (by decide) (by decide)
    simp [gomini] at hc hs h4
    simp only [ageBody] at h
    have hk := ageCnt_lt ttl segs hne
    simp [encSegs, encC, gomini] at h
    by_cases hz : ageCnt ttl segs = 0
    · refine ⟨st', ?_, hc, ?_⟩
      · simp [fn_deleteCleaner_applyAgeLimit, gomini, encSegs, binInt, hlen', encC, retExt, builtin, convert]
        simp [h]
        simp [hz] at h1 h2
        simp [h1, h2, hs, gomini, binInt, encSegs, applyAge_eq_drop, hz]
      · simp [h4, ageEff, hlen, hz]
    · have hk' : ((ageCnt ttl segs : Int) ≤ (segs.length : Int)) := by omega
      have htd : tdVal (List.map encSeg (List.take (ageCnt ttl segs) segs)) = .list (List.map encSeg (List.take (ageCnt ttl segs) segs)) := by
        simp [tdVal]; exact ⟨hz, hne⟩
      refine ⟨(st'.log "deleteSegments" [encSegs (segs.take (ageCnt ttl segs))]).set "err" .nil, ?_, ?_, ?_⟩
      · simp [fn_deleteCleaner_applyAgeLimit, gomini, encSegs, binInt, hlen', encC, retExt, builtin, convert]
        simp [h]
        simp at h1 h2
        simp [h1, h2, hs, hc, htd, gomini, binInt, encSegs, encC, applyAge_eq_drop, hz, hk', retExt]
        have hmin : 0 < min (ageCnt ttl segs) segs.length := by omega
        have htd' : tdVal (List.take (ageCnt ttl segs) (List.map encSeg segs)) = .list (List.take (ageCnt ttl segs) (List.map encSeg segs)) := by
          simp [tdVal]; exact ⟨hz, hne⟩
        simp [hmin, htd', gomini, h1, hs, encSegs, hk']
      · simp [gomini, hc]
      · simp [gomini, h4, ageEff, hlen, hz]

/-! ### the count / size limits -/

/-- functional mirror of the keep loop `for i = len-2; i > -1; i-- { … }` with `k = i + 1`:
final `i`, final total, final `cleanedSegments` -/
def keepLoop (size : Seg → Int) (limit : Int) (segs : List Seg) : Nat → Int → List Seg → Int × Int × List Seg
  | 0, total, cl => (-1, total, cl)
  | k+1, total, cl =>
    match segs[k]? with
    | none => (k, total, cl)
    | some s =>
      let t := total + size s
      if t > limit then (k, t, cl) else keepLoop size limit segs k t (s :: cl)

def keepBodyMsgs : List Stmt :=
  [(.assign [(.var "s")] [(.idx (.var "segments") (.var "i"))]),
   (.opAssign "+" (.var "totalMessages") (.mcall (.var "s") "MessageCount" [])),
   (.ite [] (.bin ">" (.var "totalMessages") (.sel (.sel (.var "c") "Retention") "Messages")) [.brk] []),
   (.assign [(.var "cleanedSegments")] [(.callSpread "append" [(.listLit [(.var "s")]), (.var "cleanedSegments")])])]

theorem keep_loop_msgs (N : Nat) (hN : 8 ≤ N) (ext : Ext) (lim : Limits) (segs : List Seg) :
    ∀ (k m : Nat) (total : Int) (cl : List Seg) (st : St),
    k ≤ segs.length → k < m → st.env "i" = some (.int ((k : Int) - 1)) → st.env "totalMessages" = some (.int total) →
    st.env "cleanedSegments" = some (.list (cl.map encSeg)) → st.env "segments" = some (encSegs segs) →
    st.env "c" = some (encC lim) →
    ∃ st', runFor (forCond prog ext N (.bin ">" (.var "i") (.int (-1)))) (runBlock (exec prog ext N) keepBodyMsgs)
        (runBlock (exec prog ext N) [(.opAssign "-" (.var "i") (.int 1))]) m st = .ok (.next, st')
      ∧ st'.env "i" = some (.int (keepLoop msgSize lim.msgs segs k total cl).1)
      ∧ st'.env "cleanedSegments" = some (.list ((keepLoop msgSize lim.msgs segs k total cl).2.2.map encSeg))
      ∧ (∀ y, y ≠ "i" → y ≠ "s" → y ≠ "totalMessages" → y ≠ "cleanedSegments" → st'.env y = st.env y) ∧ st'.eff = st.eff := by
  obtain ⟨n, rfl⟩ : ∃ n, N = n + 8 := ⟨N - 8, by omega⟩
  intro k
  induction k with
  | zero =>
    intro m total cl st _ hm hi ht hcl hs hc
    obtain ⟨m', rfl⟩ : ∃ m', m = m' + 1 := ⟨m - 1, by omega⟩
    refine ⟨st, ?_, ?_, ?_, ?_, ?_⟩
    · simp [forCond, runFor_succ, gomini, hi, binInt]
    · simp [keepLoop, hi]
    · simp [keepLoop, hcl]
    · intros; rfl
    · rfl
  | succ k ih =>
    intro m total cl st hk hm hi ht hcl hs hc
    obtain ⟨m', rfl⟩ : ∃ m', m = m' + 1 := ⟨m - 1, by omega⟩
    have hi' : st.env "i" = some (.int (k : Int)) := by
      have : ((k + 1 : Nat) : Int) - 1 = k := by omega
      rw [hi, this]
    have hklt : k < segs.length := by omega
    have hsk : segs[k]? = some segs[k] := by simp [hklt]
    have hneg : ((-1 : Int) < (k : Int)) := by omega
    by_cases hgt : total + msgSize segs[k] > lim.msgs
    · have hgt2 : lim.msgs < total + (segs[k].count : Int) := hgt
      refine ⟨(st.set "s" (encSeg segs[k])).set "totalMessages" (.int (total + msgSize segs[k])), ?_, ?_, ?_, ?_, ?_⟩
      · simp [forCond, runFor_succ, keepBodyMsgs, gomini, hi', binInt, hs, encSegs, hsk, ht, hc, encC, encSeg, msgSize, hgt2, hneg]
      · simp [keepLoop, hsk, hgt, gomini, hi']
      · simp [keepLoop, hsk, hgt, gomini, hcl]
      · intro y y1 y2 y3 y4; simp [gomini, y2, y3]
      · simp [gomini]
    · have hgt' : ¬ lim.msgs < total + (segs[k].count : Int) := hgt
      obtain ⟨st', h, h1, h2, h3, h4⟩ := ih m' (total + msgSize segs[k]) (segs[k] :: cl)
        ((((st.set "s" (encSeg segs[k])).set "totalMessages" (.int (total + msgSize segs[k]))).set "cleanedSegments"
            (.list (encSeg segs[k] :: cl.map encSeg))).set "i" (.int ((k : Int) - 1)))
        (by omega) (by omega) (by simp [gomini]) (by simp [gomini]) (by simp [gomini]) (by simp [gomini, hs]) (by simp [gomini, hc])
      refine ⟨st', ?_, ?_, ?_, ?_, ?_⟩
      · simp [forCond, runFor_succ, keepBodyMsgs, gomini, hi', binInt, hs, encSegs, hsk, ht, hc, encC, encSeg, msgSize, hgt', hcl, builtin, spliceLast, hneg] at h ⊢
        simpa [msgSize, encSeg] using h
      · rw [h1]; simp [keepLoop, hsk, hgt]
      · rw [h2]; simp [keepLoop, hsk, hgt]
      · intro y y1 y2 y3 y4; rw [h3 y y1 y2 y3 y4]; simp [gomini, y1, y2, y3, y4]
      · rw [h4]; simp [gomini]

def keepBodyBytes : List Stmt :=
  [(.assign [(.var "s")] [(.idx (.var "segments") (.var "i"))]),
   (.opAssign "+" (.var "totalBytes") (.mcall (.var "s") "Position" [])),
   (.ite [] (.bin ">" (.var "totalBytes") (.sel (.sel (.var "c") "Retention") "Bytes")) [.brk] []),
   (.assign [(.var "cleanedSegments")] [(.callSpread "append" [(.listLit [(.var "s")]), (.var "cleanedSegments")])])]

theorem keep_loop_bytes (N : Nat) (hN : 8 ≤ N) (ext : Ext) (lim : Limits) (segs : List Seg) :
    ∀ (k m : Nat) (total : Int) (cl : List Seg) (st : St),
    k ≤ segs.length → k < m → st.env "i" = some (.int ((k : Int) - 1)) → st.env "totalBytes" = some (.int total) →
    st.env "cleanedSegments" = some (.list (cl.map encSeg)) → st.env "segments" = some (encSegs segs) →
    st.env "c" = some (encC lim) →
    ∃ st', runFor (forCond prog ext N (.bin ">" (.var "i") (.int (-1)))) (runBlock (exec prog ext N) keepBodyBytes)
        (runBlock (exec prog ext N) [(.opAssign "-" (.var "i") (.int 1))]) m st = .ok (.next, st')
      ∧ st'.env "i" = some (.int (keepLoop byteSize lim.bytes segs k total cl).1)
      ∧ st'.env "cleanedSegments" = some (.list ((keepLoop byteSize lim.bytes segs k total cl).2.2.map encSeg))
      ∧ (∀ y, y ≠ "i" → y ≠ "s" → y ≠ "totalBytes" → y ≠ "cleanedSegments" → st'.env y = st.env y) ∧ st'.eff = st.eff := by
  obtain ⟨n, rfl⟩ : ∃ n, N = n + 8 := ⟨N - 8, by omega⟩
  intro k
  induction k with
  | zero =>
    intro m total cl st _ hm hi ht hcl hs hc
    obtain ⟨m', rfl⟩ : ∃ m', m = m' + 1 := ⟨m - 1, by omega⟩
    refine ⟨st, ?_, ?_, ?_, ?_, ?_⟩
    · simp [forCond, runFor_succ, gomini, hi, binInt]
    · simp [keepLoop, hi]
    · simp [keepLoop, hcl]
    · intros; rfl
    · rfl
  | succ k ih =>
    intro m total cl st hk hm hi ht hcl hs hc
    obtain ⟨m', rfl⟩ : ∃ m', m = m' + 1 := ⟨m - 1, by omega⟩
    have hi' : st.env "i" = some (.int (k : Int)) := by
      have : ((k + 1 : Nat) : Int) - 1 = k := by omega
      rw [hi, this]
    have hklt : k < segs.length := by omega
    have hsk : segs[k]? = some segs[k] := by simp [hklt]
    have hneg : ((-1 : Int) < (k : Int)) := by omega
    by_cases hgt : total + byteSize segs[k] > lim.bytes
    · have hgt2 : lim.bytes < total + (segs[k].position : Int) := hgt
      refine ⟨(st.set "s" (encSeg segs[k])).set "totalBytes" (.int (total + byteSize segs[k])), ?_, ?_, ?_, ?_, ?_⟩
      · simp [forCond, runFor_succ, keepBodyBytes, gomini, hi', binInt, hs, encSegs, hsk, ht, hc, encC, encSeg, byteSize, hgt2, hneg]
      · simp [keepLoop, hsk, hgt, gomini, hi']
      · simp [keepLoop, hsk, hgt, gomini, hcl]
      · intro y y1 y2 y3 y4; simp [gomini, y2, y3]
      · simp [gomini]
    · have hgt' : ¬ lim.bytes < total + (segs[k].position : Int) := hgt
      obtain ⟨st', h, h1, h2, h3, h4⟩ := ih m' (total + byteSize segs[k]) (segs[k] :: cl)
        ((((st.set "s" (encSeg segs[k])).set "totalBytes" (.int (total + byteSize segs[k]))).set "cleanedSegments"
            (.list (encSeg segs[k] :: cl.map encSeg))).set "i" (.int ((k : Int) - 1)))
        (by omega) (by omega) (by simp [gomini]) (by simp [gomini]) (by simp [gomini]) (by simp [gomini, hs]) (by simp [gomini, hc])
      refine ⟨st', ?_, ?_, ?_, ?_, ?_⟩
      · simp [forCond, runFor_succ, keepBodyBytes, gomini, hi', binInt, hs, encSegs, hsk, ht, hc, encC, encSeg, byteSize, hgt', hcl, builtin, spliceLast, hneg] at h ⊢
        simpa [byteSize, encSeg] using h
      · rw [h1]; simp [keepLoop, hsk, hgt]
      · rw [h2]; simp [keepLoop, hsk, hgt]
      · intro y y1 y2 y3 y4; rw [h3 y y1 y2 y3 y4]; simp [gomini, y1, y2, y3, y4]
      · rw [h4]; simp [gomini]

/-- the keep loop computes the model's `keepBack` (walked from the segment before the last one backwards) -/
theorem keepLoop_eq (size : Seg → Int) (limit : Int) (segs : List Seg) : ∀ (k : Nat) (total : Int) (cl : List Seg),
    k ≤ segs.length →
    (keepLoop size limit segs k total cl).1 = (k : Int) - (keepBack .gt limit size (segs.take k).reverse total).length - 1 ∧
    (keepLoop size limit segs k total cl).2.2 = (keepBack .gt limit size (segs.take k).reverse total).reverse ++ cl := by
  intro k
  induction k with
  | zero => intro total cl _; simp [keepLoop, keepBack]
  | succ k ih =>
    intro total cl hk
    have hklt : k < segs.length := by omega
    have hsk : segs[k]? = some segs[k] := by simp [hklt]
    have htk : (segs.take (k+1)).reverse = segs[k] :: (segs.take k).reverse := by
      rw [List.take_succ, hsk]; simp
    rw [htk]
    by_cases hgt : total + size segs[k] > limit
    · have hgt2 : limit < total + size segs[k] := hgt
      simp [keepLoop, hsk, keepBack, Cmp.evalInt, hgt2]
    · have hgt2 : ¬ limit < total + size segs[k] := hgt
      obtain ⟨h1, h2⟩ := ih (total + size segs[k]) (segs[k] :: cl) (by omega)
      simp [keepLoop, hsk, keepBack, Cmp.evalInt, hgt2, h1, h2]
      omega

def delBody : List Stmt :=
  [(.assign [(.var "toDelete")] [(.call "append" [(.var "toDelete"), (.idx (.var "segments") (.var "i"))])])]

theorem del_loop (N : Nat) (hN : 6 ≤ N) (ext : Ext) (segs : List Seg) :
    ∀ (k m : Nat) (acc : List Val) (st : St),
    k ≤ segs.length → k < m → st.env "i" = some (.int ((k : Int) - 1)) → st.env "toDelete" = some (.list acc) →
    st.env "segments" = some (encSegs segs) →
    ∃ st', runFor (forCond prog ext N (.bin ">" (.var "i") (.int (-1)))) (runBlock (exec prog ext N) delBody)
        (runBlock (exec prog ext N) [(.opAssign "-" (.var "i") (.int 1))]) m st = .ok (.next, st')
      ∧ st'.env "i" = some (.int (-1))
      ∧ st'.env "toDelete" = some (.list (acc ++ (segs.take k).reverse.map encSeg))
      ∧ (∀ y, y ≠ "i" → y ≠ "toDelete" → st'.env y = st.env y) ∧ st'.eff = st.eff := by
  obtain ⟨n, rfl⟩ : ∃ n, N = n + 6 := ⟨N - 6, by omega⟩
  intro k
  induction k with
  | zero =>
    intro m acc st _ hm hi htd hs
    obtain ⟨m', rfl⟩ : ∃ m', m = m' + 1 := ⟨m - 1, by omega⟩
    refine ⟨st, ?_, ?_, ?_, ?_, ?_⟩
    · simp [forCond, runFor_succ, gomini, hi, binInt]
    · simp [hi]
    · simp [htd]
    · intros; rfl
    · rfl
  | succ k ih =>
    intro m acc st hk hm hi htd hs
    obtain ⟨m', rfl⟩ : ∃ m', m = m' + 1 := ⟨m - 1, by omega⟩
    have hi' : st.env "i" = some (.int (k : Int)) := by
      have : ((k + 1 : Nat) : Int) - 1 = k := by omega
      rw [hi, this]
    have hklt : k < segs.length := by omega
    have hsk : segs[k]? = some segs[k] := by simp [hklt]
    have hneg : ((-1 : Int) < (k : Int)) := by omega
    have htk : (segs.take (k+1)).reverse = segs[k] :: (segs.take k).reverse := by
      rw [List.take_succ, hsk]; simp
    obtain ⟨st', h, h0, h1, h2, h3⟩ := ih m' (acc ++ [encSeg segs[k]])
      ((st.set "toDelete" (.list (acc ++ [encSeg segs[k]]))).set "i" (.int ((k : Int) - 1)))
      (by omega) (by omega) (by simp [gomini]) (by simp [gomini]) (by simp [gomini, hs])
    refine ⟨st', ?_, h0, ?_, ?_, ?_⟩
    · simp [forCond, runFor_succ, delBody, gomini, hi', binInt, hs, encSegs, hsk, htd, builtin, hneg] at h ⊢
      simpa using h
    · rw [h1, htk]; simp
    · intro y y1 y2; rw [h2 y y1 y2]; simp [gomini, y1, y2]
    · rw [h3]; simp [gomini]

theorem keepBack_length_le (cmp : Cmp) (limit : Int) (size : Seg → Int) : ∀ (xs : List Seg) (total : Int),
    (keepBack cmp limit size xs total).length ≤ xs.length
  | [], _ => by simp [keepBack]
  | s :: rest, total => by
    simp only [keepBack]
    split
    · simp
    · simp; exact keepBack_length_le cmp limit size rest _

theorem applyLimit_concat (cmp : Cmp) (limit : Int) (size : Seg → Int) (init : List Seg) (last : Seg) :
    applyLimit cmp limit size (init ++ [last]) = (keepBack cmp limit size init.reverse (size last)).reverse ++ [last] := by
  simp [applyLimit]

/-- the effects of a count / size pass: ONE `deleteSegments` call with the dropped prefix, NEWEST FIRST (the loop
walks backwards), none when nothing is dropped -/
def limitEff (kept segs : List Seg) : List (String × List Val) :=
  if segs.length - kept.length = 0 then [] else
    [("deleteSegments", [encSegs (segs.take (segs.length - kept.length)).reverse])]

theorem applyLimit_length_le (cmp : Cmp) (limit : Int) (size : Seg → Int) (segs : List Seg) :
    (applyLimit cmp limit size segs).length ≤ segs.length := by
  rcases List.eq_nil_or_concat segs with h | ⟨i, l, h⟩
  · simp [h, applyLimit]
  · have h' : segs = i ++ [l] := by simpa using h
    rw [h', applyLimit_concat]
    have := keepBack_length_le cmp limit size i.reverse (size l)
    simp at this ⊢; omega

theorem applyMsgs_body (n : Nat) (ttl : Int) (lim : Limits) (segs : List Seg) (eff : List (String × List Val)) :
    ∃ st', runBlock (exec prog (retExt ttl) (n + segs.length + 12)) fn_deleteCleaner_applyMessagesLimit.body
        { env := envOf [("c", encC lim), ("segments", encSegs segs)], eff := eff } =
      .ok (.ret [encSegs (applyLimit .gt lim.msgs msgSize segs), .nil], st') ∧ st'.env "c" = some (encC lim) ∧
      st'.eff = eff ++ limitEff (applyLimit .gt lim.msgs msgSize segs) segs := by
  by_cases hlen : segs.length ≤ 1
  · refine ⟨{ env := envOf [("c", encC lim), ("segments", encSegs segs)], eff := eff }, ?_, ?_, ?_⟩
    · have h1 : applyLimit .gt lim.msgs msgSize segs = segs := by
        match segs, hlen with
        | [], _ => rfl
        | [_], _ => rfl
      have hleni : ((segs.length : Int) ≤ 1) := by omega
      simp [fn_deleteCleaner_applyMessagesLimit, gomini, encSegs, binInt, hleni, h1]
    · simp [gomini]
    · have h1 : applyLimit .gt lim.msgs msgSize segs = segs := by
        match segs, hlen with
        | [], _ => rfl
        | [_], _ => rfl
      simp [limitEff, h1]
  · obtain ⟨init, last, rfl⟩ : ∃ init last, segs = init ++ [last] := by
      rcases List.eq_nil_or_concat segs with h | ⟨i, l, h⟩
      · simp [h] at hlen
      · exact ⟨i, l, by simpa using h⟩
    have hil : 1 ≤ init.length := by
      have : (init ++ [last]).length = init.length + 1 := by simp
      omega
    have hlen' : ((init.length : Int) + 1 ≤ 1) = False := by apply eq_false; omega
    let s0 : St := { env := envOf [("c", encC lim), ("segments", encSegs (init ++ [last]))], eff := eff }
    let s1 : St := ((((s0.set "lastSeg" (encSeg last)).set "cleanedSegments" (.list [encSeg last])).set "totalMessages"
        (.int (msgSize last))).set "i" (.int 0)).set "i" (.int ((init.length : Int) + 1 - 2))
    obtain ⟨st1, h, h1, h2, h3, h4⟩ := keep_loop_msgs (n + (init.length + 1) + 11) (by omega) (retExt ttl) lim (init ++ [last])
      init.length (n + (init.length + 1) + 11) (msgSize last) [last] s1
      (by simp) (by omega) (by simp [s1, gomini]; omega) (by simp [s1, gomini]) (by simp [s1, gomini])
      (by simp [s1, s0, gomini]) (by simp [s1, s0, gomini])
    simp [s1, s0, keepBodyMsgs, encSegs, encC, gomini, msgSize, encSeg] at h
    simp [fn_deleteCleaner_applyMessagesLimit, gomini, -exec_forC, exec_forC_some, encSegs, binInt, hlen', encSeg, encC]
    simp [h]
    obtain ⟨e1, e2⟩ := keepLoop_eq msgSize lim.msgs (init ++ [last]) init.length (msgSize last) [last] (by simp)
    simp only [List.take_left'] at e1 e2
    have hkb := keepBack_length_le .gt lim.msgs msgSize init.reverse (msgSize last)
    simp only [List.length_reverse] at hkb
    rw [e1] at h1
    rw [e2] at h2
    have hc := h3 "c" (by decide) (by decide) (by decide) (by decide)
    have hs := h3 "segments" (by decide) (by decide) (by decide) (by decide)
    simp [s1, s0, gomini] at hc hs h4
    have hres : applyLimit .gt lim.msgs msgSize (init ++ [last]) =
        (keepBack .gt lim.msgs msgSize init.reverse (msgSize last)).reverse ++ [last] := applyLimit_concat _ _ _ _ _
    rw [hres]
    generalize keepBack .gt lim.msgs msgSize init.reverse (msgSize last) = kb at *
    by_cases hall : kb.length = init.length
    · -- everything is kept
      have hi : ((init.length : Int) - kb.length - 1 > -1) = False := by
        apply eq_false; omega
      refine ⟨st1, ?_, hc, ?_⟩
      · simp [h1, h2, binInt, hi, gomini]
      · simp [h4, limitEff, hall]
    · -- the oldest `d` segments are dropped
      have hd : kb.length < init.length := by omega
      have hi : ((init.length : Int) - kb.length - 1 > -1) := by omega
      obtain ⟨st2, g, g0, g1, g2, g3⟩ := del_loop (n + (init.length + 1) + 10) (by omega) (retExt ttl) (init ++ [last])
        (init.length - kb.length) (n + (init.length + 1) + 10) [] (st1.set "toDelete" (.list []))
        (by simp; omega) (by omega) (by simp [gomini, h1]; omega) (by simp [gomini]) (by simp [gomini, hs])
      simp [delBody, gomini] at g
      refine ⟨(st2.log "deleteSegments" [encSegs ((init ++ [last]).take (init.length - kb.length)).reverse]).set "err" .nil, ?_, ?_, ?_⟩
      · have gc := g2 "c" (by decide) (by decide)
        have gcl := g2 "cleanedSegments" (by decide) (by decide)
        simp [gomini, hc, h2] at gc gcl
        simp [h1, h2, binInt, hi, gomini, builtin, -exec_forC, exec_forC_some]
        simp [g, g1, gc, gcl, encC, gomini, retExt, encSegs, binInt]
      · have gc := g2 "c" (by decide) (by decide)
        simp [gomini, hc] at gc
        simp [gomini, gc, encC]
      · have hlen2 : (kb.reverse ++ [last]).length = kb.length + 1 := by simp
        have hd2 : (init ++ [last]).length - (kb.reverse ++ [last]).length = init.length - kb.length := by
          simp
        have hd3 : ¬ (init.length - kb.length = 0) := by omega
        simp [gomini, g3, h4, limitEff, hd2, hd3]

theorem applyBytes_body (n : Nat) (ttl : Int) (lim : Limits) (segs : List Seg) (eff : List (String × List Val)) :
    ∃ st', runBlock (exec prog (retExt ttl) (n + segs.length + 12)) fn_deleteCleaner_applyBytesLimit.body
        { env := envOf [("c", encC lim), ("segments", encSegs segs)], eff := eff } =
      .ok (.ret [encSegs (applyLimit .gt lim.bytes byteSize segs), .nil], st') ∧ st'.env "c" = some (encC lim) ∧
      st'.eff = eff ++ limitEff (applyLimit .gt lim.bytes byteSize segs) segs := by
  by_cases hlen : segs.length ≤ 1
  · refine ⟨{ env := envOf [("c", encC lim), ("segments", encSegs segs)], eff := eff }, ?_, ?_, ?_⟩
    · have h1 : applyLimit .gt lim.bytes byteSize segs = segs := by
        match segs, hlen with
        | [], _ => rfl
        | [_], _ => rfl
      have hleni : ((segs.length : Int) ≤ 1) := by omega
      simp [fn_deleteCleaner_applyBytesLimit, gomini, encSegs, binInt, hleni, h1]
    · simp [gomini]
    · have h1 : applyLimit .gt lim.bytes byteSize segs = segs := by
        match segs, hlen with
        | [], _ => rfl
        | [_], _ => rfl
      simp [limitEff, h1]
  · obtain ⟨init, last, rfl⟩ : ∃ init last, segs = init ++ [last] := by
      rcases List.eq_nil_or_concat segs with h | ⟨i, l, h⟩
      · simp [h] at hlen
      · exact ⟨i, l, by simpa using h⟩
    have hil : 1 ≤ init.length := by
      have : (init ++ [last]).length = init.length + 1 := by simp
      omega
    have hlen' : ((init.length : Int) + 1 ≤ 1) = False := by apply eq_false; omega
    let s0 : St := { env := envOf [("c", encC lim), ("segments", encSegs (init ++ [last]))], eff := eff }
    let s1 : St := ((((s0.set "lastSeg" (encSeg last)).set "cleanedSegments" (.list [encSeg last])).set "totalBytes"
        (.int (byteSize last))).set "i" (.int 0)).set "i" (.int ((init.length : Int) + 1 - 2))
    obtain ⟨st1, h, h1, h2, h3, h4⟩ := keep_loop_bytes (n + (init.length + 1) + 11) (by omega) (retExt ttl) lim (init ++ [last])
      init.length (n + (init.length + 1) + 11) (byteSize last) [last] s1
      (by simp) (by omega) (by simp [s1, gomini]; omega) (by simp [s1, gomini]) (by simp [s1, gomini])
      (by simp [s1, s0, gomini]) (by simp [s1, s0, gomini])
    simp [s1, s0, keepBodyBytes, encSegs, encC, gomini, byteSize, encSeg] at h
    simp [fn_deleteCleaner_applyBytesLimit, gomini, -exec_forC, exec_forC_some, encSegs, binInt, hlen', encSeg, encC]
    simp [h]
    obtain ⟨e1, e2⟩ := keepLoop_eq byteSize lim.bytes (init ++ [last]) init.length (byteSize last) [last] (by simp)
    simp only [List.take_left'] at e1 e2
    have hkb := keepBack_length_le .gt lim.bytes byteSize init.reverse (byteSize last)
    simp only [List.length_reverse] at hkb
    rw [e1] at h1
    rw [e2] at h2
    have hc := h3 "c" (by decide) (by decide) (by decide) (by decide)
    have hs := h3 "segments" (by decide) (by decide) (by decide) (by decide)
    simp [s1, s0, gomini] at hc hs h4
    have hres : applyLimit .gt lim.bytes byteSize (init ++ [last]) =
        (keepBack .gt lim.bytes byteSize init.reverse (byteSize last)).reverse ++ [last] := applyLimit_concat _ _ _ _ _
    rw [hres]
    generalize keepBack .gt lim.bytes byteSize init.reverse (byteSize last) = kb at *
    by_cases hall : kb.length = init.length
    · -- everything is kept
      have hi : ((init.length : Int) - kb.length - 1 > -1) = False := by
        apply eq_false; omega
      refine ⟨st1, ?_, hc, ?_⟩
      · simp [h1, h2, binInt, hi, gomini]
      · simp [h4, limitEff, hall]
    · -- the oldest `d` segments are dropped
      have hd : kb.length < init.length := by omega
      have hi : ((init.length : Int) - kb.length - 1 > -1) := by omega
      obtain ⟨st2, g, g0, g1, g2, g3⟩ := del_loop (n + (init.length + 1) + 10) (by omega) (retExt ttl) (init ++ [last])
        (init.length - kb.length) (n + (init.length + 1) + 10) [] (st1.set "toDelete" (.list []))
        (by simp; omega) (by omega) (by simp [gomini, h1]; omega) (by simp [gomini]) (by simp [gomini, hs])
      simp [delBody, gomini] at g
      refine ⟨(st2.log "deleteSegments" [encSegs ((init ++ [last]).take (init.length - kb.length)).reverse]).set "err" .nil, ?_, ?_, ?_⟩
      · have gc := g2 "c" (by decide) (by decide)
        have gcl := g2 "cleanedSegments" (by decide) (by decide)
        simp [gomini, hc, h2] at gc gcl
        simp [h1, h2, binInt, hi, gomini, builtin, -exec_forC, exec_forC_some]
        simp [g, g1, gc, gcl, encC, gomini, retExt, encSegs, binInt]
      · have gc := g2 "c" (by decide) (by decide)
        simp [gomini, hc] at gc
        simp [gomini, gc, encC]
      · have hlen2 : (kb.reverse ++ [last]).length = kb.length + 1 := by simp
        have hd2 : (init ++ [last]).length - (kb.reverse ++ [last]).length = init.length - kb.length := by
          simp
        have hd3 : ¬ (init.length - kb.length = 0) := by omega
        simp [gomini, g3, h4, limitEff, hd2, hd3]

/-! ### the four passes of `Clean` as statements -/

@[simp] theorem sig_age : fn_deleteCleaner_applyAgeLimit.recv = some "c" ∧ fn_deleteCleaner_applyAgeLimit.params = ["segments"] := ⟨rfl, rfl⟩
@[simp] theorem sig_msgs : fn_deleteCleaner_applyMessagesLimit.recv = some "c" ∧ fn_deleteCleaner_applyMessagesLimit.params = ["segments"] := ⟨rfl, rfl⟩
@[simp] theorem sig_bytes : fn_deleteCleaner_applyBytesLimit.recv = some "c" ∧ fn_deleteCleaner_applyBytesLimit.params = ["segments"] := ⟨rfl, rfl⟩
@[simp] theorem sig_none : fn_deleteCleaner_noRetentionLimits.recv = some "c" ∧ fn_deleteCleaner_noRetentionLimits.params = [] := ⟨rfl, rfl⟩
@[simp] theorem sig_clean : fn_deleteCleaner_Clean.recv = some "c" ∧ fn_deleteCleaner_Clean.params = ["segments"] := ⟨rfl, rfl⟩

theorem applyAge_body' (F : Nat) (hF : 14 ≤ F) (lim : Limits) (ttl : Int) (segs : List Seg) (eff : List (String × List Val)) :
    ∃ st', runBlock (exec prog (retExt ttl) F) fn_deleteCleaner_applyAgeLimit.body
        { env := envOf [("c", encC lim), ("segments", encSegs segs)], eff := eff } =
      .ok (.ret [encSegs (applyAge ttl segs), .nil], st') ∧ st'.env "c" = some (encC lim) ∧
      st'.eff = eff ++ ageEff lim.age ttl segs := by
  obtain ⟨n, rfl⟩ : ∃ n, F = n + 14 := ⟨F - 14, by omega⟩
  exact applyAge_body n lim ttl segs eff

theorem applyMsgs_body' (F : Nat) (ttl : Int) (lim : Limits) (segs : List Seg) (hF : segs.length + 12 ≤ F) (eff : List (String × List Val)) :
    ∃ st', runBlock (exec prog (retExt ttl) F) fn_deleteCleaner_applyMessagesLimit.body
        { env := envOf [("c", encC lim), ("segments", encSegs segs)], eff := eff } =
      .ok (.ret [encSegs (applyLimit .gt lim.msgs msgSize segs), .nil], st') ∧ st'.env "c" = some (encC lim) ∧
      st'.eff = eff ++ limitEff (applyLimit .gt lim.msgs msgSize segs) segs := by
  obtain ⟨n, rfl⟩ : ∃ n, F = n + segs.length + 12 := ⟨F - segs.length - 12, by omega⟩
  exact applyMsgs_body n ttl lim segs eff

theorem applyBytes_body' (F : Nat) (ttl : Int) (lim : Limits) (segs : List Seg) (hF : segs.length + 12 ≤ F) (eff : List (String × List Val)) :
    ∃ st', runBlock (exec prog (retExt ttl) F) fn_deleteCleaner_applyBytesLimit.body
        { env := envOf [("c", encC lim), ("segments", encSegs segs)], eff := eff } =
      .ok (.ret [encSegs (applyLimit .gt lim.bytes byteSize segs), .nil], st') ∧ st'.env "c" = some (encC lim) ∧
      st'.eff = eff ++ limitEff (applyLimit .gt lim.bytes byteSize segs) segs := by
  obtain ⟨n, rfl⟩ : ∃ n, F = n + segs.length + 12 := ⟨F - segs.length - 12, by omega⟩
  exact applyBytes_body n ttl lim segs eff

def ageStmt : Stmt :=
  (.ite [] (.bin ">" (.sel (.sel (.var "c") "Retention") "Age") (.int 0))
      [(.assign [(.var "segments"), (.var "err")] [(.mcall (.var "c") "applyAgeLimit" [(.var "segments")])]),
      (.ite [] (.bin "!=" (.var "err") .nil)
      [(.ret [.nil, (.call "errors.Wrap" [(.var "err"), (.str "failed to apply age retention limit")])])]
      [])]
      [])

theorem age_stmt (F : Nat) (hF : 20 ≤ F) (lim : Limits) (ttl : Int) (cur : List Seg) (st : St)
    (hc : st.env "c" = some (encC lim)) (hs : st.env "segments" = some (encSegs cur)) :
    ∃ st', exec prog (retExt ttl) F ageStmt st = .ok (.next, st') ∧ st'.env "c" = some (encC lim) ∧
      st'.env "segments" = some (encSegs (if lim.age > 0 then applyAge ttl cur else cur)) ∧
      st'.eff = st.eff ++ (if lim.age > 0 then ageEff lim.age ttl cur else []) := by
  obtain ⟨n, rfl⟩ : ∃ n, F = n + 20 := ⟨F - 20, by omega⟩
  by_cases h : lim.age > 0
  · have h' : (0 < lim.age) := h
    obtain ⟨s', b, bc, be⟩ := applyAge_body' (n + 18) (by omega) lim ttl cur st.eff
    simp [ageStmt, gomini, hc, hs, encC, binInt, h']
    simp [encC] at b bc
    simp [b, bc, gomini, h, be]
  · have h' : ¬ (0 < lim.age) := h
    refine ⟨st, ?_, hc, ?_, ?_⟩
    · simp [ageStmt, gomini, hc, encC, binInt, h']
    · simp [h, hs]
    · simp [h]

def msgsStmt : Stmt :=
  (.ite [] (.bin ">" (.sel (.sel (.var "c") "Retention") "Messages") (.int 0))
      [(.assign [(.var "segments"), (.var "err")] [(.mcall (.var "c") "applyMessagesLimit" [(.var "segments")])]),
      (.ite [] (.bin "!=" (.var "err") .nil)
      [(.ret [.nil, (.call "errors.Wrap" [(.var "err"), (.str "failed to apply message retention limit")])])]
      [])]
      [])

theorem msgs_stmt (F : Nat) (lim : Limits) (ttl : Int) (cur : List Seg) (hF : cur.length + 20 ≤ F) (st : St)
    (hc : st.env "c" = some (encC lim)) (hs : st.env "segments" = some (encSegs cur)) :
    ∃ st', exec prog (retExt ttl) F msgsStmt st = .ok (.next, st') ∧ st'.env "c" = some (encC lim) ∧
      st'.env "segments" = some (encSegs (if lim.msgs > 0 then applyLimit .gt lim.msgs msgSize cur else cur)) ∧
      st'.eff = st.eff ++ (if lim.msgs > 0 then limitEff (applyLimit .gt lim.msgs msgSize cur) cur else []) := by
  obtain ⟨n, rfl⟩ : ∃ n, F = n + 20 := ⟨F - 20, by omega⟩
  by_cases h : lim.msgs > 0
  · have h' : (0 < lim.msgs) := h
    obtain ⟨s', b, bc, be⟩ := applyMsgs_body' (n + 18) ttl lim cur (by omega) st.eff
    simp [msgsStmt, gomini, hc, hs, encC, binInt, h']
    simp [encC] at b bc
    simp [b, bc, gomini, h, be]
  · have h' : ¬ (0 < lim.msgs) := h
    refine ⟨st, ?_, hc, ?_, ?_⟩
    · simp [msgsStmt, gomini, hc, encC, binInt, h']
    · simp [h, hs]
    · simp [h]

def bytesStmt : Stmt :=
  (.ite [] (.bin ">" (.sel (.sel (.var "c") "Retention") "Bytes") (.int 0))
      [(.assign [(.var "segments"), (.var "err")] [(.mcall (.var "c") "applyBytesLimit" [(.var "segments")])]),
      (.ite [] (.bin "!=" (.var "err") .nil)
      [(.ret [.nil, (.call "errors.Wrap" [(.var "err"), (.str "failed to apply bytes retention limit")])])]
      [])]
      [])

theorem bytes_stmt (F : Nat) (lim : Limits) (ttl : Int) (cur : List Seg) (hF : cur.length + 20 ≤ F) (st : St)
    (hc : st.env "c" = some (encC lim)) (hs : st.env "segments" = some (encSegs cur)) :
    ∃ st', exec prog (retExt ttl) F bytesStmt st = .ok (.next, st') ∧ st'.env "c" = some (encC lim) ∧
      st'.env "segments" = some (encSegs (if lim.bytes > 0 then applyLimit .gt lim.bytes byteSize cur else cur)) ∧
      st'.eff = st.eff ++ (if lim.bytes > 0 then limitEff (applyLimit .gt lim.bytes byteSize cur) cur else []) := by
  obtain ⟨n, rfl⟩ : ∃ n, F = n + 20 := ⟨F - 20, by omega⟩
  by_cases h : lim.bytes > 0
  · have h' : (0 < lim.bytes) := h
    obtain ⟨s', b, bc, be⟩ := applyBytes_body' (n + 18) ttl lim cur (by omega) st.eff
    simp [bytesStmt, gomini, hc, hs, encC, binInt, h']
    simp [encC] at b bc
    simp [b, bc, gomini, h, be]
  · have h' : ¬ (0 < lim.bytes) := h
    refine ⟨st, ?_, hc, ?_, ?_⟩
    · simp [bytesStmt, gomini, hc, encC, binInt, h']
    · simp [h, hs]
    · simp [h]

end Liftbridge.Props.GoRetention
