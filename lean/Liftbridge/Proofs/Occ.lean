/- Helper lemmas for C16 (optimistic concurrency control). -/
import Liftbridge.Model.Log
import Liftbridge.Proofs.Log
namespace Liftbridge.Proofs.Occ
open Liftbridge Liftbridge.Log Liftbridge.Log.CLog Liftbridge.Proofs.Log

/-! ### Flags are never touched by `checkSplit` / `write` -/

theorem occ_checkSplit (l : CLog) : l.checkSplit.occ = l.occ := by
  unfold checkSplit; split <;> rfl

theorem readonly_checkSplit (l : CLog) : l.checkSplit.readonly = l.readonly := by
  unfold checkSplit; split <;> rfl

theorem occ_checkSplitIfWritable (l : CLog) : l.checkSplitIfWritable.occ = l.occ := by
  unfold checkSplitIfWritable; split
  · rfl
  · exact occ_checkSplit l

theorem readonly_checkSplitIfWritable (l : CLog) : l.checkSplitIfWritable.readonly = l.readonly := by
  unfold checkSplitIfWritable; split
  · rfl
  · exact readonly_checkSplit l

theorem nextOffset_checkSplitIfWritable (l : CLog) :
    l.checkSplitIfWritable.nextOffset = l.nextOffset := by
  unfold checkSplitIfWritable; split
  · rfl
  · exact nextOffset_checkSplit l

theorem write_flags {l l' : CLog} {rs : List Rec} {offs : List Int}
    (h : l.write rs = .ok (l', offs)) : l'.occ = l.occ ∧ l'.readonly = l.readonly := by
  rw [write_eq l (write_ok_ne h)] at h
  injection h with h
  injection h with h1 _
  subst h1
  exact ⟨rfl, rfl⟩

/-! ### A single conditional message -/

/-- The record a message becomes when it is assigned offset `o`. -/
def mkRec (o : Int) (m : Msg) : Rec := { offset := o, ts := m.ts, epoch := m.epoch, body := m.body }

/-- The concurrency-control check refuses the message. -/
def Refused (l : CLog) (m : Msg) : Prop :=
  l.occ = true ∧ m.expected ≠ -1 ∧ m.expected ≠ l.nextOffset

instance (l : CLog) (m : Msg) : Decidable (Refused l m) := by unfold Refused; infer_instance

theorem stamp_single (occ : Bool) (base : Int) (m : Msg) :
    stamp occ base 0 [m] =
      if m.body.encodable = false then .err "encode"
      else if occ = true ∧ m.expected ≠ -1 ∧ m.expected ≠ base then .err "incorrect-offset"
      else .ok [mkRec base m] := by
  cases henc : m.body.encodable with
  | false =>
    rw [if_pos rfl]
    simp [stamp, henc, Gen.Log.encodeErrPanics]
  | true =>
    rw [if_neg (by simp)]
    by_cases h : occ = true ∧ m.expected ≠ -1 ∧ m.expected ≠ base
    · rw [if_pos h]
      obtain ⟨h1, h2, h3⟩ := h
      have h3' : ¬ base = m.expected := fun hb => h3 hb.symm
      simp [stamp, henc, Gen.Log.occWaiveCmp, Gen.Log.occExpectedCmp, Cmp.evalInt, h1, h2, h3']
    · rw [if_neg h]
      have hc : (occ && Gen.Log.occWaiveCmp.evalInt m.expected (-1) &&
          Gen.Log.occExpectedCmp.evalInt (base + ((0 : Nat) : Int)) m.expected) = false := by
        simp only [Gen.Log.occWaiveCmp, Gen.Log.occExpectedCmp, Cmp.evalInt, Int.natCast_zero,
          Int.add_zero]
        cases occ
        · rfl
        · by_cases h2 : m.expected = -1
          · simp [h2]
          · by_cases h3 : m.expected = base
            · simp [h3]
            · exact absurd ⟨rfl, h2, h3⟩ h
      simp only [stamp, hc, henc]
      simp [mkRec]

/-- `Append` of one message on a writable log, spelled out: the message is encoded first, then
checked against the expected offset, then written. -/
theorem append_single (l : CLog) (m : Msg) (hro : l.readonly = false) :
    l.append [m] =
      if m.body.encodable = false then .err "encode"
      else if Refused l m then .err "incorrect-offset"
      else l.checkSplit.write [mkRec l.nextOffset m] := by
  have hb : (l.checkSplit.occ && Gen.Log.occBatchCmp.evalNat [m].length 1) = false := by
    simp [Gen.Log.occBatchCmp, Cmp.evalNat]
  have hro' : ¬ (l.readonly = true) := by simp [hro]
  unfold append
  rw [if_neg hro']
  simp only []
  rw [hb, if_neg (by simp), stamp_single, occ_checkSplit, nextOffset_checkSplit]
  by_cases henc : m.body.encodable = false
  · rw [if_pos henc, if_pos henc]; rfl
  · rw [if_neg henc, if_neg henc]
    by_cases hr : Refused l m
    · have hr' : l.occ = true ∧ m.expected ≠ -1 ∧ m.expected ≠ l.nextOffset := hr
      rw [if_pos hr, if_pos hr']; rfl
    · have hr' : ¬ (l.occ = true ∧ m.expected ≠ -1 ∧ m.expected ≠ l.nextOffset) := hr
      rw [if_neg hr, if_neg hr']; rfl

/-- The four outcomes of `Append` of one message. -/
theorem append_single_cases (l : CLog) (m : Msg) :
    (l.readonly = true ∧ l.append [m] = .err "readonly") ∨
    (l.readonly = false ∧ m.body.encodable = false ∧ l.append [m] = .err "encode") ∨
    (l.readonly = false ∧ m.body.encodable = true ∧ Refused l m ∧
      l.append [m] = .err "incorrect-offset") ∨
    (l.readonly = false ∧ m.body.encodable = true ∧ ¬ Refused l m ∧
      ∃ l', l.append [m] = .ok (l', [l.nextOffset]) ∧
        l.checkSplit.write [mkRec l.nextOffset m] = .ok (l', [l.nextOffset])) := by
  cases hro : l.readonly with
  | true => left; exact ⟨rfl, by simp [append, hro]⟩
  | false =>
    right
    cases henc : m.body.encodable with
    | false => left; exact ⟨rfl, rfl, by rw [append_single l m hro, if_pos henc]⟩
    | true =>
      right
      have henc' : ¬ (m.body.encodable = false) := by simp [henc]
      by_cases hr : Refused l m
      · left; exact ⟨rfl, rfl, hr, by rw [append_single l m hro, if_neg henc', if_pos hr]⟩
      · right
        refine ⟨rfl, rfl, hr, ?_⟩
        have hw := write_eq l.checkSplit (rs := [mkRec l.nextOffset m]) (by simp)
        refine ⟨_, ?_, hw⟩
        rw [append_single l m hro, if_neg henc', if_neg hr, hw]
        rfl

/-- What a successful single append does to the state. -/
theorem append_single_ok {l l' : CLog} {m : Msg} {offs : List Int} (h : Inv l)
    (ha : l.append [m] = .ok (l', offs)) :
    offs = [l.nextOffset] ∧ Inv l' ∧ l'.abs = l.abs ++ [mkRec l.nextOffset m] ∧
    l'.nextOffset = l.nextOffset + 1 ∧ l'.occ = l.occ ∧ l'.readonly = l.readonly ∧
    l.readonly = false ∧ ¬ Refused l m ∧ m.body.encodable = true := by
  rcases append_single_cases l m with ⟨_, he⟩ | ⟨_, _, he⟩ | ⟨_, _, _, he⟩ |
    ⟨hro, henc, hnr, l'', he, hw⟩
  · rw [he] at ha; cases ha
  · rw [he] at ha; cases ha
  · rw [he] at ha; cases ha
  · rw [he] at ha
    injection ha with ha
    injection ha with h1 h2
    subst h1 h2
    have hinv : Inv l'' := (append_full h he).1
    have habs : l''.abs = l.abs ++ [mkRec l.nextOffset m] := by
      have := (write_spec (inv_checkSplit h).nonempty hw).1
      rwa [abs_checkSplit] at this
    have hfl := write_flags hw
    rw [occ_checkSplit, readonly_checkSplit] at hfl
    refine ⟨rfl, hinv, habs, ?_, hfl.1, hfl.2, hro, hnr, henc⟩
    have hl : l''.abs.getLast? = some (mkRec l.nextOffset m) := by
      rw [habs]; simp
    rw [nextOffset_last hinv hl]
    rfl

/-! ### One publish (`Props.C16.publish` is this function) -/

def pub (l : CLog) (m : Msg) : CLog × Res Int :=
  match l.append [m] with
  | .ok (l', offs) => (l', match offs with | [o] => .ok o | _ => .panic)
  | .err e => (l.checkSplitIfWritable, .err e)
  | .panic => (l, .panic)

def runP : CLog → List Msg → List (Msg × Res Int)
  | _, [] => []
  | l, m :: ms => let (l', r) := pub l m; (m, r) :: runP l' ms

def finalP : CLog → List Msg → CLog
  | l, [] => l
  | l, m :: ms => finalP (pub l m).1 ms

theorem runP_cons (l : CLog) (m : Msg) (ms : List Msg) :
    runP l (m :: ms) = (m, (pub l m).2) :: runP (pub l m).1 ms := rfl

/-- The outcomes of a publish: refused (state = what a failed `Append` leaves) or stored at the
next offset. It never panics. -/
theorem pub_cases (l : CLog) (m : Msg) :
    (∃ e, l.append [m] = .err e ∧ pub l m = (l.checkSplitIfWritable, .err e) ∧
      ((e = "readonly" ∧ l.readonly = true) ∨
       (e = "encode" ∧ l.readonly = false ∧ m.body.encodable = false) ∨
       (e = "incorrect-offset" ∧ l.readonly = false ∧ m.body.encodable = true ∧ Refused l m))) ∨
    (∃ l', l.append [m] = .ok (l', [l.nextOffset]) ∧ pub l m = (l', .ok l.nextOffset) ∧
      l.readonly = false ∧ m.body.encodable = true ∧ ¬ Refused l m) := by
  rcases append_single_cases l m with ⟨hro, he⟩ | ⟨hro, henc, he⟩ | ⟨hro, henc, hr, he⟩ |
    ⟨hro, henc, hnr, l', he, _⟩
  · left; exact ⟨_, he, by simp [pub, he], Or.inl ⟨rfl, hro⟩⟩
  · left; exact ⟨_, he, by simp [pub, he], Or.inr (Or.inl ⟨rfl, hro, henc⟩)⟩
  · left; exact ⟨_, he, by simp [pub, he], Or.inr (Or.inr ⟨rfl, hro, henc, hr⟩)⟩
  · right; exact ⟨l', he, by simp [pub, he], hro, henc, hnr⟩

/-- A refused publish changes nothing observable. -/
theorem pub_err {l : CLog} {m : Msg} {e : String} (hp : (pub l m).2 = .err e) :
    l.append [m] = .err e ∧ (pub l m).1 = l.checkSplitIfWritable ∧
    (pub l m).1.abs = l.abs ∧ (pub l m).1.nextOffset = l.nextOffset := by
  rcases pub_cases l m with ⟨e', he, hpe, _⟩ | ⟨l', _, hpe, _⟩
  · rw [hpe] at hp ⊢
    injection hp with hp
    subst hp
    exact ⟨he, rfl, abs_checkSplitIfWritable l, nextOffset_checkSplitIfWritable l⟩
  · rw [hpe] at hp; cases hp

/-- A stored publish. -/
theorem pub_ok {l : CLog} {m : Msg} {o : Int} (h : Inv l) (hp : (pub l m).2 = .ok o) :
    o = l.nextOffset ∧ ¬ Refused l m ∧ l.readonly = false ∧ Inv (pub l m).1 ∧
    (pub l m).1.abs = l.abs ++ [mkRec o m] ∧ (pub l m).1.nextOffset = l.nextOffset + 1 := by
  rcases pub_cases l m with ⟨e', _, hpe, _⟩ | ⟨l', he, hpe, hro, _, hnr⟩
  · rw [hpe] at hp; cases hp
  · rw [hpe] at hp ⊢
    injection hp with hp
    subst hp
    obtain ⟨_, hinv, habs, hnext, _⟩ := append_single_ok h he
    exact ⟨rfl, hnr, hro, hinv, habs, hnext⟩

theorem pub_not_panic (l : CLog) (m : Msg) : (pub l m).2 ≠ .panic := by
  rcases pub_cases l m with ⟨e', _, hpe, _⟩ | ⟨l', _, hpe, _⟩ <;> rw [hpe] <;> simp

theorem pub_inv (l : CLog) (m : Msg) (h : Inv l) :
    Inv (pub l m).1 ∧ (pub l m).1.occ = l.occ ∧ (pub l m).1.readonly = l.readonly := by
  rcases pub_cases l m with ⟨e', _, hpe, _⟩ | ⟨l', he, hpe, _⟩
  · rw [hpe]
    exact ⟨inv_checkSplitIfWritable h, occ_checkSplitIfWritable l, readonly_checkSplitIfWritable l⟩
  · rw [hpe]
    obtain ⟨_, hinv, _, _, hocc, hro, _⟩ := append_single_ok h he
    exact ⟨hinv, hocc, hro⟩

/-- The next offset never decreases. -/
theorem pub_next_le (l : CLog) (m : Msg) (h : Inv l) : l.nextOffset ≤ (pub l m).1.nextOffset := by
  cases hp : (pub l m).2 with
  | ok o => rw [(pub_ok h hp).2.2.2.2.2]; omega
  | err e => rw [(pub_err hp).2.2.2]; exact Int.le_refl _
  | panic => exact absurd hp (pub_not_panic l m)

theorem pub_stored_iff (l : CLog) (m : Msg) (hocc : l.occ = true) (hro : l.readonly = false)
    (henc : m.body.encodable = true) :
    (∃ o, (pub l m).2 = .ok o) ↔ (m.expected = -1 ∨ m.expected = l.nextOffset) := by
  rcases pub_cases l m with ⟨e', _, hpe, hc⟩ | ⟨l', _, hpe, _, _, hnr⟩
  · rcases hc with ⟨_, hro'⟩ | ⟨_, _, henc'⟩ | ⟨_, _, _, hr⟩
    · rw [hro] at hro'; cases hro'
    · rw [henc] at henc'; cases henc'
    · rw [hpe]
      constructor
      · rintro ⟨o, ho⟩; cases ho
      · rintro (hw | hx)
        · exact absurd hw hr.2.1
        · exact absurd hx hr.2.2
  · rw [hpe]
    refine ⟨fun _ => ?_, fun _ => ⟨_, rfl⟩⟩
    by_cases hw : m.expected = -1
    · exact Or.inl hw
    · by_cases hx : m.expected = l.nextOffset
      · exact Or.inr hx
      · exact absurd ⟨hocc, hw, hx⟩ hnr

theorem pub_stored_at_expected (l : CLog) (m : Msg) (o : Int) (h : Inv l) (hocc : l.occ = true)
    (hp : (pub l m).2 = .ok o) :
    o = l.nextOffset ∧ (m.expected ≠ -1 → o = m.expected) ∧
    (pub l m).1.abs = l.abs ++ [mkRec o m] := by
  obtain ⟨ho, hnr, _, _, habs, _⟩ := pub_ok h hp
  refine ⟨ho, fun hw => ?_, habs⟩
  by_cases hx : m.expected = l.nextOffset
  · rw [ho, hx]
  · exact absurd ⟨hocc, hw, hx⟩ hnr

theorem pub_rejected (l : CLog) (m : Msg) (hocc : l.occ = true) (hro : l.readonly = false)
    (henc : m.body.encodable = true)
    (hne : m.expected ≠ -1) (hne' : m.expected ≠ l.nextOffset) :
    (pub l m).2 = .err "incorrect-offset" := by
  rcases pub_cases l m with ⟨e', _, hpe, hc⟩ | ⟨l', _, _, _, _, hnr⟩
  · rcases hc with ⟨_, hro'⟩ | ⟨_, _, henc'⟩ | ⟨he, _, _⟩
    · rw [hro] at hro'; cases hro'
    · rw [henc] at henc'; cases henc'
    · rw [hpe, he]
  · exact absurd ⟨hocc, hne, hne'⟩ hnr

theorem pub_waived (l : CLog) (m : Msg) (hro : l.readonly = false)
    (henc : m.body.encodable = true) (hw : m.expected = -1) :
    ∃ o, (pub l m).2 = .ok o := by
  rcases pub_cases l m with ⟨e', _, _, hc⟩ | ⟨l', _, hpe, _⟩
  · rcases hc with ⟨_, hro'⟩ | ⟨_, _, henc'⟩ | ⟨_, _, _, hr⟩
    · rw [hro] at hro'; cases hro'
    · rw [henc] at henc'; cases henc'
    · exact absurd hw hr.2.1
  · exact ⟨_, by rw [hpe]⟩

/-- A message that cannot be encoded is refused with the encode error and nothing is written. -/
theorem pub_unencodable (l : CLog) (m : Msg) (hro : l.readonly = false)
    (henc : m.body.encodable = false) :
    (pub l m).2 = .err "encode" ∧ (pub l m).1.abs = l.abs := by
  have hp : (pub l m).2 = .err "encode" := by
    rcases pub_cases l m with ⟨e', _, hpe, hc⟩ | ⟨l', _, _, _, henc', _⟩
    · rcases hc with ⟨_, hro'⟩ | ⟨he, _, _⟩ | ⟨_, _, henc', _⟩
      · rw [hro] at hro'; cases hro'
      · rw [hpe, he]
      · rw [henc] at henc'; cases henc'
    · rw [henc] at henc'; cases henc'
  exact ⟨hp, (pub_err hp).2.2.1⟩

/-! ### Histories of publishes -/

/-- The filter of `at_most_one_winner`. -/
def winner (e : Int) (pr : Msg × Res Int) : Bool := pr.2.isOk && decide (pr.1.expected = e)

/-- Once the next offset is past `e`, nobody expecting `e` is stored any more. -/
theorem no_winner_after (ms : List Msg) (e : Int) (he : e ≠ -1) :
    ∀ (l : CLog), Inv l → l.occ = true → e < l.nextOffset → (runP l ms).filter (winner e) = [] := by
  induction ms with
  | nil => intro l _ _ _; rfl
  | cons m ms ih =>
    intro l h hocc hlt
    obtain ⟨hinv, hocc', _⟩ := pub_inv l m h
    have hle := pub_next_le l m h
    have htail := ih (pub l m).1 hinv (hocc'.trans hocc) (by omega)
    rw [runP_cons, List.filter_cons, htail]
    have hhead : winner e (m, (pub l m).2) = false := by
      cases hp : (pub l m).2 with
      | ok o =>
        obtain ⟨_, hnr, _⟩ := pub_ok h hp
        by_cases hx : m.expected = e
        · exfalso
          apply hnr
          refine ⟨hocc, ?_, ?_⟩ <;> omega
        · simp [winner, hx]
      | err e' => simp [winner, Res.isOk]
      | panic => simp [winner, Res.isOk]
    simp [hhead]

theorem at_most_one (ms : List Msg) (e : Int) (he : e ≠ -1) :
    ∀ (l : CLog), Inv l → l.occ = true → ((runP l ms).filter (winner e)).length ≤ 1 := by
  induction ms with
  | nil => intro l _ _; simp [runP]
  | cons m ms ih =>
    intro l h hocc
    obtain ⟨hinv, hocc', _⟩ := pub_inv l m h
    have hocc'' : (pub l m).1.occ = true := hocc'.trans hocc
    rw [runP_cons, List.filter_cons]
    by_cases hwin : winner e (m, (pub l m).2) = true
    · rw [if_pos hwin]
      cases hp : (pub l m).2 with
      | ok o =>
        obtain ⟨_, hnr, _, _, _, hnext⟩ := pub_ok h hp
        have hx : m.expected = e := by
          simp only [winner, Bool.and_eq_true, decide_eq_true_eq] at hwin
          exact hwin.2
        have hen : e = l.nextOffset := by
          by_cases hc : m.expected = l.nextOffset
          · omega
          · exact absurd ⟨hocc, by omega, hc⟩ hnr
        rw [no_winner_after ms e he _ hinv hocc'' (by omega)]
        simp
      | err e' => rw [hp] at hwin; simp [winner, Res.isOk] at hwin
      | panic => rw [hp] at hwin; simp [winner, Res.isOk] at hwin
    · rw [if_neg hwin]
      exact ih _ hinv hocc''

/-- The record a stored publish contributes. -/
def storedRec (pr : Msg × Res Int) : Option Rec :=
  match pr.2 with
  | .ok o => some { offset := o, ts := pr.1.ts, epoch := pr.1.epoch, body := pr.1.body }
  | _ => none

theorem stored_appended (ms : List Msg) :
    ∀ (l : CLog), Inv l → (finalP l ms).abs = l.abs ++ (runP l ms).filterMap storedRec := by
  induction ms with
  | nil => intro l _; simp [finalP, runP]
  | cons m ms ih =>
    intro l h
    obtain ⟨hinv, _, _⟩ := pub_inv l m h
    show (finalP (pub l m).1 ms).abs = _
    rw [ih _ hinv, runP_cons, List.filterMap_cons]
    cases hp : (pub l m).2 with
    | ok o =>
      rw [(pub_ok h hp).2.2.2.2.1]
      simp [storedRec, mkRec]
    | err e' =>
      rw [(pub_err hp).2.2.1]
      simp [storedRec]
    | panic => exact absurd hp (pub_not_panic l m)

theorem batch_panics (l : CLog) (ms : List Msg) (hocc : l.occ = true) (hro : l.readonly = false)
    (hlen : 1 < ms.length) : l.append ms = .panic := by
  have hro' : ¬ (l.readonly = true) := by simp [hro]
  have hb : (l.checkSplit.occ && Gen.Log.occBatchCmp.evalNat ms.length 1) = true := by
    simp [occ_checkSplit, hocc, Gen.Log.occBatchCmp, Cmp.evalNat, hlen]
  unfold append
  rw [if_neg hro']
  simp only []
  rw [hb, if_pos rfl]

end Liftbridge.Proofs.Occ
