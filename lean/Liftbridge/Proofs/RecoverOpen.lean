/-
C05: what opening a segment does to a log file with an unindexed tail (the state left by a
crash between the log write and the index write, or by a torn write), on the repaired code
(`validateOnOpen`): the tail is cut off and log, index and in-memory counters agree again.
-/
import Liftbridge.Model.Recover
import Liftbridge.Proofs.Recover

namespace Liftbridge.Proofs.Recover
open Liftbridge Liftbridge.Log Liftbridge.Recover

/-! ### Association lists of files -/

theorem lookupF_insertF_self {α} (f : FName) (v : α) : ∀ l : List (FName × α), lookupF f (insertF f v l) = some v := by
  intro l
  induction l with
  | nil => simp [insertF, lookupF]
  | cons p rest ih =>
    obtain ⟨g, w⟩ := p
    unfold insertF
    by_cases h : g = f
    · simp [h, lookupF]
    · simp only [h, if_false]
      by_cases h2 : f.lt g
      · simp [h2, lookupF]
      · simp [h2, lookupF, h, ih]

theorem lookupF_insertF_ne {α} (f g : FName) (v : α) (hne : g ≠ f) :
    ∀ l : List (FName × α), lookupF g (insertF f v l) = lookupF g l := by
  intro l
  induction l with
  | nil => simp [insertF, lookupF, Ne.symm hne]
  | cons p rest ih =>
    obtain ⟨k, w⟩ := p
    unfold insertF
    by_cases h : k = f
    · subst h
      simp [lookupF, Ne.symm hne]
    · simp only [h, if_false]
      by_cases h2 : f.lt k
      · simp [h2, lookupF, Ne.symm hne]
      · simp only [h2]
        by_cases h3 : k = g
        · simp [lookupF, h3]
        · simp [lookupF, h3, ih]

/-! ### Decomposing runs of the crash monad -/

theorem bind_ok {α β} {m : M α} {f : α → M β} {s s' : St} {b : β}
    (h : (m >>= f) s = .ok b s') : ∃ a s1, m s = .ok a s1 ∧ f a s1 = .ok b s' := by
  change M.bind m f s = .ok b s' at h
  unfold M.bind at h
  cases hm : m s with
  | ok a s1 => rw [hm] at h; exact ⟨a, s1, rfl, h⟩
  | crashed s1 => rw [hm] at h; simp at h
  | fail e s1 => rw [hm] at h; simp at h

theorem eff_ok {e : Eff} {s s' : St} {u : Unit} (h : eff e s = .ok u s') : s'.fs = e.apply s.fs := by
  unfold eff tick at h
  by_cases hb : s.budget = 0
  · simp [hb] at h
  · simp [hb] at h; rw [← h]

theorem mark_ok {n : String} {s s' : St} {u : Unit} (h : mark n s = .ok u s') : s'.fs = s.fs := by
  unfold mark tick at h
  by_cases hb : s.budget = 0
  · simp [hb] at h
  · simp [hb] at h; rw [← h]

theorem getFS_ok {s s' : St} {fs : FS} (h : getFS s = .ok fs s') : fs = s.fs ∧ s' = s := by
  unfold getFS at h
  simp at h
  exact ⟨h.1.symm, h.2.symm⟩

theorem pure_ok {α} {a b : α} {s s' : St} (h : (pure a : M α) s = .ok b s') : b = a ∧ s' = s := by
  change M.pure a s = .ok b s' at h
  unfold M.pure at h
  simp at h
  exact ⟨h.1.symm, h.2.symm⟩

/-! ### Positions in a log file -/

def recsSize (rs : List Rec) : Nat := (rs.map Rec.size).sum

theorem rec_size_pos (r : Rec) : 0 < r.size := by
  simp [Rec.size, Log.msgSetHeaderLen, Gen.Log.msgSetHeaderLen]; omega

theorem chunksSize_append (a b : List Chunk) : chunksSize (a ++ b) = chunksSize a + chunksSize b := by
  simp [chunksSize]

theorem chunksSize_msgs (rs : List Rec) : chunksSize (rs.map Chunk.msg) = recsSize rs := by
  induction rs with
  | nil => rfl
  | cons r rest ih =>
    have : chunksSize (List.map Chunk.msg (r :: rest)) = r.size + chunksSize (List.map Chunk.msg rest) := by
      simp [chunksSize, Chunk.size]
    rw [this, ih]
    simp [recsSize]

/-- Walking over whole records: the chunk at the end of a prefix of records is the next chunk. -/
theorem chunkAt_skip (rs : List Rec) (rest : List Chunk) :
    chunkAt (rs.map Chunk.msg ++ rest) (recsSize rs) = chunkAt rest 0 := by
  induction rs with
  | nil => simp [recsSize]
  | cons r tl ih =>
    have hp := rec_size_pos r
    have : recsSize (r :: tl) = (r.size - 1 + recsSize tl) + 1 := by simp [recsSize]; omega
    rw [this]
    simp only [List.map_cons, List.cons_append, chunkAt, Chunk.size]
    have h2 : r.size ≤ r.size - 1 + recsSize tl + 1 := by omega
    simp only [h2, if_true]
    have h3 : r.size - 1 + recsSize tl + 1 - r.size = recsSize tl := by omega
    rw [h3]
    exact ih

/-! ### Index entries of a list of records -/

theorem entriesFrom_length (rs : List Rec) : ∀ p, (Seg.entriesFrom p rs).length = rs.length := by
  induction rs with
  | nil => intro p; rfl
  | cons r tl ih => intro p; simp [Seg.entriesFrom, ih]

theorem entriesFrom_append (a b : List Rec) : ∀ p,
    Seg.entriesFrom p (a ++ b) = Seg.entriesFrom p a ++ Seg.entriesFrom (p + recsSize a) b := by
  induction a with
  | nil => intro p; simp [Seg.entriesFrom, recsSize]
  | cons r tl ih =>
    intro p
    simp only [List.cons_append, Seg.entriesFrom, ih]
    have : p + r.size + recsSize tl = p + recsSize (r :: tl) := by simp [recsSize]; omega
    rw [this]

theorem entriesFrom_nonzero (rs : List Rec) : ∀ p, ∀ e ∈ Seg.entriesFrom p rs, entryIsZero e = false := by
  induction rs with
  | nil => intro p e he; simp [Seg.entriesFrom] at he
  | cons r tl ih =>
    intro p e he
    simp only [Seg.entriesFrom, List.mem_cons] at he
    cases he with
    | inl h =>
      have := rec_size_pos r
      subst h
      simp [entryIsZero]; omega
    | inr h => exact ih _ e h

theorem entriesFrom_getLast (a : List Rec) (r : Rec) (p : Nat) :
    (Seg.entriesFrom p (a ++ [r])).getLast? = some { offset := r.offset, ts := r.ts, pos := p + recsSize a, size := r.size } := by
  rw [entriesFrom_append]
  simp [Seg.entriesFrom]

/-! ### Cutting a log file back -/

theorem tearRev_exact : ∀ (l x : List Chunk), (∀ c ∈ l, 0 < c.size) → tearRev (l ++ x) (chunksSize l) = x := by
  intro l
  induction l with
  | nil =>
    intro x _
    cases x <;> simp [tearRev, chunksSize]
  | cons c tl ih =>
    intro x h
    have hc : 0 < c.size := h c (List.mem_cons_self)
    have hs : chunksSize (c :: tl) = (c.size - 1 + chunksSize tl) + 1 := by simp [chunksSize]; omega
    rw [hs]
    simp only [List.cons_append, tearRev]
    have h2 : c.size ≤ c.size - 1 + chunksSize tl + 1 := by omega
    simp only [h2, if_true]
    have h3 : c.size - 1 + chunksSize tl + 1 - c.size = chunksSize tl := by omega
    rw [h3]
    exact ih x (fun c' hc' => h c' (List.mem_cons_of_mem _ hc'))

theorem chunksSize_reverse (l : List Chunk) : chunksSize l.reverse = chunksSize l := by
  simp [chunksSize, List.sum_reverse]

/-- `log.Truncate(size of the indexed records)` removes exactly the tail. -/
theorem truncLog_tail (rs : List Rec) (t : List Chunk) (ht : ∀ c ∈ t, 0 < c.size) :
    (tearRev (rs.map Chunk.msg ++ t).reverse (chunksSize (rs.map Chunk.msg ++ t) - recsSize rs)).reverse = rs.map Chunk.msg := by
  have h1 : chunksSize (rs.map Chunk.msg ++ t) - recsSize rs = chunksSize t.reverse := by
    rw [chunksSize_append, chunksSize_msgs, chunksSize_reverse]; omega
  rw [h1, List.reverse_append, tearRev_exact _ _ (fun c hc => ht c (List.mem_reverse.mp hc))]
  simp

/-! ### Opening a segment -/

/-- Log file, index file and the in-memory counters of a segment agree on the records `rs`. -/
structure AlignedSeg (fs : FS) (seg : MSeg) (rs : List Rec) : Prop where
  log : fs.log? seg.fname = some (rs.map Chunk.msg)
  idx : ∃ ix, fs.idx? seg.fname = some ix ∧ ix.slots = Seg.entriesFrom 0 rs ∧ rs.length ≤ ix.size
  position : seg.position = recsSize rs
  idxPos : seg.idxPos = rs.length
  lastOffset : seg.lastOffset = (match rs.getLast? with | some r => r.offset | none => -1)
  firstOffset : seg.firstOffset = (match rs.head? with | some r => r.offset | none => -1)

theorem log?_apply_idx (fs : FS) (g : FName) (e : Eff)
    (h : ∀ f cs, e ≠ .createLog f ∧ e ≠ .writeLog f cs) (h2 : ∀ a b, e ≠ .renameLog a b) (h3 : ∀ f, e ≠ .removeLog f)
    (h4 : ∀ f n, e ≠ .truncLog f n ∧ e ≠ .tear f n) : (e.apply fs).log? g = fs.log? g := by
  cases e <;> simp only [Eff.apply, FS.log?] <;> (repeat' split) <;> first
    | rfl
    | (exfalso; first | exact (h _ []).1 rfl | exact (h _ _).2 rfl | exact h2 _ _ rfl | exact h3 _ rfl | exact (h4 _ _).1 rfl | exact (h4 _ _).2 rfl)

/-- `newIndex` on an existing index file: only a zero-size file is changed (pre-allocated). -/
theorem newIndexM_ok {f : FName} {s s' : St} {u : Unit} {ix : IdxFile}
    (hrun : newIndexM f s = .ok u s') (hidx : s.fs.idx? f = some ix) :
    (∀ g, s'.fs.log? g = s.fs.log? g) ∧
    s'.fs.idx? f = some (if ix.size = 0 then { ix with size := idxSlots } else ix) := by
  unfold newIndexM at hrun
  obtain ⟨_, s1, h1, hrun⟩ := bind_ok hrun
  obtain ⟨_, s2, h2, hrun⟩ := bind_ok hrun
  obtain ⟨fs, s3, h3, hrun⟩ := bind_ok hrun
  have e1 := eff_ok h1
  have e2 := mark_ok h2
  obtain ⟨e3, e3'⟩ := getFS_ok h3
  have hfs1 : s1.fs = s.fs := by
    rw [e1]; simp only [Eff.apply, hidx]
  have hfs2 : s2.fs = s.fs := by rw [e2, hfs1]
  rw [e3', e3, hfs2, hidx] at hrun
  dsimp only at hrun
  by_cases hz : ix.size = 0
  · simp only [hz, if_true] at hrun ⊢
    obtain ⟨_, s4, h4, hrun⟩ := bind_ok hrun
    have e4 := eff_ok h4
    have e5 := mark_ok hrun
    have : s'.fs = { s.fs with idxs := insertF f { ix with size := idxSlots } s.fs.idxs } := by
      rw [e5, e4, hfs2]; simp only [Eff.apply, hidx, hz, if_true]
    rw [this]
    exact ⟨fun g => rfl, by simp [FS.idx?, lookupF_insertF_self]⟩
  · simp only [hz, if_false] at hrun ⊢
    obtain ⟨_, e⟩ := pure_ok hrun
    rw [e, hfs2]
    exact ⟨fun g => rfl, hidx⟩

theorem idxWF_entries (rs : List Rec) (size : Nat) (h : rs.length ≤ size) :
    IdxWF { slots := Seg.entriesFrom 0 rs, size := size } :=
  ⟨by simpa [entriesFrom_length] using h, entriesFrom_nonzero rs 0⟩

theorem positive_size_nil (t : List Chunk) (ht : ∀ c ∈ t, 0 < c.size) (h : chunksSize t = 0) : t = [] := by
  cases t with
  | nil => rfl
  | cons c tl =>
    have := ht c (List.mem_cons_self)
    simp [chunksSize] at h
    omega

/-- The end of `setupIndex` on the repaired code, empty index: the whole log file is cut off. -/
theorem setupFinM_none (sh : Shape) (hv : sh.validateOnOpen = true) (seg0 : MSeg) (n : Nat) (s s' : St) (seg : MSeg)
    (hrun : setupFinM sh seg0 n none s = .ok seg s') :
    (0 < seg0.position → s'.fs = (Eff.truncLog seg0.fname 0).apply s.fs ∧ seg = { seg0 with idxPos := n, position := 0 }) ∧
    (¬ 0 < seg0.position → s'.fs = s.fs ∧ seg = { seg0 with idxPos := n }) := by
  unfold setupFinM at hrun
  obtain ⟨fs, s1, h1, hrun⟩ := bind_ok hrun
  obtain ⟨e1, e1'⟩ := getFS_ok h1
  rw [e1'] at hrun
  simp only [hv, if_true] at hrun
  by_cases hp : 0 < seg0.position
  · simp only [gt_iff_lt, hp, if_true] at hrun
    obtain ⟨_, s2, h2, hrun⟩ := bind_ok hrun
    have e2 := eff_ok h2
    obtain ⟨hseg, hs'⟩ := pure_ok hrun
    exact ⟨fun _ => ⟨by rw [hs', e2], hseg⟩, fun h => absurd hp h⟩
  · simp only [gt_iff_lt, hp, if_false] at hrun
    obtain ⟨hseg, hs'⟩ := pure_ok hrun
    exact ⟨fun h => absurd h hp, fun _ => ⟨by rw [hs'], hseg⟩⟩

/-- The end of `setupIndex` on the repaired code, last index entry `e`: the log file is cut back to
the end of that entry. -/
theorem setupFinM_some (sh : Shape) (hv : sh.validateOnOpen = true) (seg0 : MSeg) (n : Nat) (e : Entry) (s s' : St) (seg : MSeg)
    (hrun : setupFinM sh seg0 n (some e) s = .ok seg s') :
    let first := (idxOf s.fs seg0.fname).slotAt seg0.base 0
    let seg1 : MSeg := { seg0 with idxPos := n, lastOffset := e.offset, lastTs := e.ts, firstOffset := first.offset, firstTs := first.ts }
    (e.pos + e.size < seg0.position → s'.fs = (Eff.truncLog seg0.fname (e.pos + e.size)).apply s.fs ∧ seg = { seg1 with position := e.pos + e.size }) ∧
    (¬ e.pos + e.size < seg0.position → s'.fs = s.fs ∧ seg = seg1) := by
  unfold setupFinM at hrun
  obtain ⟨fs, s1, h1, hrun⟩ := bind_ok hrun
  obtain ⟨e1, e1'⟩ := getFS_ok h1
  rw [e1', e1] at hrun
  simp only [hv, if_true] at hrun
  intro first seg1
  by_cases hp : e.pos + e.size < seg0.position
  · simp only [gt_iff_lt, hp, if_true] at hrun
    obtain ⟨_, s2, h2, hrun⟩ := bind_ok hrun
    have e2 := eff_ok h2
    obtain ⟨hseg, hs'⟩ := pure_ok hrun
    exact ⟨fun _ => ⟨by rw [hs', e2], hseg⟩, fun h => absurd hp h⟩
  · simp only [gt_iff_lt, hp, if_false] at hrun
    obtain ⟨hseg, hs'⟩ := pure_ok hrun
    exact ⟨fun h => absurd h hp, fun _ => ⟨by rw [hs'], hseg⟩⟩

theorem truncLog_apply (fs : FS) (f : FName) (n : Nat) (c : List Chunk) (h : fs.log? f = some c) :
    ((Eff.truncLog f n).apply fs).log? f = some (tearRev c.reverse (chunksSize c - n)).reverse ∧
    (∀ g, ((Eff.truncLog f n).apply fs).idx? g = fs.idx? g) := by
  simp only [Eff.apply, h]
  exact ⟨by simp [FS.log?, lookupF_insertF_self], fun g => rfl⟩

theorem chunkAt_last (a : List Rec) (r : Rec) (t : List Chunk) :
    chunkAt ((a ++ [r]).map Chunk.msg ++ t) (0 + recsSize a) = .msg r := by
  have : (a ++ [r]).map Chunk.msg ++ t = a.map Chunk.msg ++ (Chunk.msg r :: t) := by simp
  rw [this, Nat.zero_add, chunkAt_skip]
  simp [chunkAt]

/-- The end of `setupIndex` on the repaired code when the index position and last entry are those
of `rs`: the tail `t` of the log file is cut off and everything agrees on `rs`. -/
theorem setupFinM_aligned (sh : Shape) (hv : sh.validateOnOpen = true) (base : Int) (sfx : Sfx)
    (rs : List Rec) (t : List Chunk) (ix1 : IdxFile) (s1 s' : St) (seg : MSeg) (n : Nat) (last : Option Entry)
    (hlog1 : s1.fs.log? ⟨base, sfx⟩ = some (rs.map Chunk.msg ++ t))
    (hix1 : s1.fs.idx? ⟨base, sfx⟩ = some ix1) (hslots1 : ix1.slots = Seg.entriesFrom 0 rs) (hfit1 : rs.length ≤ ix1.size)
    (ht : ∀ c ∈ t, 0 < c.size) (hn : n = rs.length) (hlast : last = (Seg.entriesFrom 0 rs).getLast?)
    (hrun : setupFinM sh { base := base, sfx := sfx, position := chunksSize (rs.map Chunk.msg ++ t) } n last s1 = .ok seg s') :
    AlignedSeg s'.fs seg rs ∧ seg.fname = ⟨base, sfx⟩ := by
  have hidxOf : idxOf s1.fs ⟨base, sfx⟩ = ix1 := by simp [idxOf, hix1]
  have hsz : chunksSize (rs.map Chunk.msg ++ t) = recsSize rs + chunksSize t := by
    rw [chunksSize_append, chunksSize_msgs]
  subst hn
  rcases List.eq_nil_or_concat rs with hnil | ⟨a, r, hcat⟩
  · subst hnil
    simp only [Seg.entriesFrom, List.getLast?_nil] at hlast
    subst hlast
    have hfin := setupFinM_none sh hv _ _ _ _ _ hrun
    simp only [List.map_nil, List.nil_append] at hfin hlog1 hsz
    by_cases hp : 0 < chunksSize t
    · obtain ⟨hfs, hseg⟩ := hfin.1 hp
      obtain ⟨hl, hi⟩ := truncLog_apply s1.fs ⟨base, sfx⟩ 0 t hlog1
      have htl : (tearRev t.reverse (chunksSize t)).reverse = [] := by
        simpa [recsSize] using truncLog_tail [] t ht
      subst hseg
      refine ⟨⟨?_, ⟨ix1, ?_, by simpa [Seg.entriesFrom] using hslots1, by simp⟩, rfl, rfl, rfl, rfl⟩, rfl⟩
      · rw [hfs]; simpa [MSeg.fname, htl] using hl
      · rw [hfs]; simp only [MSeg.fname]; rw [hi]; exact hix1
    · obtain ⟨hfs, hseg⟩ := hfin.2 hp
      have ht0 : t = [] := positive_size_nil t ht (by omega)
      subst ht0 hseg
      refine ⟨⟨by rw [hfs]; simpa [MSeg.fname] using hlog1, ⟨ix1, by rw [hfs]; exact hix1, by simpa [Seg.entriesFrom] using hslots1, by simp⟩, ?_, rfl, rfl, rfl⟩, rfl⟩
      simp [chunksSize, recsSize]
  · rw [List.concat_eq_append] at hcat
    subst hcat
    rw [entriesFrom_getLast] at hlast
    subst hlast
    have hfin := setupFinM_some sh hv _ _ _ _ _ _ hrun
    simp only [MSeg.fname] at hfin
    have hstop : 0 + recsSize a + r.size = recsSize (a ++ [r]) := by simp [recsSize]
    rw [hstop, hsz, hidxOf] at hfin
    have hfirst : (ix1.slotAt base 0).offset = (match (a ++ [r]).head? with | some r => r.offset | none => -1) := by
      simp only [IdxFile.slotAt, hslots1]
      cases a with
      | nil => simp [Seg.entriesFrom]
      | cons x xs => simp [Seg.entriesFrom]
    by_cases hp : 0 < chunksSize t
    · obtain ⟨hfs, hseg⟩ := hfin.1 (by omega)
      obtain ⟨hl, hi⟩ := truncLog_apply s1.fs ⟨base, sfx⟩ (recsSize (a ++ [r])) _ hlog1
      rw [truncLog_tail (a ++ [r]) t ht] at hl
      subst hseg
      refine ⟨⟨?_, ⟨ix1, ?_, hslots1, hfit1⟩, rfl, rfl, by simp, hfirst⟩, rfl⟩
      · rw [hfs]; simpa [MSeg.fname] using hl
      · rw [hfs]; simp only [MSeg.fname]; rw [hi]; exact hix1
    · obtain ⟨hfs, hseg⟩ := hfin.2 (by omega)
      have ht0 : t = [] := positive_size_nil t ht (by omega)
      subst ht0 hseg
      refine ⟨⟨by rw [hfs]; simpa [MSeg.fname] using hlog1, ⟨ix1, by rw [hfs]; exact hix1, hslots1, hfit1⟩, ?_, rfl, by simp, hfirst⟩, rfl⟩
      show recsSize (a ++ [r]) + chunksSize [] = recsSize (a ++ [r])
      simp [chunksSize]

/-- `InitializePosition` on an index whose written slots are the entries of `rs` (offsets not below
the base): position `|rs|`, last entry = the entry of the last record. -/
theorem initPosition_entries (ix1 : IdxFile) (base : Int) (rs : List Rec)
    (hslots1 : ix1.slots = Seg.entriesFrom 0 rs) (hfit1 : rs.length ≤ ix1.size) (hbase : ∀ r ∈ rs, base ≤ r.offset) :
    initPosition ix1 base = .ok rs.length (Seg.entriesFrom 0 rs).getLast? := by
  have hwf : IdxWF ix1 := ⟨by rw [hslots1, entriesFrom_length]; exact hfit1, by rw [hslots1]; exact entriesFrom_nonzero rs 0⟩
  rw [initPosition_spec ix1 base hwf, hslots1]
  rcases List.eq_nil_or_concat rs with hnil | ⟨a, r, hcat⟩
  · subst hnil; simp [Seg.entriesFrom]
  · rw [List.concat_eq_append] at hcat
    subst hcat
    have hr : base ≤ r.offset := hbase r (by simp)
    have hnc : Gen.Recover.corruptCmp.evalInt r.offset base = false := by
      simp [Gen.Recover.corruptCmp, Cmp.evalInt]; omega
    rw [entriesFrom_getLast]
    simp [hnc, entriesFrom_length]

/-- The last index entry of `rs` describes the last record of the log `rs ++ t`. -/
theorem lastMatches_entries (fs : FS) (seg0 : MSeg) (rs : List Rec) (t : List Chunk)
    (hlog : fs.log? seg0.fname = some (rs.map Chunk.msg ++ t)) :
    lastMatches fs seg0 (Seg.entriesFrom 0 rs).getLast? = true := by
  rcases List.eq_nil_or_concat rs with hnil | ⟨a, r, hcat⟩
  · subst hnil; simp [Seg.entriesFrom, lastMatches]
  · rw [List.concat_eq_append] at hcat
    subst hcat
    rw [entriesFrom_getLast]
    simp only [lastMatches, hlog, Option.getD_some, chunkAt_last]
    simp

/-- Core of `open_reconciles`: `setupIndex` after `newIndex`, on a well-formed index whose written
slots are the entries of `rs`. -/
theorem setupRestM_reconciles (sh : Shape) (hv : sh.validateOnOpen = true) (base : Int) (sfx : Sfx)
    (rs : List Rec) (t : List Chunk) (ix1 : IdxFile) (s1 s' : St) (seg : MSeg)
    (hlog1 : s1.fs.log? ⟨base, sfx⟩ = some (rs.map Chunk.msg ++ t))
    (hix1 : s1.fs.idx? ⟨base, sfx⟩ = some ix1) (hslots1 : ix1.slots = Seg.entriesFrom 0 rs) (hfit1 : rs.length ≤ ix1.size)
    (hbase : ∀ r ∈ rs, base ≤ r.offset) (ht : ∀ c ∈ t, 0 < c.size)
    (hrun : setupRestM sh { base := base, sfx := sfx, position := chunksSize (rs.map Chunk.msg ++ t) } s1 = .ok seg s') :
    AlignedSeg s'.fs seg rs ∧ seg.fname = ⟨base, sfx⟩ := by
  unfold setupRestM at hrun
  obtain ⟨fs, s2, h2, hrun⟩ := bind_ok hrun
  obtain ⟨e2, e2'⟩ := getFS_ok h2
  rw [e2', e2] at hrun
  have hidxOf : idxOf s1.fs ⟨base, sfx⟩ = ix1 := by simp [idxOf, hix1]
  simp only [MSeg.fname] at hrun
  rw [hidxOf, initPosition_entries ix1 base rs hslots1 hfit1 hbase] at hrun
  have hm := lastMatches_entries s1.fs { base := base, sfx := sfx, position := chunksSize (rs.map Chunk.msg ++ t) } rs t hlog1
  simp only [hm, Bool.not_true, Bool.and_false, Bool.false_eq_true, if_false] at hrun
  exact setupFinM_aligned sh hv base sfx rs t ix1 s1 s' seg _ _ hlog1 hix1 hslots1 hfit1 ht rfl rfl hrun

/-- OPENING A SEGMENT ON THE REPAIRED CODE RECONCILES LOG AND INDEX. Whatever follows the indexed
records `rs` in the log file — whole message sets whose index entries were never written (the
process died between `write(log)` and `writeEntries(index)`), or the incomplete bytes of a torn
write — is cut off, and the log file, the index file and the in-memory position, index position
and first/last offset agree on `rs`. -/
theorem open_reconciles (sh : Shape) (hv : sh.validateOnOpen = true) (base : Int) (sfx : Sfx)
    (rs : List Rec) (t : List Chunk) (ix : IdxFile) (s s' : St) (seg : MSeg)
    (hlog : s.fs.log? ⟨base, sfx⟩ = some (rs.map Chunk.msg ++ t))
    (hidx : s.fs.idx? ⟨base, sfx⟩ = some ix) (hslots : ix.slots = Seg.entriesFrom 0 rs) (hfit : rs.length ≤ ix.size)
    (hbase : ∀ r ∈ rs, base ≤ r.offset) (ht : ∀ c ∈ t, 0 < c.size)
    (hrun : setupIndexM sh { base := base, sfx := sfx, position := chunksSize (rs.map Chunk.msg ++ t) } s = .ok seg s') :
    AlignedSeg s'.fs seg rs ∧ seg.fname = ⟨base, sfx⟩ := by
  unfold setupIndexM at hrun
  obtain ⟨_, s1, h1, hrun⟩ := bind_ok hrun
  obtain ⟨hlogs1, hidx1⟩ := newIndexM_ok h1 (by simpa [MSeg.fname] using hidx)
  simp only [MSeg.fname] at hlogs1 hidx1
  let ix1 : IdxFile := if ix.size = 0 then { ix with size := idxSlots } else ix
  have hix1 : s1.fs.idx? ⟨base, sfx⟩ = some ix1 := hidx1
  have hslots1 : ix1.slots = Seg.entriesFrom 0 rs := by
    simp only [ix1]; split <;> simpa using hslots
  have hfit1 : rs.length ≤ ix1.size := by
    simp only [ix1]; split
    · rename_i hz; have : rs.length = 0 := by omega
      simp [this]
    · exact hfit
  have hlog1 : s1.fs.log? ⟨base, sfx⟩ = some (rs.map Chunk.msg ++ t) := by rw [hlogs1]; exact hlog
  exact setupRestM_reconciles sh hv base sfx rs t ix1 s1 s' seg hlog1 hix1 hslots1 hfit1 hbase ht hrun

/-! ### Crash states of `WriteMessageSet` -/

theorem bind_crashed {α β} {m : M α} {f : α → M β} {s s' : St}
    (h : (m >>= f) s = .crashed s') : m s = .crashed s' ∨ ∃ a s1, m s = .ok a s1 ∧ f a s1 = .crashed s' := by
  change M.bind m f s = .crashed s' at h
  unfold M.bind at h
  cases hm : m s with
  | ok a s1 => rw [hm] at h; exact Or.inr ⟨a, s1, rfl, h⟩
  | crashed s1 => rw [hm] at h; simp at h; exact Or.inl (by rw [h])
  | fail e s1 => rw [hm] at h; simp at h

theorem eff_crashed {e : Eff} {s s' : St} (h : eff e s = .crashed s') : s' = s := by
  unfold eff tick at h
  by_cases hb : s.budget = 0
  · simp [hb] at h; exact h.symm
  · simp [hb] at h

theorem mark_crashed {n : String} {s s' : St} (h : mark n s = .crashed s') : s' = s := by
  unfold mark tick at h
  by_cases hb : s.budget = 0
  · simp [hb] at h; exact h.symm
  · simp [hb] at h

theorem pure_crashed {α} {a : α} {s s' : St} (h : (pure a : M α) s = .crashed s') : False := by
  change M.pure a s = .crashed s' at h
  simp [M.pure] at h

theorem writeLog_apply (fs : FS) (f : FName) (c cs : List Chunk) (h : fs.log? f = some c) :
    ((Eff.writeLog f cs).apply fs).log? f = some (c ++ cs) ∧ (∀ g, ((Eff.writeLog f cs).apply fs).idx? g = fs.idx? g) := by
  simp only [Eff.apply, h]
  exact ⟨by simp [FS.log?, lookupF_insertF_self], fun g => rfl⟩

theorem writeIdx_apply (fs : FS) (f : FName) (k : Nat) (es : List Entry) (ix : IdxFile) (h : fs.idx? f = some ix) :
    ((Eff.writeIdx f k es).apply fs).idx? f =
      some { slots := ix.slots.take k ++ es,
             size := if k + es.length ≥ ix.size then max (ix.size + idxSlots) (k + es.length) else ix.size } ∧
    (∀ g, ((Eff.writeIdx f k es).apply fs).log? g = fs.log? g) := by
  simp only [Eff.apply, h]
  exact ⟨by simp [FS.idx?, lookupF_insertF_self], fun g => rfl⟩

/-- What a crash inside `WriteMessageSet` leaves of a segment that was aligned on `rs`, when
`recs` are written with the entries `commitLog.Append` computes for them: the old files; the log
with `recs` appended and the old index (THE GAP); or both written. -/
inductive WriteCrashState (fs : FS) (f : FName) (rs recs : List Rec) : Prop where
  | untouched (ix : IdxFile) (hl : fs.log? f = some (rs.map Chunk.msg)) (hi : fs.idx? f = some ix)
      (hs : ix.slots = Seg.entriesFrom 0 rs) (hf : rs.length ≤ ix.size)
  | logOnly (ix : IdxFile) (hl : fs.log? f = some (rs.map Chunk.msg ++ recs.map Chunk.msg)) (hi : fs.idx? f = some ix)
      (hs : ix.slots = Seg.entriesFrom 0 rs) (hf : rs.length ≤ ix.size)
  | both (ix : IdxFile) (hl : fs.log? f = some ((rs ++ recs).map Chunk.msg)) (hi : fs.idx? f = some ix)
      (hs : ix.slots = Seg.entriesFrom 0 (rs ++ recs)) (hf : (rs ++ recs).length ≤ ix.size)

theorem writeM_crash (sh : Shape) (hw : sh.writeLogFirst = true) (fs0 : FS) (seg : MSeg) (rs recs : List Rec)
    (hal : AlignedSeg fs0 seg rs) (s s' : St) (hs : s.fs = fs0)
    (hrun : writeM sh seg recs (Seg.entriesFrom seg.position recs) s = .crashed s') :
    WriteCrashState s'.fs seg.fname rs recs := by
  obtain ⟨ix, hi, hslots, hfit⟩ := hal.idx
  have hl := hal.log
  unfold writeM at hrun
  simp only [hw, if_true] at hrun
  -- log write
  rcases bind_crashed hrun with h | ⟨seg1, s1, h1, hrun⟩
  · -- crashed inside writeLogM: only before its single effect
    unfold writeLogM at h
    rcases bind_crashed h with h | ⟨_, s1, h1, h⟩
    · have := eff_crashed h; subst this
      exact .untouched ix (hs ▸ hl) (hs ▸ hi) hslots hfit
    · exact absurd h (fun h => pure_crashed h)
  · -- the log is written
    unfold writeLogM at h1
    obtain ⟨_, s0, h0, h1⟩ := bind_ok h1
    have e0 := eff_ok h0
    obtain ⟨hseg1, hs1⟩ := pure_ok h1
    obtain ⟨hl1, hi1⟩ := writeLog_apply s.fs seg.fname _ (recs.map Chunk.msg) (hs ▸ hl)
    have hfs1 : s1.fs = (Eff.writeLog seg.fname (recs.map Chunk.msg)).apply s.fs := by rw [hs1, e0]
    have hname : seg1.fname = seg.fname := by rw [hseg1]; simp only [MSeg.fname]; split <;> (try split) <;> rfl
    have hpos : seg1.idxPos = seg.idxPos := by rw [hseg1]; split <;> (try split) <;> rfl
    rcases bind_crashed hrun with h | ⟨_, s2, h2, hrun⟩
    · have := mark_crashed h; subst this
      exact .logOnly ix (by rw [hfs1]; exact hl1) (by rw [hfs1, hi1]; exact hs ▸ hi) hslots hfit
    · have hfs2 : s2.fs = s1.fs := mark_ok h2
      unfold writeIdxM at hrun
      rcases bind_crashed hrun with h | ⟨_, s3, h3, hrun⟩
      · have := eff_crashed h; subst this
        exact .logOnly ix (by rw [hfs2, hfs1]; exact hl1) (by rw [hfs2, hfs1, hi1]; exact hs ▸ hi) hslots hfit
      · -- the index is written
        have e3 := eff_ok h3
        have hi2 : s2.fs.idx? seg.fname = some ix := by rw [hfs2, hfs1, hi1]; exact hs ▸ hi
        obtain ⟨hi3, hl3⟩ := writeIdx_apply s2.fs seg.fname seg1.idxPos (Seg.entriesFrom seg.position recs) ix hi2
        have hk : seg1.idxPos = ix.slots.length := by rw [hpos, hal.idxPos, hslots, entriesFrom_length]
        have hslots3 : ix.slots.take seg1.idxPos ++ Seg.entriesFrom seg.position recs = Seg.entriesFrom 0 (rs ++ recs) := by
          rw [hk, List.take_length, hslots, entriesFrom_append, hal.position, Nat.zero_add]
        rcases bind_crashed hrun with h | ⟨_, s4, _, h⟩
        · have := mark_crashed h; subst this
          refine .both _ ?_ (by rw [e3, hname]; exact hi3) hslots3 ?_
          · rw [e3, hname, hl3, hfs2, hfs1]; simpa using hl1
          · have hkl : seg1.idxPos = rs.length := by rw [hk, hslots, entriesFrom_length]
            show (rs ++ recs).length ≤ (if seg1.idxPos + (Seg.entriesFrom seg.position recs).length ≥ ix.size
              then max (ix.size + idxSlots) (seg1.idxPos + (Seg.entriesFrom seg.position recs).length) else ix.size)
            rw [entriesFrom_length, hkl, List.length_append]
            split
            · exact Nat.le_max_right _ _
            · omega
        · exact absurd h (fun h => pure_crashed h)

theorem msgs_positive (rs : List Rec) : ∀ c ∈ rs.map Chunk.msg, 0 < c.size := by
  intro c hc
  obtain ⟨r, _, rfl⟩ := List.mem_map.mp hc
  exact rec_size_pos r

/-- `WriteMessageSet` IS CRASH-ATOMIC ON THE REPAIRED CODE: a segment aligned on `rs` receives the
message set `recs`; the process is killed at ANY step of `WriteMessageSet`; a new process opens
the segment (position = file size). Then log, index and counters agree on `rs` (the append never
happened) or on `rs ++ recs` (it happened completely). -/
theorem write_crash_atomic (sh : Shape) (hw : sh.writeLogFirst = true) (hv : sh.validateOnOpen = true)
    (fs0 : FS) (seg : MSeg) (rs recs : List Rec) (hal : AlignedSeg fs0 seg rs)
    (hbase : ∀ r ∈ rs ++ recs, seg.base ≤ r.offset)
    (s s' : St) (hs : s.fs = fs0)
    (hcrash : writeM sh seg recs (Seg.entriesFrom seg.position recs) s = .crashed s')
    (s2 s3 : St) (hsame : s2.fs = s'.fs) (seg' : MSeg)
    (hopen : setupIndexM sh { base := seg.base, sfx := seg.sfx, position := s2.fs.logSize seg.fname } s2 = .ok seg' s3) :
    AlignedSeg s3.fs seg' rs ∨ AlignedSeg s3.fs seg' (rs ++ recs) := by
  have hst := writeM_crash sh hw fs0 seg rs recs hal s s' hs hcrash
  rw [← hsame] at hst
  have hname : seg.fname = ⟨seg.base, seg.sfx⟩ := rfl
  cases hst with
  | untouched ix hl hi hslots hf =>
    left
    have hpos : s2.fs.logSize seg.fname = chunksSize (rs.map Chunk.msg ++ []) := by simp [FS.logSize, hl]
    rw [hpos] at hopen
    exact (open_reconciles sh hv seg.base seg.sfx rs [] ix s2 s3 seg' (by simpa [hname] using hl) (hname ▸ hi) hslots hf
      (fun r hr => hbase r (List.mem_append_left _ hr)) (by simp) hopen).1
  | logOnly ix hl hi hslots hf =>
    left
    have hpos : s2.fs.logSize seg.fname = chunksSize (rs.map Chunk.msg ++ recs.map Chunk.msg) := by simp [FS.logSize, hl]
    rw [hpos] at hopen
    exact (open_reconciles sh hv seg.base seg.sfx rs (recs.map Chunk.msg) ix s2 s3 seg' (hname ▸ hl) (hname ▸ hi) hslots hf
      (fun r hr => hbase r (List.mem_append_left _ hr)) (msgs_positive recs) hopen).1
  | both ix hl hi hslots hf =>
    right
    have hpos : s2.fs.logSize seg.fname = chunksSize ((rs ++ recs).map Chunk.msg ++ []) := by simp [FS.logSize, hl]
    rw [hpos] at hopen
    exact (open_reconciles sh hv seg.base seg.sfx (rs ++ recs) [] ix s2 s3 seg' (by simpa [hname] using hl) (hname ▸ hi) hslots hf
      hbase (by simp) hopen).1

/-! ### Left-over `.cleaned` / `.truncated` files -/

theorem lookupF_eraseF_self {α} (f : FName) : ∀ l : List (FName × α), lookupF f (eraseF f l) = none := by
  intro l
  induction l with
  | nil => simp [eraseF, lookupF]
  | cons p rest ih =>
    obtain ⟨g, w⟩ := p
    unfold eraseF at *
    by_cases h : g = f
    · simp [List.filter, h]; simpa using ih
    · simp [List.filter, h, lookupF]; simpa using ih

theorem newIndexM_fresh {f : FName} {s s' : St} {u : Unit}
    (hrun : newIndexM f s = .ok u s') (hidx : s.fs.idx? f = none) :
    (∀ g, s'.fs.log? g = s.fs.log? g) ∧ s'.fs.idx? f = some { slots := [], size := idxSlots } := by
  unfold newIndexM at hrun
  obtain ⟨_, s1, h1, hrun⟩ := bind_ok hrun
  obtain ⟨_, s2, h2, hrun⟩ := bind_ok hrun
  obtain ⟨fs, s3, h3, hrun⟩ := bind_ok hrun
  have e1 := eff_ok h1
  have e2 := mark_ok h2
  obtain ⟨e3, e3'⟩ := getFS_ok h3
  have hfs1 : s1.fs = { s.fs with idxs := insertF f { slots := [], size := 0 } s.fs.idxs } := by
    rw [e1]; simp only [Eff.apply, hidx]
  have hi2 : s2.fs.idx? f = some { slots := [], size := 0 } := by
    rw [e2, hfs1]; simp [FS.idx?, lookupF_insertF_self]
  rw [e3', e3, hi2] at hrun
  simp only [if_true] at hrun
  obtain ⟨_, s4, h4, hrun⟩ := bind_ok hrun
  have e4 := eff_ok h4
  have e5 := mark_ok hrun
  have hfs' : s'.fs = { s2.fs with idxs := insertF f { slots := [], size := idxSlots } s2.fs.idxs } := by
    rw [e5, e4]; simp only [Eff.apply, hi2, if_true]
  rw [hfs']
  refine ⟨fun g => ?_, by simp [FS.idx?, lookupF_insertF_self]⟩
  show s2.fs.log? g = s.fs.log? g
  rw [e2, hfs1]; rfl

/-- `Cleaned()` / `Truncated()` ON THE REPAIRED CODE START FROM SCRATCH: whatever files with that
name a crashed clean or truncate left behind, the new suffixed segment is empty — log file,
index file and counters. (The unrepaired code reopens them in append mode.) -/
theorem suffixed_starts_empty (sh : Shape) (hr : sh.removeStaleSuffix = true) (hv : sh.validateOnOpen = true)
    (base : Int) (sfx : Sfx) (s s' : St) (seg : MSeg)
    (hrun : suffixedM sh base sfx s = .ok seg s') : AlignedSeg s'.fs seg [] ∧ seg.fname = ⟨base, sfx⟩ := by
  unfold suffixedM at hrun
  simp only [hr, if_true] at hrun
  obtain ⟨_, sA, hA, hrun⟩ := bind_ok hrun
  -- after the removal block neither file exists
  have hgone : sA.fs.log? ⟨base, sfx⟩ = none ∧ sA.fs.idx? ⟨base, sfx⟩ = none := by
    unfold removeStaleM at hA
    obtain ⟨fs, s1, h1, hA⟩ := bind_ok hA
    obtain ⟨e1, e1'⟩ := getFS_ok h1
    rw [e1', e1] at hA
    obtain ⟨_, s2, h2, hA⟩ := bind_ok hA
    have hl2 : s2.fs.log? ⟨base, sfx⟩ = none ∧ s2.fs.idx? ⟨base, sfx⟩ = s.fs.idx? ⟨base, sfx⟩ := by
      by_cases hex : (s.fs.log? ⟨base, sfx⟩).isSome
      · simp only [hex, if_true] at h2
        rw [eff_ok h2]
        exact ⟨by simp [Eff.apply, FS.log?, lookupF_eraseF_self], rfl⟩
      · simp only [hex] at h2
        obtain ⟨_, e⟩ := pure_ok h2
        rw [e]
        exact ⟨by simpa using hex, rfl⟩
    by_cases hex : (s.fs.idx? ⟨base, sfx⟩).isSome
    · simp only [hex, if_true] at hA
      rw [eff_ok hA]
      exact ⟨by simp only [Eff.apply, FS.log?]; exact hl2.1, by simp [Eff.apply, FS.idx?, lookupF_eraseF_self]⟩
    · simp only [hex] at hA
      obtain ⟨_, e⟩ := pure_ok hA
      rw [e]
      exact ⟨hl2.1, by rw [hl2.2]; simpa using hex⟩
  -- newSegment on the missing files
  unfold newSegmentM at hrun
  obtain ⟨fs, s1, h1, hrun⟩ := bind_ok hrun
  obtain ⟨e1, e1'⟩ := getFS_ok h1
  rw [e1'] at hrun
  simp only [Bool.false_and, Bool.false_eq_true, if_false] at hrun
  obtain ⟨_, s2, h2, hrun⟩ := bind_ok hrun
  obtain ⟨_, s3, h3, hrun⟩ := bind_ok hrun
  obtain ⟨fs3, s4, h4, hrun⟩ := bind_ok hrun
  obtain ⟨e4, e4'⟩ := getFS_ok h4
  rw [e4', e4] at hrun
  obtain ⟨seg1, s5, h5, hrun⟩ := bind_ok hrun
  obtain ⟨_, s6, h6, hrun⟩ := bind_ok hrun
  obtain ⟨hseg, hs'⟩ := pure_ok hrun
  have hfs2 : s2.fs = { sA.fs with logs := insertF ⟨base, sfx⟩ [] sA.fs.logs } := by
    rw [eff_ok h2]; simp only [Eff.apply, hgone.1]
  have hfs3 : s3.fs = s2.fs := mark_ok h3
  have hl3 : s3.fs.log? ⟨base, sfx⟩ = some ([].map Chunk.msg ++ []) := by
    rw [hfs3, hfs2]; simp [FS.log?, lookupF_insertF_self]
  have hi3 : s3.fs.idx? ⟨base, sfx⟩ = none := by rw [hfs3, hfs2]; exact hgone.2
  have hpos : s3.fs.logSize ⟨base, sfx⟩ = chunksSize ([].map Chunk.msg ++ []) := by simp [FS.logSize, hl3]
  rw [hpos] at h5
  unfold setupIndexM at h5
  obtain ⟨_, s7, h7, h5⟩ := bind_ok h5
  obtain ⟨hlogs7, hidx7⟩ := newIndexM_fresh h7 (by simpa [MSeg.fname] using hi3)
  simp only [MSeg.fname] at hlogs7 hidx7
  have hal := setupRestM_reconciles sh hv base sfx [] [] _ s7 s5 seg1 (by rw [hlogs7]; exact hl3) hidx7
    (by simp [Seg.entriesFrom]) (by simp) (by simp) (by simp) h5
  rw [hseg, hs', mark_ok h6]
  exact hal

/-! ### A stale index (crash between the two renames of a segment replacement) -/

theorem leadingRecs_msgs (rs : List Rec) : leadingRecs (rs.map Chunk.msg) = rs := by
  induction rs with
  | nil => rfl
  | cons r tl ih => simp [leadingRecs, ih]

theorem rebuild_go_ok (f : FName) : ∀ (es : List Entry) (k : Nat) (s s' : St) (ix : IdxFile) (u : Unit),
    rebuildIndexM.go f k es s = .ok u s' → s.fs.idx? f = some ix → ix.slots.length = k → ix.slots.length ≤ ix.size →
    (∀ g, s'.fs.log? g = s.fs.log? g) ∧
    ∃ ix', s'.fs.idx? f = some ix' ∧ ix'.slots = ix.slots ++ es ∧ ix'.slots.length ≤ ix'.size := by
  intro es
  induction es with
  | nil =>
    intro k s s' ix u hrun hi hk hf
    unfold rebuildIndexM.go at hrun
    obtain ⟨_, e⟩ := pure_ok hrun
    rw [e]
    exact ⟨fun g => rfl, ix, hi, by simp, hf⟩
  | cons e rest ih =>
    intro k s s' ix u hrun hi hk hf
    unfold rebuildIndexM.go at hrun
    obtain ⟨_, s1, h1, hrun⟩ := bind_ok hrun
    obtain ⟨_, s2, h2, hrun⟩ := bind_ok hrun
    obtain ⟨hi1, hl1⟩ := writeIdx_apply s.fs f k [e] ix hi
    have hfs1 : s1.fs = (Eff.writeIdx f k [e]).apply s.fs := eff_ok h1
    have hfs2 : s2.fs = s1.fs := mark_ok h2
    have hi2 : s2.fs.idx? f = some (IdxFile.mk (ix.slots ++ [e])
        (if k + 1 ≥ ix.size then max (ix.size + idxSlots) (k + 1) else ix.size)) := by
      rw [hfs2, hfs1, hi1, ← hk, List.take_length]; simp
    obtain ⟨hl', ix', hi', hs', hf'⟩ := ih (k + 1) s2 s' _ u hrun hi2 (by simp [hk]) (by
      simp only [List.length_append, List.length_singleton]
      split
      · rw [hk]; exact Nat.le_max_right _ _
      · omega)
    refine ⟨fun g => by rw [hl', hfs2, hfs1, hl1], ix', hi', by rw [hs']; simp, hf'⟩

/-- OPENING A SEGMENT WHOSE INDEX DOES NOT BELONG TO ITS LOG, on the repaired code: when the last
index entry does not describe the record at its position (or lies below the base offset), the
index is rebuilt from the log and everything agrees on the records of the log. This is the state
left by a crash between the two renames of `Replace` (new log under the old index). -/
theorem open_rebuilds_stale_index (sh : Shape) (hv : sh.validateOnOpen = true) (base : Int) (sfx : Sfx)
    (rs : List Rec) (ix : IdxFile) (s s' : St) (seg : MSeg)
    (hlog : s.fs.log? ⟨base, sfx⟩ = some (rs.map Chunk.msg))
    (hidx : s.fs.idx? ⟨base, sfx⟩ = some ix) (hwf : IdxWF ix)
    (hstale : lastMatches s.fs { base := base, sfx := sfx, position := chunksSize (rs.map Chunk.msg) } ix.slots.getLast? = false)
    (hbase : ∀ r ∈ rs, base ≤ r.offset)
    (hrun : setupIndexM sh { base := base, sfx := sfx, position := chunksSize (rs.map Chunk.msg) } s = .ok seg s') :
    AlignedSeg s'.fs seg rs ∧ seg.fname = ⟨base, sfx⟩ := by
  unfold setupIndexM at hrun
  obtain ⟨_, s1, h1, hrun⟩ := bind_ok hrun
  obtain ⟨hlogs1, hidx1⟩ := newIndexM_ok h1 (by simpa [MSeg.fname] using hidx)
  simp only [MSeg.fname] at hlogs1 hidx1
  let ix1 : IdxFile := if ix.size = 0 then { ix with size := idxSlots } else ix
  have hix1 : s1.fs.idx? ⟨base, sfx⟩ = some ix1 := hidx1
  have hslots1 : ix1.slots = ix.slots := by simp only [ix1]; split <;> rfl
  have hwf1 : IdxWF ix1 := by
    refine ⟨?_, by rw [hslots1]; exact hwf.nonzero⟩
    simp only [ix1]; split
    · rename_i hz; have := hwf.fits; simp; omega
    · exact hwf.fits
  have hlog1 : s1.fs.log? ⟨base, sfx⟩ = some (rs.map Chunk.msg) := by rw [hlogs1]; exact hlog
  have hstale1 : lastMatches s1.fs { base := base, sfx := sfx, position := chunksSize (rs.map Chunk.msg) } ix.slots.getLast? = false := by
    unfold lastMatches at hstale ⊢
    simp only [MSeg.fname] at hstale ⊢
    rw [hlog1]; rw [hlog] at hstale; exact hstale
  -- both ways lead to the rebuild
  have hagain : ∃ n, setupAgainM sh { base := base, sfx := sfx, position := chunksSize (rs.map Chunk.msg) } n s1 = .ok seg s' := by
    unfold setupRestM at hrun
    obtain ⟨fs, s2, h2, hrun⟩ := bind_ok hrun
    obtain ⟨e2, e2'⟩ := getFS_ok h2
    rw [e2', e2] at hrun
    have hidxOf : idxOf s1.fs ⟨base, sfx⟩ = ix1 := by simp [idxOf, hix1]
    simp only [MSeg.fname] at hrun
    rw [hidxOf, initPosition_spec ix1 base hwf1, hslots1] at hrun
    cases hl : ix.slots.getLast? with
    | none => rw [hl] at hstale1; simp [lastMatches] at hstale1
    | some e =>
      rw [hl] at hrun hstale1
      dsimp only at hrun
      by_cases hc : Gen.Recover.corruptCmp.evalInt e.offset base = true
      · simp only [hc, if_true] at hrun
        exact ⟨_, hrun⟩
      · simp only [hc, hv, hstale1, Bool.not_false, Bool.and_self, if_true, Bool.false_eq_true, if_false] at hrun
        exact ⟨_, hrun⟩
  obtain ⟨n, hrun⟩ := hagain
  unfold setupAgainM at hrun
  obtain ⟨_, s2, h2, hrun⟩ := bind_ok hrun
  -- the rebuild
  unfold rebuildIndexM at h2
  simp only [MSeg.fname] at h2
  obtain ⟨_, a1, g1, h2⟩ := bind_ok h2
  obtain ⟨_, a2, g2, h2⟩ := bind_ok h2
  obtain ⟨_, a3, g3, h2⟩ := bind_ok h2
  obtain ⟨_, a4, g4, h2⟩ := bind_ok h2
  obtain ⟨fs5, a5, g5, h2⟩ := bind_ok h2
  obtain ⟨e5, e5'⟩ := getFS_ok g5
  rw [e5', e5] at h2
  have hfa1 : a1.fs = (Eff.shrinkIdx ⟨base, sfx⟩ n).apply s1.fs := eff_ok g1
  have hfa2 : a2.fs = a1.fs := mark_ok g2
  have hfa3 : a3.fs = (Eff.removeIdx ⟨base, sfx⟩).apply a2.fs := eff_ok g3
  have hl3 : ∀ g, a3.fs.log? g = s1.fs.log? g := by
    intro g; rw [hfa3, hfa2, hfa1]; simp only [Eff.apply, FS.log?, hix1]
  have hi3 : a3.fs.idx? ⟨base, sfx⟩ = none := by
    rw [hfa3]; simp [Eff.apply, FS.idx?, lookupF_eraseF_self]
  obtain ⟨hl4, hi4⟩ := newIndexM_fresh g4 hi3
  have hlog4 : a4.fs.log? ⟨base, sfx⟩ = some (rs.map Chunk.msg) := by rw [hl4, hl3]; exact hlog1
  rw [hlog4] at h2
  simp only [Option.getD_some, leadingRecs_msgs] at h2
  obtain ⟨hl6, ix6, hi6, hs6, hf6⟩ := rebuild_go_ok ⟨base, sfx⟩ _ 0 a4 s2 _ _ h2 hi4 rfl (by simp)
  simp only [List.nil_append] at hs6
  have hlog6 : s2.fs.log? ⟨base, sfx⟩ = some (rs.map Chunk.msg ++ []) := by rw [hl6, hlog4]; simp
  -- initialise again and finish
  obtain ⟨fs7, s3, h3, hrun⟩ := bind_ok hrun
  obtain ⟨e3, e3'⟩ := getFS_ok h3
  rw [e3', e3] at hrun
  have hidxOf6 : idxOf s2.fs ⟨base, sfx⟩ = ix6 := by simp [idxOf, hi6]
  simp only [MSeg.fname] at hrun
  have hfit6 : rs.length ≤ ix6.size := by rw [hs6, entriesFrom_length] at hf6; exact hf6
  rw [hidxOf6, initPosition_entries ix6 base rs hs6 hfit6 hbase] at hrun
  dsimp only at hrun
  have hpos : chunksSize (rs.map Chunk.msg) = chunksSize (rs.map Chunk.msg ++ []) := by simp
  rw [hpos] at hrun
  exact setupFinM_aligned sh hv base sfx rs [] ix6 s2 s' seg _ _ hlog6 hi6 hs6 hfit6 (by simp) rfl rfl hrun

end Liftbridge.Proofs.Recover
