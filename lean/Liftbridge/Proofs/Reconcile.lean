/-
The two epoch-boundary conventions of the commit log and what the follower's
`Truncate(answer + 1)` does under each (C02, DESIGN §4 steps 2–3, §6 F-C02-a).

* `NewLeaderEpoch(e)` = `Assign(e, NewestOffset())` records the LAST offset of the epochs before
  `e` ("elected" convention, `CacheInvElected`);
* `append` = `Assign(entry.LeaderEpoch, entry.Offset)` records the FIRST offset of epoch `e`
  ("replicated" convention, `CacheInvReplicated`).
-/
import Liftbridge.Model.Log
import Liftbridge.Proofs.Log
import Liftbridge.Proofs.Epochs

namespace Liftbridge.Proofs.Reconcile
open Liftbridge Liftbridge.Log Liftbridge.Log.CLog Liftbridge.Proofs.Log Liftbridge.Proofs.Epochs

/-- Last offset among the records of epochs `< e` (-1 if there is none). -/
def lastOffLT (rs : List Rec) (e : Nat) : Int :=
  match (rs.filter (fun r => decide (r.epoch < e))).getLast? with
  | some r => r.offset
  | none => -1

/-- Last offset among the records of epochs `≤ e` (-1 if there is none). -/
def lastOffLE (rs : List Rec) (e : Nat) : Int :=
  match (rs.filter (fun r => decide (r.epoch ≤ e))).getLast? with
  | some r => r.offset
  | none => -1

/-- First offset among the records of epochs `≥ e`. -/
def firstOffGE (rs : List Rec) (e : Nat) : Option Int :=
  (rs.find? (fun r => decide (e ≤ r.epoch))).map (·.offset)

/-- "Elected" convention: the cache maps an epoch to the last offset of the epochs before it. -/
def CacheInvElected (l : CLog) : Prop := ∀ p ∈ l.epochs, p.2 = lastOffLT l.abs p.1

/-- "Replicated" convention: the cache maps an epoch to the first offset of that epoch. -/
def CacheInvReplicated (l : CLog) : Prop := ∀ p ∈ l.epochs, firstOffGE l.abs p.1 = some p.2

instance (l : CLog) : Decidable (CacheInvElected l) := by unfold CacheInvElected; exact inferInstance
instance (l : CLog) : Decidable (CacheInvReplicated l) := by unfold CacheInvReplicated; exact inferInstance

/-! ### what each assignment rule establishes -/

/-- `NewLeaderEpoch(e)` on a log that holds only older epochs appends `(e, newest)`, and `newest`
is the last offset of the epochs before `e`: the elected convention. -/
theorem newLeaderEpoch_elected {l : CLog} (h : Inv l) {e : Nat}
    (hold : ∀ r ∈ l.abs, r.epoch < e) (he : l.epochs.latestEpoch < e) (ho : l.epochs.latestOffset ≤ l.newest)
    (hempty : l.abs = [] → l.newest = -1) :
    (l.newLeaderEpoch e).epochs = l.epochs ++ [(e, l.newest)] ∧ l.newest = lastOffLT l.abs e := by
  refine ⟨?_, ?_⟩
  · unfold newLeaderEpoch
    simp only [assign_eq, he, ho, and_self, if_true]
  · unfold lastOffLT
    have hf : l.abs.filter (fun r => decide (r.epoch < e)) = l.abs := by
      apply List.filter_eq_self.mpr
      intro r hr; simpa using hold r hr
    rw [hf]
    cases hl : l.abs.getLast? with
    | none =>
      have : l.abs = [] := List.getLast?_eq_none_iff.mp hl
      exact hempty this
    | some r =>
      have := nextOffset_last h hl
      simp only [newest]; omega

/-- Appending (e.g. by replication) a first record of a newer epoch `e` records `(e, its offset)`,
the first offset of epoch `e`: the replicated convention. -/
theorem appendSet_replicated {l l' : CLog} (h : Inv l) {r : Rec} {offs : List Int}
    (hold : ∀ x ∈ l.abs, x.epoch < r.epoch) (he : l.epochs.latestEpoch < r.epoch)
    (ho : l.epochs.latestOffset ≤ r.offset) (ha : l.appendSet [r] = .ok (l', offs)) :
    l'.epochs = l.epochs ++ [(r.epoch, r.offset)] ∧ firstOffGE l'.abs r.epoch = some r.offset := by
  have habs := (appendSet_full h ha).1
  refine ⟨?_, ?_⟩
  · unfold appendSet write at ha
    simp only [List.isEmpty_cons, Bool.false_eq_true, if_false, Res.ok.injEq, Prod.mk.injEq] at ha
    rw [← ha.1]
    simp only [assignEpochs, Gen.Log.appendEpochCmp, Cmp.evalNat, gt_iff_lt]
    have hce : l.checkSplit.epochs = l.epochs := by unfold checkSplit roll; split <;> rfl
    rw [hce]
    simp only [he, decide_true, if_true, assign_eq, ho, and_self]
  · unfold firstOffGE
    rw [habs, List.find?_append]
    have : l.abs.find? (fun x => decide (r.epoch ≤ x.epoch)) = none := by
      apply List.find?_eq_none.mpr
      intro x hx
      have := hold x hx
      simp only [decide_eq_true_eq]; omega
    rw [this]
    simp

/-! ### truncation under the elected convention (KIP-101, one round) -/

theorem offset_nonneg {l : CLog} (h : Inv l) : ∀ r ∈ l.abs, 0 ≤ r.offset := by
  intro r hr
  unfold abs at hr
  obtain ⟨s, hs, hrs⟩ := List.mem_flatMap.mp hr
  have := h.base_le s hs
  have := this.2 r hrs
  omega

/-- Follower log `F = P ++ SF`, leader log `L = P ++ SL` (`P` the common prefix), `e` an upper bound
of the epochs in `P` (the follower's last epoch). If — whenever the follower has a suffix of its
own — the leader's own suffix consists of later epochs only, then truncating the follower to
`(last offset of the leader's records of epochs ≤ e) + 1` leaves a prefix of the leader's log. -/
theorem truncate_prefix_elected {F L : CLog} (hF : Inv F) {P SF SL : List Rec} {e : Nat}
    (hFabs : F.abs = P ++ SF) (hLabs : L.abs = P ++ SL)
    (hPe : ∀ r ∈ P, r.epoch ≤ e) (hdiv : SF ≠ [] → ∀ r ∈ SL, e < r.epoch) :
    (F.truncate (lastOffLE L.abs e + 1)).abs <+: L.abs := by
  rw [truncate_abs hF, hLabs]
  have hsorted : Sorted (P ++ SF) := hFabs ▸ hF.sorted
  by_cases hsf : SF = []
  · subst hsf
    simp only [List.append_nil] at hFabs hsorted
    rw [hFabs, filter_lt_eq_takeWhile _ _ hsorted]
    exact (List.takeWhile_prefix _).trans (List.prefix_append _ _)
  · have hSL := hdiv hsf
    have hfil : (P ++ SL).filter (fun r => decide (r.epoch ≤ e)) = P := by
      rw [List.filter_append]
      have h1 : P.filter (fun r => decide (r.epoch ≤ e)) = P :=
        List.filter_eq_self.mpr (fun r hr => by simpa using hPe r hr)
      have h2 : SL.filter (fun r => decide (r.epoch ≤ e)) = [] :=
        List.filter_eq_nil_iff.mpr (fun r hr => by have := hSL r hr; simp only [decide_eq_true_eq]; omega)
      rw [h1, h2, List.append_nil]
    have hpw := List.pairwise_append.mp hsorted
    suffices hres : (F.abs).filter (fun r => decide (r.offset < lastOffLE (P ++ SL) e + 1)) = P by
      rw [hres]; exact List.prefix_append _ _
    rw [hFabs, List.filter_append]
    unfold lastOffLE
    rw [hfil]
    cases hl : P.getLast? with
    | none =>
      have hP : P = [] := List.getLast?_eq_none_iff.mp hl
      subst hP
      simp only [List.filter_nil, List.nil_append]
      apply List.filter_eq_nil_iff.mpr
      intro r hr
      have := offset_nonneg hF r (by rw [hFabs]; simpa using hr)
      simp only [decide_eq_true_eq]; omega
    | some last =>
      have hlm : last ∈ P := List.mem_of_getLast? hl
      have h1 : P.filter (fun r => decide (r.offset < last.offset + 1)) = P := by
        apply List.filter_eq_self.mpr
        intro r hr
        simp only [decide_eq_true_eq]
        -- r is `last` or precedes it
        obtain ⟨init, hinit⟩ : ∃ init, P = init ++ [last] := by
          rcases List.eq_nil_or_concat P with hP | ⟨init, b, hb⟩
          · subst hP; simp at hlm
          · refine ⟨init, ?_⟩
            rw [List.concat_eq_append] at hb
            subst hb
            simp at hl; subst hl; rfl
        subst hinit
        rcases List.mem_append.mp hr with hi | hb
        · have := (List.pairwise_append.mp hpw.1).2.2 r hi last (by simp)
          omega
        · simp at hb; subst hb; omega
      have h2 : SF.filter (fun r => decide (r.offset < last.offset + 1)) = [] := by
        apply List.filter_eq_nil_iff.mpr
        intro r hr
        have := hpw.2.2 last hlm r hr
        simp only [decide_eq_true_eq]; omega
      simp only
      rw [h1, h2, List.append_nil]

/-- Under the elected convention the leader's answer IS that offset — provided the recorded start
offset is not the sentinel -1 and the cache has an entry for the first later epoch that has
records. -/
theorem lastOffsetFor_elected {L : CLog} (hok : EpochsOK L.epochs) (hinv : CacheInvElected L) {e : Nat}
    {p : Nat × Int} (hp : L.epochs.find? (fun x => decide (e < x.1)) = some p)
    (hgap : ∀ r ∈ L.abs, r.epoch ≤ e ∨ p.1 ≤ r.epoch) (hsent : p.2 ≠ -1) :
    L.lastOffsetForLeaderEpoch e = lastOffLE L.abs e := by
  unfold lastOffsetForLeaderEpoch
  rw [lastOffsetFor_spec hok, hp]
  simp only [hsent, if_false]
  have hpm : p ∈ L.epochs := List.mem_of_find?_eq_some hp
  have hpe : e < p.1 := by simpa using List.find?_some hp
  rw [hinv p hpm]
  unfold lastOffLT lastOffLE
  have : L.abs.filter (fun r => decide (r.epoch < p.1)) = L.abs.filter (fun r => decide (r.epoch ≤ e)) := by
    apply List.filter_congr
    intro r hr
    rcases hgap r hr with h | h
    · have : r.epoch < p.1 := by omega
      simp [h, this]
    · have h1 : ¬ r.epoch < p.1 := by omega
      have h2 : ¬ r.epoch ≤ e := by omega
      simp [h1, h2]
  rw [this]

/-- KIP-101, one round, for the elected convention: the reconciled follower is a prefix of the
leader. -/
theorem reconcile_elected_prefix {F L : CLog} (hF : Inv F) {P SF SL : List Rec} {e : Nat}
    (hFabs : F.abs = P ++ SF) (hLabs : L.abs = P ++ SL)
    (hPe : ∀ r ∈ P, r.epoch ≤ e) (hdiv : SF ≠ [] → ∀ r ∈ SL, e < r.epoch)
    (hok : EpochsOK L.epochs) (hinv : CacheInvElected L)
    {p : Nat × Int} (hp : L.epochs.find? (fun x => decide (e < x.1)) = some p)
    (hgap : ∀ r ∈ L.abs, r.epoch ≤ e ∨ p.1 ≤ r.epoch) (hsent : p.2 ≠ -1) :
    (F.truncate (L.lastOffsetForLeaderEpoch e + 1)).abs <+: L.abs := by
  rw [lastOffsetFor_elected hok hinv hp hgap hsent]
  exact truncate_prefix_elected hF hFabs hLabs hPe hdiv

end Liftbridge.Proofs.Reconcile
