/-
Lemmas about the publish-pipeline model (Model/Pipeline.lean): the regenerated facts are the
ones the proofs need (`facts_*`, by evaluation — they stop holding when the source changes),
what one receive site does with a message, what `pend` builds, and the invariant `Inv` that
every event preserves (induction over arbitrary event sequences in Props/C04.lean).
-/
import Liftbridge.Model.Pipeline
import Liftbridge.Proofs.Protocol

namespace Liftbridge.Proofs.Pipeline
open Liftbridge Liftbridge.Pipeline Liftbridge.Proofs.Protocol
open Liftbridge.Protocol (PubMsg Ack Policy AckErr Sid goMin lookup mSet mErase updateOffset published)

/-! ### the regenerated facts -/

/-- Every receive site of `messageProcessingLoop` rejects completely. -/
theorem facts_sites : Gen.Pipeline.sites.all siteSound = true := by decide

theorem facts_errSkips : Gen.Pipeline.appendErrSkips = true := by decide
theorem facts_incNack : Gen.Pipeline.incorrectOffsetNack = true := by decide
theorem facts_incFirst : Gen.Pipeline.incorrectOffsetNackFirst = true := by decide
theorem facts_occOne : Gen.Partition.occBatchOne = true := by decide
theorem facts_ackFields : ackFieldsOK = true := by decide
theorem facts_gate : Gen.Pipeline.commitGateCurrentIsr = true := by decide
theorem facts_gateCmp : Gen.Pipeline.commitGateCmp = .lt := by decide

theorem site_sound {i : Nat} {s : Site} (h : Gen.Pipeline.sites[i]? = some s) : siteSound s = true :=
  List.all_eq_true.mp facts_sites s (List.mem_of_getElem? h)

/-! ### one receive site -/

/-- At a sound site a message joins the batch iff the property does not call it rejected, and a
rejected message gets exactly its negative ack. -/
theorem handle_sound {s : Site} (hs : siteSound s = true) (c : Cfg) (m : PubMsg) :
    handle s c m = match rejectReason m with
      | some e => (false, [nack c m e])
      | none => (true, []) := by
  simp only [siteSound, Bool.and_eq_true] at hs
  obtain ⟨⟨⟨⟨⟨h1, h2⟩, h3⟩, h4⟩, h5⟩, h6⟩ := hs
  unfold handle rejectReason
  cases hsf : m.sealFails <;> cases htl : m.tooLarge <;> simp [h1, h2, h3, h4, h5, h6]

theorem limit_pos (c : Cfg) : 1 ≤ limit c := by
  unfold limit
  split
  · exact Nat.le_refl 1
  · exact Nat.le_max_left 1 _

/-! ### `firstBad` -/

theorem firstBad_mem {occ : Bool} {o : Nat} {b : List PubMsg} {m : PubMsg} (h : firstBad occ o b = some m) : m ∈ b := by
  induction b generalizing o with
  | nil => simp [firstBad] at h
  | cons x xs ih =>
    simp only [firstBad] at h
    split at h
    · cases h; exact List.mem_cons_self
    · exact List.mem_cons_of_mem _ (ih h)

theorem firstBad_occ {occ : Bool} {o : Nat} {b : List PubMsg} {m : PubMsg} (h : firstBad occ o b = some m) : occ = true := by
  induction b generalizing o with
  | nil => simp [firstBad] at h
  | cons x xs ih =>
    simp only [firstBad] at h
    split at h
    · rename_i hc
      simp only [Bool.and_eq_true] at hc
      exact hc.1.1
    · exact ih h

/-! ### `pend` -/

/-- Every ack `processPendingMessage` builds for the batch — sent at once or queued — is the ack
of the i-th message of the batch with the i-th offset; the ones sent at once are LEADER-policy. -/
theorem pend_spec (c : Cfg) (base : Nat) (b : List PubMsg) :
    (∀ a ∈ (pend c base b).1, a.policy = .leader) ∧
    ∀ a ∈ (pend c base b).1 ++ (pend c base b).2, ∃ i m, b[i]? = some m ∧ a = ackOf c m (base + i) := by
  induction b generalizing base with
  | nil => simp [pend]
  | cons x xs ih =>
    obtain ⟨ih1, ih2⟩ := ih (base + 1)
    have lift : ∀ a, (∃ i m, xs[i]? = some m ∧ a = ackOf c m (base + 1 + i)) →
        ∃ i m, (x :: xs)[i]? = some m ∧ a = ackOf c m (base + i) := by
      rintro a ⟨i, m, h1, h2⟩
      exact ⟨i + 1, m, by simpa using h1, by rw [h2]; congr 1; omega⟩
    have here : ∃ i m, (x :: xs)[i]? = some m ∧ ackOf c x base = ackOf c m (base + i) := ⟨0, x, by simp, by simp⟩
    have hpol : x.policy = .leader → (ackOf c x base).policy = .leader := by
      intro h; unfold ackOf; split <;> exact h
    refine ⟨?_, ?_⟩
    · intro a ha
      simp only [pend] at ha
      split at ha <;> (
        simp only at ha
        split at ha
        · rcases List.mem_cons.mp ha with rfl | ha
          · rename_i hl; exact hpol hl
          · exact ih1 a ha
        · exact ih1 a ha)
    · intro a ha
      simp only [pend] at ha
      split at ha <;> (
        simp only at ha
        rcases List.mem_append.mp ha with ha | ha
        · split at ha
          · rcases List.mem_cons.mp ha with rfl | ha
            · exact here
            · exact lift a (ih2 a (List.mem_append_left _ ha))
          · exact lift a (ih2 a (List.mem_append_left _ ha))
        · first
          | (rcases List.mem_cons.mp ha with rfl | ha
             · exact here
             · exact lift a (ih2 a (List.mem_append_right _ ha)))
          | exact lift a (ih2 a (List.mem_append_right _ ha)))


/-! ### the invariant -/

/-- A positive ack is JUSTIFIED in a state: its offset is a real offset of the leader's log, the
log holds exactly that message (ghost arrival number) with exactly that correlation id there, and
a message with that identity, correlation id and ack policy was received. -/
def Justified (st : St) (a : Ack) : Prop :=
  ∃ o : Nat, a.offset = (o : Int) ∧ st.log[o]? = some ⟨a.mid, a.cid⟩ ∧
    ∃ m ∈ st.received, m.mid = a.mid ∧ m.cid = a.cid ∧ m.policy = a.policy

theorem getElem?_append_some {α} {l l' : List α} {i : Nat} {x : α} (h : l[i]? = some x) : (l ++ l')[i]? = some x := by
  have hi : i < l.length := by
    rcases Nat.lt_or_ge i l.length with h' | h'
    · exact h'
    · rw [List.getElem?_eq_none h'] at h; cases h
  rw [List.getElem?_append_left hi]; exact h

theorem Justified.mono {st st' : St} {a : Ack} (hlog : ∃ more, st'.log = st.log ++ more)
    (hrecv : ∀ m ∈ st.received, m ∈ st'.received) (h : Justified st a) : Justified st' a := by
  obtain ⟨o, h1, h2, m, hm, h3⟩ := h
  obtain ⟨more, hl⟩ := hlog
  exact ⟨o, h1, by rw [hl]; exact getElem?_append_some h2, m, hrecv m hm, h3⟩

structure Inv (c : Cfg) (st : St) : Prop where
  recvLt : ∀ m ∈ st.received, m.mid < st.nrecv
  rejRecv : ∀ p ∈ st.rejected, p.1 ∈ st.received
  logRecv : ∀ s ∈ st.log, ∃ m ∈ st.received, m.mid = s.seq ∧ m.cid = s.cid
  logNotRej : ∀ s ∈ st.log, ∀ p ∈ st.rejected, p.1.mid ≠ s.seq
  batchRecv : ∀ m ∈ st.batch, m ∈ st.received ∧ rejectReason m = none
  batchNotRej : ∀ m ∈ st.batch, ∀ p ∈ st.rejected, p.1.mid ≠ m.mid
  batchFresh : ∀ m ∈ st.batch, ∀ s ∈ st.log, s.seq ≠ m.mid
  batchLen : st.batch.length ≤ limit c
  ackOK : ∀ a ∈ st.acks, a.err = .ok → a.policy ≠ .none ∧ Justified st a
  queueOK : ∀ a ∈ st.queue, a.err = .ok ∧ Justified st a
  nacked : ∀ p ∈ st.rejected, p.1.ackInbox = true → ∃ a ∈ st.acks, a.mid = p.1.mid ∧ a.cid = p.1.cid ∧ a.err = p.2
  recvIdx : ∀ (i : Nat) (m : PubMsg), st.received[i]? = some m → m.mid = i
  recvLen : st.received.length = st.nrecv
  rejComplete : ∀ m ∈ st.received, ∀ e, rejectReason m = some e → (m, e) ∈ st.rejected

theorem inv_init (c : Cfg) (isr : List Sid) : Inv c (init isr) := by
  refine ⟨?_, ?_, ?_, ?_, ?_, ?_, ?_, ?_, ?_, ?_, ?_, ?_, ?_, ?_⟩ <;> simp [init]

theorem logLt {c : Cfg} {st : St} (J : Inv c st) : ∀ s ∈ st.log, s.seq < st.nrecv := by
  intro s hs
  obtain ⟨m, hm, h1, _⟩ := J.logRecv s hs
  rw [← h1]; exact J.recvLt m hm

theorem rejectReason_ne_ok {m : PubMsg} {e : AckErr} (h : rejectReason m = some e) : e ≠ .ok := by
  unfold rejectReason at h
  split at h
  · cases h; simp
  · split at h
    · cases h; simp
    · cases h

/-- A receive preserves the invariant. -/
theorem inv_recv {c : Cfg} {st st' : St} {i : Nat} {m0 : PubMsg} (J : Inv c st) (h : recv c st i m0 = some st') : Inv c st' := by
  unfold recv at h
  split at h
  · cases h
  · rename_i s hsite
    split at h
    · cases h
    · rename_i hen
      simp only [Option.some.injEq] at h
      have hs := site_sound hsite
      have hh := handle_sound hs c { m0 with mid := st.nrecv }
      generalize hm : ({ m0 with mid := st.nrecv } : PubMsg) = m at h hh
      have hmid : m.mid = st.nrecv := by rw [← hm]
      have hmono : ∀ a, Justified st a → Justified { st with received := st.received ++ [m] } a := fun a ha =>
        Justified.mono ⟨[], by simp⟩ (fun x hx => List.mem_append_left _ hx) ha
      have hlen : ∀ (b' : List PubMsg), b' = st.batch ++ [m] → b'.length ≤ limit c := by
        intro b' hb'
        simp only [Bool.not_eq_true, Bool.not_eq_false'] at hen
        have : siteEnabled c st s = true := by simpa using hen
        unfold siteEnabled at this
        rw [hb']
        split at this
        · have : st.batch = [] := by simpa using this
          rw [this]; simpa using limit_pos c
        · simp only [Bool.and_eq_true, decide_eq_true_eq] at this
          simp only [List.length_append, List.length_cons, List.length_nil]
          omega
      have hidx : ∀ (i : Nat) (x : PubMsg), (st.received ++ [m])[i]? = some x → x.mid = i := by
        intro i x hx
        rcases Nat.lt_or_ge i st.received.length with hlt | hge
        · rw [List.getElem?_append_left hlt] at hx; exact J.recvIdx i x hx
        · rw [List.getElem?_append_right hge] at hx
          cases hk : i - st.received.length with
          | zero =>
            rw [hk] at hx
            simp only [List.getElem?_cons_zero, Option.some.injEq] at hx
            subst hx
            have := J.recvLen
            omega
          | succ k => rw [hk] at hx; simp at hx
      have hlen' : (st.received ++ [m]).length = st.nrecv + 1 := by simp [J.recvLen]
      cases hr : rejectReason m with
      | none =>
        rw [hr] at hh
        simp only [hh, hr, published, List.filter_nil, List.append_nil, ite_true] at h
        subst h
        refine ⟨?_, ?_, ?_, ?_, ?_, ?_, ?_, ?_, ?_, ?_, ?_, ?_, ?_, ?_⟩
        · intro x hx
          rcases List.mem_append.mp hx with hx | hx
          · exact Nat.lt_succ_of_lt (J.recvLt x hx)
          · simp only [List.mem_singleton] at hx; subst hx; rw [hmid]; exact Nat.lt_succ_self _
        · intro p hp; exact List.mem_append_left _ (J.rejRecv p hp)
        · intro x hx
          obtain ⟨y, hy, h1⟩ := J.logRecv x hx
          exact ⟨y, List.mem_append_left _ hy, h1⟩
        · exact J.logNotRej
        · intro x hx
          rcases List.mem_append.mp hx with hx | hx
          · exact ⟨List.mem_append_left _ (J.batchRecv x hx).1, (J.batchRecv x hx).2⟩
          · simp only [List.mem_singleton] at hx; subst hx
            exact ⟨List.mem_append_right _ (by simp), hr⟩
        · intro x hx p hp
          rcases List.mem_append.mp hx with hx | hx
          · exact J.batchNotRej x hx p hp
          · simp only [List.mem_singleton] at hx; subst hx
            have := J.recvLt p.1 (J.rejRecv p hp)
            omega
        · intro x hx y hy
          rcases List.mem_append.mp hx with hx | hx
          · exact J.batchFresh x hx y hy
          · simp only [List.mem_singleton] at hx; subst hx
            have := logLt J y hy
            omega
        · exact hlen _ rfl
        · intro a ha hok
          exact ⟨(J.ackOK a ha hok).1, hmono a (J.ackOK a ha hok).2⟩
        · intro a ha
          exact ⟨(J.queueOK a ha).1, hmono a (J.queueOK a ha).2⟩
        · exact J.nacked
        · exact hidx
        · exact hlen'
        · intro x hx e he
          rcases List.mem_append.mp hx with hx | hx
          · exact J.rejComplete x hx e he
          · simp only [List.mem_singleton] at hx; subst hx
            rw [hr] at he; cases he
      | some e =>
        rw [hr] at hh
        simp only [hh, hr] at h
        subst h
        refine ⟨?_, ?_, ?_, ?_, ?_, ?_, ?_, ?_, ?_, ?_, ?_, ?_, ?_, ?_⟩
        · intro x hx
          rcases List.mem_append.mp hx with hx | hx
          · exact Nat.lt_succ_of_lt (J.recvLt x hx)
          · simp only [List.mem_singleton] at hx; subst hx; rw [hmid]; exact Nat.lt_succ_self _
        · intro p hp
          rcases List.mem_append.mp hp with hp | hp
          · exact List.mem_append_left _ (J.rejRecv p hp)
          · simp only [List.mem_singleton] at hp; subst hp
            exact List.mem_append_right _ (by simp)
        · intro x hx
          obtain ⟨y, hy, h1⟩ := J.logRecv x hx
          exact ⟨y, List.mem_append_left _ hy, h1⟩
        · intro x hx p hp
          rcases List.mem_append.mp hp with hp | hp
          · exact J.logNotRej x hx p hp
          · simp only [List.mem_singleton] at hp; subst hp
            have := logLt J x hx
            simp only; omega
        · intro x hx
          exact ⟨List.mem_append_left _ (J.batchRecv x hx).1, (J.batchRecv x hx).2⟩
        · intro x hx p hp
          rcases List.mem_append.mp hp with hp | hp
          · exact J.batchNotRej x hx p hp
          · simp only [List.mem_singleton] at hp; subst hp
            have := J.recvLt x (J.batchRecv x hx).1
            simp only; omega
        · exact J.batchFresh
        · exact J.batchLen
        · intro a ha hok
          rcases List.mem_append.mp ha with ha | ha
          · exact ⟨(J.ackOK a ha hok).1, hmono a (J.ackOK a ha hok).2⟩
          · have := published_sub ha
            simp only [List.mem_singleton] at this
            subst this
            exact absurd hok (rejectReason_ne_ok hr)
        · intro a ha
          exact ⟨(J.queueOK a ha).1, hmono a (J.queueOK a ha).2⟩
        · intro p hp hin
          rcases List.mem_append.mp hp with hp | hp
          · obtain ⟨a, ha, h1⟩ := J.nacked p hp hin
            exact ⟨a, List.mem_append_left _ ha, h1⟩
          · simp only [List.mem_singleton] at hp; subst hp
            refine ⟨nack c m e, List.mem_append_right _ ?_, rfl, rfl, rfl⟩
            simp only [published, List.mem_filter, List.mem_singleton, true_and]
            exact hin
        · exact hidx
        · exact hlen'
        · intro x hx e' he
          rcases List.mem_append.mp hx with hx | hx
          · exact List.mem_append_left _ (J.rejComplete x hx e' he)
          · simp only [List.mem_singleton] at hx; subst hx
            rw [hr] at he; cases he
            exact List.mem_append_right _ (by simp)


theorem ackOf_eq (c : Cfg) (m : PubMsg) (o : Nat) :
    ackOf c m o = { cid := m.cid, policy := m.policy, offset := (o : Int), err := .ok, mid := m.mid, by_ := c.me, epoch := 0, inbox := m.ackInbox } := by
  unfold ackOf; rw [facts_ackFields]; rfl

/-- The acks built for a batch that has just been appended at `base = |log|` are justified. -/
theorem pend_justified {c : Cfg} {st st' : St} {b : List PubMsg}
    (hrecv : ∀ m ∈ b, m ∈ st'.received) (hlog : st'.log = st.log ++ b.map stored)
    {a : Ack} (ha : a ∈ (pend c st.log.length b).1 ++ (pend c st.log.length b).2) :
    a.err = .ok ∧ Justified st' a := by
  obtain ⟨i, m, hi, rfl⟩ := (pend_spec c st.log.length b).2 a ha
  rw [ackOf_eq]
  refine ⟨rfl, st.log.length + i, rfl, ?_, m, hrecv m (List.mem_of_getElem? hi), rfl, rfl, rfl⟩
  rw [hlog, List.getElem?_append_right (Nat.le_add_right _ _)]
  simp [hi, stored]

/-- `deliver` after a successful append preserves the invariant. -/
theorem inv_deliver {c : Cfg} {st : St} (J : Inv c st) :
    Inv c (deliver c { st with batch := [], log := st.log ++ st.batch.map stored } st.batch st.log.length) := by
  have hmono : ∀ a, Justified st a → Justified (deliver c { st with batch := [], log := st.log ++ st.batch.map stored } st.batch st.log.length) a :=
    fun a ha => Justified.mono ⟨st.batch.map stored, rfl⟩ (fun x hx => hx) ha
  have hnew : ∀ a ∈ (pend c st.log.length st.batch).1 ++ (pend c st.log.length st.batch).2,
      a.err = .ok ∧ Justified (deliver c { st with batch := [], log := st.log ++ st.batch.map stored } st.batch st.log.length) a :=
    fun a ha => pend_justified (st := st)
      (st' := deliver c { st with batch := [], log := st.log ++ st.batch.map stored } st.batch st.log.length)
      (fun m hm => (J.batchRecv m hm).1) rfl ha
  refine ⟨J.recvLt, J.rejRecv, ?_, ?_, ?_, ?_, ?_, ?_, ?_, ?_, ?_, J.recvIdx, J.recvLen, J.rejComplete⟩
  · intro s hs
    rcases List.mem_append.mp hs with hs | hs
    · exact J.logRecv s hs
    · obtain ⟨m, hm, rfl⟩ := List.mem_map.mp hs
      exact ⟨m, (J.batchRecv m hm).1, rfl, rfl⟩
  · intro s hs p hp
    rcases List.mem_append.mp hs with hs | hs
    · exact J.logNotRej s hs p hp
    · obtain ⟨m, hm, rfl⟩ := List.mem_map.mp hs
      exact J.batchNotRej m hm p hp
  · intro m hm; simp [deliver] at hm
  · intro m hm; simp [deliver] at hm
  · intro m hm; simp [deliver] at hm
  · simp [deliver]
  · intro a ha hok
    rcases List.mem_append.mp ha with ha | ha
    · exact ⟨(J.ackOK a ha hok).1, hmono a (J.ackOK a ha hok).2⟩
    · have ha' := published_sub ha
      refine ⟨?_, (hnew a (List.mem_append_left _ ha')).2⟩
      rw [(pend_spec c st.log.length st.batch).1 a ha']; simp
  · intro a ha
    rcases List.mem_append.mp ha with ha | ha
    · exact ⟨(J.queueOK a ha).1, hmono a (J.queueOK a ha).2⟩
    · exact hnew a (List.mem_append_right _ ha)
  · intro p hp hin
    obtain ⟨a, ha, h1⟩ := J.nacked p hp hin
    exact ⟨a, List.mem_append_left _ ha, h1⟩

/-- A dispatch preserves the invariant. -/
theorem inv_dispatch {c : Cfg} {st st' : St} (J : Inv c st) (h : dispatch c st = some st') : Inv c st' := by
  unfold dispatch at h
  split at h
  · cases h
  · rename_i hne
    have hne' : st.batch ≠ [] := by simpa using hne
    simp only [facts_errSkips, facts_incNack, facts_incFirst, ite_true] at h
    split at h
    · rename_i bad hbad
      simp only [Option.some.injEq] at h
      subst h
      have hocc := firstBad_occ hbad
      have hmem := firstBad_mem hbad
      -- with concurrency control the batch holds exactly one message: the refused one
      have hone : st.batch = [bad] := by
        have hl := J.batchLen
        unfold limit at hl
        rw [hocc, facts_occOne] at hl
        simp only [Bool.and_self, ite_true] at hl
        match hb : st.batch, hl, hmem with
        | [x], _, hm => simp at hm ⊢; rw [← hb] at *; simpa using hm.symm
        | [], _, hm => simp at hm
        | _ :: _ :: _, hl, _ => simp at hl
      have hmono : ∀ a (st' : St), st'.log = st.log → st'.received = st.received → Justified st a → Justified st' a :=
        fun a st' h1 h2 ha => Justified.mono ⟨[], by simp [h1]⟩ (fun x hx => by rw [h2]; exact hx) ha
      simp only [hone, List.head?_cons]
      refine ⟨J.recvLt, ?_, J.logRecv, ?_, ?_, ?_, ?_, ?_, ?_, ?_, ?_, J.recvIdx, J.recvLen, fun m hm e he => List.mem_append_left _ (J.rejComplete m hm e he)⟩
      · intro p hp
        rcases List.mem_append.mp hp with hp | hp
        · exact J.rejRecv p hp
        · simp only [List.mem_singleton] at hp; subst hp
          exact (J.batchRecv bad hmem).1
      · intro s hs p hp
        rcases List.mem_append.mp hp with hp | hp
        · exact J.logNotRej s hs p hp
        · simp only [List.mem_singleton] at hp; subst hp
          exact fun h => J.batchFresh bad hmem s hs h.symm
      · intro m hm; simp at hm
      · intro m hm; simp at hm
      · intro m hm; simp at hm
      · simp
      · intro a ha hok
        rcases List.mem_append.mp ha with ha | ha
        · exact ⟨(J.ackOK a ha hok).1, hmono a _ rfl rfl (J.ackOK a ha hok).2⟩
        · have := published_sub ha
          simp only [List.mem_singleton] at this
          subst this
          simp [nack] at hok
      · intro a ha
        exact ⟨(J.queueOK a ha).1, hmono a _ rfl rfl (J.queueOK a ha).2⟩
      · intro p hp hin
        rcases List.mem_append.mp hp with hp | hp
        · obtain ⟨a, ha, h1⟩ := J.nacked p hp hin
          exact ⟨a, List.mem_append_left _ ha, h1⟩
        · simp only [List.mem_singleton] at hp; subst hp
          refine ⟨nack c bad .incorrectOffset, List.mem_append_right _ ?_, rfl, rfl, rfl⟩
          simp only [published, List.mem_filter, List.mem_singleton, true_and]
          exact hin
    · simp only [Option.some.injEq] at h
      subst h
      exact inv_deliver J

theorem mem_dropWhile {α} {p : α → Bool} {l : List α} {a : α} (h : a ∈ l.dropWhile p) : a ∈ l :=
  (List.dropWhile_sublist p).subset h

theorem commitAcks_sub {c : Cfg} {st : St} {a : Ack} (h : a ∈ commitAcks c st) : a ∈ st.queue ∧ a.policy = .all := by
  unfold commitAcks at h
  split at h
  · simp at h
  · have h2 := List.mem_filter.mp (published_sub h)
    exact ⟨(List.takeWhile_sublist _).subset h2.1, by simpa using h2.2⟩

/-- A commit-loop iteration preserves the invariant. -/
theorem inv_commit {c : Cfg} {st : St} (J : Inv c st) : Inv c (commit c st) := by
  unfold commit
  split
  · exact J
  · have hmono : ∀ a st', st'.log = st.log → st'.received = st.received → Justified st a → Justified st' a :=
      fun a st' h1 h2 ha => Justified.mono ⟨[], by simp [h1]⟩ (fun x hx => by rw [h2]; exact hx) ha
    refine ⟨J.recvLt, J.rejRecv, J.logRecv, J.logNotRej, J.batchRecv, J.batchNotRej, J.batchFresh, J.batchLen, ?_, ?_, ?_, J.recvIdx, J.recvLen, J.rejComplete⟩
    · intro a ha hok
      rcases List.mem_append.mp ha with ha | ha
      · exact ⟨(J.ackOK a ha hok).1, hmono a _ rfl rfl (J.ackOK a ha hok).2⟩
      · obtain ⟨hq, hp⟩ := commitAcks_sub ha
        exact ⟨by rw [hp]; simp, hmono a _ rfl rfl (J.queueOK a hq).2⟩
    · intro a ha
      have hq := mem_dropWhile ha
      exact ⟨(J.queueOK a hq).1, hmono a _ rfl rfl (J.queueOK a hq).2⟩
    · intro p hp hin
      obtain ⟨a, ha, h1⟩ := J.nacked p hp hin
      exact ⟨a, List.mem_append_left _ ha, h1⟩

theorem inv_isr {c : Cfg} {st : St} (J : Inv c st) (isr : List (Sid × Int)) : Inv c { st with isr := isr } :=
  ⟨J.recvLt, J.rejRecv, J.logRecv, J.logNotRej, J.batchRecv, J.batchNotRej, J.batchFresh, J.batchLen,
   fun a ha hok => ⟨(J.ackOK a ha hok).1, Justified.mono ⟨[], by simp⟩ (fun _ hx => hx) (J.ackOK a ha hok).2⟩,
   fun a ha => ⟨(J.queueOK a ha).1, Justified.mono ⟨[], by simp⟩ (fun _ hx => hx) (J.queueOK a ha).2⟩,
   J.nacked, J.recvIdx, J.recvLen, J.rejComplete⟩

theorem inv_step {c : Cfg} {st st' : St} {e : Ev} (J : Inv c st) (h : step c st e = some st') : Inv c st' := by
  cases e with
  | recv i m => exact inv_recv J h
  | dispatch => exact inv_dispatch J h
  | commit => simp only [step, Option.some.injEq] at h; subst h; exact inv_commit J
  | progress r off => simp only [step, Option.some.injEq] at h; subst h; exact inv_isr J _
  | shrink r => simp only [step, Option.some.injEq] at h; subst h; exact inv_isr J _
  | expand r => simp only [step, Option.some.injEq] at h; subst h; exact inv_isr J _

/-- Every event sequence preserves the invariant (disabled events are skipped). -/
theorem inv_run {c : Cfg} (evs : List Ev) {st : St} (J : Inv c st) : Inv c (run c st evs) := by
  induction evs generalizing st with
  | nil => exact J
  | cons e es ih =>
    simp only [run]
    cases h : step c st e with
    | none => exact ih J
    | some st' => exact ih (inv_step J h)


/-- Two received messages with the same (ghost) arrival number are the same message. -/
theorem received_unique {c : Cfg} {st : St} (J : Inv c st) {m m' : PubMsg} (hm : m ∈ st.received) (hm' : m' ∈ st.received)
    (h : m.mid = m'.mid) : m = m' := by
  obtain ⟨i, hi⟩ := List.getElem?_of_mem hm
  obtain ⟨j, hj⟩ := List.getElem?_of_mem hm'
  have h1 := J.recvIdx i m hi
  have h2 := J.recvIdx j m' hj
  have : i = j := by omega
  subst this
  rw [hi] at hj; exact Option.some.inj hj

/-! ### where positive acks come from -/

/-- Acks published by a step. -/
def newAcks (st st' : St) : List Ack := st'.acks.drop st.acks.length

/-- A positive ALL-policy ack is only ever published by a commit-loop iteration. -/
theorem all_ack_from_commit {c : Cfg} {st st' : St} {e : Ev} (h : step c st e = some st') {a : Ack}
    (ha : a ∈ newAcks st st') (hok : a.err = .ok) (hall : a.policy = .all) : e = .commit ∧ a ∈ commitAcks c st := by
  cases e with
  | recv i m =>
    exfalso
    simp only [step] at h
    unfold recv at h
    split at h
    · cases h
    · rename_i s hsite
      split at h
      · cases h
      · simp only [Option.some.injEq] at h
        subst h
        have hh := handle_sound (site_sound hsite) c { m with mid := st.nrecv }
        simp only [newAcks, List.drop_left] at ha
        have ha' := published_sub ha
        rw [hh] at ha'
        split at ha'
        · rename_i e he
          simp only [List.mem_singleton] at ha'; subst ha'
          exact rejectReason_ne_ok he hok
        · simp at ha'
  | dispatch =>
    exfalso
    simp only [step] at h
    unfold dispatch at h
    split at h
    · cases h
    · simp only [facts_errSkips, facts_incNack, facts_incFirst, ite_true] at h
      split at h
      · simp only [Option.some.injEq] at h
        subst h
        simp only [newAcks, List.drop_left] at ha
        have ha' := published_sub ha
        split at ha'
        · simp only [List.mem_singleton] at ha'; subst ha'; simp [nack] at hok
        · simp at ha'
      · simp only [Option.some.injEq] at h
        subst h
        simp only [newAcks, deliver, List.drop_left] at ha
        have := (pend_spec c st.log.length st.batch).1 a (published_sub ha)
        rw [this] at hall; cases hall
  | commit =>
    simp only [step, Option.some.injEq] at h
    subst h
    refine ⟨rfl, ?_⟩
    unfold commit at ha
    split at ha
    · simp [newAcks] at ha
    · simpa [newAcks] using ha
  | progress r off => simp only [step, Option.some.injEq] at h; subst h; simp [newAcks] at ha
  | shrink r => simp only [step, Option.some.injEq] at h; subst h; simp [newAcks] at ha
  | expand r => simp only [step, Option.some.injEq] at h; subst h; simp [newAcks] at ha

/-- What the commit loop checks before it publishes an ack: the CURRENT ISR has at least `minISR`
members and every member's recorded offset is at least the ack's offset. -/
theorem commitAcks_checked {c : Cfg} {st : St} {a : Ack} (ha : a ∈ commitAcks c st) :
    a.policy = .all ∧ a ∈ st.queue ∧ c.minISR ≤ st.isr.length ∧ ∀ r v, lookup st.isr r = some v → a.offset ≤ v := by
  have hsub := commitAcks_sub ha
  unfold commitAcks at ha
  split at ha
  · simp at ha
  · rename_i hg
    simp only [gate, facts_gate, facts_gateCmp, Cmp.evalNat, Bool.true_and, decide_eq_true_eq, Nat.not_lt] at hg
    have h2 := List.mem_filter.mp (published_sub ha)
    have h3 := mem_takeWhile_imp h2.1
    simp only [Gen.Protocol.commitTakeCmp, Cmp.evalInt, decide_eq_true_eq] at h3
    refine ⟨hsub.2, hsub.1, hg, ?_⟩
    intro r v hr
    have hm : v ∈ st.isr.map (·.2) := List.mem_map.mpr ⟨(r, v), lookup_mem hr, rfl⟩
    exact Int.le_trans h3 (goMin_le hm)

/-! ### `Protocol.screen` is the site-wise receive phase -/

/-- Whatever sites the messages of a batch arrive at — as long as every site rejects completely —
the receive phase lets through and negatively acknowledges exactly what `Protocol.screen` says
(the batch-level model behind the C02 / C04 step theorems). -/
theorem joinAll_eq_screen (c : Cfg) (xs : List (Site × PubMsg)) (hs : ∀ p ∈ xs, siteSound p.1 = true) :
    joinAll c xs = Protocol.screen c.me 0 (xs.map (·.2)) := by
  induction xs with
  | nil => rfl
  | cons p ps ih =>
    obtain ⟨s, m⟩ := p
    have ih' := ih (fun q hq => hs q (List.mem_cons_of_mem _ hq))
    have hh := handle_sound (hs (s, m) List.mem_cons_self) c m
    simp only [joinAll, List.map_cons, Protocol.screen, ih', hh]
    unfold rejectReason
    cases hsf : m.sealFails <;> cases htl : m.tooLarge <;> simp [nack]

end Liftbridge.Proofs.Pipeline
