/-
Helper lemmas for C13 (Model/GroupSub.lean): the association-list map, the invariants of the
group-subscription hand-over and their preservation by every step.

* `Inv`  — holds for EVERY configuration (whatever the clean-up compares): subscription ids are
  distinct, the empty group id is never registered, and a registered member names a loop of that
  group / consumer / epoch which has NOT exited ("no stale entries").
* `Reg`  — every ACTIVE group subscription is the registered one of its group. Preserved when the
  clean-up compares the subscription; with the comparison on consumer ids only under `Distinct`
  (no two running loops of one group carry the same consumer id).
-/
import Liftbridge.Model.GroupSub

namespace Liftbridge.Proofs.GroupSub
open Liftbridge Liftbridge.GroupSub

/-! ### the map -/

theorem lookup_del (g g' : String) (cs : List (String × Member)) :
    lookup g' (del g cs) = if g' = g then none else lookup g' cs := by
  induction cs with
  | nil => simp [del, lookup]
  | cons kv rest ih =>
    obtain ⟨k, m⟩ := kv
    unfold del at ih ⊢
    by_cases hk : k = g
    · subst hk
      by_cases hg : g' = k
      · subst hg; simpa [List.filter_cons] using ih
      · have hg' : ¬ k = g' := fun h => hg h.symm
        simpa [List.filter_cons, lookup, hg, hg'] using ih
    · by_cases hg : g' = g
      · subst hg
        have : ¬ k = g' := hk
        simpa [List.filter_cons, lookup, hk] using ih
      · by_cases hkg : k = g'
        · subst hkg; simp [lookup, hk]
        · simpa [List.filter_cons, lookup, hk, hkg, hg] using ih

theorem lookup_put (g g' : String) (m : Member) (cs : List (String × Member)) :
    lookup g' (put g m cs) = if g' = g then some m else lookup g' cs := by
  unfold put
  by_cases hg : g' = g
  · subst hg; simp [lookup]
  · have : ¬ g = g' := fun h => hg h.symm
    simp [lookup, this, hg, lookup_del]

/-! ### loops -/

/-- `f` only touches the two flags. -/
structure FlagsOnly (f : Loop → Loop) : Prop where
  subId : ∀ l, (f l).subId = l.subId
  group : ∀ l, (f l).group = l.group
  consumer : ∀ l, (f l).consumer = l.consumer
  epoch : ∀ l, (f l).epoch = l.epoch

theorem flagsOnly_cancel (id : Nat) :
    FlagsOnly (fun l => if l.subId = id then { l with cancelled := true } else l) := by
  constructor <;> intro l <;> by_cases h : l.subId = id <;> simp [h]

theorem flagsOnly_exit (id : Nat) :
    FlagsOnly (fun l => if l.subId = id then { l with exited := true } else l) := by
  constructor <;> intro l <;> by_cases h : l.subId = id <;> simp [h]

theorem eq_of_subId_eq {ls : List Loop} (h : ls.Pairwise (fun a b => a.subId ≠ b.subId)) :
    ∀ a ∈ ls, ∀ b ∈ ls, a.subId = b.subId → a = b := by
  induction ls with
  | nil => intro a ha; cases ha
  | cons x xs ih =>
    rw [List.pairwise_cons] at h
    intro a ha b hb hab
    rcases List.mem_cons.1 ha with rfl | ha' <;> rcases List.mem_cons.1 hb with rfl | hb'
    · rfl
    · exact absurd hab (h.1 b hb')
    · exact absurd hab.symm (h.1 a ha')
    · exact ih h.2 a ha' b hb' hab

theorem length_le_one_of_same_id {ls : List Loop}
    (hp : ls.Pairwise (fun a b => a.subId ≠ b.subId)) (k : Nat) (h : ∀ l ∈ ls, l.subId = k) :
    ls.length ≤ 1 := by
  match ls, hp, h with
  | [], _, _ => simp
  | [_], _, _ => simp
  | a :: b :: rest, hp, h =>
    exfalso
    have h1 := (List.pairwise_cons.1 hp).1 b (by simp)
    exact h1 ((h a (by simp)).trans (h b (by simp)).symm)

theorem findLoop_some {id : Nat} {ls : List Loop} {l : Loop} (h : findLoop id ls = some l) :
    l ∈ ls ∧ l.subId = id := by
  unfold findLoop at h
  exact ⟨List.mem_of_find?_eq_some h, by simpa using List.find?_some h⟩

theorem filter_map_eq {α} (p : α → Bool) (f : α → α) (ls : List α)
    (h : ∀ l ∈ ls, p (f l) = p l ∧ (p l = true → f l = l)) : (ls.map f).filter p = ls.filter p := by
  induction ls with
  | nil => rfl
  | cons x xs ih =>
    have hx := h x (by simp)
    have ih' := ih (fun l hl => h l (List.mem_cons_of_mem _ hl))
    cases hp : p x with
    | true => simp [hp, hx.2 hp, ih']
    | false => simp [hx.1, hp, ih']

/-! ### invariants -/

structure Inv (s : State) : Prop where
  ids : ∀ l ∈ s.loops, l.subId < s.loops.length
  nodup : s.loops.Pairwise (fun a b => a.subId ≠ b.subId)
  noEmpty : lookup "" s.consumers = none
  live : ∀ g m, lookup g s.consumers = some m →
    ∃ l ∈ s.loops, l.subId = m.subId ∧ l.group = g ∧ l.consumer = m.consumer ∧ l.epoch = m.epoch ∧
      l.exited = false

/-- Every active group subscription is the registered one of its group. -/
def Reg (s : State) : Prop :=
  ∀ l ∈ s.loops, l.group ≠ "" → l.active = true →
    (lookup l.group s.consumers).map Member.subId = some l.subId

instance (s : State) : Decidable (Reg s) := by unfold Reg; exact inferInstance

/-- No two running loops of one group carry the same consumer id. -/
def Distinct (s : State) : Prop :=
  ∀ a ∈ s.loops, ∀ b ∈ s.loops, a.exited = false → b.exited = false → a.group = b.group →
    a.consumer = b.consumer → a.subId = b.subId

theorem inv_empty : Inv State.empty :=
  ⟨(by intro l h; cases h), List.Pairwise.nil, rfl, (by intro g m h; cases h)⟩

theorem reg_empty : Reg State.empty := by intro l h; cases h

theorem distinct_empty : Distinct State.empty := by intro a h; cases h

/-! #### flag-only updates of the loops (cancel, close previous) -/

theorem inv_mapLoops {s : State} {f : Loop → Loop} (hf : FlagsOnly f)
    (hex : ∀ l, (f l).exited = l.exited) (h : Inv s) : Inv { s with loops := s.loops.map f } := by
  refine ⟨?_, ?_, h.noEmpty, ?_⟩
  · intro l' hl'
    obtain ⟨l, hl, rfl⟩ := List.mem_map.1 hl'
    simpa [hf.subId] using h.ids l hl
  · rw [List.pairwise_map]
    exact h.nodup.imp (fun hab => by simpa [hf.subId] using hab)
  · intro g m hgm
    obtain ⟨l, hl, h1, h2, h3, h4, h5⟩ := h.live g m hgm
    exact ⟨f l, List.mem_map.2 ⟨l, hl, rfl⟩, by simp [hf.subId, h1], by simp [hf.group, h2],
      by simp [hf.consumer, h3], by simp [hf.epoch, h4], by simp [hex, h5]⟩

theorem reg_mapLoops {s : State} {f : Loop → Loop} (hf : FlagsOnly f)
    (hact : ∀ l, (f l).active = true → l.active = true) (h : Reg s) :
    Reg { s with loops := s.loops.map f } := by
  intro l' hl' hg ha
  obtain ⟨l, hl, rfl⟩ := List.mem_map.1 hl'
  have := h l hl (by simpa [hf.group] using hg) (hact l ha)
  simpa [hf.group, hf.subId] using this

theorem distinct_mapLoops {s : State} {f : Loop → Loop} (hf : FlagsOnly f)
    (hex : ∀ l, (f l).exited = false → l.exited = false) (h : Distinct s) :
    Distinct { s with loops := s.loops.map f } := by
  intro a' ha' b' hb' ea eb hg hc
  obtain ⟨a, ha, rfl⟩ := List.mem_map.1 ha'
  obtain ⟨b, hb, rfl⟩ := List.mem_map.1 hb'
  have := h a ha b hb (hex a ea) (hex b eb) (by simpa [hf.group] using hg)
    (by simpa [hf.consumer] using hc)
  simpa [hf.subId] using this

theorem cancel_exited (id : Nat) (l : Loop) :
    (if l.subId = id then { l with cancelled := true } else l).exited = l.exited := by
  by_cases h : l.subId = id <;> simp [h]

theorem cancel_active (id : Nat) (l : Loop) :
    (if l.subId = id then { l with cancelled := true } else l).active = true → l.active = true := by
  by_cases h : l.subId = id <;> simp [h, Loop.active]

theorem inv_cancelLoops {s : State} (id : Nat) (h : Inv s) :
    Inv { s with loops := cancelLoops id s.loops } :=
  inv_mapLoops (flagsOnly_cancel id) (cancel_exited id) h

theorem reg_cancelLoops {s : State} (id : Nat) (h : Reg s) :
    Reg { s with loops := cancelLoops id s.loops } :=
  reg_mapLoops (flagsOnly_cancel id) (cancel_active id) h

theorem distinct_cancelLoops {s : State} (id : Nat) (h : Distinct s) :
    Distinct { s with loops := cancelLoops id s.loops } :=
  distinct_mapLoops (flagsOnly_cancel id) (fun l hl => by rw [cancel_exited] at hl; exact hl) h

theorem inv_closePrev {s : State} (prev : Option Member) (h : Inv s) : Inv (closePrev s prev) := by
  cases prev with
  | none => exact h
  | some ex => exact inv_cancelLoops ex.subId h

theorem reg_closePrev {s : State} (prev : Option Member) (h : Reg s) : Reg (closePrev s prev) := by
  cases prev with
  | none => exact h
  | some ex => exact reg_cancelLoops ex.subId h

theorem distinct_closePrev {s : State} (prev : Option Member) (h : Distinct s) :
    Distinct (closePrev s prev) := by
  cases prev with
  | none => exact h
  | some ex => exact distinct_cancelLoops ex.subId h

theorem closePrev_consumers (s : State) (prev : Option Member) :
    (closePrev s prev).consumers = s.consumers := by
  cases prev <;> rfl

theorem closePrev_length (s : State) (prev : Option Member) :
    (closePrev s prev).loops.length = s.loops.length := by
  cases prev <;> simp [closePrev, cancelLoops]

/-- A loop of `closePrev s prev` is a loop of `s` with the same identity and `exited` flag. -/
theorem mem_closePrev {s : State} {prev : Option Member} {l' : Loop}
    (h : l' ∈ (closePrev s prev).loops) :
    ∃ l ∈ s.loops, l'.subId = l.subId ∧ l'.group = l.group ∧ l'.consumer = l.consumer ∧
      l'.epoch = l.epoch ∧ l'.exited = l.exited ∧ (l'.active = true → l.active = true) ∧
      (∀ ex, prev = some ex → l.subId = ex.subId → l'.cancelled = true) := by
  cases prev with
  | none => exact ⟨l', h, rfl, rfl, rfl, rfl, rfl, id, by intro ex he; cases he⟩
  | some ex =>
    obtain ⟨l, hl, rfl⟩ := List.mem_map.1 h
    refine ⟨l, hl, ?_, ?_, ?_, ?_, ?_, ?_, ?_⟩
    · exact (flagsOnly_cancel ex.subId).subId l
    · exact (flagsOnly_cancel ex.subId).group l
    · exact (flagsOnly_cancel ex.subId).consumer l
    · exact (flagsOnly_cancel ex.subId).epoch l
    · exact cancel_exited _ l
    · exact cancel_active _ l
    · intro ex' he hid
      cases he
      simp [hid]

/-- After `previousSubscriber.sub.Close()` nobody of the group is active any more. -/
theorem closePrev_silences {s : State} (hr : Reg s) (g : String) (hg : g ≠ "") :
    ∀ l' ∈ (closePrev s (existing s g)).loops, l'.group = g → l'.active = false := by
  intro l' hl' hgl
  cases hact : l'.active with
  | false => rfl
  | true =>
    exfalso
    obtain ⟨l, hl, _, h2, _, _, _, h6, h7⟩ := mem_closePrev hl'
    have hlg : l.group = g := by rw [← h2]; exact hgl
    have hreg := hr l hl (by rw [hlg]; exact hg) (h6 hact)
    rw [hlg] at hreg
    obtain ⟨m, hm, hmid⟩ := Option.map_eq_some_iff.1 hreg
    have hex : existing s g = some m := by simp [existing, hg, hm]
    have hc := h7 m hex hmid.symm
    simp [Loop.active, hc] at hact

/-! #### registration -/

theorem inv_register {s : State} (g c : String) (e : Nat) (h : Inv s) : Inv (register s g c e) := by
  refine ⟨?_, ?_, ?_, ?_⟩
  · intro l hl
    simp only [register, List.mem_cons, List.length_cons] at hl ⊢
    rcases hl with rfl | hl
    · simp
    · exact Nat.lt_succ_of_lt (h.ids l hl)
  · simp only [register]
    rw [List.pairwise_cons]
    refine ⟨?_, h.nodup⟩
    intro a ha heq
    have := h.ids a ha
    simp only at heq
    omega
  · simp only [register]
    by_cases hg : g = ""
    · simp [hg, h.noEmpty]
    · have hg' : ¬ "" = g := fun x => hg x.symm
      simp [hg, lookup_put, hg', h.noEmpty]
  · intro g' m hgm
    simp only [register] at hgm ⊢
    by_cases hg : g = ""
    · simp only [hg, if_true] at hgm
      obtain ⟨l, hl, hrest⟩ := h.live g' m hgm
      exact ⟨l, List.mem_cons_of_mem _ hl, hrest⟩
    · simp only [hg, if_false, lookup_put] at hgm
      by_cases hgg : g' = g
      · subst hgg
        simp only [if_true, Option.some.injEq] at hgm
        subst hgm
        exact ⟨_, List.mem_cons_self, rfl, rfl, rfl, rfl, rfl⟩
      · simp only [hgg, if_false] at hgm
        obtain ⟨l, hl, hrest⟩ := h.live g' m hgm
        exact ⟨l, List.mem_cons_of_mem _ hl, hrest⟩

theorem reg_register {s : State} (g c : String) (e : Nat) (h : Reg s)
    (hquiet : g ≠ "" → ∀ l ∈ s.loops, l.group = g → l.active = false) :
    Reg (register s g c e) := by
  intro l hl hgl hact
  simp only [register, List.mem_cons] at hl ⊢
  rcases hl with rfl | hl
  · simp only at hgl
    simp [hgl, lookup_put]
  · by_cases hg : g = ""
    · simpa [hg] using h l hl hgl hact
    · have hne : l.group ≠ g := by
        intro heq
        have := hquiet hg l hl heq
        rw [this] at hact
        cases hact
      simpa [hg, lookup_put, hne] using h l hl hgl hact

theorem distinct_register {s : State} (g c : String) (e : Nat) (h : Distinct s)
    (hfresh : ∀ l ∈ s.loops, l.group = g → l.consumer = c → l.exited = true) :
    Distinct (register s g c e) := by
  intro a ha b hb ea eb hg hc
  simp only [register, List.mem_cons] at ha hb
  rcases ha with rfl | ha <;> rcases hb with rfl | hb
  · rfl
  · simp only at hg hc
    have := hfresh b hb hg.symm hc.symm
    rw [this] at eb
    cases eb
  · simp only at hg hc
    have := hfresh a ha hg hc
    rw [this] at ea
    cases ea
  · exact h a ha b hb ea eb hg hc

/-! #### loop exit -/

theorem cleanup_cases (cfg : Cfg) (cs : List (String × Member)) (l : Loop) :
    cleanup cfg cs l = cs ∨
    (l.group ≠ "" ∧ ∃ m, lookup l.group cs = some m ∧ cleanupMatches cfg m l = true ∧
      cleanup cfg cs l = del l.group cs) := by
  unfold cleanup
  by_cases hg : l.group = ""
  · simp [hg]
  · cases hl : lookup l.group cs with
    | none => simp [hg]
    | some m =>
      cases hm : cleanupMatches cfg m l with
      | false => simp [hg, hm]
      | true => exact Or.inr ⟨hg, m, rfl, hm, by simp [hg, hm]⟩

theorem cleanup_deletes {cfg : Cfg} {cs : List (String × Member)} {l : Loop} {m : Member}
    (hg : l.group ≠ "") (hl : lookup l.group cs = some m) (hm : cleanupMatches cfg m l = true) :
    cleanup cfg cs l = del l.group cs := by
  unfold cleanup
  simp [hg, hl, hm]

theorem lookup_cleanup_some {cfg : Cfg} {cs : List (String × Member)} {l : Loop} {g : String}
    {m : Member} (h : lookup g (cleanup cfg cs l) = some m) : lookup g cs = some m := by
  rcases cleanup_cases cfg cs l with hc | ⟨_, _, _, _, hc⟩
  · rw [hc] at h; exact h
  · rw [hc, lookup_del] at h
    split at h
    · cases h
    · exact h

theorem exit_exited_false (id : Nat) (l : Loop)
    (h : (if l.subId = id then { l with exited := true } else l).exited = false) :
    l.subId ≠ id ∧ l.exited = false := by
  by_cases hid : l.subId = id
  · simp [hid] at h
  · simp [hid] at h
    exact ⟨hid, h⟩

theorem inv_loopExit {cfg : Cfg} {s : State} {l : Loop} (hl : l ∈ s.loops) (h : Inv s) :
    Inv { consumers := cleanup cfg s.consumers l, loops := exitLoops l.subId s.loops } := by
  have hf := flagsOnly_exit l.subId
  refine ⟨?_, ?_, ?_, ?_⟩
  · intro l' hl'
    obtain ⟨l0, hl0, rfl⟩ := List.mem_map.1 hl'
    simpa [exitLoops, hf.subId] using h.ids l0 hl0
  · show (exitLoops l.subId s.loops).Pairwise _
    unfold exitLoops
    rw [List.pairwise_map]
    exact h.nodup.imp (fun hab => by simpa [hf.subId] using hab)
  · cases hc : lookup "" (cleanup cfg s.consumers l) with
    | none => rfl
    | some m => have := lookup_cleanup_some hc; rw [h.noEmpty] at this; cases this
  · intro g m hgm
    have hgm0 := lookup_cleanup_some hgm
    obtain ⟨l0, hl0, h1, h2, h3, h4, h5⟩ := h.live g m hgm0
    by_cases hid : l0.subId = l.subId
    · -- the entry names the exiting loop: the clean-up has deleted it, whatever it compares
      exfalso
      have hll : l0 = l := eq_of_subId_eq h.nodup l0 hl0 l hl hid
      subst hll
      have hgne : l0.group ≠ "" := by
        intro hge
        rw [h2] at hge
        subst hge
        rw [h.noEmpty] at hgm0
        cases hgm0
      have hm : cleanupMatches cfg m l0 = true := by
        unfold cleanupMatches
        split <;> simp [h1, h3]
      have hgm1 : lookup l0.group s.consumers = some m := by rw [h2]; exact hgm0
      rw [cleanup_deletes hgne hgm1 hm, h2, lookup_del] at hgm
      simp at hgm
    · refine ⟨l0, ?_, h1, h2, h3, h4, h5⟩
      show l0 ∈ exitLoops l.subId s.loops
      refine List.mem_map.2 ⟨l0, hl0, ?_⟩
      simp [hid]

theorem reg_loopExit {cfg : Cfg} {s : State} {l : Loop} (hl : l ∈ s.loops) (hex : l.exited = false)
    (hi : Inv s) (h : Reg s) (hmode : cfg.bySub = true ∨ Distinct s) :
    Reg { consumers := cleanup cfg s.consumers l, loops := exitLoops l.subId s.loops } := by
  intro l' hl' hgl hact
  obtain ⟨l0, hl0, rfl⟩ := List.mem_map.1 hl'
  by_cases hid : l0.subId = l.subId
  · simp [hid, Loop.active] at hact
  · simp only [hid, if_false] at hgl hact ⊢
    have hreg := h l0 hl0 hgl hact
    obtain ⟨m, hm, hmid⟩ := Option.map_eq_some_iff.1 hreg
    have hkeep : lookup l0.group (cleanup cfg s.consumers l) = some m := by
      rcases cleanup_cases cfg s.consumers l with hc | ⟨_, m', hm', hmatch, hc⟩
      · rw [hc]; exact hm
      · rw [hc, lookup_del]
        by_cases hgg : l0.group = l.group
        · exfalso
          have hmm : m' = m := by
            rw [hgg, hm'] at hm
            exact Option.some.inj hm
          subst hmm
          obtain ⟨l1, hl1, g1, _, g3, _, g5⟩ := hi.live l.group m' hm'
          have hl10 : l1 = l0 := eq_of_subId_eq hi.nodup l1 hl1 l0 hl0 (g1.trans hmid)
          subst hl10
          unfold cleanupMatches at hmatch
          split at hmatch
          · simp at hmatch
            exact hid (hmid.symm.trans hmatch)
          · rename_i hnb
            rcases hmode with hb | hd
            · exact hnb hb
            · simp at hmatch
              exact hid (hd l1 hl1 l hl g5 hex hgg (g3.trans hmatch))
        · simp [hgg, hm]
    simp [hkeep, hmid]

theorem distinct_loopExit {cfg : Cfg} {s : State} (id : Nat) (l : Loop) (h : Distinct s) :
    Distinct { consumers := cleanup cfg s.consumers l, loops := exitLoops id s.loops } := by
  have := distinct_mapLoops (s := s) (flagsOnly_exit id)
    (fun l hl => (exit_exited_false id l hl).2) h
  intro a ha b hb
  exact this a ha b hb

/-! ### every step preserves the invariants -/

theorem subscribe_cases (cfg : Cfg) (s : State) (g c : String) (e : Nat) (o : Outcome) :
    (refusedBy cfg (existing s g) e = true ∧ subscribe cfg s g c e o = (s, .refused)) ∨
    (refusedBy cfg (existing s g) e = false ∧
      ((o = .early ∧ subscribe cfg s g c e o = (s, .invalid)) ∨
       (o = .late ∧ subscribe cfg s g c e o = (closePrev s (existing s g), .readerFailed)) ∨
       (o = .ok ∧ subscribe cfg s g c e o =
          (register (closePrev s (existing s g)) g c e, .sub s.loops.length)))) := by
  unfold subscribe
  cases hr : refusedBy cfg (existing s g) e with
  | true => simp [hr]
  | false => cases o <;> simp [hr]

theorem inv_step (cfg : Cfg) {s : State} (h : Inv s) (st : Step) : Inv (step cfg s st).1 := by
  cases st with
  | subscribe g c e o =>
    simp only [step]
    rcases subscribe_cases cfg s g c e o with ⟨_, hs⟩ | ⟨_, ⟨_, hs⟩ | ⟨_, hs⟩ | ⟨_, hs⟩⟩ <;> rw [hs]
    · exact h
    · exact h
    · exact inv_closePrev _ h
    · exact inv_register g c e (inv_closePrev _ h)
  | cancel id =>
    simp only [step, cancel]
    split
    · exact inv_cancelLoops id h
    · exact h
  | loopExit id =>
    simp only [step, loopExit]
    split
    · rename_i l hf
      obtain ⟨hl, hid⟩ := findLoop_some hf
      split
      · exact h
      · subst hid; exact inv_loopExit hl h
    · exact h

/-- What the step needs from its environment for `Reg`/`Distinct` to survive it. -/
def StepOk (cfg : Cfg) (s : State) (st : Step) : Prop :=
  cfg.bySub = true ∨
    match st with
    | .subscribe g c _ _ => ∀ l ∈ s.loops, l.group = g → l.consumer = c → l.exited = true
    | _ => True

/-- `Inv`, `Reg`, and — unless the clean-up compares subscriptions — `Distinct`. -/
structure Good (cfg : Cfg) (s : State) : Prop where
  inv : Inv s
  reg : Reg s
  mode : cfg.bySub = true ∨ Distinct s

theorem good_empty (cfg : Cfg) : Good cfg State.empty :=
  ⟨inv_empty, reg_empty, Or.inr distinct_empty⟩

theorem good_step (cfg : Cfg) {s : State} (h : Good cfg s) (st : Step) (hok : StepOk cfg s st) :
    Good cfg (step cfg s st).1 := by
  refine ⟨inv_step cfg h.inv st, ?_, ?_⟩
  · -- Reg
    cases st with
    | subscribe g c e o =>
      simp only [step]
      rcases subscribe_cases cfg s g c e o with ⟨_, hs⟩ | ⟨_, ⟨_, hs⟩ | ⟨_, hs⟩ | ⟨_, hs⟩⟩ <;> rw [hs]
      · exact h.reg
      · exact h.reg
      · exact reg_closePrev _ h.reg
      · refine reg_register g c e (reg_closePrev _ h.reg) ?_
        intro hg
        exact closePrev_silences h.reg g hg
    | cancel id =>
      simp only [step, cancel]
      split
      · exact reg_cancelLoops id h.reg
      · exact h.reg
    | loopExit id =>
      simp only [step, loopExit]
      split
      · rename_i l hf
        obtain ⟨hl, hid⟩ := findLoop_some hf
        split
        · exact h.reg
        · rename_i hne
          subst hid
          exact reg_loopExit hl (by simpa using hne) h.inv h.reg h.mode
      · exact h.reg
  · -- Distinct (only needed while the clean-up compares consumer ids)
    rcases h.mode with hb | hd
    · exact Or.inl hb
    · rcases hok with hb | hfresh
      · exact Or.inl hb
      · refine Or.inr ?_
        cases st with
        | subscribe g c e o =>
          simp only [step]
          rcases subscribe_cases cfg s g c e o with ⟨_, hs⟩ | ⟨_, ⟨_, hs⟩ | ⟨_, hs⟩ | ⟨_, hs⟩⟩ <;>
            rw [hs]
          · exact hd
          · exact hd
          · exact distinct_closePrev _ hd
          · refine distinct_register g c e (distinct_closePrev _ hd) ?_
            intro l' hl' hg hc
            obtain ⟨l, hl, _, h2, h3, _, h5, _, _⟩ := mem_closePrev hl'
            rw [h5]
            exact hfresh l hl (h2 ▸ hg) (h3 ▸ hc)
        | cancel id =>
          simp only [step, cancel]
          split
          · exact distinct_cancelLoops id hd
          · exact hd
        | loopExit id =>
          simp only [step, loopExit]
          split
          · split
            · exact hd
            · exact distinct_loopExit id _ hd
          · exact hd

theorem noLiveReuse_stepOk {cfg : Cfg} {s : State} {st : Step} {rest : List Step}
    (h : NoLiveReuse cfg s (st :: rest)) : StepOk cfg s st := by
  refine Or.inr ?_
  have := h.1
  cases st <;> first | exact this | trivial

theorem inv_run (cfg : Cfg) (steps : List Step) : ∀ s, Inv s → Inv (run cfg s steps) := by
  induction steps with
  | nil => intro s h; exact h
  | cons st rest ih => intro s h; exact ih _ (inv_step cfg h st)

theorem good_run_bySub (cfg : Cfg) (hb : cfg.bySub = true) (steps : List Step) :
    ∀ s, Good cfg s → Good cfg (run cfg s steps) := by
  induction steps with
  | nil => intro s h; exact h
  | cons st rest ih => intro s h; exact ih _ (good_step cfg h st (Or.inl hb))

theorem good_run_noLiveReuse (cfg : Cfg) (steps : List Step) :
    ∀ s, Good cfg s → NoLiveReuse cfg s steps → Good cfg (run cfg s steps) := by
  induction steps with
  | nil => intro s h _; exact h
  | cons st rest ih =>
    intro s h hn
    exact ih _ (good_step cfg h st (noLiveReuse_stepOk hn)) hn.2

/-! ### consequences -/

/-- `Reg` + distinct ids ⇒ at most one active subscription per group. -/
theorem atMostOne_of_reg {s : State} (hi : Inv s) (hr : Reg s) (g : String) (hg : g ≠ "") :
    (activeOf s g).length ≤ 1 := by
  have hsub : (activeOf s g).Pairwise (fun a b => a.subId ≠ b.subId) :=
    hi.nodup.sublist List.filter_sublist
  have hmem : ∀ l ∈ activeOf s g, l ∈ s.loops ∧ l.group = g ∧ l.active = true := by
    intro l hl
    have := List.mem_filter.1 hl
    simpa using this
  cases hlk : lookup g s.consumers with
  | none =>
    have : activeOf s g = [] := by
      apply List.eq_nil_iff_forall_not_mem.2
      intro l hl
      obtain ⟨h1, h2, h3⟩ := hmem l hl
      have := hr l h1 (h2 ▸ hg) h3
      rw [h2, hlk] at this
      cases this
    simp [this]
  | some m =>
    apply length_le_one_of_same_id hsub m.subId
    intro l hl
    obtain ⟨h1, h2, h3⟩ := hmem l hl
    have := hr l h1 (h2 ▸ hg) h3
    rw [h2, hlk] at this
    simpa using this.symm

/-- The loops of the next state carry (group, consumer id) pairs of the old loops or of the
subscribe step just taken. -/
theorem step_cores (cfg : Cfg) (s : State) (st : Step) :
    ∀ l' ∈ (step cfg s st).1.loops,
      (∃ l ∈ s.loops, l'.group = l.group ∧ l'.consumer = l.consumer) ∨
      (∃ g c e o, st = .subscribe g c e o ∧ l'.group = g ∧ l'.consumer = c) := by
  intro l' hl'
  have keepMap : ∀ (f : Loop → Loop), FlagsOnly f → l' ∈ s.loops.map f →
      ∃ l ∈ s.loops, l'.group = l.group ∧ l'.consumer = l.consumer := by
    intro f hf hm
    obtain ⟨l, hl, rfl⟩ := List.mem_map.1 hm
    exact ⟨l, hl, hf.group l, hf.consumer l⟩
  cases st with
  | subscribe g c e o =>
    simp only [step] at hl'
    rcases subscribe_cases cfg s g c e o with ⟨_, hs⟩ | ⟨_, ⟨_, hs⟩ | ⟨_, hs⟩ | ⟨ho, hs⟩⟩ <;>
      rw [hs] at hl'
    · exact Or.inl ⟨l', hl', rfl, rfl⟩
    · exact Or.inl ⟨l', hl', rfl, rfl⟩
    · obtain ⟨l, hl, _, h2, h3, _⟩ := mem_closePrev hl'
      exact Or.inl ⟨l, hl, h2, h3⟩
    · rcases List.mem_cons.1 hl' with rfl | hl'
      · exact Or.inr ⟨g, c, e, .ok, by rw [ho], rfl, rfl⟩
      · obtain ⟨l, hl, _, h2, h3, _⟩ := mem_closePrev hl'
        exact Or.inl ⟨l, hl, h2, h3⟩
  | cancel id =>
    simp only [step, cancel] at hl'
    split at hl'
    · exact Or.inl (keepMap _ (flagsOnly_cancel id) hl')
    · exact Or.inl ⟨l', hl', rfl, rfl⟩
  | loopExit id =>
    simp only [step, loopExit] at hl'
    split at hl'
    · split at hl'
      · exact Or.inl ⟨l', hl', rfl, rfl⟩
      · exact Or.inl (keepMap _ (flagsOnly_exit id) hl')
    · exact Or.inl ⟨l', hl', rfl, rfl⟩

/-- Pairwise distinct (group, consumer id) pairs of the subscribe steps imply `NoLiveReuse`. -/
theorem noLiveReuse_of_nodup (cfg : Cfg) (steps : List Step) :
    ∀ s, (∀ l ∈ s.loops, (l.group, l.consumer) ∉ subscribers steps) → (subscribers steps).Nodup →
      NoLiveReuse cfg s steps := by
  induction steps with
  | nil => intro s _ _; trivial
  | cons st rest ih =>
    intro s hs hnd
    constructor
    · cases st with
      | subscribe g c e o =>
        intro l hl hg hc
        exact absurd (by simp [subscribers, hg, hc]) (hs l hl)
      | cancel id => trivial
      | loopExit id => trivial
    · apply ih
      · intro l' hl'
        rcases step_cores cfg s st l' hl' with ⟨l, hl, h2, h3⟩ | ⟨g, c, e, o, rfl, h2, h3⟩
        · have := hs l hl
          rw [h2, h3]
          intro hmem
          apply this
          cases st <;> simp [subscribers, hmem]
        · rw [h2, h3]
          simp only [subscribers, List.nodup_cons] at hnd
          exact hnd.1
      · cases st with
        | subscribe g c e o => simp only [subscribers, List.nodup_cons] at hnd; exact hnd.2
        | cancel id => exact hnd
        | loopExit id => exact hnd

/-! ### state-level consequences used by the property theorems -/

theorem mem_activeOf {s : State} {g : String} {l : Loop} :
    l ∈ activeOf s g ↔ l ∈ s.loops ∧ l.group = g ∧ l.active = true := by
  unfold activeOf
  rw [List.mem_filter]
  simp

/-- The registered member of an active subscription is exactly that subscription. -/
theorem registered_exact {s : State} (hi : Inv s) (hr : Reg s) {l : Loop} (hl : l ∈ s.loops)
    (hg : l.group ≠ "") (ha : l.active = true) :
    lookup l.group s.consumers = some ⟨l.consumer, l.epoch, l.subId⟩ := by
  obtain ⟨m, hm, hmid⟩ := Option.map_eq_some_iff.1 (hr l hl hg ha)
  obtain ⟨l1, hl1, g1, _, g3, g4, _⟩ := hi.live l.group m hm
  have : l1 = l := eq_of_subId_eq hi.nodup l1 hl1 l hl (g1.trans hmid)
  subst this
  rw [hm]
  cases m
  simp_all

theorem existing_of_active {s : State} (hi : Inv s) (hr : Reg s) {g : String} {l : Loop}
    (hl : l ∈ activeOf s g) (hg : g ≠ "") :
    existing s g = some ⟨l.consumer, l.epoch, l.subId⟩ := by
  obtain ⟨h1, h2, h3⟩ := mem_activeOf.1 hl
  have := registered_exact hi hr h1 (h2 ▸ hg) h3
  rw [h2] at this
  simp [existing, hg, this]

/-- Older epoch than the active subscription's: refused, nothing changes. -/
theorem older_refused_of_good {cfg : Cfg} (hgt : cfg.refuse = .gt) {s : State} (hi : Inv s)
    (hr : Reg s) {g : String} {l : Loop} (hl : l ∈ activeOf s g) (hg : g ≠ "") (c : String) {e : Nat}
    (he : e < l.epoch) (o : Outcome) : subscribe cfg s g c e o = (s, .refused) := by
  have hex := existing_of_active hi hr hl hg
  have : refusedBy cfg (existing s g) e = true := by
    simp [hex, refusedBy, hgt, Cmp.evalNat, he]
  unfold subscribe
  simp [this]

theorem activeOf_register_quiet {s : State} (g c : String) (e : Nat)
    (hq : ∀ l ∈ s.loops, l.group = g → l.active = false) :
    activeOf (register s g c e) g = [⟨s.loops.length, g, c, e, false, false⟩] := by
  unfold activeOf register
  simp only [List.filter_cons, Loop.active, Bool.not_false, Bool.and_self, decide_true, if_true]
  congr 1
  apply List.filter_eq_nil_iff.2
  intro l hl
  by_cases hgl : l.group = g
  · have := hq l hl hgl
    simp [Loop.active] at this
    simp [hgl]
    exact this
  · simp [hgl]

/-- Equal or newer epoch than the active subscription's: the subscriber is accepted, gets the next
id, is registered, is the ONLY active subscription of the group, and the previous one is closed. -/
theorem newer_replaces_of_good {cfg : Cfg} (hgt : cfg.refuse = .gt) {s : State} (hi : Inv s)
    (hr : Reg s) {g : String} {l : Loop} (hl : l ∈ activeOf s g) (hg : g ≠ "") (c : String) {e : Nat}
    (he : l.epoch ≤ e) :
    (subscribe cfg s g c e .ok).2 = .sub s.loops.length ∧
    activeOf (subscribe cfg s g c e .ok).1 g = [⟨s.loops.length, g, c, e, false, false⟩] ∧
    lookup g (subscribe cfg s g c e .ok).1.consumers = some ⟨c, e, s.loops.length⟩ ∧
    (∀ l' ∈ (subscribe cfg s g c e .ok).1.loops, l'.subId = l.subId → l'.cancelled = true) := by
  have hex := existing_of_active hi hr hl hg
  have hnr : refusedBy cfg (existing s g) e = false := by
    simp [hex, refusedBy, hgt, Cmp.evalNat]
    omega
  have hs : subscribe cfg s g c e .ok =
      (register (closePrev s (existing s g)) g c e, .sub s.loops.length) := by
    unfold subscribe
    simp [hnr]
  rw [hs]
  refine ⟨rfl, ?_, ?_, ?_⟩
  · have := activeOf_register_quiet (s := closePrev s (existing s g)) g c e
      (closePrev_silences hr g hg)
    rw [closePrev_length] at this
    exact this
  · simp [register, hg, lookup_put, closePrev_length]
  · intro l' hl' hid
    simp only [register, List.mem_cons] at hl'
    rcases hl' with rfl | hl'
    · exfalso
      simp only [closePrev_length] at hid
      have := hi.ids l (mem_activeOf.1 hl).1
      omega
    · obtain ⟨l0, _, h1, _, _, _, _, _, h7⟩ := mem_closePrev hl'
      exact h7 _ hex (by rw [← h1, hid])

/-- A subscribe of group `g` does not touch the other groups: neither their registration nor
their active subscriptions. -/
theorem subscribe_frame (cfg : Cfg) {s : State} (hi : Inv s) (g c : String) (e : Nat) (o : Outcome)
    (g' : String) (hne : g' ≠ g) :
    lookup g' (subscribe cfg s g c e o).1.consumers = lookup g' s.consumers ∧
    activeOf (subscribe cfg s g c e o).1 g' = activeOf s g' := by
  have hclose : activeOf (closePrev s (existing s g)) g' = activeOf s g' := by
    cases hex : existing s g with
    | none => rfl
    | some ex =>
      have hgne : g ≠ "" := by
        intro h; simp [existing, h] at hex
      have hlk : lookup g s.consumers = some ex := by simpa [existing, hgne] using hex
      obtain ⟨l1, hl1, g1, g2, _⟩ := hi.live g ex hlk
      unfold activeOf closePrev cancelLoops
      apply filter_map_eq
      intro l hl
      by_cases hid : l.subId = ex.subId
      · have : l = l1 := eq_of_subId_eq hi.nodup l hl l1 hl1 (hid.trans g1.symm)
        subst this
        have : ¬ l.group = g' := fun h => hne (h.symm.trans g2)
        simp [hid, this]
      · simp [hid]
  rcases subscribe_cases cfg s g c e o with ⟨_, hs⟩ | ⟨_, ⟨_, hs⟩ | ⟨_, hs⟩ | ⟨_, hs⟩⟩ <;> rw [hs]
  · exact ⟨rfl, rfl⟩
  · exact ⟨rfl, rfl⟩
  · exact ⟨by rw [closePrev_consumers], hclose⟩
  · constructor
    · simp only [register, closePrev_consumers]
      by_cases hg : g = ""
      · simp [hg]
      · simp [hg, lookup_put, hne]
    · rw [← hclose]
      unfold activeOf register
      have : ¬ g = g' := fun h => hne h.symm
      simp [this]

/-- `refused` is answered exactly when a member with a newer epoch is registered. -/
theorem refused_iff_of_gt {cfg : Cfg} (hgt : cfg.refuse = .gt) (s : State) (g c : String) (e : Nat)
    (o : Outcome) (hg : g ≠ "") :
    (subscribe cfg s g c e o).2 = .refused ↔ ∃ ex, lookup g s.consumers = some ex ∧ e < ex.epoch := by
  rcases subscribe_cases cfg s g c e o with ⟨hr, hs⟩ | ⟨hr, ⟨_, hs⟩ | ⟨_, hs⟩ | ⟨_, hs⟩⟩ <;>
    rw [hs] <;> simp only [existing, hg, if_false, refusedBy] at hr
  · constructor
    · intro _
      cases hl : lookup g s.consumers with
      | none => rw [hl] at hr; cases hr
      | some ex =>
        rw [hl] at hr
        exact ⟨ex, rfl, by simpa [hgt, Cmp.evalNat] using hr⟩
    · intro _; rfl
  all_goals
    constructor
    · intro h; cases h
    · rintro ⟨ex, hl, he⟩
      rw [hl] at hr
      simp [hgt, Cmp.evalNat] at hr
      omega

theorem filter_map_length_le {α} (p : α → Bool) (f : α → α) (ls : List α)
    (h : ∀ l, p (f l) = true → p l = true) : ((ls.map f).filter p).length ≤ (ls.filter p).length := by
  induction ls with
  | nil => simp
  | cons x xs ih =>
    simp only [List.map_cons, List.filter_cons]
    cases hfx : p (f x) with
    | true => simp [h x hfx]; exact ih
    | false =>
      cases hx : p x with
      | true => simp; exact Nat.le_succ_of_le ih
      | false => simpa using ih

/-- Closing the previous subscriber never makes anybody active. -/
theorem activeOf_closePrev_le (s : State) (prev : Option Member) (g : String) :
    (activeOf (closePrev s prev) g).length ≤ (activeOf s g).length := by
  cases prev with
  | none => exact Nat.le_refl _
  | some ex =>
    unfold activeOf closePrev cancelLoops
    apply filter_map_length_le
    intro l hl
    have hf := flagsOnly_cancel ex.subId
    simp only [Bool.and_eq_true, decide_eq_true_eq] at hl ⊢
    exact ⟨by rw [← hl.1]; exact (hf.group l).symm, cancel_active _ l hl.2⟩

end Liftbridge.Proofs.GroupSub
