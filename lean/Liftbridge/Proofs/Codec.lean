/- Helper lemmas for the message codec round trip. -/
import Liftbridge.Model.Codec
namespace Liftbridge.Proofs.Codec
open Liftbridge Liftbridge.Codec

/-! ### Big-endian integers -/

@[simp] theorem beBytes_length (k v : Nat) : (beBytes k v).length = k := by
  induction k with
  | zero => rfl
  | succ k ih => simp [beBytes, ih]

theorem beNat_nil : beNat [] = 0 := rfl

theorem foldl_be (l : Bytes) (acc : Nat) :
    l.foldl (fun acc x => acc * 256 + x.toNat) acc = acc * 256 ^ l.length + beNat l := by
  induction l generalizing acc with
  | nil => simp [beNat]
  | cons x xs ih =>
    simp only [List.foldl_cons, beNat, List.length_cons]
    rw [ih, ih (0 * 256 + x.toNat)]
    simp only [beNat, Nat.zero_mul, Nat.zero_add, Nat.add_mul, Nat.pow_succ, Nat.add_assoc]
    rw [Nat.mul_assoc, Nat.mul_comm 256]

theorem beNat_cons (x : UInt8) (l : Bytes) :
    beNat (x :: l) = x.toNat * 256 ^ l.length + beNat l := by
  have := foldl_be l (0 * 256 + x.toNat)
  simpa [beNat] using this

theorem toNat_ofNat_mod (x : Nat) : (UInt8.ofNat (x % 256)).toNat = x % 256 := by
  simp [UInt8.toNat_ofNat']

theorem beNat_beBytes (k v : Nat) : beNat (beBytes k v) = v % 256 ^ k := by
  induction k with
  | zero => simp [beBytes, beNat_nil, Nat.mod_one]
  | succ k ih =>
    rw [beBytes, beNat_cons, ih, beBytes_length, toNat_ofNat_mod, Nat.mod_pow_succ,
      Nat.mul_comm, Nat.add_comm]

/-! ### Go slicing of concatenations -/

theorem sliceFrom_append {α} {m : List α} {at' : Nat} (pre rest : List α)
    (hm : m = pre ++ rest) (hat : at' = pre.length) : sliceFrom m at' = .ok rest := by
  subst hm hat
  simp [sliceFrom]

theorem slice_append {α} {m : List α} {a b : Nat} (pre mid post : List α)
    (hm : m = pre ++ (mid ++ post)) (ha : a = pre.length) (hb : b = pre.length + mid.length) :
    slice m a b = .ok mid := by
  subst hm ha hb
  have h2 : (pre ++ (mid ++ post)).take (pre.length + mid.length) = pre ++ mid := by
    rw [← List.append_assoc, ← List.length_append, List.take_left']
    rfl
  simp [slice, h2]

/-! ### Integer reads -/

theorem getInt32_be {m : Bytes} {at' : Nat} (pre post : Bytes) (v : Nat)
    (hm : m = pre ++ (beBytes 4 v ++ post)) (hat : at' = pre.length) :
    getInt32 m at' =
      .ok (if v % 2 ^ 32 ≥ 2 ^ 31 then ((v % 2 ^ 32 : Nat) : Int) - 2 ^ 32 else ((v % 2 ^ 32 : Nat) : Int)) := by
  have htake : (beBytes 4 v ++ post).take 4 = beBytes 4 v := by
    have := List.take_left' (l₁ := beBytes 4 v) (l₂ := post) (beBytes_length 4 v)
    exact this
  have hlen : ¬ (beBytes 4 v ++ post).length < 4 := by
    simp only [List.length_append, beBytes_length]; omega
  unfold getInt32
  rw [sliceFrom_append pre _ hm hat]
  simp only [Res.bind_ok, hlen, if_false, htake, beNat_beBytes]

theorem getUint16_be {m : Bytes} {at' : Nat} (pre post : Bytes) (v : Nat)
    (hm : m = pre ++ (beBytes 2 v ++ post)) (hat : at' = pre.length) :
    getUint16 m at' = .ok (v % 2 ^ 16) := by
  have htake : (beBytes 2 v ++ post).take 2 = beBytes 2 v :=
    List.take_left' (l₁ := beBytes 2 v) (l₂ := post) (beBytes_length 2 v)
  have hlen : ¬ (beBytes 2 v ++ post).length < 2 := by
    simp only [List.length_append, beBytes_length]; omega
  unfold getUint16
  rw [sliceFrom_append pre _ hm hat]
  simp only [Res.bind_ok, hlen, if_false, htake, beNat_beBytes]

/-! ### Size-prefixed fields -/

/-- The `int32` size that `putBytes` stores. -/
def sizeOfField : Option Bytes → Int
  | none => -1
  | some b => b.length

theorem putBytes_length (x : Option Bytes) : (putBytes x).length = 4 + Log.bytesLen x := by
  cases x <;> simp [putBytes, Log.bytesLen]

theorem getInt32_putBytes {m : Bytes} {at' : Nat} (pre post : Bytes) (x : Option Bytes)
    (hx : Log.bytesLen x < 2 ^ 31)
    (hm : m = pre ++ (putBytes x ++ post)) (hat : at' = pre.length) :
    getInt32 m at' = .ok (sizeOfField x) := by
  cases x with
  | none =>
    rw [getInt32_be pre post (2 ^ 32 - 1) (by simpa [putBytes] using hm) hat]
    simp [sizeOfField]
  | some b =>
    have hb : b.length < 2 ^ 31 := hx
    rw [getInt32_be pre (b ++ post) b.length (by simpa [putBytes] using hm) hat]
    have : b.length % 2 ^ 32 = b.length := Nat.mod_eq_of_lt (by omega)
    rw [this]
    have : ¬ b.length ≥ 2 ^ 31 := by omega
    simp [sizeOfField, this]

theorem fieldOffsets_putBytes {m : Bytes} {at' : Nat} (pre post : Bytes) (x : Option Bytes)
    (hx : Log.bytesLen x < 2 ^ 31)
    (hm : m = pre ++ (putBytes x ++ post)) (hat : at' = pre.length) :
    fieldOffsets m at' =
      .ok (at', ((at' + (putBytes x).length : Nat) : Int), sizeOfField x) := by
  unfold fieldOffsets
  rw [getInt32_putBytes pre post x hx hm hat]
  simp only [Res.bind_ok, putBytes_length]
  cases x with
  | none => simp [sizeOfField, Log.bytesLen]
  | some b =>
    have : ((b.length : Nat) : Int) ≠ -1 := by omega
    simp [sizeOfField, Log.bytesLen, this]; omega

theorem fieldBytes_putBytes {m : Bytes} {at' : Nat} (pre post : Bytes) (x : Option Bytes)
    (hx : Log.bytesLen x < 2 ^ 31)
    (hm : m = pre ++ (putBytes x ++ post)) (hat : at' = pre.length) :
    fieldBytes m at' = .ok (x, ((at' + (putBytes x).length : Nat) : Int)) := by
  unfold fieldBytes
  rw [fieldOffsets_putBytes pre post x hx hm hat]
  simp only [Res.bind_ok]
  cases x with
  | none => simp [sizeOfField]
  | some b =>
    have h1 : ¬ (((b.length : Nat) : Int) = -1) := by omega
    have h2 : ¬ (((at' + (putBytes (some b)).length : Nat) : Int) < 0) := by omega
    simp only [sizeOfField, h1, h2, if_false, Int.toNat_natCast]
    rw [slice_append (pre ++ beBytes 4 b.length) b post
      (by simp [hm, putBytes]) (by simp [hat]) (by simp [hat, putBytes]; omega)]
    rfl

/-! ### Headers -/

theorem putString_length (k : Bytes) : (putString k).length = 2 + k.length := by
  simp [putString]

/-- Bounds under which one header is read back (the key bound is the one of the *decoder*,
which reads the length as `uint16`; `WF` has the stricter encoder bound `2^15`). -/
def HdrOk (kv : Bytes × Option Bytes) : Prop := kv.1.length < 2 ^ 16 ∧ Log.bytesLen kv.2 < 2 ^ 31

theorem readHeaders_putHeaders (hs : List (Bytes × Option Bytes)) :
    ∀ {m : Bytes} {at' : Nat} (pre post : Bytes), (∀ kv ∈ hs, HdrOk kv) →
      m = pre ++ (putHeaders hs ++ post) → at' = pre.length →
      readHeaders m hs.length at' = .ok hs := by
  induction hs with
  | nil => intros; rfl
  | cons kv rest ih =>
    intro m at' pre post hok hm hat
    obtain ⟨k, v⟩ := kv
    have hkv : HdrOk (k, v) := hok _ (List.mem_cons_self)
    have hk : k.length < 2 ^ 16 := hkv.1
    have hv : Log.bytesLen v < 2 ^ 31 := hkv.2
    have hm' : m = pre ++ (beBytes 2 k.length ++ (k ++ (putBytes v ++ (putHeaders rest ++ post)))) := by
      simp [hm, putHeaders, putString]
    simp only [List.length_cons, readHeaders]
    rw [getUint16_be pre _ k.length hm' hat]
    have hmod : k.length % 2 ^ 16 = k.length := Nat.mod_eq_of_lt hk
    simp only [Res.bind_ok, hmod]
    rw [slice_append (pre ++ beBytes 2 k.length) k (putBytes v ++ (putHeaders rest ++ post))
      (by simp [hm']) (by simp [hat]) (by simp [hat])]
    simp only [Res.bind_ok]
    rw [fieldBytes_putBytes (pre ++ (beBytes 2 k.length ++ k)) (putHeaders rest ++ post) v hv
      (by simp [hm']) (by simp [hat]; omega)]
    have hneg : ¬ (((at' + 2 + k.length + (putBytes v).length : Nat) : Int) < 0) := by omega
    simp only [Res.bind_ok, hneg, if_false, Int.toNat_natCast]
    rw [ih (pre ++ (beBytes 2 k.length ++ (k ++ putBytes v))) post
      (fun kv h => hok kv (List.mem_cons_of_mem _ h)) (by simp [hm']) (by simp [hat]; omega)]
    rfl

/-! ### The whole message -/

theorem encode_eq (crc : Bytes → Nat) (m : WireMsg) :
    encode crc m = (beBytes 4 (crc (encodeBody m)) ++ [m.magic, m.attrs]) ++
      (putBytes m.key ++ (putBytes m.val ++ (beBytes 2 m.hdrs.length ++ (putHeaders m.hdrs ++ [])))) := by
  simp [encode, encodeBody]

theorem WF.hdrOk {m : WireMsg} (h : WF m) : ∀ kv ∈ m.hdrs, HdrOk kv := by
  intro kv hkv
  have := h.2.2.2 kv hkv
  exact ⟨by have := this.1; omega, this.2⟩

theorem key_encode' (crc : Bytes → Nat) (m : WireMsg) (hk : Log.bytesLen m.key < 2 ^ 31) :
    key (encode crc m) = .ok m.key := by
  unfold key
  rw [fieldBytes_putBytes _ _ m.key hk (encode_eq crc m) (by simp)]
  rfl

theorem value_encode' (crc : Bytes → Nat) (m : WireMsg) (hk : Log.bytesLen m.key < 2 ^ 31)
    (hv : Log.bytesLen m.val < 2 ^ 31) : value (encode crc m) = .ok m.val := by
  unfold value
  rw [fieldOffsets_putBytes _ _ m.key hk (encode_eq crc m) (by simp)]
  have hneg : ¬ (((6 + (putBytes m.key).length : Nat) : Int) < 0) := by omega
  simp only [Res.bind_ok, hneg, if_false, Int.toNat_natCast]
  rw [fieldBytes_putBytes
    ((beBytes 4 (crc (encodeBody m)) ++ [m.magic, m.attrs]) ++ putBytes m.key)
    (beBytes 2 m.hdrs.length ++ (putHeaders m.hdrs ++ [])) m.val hv
    (by rw [encode_eq]; simp) (by simp; omega)]
  rfl

/-- `headers` runs the header loop with the stored count, i.e. `hdrs.length` modulo `2^16`. -/
theorem headers_encode_count (crc : Bytes → Nat) (m : WireMsg) (hk : Log.bytesLen m.key < 2 ^ 31)
    (hv : Log.bytesLen m.val < 2 ^ 31) :
    headers (encode crc m) = readHeaders (encode crc m) (m.hdrs.length % 2 ^ 16)
      (6 + (putBytes m.key).length + (putBytes m.val).length + 2) := by
  unfold headers
  rw [fieldOffsets_putBytes _ _ m.key hk (encode_eq crc m) (by simp)]
  have hneg : ¬ (((6 + (putBytes m.key).length : Nat) : Int) < 0) := by omega
  simp only [Res.bind_ok, hneg, if_false, Int.toNat_natCast]
  rw [fieldOffsets_putBytes
    ((beBytes 4 (crc (encodeBody m)) ++ [m.magic, m.attrs]) ++ putBytes m.key)
    (beBytes 2 m.hdrs.length ++ (putHeaders m.hdrs ++ [])) m.val hv
    (by rw [encode_eq]; simp) (by simp; omega)]
  have hneg2 : ¬ (((6 + (putBytes m.key).length + (putBytes m.val).length : Nat) : Int) < 0) := by
    omega
  simp only [Res.bind_ok, hneg2, if_false, Int.toNat_natCast]
  rw [getUint16_be
    ((beBytes 4 (crc (encodeBody m)) ++ [m.magic, m.attrs]) ++ putBytes m.key ++ putBytes m.val)
    (putHeaders m.hdrs ++ []) m.hdrs.length (by rw [encode_eq]; simp) (by simp; omega)]
  rfl

/-- Only the decoder-side bounds are needed (`HdrOk`: header keys `< 2^16`). -/
theorem headers_encode' (crc : Bytes → Nat) (m : WireMsg) (hk : Log.bytesLen m.key < 2 ^ 31)
    (hv : Log.bytesLen m.val < 2 ^ 31) (hn : m.hdrs.length < 2 ^ 16)
    (hh : ∀ kv ∈ m.hdrs, HdrOk kv) : headers (encode crc m) = .ok m.hdrs := by
  rw [headers_encode_count crc m hk hv, Nat.mod_eq_of_lt hn]
  exact readHeaders_putHeaders m.hdrs
    ((beBytes 4 (crc (encodeBody m)) ++ [m.magic, m.attrs]) ++ putBytes m.key ++ putBytes m.val
      ++ beBytes 2 m.hdrs.length) [] hh (by rw [encode_eq]; simp) (by simp; omega)

/-- A header count that is a multiple of `2^16` is stored as 0: no header is read back. -/
theorem headers_encode_wrap (crc : Bytes → Nat) (m : WireMsg) (hk : Log.bytesLen m.key < 2 ^ 31)
    (hv : Log.bytesLen m.val < 2 ^ 31) (hn : m.hdrs.length % 2 ^ 16 = 0) :
    headers (encode crc m) = .ok [] := by
  rw [headers_encode_count crc m hk hv, hn]
  rfl

theorem crc_encode' (crc : Bytes → Nat) (m : WireMsg) : crcOk crc (encode crc m) = true := by
  have h1 : (encode crc m).take 4 = beBytes 4 (crc (encodeBody m)) :=
    List.take_left' (beBytes_length 4 _)
  have h2 : (encode crc m).drop 4 = encodeBody m :=
    List.drop_left' (beBytes_length 4 _)
  simp [crcOk, h1, h2, beNat_beBytes]

/-! ### Lengths -/

theorem byteArray_toList_loop_length (bs : ByteArray) (i : Nat) (r : List UInt8) :
    (ByteArray.toList.loop bs i r).length = r.length + (bs.size - i) := by
  fun_induction ByteArray.toList.loop bs i r with
  | case1 i r h ih => rw [ih]; simp only [List.length_cons]; omega
  | case2 i r h => simp only [List.length_reverse]; omega

theorem byteArray_toList_length (bs : ByteArray) : bs.toList.length = bs.size := by
  simp [ByteArray.toList, byteArray_toList_loop_length]

theorem toUTF8_toList_length (s : String) : s.toUTF8.toList.length = s.utf8ByteSize := by
  rw [byteArray_toList_length]; rfl

theorem putHeaders_length (hs : List (Bytes × Option Bytes)) :
    (putHeaders hs).length = (hs.map fun kv => 2 + kv.1.length + 4 + Log.bytesLen kv.2).sum := by
  induction hs with
  | nil => rfl
  | cons kv rest ih =>
    obtain ⟨k, v⟩ := kv
    simp only [putHeaders, List.length_append, putString_length, putBytes_length, ih,
      List.map_cons, List.sum_cons]
    omega

theorem encode_length_wire (crc : Bytes → Nat) (m : WireMsg) :
    (encode crc m).length = 4 + 1 + 1 + (4 + Log.bytesLen m.key) + (4 + Log.bytesLen m.val) + 2 +
      (m.hdrs.map fun kv => 2 + kv.1.length + 4 + Log.bytesLen kv.2).sum := by
  simp only [encode, encodeBody, List.length_append, beBytes_length, putBytes_length,
    putHeaders_length, List.length_cons, List.length_nil]
  omega

theorem encode_length' (crc : Bytes → Nat) (p : Log.Payload) :
    (encode crc (toWire p)).length = p.encLen := by
  rw [encode_length_wire]
  simp only [toWire, Log.Payload.encLen, List.map_map]
  congr 2
  apply List.map_congr_left
  intro kv _
  simp only [Function.comp, toUTF8_toList_length]

/-! ### Outside `WF` -/

/-- `n` copies of the smallest header (empty key, nil value). -/
def wrapMsg (n : Nat) : WireMsg :=
  { magic := 1, attrs := 0, key := none, val := none, hdrs := List.replicate n ([], none) }

theorem header_count_wraps' (crc : Bytes → Nat) :
    (wrapMsg 65536).hdrs.length = 65536 ∧ headers (encode crc (wrapMsg 65536)) = .ok [] := by
  have hlen : ∀ n, (wrapMsg n).hdrs.length = n := fun n => List.length_replicate
  refine ⟨hlen _, headers_encode_wrap crc _ ?_ ?_ ?_⟩
  · exact Nat.two_pow_pos 31
  · exact Nat.two_pow_pos 31
  · rw [hlen]

end Liftbridge.Proofs.Codec
