/-
C19 — helper lemmas about the model of `telemetry.New` and `loadOrCreateInstanceID`
(Model/TelemetryCfg.lean). The property theorems are in Props/C19.lean.
-/
import Liftbridge.Model.TelemetryCfg

namespace Liftbridge.Proofs.Telemetry
open Liftbridge Liftbridge.TelemetryTypes Liftbridge.TelemetryCfg

/-- One block of `New` that `rewriteKeepsOff` accepts maps a non-nil disabled config to a
non-nil disabled config. -/
theorem applyRewrite_keepsOff (F : Facts) (r : Rewrite) (c : TCfg)
    (hr : rewriteKeepsOff F.dfltEnabled r = true) (hc : c.enabled = false) :
    ∃ c', applyRewrite F (some c) r = some c' ∧ c'.enabled = false := by
  unfold applyRewrite
  by_cases hg : guardHolds r.guard (some c) = true
  · rw [if_pos hg]
    refine ⟨_, rfl, ?_⟩
    simp only [Option.getD_some]
    unfold rewriteKeepsOff at hr
    -- the guards `isNil true` / `enabled true` cannot hold for a non-nil disabled config
    cases hgd : r.guard with
    | isNil b =>
      cases b with
      | true => rw [hgd] at hg; simp [guardHolds] at hg
      | false =>
        rw [hgd] at hr
        cases he : r.enabled <;> rw [he] at hr <;> simp_all [srcEval]
    | enabled b =>
      cases b with
      | true => rw [hgd] at hg; simp [guardHolds, hc] at hg
      | false =>
        rw [hgd] at hr
        cases he : r.enabled <;> rw [he] at hr <;> simp_all [srcEval]
    | always =>
      rw [hgd] at hr
      cases he : r.enabled <;> rw [he] at hr <;> simp_all [srcEval]
    | interval op k =>
      rw [hgd] at hr
      cases he : r.enabled <;> rw [he] at hr <;> simp_all [srcEval]
    | unknown =>
      rw [hgd] at hr
      cases he : r.enabled <;> rw [he] at hr <;> simp_all [srcEval]
  · rw [if_neg hg]
    exact ⟨c, rfl, hc⟩

/-- Any sequence of accepted blocks keeps a non-nil disabled config non-nil and disabled. -/
theorem foldl_keepsOff (F : Facts) (steps : List Rewrite)
    (hs : steps.all (rewriteKeepsOff F.dfltEnabled) = true) (c : TCfg) (hc : c.enabled = false) :
    ∃ c', steps.foldl (applyRewrite F) (some c) = some c' ∧ c'.enabled = false := by
  induction steps generalizing c with
  | nil => exact ⟨c, rfl, hc⟩
  | cons r rest ih =>
    simp only [List.all_cons, Bool.and_eq_true] at hs
    obtain ⟨c1, h1, hc1⟩ := applyRewrite_keepsOff F r c hs.1 hc
    obtain ⟨c2, h2, hc2⟩ := ih hs.2 c1 hc1
    exact ⟨c2, by simp only [List.foldl_cons, h1, h2], hc2⟩

/-- A block guarded by `cfg == nil` does nothing to a non-nil config. -/
theorem applyRewrite_nilGuard (F : Facts) (r : Rewrite) (c : TCfg) (hr : r.guard = .isNil true) :
    applyRewrite F (some c) r = some c := by
  unfold applyRewrite
  simp [hr, guardHolds]

/-- All blocks of `New` are guarded by `cfg == nil` (the code as it is now). -/
def onlyNilSteps (F : Facts) : Bool :=
  F.newSteps.all fun r => match r.guard with
    | .isNil true => true
    | _ => false

theorem newCfg_id (F : Facts) (h : onlyNilSteps F = true) (c : TCfg) : newCfg F (some c) = some c := by
  unfold newCfg
  unfold onlyNilSteps at h
  generalize F.newSteps = steps at h
  induction steps with
  | nil => rfl
  | cons r rest ih =>
    simp only [List.all_cons, Bool.and_eq_true] at h
    have hr : r.guard = .isNil true := by
      cases hg : r.guard with
      | isNil b => cases b <;> simp_all
      | _ => simp_all
    simp only [List.foldl_cons, applyRewrite_nilGuard F r c hr]
    exact ih h.2

/-- The path taken is one of the enumerated paths and all its conditions hold. -/
theorem idPathTaken_spec (F : Facts) (e : IdEnv) (p : IdPath) (h : idPathTaken F e = some p) :
    p ∈ F.idPaths ∧ p.conds.all (condHolds F e) = true := by
  unfold idPathTaken at h
  have h2 := List.find?_some h
  exact ⟨List.mem_of_find?_eq_some h, h2⟩

theorem any_isFileUsable (F : Facts) (e : IdEnv) (cs : List IdCond)
    (hall : cs.all (condHolds F e) = true) (hany : cs.any condIsFileUsable = true) :
    fileUsable F e = true := by
  rw [List.any_eq_true] at hany
  obtain ⟨cnd, hmem, hc⟩ := hany
  have hh := (List.all_eq_true.mp hall) cnd hmem
  cases cnd with
  | fileUsable b =>
    cases b with
    | true => simpa [condHolds] using hh
    | false => simp [condIsFileUsable] at hc
  | op o ok => simp [condIsFileUsable] at hc
  | other t b => simp [condIsFileUsable] at hc

theorem any_isOpOk (F : Facts) (e : IdEnv) (o : IdOp) (cs : List IdCond)
    (hall : cs.all (condHolds F e) = true) (hany : cs.any (condIsOpOk o) = true) :
    opOk e o = true := by
  rw [List.any_eq_true] at hany
  obtain ⟨cnd, hmem, hc⟩ := hany
  have hh := (List.all_eq_true.mp hall) cnd hmem
  cases cnd with
  | op o' ok =>
    cases ok with
    | true =>
      have : o = o' := by simpa [condIsOpOk] using hc
      subst this
      simpa [condHolds] using hh
    | false => simp [condIsOpOk] at hc
  | fileUsable b => simp [condIsOpOk] at hc
  | other t b => simp [condIsOpOk] at hc

end Liftbridge.Proofs.Telemetry
