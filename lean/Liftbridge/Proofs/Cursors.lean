/- Refinement of the cursor manager model to the abstract store `Key → Option Int` (C11). -/
import Liftbridge.Proofs.CursorsLog
namespace Liftbridge.Proofs.Cursors
open Liftbridge Liftbridge.Log Liftbridge.Log.CLog Liftbridge.Compact Liftbridge.Proofs.Log
open Liftbridge.Proofs.Compact Liftbridge.Cursors

abbrev AMap := Key → Option Int

/-! ### The scan over the delivered messages -/

/-- A record written by `SetCursor`: a non-empty key and a value that unmarshals. -/
def RecOK (dec : Bytes → Option Int) (r : Rec) : Prop :=
  ∃ k v o, r.body.key = some k ∧ k ≠ [] ∧ r.body.val = some v ∧ dec v = some o

/-- Strictly decreasing offsets (a reverse subscription). -/
abbrev Desc (L : List Rec) : Prop := L.Pairwise (fun a b => b.offset < a.offset)

theorem scanMsgs_found (dec : Bytes → Option Int) (k : Key) (oldest : Int) (o : Int) :
    ∀ (L : List Rec), Desc L → (∀ r ∈ L, RecOK dec r) → (∀ r ∈ L, oldest ≤ r.offset) →
    ∀ r ∈ L, r.body.key = some k → dec (r.body.val.getD []) = some o →
      (∀ r' ∈ L, r'.body.key = some k → r'.offset ≤ r.offset) →
      scanMsgs dec k oldest L = some o := by
  intro L
  induction L with
  | nil => intro _ _ _ r hr; cases hr
  | cons r0 rest ih =>
    intro hd hok hold r hr hk hv hmax
    have hd' := List.pairwise_cons.mp hd
    by_cases h0 : r0.body.key = some k
    · -- the head carries the key: it is the newest such record
      have hle := hmax r0 (by simp) h0
      have : r = r0 := by
        rcases List.mem_cons.mp hr with h | h
        · exact h
        · have := hd'.1 r h; omega
      subst this
      simp [scanMsgs, hk, hv]
    · obtain ⟨k0, v0, o0, hk0, -, -, -⟩ := hok r0 (by simp)
      have hne : ¬ (r0.body.key.getD [] = k) := by
        rw [hk0]; simp only [Option.getD_some]
        intro he; apply h0; rw [hk0, he]
      have hr' : r ∈ rest := by
        rcases List.mem_cons.mp hr with h | h
        · subst h; exact absurd hk h0
        · exact h
      have hlt := hd'.1 r hr'
      have hge := hold r (by simp [hr'])
      have hexit : Gen.Cursors.oldestExitCmp.evalInt r0.offset oldest = false := by
        simp [Gen.Cursors.oldestExitCmp, Cmp.evalInt]; omega
      unfold scanMsgs
      simp only [hne, if_false, hexit]
      exact ih hd'.2 (fun x hx => hok x (by simp [hx])) (fun x hx => hold x (by simp [hx])) r hr' hk hv
        (fun x hx => hmax x (by simp [hx]))

theorem scanMsgs_absent (dec : Bytes → Option Int) (k : Key) (oldest : Int) :
    ∀ (L : List Rec), (∀ r ∈ L, RecOK dec r) → (∀ r ∈ L, r.body.key ≠ some k) →
      (scanMsgs dec k oldest L).getD (-1) = -1 := by
  intro L
  induction L with
  | nil => intro _ _; rfl
  | cons r0 rest ih =>
    intro hok habs
    obtain ⟨k0, v0, o0, hk0, -, -, -⟩ := hok r0 (by simp)
    have hne : ¬ (r0.body.key.getD [] = k) := by
      rw [hk0]; simp only [Option.getD_some]
      intro he; exact habs r0 (by simp) (by rw [hk0, he])
    unfold scanMsgs
    simp only [hne, if_false]
    split
    · rfl
    · exact ih (fun x hx => hok x (by simp [hx])) (fun x hx => habs x (by simp [hx]))

/-! ### Log and abstract store -/

/-- The log agrees with the abstract store: every record was written by a `set`, the newest
record of a key carries the stored offset, keys never set have no record. -/
structure Agree (dec : Bytes → Option Int) (l : CLog) (M : AMap) : Prop where
  recsOK : ∀ r ∈ l.abs, RecOK dec r
  latest : ∀ k o, M k = some o → ∃ r ∈ l.abs, r.body.key = some k ∧ dec (r.body.val.getD []) = some o ∧
    ∀ r' ∈ l.abs, r'.body.key = some k → r'.offset ≤ r.offset
  absent : ∀ k, M k = none → ∀ r ∈ l.abs, r.body.key ≠ some k

theorem Agree.of_abs_eq {dec : Bytes → Option Int} {l l' : CLog} {M : AMap} (h : Agree dec l M)
    (he : l'.abs = l.abs) : Agree dec l' M :=
  ⟨by rw [he]; exact h.recsOK, by rw [he]; exact h.latest, by rw [he]; exact h.absent⟩

theorem Agree.none_of_empty {dec : Bytes → Option Int} {l : CLog} {M : AMap} (h : Agree dec l M)
    (he : l.abs = []) (k : Key) : M k = none := by
  cases hm : M k with
  | none => rfl
  | some o =>
    obtain ⟨r, hr, -⟩ := h.latest k o hm
    rw [he] at hr; cases hr

theorem desc_reverse {L : List Rec} (h : Sorted L) : Desc L.reverse := by
  exact List.pairwise_reverse.mpr h

theorem statusCode_end : Gen.Cursors.endCodeCmp.evalNat (statusCode Gen.Subscribe.reverseEndStatus) 8 = true := by
  decide

/-- On a quiescent cursors log the subscription + scan finds the stored offset. -/
theorem scanLog_spec (P : Params) {l : CLog} {M : AMap} (hl : LogOK l) (ha : Agree P.dec l M)
    (hne : l.hw ≠ -1) (k : Key) (oldest : Int) (hold : ∀ r ∈ l.abs, oldest ≤ r.offset) :
    scanLog P l k oldest = .ok ((M k).getD (-1)) := by
  unfold scanLog
  rw [create_reverse_all hl hne]
  simp only
  have hdesc : Desc l.abs.reverse := desc_reverse hl.invc.sorted
  have hok : ∀ r ∈ l.abs.reverse, RecOK P.dec r := fun r hr => ha.recsOK r (List.mem_reverse.mp hr)
  cases hm : M k with
  | some o =>
    obtain ⟨r, hr, hk, hv, hmax⟩ := ha.latest k o hm
    have := scanMsgs_found P.dec k oldest o l.abs.reverse hdesc hok
      (fun x hx => hold x (List.mem_reverse.mp hx)) r (List.mem_reverse.mpr hr) hk hv
      (fun x hx => hmax x (List.mem_reverse.mp hx))
    rw [this]; rfl
  | none =>
    have := scanMsgs_absent P.dec k oldest l.abs.reverse hok
      (fun x hx => ha.absent k hm x (List.mem_reverse.mp hx))
    cases hs : scanMsgs P.dec k oldest l.abs.reverse with
    | some v => rw [hs] at this; simp at this; subst this; rfl
    | none => simp only [statusCode_end, if_true]; rfl

/-! ### Cache -/

def CacheOK (c : Cache) (M : AMap) : Prop := ∀ e ∈ c, e.2 = (M e.1).getD (-1)

theorem cacheOK_nil (M : AMap) : CacheOK [] M := fun _ h => by cases h

theorem cacheOK_add {c : Cache} {M : AMap} (h : CacheOK c M) (cap : Nat) (k : Key) (v : Int)
    (hv : v = (M k).getD (-1)) : CacheOK (Cache.add cap c k v) M := by
  have hbase : CacheOK ((k, v) :: c.filter (fun e => e.1 ≠ k)) M := by
    intro e he
    rcases List.mem_cons.mp he with rfl | he
    · exact hv
    · exact h e (List.mem_filter.mp he).1
  unfold Cache.add
  simp only
  split
  · intro e he; exact hbase e ((List.dropLast_sublist _).subset he)
  · exact hbase

theorem cacheOK_get {c : Cache} {M : AMap} (h : CacheOK c M) (k : Key) :
    CacheOK (Cache.get c k).2 M ∧ ∀ v, (Cache.get c k).1 = some v → v = (M k).getD (-1) := by
  unfold Cache.get
  cases hf : c.find? (fun e => decide (e.1 = k)) with
  | none => exact ⟨h, fun v hv => by cases hv⟩
  | some e =>
    have hmem : e ∈ c := List.mem_of_find?_eq_some hf
    have hk : e.1 = k := by simpa using List.find?_some hf
    have hv : e.2 = (M k).getD (-1) := by rw [← hk]; exact h e hmem
    refine ⟨?_, fun v hv' => by simp at hv'; rw [← hv']; exact hv⟩
    intro x hx
    rcases List.mem_cons.mp hx with rfl | hx
    · exact hv
    · exact h x (List.mem_filter.mp hx).1

/-- A `set` changes the store at one key only. -/
theorem cacheOK_set {c : Cache} {M : AMap} (h : CacheOK c M) (cap : Nat) (k : Key) (o : Int) :
    CacheOK (Cache.add cap c k o) (fun k' => if k' = k then some o else M k') := by
  have hbase : CacheOK ((k, o) :: c.filter (fun e => e.1 ≠ k)) (fun k' => if k' = k then some o else M k') := by
    intro e he
    rcases List.mem_cons.mp he with rfl | he
    · simp
    · obtain ⟨hm, hne⟩ := List.mem_filter.mp he
      have hne' : e.1 ≠ k := by simpa using hne
      simp only [hne', if_false]
      exact h e hm
  unfold Cache.add
  simp only
  split
  · intro e he; exact hbase e ((List.dropLast_sublist _).subset he)
  · exact hbase

/-! ### The invariant -/

/-- What a pending `GetCursor` knows, as long as it may still cache its result. -/
def PendFacts (M : AMap) (p : Pending) : Prop :=
  match p.stage with
  | .looked => True
  | .hwRead hw => hw = -1 → M p.key = none
  | .oldRead hw o => (hw = -1 ∨ o = -1) → M p.key = none
  | .scanned r => ∀ v, r = .ok v → v = (M p.key).getD (-1)

/-- What holds of the values a pending call has read whatever happened since. -/
def PendStale (l : CLog) (p : Pending) : Prop :=
  match p.stage with
  | .looked => True
  | .hwRead hw => hw ≠ -1 → l.hw ≠ -1
  | .oldRead hw o => (hw ≠ -1 → l.hw ≠ -1) ∧ (o ≠ -1 → l.hw ≠ -1 ∧ ∀ r ∈ l.abs, o ≤ r.offset)
  | .scanned _ => True

/-- May this pending call still cache its result (`mayCache` as a proposition)? -/
def Fresh (P : Params) (s : State) (p : Pending) : Prop := P.guarded = true → p.seq0 = s.seq

structure Inv (P : Params) (s : State) (M : AMap) : Prop where
  log : LogOK s.log
  agree : Agree P.dec s.log M
  cache : CacheOK s.cache M
  seqLe : ∀ p ∈ s.pend, p.seq0 ≤ s.seq
  stale : ∀ p ∈ s.pend, PendStale s.log p
  facts : ∀ p ∈ s.pend, Fresh P s p → PendFacts M p

/-- Retention does not apply to the cursors partition (exempt, or no limits configured). -/
def NoRetention (P : Params) : Prop := P.retentionOff = true ∨ P.lim = ⟨0, 0, 0⟩

/-- The headers the partition attaches to a stored cursor message can be encoded (`PutString`
refuses keys longer than 32767 bytes; the real ones are `subject` and `reply`). -/
def HdrsOK (P : Params) : Prop := ({ key := none, val := none, hdrs := P.hdrs } : Payload).encodable = true

theorem cursorMsg_encodable {P : Params} (hh : HdrsOK P) (k : Key) (v : Bytes) :
    (cursorMsg P k v).body.encodable = true := hh

/-- The `set` operations of a history carry a real key and a value that decodes to the offset. -/
def ValidOp (dec : Bytes → Option Int) : Op → Prop
  | .set k o v => k ≠ [] ∧ dec v = some o
  | _ => True

/-- A `set` does not overlap a pending fetch of the same key (needed for the unrepaired code only). -/
def Exclusive (P : Params) (s : State) : Op → Prop
  | .set k _ _ => P.guarded = true ∨ ∀ p ∈ s.pend, p.key ≠ k
  | _ => True

instance (P : Params) : Decidable (HdrsOK P) := by unfold HdrsOK; infer_instance
instance (dec : Bytes → Option Int) (op : Op) : Decidable (ValidOp dec op) := by
  cases op <;> unfold ValidOp <;> infer_instance
instance (P : Params) (s : State) (op : Op) : Decidable (Exclusive P s op) := by
  cases op <;> unfold Exclusive <;> infer_instance

theorem inv_init (P : Params) (m : Int) (hm : 0 < m) (on : Bool) : Inv P (State.init m on) (fun _ => none) := by
  refine ⟨logOK_init m hm, ⟨?_, ?_, ?_⟩, cacheOK_nil _, ?_, ?_, ?_⟩
  · intro r hr; simp [State.init, CLog.init, abs] at hr
  · intro k o h; cases h
  · intro k _ r hr; simp [State.init, CLog.init, abs] at hr
  all_goals (intro p hp; simp [State.init] at hp)

/-! ### Steps -/

theorem PendStale.of_eq {l l' : CLog} {p : Pending} (h : PendStale l p) (hhw : l'.hw = l.hw)
    (habs : ∀ r ∈ l'.abs, r ∈ l.abs) : PendStale l' p := by
  unfold PendStale at *
  cases hst : p.stage with
  | looked => trivial
  | hwRead hw => rw [hst] at h; simp only at h ⊢; rw [hhw]; exact h
  | oldRead hw o =>
    rw [hst] at h; simp only at h ⊢; rw [hhw]
    exact ⟨h.1, fun ho => ⟨(h.2 ho).1, fun r hr => (h.2 ho).2 r (habs r hr)⟩⟩
  | scanned r => trivial

/-- Changing only the log, to one with the same HW whose records are among the old ones and which
still agrees with the store. -/
theorem Inv.with_log {P : Params} {s : State} {M : AMap} (h : Inv P s M) (l' : CLog)
    (hl : LogOK l') (ha : Agree P.dec l' M) (hhw : l'.hw = s.log.hw) (habs : ∀ r ∈ l'.abs, r ∈ s.log.abs) :
    Inv P { s with log := l' } M :=
  ⟨hl, ha, h.cache, h.seqLe, fun p hp => (h.stale p hp).of_eq hhw habs, h.facts⟩

theorem Inv.with_cache {P : Params} {s : State} {M : AMap} (h : Inv P s M) (c : Cache) (hc : CacheOK c M) :
    Inv P { s with cache := c } M :=
  ⟨h.log, h.agree, hc, h.seqLe, h.stale, h.facts⟩

theorem inv_resume {P : Params} {s : State} {M : AMap} (h : Inv P s M) :
    Inv P (resume s) M ∧ (resume s).log.abs = s.log.abs ∧ (resume s).log.hw = s.log.hw ∧
      (resume s).seq = s.seq ∧ (resume s).pend = s.pend := by
  unfold resume
  split
  · refine ⟨⟨logOK_reopen h.log, h.agree.of_abs_eq (abs_reopen _), ?_, h.seqLe, ?_, h.facts⟩, rfl, rfl, rfl, rfl⟩
    · show CacheOK (if Gen.Cursors.purgeOnLeader = true then [] else s.cache) M
      split
      · exact cacheOK_nil _
      · exact h.cache
    · intro p hp
      exact (h.stale p hp).of_eq rfl (fun r hr => hr)
  · exact ⟨h, rfl, rfl, rfl, rfl⟩

theorem agree_compact {dec : Bytes → Option Int} {l : CLog} {M : AMap} (hl : LogOK l) (h : Agree dec l M) :
    Agree dec (cleanLog ⟨0, 0, 0⟩ 0 true l) M := by
  have hsub : ∀ r ∈ (cleanLog ⟨0, 0, 0⟩ 0 true l).abs, r ∈ l.abs := fun r hr => (survivors_sublist l).subset hr
  refine ⟨fun r hr => h.recsOK r (hsub r hr), ?_, fun k hk r hr => h.absent k hk r (hsub r hr)⟩
  intro k o hm
  obtain ⟨r, hr, hk, hv, hmax⟩ := h.latest k o hm
  refine ⟨r, ?_, hk, hv, fun r' hr' hk' => hmax r' (hsub r' hr') hk'⟩
  exact latest_kept' l hl.invc r hr ⟨k, hk, hl.le_hw r hr, fun r' hr' hk' _ => hmax r' hr' hk'⟩

theorem oldest_ne_abs {l : CLog} (ho : l.oldest ≠ -1) : l.abs ≠ [] := by
  unfold oldest at ho
  cases hs : l.segs with
  | nil => simp [hs] at ho
  | cons s0 rest =>
    simp only [hs, List.head?_cons] at ho
    unfold Seg.firstOffset at ho
    cases hr : s0.recs with
    | nil => simp [hr] at ho
    | cons r rs => simp [abs, hs, hr]

/-- `SetCursor`. -/
theorem inv_set {P : Params} {s : State} {M : AMap} (h : Inv P s M) (hh : HdrsOK P) (k : Key) (o : Int) (v : Bytes)
    (hk : k ≠ []) (hv : P.dec v = some o) (hx : P.guarded = true ∨ ∀ p ∈ s.pend, p.key ≠ k) :
    Inv P (setCursor P s k o v).1 (fun k' => if k' = k then some o else M k') ∧
      (setCursor P s k o v).2 = .ok () := by
  obtain ⟨hr, habs, hhw, hseq, hpend⟩ := inv_resume h
  unfold setCursor
  simp only
  obtain ⟨l', happ, habs', hok'⟩ := logOK_publish hr.log (cursorMsg P k v) (cursorMsg_encodable hh k v)
  rw [show ({ resume s with seq := (resume s).seq + 1 } : State).log = (resume s).log from rfl, happ]
  simp only
  refine ⟨?_, trivial⟩
  have hbody : (cursorMsg P k v).body = { key := some k, val := some v, hdrs := P.hdrs } := by
    simp [cursorMsg, hk]
  generalize hrec : ({ offset := (resume s).log.nextOffset, ts := (cursorMsg P k v).ts, epoch := (cursorMsg P k v).epoch, body := (cursorMsg P k v).body } : Rec) = rec at habs'
  replace hrec := hrec.symm
  have hreck : rec.body.key = some k := by simp [hrec, hbody]
  have hrecv : rec.body.val = some v := by simp [hrec, hbody]
  have hlt : ∀ r ∈ (resume s).log.abs, r.offset < rec.offset := by
    intro r hrm; rw [hrec]; exact hr.log.lt_next r hrm
  have hnewhw : (l'.setHW l'.newest).hw ≠ -1 := by
    intro he
    have := (hok'.hw_eq_neg_one_iff).mp he
    rw [habs'] at this
    simp at this
  refine ⟨hok', ⟨?_, ?_, ?_⟩, ?_, ?_, ?_, ?_⟩
  · -- recsOK
    intro r hrm
    rw [habs'] at hrm
    rcases List.mem_append.mp hrm with hrm | hrm
    · exact hr.agree.recsOK r hrm
    · simp at hrm; subst hrm
      exact ⟨k, v, o, hreck, hk, hrecv, hv⟩
  · -- latest
    intro k' o' hm
    by_cases hkk : k' = k
    · subst hkk
      simp at hm; subst hm
      refine ⟨rec, by rw [habs']; simp, hreck, by rw [hrecv]; exact hv, ?_⟩
      intro r' hr' _
      rw [habs'] at hr'
      rcases List.mem_append.mp hr' with hr' | hr'
      · have := hlt r' hr'; omega
      · simp at hr'; subst hr'; exact Int.le_refl _
    · simp only [hkk, if_false] at hm
      obtain ⟨r, hrm, hrk, hrv, hmax⟩ := hr.agree.latest k' o' hm
      refine ⟨r, by rw [habs']; exact List.mem_append_left _ hrm, hrk, hrv, ?_⟩
      intro r' hr' hk'
      rw [habs'] at hr'
      rcases List.mem_append.mp hr' with hr' | hr'
      · exact hmax r' hr' hk'
      · simp at hr'; subst hr'
        rw [hreck] at hk'
        exact absurd (Option.some.inj hk').symm hkk
  · -- absent
    intro k' hm r hrm
    by_cases hkk : k' = k
    · subst hkk; simp at hm
    · simp only [hkk, if_false] at hm
      rw [habs'] at hrm
      rcases List.mem_append.mp hrm with hrm | hrm
      · exact hr.agree.absent k' hm r hrm
      · simp at hrm; subst hrm
        rw [hreck]; intro he; exact hkk (Option.some.inj he).symm
  · exact cacheOK_set hr.cache P.cap k o
  · intro p hp
    have := hr.seqLe p hp
    show p.seq0 ≤ (resume s).seq + 1
    omega
  · -- stale reads stay valid: the HW only grows, the new record is the newest
    intro p hp
    have hst := hr.stale p hp
    unfold PendStale at hst ⊢
    cases hstage : p.stage with
    | looked => trivial
    | hwRead hw => simp only; intro _; exact hnewhw
    | oldRead hw o' =>
      rw [hstage] at hst
      simp only at hst ⊢
      refine ⟨fun _ => hnewhw, fun ho => ⟨hnewhw, ?_⟩⟩
      intro r hrm
      rw [habs'] at hrm
      obtain ⟨hne, hall⟩ := hst.2 ho
      rcases List.mem_append.mp hrm with hrm | hrm
      · exact hall r hrm
      · simp at hrm; subst hrm
        have hnonempty : (resume s).log.abs ≠ [] := fun he => hne ((hr.log.hw_eq_neg_one_iff).mpr he)
        obtain ⟨r0, hr0⟩ := List.exists_mem_of_ne_nil _ hnonempty
        have := hall r0 hr0
        have := hlt r0 hr0
        omega
    | scanned r => trivial
  · -- facts
    intro p hp hfresh
    have hle := hr.seqLe p hp
    rcases hx with hg | hx
    · -- repaired code: the counter moved, nothing pending is fresh any more
      have : p.seq0 = (resume s).seq + 1 := hfresh hg
      omega
    · have hpk : p.key ≠ k := hx p (by rw [← hpend]; exact hp)
      have hold : PendFacts M p := hr.facts p hp (by
        intro hg
        have : p.seq0 = (resume s).seq + 1 := hfresh hg
        omega)
      unfold PendFacts at hold ⊢
      simp only [hpk, if_false]
      exact hold

/-! ### GetCursor pieces -/

theorem inv_lookup {P : Params} {s : State} {M : AMap} (h : Inv P s M) (k : Key) :
    Inv P (lookup s k).1 M ∧ (lookup s k).1.log = s.log ∧ (lookup s k).1.seq = s.seq ∧
      (lookup s k).1.pend = s.pend ∧ (lookup s k).1.paused = s.paused ∧
      ∀ v, (lookup s k).2 = some v → v = (M k).getD (-1) := by
  obtain ⟨hc, hv⟩ := cacheOK_get h.cache k
  unfold lookup
  split
  · cases hg : Cache.get s.cache k with
    | mk a c =>
      rw [hg] at hc hv
      cases a with
      | some v => exact ⟨h.with_cache c hc, by simp, by simp, by simp, by simp, fun v' hv' => hv v' (by simpa using hv')⟩
      | none => exact ⟨h, by simp, by simp, by simp, by simp, fun v' hv' => by simp at hv'⟩
  · exact ⟨h, by simp, by simp, by simp, by simp, fun v' hv' => by simp at hv'⟩

/-- The values of `hw` and `oldest` a caller holds are good enough to scan with. -/
structure ReadsOK (s : State) (M : AMap) (k : Key) (hw oldest : Int) : Prop where
  empty : (hw = -1 ∨ oldest = -1) → M k = none
  hwMono : hw ≠ -1 → s.log.hw ≠ -1
  oldLe : oldest ≠ -1 → ∀ r ∈ s.log.abs, oldest ≤ r.offset

theorem inv_subscribeScan {P : Params} {s : State} {M : AMap} (h : Inv P s M) (k : Key) (hw oldest : Int) :
    Inv P (subscribeScan P s k hw oldest).1 M ∧
      (subscribeScan P s k hw oldest).1.log.abs = s.log.abs ∧
      (subscribeScan P s k hw oldest).1.log.hw = s.log.hw ∧
      (subscribeScan P s k hw oldest).1.seq = s.seq ∧
      (subscribeScan P s k hw oldest).1.pend = s.pend ∧
      (ReadsOK s M k hw oldest → (subscribeScan P s k hw oldest).2 = .ok ((M k).getD (-1))) := by
  unfold subscribeScan
  by_cases he : hw = -1 ∨ oldest = -1
  · have : (Gen.Cursors.hwEmptyCmp.evalInt hw (-1) || Gen.Cursors.oldestEmptyCmp.evalInt oldest (-1)) = true := by
      simp only [Gen.Cursors.hwEmptyCmp, Gen.Cursors.oldestEmptyCmp, Cmp.evalInt, Bool.or_eq_true, decide_eq_true_eq]
      exact he
    simp only [this, if_true]
    refine ⟨h, trivial, trivial, trivial, trivial, fun hr => ?_⟩
    rw [hr.empty he]; rfl
  · have : (Gen.Cursors.hwEmptyCmp.evalInt hw (-1) || Gen.Cursors.oldestEmptyCmp.evalInt oldest (-1)) = false := by
      simp only [Gen.Cursors.hwEmptyCmp, Gen.Cursors.oldestEmptyCmp, Cmp.evalInt, Bool.or_eq_false_iff, decide_eq_false_iff_not]
      exact ⟨fun h1 => he (Or.inl h1), fun h2 => he (Or.inr h2)⟩
    simp only [this, Bool.false_eq_true, if_false]
    obtain ⟨hr, habs, hhw, hseq, hpend⟩ := inv_resume h
    refine ⟨hr, habs, hhw, hseq, hpend, fun hreads => ?_⟩
    have hne : hw ≠ -1 := fun h1 => he (Or.inl h1)
    have hno : oldest ≠ -1 := fun h2 => he (Or.inr h2)
    apply scanLog_spec P hr.log hr.agree (by rw [hhw]; exact hreads.hwMono hne) k oldest
    rw [habs]; exact hreads.oldLe hno

theorem inv_finishGet {P : Params} {s : State} {M : AMap} (h : Inv P s M) (k : Key) (seq0 : Nat) (res : Res Int)
    (hres : mayCache P s seq0 = true → ∀ v, res = .ok v → v = (M k).getD (-1)) :
    Inv P (finishGet P s k seq0 res).1 M ∧ (finishGet P s k seq0 res).2 = res := by
  unfold finishGet
  cases res with
  | ok v =>
    refine ⟨?_, rfl⟩
    apply h.with_cache
    split
    · rename_i hm; exact cacheOK_add h.cache P.cap k v (hres hm v rfl)
    · exact h.cache
  | err e => exact ⟨h, rfl⟩
  | panic => exact ⟨h, rfl⟩

theorem readsOK_now {P : Params} {s : State} {M : AMap} (h : Inv P s M) (k : Key) :
    ReadsOK s M k s.log.hw s.log.oldest := by
  refine ⟨?_, fun hne => hne, fun ho => h.log.oldest_le ho⟩
  rintro (h1 | h2)
  · exact h.agree.none_of_empty ((h.log.hw_eq_neg_one_iff).mp h1) k
  · exact h.agree.none_of_empty (h.log.oldest_eq_neg_one h2) k

/-- The atomic `GetCursor` returns the stored offset and keeps the invariant. -/
theorem inv_getCursor {P : Params} {s : State} {M : AMap} (h : Inv P s M) (k : Key) :
    Inv P (getCursor P s k).1 M ∧ (getCursor P s k).2 = .ok ((M k).getD (-1)) := by
  obtain ⟨hl, hlog, hseq, hpend, -, hv⟩ := inv_lookup h k
  unfold getCursor
  cases hlk : lookup s k with
  | mk s1 r =>
    rw [hlk] at hl hlog hseq hpend hv
    simp only at hl hlog hseq hpend hv
    cases r with
    | some v => exact ⟨hl, by rw [hv v rfl]⟩
    | none =>
      simp only
      obtain ⟨hs, -, -, hseq2, -, hval⟩ := inv_subscribeScan (P := P) hl k s1.log.hw s1.log.oldest
      have hval' := hval (readsOK_now hl k)
      cases hsc : subscribeScan P s1 k s1.log.hw s1.log.oldest with
      | mk s2 res =>
        rw [hsc] at hs hval' hseq2
        simp only at hs hval' hseq2 ⊢
        obtain ⟨hf, hout⟩ := inv_finishGet hs k s1.seq res (fun _ v hv' => by
          rw [hval'] at hv'; injection hv' with hv'; exact hv'.symm)
        exact ⟨hf, by rw [hout, hval']⟩

/-! ### Pending calls -/

theorem mem_setPend {s : State} {p q : Pending} (h : q ∈ (setPend s p).pend) :
    q = p ∨ (q ∈ s.pend ∧ q.tid ≠ p.tid) := by
  unfold setPend at h
  rcases List.mem_cons.mp h with h | h
  · exact Or.inl h
  · obtain ⟨h1, h2⟩ := List.mem_filter.mp h
    exact Or.inr ⟨h1, by simpa using h2⟩

theorem findPend_mem {s : State} {tid : Nat} {p : Pending} (h : findPend s tid = some p) :
    p ∈ s.pend ∧ p.tid = tid := by
  unfold findPend at h
  exact ⟨List.mem_of_find?_eq_some h, by simpa using List.find?_some h⟩

/-- Replacing (or adding) the record of one caller. -/
theorem inv_setPend {P : Params} {s : State} {M : AMap} (h : Inv P s M) (p : Pending)
    (hle : p.seq0 ≤ s.seq) (hst : PendStale s.log p) (hf : Fresh P s p → PendFacts M p) :
    Inv P (setPend s p) M := by
  refine ⟨h.log, h.agree, h.cache, ?_, ?_, ?_⟩
  · intro q hq
    rcases mem_setPend hq with rfl | ⟨hq, -⟩
    · exact hle
    · exact h.seqLe q hq
  · intro q hq
    rcases mem_setPend hq with rfl | ⟨hq, -⟩
    · exact hst
    · exact h.stale q hq
  · intro q hq hfr
    rcases mem_setPend hq with rfl | ⟨hq, -⟩
    · exact hf hfr
    · exact h.facts q hq hfr

theorem inv_dropPend {P : Params} {s : State} {M : AMap} (h : Inv P s M) (tid : Nat) :
    Inv P (dropPend s tid) M := by
  have hsub : ∀ q ∈ (dropPend s tid).pend, q ∈ s.pend := fun q hq => (List.mem_filter.mp hq).1
  exact ⟨h.log, h.agree, h.cache, fun q hq => h.seqLe q (hsub q hq), fun q hq => h.stale q (hsub q hq),
    fun q hq hfr => h.facts q (hsub q hq) hfr⟩

theorem mayCache_iff (P : Params) (s : State) (seq0 : Nat) :
    mayCache P s seq0 = true ↔ (P.guarded = true → seq0 = s.seq) := by
  unfold mayCache
  cases P.guarded <;> simp

/-! ### One step, any history -/

theorem inv_step {P : Params} {s : State} {M : AMap} (h : Inv P s M) (hnr : NoRetention P) (hh : HdrsOK P) (op : Op)
    (hv : ValidOp P.dec op) (hx : Exclusive P s op) : Inv P (step P s op).1 (absStep M op) := by
  cases op with
  | set k o v => exact (inv_set h hh k o v hv.1 hv.2 hx).1
  | get k => exact (inv_getCursor h k).1
  | lookup tid k =>
    simp only [step, absStep]
    split
    · exact h
    · obtain ⟨hl, hlog, hseq, hpend, -, -⟩ := inv_lookup h k
      split
      · rename_i s1 v hlk
        rw [hlk] at hl; exact hl
      · rename_i s1 hlk
        rw [hlk] at hl
        dsimp only
        apply inv_setPend hl _ (Nat.le_refl _)
        · show PendStale _ { tid := tid, key := k, seq0 := _, stage := .looked }
          unfold PendStale; trivial
        · intro _
          show PendFacts M { tid := tid, key := k, seq0 := _, stage := .looked }
          unfold PendFacts; trivial
  | readHW tid =>
    simp only [step, absStep]
    split
    · rename_i p hfp
      obtain ⟨hp, -⟩ := findPend_mem hfp
      split
      · dsimp only
        apply inv_setPend h { p with stage := .hwRead s.log.hw } (h.seqLe p hp)
        · show PendStale s.log { p with stage := .hwRead s.log.hw }
          unfold PendStale
          exact fun hne => hne
        · intro _
          show PendFacts M { p with stage := .hwRead s.log.hw }
          unfold PendFacts
          intro h1
          exact h.agree.none_of_empty ((h.log.hw_eq_neg_one_iff).mp h1) p.key
      · exact h
    · exact h
  | readOldest tid =>
    simp only [step, absStep]
    split
    · rename_i p hfp
      obtain ⟨hp, -⟩ := findPend_mem hfp
      split
      · rename_i hw hst
        have hstale := h.stale p hp
        unfold PendStale at hstale
        rw [hst] at hstale
        dsimp only
        apply inv_setPend h { p with stage := .oldRead hw s.log.oldest } (h.seqLe p hp)
        · show PendStale s.log { p with stage := .oldRead hw s.log.oldest }
          unfold PendStale
          refine ⟨hstale, fun ho => ⟨?_, h.log.oldest_le ho⟩⟩
          intro he
          exact oldest_ne_abs ho ((h.log.hw_eq_neg_one_iff).mp he)
        · intro hfr
          have hfacts := h.facts p hp hfr
          unfold PendFacts at hfacts
          rw [hst] at hfacts
          show PendFacts M { p with stage := .oldRead hw s.log.oldest }
          unfold PendFacts
          rintro (h1 | h2)
          · exact hfacts h1
          · exact h.agree.none_of_empty (h.log.oldest_eq_neg_one h2) p.key
      · exact h
    · exact h
  | subscribe tid =>
    simp only [step, absStep]
    split
    · rename_i p hfp
      obtain ⟨hp, -⟩ := findPend_mem hfp
      split
      · rename_i hw o hst
        obtain ⟨hs, habs, hhw, hseq, hpend, hval⟩ := inv_subscribeScan (P := P) h p.key hw o
        dsimp only
        apply inv_setPend hs { p with stage := .scanned (subscribeScan P s p.key hw o).2 } (by rw [hseq]; exact h.seqLe p hp)
        · show PendStale _ { p with stage := .scanned _ }
          unfold PendStale
          trivial
        · intro hfr
          show PendFacts M { p with stage := .scanned _ }
          unfold PendFacts
          intro v hres
          have hfr' : Fresh P s p := fun hg => by rw [← hseq]; exact hfr hg
          have hfacts := h.facts p hp hfr'
          have hstale := h.stale p hp
          unfold PendFacts at hfacts
          unfold PendStale at hstale
          rw [hst] at hfacts hstale
          have := hval ⟨hfacts, hstale.1, fun ho => (hstale.2 ho).2⟩
          rw [this] at hres
          injection hres with hres
          exact hres.symm
      · exact h
    · exact h
  | finish tid =>
    simp only [step, absStep]
    split
    · rename_i p hfp
      obtain ⟨hp, -⟩ := findPend_mem hfp
      split
      · rename_i r hst
        dsimp only
        refine (inv_finishGet (inv_dropPend h tid) p.key p.seq0 r ?_).1
        intro hm v hres
        have hfr : Fresh P s p := (mayCache_iff P (dropPend s tid) p.seq0).mp hm
        have hfacts := h.facts p hp hfr
        unfold PendFacts at hfacts
        rw [hst] at hfacts
        exact hfacts v hres
      · exact h
    · exact h
  | abort tid =>
    simp only [step, absStep]
    split
    · exact inv_dropPend h tid
    · exact h
  | roll =>
    simp only [step, absStep, Cursors.roll]
    split
    · exact h
    · rename_i hc
      have hne : s.log.active.recs ≠ [] := by
        intro he; apply hc; simp [he]
      exact h.with_log _ (logOK_roll h.log hne) (h.agree.of_abs_eq (abs_roll _)) rfl
        (fun r hr => by rw [abs_roll] at hr; exact hr)
  | clean =>
    simp only [step, absStep, clean]
    split
    · exact h
    · have hlim : (if P.retentionOff = true then (⟨0, 0, 0⟩ : Retention.Limits) else P.lim) = ⟨0, 0, 0⟩ := by
        rcases hnr with h1 | h2
        · simp [h1]
        · split <;> simp [h2]
      rw [hlim]
      exact h.with_log _ (logOK_compact h.log) (agree_compact h.log h.agree) (cleanLog_hw _ _ _ _)
        (fun r hr => (survivors_sublist s.log).subset hr)
  | becomeLeader =>
    simp only [step, absStep, becomeLeader]
    split
    · exact h.with_cache [] (cacheOK_nil _)
    · exact h
  | restart =>
    simp only [step, absStep, restart]
    refine ⟨logOK_reopen h.log, h.agree.of_abs_eq (abs_reopen _), cacheOK_nil _, ?_, ?_, ?_⟩
    all_goals (intro p hp; cases hp)
  | pause =>
    simp only [step, absStep, pause]
    exact ⟨h.log, h.agree, h.cache, h.seqLe, h.stale, h.facts⟩
  | evictAll =>
    simp only [step, absStep]
    exact h.with_cache [] (cacheOK_nil _)
  | cacheOn b =>
    simp only [step, absStep]
    exact ⟨h.log, h.agree, h.cache, h.seqLe, h.stale, h.facts⟩

/-- Along a history: no `set` overlaps a pending fetch of the same key. -/
def ExclusiveRun (P : Params) : State → List Op → Prop
  | _, [] => True
  | s, op :: rest => Exclusive P s op ∧ ExclusiveRun P (step P s op).1 rest

def decExclusiveRun (P : Params) : (s : State) → (hist : List Op) → Decidable (ExclusiveRun P s hist)
  | _, [] => isTrue trivial
  | s, op :: rest =>
    match (inferInstance : Decidable (Exclusive P s op)), decExclusiveRun P (step P s op).1 rest with
    | isTrue a, isTrue b => isTrue ⟨a, b⟩
    | isFalse a, _ => isFalse (fun h => a h.1)
    | _, isFalse b => isFalse (fun h => b h.2)

instance (P : Params) (s : State) (hist : List Op) : Decidable (ExclusiveRun P s hist) := decExclusiveRun P s hist

theorem inv_run {P : Params} (hnr : NoRetention P) (hh : HdrsOK P) : ∀ (hist : List Op) {s : State} {M : AMap}, Inv P s M →
    (∀ op ∈ hist, ValidOp P.dec op) → ExclusiveRun P s hist → Inv P (run P s hist) (hist.foldl absStep M)
  | [], _, _, h, _, _ => h
  | op :: rest, _, _, h, hv, hx =>
    inv_run hnr hh rest (inv_step h hnr hh op (hv op (by simp)) hx.1) (fun o ho => hv o (by simp [ho])) hx.2

theorem exclusiveRun_guarded {P : Params} (hg : P.guarded = true) : ∀ (hist : List Op) (s : State), ExclusiveRun P s hist
  | [], _ => trivial
  | op :: rest, s => ⟨by cases op <;> simp [Exclusive, hg], exclusiveRun_guarded hg rest _⟩

/-- Histories of atomic operations only (every fetch runs to completion before the next call). -/
def Atomic : Op → Prop
  | .lookup _ _ | .readHW _ | .readOldest _ | .subscribe _ | .finish _ | .abort _ => False
  | _ => True

def Sequential (hist : List Op) : Prop := ∀ op ∈ hist, Atomic op

instance (op : Op) : Decidable (Atomic op) := by cases op <;> unfold Atomic <;> infer_instance
instance (hist : List Op) : Decidable (Sequential hist) := by unfold Sequential; infer_instance

theorem lookup_pend (s : State) (k : Key) : (lookup s k).1.pend = s.pend := by
  unfold lookup
  split
  · split <;> rfl
  · rfl

theorem resume_pend (s : State) : (resume s).pend = s.pend := by
  unfold resume; split <;> rfl

theorem subscribeScan_pend (P : Params) (s : State) (k : Key) (hw o : Int) :
    (subscribeScan P s k hw o).1.pend = s.pend := by
  unfold subscribeScan
  split
  · rfl
  · exact resume_pend s

theorem finishGet_pend (P : Params) (s : State) (k : Key) (q : Nat) (r : Res Int) :
    (finishGet P s k q r).1.pend = s.pend := by
  unfold finishGet
  split <;> rfl

theorem getCursor_pend (P : Params) (s : State) (k : Key) : (getCursor P s k).1.pend = s.pend := by
  unfold getCursor
  have h1 := lookup_pend s k
  cases hlk : lookup s k with
  | mk s1 r =>
    rw [hlk] at h1
    cases r with
    | some v => exact h1
    | none =>
      simp only
      rw [finishGet_pend, subscribeScan_pend]; exact h1

theorem pend_nil_step {P : Params} {s : State} (hp : s.pend = []) (op : Op)
    (hs : Atomic op) :
    (step P s op).1.pend = [] := by
  cases op with
  | set k o v =>
    simp only [step, setCursor]
    have hr : (resume s).pend = [] := by unfold resume; split <;> simp [hp]
    split <;> simp [hr]
  | get k =>
    simp only [step]
    rw [getCursor_pend]; exact hp
  | lookup _ _ => exact False.elim hs
  | readHW _ => exact False.elim hs
  | readOldest _ => exact False.elim hs
  | subscribe _ => exact False.elim hs
  | finish _ => exact False.elim hs
  | abort _ => exact False.elim hs
  | roll => simp only [step, Cursors.roll]; split <;> simp [hp]
  | clean => simp only [step, clean]; split <;> simp [hp]
  | becomeLeader => simp only [step, becomeLeader]; split <;> simp [hp]
  | restart => simp [step, restart]
  | pause => simp [step, pause, hp]
  | evictAll => simp [step, hp]
  | cacheOn b => simp [step, hp]

theorem run_pend_nil {P : Params} : ∀ (hist : List Op) (s : State), s.pend = [] → Sequential hist →
    (run P s hist).pend = []
  | [], _, hp, _ => hp
  | op :: rest, s, hp, hs =>
    run_pend_nil rest _ (pend_nil_step hp op (hs op (by simp))) (fun o ho => hs o (by simp [ho]))

theorem exclusiveRun_sequential {P : Params} : ∀ (hist : List Op) (s : State), s.pend = [] → Sequential hist →
    ExclusiveRun P s hist
  | [], _, _, _ => trivial
  | op :: rest, s, hp, hs => by
    refine ⟨?_, exclusiveRun_sequential rest _ (pend_nil_step hp op (hs op (by simp))) (fun o ho => hs o (by simp [ho]))⟩
    cases op <;> simp [Exclusive, hp]

/-- `sort.Search` over one element (evaluation lemma for the concrete witnesses). -/
theorem goSearch_one (f : Nat → Bool) : goSearch 1 f = if f 0 then 0 else 1 := by
  unfold goSearch
  rw [goSearchAux]
  simp
  split
  · rw [goSearchAux]; simp
  · rw [goSearchAux]; simp

/-! ### What an overlapping fetch returns

History variable: for every caller with a fetch in flight, the values its key has held since the
cache lookup (`seen`). The offset such a fetch eventually returns is one of them. -/

abbrev Seen := Nat → List Int

/-- `seen` after one operation (`s`, `M`: model state and abstract store BEFORE it). A lookup that
misses starts a window with the current value; a `set` of the key adds its offset. -/
def seenStep (s : State) (M : AMap) (seen : Seen) : Op → Seen
  | .lookup tid k =>
    match findPend s tid, (lookup s k).2 with
    | none, none => fun t => if t = tid then [(M k).getD (-1)] else seen t
    | _, _ => seen
  | .set k o _ => fun t =>
    match findPend s t with
    | some p => if p.key = k then o :: seen t else seen t
    | none => seen t
  | _ => seen

/-- Model state, abstract store and history variable, run together. -/
structure G where
  s : State
  M : AMap
  seen : Seen

def stepG (P : Params) (g : G) (op : Op) : G :=
  { s := (step P g.s op).1, M := absStep g.M op, seen := seenStep g.s g.M g.seen op }

def runG (P : Params) (g : G) (hist : List Op) : G := hist.foldl (stepG P) g

def G.init (m : Int) (on : Bool) : G := { s := State.init m on, M := fun _ => none, seen := fun _ => [] }

theorem runG_s (P : Params) : ∀ (hist : List Op) (g : G), (runG P g hist).s = run P g.s hist
  | [], _ => rfl
  | op :: rest, g => by
    show (runG P (stepG P g op) rest).s = run P (step P g.s op).1 rest
    rw [runG_s P rest]; rfl

theorem runG_M (P : Params) : ∀ (hist : List Op) (g : G), (runG P g hist).M = hist.foldl absStep g.M
  | [], _ => rfl
  | op :: rest, g => by
    show (runG P (stepG P g op) rest).M = rest.foldl absStep (absStep g.M op)
    rw [runG_M P rest]; rfl

/-- What the history variable knows about one pending call. -/
def SeenFacts (M : AMap) (seen : List Int) (p : Pending) : Prop :=
  (M p.key).getD (-1) ∈ seen ∧
  match p.stage with
  | .looked => True
  | .hwRead hw => hw = -1 → (-1 : Int) ∈ seen
  | .oldRead hw o => (hw = -1 ∨ o = -1) → (-1 : Int) ∈ seen
  | .scanned r => ∀ v, r = .ok v → v ∈ seen

structure InvG (P : Params) (g : G) : Prop where
  inv : Inv P g.s g.M
  uniq : ∀ p ∈ g.s.pend, findPend g.s p.tid = some p
  seen : ∀ p ∈ g.s.pend, SeenFacts g.M (g.seen p.tid) p

theorem findPend_none {s : State} {tid : Nat} (h : findPend s tid = none) : ∀ p ∈ s.pend, p.tid ≠ tid := by
  intro p hp he
  unfold findPend at h
  have := List.find?_eq_none.mp h p hp
  simp [he] at this

theorem find?_congr' {α} {p q : α → Bool} : ∀ {l : List α}, (∀ a ∈ l, p a = q a) → l.find? p = l.find? q
  | [], _ => rfl
  | a :: t, h => by
    simp only [List.find?_cons, h a (by simp)]
    rw [find?_congr' (l := t) (fun b hb => h b (by simp [hb]))]

theorem findPend_setPend_self (s : State) (p : Pending) : findPend (setPend s p) p.tid = some p := by
  simp [findPend, setPend]

theorem findPend_setPend_other (s : State) (p : Pending) (t : Nat) (h : t ≠ p.tid) :
    findPend (setPend s p) t = findPend s t := by
  unfold findPend setPend
  have hp : ¬ (p.tid = t) := fun e => h e.symm
  simp only [List.find?_cons, hp, decide_false]
  rw [List.find?_filter]
  apply find?_congr'
  intro q _
  by_cases hq : q.tid = t
  · simp [hq, h]
  · simp [hq]

theorem findPend_dropPend_other (s : State) (tid t : Nat) (h : t ≠ tid) :
    findPend (dropPend s tid) t = findPend s t := by
  unfold findPend dropPend
  simp only
  rw [List.find?_filter]
  apply find?_congr'
  intro q _
  by_cases hq : q.tid = t
  · simp [hq, h]
  · simp [hq]

/-- Replacing the record of caller `p.tid` (which is the record `findPend` returns for it). -/
theorem invG_setPend {P : Params} {s s' : State} {M : AMap} {seen : Seen} {p : Pending}
    (hinv : Inv P (setPend s' p) M)
    (huniq : ∀ q ∈ s.pend, findPend s q.tid = some q)
    (hpend : s'.pend = s.pend)
    (hseen : ∀ q ∈ s.pend, q.tid ≠ p.tid → SeenFacts M (seen q.tid) q)
    (hp : SeenFacts M (seen p.tid) p) :
    InvG P { s := setPend s' p, M := M, seen := seen } := by
  have hfp : ∀ t, t ≠ p.tid → findPend (setPend s' p) t = findPend s t := by
    intro t ht
    rw [findPend_setPend_other _ _ _ ht]
    unfold findPend; rw [hpend]
  refine ⟨hinv, ?_, ?_⟩
  · intro q hq
    rcases mem_setPend hq with rfl | ⟨hq, hne⟩
    · exact findPend_setPend_self _ _
    · rw [hfp _ hne]
      exact huniq q (by rw [← hpend]; exact hq)
  · intro q hq
    rcases mem_setPend hq with rfl | ⟨hq, hne⟩
    · exact hp
    · exact hseen q (by rw [← hpend]; exact hq) hne

theorem SeenFacts.mono {M : AMap} {seen seen' : List Int} {p : Pending} (h : SeenFacts M seen p)
    (hsub : ∀ x ∈ seen, x ∈ seen') : SeenFacts M seen' p := by
  unfold SeenFacts at h ⊢
  refine ⟨hsub _ h.1, ?_⟩
  cases hst : p.stage with
  | looked => trivial
  | hwRead hw => have := h.2; rw [hst] at this; exact fun e => hsub _ (this e)
  | oldRead hw o => have := h.2; rw [hst] at this; exact fun e => hsub _ (this e)
  | scanned r => have := h.2; rw [hst] at this; exact fun v e => hsub _ (this v e)

/-- The value a scan produces is the current one, or -1 when the log was seen empty. -/
theorem subscribeScan_value {P : Params} {s : State} {M : AMap} (h : Inv P s M) (k : Key) (hw o : Int)
    (hmono : hw ≠ -1 → s.log.hw ≠ -1) (hold : o ≠ -1 → ∀ r ∈ s.log.abs, o ≤ r.offset) :
    (subscribeScan P s k hw o).2 = .ok ((M k).getD (-1)) ∨
      ((hw = -1 ∨ o = -1) ∧ (subscribeScan P s k hw o).2 = .ok (-1)) := by
  by_cases he : hw = -1 ∨ o = -1
  · right
    refine ⟨he, ?_⟩
    unfold subscribeScan
    have : (Gen.Cursors.hwEmptyCmp.evalInt hw (-1) || Gen.Cursors.oldestEmptyCmp.evalInt o (-1)) = true := by
      simp only [Gen.Cursors.hwEmptyCmp, Gen.Cursors.oldestEmptyCmp, Cmp.evalInt, Bool.or_eq_true, decide_eq_true_eq]
      exact he
    simp only [this, if_true]
  · left
    exact (inv_subscribeScan (P := P) h k hw o).2.2.2.2.2 ⟨fun e => absurd e he, hmono, hold⟩

/-- Operations that leave the pending calls, the store and the history variable alone. -/
theorem invG_same_pend {P : Params} {g : G} {op : Op} (h : InvG P g)
    (hinv' : Inv P (step P g.s op).1 (absStep g.M op))
    (hpend : (step P g.s op).1.pend = g.s.pend) (hM : absStep g.M op = g.M)
    (hseen : seenStep g.s g.M g.seen op = g.seen) : InvG P (stepG P g op) := by
  unfold stepG
  rw [hM, hseen]
  rw [hM] at hinv'
  refine ⟨hinv', ?_, ?_⟩
  · intro p hp
    show findPend (step P g.s op).1 p.tid = some p
    unfold findPend; rw [hpend]
    exact h.uniq p (by rw [← hpend]; exact hp)
  · intro p hp
    exact h.seen p (by rw [← hpend]; exact hp)

theorem invG_step {P : Params} {g : G} (h : InvG P g) (hnr : NoRetention P) (hh : HdrsOK P) (op : Op)
    (hv : ValidOp P.dec op) (hx : Exclusive P g.s op) : InvG P (stepG P g op) := by
  have hinv' : Inv P (step P g.s op).1 (absStep g.M op) := inv_step h.inv hnr hh op hv hx
  cases op with
  | set k o v =>
    -- the pending calls are untouched; the store changes at `k`, whose new value enters `seen`
    have hpend : (step P g.s (.set k o v)).1.pend = g.s.pend := by
      simp only [step, setCursor]
      have hr := resume_pend g.s
      split <;> simp [hr]
    refine ⟨hinv', ?_, ?_⟩
    · intro p hp
      show findPend (step P g.s (.set k o v)).1 p.tid = some p
      unfold findPend
      rw [hpend]
      exact h.uniq p (by rw [← hpend]; exact hp)
    · intro p hp
      have hp' : p ∈ g.s.pend := by rw [← hpend]; exact hp
      have hfp := h.uniq p hp'
      have hold := h.seen p hp'
      show SeenFacts (fun k' => if k' = k then some o else g.M k') (seenStep g.s g.M g.seen (.set k o v) p.tid) p
      simp only [seenStep, hfp]
      by_cases hk : p.key = k
      · simp only [hk, if_true]
        have hm : SeenFacts g.M (o :: g.seen p.tid) p := hold.mono (fun x hx => List.mem_cons_of_mem _ hx)
        unfold SeenFacts at hm ⊢
        refine ⟨by simp [hk], hm.2⟩
      · simp only [hk, if_false]
        unfold SeenFacts at hold ⊢
        simp only [hk, if_false]
        exact hold
  | get k =>
    exact invG_same_pend h hinv' (by simp only [step]; exact getCursor_pend P g.s k) rfl rfl
  | lookup tid k =>
    unfold stepG
    simp only [step, absStep, seenStep] at hinv' ⊢
    cases hfp : findPend g.s tid with
    | some q => simp only [hfp] at hinv' ⊢; exact h
    | none =>
      simp only [hfp] at hinv' ⊢
      obtain ⟨hl, hlog, hseq, hpend, -, -⟩ := inv_lookup h.inv k
      cases hlk : lookup g.s k with
      | mk s1 r =>
        rw [hlk] at hl hpend
        simp only [hlk] at hinv' ⊢
        cases r with
        | some v =>
          simp only at hinv' ⊢
          refine ⟨hinv', ?_, ?_⟩
          · intro p hp
            show findPend s1 p.tid = some p
            unfold findPend; rw [hpend]
            exact h.uniq p (by rw [← hpend]; exact hp)
          · intro p hp
            exact h.seen p (by rw [← hpend]; exact hp)
        | none =>
          simp only at hinv' ⊢
          have hnot := findPend_none hfp
          apply invG_setPend (s := g.s) hinv' h.uniq hpend
          · intro q hq hne
            have : q.tid ≠ tid := hne
            simp only [this, if_false]
            exact h.seen q hq
          · show SeenFacts g.M (if tid = tid then [(g.M k).getD (-1)] else g.seen tid) _
            simp only [if_true]
            unfold SeenFacts
            exact ⟨by simp, trivial⟩
  | readHW tid =>
    unfold stepG
    simp only [step, absStep, seenStep] at hinv' ⊢
    split
    · rename_i p hfp
      obtain ⟨hp, htid⟩ := findPend_mem hfp
      simp only [hfp] at hinv'
      have hs := h.seen p hp
      split
      · rename_i hst
        simp only [hst] at hinv'
        apply invG_setPend (s := g.s) hinv' h.uniq rfl
        · intro q hq _; exact h.seen q hq
        · show SeenFacts g.M (g.seen p.tid) { p with stage := .hwRead g.s.log.hw }
          unfold SeenFacts at hs ⊢
          refine ⟨hs.1, ?_⟩
          intro h1
          have := h.inv.agree.none_of_empty ((h.inv.log.hw_eq_neg_one_iff).mp h1) p.key
          have hcur := hs.1
          rw [this] at hcur
          exact hcur
      · exact h
    · exact h
  | readOldest tid =>
    unfold stepG
    simp only [step, absStep, seenStep] at hinv' ⊢
    split
    · rename_i p hfp
      obtain ⟨hp, htid⟩ := findPend_mem hfp
      simp only [hfp] at hinv'
      have hs := h.seen p hp
      split
      · rename_i hw hst
        simp only [hst] at hinv'
        apply invG_setPend (s := g.s) hinv' h.uniq rfl
        · intro q hq _; exact h.seen q hq
        · show SeenFacts g.M (g.seen p.tid) { p with stage := .oldRead hw g.s.log.oldest }
          unfold SeenFacts at hs ⊢
          rw [hst] at hs
          refine ⟨hs.1, ?_⟩
          rintro (h1 | h2)
          · exact hs.2 h1
          · have := h.inv.agree.none_of_empty (h.inv.log.oldest_eq_neg_one h2) p.key
            have hcur := hs.1
            rw [this] at hcur
            exact hcur
      · exact h
    · exact h
  | subscribe tid =>
    unfold stepG
    simp only [step, absStep, seenStep] at hinv' ⊢
    split
    · rename_i p hfp
      obtain ⟨hp, htid⟩ := findPend_mem hfp
      simp only [hfp] at hinv'
      have hs := h.seen p hp
      split
      · rename_i hw o hst
        simp only [hst] at hinv'
        have hstale := h.inv.stale p hp
        unfold PendStale at hstale
        rw [hst] at hstale
        apply invG_setPend (s := g.s) hinv' h.uniq (subscribeScan_pend P g.s p.key hw o)
        · intro q hq _; exact h.seen q hq
        · show SeenFacts g.M (g.seen p.tid) { p with stage := .scanned (subscribeScan P g.s p.key hw o).2 }
          unfold SeenFacts at hs ⊢
          rw [hst] at hs
          refine ⟨hs.1, ?_⟩
          intro v hres
          rcases subscribeScan_value (P := P) h.inv p.key hw o hstale.1 (fun ho => (hstale.2 ho).2) with hval | ⟨he, hval⟩
          · rw [hval] at hres
            injection hres with hres
            rw [← hres]; exact hs.1
          · rw [hval] at hres
            injection hres with hres
            rw [← hres]; exact hs.2 he
      · exact h
    · exact h
  | finish tid =>
    unfold stepG
    simp only [step, absStep, seenStep] at hinv' ⊢
    split
    · rename_i p hfp
      obtain ⟨hp, htid⟩ := findPend_mem hfp
      simp only [hfp] at hinv'
      split
      · rename_i r hst
        simp only [hst] at hinv'
        have hpend : (finishGet P (dropPend g.s tid) p.key p.seq0 r).1.pend = (dropPend g.s tid).pend := finishGet_pend _ _ _ _ _
        have hsub : ∀ q ∈ (dropPend g.s tid).pend, q ∈ g.s.pend ∧ q.tid ≠ tid := by
          intro q hq
          obtain ⟨h1, h2⟩ := List.mem_filter.mp hq
          exact ⟨h1, by simpa using h2⟩
        refine ⟨hinv', ?_, ?_⟩
        · intro q hq
          rw [hpend] at hq
          obtain ⟨hq1, hq2⟩ := hsub q hq
          show findPend _ q.tid = some q
          unfold findPend; rw [hpend]
          have := findPend_dropPend_other g.s tid q.tid hq2
          unfold findPend at this
          rw [this]
          exact h.uniq q hq1
        · intro q hq
          rw [hpend] at hq
          exact h.seen q (hsub q hq).1
      · exact h
    · exact h
  | abort tid =>
    unfold stepG
    simp only [step, absStep, seenStep] at hinv' ⊢
    split
    · rename_i p hfp
      simp only [hfp] at hinv'
      have hsub : ∀ q ∈ (dropPend g.s tid).pend, q ∈ g.s.pend ∧ q.tid ≠ tid := by
        intro q hq
        obtain ⟨h1, h2⟩ := List.mem_filter.mp hq
        exact ⟨h1, by simpa using h2⟩
      refine ⟨hinv', ?_, ?_⟩
      · intro q hq
        obtain ⟨hq1, hq2⟩ := hsub q hq
        show findPend (dropPend g.s tid) q.tid = some q
        rw [findPend_dropPend_other g.s tid q.tid hq2]
        exact h.uniq q hq1
      · intro q hq
        exact h.seen q (hsub q hq).1
    · exact h
  | roll =>
    exact invG_same_pend h hinv' (by simp only [step, Cursors.roll]; split <;> rfl) rfl rfl
  | clean =>
    exact invG_same_pend h hinv' (by simp only [step, Cursors.clean]; split <;> rfl) rfl rfl
  | becomeLeader =>
    exact invG_same_pend h hinv' (by simp only [step, becomeLeader]; split <;> rfl) rfl rfl
  | restart =>
    refine ⟨hinv', ?_, ?_⟩ <;> (intro p hp; simp [stepG, step, restart] at hp)
  | pause => exact invG_same_pend h hinv' rfl rfl rfl
  | evictAll => exact invG_same_pend h hinv' rfl rfl rfl
  | cacheOn b => exact invG_same_pend h hinv' rfl rfl rfl

theorem invG_init (P : Params) (m : Int) (hm : 0 < m) (on : Bool) : InvG P (G.init m on) :=
  ⟨inv_init P m hm on, fun p hp => by simp [G.init, State.init] at hp, fun p hp => by simp [G.init, State.init] at hp⟩

theorem invG_run {P : Params} (hnr : NoRetention P) (hh : HdrsOK P) : ∀ (hist : List Op) {g : G}, InvG P g →
    (∀ op ∈ hist, ValidOp P.dec op) → ExclusiveRun P g.s hist → InvG P (runG P g hist)
  | [], _, h, _, _ => h
  | op :: rest, _, h, hv, hx =>
    invG_run hnr hh rest (invG_step h hnr hh op (hv op (by simp)) hx.1) (fun o ho => hv o (by simp [ho])) hx.2

/-- What `finish` answers is the scanned result of the caller's pending call. -/
theorem finish_output {P : Params} {s : State} {tid : Nat} {v : Int}
    (h : (step P s (.finish tid)).2 = .val (.ok v)) :
    ∃ p, findPend s tid = some p ∧ p.stage = .scanned (.ok v) := by
  simp only [step] at h
  split at h
  · rename_i p hfp
    split at h
    · rename_i r hst
      refine ⟨p, hfp, ?_⟩
      cases r with
      | ok v' =>
        simp only [finishGet] at h
        injection h with h
        injection h with h
        rw [hst, h]
      | err e => simp [finishGet] at h
      | panic => simp [finishGet] at h
    · cases h
  · cases h

/-! ### Cursor keys -/

theorem keyOf_ne_nil (id stream digits : Bytes) : keyOf id stream digits ≠ [] := by
  unfold keyOf
  cases id <;> simp

/-- Splitting at the first separator is unique. -/
theorem split_unique (c : UInt8) : ∀ (xs xs' ys ys' : Bytes), c ∉ xs → c ∉ xs' →
    xs ++ c :: ys = xs' ++ c :: ys' → xs = xs' ∧ ys = ys'
  | [], [], _, _, _, _, h => by simp at h; exact ⟨rfl, h⟩
  | [], x' :: xs', _, _, _, h', h => by
    simp at h; exact absurd (by simp [h.1]) h'
  | x :: xs, [], _, _, hx, _, h => by
    simp at h; exact absurd (by simp [h.1]) hx
  | x :: xs, x' :: xs', ys, ys', hx, hx', h => by
    simp only [List.cons_append, List.cons.injEq] at h
    have := split_unique c xs xs' ys ys' (fun hm => hx (by simp [hm])) (fun hm => hx' (by simp [hm])) h.2
    exact ⟨by rw [h.1, this.1], this.2⟩

/-- Cursor keys are unambiguous when neither the cursor id nor the stream name contains a comma. -/
theorem keyOf_injective {id id' stream stream' d d' : Bytes} (h1 : comma ∉ id) (h1' : comma ∉ id')
    (h2 : comma ∉ stream) (h2' : comma ∉ stream') (h : keyOf id stream d = keyOf id' stream' d') :
    id = id' ∧ stream = stream' ∧ d = d' := by
  unfold keyOf at h
  simp only [List.append_assoc, List.singleton_append] at h
  obtain ⟨e1, h⟩ := split_unique comma id id' _ _ h1 h1' h
  obtain ⟨e2, h⟩ := split_unique comma stream stream' _ _ h2 h2' h
  exact ⟨e1, e2, h⟩

end Liftbridge.Proofs.Cursors
