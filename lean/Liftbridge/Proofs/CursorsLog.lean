/- Commit-log facts needed by C11: the invariant of the cursors partition (a compacted log on
which every publish is committed before it is acknowledged) is preserved by publish, roll,
reopen and compaction, and the reverse subscription `getLatestCursorOffset` opens delivers the
whole log, newest first. -/
import Liftbridge.Model.Cursors
import Liftbridge.Proofs.Compact
namespace Liftbridge.Proofs.Cursors
open Liftbridge Liftbridge.Log Liftbridge.Log.CLog Liftbridge.Compact Liftbridge.Proofs.Log
open Liftbridge.Proofs.Compact Liftbridge.Cursors

/-- Invariant of the cursors partition's log at quiescence (no publish in flight). -/
structure LogOK (l : CLog) : Prop where
  invc : InvC l
  maxPos : 0 < l.maxSegBytes
  writable : l.readonly = false
  noOcc : l.occ = false
  /-- the HW is the offset of the last retained record (-1 on an empty log) -/
  hwLast : l.hw = (l.abs.getLast?.map Rec.offset).getD (-1)
  /-- everything appended is committed -/
  hwNewest : l.hw = l.newest

/-! ### `InvC` versions of the basic `Inv` lemmas -/

theorem invC_of_wfc {l : CLog} (hne : l.segs ≠ []) (wf : WFC l.segs)
    (hin : ∀ s ∈ l.segs.dropLast, s.recs ≠ []) : InvC l :=
  ⟨hne, wf.sorted, wf.base_le, wf.chain, hin⟩

theorem invC_of_segs_eq {l l' : CLog} (h : InvC l) (e : l'.segs = l.segs) : InvC l' := by
  apply invC_of_wfc
  · rw [e]; exact h.nonempty
  · rw [e]; exact h.wfc
  · rw [e]; exact h.inner_nonempty

theorem abs_of_segs_eq {l l' : CLog} (e : l'.segs = l.segs) : l'.abs = l.abs := by
  unfold abs; rw [e]

theorem nextOffset_of_segs_eq {l l' : CLog} (e : l'.segs = l.segs) : l'.nextOffset = l.nextOffset := by
  unfold CLog.nextOffset active; rw [e]

theorem newest_of_segs_eq {l l' : CLog} (e : l'.segs = l.segs) : l'.newest = l.newest := by
  unfold newest; rw [nextOffset_of_segs_eq e]

theorem invC_activeOK {l : CLog} (h : InvC l) : SegOK l.active := h.wfc.segOK (active_mem h.nonempty)

theorem invC_next_nonneg {l : CLog} (h : InvC l) : 0 ≤ l.nextOffset := (invC_activeOK h).next_nonneg

theorem invC_lt_next {l : CLog} (h : InvC l) : ∀ r ∈ l.abs, r.offset < l.nextOffset := by
  intro r hr
  rw [abs_eq_dropLast_active h.nonempty] at hr
  have hs := segs_eq_dropLast_active h.nonempty
  rcases List.mem_append.mp hr with hr | hr
  · have := h.wfc.pre_lt hs r hr
    have := (invC_activeOK h).base_le_next
    unfold CLog.nextOffset; omega
  · exact (invC_activeOK h).lt_next r hr

theorem invC_seg_next_le {l : CLog} (h : InvC l) : ∀ a ∈ l.segs, a.nextOffset ≤ l.nextOffset := by
  intro a ha
  have hs := segs_eq_dropLast_active h.nonempty
  rw [hs] at ha
  rcases List.mem_append.mp ha with ha | ha
  · have := ((h.wfc.split hs).1 a ha).1
    have := (invC_activeOK h).base_le_next
    unfold CLog.nextOffset; omega
  · simp at ha; subst ha; exact Int.le_refl _

theorem invC_offset_nonneg {l : CLog} (h : InvC l) : ∀ r ∈ l.abs, 0 ≤ r.offset := by
  intro r hr
  obtain ⟨s, hs, hrs⟩ := List.mem_flatMap.mp hr
  have := h.base_le s hs
  have := this.2 r hrs
  omega

theorem sorted_le_getLast {xs : List Rec} (hs : Sorted xs) {z : Rec} (hz : xs.getLast? = some z) :
    ∀ r ∈ xs, r.offset ≤ z.offset := by
  intro r hr
  rcases List.eq_nil_or_concat xs with hn | ⟨init, y, hy⟩
  · simp [hn] at hr
  · rw [List.concat_eq_append] at hy
    subst hy
    rw [List.getLast?_concat] at hz
    cases hz
    rcases List.mem_append.mp hr with hr | hr
    · have := (List.pairwise_append.mp hs).2.2 r hr z (by simp)
      omega
    · simp at hr; subst hr; exact Int.le_refl _

theorem logOK_init (m : Int) (hm : 0 < m) : LogOK (CLog.init m false) := by
  refine ⟨?_, hm, rfl, rfl, ?_, ?_⟩
  · apply invC_of_wfc
    · simp [CLog.init]
    · refine ⟨by simp [CLog.init, Sorted], by simp [CLog.init], by simp [CLog.init]⟩
    · simp [CLog.init]
  · simp [CLog.init, abs]
  · simp [CLog.init, newest, CLog.nextOffset, active, Seg.nextOffset, Seg.lastOffset]

theorem LogOK.offset_nonneg {l : CLog} (h : LogOK l) : ∀ r ∈ l.abs, 0 ≤ r.offset :=
  invC_offset_nonneg h.invc

theorem LogOK.lt_next {l : CLog} (h : LogOK l) : ∀ r ∈ l.abs, r.offset < l.nextOffset :=
  invC_lt_next h.invc

theorem LogOK.le_hw {l : CLog} (h : LogOK l) : ∀ r ∈ l.abs, r.offset ≤ l.hw := by
  intro r hr
  have := h.lt_next r hr
  have := h.hwNewest
  unfold newest at this
  omega

theorem LogOK.hw_eq_neg_one_iff {l : CLog} (h : LogOK l) : l.hw = -1 ↔ l.abs = [] := by
  have hl := h.hwLast
  constructor
  · intro he
    cases hg : l.abs.getLast? with
    | none => exact List.getLast?_eq_none_iff.mp hg
    | some r =>
      rw [hg] at hl
      simp at hl
      have := h.offset_nonneg r (List.mem_of_getLast? hg)
      omega
  · intro he
    rw [he] at hl
    simpa using hl

theorem LogOK.oldest_eq_neg_one {l : CLog} (h : LogOK l) (ho : l.oldest = -1) : l.abs = [] := by
  apply Classical.byContradiction
  intro hne
  exact h.invc.oldest_ne hne ho

theorem LogOK.oldest_le {l : CLog} (h : LogOK l) (ho : l.oldest ≠ -1) : ∀ r ∈ l.abs, l.oldest ≤ r.offset := by
  intro r hr
  have hsorted := h.invc.sorted
  cases hsegs : l.segs with
  | nil => exact absurd hsegs h.invc.nonempty
  | cons s0 rest =>
    cases hrecs : s0.recs with
    | nil => simp [oldest, hsegs, Seg.firstOffset, hrecs] at ho
    | cons r0 rs =>
      have ho' : l.oldest = r0.offset := by simp [oldest, hsegs, Seg.firstOffset, hrecs]
      have habs : l.abs = r0 :: (rs ++ rest.flatMap Seg.recs) := by simp [abs, hsegs, hrecs]
      rw [habs] at hr hsorted
      rw [ho']
      rcases List.mem_cons.mp hr with rfl | hr
      · exact Int.le_refl _
      · have := (List.pairwise_cons.mp hsorted).1 r hr
        omega

/-! ### Roll and write under `InvC` -/

theorem invC_roll {l : CLog} (h : InvC l) (hne : l.active.recs ≠ []) : InvC l.roll := by
  have hs := segs_eq_dropLast_active h.nonempty
  have hlt := (invC_activeOK h).base_lt_next hne
  have hb : l.newest + 1 = l.nextOffset := by simp only [newest]; omega
  apply invC_of_wfc
  · simp [CLog.roll]
  · show WFC (l.segs ++ [{ base := l.newest + 1, recs := [] }])
    apply h.wfc.snoc
    · refine ⟨?_, by simp, by simp [Sorted]⟩
      show 0 ≤ l.newest + 1
      rw [hb]; exact invC_next_nonneg h
    · intro a ha
      show a.nextOffset ≤ l.newest + 1 ∧ a.base < l.newest + 1
      rw [hb]
      refine ⟨invC_seg_next_le h a ha, ?_⟩
      rw [hs] at ha
      rcases List.mem_append.mp ha with ha | ha
      · have := ((h.wfc.split hs).1 a ha).2
        unfold CLog.nextOffset; omega
      · simp at ha; subst ha; exact hlt
  · show ∀ s ∈ (l.segs ++ [({ base := l.newest + 1, recs := [] } : Seg)]).dropLast, s.recs ≠ []
    rw [List.dropLast_concat]
    intro s hs'
    rw [hs] at hs'
    rcases List.mem_append.mp hs' with hs' | hs'
    · exact h.inner_nonempty s hs'
    · simp at hs'; subst hs'; exact hne

theorem needSplit_recs_ne' {l : CLog} (hm : 0 < l.maxSegBytes) (hn : l.needSplit = true) :
    l.active.recs ≠ [] := by
  intro he
  simp [needSplit, Gen.Log.splitCmp, Cmp.evalInt, Seg.position, he] at hn
  omega

theorem invC_checkSplit {l : CLog} (h : InvC l) (hm : 0 < l.maxSegBytes) : InvC l.checkSplit := by
  unfold checkSplit; split
  · rename_i hn; exact invC_roll h (needSplit_recs_ne' hm hn)
  · exact h

theorem invC_write {l l' : CLog} {rs : List Rec} {offs : List Int} (h : InvC l)
    (hsorted : Sorted rs) (hge : ∀ r ∈ rs, l.nextOffset ≤ r.offset)
    (hw : l.write rs = .ok (l', offs)) : InvC l' := by
  rw [write_eq l (write_ok_ne hw)] at hw
  injection hw with hw
  injection hw with h1 h2
  subst h1
  have hs := segs_eq_dropLast_active h.nonempty
  have ok := invC_activeOK h
  apply invC_of_wfc
  · simp
  · show WFC (l.segs.dropLast ++ [{ l.active with recs := l.active.recs ++ rs }])
    have wfpre : WFC l.segs.dropLast := by
      have := h.wfc; rw [hs] at this; exact this.of_append
    apply wfpre.snoc
    · refine ⟨ok.base_nonneg, ?_, ?_⟩
      · intro r hr
        rcases List.mem_append.mp hr with hr | hr
        · exact ok.base_le r hr
        · have := hge r hr
          have := ok.base_le_next
          show l.active.base ≤ r.offset
          unfold CLog.nextOffset at *; omega
      · apply sorted_append ok.sorted hsorted
        intro a ha b hb
        have := ok.lt_next a ha
        have := hge b hb
        unfold CLog.nextOffset at *; omega
    · intro a ha
      exact (h.wfc.split hs).1 a ha
  · show ∀ s ∈ (l.segs.dropLast ++ [{ l.active with recs := l.active.recs ++ rs }]).dropLast, s.recs ≠ []
    rw [List.dropLast_concat]
    exact h.inner_nonempty

theorem setHW_of_gt {l : CLog} {hw : Int} (h : l.hw < hw) : l.setHW hw = { l with hw := hw } := by
  simp [setHW, Gen.Log.setHWCmp, Cmp.evalInt, h]

theorem checkSplit_fields (l : CLog) :
    l.checkSplit.maxSegBytes = l.maxSegBytes ∧ l.checkSplit.hw = l.hw ∧
    l.checkSplit.readonly = l.readonly ∧ l.checkSplit.occ = l.occ := by
  unfold checkSplit; split <;> simp [CLog.roll]

/-- Writing one record at the next offset of a fully committed log and committing it. -/
theorem logOK_write_one {l1 l' : CLog} {offs : List Int} (hi : InvC l1) (hm : 0 < l1.maxSegBytes)
    (hro : l1.readonly = false) (hocc : l1.occ = false) (hhw : l1.hw = l1.newest)
    (r : Rec) (hr : r.offset = l1.nextOffset) (hw : l1.write [r] = .ok (l', offs)) :
    (l'.setHW l'.newest).abs = l1.abs ++ [r] ∧ LogOK (l'.setHW l'.newest) := by
  have hnn := invC_next_nonneg hi
  have hi' : InvC l' := invC_write hi (by simp [Sorted]) (by intro x hx; simp at hx; subst hx; omega) hw
  have habs : l'.abs = l1.abs ++ [r] := (write_spec hi.nonempty hw).1
  rw [write_eq l1 (rs := [r]) (by simp)] at hw
  injection hw with hw
  injection hw with h1 h2
  have hact : l'.active = { l1.active with recs := l1.active.recs ++ [r] } := by
    subst h1; simp [active]
  have hnext : l'.nextOffset = r.offset + 1 := by
    unfold CLog.nextOffset
    rw [hact]
    exact nextOffset_concat (s := { l1.active with recs := l1.active.recs ++ [r] }) rfl (by omega)
  have hnew : l'.newest = r.offset := by unfold newest; omega
  have hhw' : l'.hw = l1.hw := by subst h1; rfl
  have hset : l'.setHW l'.newest = { l' with hw := l'.newest } := by
    apply setHW_of_gt
    rw [hhw', hhw, hnew, hr]; unfold newest; omega
  rw [hset]
  have hsegs : ({ l' with hw := l'.newest } : CLog).segs = l'.segs := rfl
  refine ⟨by rw [abs_of_segs_eq hsegs, habs], ?_⟩
  refine ⟨invC_of_segs_eq hi' hsegs, ?_, ?_, ?_, ?_, ?_⟩
  · subst h1; exact hm
  · subst h1; exact hro
  · subst h1; exact hocc
  · rw [abs_of_segs_eq hsegs, habs]
    simp [hnew]
  · rw [newest_of_segs_eq hsegs]

/-- An ALL-policy publish of one (encodable: no header key longer than 32767 bytes) message on
the replication-factor-1 partition: appended at the next offset and committed. -/
theorem logOK_publish {l : CLog} (h : LogOK l) (m : CLog.Msg) (henc : m.body.encodable = true) :
    ∃ l', l.append [m] = .ok (l', [l.nextOffset]) ∧
      (l'.setHW l'.newest).abs = l.abs ++ [{ offset := l.nextOffset, ts := m.ts, epoch := m.epoch, body := m.body }] ∧
      LogOK (l'.setHW l'.newest) := by
  obtain ⟨cm, chw, cro, cocc⟩ := checkSplit_fields l
  have hi := invC_checkSplit h.invc h.maxPos
  have happ : l.append [m] = l.checkSplit.write
      [{ offset := l.nextOffset, ts := m.ts, epoch := m.epoch, body := m.body }] := by
    unfold append
    rw [h.writable]
    simp only [Bool.false_eq_true, if_false]
    rw [cocc, h.noOcc]
    simp [stamp, nextOffset_checkSplit, henc]
  have hw := write_eq l.checkSplit
    (rs := [{ offset := l.nextOffset, ts := m.ts, epoch := m.epoch, body := m.body }]) (by simp)
  have := logOK_write_one hi (by rw [cm]; exact h.maxPos) (by rw [cro]; exact h.writable)
    (by rw [cocc]; exact h.noOcc)
    (by rw [chw, h.hwNewest]; unfold newest; rw [nextOffset_checkSplit])
    { offset := l.nextOffset, ts := m.ts, epoch := m.epoch, body := m.body }
    (by rw [nextOffset_checkSplit]) hw
  rw [abs_checkSplit] at this
  exact ⟨_, by rw [happ, hw]; rfl, this⟩

theorem logOK_roll {l : CLog} (h : LogOK l) (hne : l.active.recs ≠ []) : LogOK l.roll := by
  refine ⟨invC_roll h.invc hne, h.maxPos, h.writable, h.noOcc, ?_, ?_⟩
  · rw [abs_roll]; exact h.hwLast
  · show l.hw = l.roll.newest
    unfold newest; rw [nextOffset_roll]; exact h.hwNewest

theorem abs_reopen (l : CLog) : l.reopen.abs = l.abs := rfl

theorem logOK_reopen {l : CLog} (h : LogOK l) : LogOK l.reopen := by
  have hsegs : l.reopen.segs = l.segs := rfl
  refine ⟨invC_of_segs_eq h.invc hsegs, h.maxPos, rfl, h.noOcc, ?_, ?_⟩
  · rw [abs_reopen]; exact h.hwLast
  · rw [newest_of_segs_eq hsegs]; exact h.hwNewest

theorem cleanLog_fields (lim : Retention.Limits) (ttl : Int) (c : Bool) (l : CLog) :
    (cleanLog lim ttl c l).maxSegBytes = l.maxSegBytes ∧
    (cleanLog lim ttl c l).readonly = l.readonly ∧ (cleanLog lim ttl c l).occ = l.occ := by
  unfold cleanLog
  dsimp only
  split
  · split
    · exact ⟨rfl, rfl, rfl⟩
    · split <;> exact ⟨rfl, rfl, rfl⟩
  · split <;> exact ⟨rfl, rfl, rfl⟩

/-- A clean of the cursors partition without retention limits (compaction only). -/
theorem logOK_compact {l : CLog} (h : LogOK l) : LogOK (cleanLog ⟨0, 0, 0⟩ 0 true l) := by
  obtain ⟨fm, fr, fo⟩ := cleanLog_fields ⟨0, 0, 0⟩ 0 true l
  have hi' := invC_cleanLog' l ⟨0, 0, 0⟩ 0 true h.invc
  refine ⟨hi', by rw [fm]; exact h.maxPos, by rw [fr]; exact h.writable, by rw [fo]; exact h.noOcc,
    ?_, ?_⟩
  · rw [cleanLog_hw]
    have hl := h.hwLast
    have hsub := survivors_sublist l
    cases hg : l.abs.getLast? with
    | none =>
      have he : l.abs = [] := List.getLast?_eq_none_iff.mp hg
      rw [he] at hsub
      rw [List.sublist_nil.mp hsub]
      rw [hg] at hl
      exact hl
    | some r =>
      rw [hg] at hl
      simp only [Option.map_some, Option.getD_some] at hl
      have hr : r ∈ l.abs := List.mem_of_getLast? hg
      have hr' : r ∈ (cleanLog ⟨0, 0, 0⟩ 0 true l).abs :=
        kept_of_retain l r hr (retain_above_hw _ _ _ (by omega))
      cases hg' : (cleanLog ⟨0, 0, 0⟩ 0 true l).abs.getLast? with
      | none =>
        rw [List.getLast?_eq_none_iff.mp hg'] at hr'
        cases hr'
      | some r' =>
        have h1 := sorted_le_getLast hi'.sorted hg' r hr'
        have h2 := h.le_hw r' (hsub.subset (List.mem_of_getLast? hg'))
        simp only [Option.map_some, Option.getD_some]
        omega
  · rw [cleanLog_hw]
    unfold newest
    rw [compactLog_nextOffset]
    exact h.hwNewest

theorem deliverRev_wait (rs : List Rec) (h : ∀ r ∈ rs, r.offset ≠ -1) :
    Subscribe.deliverRev Subscribe.waitForNew rs = (rs, false) := by
  induction rs with
  | nil => rfl
  | cons r rs ih =>
    have h1 := h r (by simp)
    have ih' := ih (fun x hx => h x (by simp [hx]))
    unfold Subscribe.deliverRev
    rw [ih']
    simp [Subscribe.waitForNew, h1]

theorem reverseRecs_all {l : CLog} (h : LogOK l) (hne : l.hw ≠ -1) :
    Subscribe.reverseRecs l l.hw = .ok l.abs.reverse := by
  have hn := h.hwNewest
  have wf := h.invc.wfc
  unfold Subscribe.reverseRecs
  rw [if_neg hne]
  have heff : (if (decide (l.hw > l.hw) || decide (l.hw = -1)) = true then l.hw else l.hw) = l.hw := by
    simp
  simp only [heff]
  rcases first_seg_split l.segs l.hw with hall | ⟨pre, x, post, hs, hx, hpre⟩
  · exfalso
    have := hall l.active (active_mem h.invc.nonempty)
    unfold newest CLog.nextOffset at hn; omega
  · rw [findSegmentIdx_of_split wf hs hx hpre]
    have hget : l.segs[pre.length]? = some x := by simp [hs]
    have htake : l.segs.take pre.length = pre := by rw [hs]; exact List.take_left' rfl
    simp only [hget, htake]
    have hpost : post.flatMap Seg.recs = [] := by
      apply List.eq_nil_iff_forall_not_mem.mpr
      intro r hr
      have h1 := wf.post_ge hs r hr
      have h2 := h.le_hw r (by
        unfold abs; rw [hs]
        simp only [List.flatMap_append, List.flatMap_cons, List.mem_append]
        exact Or.inr (Or.inr hr))
      omega
    have habs : l.abs = pre.flatMap Seg.recs ++ x.recs := by simp [abs, hs, hpost]
    have hfil : x.recs.filter (fun r => decide (r.offset ≤ l.hw)) = x.recs := by
      apply List.filter_eq_self.mpr
      intro r hr
      have := h.le_hw r (by rw [habs]; exact List.mem_append_right _ hr)
      simpa using this
    rw [hfil, habs, List.reverse_append]

/-- The reverse subscription from LATEST delivers every retained record, newest first, and then
ends with the regenerated end-of-reverse-subscription status. -/
theorem create_reverse_all {l : CLog} (h : LogOK l) (hne : l.hw ≠ -1) :
    Subscribe.create l cursorReq =
      .live l.abs.reverse (.status Gen.Subscribe.reverseEndStatus)
        { nextOff := 0, stop := Subscribe.waitForNew, reverse := true, ended := true } := by
  have hn := h.hwNewest
  have habsne : l.abs ≠ [] := fun he => hne (h.hw_eq_neg_one_iff.mpr he)
  have hpos : 0 ≤ l.hw := by
    obtain ⟨r, hr⟩ := List.exists_mem_of_ne_nil _ habsne
    have := h.le_hw r hr
    have := h.offset_nonneg r hr
    omega
  have hstart : Subscribe.startOffset l .latest = .ok l.hw := by
    have : ¬ l.newest < 0 := by omega
    simp [Subscribe.startOffset, this, hn]
  have hstop : Subscribe.stopOffset l true .onCancel = .ok (some Subscribe.waitForNew) := by
    simp [Subscribe.stopOffset, h.writable]
  have hdel := deliverRev_wait l.abs.reverse (by
    intro r hr
    have := h.offset_nonneg r (List.mem_reverse.mp hr)
    omega)
  unfold Subscribe.create
  simp only [cursorReq, hstart, hstop, reverseRecs_all h hne, hdel]
  simp [Gen.Subscribe.reverseStopRule]

end Liftbridge.Proofs.Cursors
