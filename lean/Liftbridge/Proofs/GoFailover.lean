/-
Helper lemmas for Props/GoFailover.lean: encodings, look-ups, `IsWitness` at the level of its body, and
the counting loop of `failoverStatus.report` as an explicit state transformer.
-/
import Liftbridge.Proofs.GoCodeBase
import Liftbridge.Gen.GoFailover
import Liftbridge.Model.Failover

namespace Liftbridge.Props.GoFailover
open Liftbridge Liftbridge.GoMini Liftbridge.GoCode
open Liftbridge.Gen.GoFailover

/-- a Go `map[string]…` whose key set is `ks` (values are irrelevant to the translated functions) -/
def encSet (ks : List String) : List (String × Val) := ks.map fun k => (k, .struct [])

/-- `*partition` as `partitionFailover` uses it -/
def encPartition (isr : List String) (leader : String) (epoch : Int) : Val :=
  .struct [("isr", .struct (encSet isr)), ("Leader", .str leader), ("LeaderEpoch", .int epoch)]

/-- the `failover` interface value held by a `failoverStatus` -/
def encFO (isr : List String) (leader : String) (epoch timeout : Int) : Val :=
  .struct [("partition", encPartition isr leader epoch), ("timeout", .int timeout), ("OnExpired", .nil)]

theorem lookup_encSet (k : String) (ks : List String) : (lookup k (encSet ks)).isSome = decide (k ∈ ks) := by
  induction ks with
  | nil => simp [encSet, lookup]
  | cons a rest ih =>
    by_cases h : k = a
    · simp [encSet, lookup, h]
    · simp [encSet, lookup, h] at ih ⊢; simpa [encSet] using ih

@[simp] theorem lk_IsWitness : evalE.lookup' "IsWitness" prog = some fn_partitionFailover_IsWitness := by simp [prog, gomini]
@[simp] theorem lk_Quorum : evalE.lookup' "Quorum" prog = some fn_partitionFailover_Quorum := by simp [prog, gomini]
@[simp] theorem lk_Timeout : evalE.lookup' "Timeout" prog = some fn_partitionFailover_Timeout := by simp [prog, gomini]
@[simp] theorem lk_inISR : evalE.lookup' "inISR" prog = some fn_partition_inISR := by simp [prog, gomini]
@[simp] theorem lk_ISRSize : evalE.lookup' "ISRSize" prog = some fn_partition_ISRSize := by simp [prog, gomini]
@[simp] theorem lk_GetLeader : evalE.lookup' "GetLeader" prog = some fn_partition_GetLeader := by simp [prog, gomini]
@[simp] theorem lk_Failover : evalE.lookup' "Failover" prog = none := by simp [prog, gomini]
@[simp] theorem lk_Stop : evalE.lookup' "Stop" prog = none := by simp [prog, gomini]
@[simp] theorem lk_Reset : evalE.lookup' "Reset" prog = none := by simp [prog, gomini]
@[simp] theorem lk_AfterFunc : evalE.lookup' "time.AfterFunc" prog = none := by simp [prog, gomini]
@[simp] theorem lk_report : evalE.lookup' "report" prog = some fn_failoverStatus_report := by simp [prog, gomini]

/-- `IsWitness`, at the level of its body -/
theorem isWitness_body (x : Ext) (n : Nat) (isr : List String) (leader : String) (epoch timeout : Int) (k : String)
    (eff : List (String × List Val)) :
    runBlock (exec prog x (n+12)) fn_partitionFailover_IsWitness.body
        { env := envOf [("p", encFO isr leader epoch timeout), ("reporter", .str k)], eff := eff } =
      .ok (.ret [.bool (decide (k ≠ leader) && decide (k ∈ isr))],
        ({ env := envOf [("p", encFO isr leader epoch timeout), ("reporter", .str k)], eff := eff } : St).set "leader" (.str leader)) := by
  by_cases h1 : k = leader <;> by_cases h2 : k ∈ isr <;>
  · have hl := lookup_encSet k isr
    cases hlk : lookup k (encSet isr) with
    | none => simp [hlk, h2] at hl <;>
        simp [fn_partitionFailover_IsWitness, fn_partition_GetLeader, fn_partition_inISR, gomini, encFO, encPartition, builtin, h1, h2, hlk] <;> rfl
    | some v => simp [hlk, h2] at hl <;>
        simp [fn_partitionFailover_IsWitness, fn_partition_GetLeader, fn_partition_inISR, gomini, encFO, encPartition, builtin, h1, h2, hlk] <;> rfl

/-- state after the counting loop of `report` -/
def repSt (isr : List String) (leader : String) : List (String × Val) → Int → St → St
  | [], _, st => st
  | (k, _) :: rest, cnt, st =>
    if k ≠ leader ∧ k ∈ isr then repSt isr leader rest (cnt + 1) ((st.set "reporter" (.str k)).set "reports" (.int (cnt + 1)))
    else repSt isr leader rest cnt (st.set "reporter" (.str k))

@[simp] theorem recv_IsWitness : fn_partitionFailover_IsWitness.recv = some "p" ∧ fn_partitionFailover_IsWitness.params = ["reporter"] := ⟨rfl, rfl⟩

theorem report_loop (x : Ext) (n : Nat) (isr : List String) (leader : String) (epoch timeout : Int) (kv : List (String × Val)) :
    ∀ (cnt : Int) (st : St), st.env "reports" = some (.int cnt) →
      (∃ fs, st.env "f" = some (.struct fs) ∧ lookup "failover" fs = some (encFO isr leader epoch timeout)) →
    runRangeMap (runBlock (exec prog x (n+20))
        [(.ite [] (.mcall (.sel (.var "f") "failover") "IsWitness" [(.var "reporter")])
          [(.opAssign "+" (.var "reports") (.int 1))] [])])
      (some "reporter") none kv st = .ok (.next, repSt isr leader kv cnt st) := by
  induction kv with
  | nil => intro cnt st _ _; simp [gomini, repSt]
  | cons e rest ih =>
    intro cnt st h1 hf
    obtain ⟨k, v⟩ := e
    obtain ⟨fs, hfs, hfo⟩ := hf
    have hb := isWitness_body x (n + 7) isr leader epoch timeout k
    by_cases hw : k ≠ leader ∧ k ∈ isr
    · have := ih (cnt + 1) ((st.set "reporter" (.str k)).set "reports" (.int (cnt + 1))) (by simp [gomini])
        ⟨fs, by simp [gomini, hfs], hfo⟩
      have hw1 := hw.1
      have hw2 := hw.2
      simp [gomini, repSt, hw, hw1, hw2, hfs, hfo, h1, hb, binInt]
      exact this
    · have := ih cnt (st.set "reporter" (.str k)) (by simp [gomini, h1]) ⟨fs, by simp [gomini, hfs], hfo⟩
      have hd : (decide (k ≠ leader) && decide (k ∈ isr)) = false := by
        by_cases a : k = leader <;> by_cases b : k ∈ isr <;> simp_all
      simp [gomini, repSt, hw, hfs, hfo, h1, hb, binInt, hd]
      exact this

theorem repSt_reports (isr : List String) (leader : String) (kv : List (String × Val)) :
    ∀ (cnt : Int) (st : St), st.env "reports" = some (.int cnt) →
    (repSt isr leader kv cnt st).env "reports" =
      some (.int (cnt + (kv.filter (fun e => decide (e.1 ≠ leader) && decide (e.1 ∈ isr))).length)) := by
  induction kv with
  | nil => intro cnt st h; simp [repSt, h]
  | cons e rest ih =>
    intro cnt st h
    obtain ⟨k, v⟩ := e
    by_cases hw : k ≠ leader ∧ k ∈ isr
    · have hw1 := hw.1; have hw2 := hw.2
      simp [repSt, hw, hw1, hw2]; rw [ih]; simp; omega; simp [gomini]
    · have hd : (decide (k ≠ leader) && decide (k ∈ isr)) = false := by
        by_cases a : k = leader <;> by_cases b : k ∈ isr <;> simp_all
      simp only [repSt, hw, ↓reduceIte, List.filter_cons, hd]; rw [ih]; simp; simp [gomini, h]

theorem repSt_frame (isr : List String) (leader : String) (y : String) (hy1 : y ≠ "reports") (hy2 : y ≠ "reporter") (kv : List (String × Val)) :
    ∀ (cnt : Int) (st : St), (repSt isr leader kv cnt st).env y = st.env y := by
  induction kv with
  | nil => intro cnt st; rfl
  | cons e rest ih =>
    intro cnt st
    obtain ⟨k, v⟩ := e
    by_cases hw : k ≠ leader ∧ k ∈ isr <;> simp [repSt, hw, ih, gomini, hy1, hy2]

theorem repSt_eff (isr : List String) (leader : String) (kv : List (String × Val)) :
    ∀ (cnt : Int) (st : St), (repSt isr leader kv cnt st).eff = st.eff := by
  induction kv with
  | nil => intro cnt st; rfl
  | cons e rest ih =>
    intro cnt st
    obtain ⟨k, v⟩ := e
    by_cases hw : k ≠ leader ∧ k ∈ isr <;> simp [repSt, hw, ih, gomini]

/-- `*failoverStatus` -/
def encStatus (W : List (String × Val)) (timer : Bool) (isr : List String) (leader : String) (epoch timeout : Int) : Val :=
  .struct [("witnesses", .struct W), ("timer", if timer then .struct [] else .nil), ("failover", encFO isr leader epoch timeout)]

/-- `time.AfterFunc` hands back a timer -/
def timerExt : Ext := fun f _ _ => if f = "time.AfterFunc" then some (.struct []) else none

def effView : R Out → Option (List Val × List (String × List Val))
  | .ok o => some (o.rets, o.eff)
  | _ => none

/-- the witnesses counted by the model: reporters other than the leader that are in the in-sync set -/
def counted (isr : List String) (leader : String) (W : List (String × Val)) : Nat :=
  (W.filter (fun e => decide (e.1 ≠ leader) && decide (e.1 ∈ isr))).length


end Liftbridge.Props.GoFailover
