/-
Helper lemmas for C12 (consumer-group assignment): association lists, the heap order, the
assignment loop, and the invariant that every operation of `Liftbridge.Groups` preserves.
-/
import Liftbridge.Model.Groups

namespace Liftbridge.Proofs.Groups
open Liftbridge Liftbridge.Groups

/-! ### association lists -/

theorem asgOf_erase_self (a : Asg) (s : String) : asgOf (asgErase a s) s = [] := by
  induction a with
  | nil => rfl
  | cons kv r ih =>
    obtain ⟨k, v⟩ := kv
    by_cases h : k = s
    · simp [asgErase, List.filter, h] at ih ⊢; exact ih
    · simp [asgErase, List.filter, h, asgOf] at ih ⊢; exact ih

theorem asgOf_erase_ne (a : Asg) {s t : String} (h : t ≠ s) : asgOf (asgErase a s) t = asgOf a t := by
  induction a with
  | nil => rfl
  | cons kv r ih =>
    obtain ⟨k, v⟩ := kv
    by_cases hk : k = s
    · have : k ≠ t := fun e => h (e ▸ hk)
      simp [asgErase, List.filter, hk, asgOf] at ih ⊢
      rw [ih]; simp [hk ▸ this]
    · simp [asgErase, List.filter, hk, asgOf] at ih ⊢
      rw [ih]

theorem asgOf_append_self (a : Asg) (s : String) (p : Nat) :
    asgOf (asgAppend a s p) s = asgOf a s ++ [p] := by
  induction a with
  | nil => simp [asgAppend, asgOf]
  | cons kv r ih =>
    obtain ⟨k, v⟩ := kv
    by_cases hk : k = s
    · simp [asgAppend, asgOf, hk]
    · simp [asgAppend, asgOf, hk, ih]

theorem asgOf_append_ne (a : Asg) {s t : String} (p : Nat) (h : t ≠ s) :
    asgOf (asgAppend a s p) t = asgOf a t := by
  induction a with
  | nil => simp [asgAppend, asgOf, Ne.symm h]
  | cons kv r ih =>
    obtain ⟨k, v⟩ := kv
    by_cases hk : k = s
    · have : k ≠ t := fun e => h (e ▸ hk)
      simp [asgAppend, asgOf, hk, hk ▸ this]
    · by_cases hkt : k = t
      · subst hkt; simp [asgAppend, asgOf, hk]
      · simp [asgAppend, asgOf, hk, hkt, ih]

theorem asgOf_of_not_has (a : Asg) (s : String) (h : asgHas a s = false) : asgOf a s = [] := by
  induction a with
  | nil => rfl
  | cons kv r ih =>
    obtain ⟨k, v⟩ := kv
    by_cases hk : k = s
    · simp [asgHas, hk] at h
    · simp [asgHas, hk] at h; simp [asgOf, hk, ih h]

theorem sget_sset (l : Subs) (s t : String) (v : List String) :
    sget (sset l s v) t = if t = s then some v else sget l t := by
  induction l with
  | nil =>
    by_cases h : t = s
    · simp [sset, sget, h]
    · simp [sset, sget, h, Ne.symm h]
  | cons kv r ih =>
    obtain ⟨k, w⟩ := kv
    by_cases hk : k = s
    · by_cases h : t = s
      · simp [sset, sget, hk, h]
      · have : s ≠ t := Ne.symm h
        simp [sset, sget, hk, h, this]
    · by_cases h : t = s
      · simp [sset, sget, hk, h] at ih ⊢; exact ih
      · by_cases hkt : k = t
        · subst hkt; simp [sset, sget, hk]
        · simp [sset, sget, hk, h, hkt] at ih ⊢; exact ih

theorem sget_sdel (l : Subs) (s t : String) :
    sget (sdel l s) t = if t = s then none else sget l t := by
  induction l with
  | nil => simp [sdel, sget]
  | cons kv r ih =>
    obtain ⟨k, w⟩ := kv
    by_cases hk : k = s
    · by_cases h : t = s
      · simp [sdel, List.filter, hk, h] at ih ⊢; exact ih
      · have : s ≠ t := Ne.symm h
        simp [sdel, List.filter, hk, h, sget, this] at ih ⊢; exact ih
    · by_cases h : t = s
      · subst h
        simp [sdel, List.filter, hk, sget] at ih ⊢; exact ih
      · by_cases hkt : k = t
        · subst hkt; simp [sdel, List.filter, hk, h, sget]
        · simp [sdel, List.filter, hk, h, sget, hkt] at ih ⊢; exact ih

theorem mem_insertS (x y : String) (l : List String) : y ∈ insertS x l ↔ y = x ∨ y ∈ l := by
  induction l with
  | nil => simp [insertS]
  | cons z zs ih =>
    unfold insertS
    split
    · simp
    · split
      · rename_i h; subst h; simp
      · simp [ih]; constructor
        · rintro (h | h | h) <;> simp [h]
        · rintro (h | h | h) <;> simp [h]

theorem mem_sortDedup (y : String) (l : List String) : y ∈ sortDedup l ↔ y ∈ l := by
  induction l with
  | nil => simp [sortDedup]
  | cons x xs ih =>
    have : sortDedup (x :: xs) = insertS x (sortDedup xs) := rfl
    rw [this, mem_insertS, ih]; simp

/-! ### `StreamDeleted` on one subscriber -/

theorem dropStream_id (c : Cons) (s : String) : (c.dropStream s).id = c.id := by
  simp only [Cons.dropStream]; split <;> rfl

theorem dropStream_streams (c : Cons) (s : String) :
    (c.dropStream s).streams = c.streams.filter (· ≠ s) := rfl

/-! ### members: assignments per stream -/

/-- All partitions of stream `s` held by the members, member by member. -/
def H (ms : List Cons) (s : String) : List Nat := ms.flatMap fun m => asgOf m.asg s

def ids (ms : List Cons) : List String := ms.map (·.id)

@[simp] theorem H_nil (s : String) : H [] s = [] := rfl
@[simp] theorem H_cons (c : Cons) (ms : List Cons) (s : String) :
    H (c :: ms) s = asgOf c.asg s ++ H ms s := by simp [H]
@[simp] theorem H_append (a b : List Cons) (s : String) : H (a ++ b) s = H a s ++ H b s := by
  simp [H]

theorem assign_asg_self (c : Cons) (s : String) (p : Nat) :
    asgOf (c.assignPartition s p).asg s = asgOf c.asg s ++ [p] := asgOf_append_self _ _ _

theorem assign_asg_ne (c : Cons) {s t : String} (p : Nat) (h : t ≠ s) :
    asgOf (c.assignPartition s p).asg t = asgOf c.asg t := asgOf_append_ne _ _ h

theorem remove_asg_self (c : Cons) (s : String) :
    asgOf (c.removeStreamAssignments s).asg s = [] := asgOf_erase_self _ _

theorem remove_asg_ne (c : Cons) {s t : String} (h : t ≠ s) :
    asgOf (c.removeStreamAssignments s).asg t = asgOf c.asg t := asgOf_erase_ne _ h

theorem H_map_eq (ms : List Cons) (F : Cons → Cons) (t : String)
    (hF : ∀ c ∈ ms, asgOf (F c).asg t = asgOf c.asg t) : H (ms.map F) t = H ms t := by
  induction ms with
  | nil => rfl
  | cons c r ih =>
    simp only [List.map_cons, H_cons]
    rw [hF c (by simp), ih (fun c hc => hF c (by simp [hc]))]

theorem assignTo_not_mem (s : String) (p : Nat) (id : String) (ms : List Cons)
    (h : id ∉ ids ms) : assignTo s p id ms = ms := by
  induction ms with
  | nil => rfl
  | cons c r ih =>
    simp only [ids, List.map_cons, List.mem_cons, not_or] at h
    simp only [assignTo, List.map_cons]
    have hc : ¬ c.id = id := fun e => h.1 e.symm
    simp only [hc, if_false]
    congr 1
    exact ih h.2

theorem H_assignTo_self (s : String) (p : Nat) (id : String) (ms : List Cons)
    (hnd : (ids ms).Nodup) (hmem : id ∈ ids ms) :
    (H (assignTo s p id ms) s).Perm (p :: H ms s) := by
  induction ms with
  | nil => simp [ids] at hmem
  | cons c r ih =>
    simp only [ids, List.map_cons, List.nodup_cons] at hnd
    by_cases hc : c.id = id
    · have hr : id ∉ ids r := hc ▸ hnd.1
      have : assignTo s p id (c :: r) = c.assignPartition s p :: r := by
        have := assignTo_not_mem s p id r hr
        simp only [assignTo, List.map_cons, hc, if_true] at this ⊢
        rw [this]
      rw [this, H_cons, H_cons, assign_asg_self, List.append_assoc]
      exact List.perm_middle
    · have hr : id ∈ ids r := by
        simp only [ids, List.map_cons, List.mem_cons] at hmem
        rcases hmem with h | h
        · exact absurd h.symm hc
        · exact h
      have : assignTo s p id (c :: r) = c :: assignTo s p id r := by
        simp [assignTo, hc]
      rw [this, H_cons, H_cons]
      exact ((ih hnd.2 hr).append_left _).trans List.perm_middle

/-! ### the heap order and `peek` -/

theorem minBy_mem : ∀ (l : List Cons) (m : Cons), minBy l = some m → m ∈ l := by
  intro l m h
  cases l with
  | nil => simp [minBy] at h
  | cons x xs =>
    simp only [minBy, Option.some.injEq] at h
    subst h
    suffices ∀ (xs : List Cons) (b : Cons),
        xs.foldl (fun best c => if less c best then c else best) b = b ∨
        xs.foldl (fun best c => if less c best then c else best) b ∈ xs by
      rcases this xs x with h | h
      · rw [h]; simp
      · simp [h]
    intro xs
    induction xs with
    | nil => intro b; simp
    | cons y ys ih =>
      intro b
      simp only [List.foldl_cons]
      rcases ih (if less y b then y else b) with h | h
      · rw [h]; split <;> simp
      · right; simp [h]

theorem minBy_isSome (l : List Cons) (h : l ≠ []) : (minBy l).isSome := by
  cases l with
  | nil => exact absurd rfl h
  | cons x xs => simp [minBy]

/-- `less` never prefers a consumer with a strictly larger counter. -/
theorem less_count {a b : Cons} (h : less a b = true) : a.count ≤ b.count := by
  simp only [less, Gen.Groups.lessCountEq, Gen.Groups.lessCount, Cmp.evalInt] at h
  by_cases e : a.count = b.count
  · omega
  · simp [e] at h; omega

theorem not_less_count {a b : Cons} (h : less a b = false) : b.count ≤ a.count := by
  simp only [less, Gen.Groups.lessCountEq, Gen.Groups.lessCount, Cmp.evalInt] at h
  by_cases e : a.count = b.count
  · omega
  · simp [e] at h; omega

/-- The peeked consumer has a minimal counter. -/
theorem minBy_count_le (l : List Cons) (m : Cons) (h : minBy l = some m) :
    ∀ c ∈ l, m.count ≤ c.count := by
  cases l with
  | nil => simp [minBy] at h
  | cons x xs =>
    simp only [minBy, Option.some.injEq] at h
    subst h
    suffices ∀ (xs : List Cons) (b : Cons),
        (xs.foldl (fun best c => if less c best then c else best) b).count ≤ b.count ∧
        ∀ c ∈ xs, (xs.foldl (fun best c => if less c best then c else best) b).count ≤ c.count by
      intro c hc
      rcases List.mem_cons.1 hc with h | h
      · subst h; exact (this xs c).1
      · exact (this xs x).2 c h
    intro xs
    induction xs with
    | nil => intro b; simp
    | cons y ys ih =>
      intro b
      simp only [List.foldl_cons]
      have := ih (if less y b then y else b)
      by_cases hl : less y b = true
      · simp only [hl, if_true] at this ⊢
        have hyb := less_count hl
        refine ⟨by omega, ?_⟩
        intro c hc
        rcases List.mem_cons.1 hc with h | h
        · subst h; exact this.1
        · exact this.2 c h
      · have hl' : less y b = false := by simpa using hl
        simp only [hl', Bool.false_eq_true, if_false] at this ⊢
        have hby := not_less_count hl'
        refine ⟨this.1, ?_⟩
        intro c hc
        rcases List.mem_cons.1 hc with h | h
        · subst h; omega
        · exact this.2 c h

theorem peek_mem {ms : List Cons} {idl : List String} {m : Cons} (h : peek ms idl = some m) :
    m ∈ ms ∧ m.id ∈ idl := by
  have := minBy_mem _ _ h
  simpa using this

theorem peek_isSome {ms : List Cons} {idl : List String}
    (h : ∃ c ∈ ms, c.id ∈ idl) : (peek ms idl).isSome := by
  obtain ⟨c, hc, hi⟩ := h
  apply minBy_isSome
  intro e
  have : c ∈ ms.filter (fun c => c.id ∈ idl) := by simp [hc, hi]
  rw [e] at this; simp at this

theorem peek_count_le {ms : List Cons} {idl : List String} {m : Cons} (h : peek ms idl = some m) :
    ∀ c ∈ ms, c.id ∈ idl → m.count ≤ c.count := by
  intro c hc hi
  exact minBy_count_le _ _ h c (by simp [hc, hi])

/-! ### the assignment loop -/

/-- Induction principle for the partition loop (with the regenerated bound `partition < n`). -/
theorem assignLoop_rule (s : String) (n : Nat) (idl : List String) (P : Nat → List Cons → Prop)
    (hstep : ∀ q ms m, P q ms → q < n → peek ms idl = some m → P (q + 1) (assignTo s q m.id ms))
    (hsome : ∀ q ms, P q ms → q < n → (peek ms idl).isSome) :
    ∀ fuel p ms, p ≤ n → n < p + fuel → P p ms → P n (assignLoop s n idl fuel p ms) := by
  intro fuel
  induction fuel with
  | zero => intro p ms hp hf; omega
  | succ fuel ih =>
    intro p ms hp hf hP
    unfold assignLoop
    simp only [Gen.Groups.loopCmp, Cmp.evalNat, decide_eq_true_eq]
    by_cases hlt : p < n
    · simp only [hlt, if_true]
      have hs := hsome p ms hP hlt
      cases hm : peek ms idl with
      | none => simp [hm] at hs
      | some m =>
        simp only []
        exact ih (p + 1) _ (by omega) (by omega) (hstep p ms m hP hlt hm)
    · have : p = n := by omega
      subst this
      simp only [hlt, if_false]
      exact hP

/-- What a rebalance of stream `s` among the consumers `idl` may change of one consumer. -/
structure Touch (s : String) (idl : List String) (c c' : Cons) : Prop where
  id : c'.id = c.id
  streams : c'.streams = c.streams
  other : ∀ t, t ≠ s → asgOf c'.asg t = asgOf c.asg t
  out : c.id ∉ idl → c' = c

theorem Touch.refl (s : String) (idl : List String) (c : Cons) : Touch s idl c c :=
  ⟨rfl, rfl, fun _ _ => rfl, fun _ => rfl⟩

theorem Touch.trans {s : String} {idl : List String} {a b c : Cons}
    (h1 : Touch s idl a b) (h2 : Touch s idl b c) : Touch s idl a c :=
  ⟨h2.id.trans h1.id, h2.streams.trans h1.streams,
   fun t ht => (h2.other t ht).trans (h1.other t ht),
   fun h => by
     have hb := h1.out h
     have : b.id ∉ idl := by rw [hb]; exact h
     rw [h2.out this, hb]⟩

theorem touch_reset (s : String) (idl : List String) (c : Cons) :
    Touch s idl c (if c.id ∈ idl then c.removeStreamAssignments s else c) := by
  by_cases h : c.id ∈ idl
  · simp only [h, if_true]
    exact ⟨rfl, rfl, fun t ht => remove_asg_ne c ht, fun h' => absurd h h'⟩
  · simp only [h, if_false]; exact Touch.refl _ _ _

theorem touch_assign (s : String) (idl : List String) (p : Nat) (id : String) (hid : id ∈ idl)
    (c : Cons) : Touch s idl c (if c.id = id then c.assignPartition s p else c) := by
  by_cases h : c.id = id
  · simp only [h, if_true]
    exact ⟨rfl, rfl, fun t ht => assign_asg_ne c p ht, fun h' => absurd (h ▸ hid) h'⟩
  · simp only [h, if_false]; exact Touch.refl _ _ _

theorem ids_map_touch {s : String} {idl : List String} (ms : List Cons) (F : Cons → Cons)
    (hF : ∀ c, Touch s idl c (F c)) : ids (ms.map F) = ids ms := by
  simp only [ids, List.map_map]
  apply List.map_congr_left
  intro c _
  exact (hF c).id

/-- The effect of `balanceAssignmentsForStream` on the member list: every consumer is changed
pointwise by a `Touch`, and the partitions `0 … n-1` are added to what the consumers hold of `s`
after the reset. -/
theorem balance_members (s : String) (n : Nat) (idl : List String) (ms : List Cons)
    (hnd : (ids ms).Nodup) (hex : ∃ c ∈ ms, c.id ∈ idl) :
    ∃ F : Cons → Cons,
      assignLoop s n idl (n + 1) 0 (resetFor s idl ms) = ms.map F ∧
      (∀ c, Touch s idl c (F c)) ∧
      (H (ms.map F) s).Perm (H (resetFor s idl ms) s ++ List.range n) := by
  let ms0 := resetFor s idl ms
  let P : Nat → List Cons → Prop := fun q ms' =>
    ∃ F : Cons → Cons, ms' = ms.map F ∧ (∀ c, Touch s idl c (F c)) ∧
      (H ms' s).Perm (H ms0 s ++ List.range q)
  have h0 : P 0 ms0 :=
    ⟨fun c => if c.id ∈ idl then c.removeStreamAssignments s else c, rfl,
     touch_reset s idl, by simp⟩
  have hstep : ∀ q ms' m, P q ms' → q < n → peek ms' idl = some m →
      P (q + 1) (assignTo s q m.id ms') := by
    intro q ms' m ⟨F, hF, hT, hP⟩ _ hm
    obtain ⟨hmm, hmi⟩ := peek_mem hm
    refine ⟨fun c => (fun c => if c.id = m.id then c.assignPartition s q else c) (F c), ?_, ?_, ?_⟩
    · rw [hF]; simp [assignTo, List.map_map]
    · intro c
      exact (hT c).trans (touch_assign s idl q m.id hmi (F c))
    · have hids : ids ms' = ids ms := by rw [hF]; exact ids_map_touch ms F hT
      have h1 := H_assignTo_self s q m.id ms' (by rw [hids]; exact hnd)
        (by simp only [ids, List.mem_map]; exact ⟨m, hmm, rfl⟩)
      refine h1.trans ?_
      rw [List.range_succ, ← List.append_assoc]
      exact ((List.Perm.cons q hP).trans (List.perm_append_singleton q _).symm)
  have hsome : ∀ q ms', P q ms' → q < n → (peek ms' idl).isSome := by
    intro q ms' ⟨F, hF, hT, _⟩ _
    obtain ⟨c, hc, hi⟩ := hex
    apply peek_isSome
    refine ⟨F c, ?_, ?_⟩
    · rw [hF]; exact List.mem_map.2 ⟨c, hc, rfl⟩
    · rw [(hT c).id]; exact hi
  obtain ⟨F, hF, hT, hP⟩ := assignLoop_rule s n idl P hstep hsome (n + 1) 0 ms0 (by omega) (by omega) h0
  exact ⟨F, hF, hT, hF ▸ hP⟩

/-! ### the invariant -/

def subsOf' (subs : Subs) (s : String) : List String := (sget subs s).getD []

theorem subsOf_eq (g : Group) (s : String) : subsOf g s = subsOf' g.subs s := rfl

/-- Identity and subscription of every member (what the subscriber bookkeeping talks about). -/
def shape (ms : List Cons) : List (String × List String) := ms.map fun c => (c.id, c.streams)

/-- Everybody in a heap is a member subscribed to that stream — except, while consumer `X` is
being removed, `X` itself in the heaps of the streams `ts` not yet processed. -/
def B1w (sh : List (String × List String)) (subs : Subs) (X : String) (ts : List String) : Prop :=
  ∀ s id, id ∈ subsOf' subs s → (∃ x ∈ sh, x.1 = id ∧ s ∈ x.2) ∨ (id = X ∧ s ∈ ts)

/-- Every member is in the heap of each of its streams — except, while consumer `X` is being
added, `X` itself for the streams `ts` not yet processed. -/
def B2w (sh : List (String × List String)) (subs : Subs) (X : String) (ts : List String) : Prop :=
  ∀ x ∈ sh, ∀ s ∈ x.2, x.1 ∈ subsOf' subs s ∨ (x.1 = X ∧ s ∈ ts)

/-- Nothing is held of a stream the holder is not subscribed to. -/
def OnlySub (ms : List Cons) : Prop := ∀ m ∈ ms, ∀ s, s ∉ m.streams → asgOf m.asg s = []

/-- The partitions of `s` held by the members are exactly `0 … parts s - 1`, each once
(whenever the stream has a subscriber). -/
def D (parts : String → Nat) (ms : List Cons) (subs : Subs) (s : String) : Prop :=
  subsOf' subs s ≠ [] → (H ms s).Perm (List.range (parts s))

structure Inv (parts : String → Nat) (g : Group) : Prop where
  nodup : (ids g.members).Nodup
  b1 : B1w (shape g.members) g.subs "" []
  b2 : B2w (shape g.members) g.subs "" []
  only : OnlySub g.members
  d : ∀ s, D parts g.members g.subs s

theorem shape_map_touch {s : String} {idl : List String} (ms : List Cons) (F : Cons → Cons)
    (hF : ∀ c, Touch s idl c (F c)) : shape (ms.map F) = shape ms := by
  simp only [shape, List.map_map]
  apply List.map_congr_left
  intro c _
  simp [(hF c).id, (hF c).streams]

theorem mem_shape {ms : List Cons} {x : String × List String} :
    x ∈ shape ms ↔ ∃ m ∈ ms, m.id = x.1 ∧ m.streams = x.2 := by
  simp only [shape, List.mem_map]
  constructor
  · rintro ⟨m, hm, rfl⟩; exact ⟨m, hm, rfl, rfl⟩
  · rintro ⟨m, hm, h1, h2⟩; exact ⟨m, hm, by cases x; simp_all⟩

theorem eq_of_id_eq {ms : List Cons} (hnd : (ids ms).Nodup) {a b : Cons} (ha : a ∈ ms) (hb : b ∈ ms)
    (h : a.id = b.id) : a = b := by
  induction ms with
  | nil => simp at ha
  | cons c r ih =>
    simp only [ids, List.map_cons, List.nodup_cons] at hnd
    rcases List.mem_cons.1 ha with ha' | ha' <;> rcases List.mem_cons.1 hb with hb' | hb'
    · rw [ha', hb']
    · subst ha'
      exact absurd (List.mem_map.2 ⟨b, hb', h.symm⟩ : a.id ∈ r.map (·.id)) hnd.1
    · subst hb'
      exact absurd (List.mem_map.2 ⟨a, ha', h⟩ : b.id ∈ r.map (·.id)) hnd.1
    · exact ih hnd.2 ha' hb'

theorem onlySub_map_touch {t : String} {idl : List String} (ms : List Cons) (F : Cons → Cons)
    (hF : ∀ c, Touch t idl c (F c)) (hout : ∀ m ∈ ms, t ∉ m.streams → m.id ∉ idl)
    (hos : OnlySub ms) : OnlySub (ms.map F) := by
  intro m' hm' s hs
  obtain ⟨m, hm, rfl⟩ := List.mem_map.1 hm'
  rw [(hF m).streams] at hs
  by_cases hst : s = t
  · subst hst
    rw [(hF m).out (hout m hm hs)]
    exact hos m hm s hs
  · rw [(hF m).other s hst]
    exact hos m hm s hs

theorem D_map_touch_ne {parts : String → Nat} {t : String} {idl : List String} (ms : List Cons)
    (F : Cons → Cons) (hF : ∀ c, Touch t idl c (F c)) (subs : Subs) {s : String} (hst : s ≠ t)
    (hd : D parts ms subs s) : D parts (ms.map F) subs s := by
  intro hne
  rw [H_map_eq ms F s (fun c _ => (hF c).other s hst)]
  exact hd hne

/-- `balanceAssignmentsForStream(t)`: a pointwise `Touch` of the members, after which the
partitions of `t` are held exactly once each. Hypotheses only about stream `t`. -/
theorem balance_spec (parts : String → Nat) (t : String) (g : Group)
    (hnd : (ids g.members).Nodup)
    (hb1 : ∀ id ∈ subsOf' g.subs t, ∃ x ∈ shape g.members, x.1 = id ∧ t ∈ x.2)
    (hb2 : ∀ x ∈ shape g.members, t ∈ x.2 → x.1 ∈ subsOf' g.subs t)
    (hos : OnlySub g.members) :
    ∃ F : Cons → Cons, balance parts t g = { g with members := g.members.map F } ∧
      (∀ c, Touch t (subsOf' g.subs t) c (F c)) ∧ D parts (g.members.map F) g.subs t := by
  unfold balance
  cases hs : sget g.subs t with
  | none =>
    refine ⟨id, by simp, fun c => Touch.refl _ _ _, ?_⟩
    intro hne; simp [subsOf', hs] at hne
  | some idl =>
    by_cases he : idl.isEmpty = true
    · simp only [he, if_true]
      refine ⟨id, by simp, fun c => Touch.refl _ _ _, ?_⟩
      intro hne
      have : idl = [] := List.isEmpty_iff.1 he
      simp [subsOf', hs, this] at hne
    · simp only [he]
      have hsub : subsOf' g.subs t = idl := by simp [subsOf', hs]
      have hne : idl ≠ [] := fun e => he (by simp [e])
      obtain ⟨i0, hi0⟩ := List.exists_mem_of_ne_nil idl hne
      obtain ⟨x, hx, hx1, _⟩ := hb1 i0 (hsub ▸ hi0)
      obtain ⟨m0, hm0, hm0id, _⟩ := mem_shape.1 hx
      obtain ⟨F, hF, hT, hP⟩ := balance_members t (parts t) idl g.members hnd
        ⟨m0, hm0, by rw [hm0id, hx1]; exact hi0⟩
      refine ⟨F, by simp [hF], hsub ▸ hT, ?_⟩
      intro _
      have hreset : H (resetFor t idl g.members) t = [] := by
        have : ∀ ms : List Cons, (∀ m ∈ ms, m.id ∉ idl → asgOf m.asg t = []) →
            H (resetFor t idl ms) t = [] := by
          intro ms
          induction ms with
          | nil => intro _; rfl
          | cons c r ih =>
            intro h
            have hr := ih (fun m hm => h m (by simp [hm]))
            simp only [resetFor, List.map_cons, H_cons] at hr ⊢
            rw [hr]
            by_cases hc : c.id ∈ idl
            · simp [hc, remove_asg_self]
            · simp [hc, h c (by simp) hc]
        apply this
        intro m hm hmi
        apply hos m hm
        intro hts
        exact hmi (hsub ▸ hb2 (m.id, m.streams) (mem_shape.2 ⟨m, hm, rfl, rfl⟩) hts)
      rw [hreset] at hP
      simpa using hP

/-- `balance` in the form used by the operation proofs: only the member list changes; identity,
subscriptions and (for the other streams) assignments stay, stream `t` becomes exact. -/
theorem balance_step (parts : String → Nat) (t : String) (g : Group)
    (hnd : (ids g.members).Nodup)
    (hb1 : ∀ id ∈ subsOf' g.subs t, ∃ x ∈ shape g.members, x.1 = id ∧ t ∈ x.2)
    (hb2 : ∀ x ∈ shape g.members, t ∈ x.2 → x.1 ∈ subsOf' g.subs t)
    (hos : OnlySub g.members) :
    ∃ ms', balance parts t g = { g with members := ms' } ∧ shape ms' = shape g.members ∧
      (ids ms').Nodup ∧ OnlySub ms' ∧ D parts ms' g.subs t ∧
      ∀ s, s ≠ t → D parts g.members g.subs s → D parts ms' g.subs s := by
  obtain ⟨F, hF, hT, hD⟩ := balance_spec parts t g hnd hb1 hb2 hos
  refine ⟨g.members.map F, hF, shape_map_touch _ F hT, ?_, ?_, hD, ?_⟩
  · rw [ids_map_touch _ F hT]; exact hnd
  · apply onlySub_map_touch _ F hT _ hos
    intro m hm hts hmi
    obtain ⟨x, hx, hx1, hx2⟩ := hb1 m.id hmi
    obtain ⟨m2, hm2, h21, h22⟩ := mem_shape.1 hx
    have : m2 = m := eq_of_id_eq hnd hm2 hm (h21.trans hx1)
    subst this
    exact hts (h22 ▸ hx2)
  · intro s hst hd
    exact D_map_touch_ne _ F hT g.subs hst hd

theorem b1_local {sh : List (String × List String)} {subs : Subs} (h : B1w sh subs "" []) (t : String) :
    ∀ id ∈ subsOf' subs t, ∃ x ∈ sh, x.1 = id ∧ t ∈ x.2 := by
  intro id hid
  rcases h t id hid with h | ⟨_, h⟩
  · exact h
  · simp at h

theorem b2_local {sh : List (String × List String)} {subs : Subs} (h : B2w sh subs "" []) (t : String) :
    ∀ x ∈ sh, t ∈ x.2 → x.1 ∈ subsOf' subs t := by
  intro x hx ht
  rcases h x hx t ht with h | ⟨_, h⟩
  · exact h
  · simp at h

/-- A rebalance of any stream preserves the invariant. -/
theorem inv_balance (parts : String → Nat) (t : String) (g : Group) (h : Inv parts g) :
    Inv parts (balance parts t g) := by
  obtain ⟨ms', he, hsh, hnd, hos, hdt, hdo⟩ :=
    balance_step parts t g h.nodup (b1_local h.b1 t) (b2_local h.b2 t) h.only
  rw [he]
  refine ⟨hnd, ?_, ?_, hos, ?_⟩
  · show B1w (shape ms') g.subs "" []
    rw [hsh]; exact h.b1
  · show B2w (shape ms') g.subs "" []
    rw [hsh]; exact h.b2
  · intro s
    by_cases hst : s = t
    · subst hst; exact hdt
    · exact hdo s hst (h.d s)

theorem inv_foldl_balance (parts : String → Nat) (ts : List String) (g : Group) (h : Inv parts g) :
    Inv parts (ts.foldl (fun g t => balance parts t g) g) := by
  induction ts generalizing g with
  | nil => exact h
  | cons t r ih => exact ih _ (inv_balance parts t g h)

theorem inv_epoch {parts : String → Nat} {g : Group} (h : Inv parts g) (e : Nat) :
    Inv parts { g with epoch := e } := ⟨h.nodup, h.b1, h.b2, h.only, h.d⟩

theorem subsOf'_sdel (subs : Subs) (s t : String) :
    subsOf' (sdel subs s) t = if t = s then [] else subsOf' subs t := by
  simp only [subsOf', sget_sdel]
  split <;> simp

theorem subsOf'_sset (subs : Subs) (s t : String) (v : List String) :
    subsOf' (sset subs s v) t = if t = s then v else subsOf' subs t := by
  simp only [subsOf', sget_sset]
  split <;> simp

/-- Dropping the (empty) heap of a stream nobody is subscribed to changes nothing the invariant
talks about (fix abd9059: `StreamDeleted` on an empty heap). -/
theorem inv_drop_empty_heap (parts : String → Nat) (g : Group) (s : String)
    (h : Inv parts g) (hempty : subsOf' g.subs s = []) :
    Inv parts { g with subs := sdel g.subs s } := by
  have hsame : ∀ t, subsOf' (sdel g.subs s) t = subsOf' g.subs t := by
    intro t
    rw [subsOf'_sdel]
    by_cases hts : t = s
    · subst hts; simp [hempty]
    · simp [hts]
  refine ⟨h.nodup, ?_, ?_, h.only, ?_⟩
  · intro t id hid
    have hid' : id ∈ subsOf' (sdel g.subs s) t := hid
    rw [hsame] at hid'
    exact h.b1 t id hid'
  · intro x hx t ht
    rcases h.b2 x hx t ht with h' | h'
    · left
      show x.1 ∈ subsOf' (sdel g.subs s) t
      rw [hsame]; exact h'
    · exact Or.inr h'
  · intro t hne
    have hne' : subsOf' (sdel g.subs s) t ≠ [] := hne
    rw [hsame] at hne'
    exact h.d t hne'

/-- `StreamDeleted`, after the loop over the deleted stream's subscribers and before the
rebalancing of their other streams: the invariant holds already. -/
theorem inv_streamDeleted_mid (parts : String → Nat) (g : Group) (s : String) (idl : List String)
    (h : Inv parts g) (hsub : subsOf' g.subs s = idl) :
    Inv parts { g with members := g.members.map (fun c => if c.id ∈ idl then c.dropStream s else c),
                       subs := sdel g.subs s } := by
  let f : Cons → Cons := fun c =>
    if c.id ∈ idl then { (c.removeStreamAssignments s) with streams := c.streams.filter (· ≠ s) } else c
  have fid : ∀ c, (f c).id = c.id := by
    intro c; simp only [f]; split <;> rfl
  have fstr : ∀ c t, t ≠ s → (t ∈ (f c).streams ↔ t ∈ c.streams) := by
    intro c t ht; simp only [f]; split
    · simp [ht]
    · rfl
  have fasg : ∀ c t, t ≠ s → asgOf (f c).asg t = asgOf c.asg t := by
    intro c t ht; simp only [f]; split
    · exact remove_asg_ne c ht
    · rfl
  show Inv parts { g with members := g.members.map f, subs := sdel g.subs s }
  refine ⟨?_, ?_, ?_, ?_, ?_⟩
  · show (ids (g.members.map f)).Nodup
    have : ids (g.members.map f) = ids g.members := by
      simp only [ids, List.map_map]; apply List.map_congr_left; intro c _; exact fid c
    rw [this]; exact h.nodup
  · intro t id hid
    left
    show ∃ x ∈ shape (g.members.map f), x.1 = id ∧ t ∈ x.2
    have hid' : id ∈ subsOf' (sdel g.subs s) t := hid
    rw [subsOf'_sdel] at hid'
    by_cases hts : t = s
    · simp [hts] at hid'
    · simp only [hts, if_false] at hid'
      obtain ⟨x, hx, hx1, hx2⟩ := b1_local h.b1 t id hid'
      obtain ⟨m, hm, hm1, hm2⟩ := mem_shape.1 hx
      refine ⟨((f m).id, (f m).streams), mem_shape.2 ⟨f m, List.mem_map.2 ⟨m, hm, rfl⟩, rfl, rfl⟩, ?_, ?_⟩
      · simp [fid, hm1, hx1]
      · exact (fstr m t hts).2 (hm2 ▸ hx2)
  · intro x hx t ht
    left
    show x.1 ∈ subsOf' (sdel g.subs s) t
    obtain ⟨m', hm', hm1, hm2⟩ := mem_shape.1 hx
    obtain ⟨m, hm, rfl⟩ := List.mem_map.1 hm'
    rw [subsOf'_sdel]
    have hmem : ∀ u, u ∈ m.streams → m.id ∈ subsOf' g.subs u := fun u hu =>
      b2_local h.b2 u (m.id, m.streams) (mem_shape.2 ⟨m, hm, rfl, rfl⟩) hu
    by_cases hts : t = s
    · subst hts
      exfalso
      rw [← hm2] at ht
      simp only [f] at ht
      split at ht
      · simp at ht
      · rename_i hni
        exact hni (hsub ▸ hmem t ht)
    · simp only [hts, if_false]
      rw [← hm1, fid]
      exact hmem t ((fstr m t hts).1 (hm2 ▸ ht))
  · intro m' hm' t ht
    obtain ⟨m, hm, rfl⟩ := List.mem_map.1 hm'
    by_cases hts : t = s
    · subst hts
      simp only [f] at ht ⊢
      split
      · exact remove_asg_self m t
      · rename_i hni
        simp only [hni, if_false] at ht
        exact h.only m hm t ht
    · rw [fasg m t hts]
      exact h.only m hm t (fun hc => ht ((fstr m t hts).2 hc))
  · intro t hne
    have hne' : subsOf' (sdel g.subs s) t ≠ [] := hne
    rw [subsOf'_sdel] at hne'
    by_cases hts : t = s
    · simp [hts] at hne'
    · simp only [hts, if_false] at hne'
      show (H (g.members.map f) t).Perm _
      rw [H_map_eq _ f t (fun c _ => fasg c t hts)]
      exact h.d t hne'

/-- `StreamDeleted` preserves the invariant. -/
theorem inv_streamDeleted (parts : String → Nat) (g g' : Group) (s : String) (e : Nat)
    (h : Inv parts g) (hs : streamDeleted parts g s e = .ok g') : Inv parts g' := by
  unfold streamDeleted at hs
  split at hs
  · simp at hs
  · cases hg : sget g.subs s with
    | none => simp [hg] at hs; subst hs; exact h
    | some idl =>
      simp only [hg] at hs
      have hsub : subsOf' g.subs s = idl := by simp [subsOf', hg]
      by_cases hb : (Gen.Groups.emptyHeapKeepsEpoch && idl.isEmpty) = true
      · -- empty heap: only the heap entry is dropped
        simp only [hb, if_true, Res.ok.injEq] at hs
        subst hs
        have hidl : idl = [] := by
          have : idl.isEmpty = true := by
            simp only [Bool.and_eq_true] at hb; exact hb.2
          exact List.isEmpty_iff.1 this
        exact inv_drop_empty_heap parts g s h (by rw [hsub, hidl])
      simp only [hb, Bool.false_eq_true, if_false, Res.ok.injEq] at hs
      subst hs
      apply inv_epoch
      apply inv_foldl_balance
      exact inv_streamDeleted_mid parts g s idl h hsub

/-! ### join -/

/-- Invariant in the middle of `addConsumer`: consumer `X` is already a member but not yet in the
heaps of the streams `ts` still to be processed. -/
structure JInv (parts : String → Nat) (X : String) (ts : List String) (g : Group) : Prop where
  nodup : (ids g.members).Nodup
  b1 : B1w (shape g.members) g.subs "" []
  b2 : B2w (shape g.members) g.subs X ts
  only : OnlySub g.members
  d : ∀ s, D parts g.members g.subs s
  me : ∃ x ∈ shape g.members, x.1 = X ∧ ∀ t ∈ ts, t ∈ x.2

/-- The heap of `t` right after `heap.Push(subscribers, X)`: exactly the members subscribed to `t`. -/
theorem jinv_local (parts : String → Nat) (X t : String) (ts : List String) (g : Group)
    (h : JInv parts X (t :: ts) g) :
    (∀ id ∈ subsOf' (pushSub t X g).subs t, ∃ x ∈ shape (pushSub t X g).members, x.1 = id ∧ t ∈ x.2) ∧
    (∀ x ∈ shape (pushSub t X g).members, t ∈ x.2 → x.1 ∈ subsOf' (pushSub t X g).subs t) := by
  -- g1 = pushSub t X g
  have hsub : ∀ u, subsOf' (pushSub t X g).subs u =
      if u = t then subsOf' g.subs t ++ [X] else subsOf' g.subs u := by
    intro u
    show subsOf' (sset g.subs t (subsOf g t ++ [X])) u = _
    rw [subsOf'_sset]; rfl
  obtain ⟨xme, hxme, hxme1, hxme2⟩ := h.me
  have hb1 : ∀ id ∈ subsOf' (pushSub t X g).subs t,
      ∃ x ∈ shape (pushSub t X g).members, x.1 = id ∧ t ∈ x.2 := by
    intro id hid
    rw [hsub] at hid
    simp only [if_true, List.mem_append, List.mem_singleton] at hid
    rcases hid with hid | hid
    · exact b1_local h.b1 t id hid
    · exact ⟨xme, hxme, hid ▸ hxme1, hxme2 t (by simp)⟩
  have hb2 : ∀ x ∈ shape (pushSub t X g).members, t ∈ x.2 →
      x.1 ∈ subsOf' (pushSub t X g).subs t := by
    intro x hx ht
    rw [hsub]
    simp only [if_true, List.mem_append, List.mem_singleton]
    rcases h.b2 x hx t ht with h' | ⟨h', _⟩
    · exact Or.inl h'
    · exact Or.inr h'
  exact ⟨hb1, hb2⟩

/-- One iteration of `addConsumer`'s loop. -/
theorem jinv_step (parts : String → Nat) (X t : String) (ts : List String) (g : Group)
    (h : JInv parts X (t :: ts) g) : JInv parts X ts (balance parts t (pushSub t X g)) := by
  -- g1 = pushSub t X g
  have hsub : ∀ u, subsOf' (pushSub t X g).subs u =
      if u = t then subsOf' g.subs t ++ [X] else subsOf' g.subs u := by
    intro u
    show subsOf' (sset g.subs t (subsOf g t ++ [X])) u = _
    rw [subsOf'_sset]; rfl
  obtain ⟨xme, hxme, hxme1, hxme2⟩ := h.me
  have hb1 : ∀ id ∈ subsOf' (pushSub t X g).subs t,
      ∃ x ∈ shape (pushSub t X g).members, x.1 = id ∧ t ∈ x.2 := by
    intro id hid
    rw [hsub] at hid
    simp only [if_true, List.mem_append, List.mem_singleton] at hid
    rcases hid with hid | hid
    · exact b1_local h.b1 t id hid
    · exact ⟨xme, hxme, hid ▸ hxme1, hxme2 t (by simp)⟩
  have hb2 : ∀ x ∈ shape (pushSub t X g).members, t ∈ x.2 →
      x.1 ∈ subsOf' (pushSub t X g).subs t := by
    intro x hx ht
    rw [hsub]
    simp only [if_true, List.mem_append, List.mem_singleton]
    rcases h.b2 x hx t ht with h' | ⟨h', _⟩
    · exact Or.inl h'
    · exact Or.inr h'
  obtain ⟨ms', he, hsh, hnd, hos, hdt, hdo⟩ :=
    balance_step parts t (pushSub t X g) h.nodup hb1 hb2 h.only
  rw [he]
  refine ⟨hnd, ?_, ?_, hos, ?_, ?_⟩
  · show B1w (shape ms') (pushSub t X g).subs "" []
    rw [hsh]
    intro u id hid
    by_cases hut : u = t
    · subst hut; exact Or.inl (hb1 id hid)
    · rw [hsub] at hid
      simp only [hut, if_false] at hid
      exact h.b1 u id hid
  · show B2w (shape ms') (pushSub t X g).subs X ts
    rw [hsh]
    intro x hx u hu
    rw [hsub]
    by_cases hut : u = t
    · subst hut
      left
      simp only [if_true, List.mem_append, List.mem_singleton]
      rcases h.b2 x hx u hu with h' | ⟨h', _⟩
      · exact Or.inl h'
      · exact Or.inr h'
    · simp only [hut, if_false]
      rcases h.b2 x hx u hu with h' | ⟨h1, h2⟩
      · exact Or.inl h'
      · right
        refine ⟨h1, ?_⟩
        rcases List.mem_cons.1 h2 with h2 | h2
        · exact absurd h2 hut
        · exact h2
  · intro u
    by_cases hut : u = t
    · subst hut; exact hdt
    · apply hdo u hut
      intro hne
      have hne' : subsOf' (pushSub t X g).subs u ≠ [] := hne
      rw [hsub] at hne'
      simp only [hut, if_false] at hne'
      exact h.d u hne'
  · show ∃ x ∈ shape ms', x.1 = X ∧ ∀ t ∈ ts, t ∈ x.2
    rw [hsh]
    exact ⟨xme, hxme, hxme1, fun u hu => hxme2 u (by simp [hu])⟩

theorem inv_addConsumer (parts : String → Nat) (X : String) (ts : List String) (g : Group)
    (h : JInv parts X ts g) : Inv parts (addConsumer parts X ts g) := by
  induction ts generalizing g with
  | nil =>
    refine ⟨h.nodup, h.b1, ?_, h.only, h.d⟩
    intro x hx s hs
    rcases h.b2 x hx s hs with h' | ⟨_, h'⟩
    · exact Or.inl h'
    · simp at h'
  | cons t ts ih =>
    simp only [addConsumer, List.foldl_cons]
    exact ih _ (jinv_step parts X t ts g h)

/-- The state `addMember` hands to `addConsumer`: the new consumer is a member (holding nothing)
but in no heap yet. -/
theorem jinv_init (parts : String → Nat) (g : Group) (X : String) (streams : List String)
    (h : Inv parts g) (hX : X ∉ ids g.members) :
    JInv parts X (sortDedup streams)
      { g with members := g.members ++ [{ id := X, streams := sortDedup streams, asg := [], count := 0 }] } := by
  let c0 : Cons := { id := X, streams := sortDedup streams, asg := [], count := 0 }
  have hshape : shape (g.members ++ [c0]) = shape g.members ++ [(X, sortDedup streams)] := by
    simp [shape, c0]
  refine ⟨?_, ?_, ?_, ?_, ?_, ?_⟩
  · show (ids (g.members ++ [c0])).Nodup
    simp only [ids, List.map_append, List.map_cons, List.map_nil]
    rw [List.nodup_append]
    refine ⟨h.nodup, by simp, ?_⟩
    intro a ha b hb
    simp only [List.mem_singleton] at hb
    subst hb
    intro hab; subst hab
    exact hX ha
  · show B1w (shape (g.members ++ [c0])) g.subs "" []
    rw [hshape]
    intro u id hid
    rcases h.b1 u id hid with ⟨x, hx, hx'⟩ | h'
    · exact Or.inl ⟨x, by simp [hx], hx'⟩
    · exact Or.inr h'
  · show B2w (shape (g.members ++ [c0])) g.subs X (sortDedup streams)
    rw [hshape]
    intro x hx u hu
    rcases List.mem_append.1 hx with hx | hx
    · left; exact b2_local h.b2 u x hx hu
    · simp only [List.mem_singleton] at hx
      subst hx
      exact Or.inr ⟨rfl, hu⟩
  · intro m hm u hu
    rcases List.mem_append.1 hm with hm | hm
    · exact h.only m hm u hu
    · simp only [List.mem_singleton] at hm
      subst hm; rfl
  · intro u hne
    show (H (g.members ++ [c0]) u).Perm _
    have : H (g.members ++ [c0]) u = H g.members u := by simp [c0, asgOf]
    rw [this]
    exact h.d u hne
  · show ∃ x ∈ shape (g.members ++ [c0]), x.1 = X ∧ ∀ t ∈ sortDedup streams, t ∈ x.2
    rw [hshape]
    exact ⟨(X, sortDedup streams), by simp, rfl, fun _ ht => ht⟩

/-- `AddMember` (of a non-member) preserves the invariant. -/
theorem inv_join (parts : String → Nat) (g g' : Group) (X : String) (streams : List String) (e : Nat)
    (h : Inv parts g) (hs : join parts g X streams e = .ok g') : Inv parts g' := by
  unfold join at hs
  split at hs
  · simp at hs
  · split at hs
    · simp at hs
    · rename_i _ hnm
      simp only [Res.ok.injEq] at hs
      subst hs
      apply inv_epoch
      simp only [addMember]
      apply inv_addConsumer
      have hX : X ∉ ids g.members := by
        intro hc
        obtain ⟨m, hm, hmid⟩ := List.mem_map.1 hc
        apply hnm
        simp only [List.any_eq_true, decide_eq_true_eq]
        exact ⟨m, hm, hmid⟩
      exact jinv_init parts g X streams h hX

/-! ### leave: `removeConsumer` never touches the leaving consumer, so deleting it from the member
list first (proof order) or last (Go order) gives the same group -/

def dropX (X : String) (g : Group) : Group := { g with members := g.members.filter (·.id ≠ X) }

theorem filter_map_id (ms : List Cons) (f : Cons → Cons) (X : String) (hf : ∀ c, (f c).id = c.id) :
    (ms.map f).filter (·.id ≠ X) = (ms.filter (·.id ≠ X)).map f := by
  induction ms with
  | nil => rfl
  | cons c r ih =>
    by_cases hc : c.id = X
    · simp [List.filter, hf, hc] at ih ⊢; exact ih
    · simp [List.filter, hf, hc] at ih ⊢; exact ih

theorem peek_filter (ms : List Cons) (idl : List String) (X : String) (hX : X ∉ idl) :
    peek (ms.filter (·.id ≠ X)) idl = peek ms idl := by
  unfold peek
  congr 1
  rw [List.filter_filter]
  apply List.filter_congr
  intro c _
  by_cases hc : c.id ∈ idl
  · have : c.id ≠ X := fun e => hX (e ▸ hc)
    simp [hc, this]
  · simp [hc]

theorem assignLoop_filter (s : String) (n : Nat) (idl : List String) (X : String) (hX : X ∉ idl) :
    ∀ fuel p ms, assignLoop s n idl fuel p (ms.filter (·.id ≠ X)) =
      (assignLoop s n idl fuel p ms).filter (·.id ≠ X) := by
  intro fuel
  induction fuel with
  | zero => intro p ms; rfl
  | succ fuel ih =>
    intro p ms
    unfold assignLoop
    rw [peek_filter ms idl X hX]
    split
    · cases hm : peek ms idl with
      | none => rfl
      | some m =>
        simp only []
        rw [← ih]
        congr 1
        simp only [assignTo]
        rw [filter_map_id]
        intro c; split <;> rfl
    · rfl

theorem balance_dropX (parts : String → Nat) (t : String) (X : String) (g : Group)
    (hX : X ∉ subsOf' g.subs t) : balance parts t (dropX X g) = dropX X (balance parts t g) := by
  unfold balance
  show (match sget g.subs t with
    | none => dropX X g
    | some idl => if idl.isEmpty then dropX X g else
      { dropX X g with members := assignLoop t (parts t) idl (parts t + 1) 0 (resetFor t idl (dropX X g).members) }) = _
  cases hs : sget g.subs t with
  | none => rfl
  | some idl =>
    simp only []
    by_cases he : idl.isEmpty = true
    · simp [he]
    · have he' : idl.isEmpty = false := by simpa using he
      simp only [he', Bool.false_eq_true, if_false]
      have hXi : X ∉ idl := by simpa [subsOf', hs] using hX
      simp only [dropX]
      congr 1
      rw [← assignLoop_filter t (parts t) idl X hXi]
      congr 1
      simp only [resetFor]
      rw [filter_map_id]
      intro c; split <;> rfl

theorem removeStep_dropX (parts : String → Nat) (cons : Cons) (g : Group) (t : String) :
    removeStep parts cons (dropX cons.id g) t = dropX cons.id (removeStep parts cons g t) := by
  unfold removeStep
  show (match sget g.subs t with
    | none => dropX cons.id g
    | some idl =>
      if asgHas cons.asg t || !Gen.Groups.removeRebalanceIfAssigned then
        balance parts t { dropX cons.id g with subs := sset g.subs t (idl.filter (· ≠ cons.id)) }
      else { dropX cons.id g with subs := sset g.subs t (idl.filter (· ≠ cons.id)) }) = _
  cases hs : sget g.subs t with
  | none => rfl
  | some idl =>
    simp only []
    split
    · have := balance_dropX parts t cons.id { g with subs := sset g.subs t (idl.filter (· ≠ cons.id)) }
        (by simp [subsOf'_sset])
      exact this
    · rfl

theorem removeConsumer_dropX (parts : String → Nat) (cons : Cons) (ts : List String) (g : Group) :
    ts.foldl (removeStep parts cons) (dropX cons.id g) =
      dropX cons.id (ts.foldl (removeStep parts cons) g) := by
  induction ts generalizing g with
  | nil => rfl
  | cons t r ih =>
    simp only [List.foldl_cons]
    rw [removeStep_dropX, ih]

/-- Invariant in the middle of `removeConsumer` (member list already without `X`): `X` is still
in the heaps of the streams `ts` to be processed, and the streams of which the leaving consumer
held partitions are not exact until they are processed (and rebalanced). -/
structure LInv (parts : String → Nat) (X : String) (asg : Asg) (ts : List String) (g : Group) : Prop where
  nodup : (ids g.members).Nodup
  notin : X ∉ ids g.members
  b1 : B1w (shape g.members) g.subs X ts
  b2 : B2w (shape g.members) g.subs "" []
  only : OnlySub g.members
  d : ∀ s, (s ∈ ts → asgOf asg s = []) → D parts g.members g.subs s

/-- One iteration of `removeConsumer`'s loop. -/
theorem linv_step (parts : String → Nat) (cons : Cons) (t : String) (ts : List String) (g : Group)
    (h : LInv parts cons.id cons.asg (t :: ts) g) :
    LInv parts cons.id cons.asg ts (removeStep parts cons g t) := by
  unfold removeStep
  cases hs : sget g.subs t with
  | none =>
    simp only []
    have hempty : subsOf' g.subs t = [] := by simp [subsOf', hs]
    refine ⟨h.nodup, h.notin, ?_, h.b2, h.only, ?_⟩
    · intro s id hid
      rcases h.b1 s id hid with h' | ⟨h1, h2⟩
      · exact Or.inl h'
      · rcases List.mem_cons.1 h2 with h2 | h2
        · subst h2; rw [hempty] at hid; simp at hid
        · exact Or.inr ⟨h1, h2⟩
    · intro s hs'
      by_cases hst : s = t
      · subst hst; intro hne; exact absurd hempty hne
      · apply h.d s
        intro hm
        rcases List.mem_cons.1 hm with hm | hm
        · exact absurd hm hst
        · exact hs' hm
  | some idl =>
    simp only []
    have hidl : subsOf' g.subs t = idl := by simp [subsOf', hs]
    -- g1: X removed from the heap of t
    let g1 : Group := { g with subs := sset g.subs t (idl.filter (· ≠ cons.id)) }
    have hsub : ∀ u, subsOf' g1.subs u =
        if u = t then idl.filter (· ≠ cons.id) else subsOf' g.subs u := by
      intro u; show subsOf' (sset g.subs t _) u = _; rw [subsOf'_sset]
    have hb1' : B1w (shape g1.members) g1.subs cons.id ts := by
      intro s id hid
      rw [hsub] at hid
      by_cases hst : s = t
      · subst hst
        simp only [if_true, List.mem_filter, decide_eq_true_eq] at hid
        rcases h.b1 s id (hidl ▸ hid.1) with h' | ⟨h1, _⟩
        · exact Or.inl h'
        · exact absurd h1 hid.2
      · simp only [hst, if_false] at hid
        rcases h.b1 s id hid with h' | ⟨h1, h2⟩
        · exact Or.inl h'
        · rcases List.mem_cons.1 h2 with h2 | h2
          · exact absurd h2 hst
          · exact Or.inr ⟨h1, h2⟩
    have hb2' : B2w (shape g1.members) g1.subs "" [] := by
      intro x hx s hs'
      left
      rw [hsub]
      have hin := b2_local h.b2 s x hx hs'
      by_cases hst : s = t
      · subst hst
        simp only [if_true, List.mem_filter, decide_eq_true_eq]
        refine ⟨hidl ▸ hin, ?_⟩
        intro hxid
        obtain ⟨m, hm, hm1, _⟩ := mem_shape.1 hx
        exact h.notin (List.mem_map.2 ⟨m, hm, hm1.trans hxid⟩)
      · simp only [hst, if_false]; exact hin
    have hb1t : ∀ id ∈ subsOf' g1.subs t, ∃ x ∈ shape g1.members, x.1 = id ∧ t ∈ x.2 := by
      intro id hid
      have hid' := hid
      rw [hsub] at hid'
      simp only [if_true, List.mem_filter, decide_eq_true_eq] at hid'
      rcases hb1' t id hid with h' | ⟨h1, _⟩
      · exact h'
      · exact absurd h1 hid'.2
    have hDg1 : ∀ s, D parts g.members g.subs s → D parts g1.members g1.subs s := by
      intro s hd hne
      have hne' := hne
      rw [hsub] at hne'
      by_cases hst : s = t
      · subst hst
        simp only [if_true] at hne'
        apply hd
        rw [hidl]
        intro e; rw [e] at hne'; simp at hne'
      · simp only [hst, if_false] at hne'
        exact hd hne'
    split
    · -- rebalance t
      obtain ⟨ms', he, hsh, hnd, hos, hdt, hdo⟩ :=
        balance_step parts t g1 h.nodup hb1t (b2_local hb2' t) h.only
      rw [he]
      refine ⟨hnd, ?_, ?_, ?_, hos, ?_⟩
      · show cons.id ∉ ids ms'
        have : ids ms' = ids g.members := by
          have := congrArg (List.map Prod.fst) hsh
          simpa [shape, ids, List.map_map, Function.comp_def] using this
        rw [this]; exact h.notin
      · show B1w (shape ms') g1.subs cons.id ts
        rw [hsh]; exact hb1'
      · show B2w (shape ms') g1.subs "" []
        rw [hsh]; exact hb2'
      · intro s hs'
        by_cases hst : s = t
        · subst hst; exact hdt
        · apply hdo s hst
          apply hDg1
          apply h.d
          intro hm
          rcases List.mem_cons.1 hm with hm | hm
          · exact absurd hm hst
          · exact hs' hm
    · -- the leaving consumer held nothing of t: no rebalance
      rename_i hno
      have hnone : asgOf cons.asg t = [] := by
        apply asgOf_of_not_has
        simpa [Gen.Groups.removeRebalanceIfAssigned] using hno
      refine ⟨h.nodup, h.notin, hb1', hb2', h.only, ?_⟩
      intro s hs'
      apply hDg1
      apply h.d
      intro hm
      rcases List.mem_cons.1 hm with hm | hm
      · rw [hm]; exact hnone
      · exact hs' hm

theorem inv_removeLoop (parts : String → Nat) (cons : Cons) (ts : List String) (g : Group)
    (h : LInv parts cons.id cons.asg ts g) : Inv parts (ts.foldl (removeStep parts cons) g) := by
  induction ts generalizing g with
  | nil =>
    refine ⟨h.nodup, ?_, h.b2, h.only, fun s => h.d s (by simp)⟩
    intro s id hid
    rcases h.b1 s id hid with h' | ⟨_, h'⟩
    · exact Or.inl h'
    · simp at h'
  | cons t ts ih =>
    simp only [List.foldl_cons]
    exact ih _ (linv_step parts cons t ts g h)

theorem H_filter_eq (ms : List Cons) (q : Cons → Bool) (s : String)
    (h : ∀ m ∈ ms, q m = false → asgOf m.asg s = []) : H (ms.filter q) s = H ms s := by
  induction ms with
  | nil => rfl
  | cons c r ih =>
    have ihr := ih (fun m hm => h m (by simp [hm]))
    by_cases hq : q c = true
    · simp [List.filter, hq, ihr]
    · have hq' : q c = false := by simpa using hq
      simp [List.filter, hq', ihr, h c (by simp) hq']

/-- The state `RemoveMember` starts from (in proof order: the leaving consumer already dropped from
the member list, still in the heaps of its streams). -/
theorem linv_init (parts : String → Nat) (g : Group) (cons : Cons)
    (h : Inv parts g) (hcm : cons ∈ g.members) :
    LInv parts cons.id cons.asg cons.streams (dropX cons.id g) := by
  have hsub : ∀ m, m ∈ (dropX cons.id g).members ↔ m ∈ g.members ∧ m.id ≠ cons.id := by
    intro m; simp [dropX]
  have hshape : ∀ x, x ∈ shape (dropX cons.id g).members → x ∈ shape g.members := by
    intro x hx
    obtain ⟨m, hm, h1, h2⟩ := mem_shape.1 hx
    exact mem_shape.2 ⟨m, ((hsub m).1 hm).1, h1, h2⟩
  refine ⟨?_, ?_, ?_, ?_, ?_, ?_⟩
  · show (ids (g.members.filter (·.id ≠ cons.id))).Nodup
    exact List.Nodup.sublist (List.Sublist.map _ List.filter_sublist) h.nodup
  · intro hc
    obtain ⟨m, hm, hmid⟩ := List.mem_map.1 hc
    exact ((hsub m).1 hm).2 hmid
  · intro s id hid
    obtain ⟨x, hx, hx1, hx2⟩ := b1_local h.b1 s id hid
    obtain ⟨m, hm, hm1, hm2⟩ := mem_shape.1 hx
    by_cases hmc : m.id = cons.id
    · right
      have : m = cons := eq_of_id_eq h.nodup hm hcm hmc
      subst this
      exact ⟨(hm1.trans hx1).symm ▸ rfl, hm2 ▸ hx2⟩
    · left
      exact ⟨x, mem_shape.2 ⟨m, (hsub m).2 ⟨hm, hmc⟩, hm1, hm2⟩, hx1, hx2⟩
  · intro x hx s hs'
    exact h.b2 x (hshape x hx) s hs'
  · intro m hm
    exact h.only m ((hsub m).1 hm).1
  · intro s hs' hne
    have hcs : asgOf cons.asg s = [] := by
      by_cases hin : s ∈ cons.streams
      · exact hs' hin
      · exact h.only cons hcm s hin
    show (H (g.members.filter (·.id ≠ cons.id)) s).Perm _
    rw [H_filter_eq]
    · exact h.d s hne
    · intro m hm hq
      have hmc : m.id = cons.id := by simpa using hq
      have : m = cons := eq_of_id_eq h.nodup hm hcm hmc
      rw [this]; exact hcs

/-- `RemoveMember` preserves the invariant. -/
theorem inv_leave (parts : String → Nat) (g g' : Group) (X : String) (e : Nat)
    (h : Inv parts g) (hs : leave parts g X e = .ok g') : Inv parts g' := by
  unfold leave at hs
  split at hs
  · simp at hs
  · cases hf : g.members.find? (·.id = X) with
    | none => simp [hf] at hs
    | some cons =>
      simp only [hf, Res.ok.injEq] at hs
      subst hs
      have hcm : cons ∈ g.members := List.mem_of_find?_eq_some hf
      have hcid : cons.id = X := by
        have := List.find?_some hf
        simpa using this
      subst hcid
      apply inv_epoch (g := dropX cons.id (removeConsumer parts cons g))
      unfold removeConsumer
      rw [← removeConsumer_dropX]
      apply inv_removeLoop
      exact linv_init parts g cons h hcm

/-! ### histories -/

theorem inv_new (parts : String → Nat) (e : Nat) : Inv parts (Group.new e) := by
  refine ⟨by simp [Group.new, ids], ?_, ?_, ?_, ?_⟩
  · intro s id hid; simp [Group.new, subsOf', sget] at hid
  · intro x hx; simp [Group.new, shape] at hx
  · intro m hm; simp [Group.new] at hm
  · intro s hne; simp [Group.new, subsOf', sget] at hne

theorem inv_applyOp (parts : String → Nat) (g : Group) (op : Op) (h : Inv parts g) :
    Inv parts (applyOp parts g op) := by
  unfold applyOp
  cases hs : step parts g op with
  | ok g' =>
    simp only []
    cases op with
    | join id streams e => exact inv_join parts g g' id streams e h hs
    | leave id e => exact inv_leave parts g g' id e h hs
    | deleted s e => exact inv_streamDeleted parts g g' s e h hs
  | err e => exact h
  | panic => exact h

theorem inv_run (parts : String → Nat) (g : Group) (ops : List Op) (h : Inv parts g) :
    Inv parts (run parts g ops) := by
  induction ops generalizing g with
  | nil => exact h
  | cons op r ih => exact ih _ (inv_applyOp parts g op h)

/-! ### reading the property off the invariant -/

theorem holder_unique (ms : List Cons) (s : String) (hnd : (H ms s).Nodup) {a b : Cons} {p : Nat}
    (ha : a ∈ ms) (hb : b ∈ ms) (hpa : p ∈ asgOf a.asg s) (hpb : p ∈ asgOf b.asg s) : a = b := by
  induction ms with
  | nil => simp at ha
  | cons c r ih =>
    rw [H_cons, List.nodup_append] at hnd
    obtain ⟨_, hr, hdis⟩ := hnd
    have inH : ∀ m ∈ r, p ∈ asgOf m.asg s → p ∈ H r s := fun m hm hp =>
      List.mem_flatMap.2 ⟨m, hm, hp⟩
    rcases List.mem_cons.1 ha with ha' | ha' <;> rcases List.mem_cons.1 hb with hb' | hb'
    · rw [ha', hb']
    · subst ha'; exact absurd rfl (hdis p hpa p (inH b hb' hpb))
    · subst hb'; exact absurd rfl (hdis p hpb p (inH a ha' hpa))
    · exact ih hr ha' hb'

theorem inv_subscribed_exact {parts : String → Nat} {g : Group} (h : Inv parts g) {s : String}
    (hsub : ∃ m ∈ g.members, s ∈ m.streams) : (H g.members s).Perm (List.range (parts s)) := by
  obtain ⟨m, hm, hs⟩ := hsub
  apply h.d s
  have := b2_local h.b2 s (m.id, m.streams) (mem_shape.2 ⟨m, hm, rfl, rfl⟩) hs
  intro e; rw [e] at this; simp at this

/-! ### balance of a single-stream group -/

/-- The counter equals what is held of `s` (true when `s` is the only stream ever assigned). -/
def CountOK (s : String) (ms : List Cons) : Prop :=
  ∀ m ∈ ms, m.count = ((asgOf m.asg s).length : Int)

/-- Counters of the consumers in `idl` differ by at most one. -/
def Within1 (idl : List String) (ms : List Cons) : Prop :=
  ∀ a ∈ ms, ∀ b ∈ ms, a.id ∈ idl → b.id ∈ idl → a.count ≤ b.count + 1

theorem shape_assignTo (s : String) (p : Nat) (id : String) (ms : List Cons) :
    shape (assignTo s p id ms) = shape ms := by
  simp only [shape, assignTo, List.map_map]
  apply List.map_congr_left
  intro c _
  simp only [Function.comp]
  split <;> rfl

theorem shape_resetFor (s : String) (idl : List String) (ms : List Cons) :
    shape (resetFor s idl ms) = shape ms := by
  simp only [shape, resetFor, List.map_map]
  apply List.map_congr_left
  intro c _
  simp only [Function.comp]
  split <;> rfl

theorem shape_assignLoop (s : String) (n : Nat) (idl : List String) :
    ∀ fuel p ms, shape (assignLoop s n idl fuel p ms) = shape ms := by
  intro fuel
  induction fuel with
  | zero => intro p ms; rfl
  | succ fuel ih =>
    intro p ms
    unfold assignLoop
    split
    · cases peek ms idl with
      | none => rfl
      | some m => simp only []; rw [ih, shape_assignTo]
    · rfl

theorem ids_of_shape {a b : List Cons} (h : shape a = shape b) : ids a = ids b := by
  have := congrArg (List.map Prod.fst) h
  simpa [shape, ids, List.map_map, Function.comp_def] using this

theorem balance_subs (parts : String → Nat) (t : String) (g : Group) :
    (balance parts t g).subs = g.subs := by
  unfold balance
  split
  · rfl
  · split <;> rfl

theorem balance_shape (parts : String → Nat) (t : String) (g : Group) :
    shape (balance parts t g).members = shape g.members := by
  unfold balance
  split
  · rfl
  · split
    · rfl
    · show shape (assignLoop _ _ _ _ _ _) = _
      rw [shape_assignLoop, shape_resetFor]

theorem balance_members_counts (s : String) (n : Nat) (idl : List String) (ms : List Cons)
    (hnd : (ids ms).Nodup) (hex : ∃ c ∈ ms, c.id ∈ idl) (hc : CountOK s ms) :
    CountOK s (assignLoop s n idl (n + 1) 0 (resetFor s idl ms)) ∧
    Within1 idl (assignLoop s n idl (n + 1) 0 (resetFor s idl ms)) := by
  let P : Nat → List Cons → Prop := fun _ ms' =>
    shape ms' = shape ms ∧ CountOK s ms' ∧ Within1 idl ms'
  have hreset : ∀ m' ∈ resetFor s idl ms, m'.id ∈ idl → m'.count = 0 := by
    intro m' hm' hi
    obtain ⟨m, hm, rfl⟩ := List.mem_map.1 hm'
    by_cases hmi : m.id ∈ idl
    · simp only [hmi, if_true, Cons.removeStreamAssignments]
      have := hc m hm; omega
    · simp only [hmi, if_false] at hi
  have h0 : P 0 (resetFor s idl ms) := by
    refine ⟨shape_resetFor s idl ms, ?_, ?_⟩
    · intro m' hm'
      obtain ⟨m, hm, rfl⟩ := List.mem_map.1 hm'
      by_cases hmi : m.id ∈ idl
      · simp only [hmi, if_true]
        rw [remove_asg_self]
        simp only [Cons.removeStreamAssignments]
        have := hc m hm
        simp; omega
      · simp only [hmi, if_false]; exact hc m hm
    · intro a ha b hb hai hbi
      rw [hreset a ha hai, hreset b hb hbi]; omega
  have hstep : ∀ q ms' m, P q ms' → q < n → peek ms' idl = some m →
      P (q + 1) (assignTo s q m.id ms') := by
    intro q ms' m ⟨hsh, hco, hw⟩ _ hm
    obtain ⟨hmm, hmi⟩ := peek_mem hm
    have hnd' : (ids ms').Nodup := by rw [ids_of_shape hsh]; exact hnd
    refine ⟨by rw [shape_assignTo, hsh], ?_, ?_⟩
    · intro c' hc'
      obtain ⟨c, hcm, rfl⟩ := List.mem_map.1 hc'
      by_cases hci : c.id = m.id
      · simp only [hci, if_true]
        rw [assign_asg_self]
        simp only [Cons.assignPartition, List.length_append, List.length_singleton]
        have := hco c hcm
        omega
      · simp only [hci, if_false]; exact hco c hcm
    · intro a' ha' b' hb' hai hbi
      obtain ⟨a, ha, rfl⟩ := List.mem_map.1 ha'
      obtain ⟨b, hb, rfl⟩ := List.mem_map.1 hb'
      by_cases hae : a.id = m.id <;> by_cases hbe : b.id = m.id
      · have h1 : a = m := eq_of_id_eq hnd' ha hmm hae
        have h2 : b = m := eq_of_id_eq hnd' hb hmm hbe
        subst h1; subst h2; omega
      · have h1 : a = m := eq_of_id_eq hnd' ha hmm hae
        subst h1
        simp only [hbe, if_false] at hbi ⊢
        simp only [if_true, Cons.assignPartition]
        have := peek_count_le hm b hb hbi
        omega
      · have h2 : b = m := eq_of_id_eq hnd' hb hmm hbe
        subst h2
        simp only [hae, if_false] at hai ⊢
        simp only [if_true, Cons.assignPartition]
        have := hw a ha b hb hai hmi
        omega
      · simp only [hae, hbe, if_false] at hai hbi ⊢
        exact hw a ha b hb hai hbi
  have hsome : ∀ q ms', P q ms' → q < n → (peek ms' idl).isSome := by
    intro q ms' ⟨hsh, _, _⟩ _
    obtain ⟨c, hc', hi⟩ := hex
    apply peek_isSome
    have : (c.id, c.streams) ∈ shape ms' := by
      rw [hsh]; exact mem_shape.2 ⟨c, hc', rfl, rfl⟩
    obtain ⟨c', hc'm, hc'id, _⟩ := mem_shape.1 this
    exact ⟨c', hc'm, by rw [hc'id]; exact hi⟩
  have := assignLoop_rule s n idl P hstep hsome (n + 1) 0 _ (by omega) (by omega) h0
  exact ⟨this.2.1, this.2.2⟩

theorem balance_counts (parts : String → Nat) (s : String) (g : Group)
    (hnd : (ids g.members).Nodup)
    (hb1 : ∀ id ∈ subsOf' g.subs s, ∃ c ∈ g.members, c.id = id)
    (hc : CountOK s g.members) :
    CountOK s (balance parts s g).members ∧ Within1 (subsOf' g.subs s) (balance parts s g).members := by
  unfold balance
  cases hs : sget g.subs s with
  | none =>
    refine ⟨hc, ?_⟩
    intro a _ b _ hai; simp [subsOf', hs] at hai
  | some idl =>
    have hsub : subsOf' g.subs s = idl := by simp [subsOf', hs]
    by_cases he : idl.isEmpty = true
    · simp only [he, if_true]
      refine ⟨hc, ?_⟩
      intro a _ b _ hai
      have : idl = [] := List.isEmpty_iff.1 he
      rw [hsub, this] at hai; simp at hai
    · have he' : idl.isEmpty = false := by simpa using he
      simp only [he', Bool.false_eq_true, if_false]
      have hne : idl ≠ [] := fun e => he (by simp [e])
      obtain ⟨i0, hi0⟩ := List.exists_mem_of_ne_nil idl hne
      obtain ⟨c, hcm, hci⟩ := hb1 i0 (hsub ▸ hi0)
      rw [hsub]
      exact balance_members_counts s (parts s) idl g.members hnd ⟨c, hcm, hci ▸ hi0⟩ hc

/-- Invariant of a group all of whose joins name exactly the stream `s`. -/
structure SInv (s : String) (g : Group) : Prop where
  subsOnly : ∀ t, t ≠ s → sget g.subs t = none
  streams : ∀ m ∈ g.members, m.streams = [s] ∨ m.streams = []
  count : CountOK s g.members
  within : ∀ a ∈ g.members, ∀ b ∈ g.members, s ∈ a.streams → s ∈ b.streams → a.count ≤ b.count + 1

theorem streams_of_shape {a b : List Cons} (h : shape a = shape b) {s : String}
    (hb : ∀ m ∈ b, m.streams = [s] ∨ m.streams = []) : ∀ m ∈ a, m.streams = [s] ∨ m.streams = [] := by
  intro m hm
  have : (m.id, m.streams) ∈ shape b := h ▸ mem_shape.2 ⟨m, hm, rfl, rfl⟩
  obtain ⟨m', hm', _, h2⟩ := mem_shape.1 this
  have := hb m' hm'
  simp only [h2] at this
  exact this

theorem sinv_join (parts : String → Nat) (s : String) (g g' : Group) (X : String)
    (streams : List String) (e : Nat) (hss : sortDedup streams = [s])
    (hinv : Inv parts g) (h : SInv s g) (hs : join parts g X streams e = .ok g') : SInv s g' := by
  have hinv' := inv_join parts g g' X streams e hinv hs
  unfold join at hs
  split at hs
  · simp at hs
  · split at hs
    · simp at hs
    · rename_i _ hnm
      simp only [Res.ok.injEq] at hs
      have hX : X ∉ ids g.members := by
        intro hc
        obtain ⟨m, hm, hmid⟩ := List.mem_map.1 hc
        apply hnm
        simp only [List.any_eq_true, decide_eq_true_eq]
        exact ⟨m, hm, hmid⟩
      let c0 : Cons := { id := X, streams := [s], asg := [], count := 0 }
      let g1 : Group := pushSub s X { g with members := g.members ++ [c0] }
      have hg' : g' = { balance parts s g1 with epoch := e } := by
        rw [← hs]; simp [addMember, hss, addConsumer, g1, c0]
      have hsubs : g'.subs = g1.subs := by rw [hg']; exact balance_subs parts s g1
      have hg1sub : ∀ t, t ≠ s → sget g1.subs t = none := by
        intro t ht
        show sget (sset g.subs s _) t = none
        rw [sget_sset]; simp [ht, h.subsOnly t ht]
      have hnd1 : (ids g1.members).Nodup := by
        show (ids (g.members ++ [c0])).Nodup
        simp only [ids, List.map_append, List.map_cons, List.map_nil]
        rw [List.nodup_append]
        refine ⟨hinv.nodup, by simp, ?_⟩
        intro a ha b hb
        simp only [List.mem_singleton] at hb
        subst hb
        intro hab; subst hab
        exact hX ha
      have hc1 : CountOK s g1.members := by
        intro m hm
        rcases List.mem_append.1 (show m ∈ g.members ++ [c0] from hm) with hm | hm
        · exact h.count m hm
        · simp only [List.mem_singleton] at hm; subst hm; simp [c0, asgOf]
      have hb1 : ∀ id ∈ subsOf' g1.subs s, ∃ c ∈ g1.members, c.id = id := by
        intro id hid
        have hid' : id ∈ subsOf' (sset g.subs s (subsOf g s ++ [X])) s := hid
        rw [subsOf'_sset] at hid'
        simp only [if_true, List.mem_append, List.mem_singleton] at hid'
        rcases hid' with hid' | hid'
        · obtain ⟨x, hx, hx1, _⟩ := b1_local hinv.b1 s id hid'
          obtain ⟨m, hm, hm1, _⟩ := mem_shape.1 hx
          exact ⟨m, List.mem_append_left _ hm, hm1.trans hx1⟩
        · exact ⟨c0, List.mem_append_right _ (by simp), hid'.symm⟩
      obtain ⟨hco, hwi⟩ := balance_counts parts s g1 hnd1 hb1 hc1
      have hmem : g'.members = (balance parts s g1).members := by rw [hg']
      refine ⟨?_, ?_, ?_, ?_⟩
      · intro t ht; rw [hsubs]; exact hg1sub t ht
      · rw [hmem]
        apply streams_of_shape (balance_shape parts s g1)
        intro m hm
        rcases List.mem_append.1 (show m ∈ g.members ++ [c0] from hm) with hm | hm
        · exact h.streams m hm
        · simp only [List.mem_singleton] at hm; subst hm; exact Or.inl rfl
      · rw [hmem]; exact hco
      · intro a ha b hb hsa hsb
        have ha' := b2_local hinv'.b2 s (a.id, a.streams) (mem_shape.2 ⟨a, ha, rfl, rfl⟩) hsa
        have hb' := b2_local hinv'.b2 s (b.id, b.streams) (mem_shape.2 ⟨b, hb, rfl, rfl⟩) hsb
        rw [hsubs] at ha' hb'
        rw [hmem] at ha hb
        exact hwi a ha b hb ha' hb'

theorem sinv_filter {s : String} {g : Group} (h : SInv s g) (X : String) (e : Nat) :
    SInv s { g with members := g.members.filter (·.id ≠ X), epoch := e } := by
  have hsub : ∀ m, m ∈ g.members.filter (·.id ≠ X) → m ∈ g.members := fun m hm =>
    (List.mem_filter.1 hm).1
  exact ⟨h.subsOnly, fun m hm => h.streams m (hsub m hm), fun m hm => h.count m (hsub m hm),
    fun a ha b hb => h.within a (hsub a ha) b (hsub b hb)⟩

theorem sinv_leave (parts : String → Nat) (s : String) (g g' : Group) (X : String) (e : Nat)
    (hinv : Inv parts g) (h : SInv s g) (hs : leave parts g X e = .ok g') : SInv s g' := by
  have hinv' := inv_leave parts g g' X e hinv hs
  unfold leave at hs
  split at hs
  · simp at hs
  · cases hf : g.members.find? (·.id = X) with
    | none => simp [hf] at hs
    | some cons =>
      simp only [hf, Res.ok.injEq] at hs
      have hcm : cons ∈ g.members := List.mem_of_find?_eq_some hf
      rcases h.streams cons hcm with hst | hst
      · -- cons.streams = [s]
        have hrc : removeConsumer parts cons g = removeStep parts cons g s := by
          simp [removeConsumer, hst]
        rw [hrc] at hs
        unfold removeStep at hs
        cases hg : sget g.subs s with
        | none =>
          simp only [hg] at hs
          rw [← hs]; exact sinv_filter h X e
        | some idl =>
          simp only [hg] at hs
          let g1 : Group := { g with subs := sset g.subs s (idl.filter (· ≠ cons.id)) }
          have hg1 : SInv s g1 := by
            refine ⟨?_, h.streams, h.count, h.within⟩
            intro t ht
            show sget (sset g.subs s _) t = none
            rw [sget_sset]; simp [ht, h.subsOnly t ht]
          split at hs
          · -- rebalanced
            have hb1 : ∀ id ∈ subsOf' g1.subs s, ∃ c ∈ g1.members, c.id = id := by
              intro id hid
              have hid' : id ∈ subsOf' (sset g.subs s (idl.filter (· ≠ cons.id))) s := hid
              rw [subsOf'_sset] at hid'
              simp only [if_true, List.mem_filter] at hid'
              have : id ∈ subsOf' g.subs s := by simp [subsOf', hg, hid'.1]
              obtain ⟨x, hx, hx1, _⟩ := b1_local hinv.b1 s id this
              obtain ⟨m, hm, hm1, _⟩ := mem_shape.1 hx
              exact ⟨m, hm, hm1.trans hx1⟩
            obtain ⟨hco, hwi⟩ := balance_counts parts s g1 hinv.nodup hb1 h.count
            have hsubs : g'.subs = g1.subs := by rw [← hs]; exact balance_subs parts s g1
            have hmem : ∀ m, m ∈ g'.members → m ∈ (balance parts s g1).members := by
              intro m hm; rw [← hs] at hm; exact (List.mem_filter.1 hm).1
            refine ⟨?_, ?_, ?_, ?_⟩
            · intro t ht; rw [hsubs]; exact hg1.subsOnly t ht
            · intro m hm
              exact streams_of_shape (balance_shape parts s g1) h.streams m (hmem m hm)
            · intro m hm; exact hco m (hmem m hm)
            · intro a ha b hb hsa hsb
              have ha' := b2_local hinv'.b2 s (a.id, a.streams) (mem_shape.2 ⟨a, ha, rfl, rfl⟩) hsa
              have hb' := b2_local hinv'.b2 s (b.id, b.streams) (mem_shape.2 ⟨b, hb, rfl, rfl⟩) hsb
              rw [hsubs] at ha' hb'
              exact hwi a (hmem a ha) b (hmem b hb) ha' hb'
          · rw [← hs]; exact sinv_filter hg1 X e
      · -- cons.streams = []
        have hrc : removeConsumer parts cons g = g := by simp [removeConsumer, hst]
        rw [hrc] at hs
        rw [← hs]; exact sinv_filter h X e

theorem sinv_streamDeleted (parts : String → Nat) (s : String) (g g' : Group) (t : String) (e : Nat)
    (hinv : Inv parts g) (h : SInv s g) (hs : streamDeleted parts g t e = .ok g') : SInv s g' := by
  unfold streamDeleted at hs
  split at hs
  · simp at hs
  · cases hg : sget g.subs t with
    | none => simp [hg] at hs; subst hs; exact h
    | some idl =>
      have hts : t = s := by
        apply Classical.byContradiction
        intro hne
        rw [h.subsOnly t hne] at hg; simp at hg
      subst hts
      simp only [hg] at hs
      by_cases hb : (Gen.Groups.emptyHeapKeepsEpoch && idl.isEmpty) = true
      · -- empty heap: only the heap entry is dropped
        simp only [hb, if_true, Res.ok.injEq] at hs
        rw [← hs]
        refine ⟨?_, h.streams, h.count, h.within⟩
        intro u hu
        show sget (sdel g.subs t) u = none
        rw [sget_sdel]; simp [hu, h.subsOnly u hu]
      simp only [hb, Bool.false_eq_true, if_false, Res.ok.injEq] at hs
      let f : Cons → Cons := fun c =>
        if c.id ∈ idl then { (c.removeStreamAssignments t) with streams := c.streams.filter (· ≠ t) } else c
      have hsub : subsOf' g.subs t = idl := by simp [subsOf', hg]
      have haff : ∀ c ∈ g.members, c.id ∈ idl → (f c).streams = [] := by
        intro c hc hci
        simp only [f, hci, if_true]
        rcases h.streams c hc with h1 | h1 <;> simp [h1]
      have hreb : sortDedup (((g.members.map f).filter (fun c => c.id ∈ idl)).flatMap (·.streams)) = [] := by
        have : ((g.members.map f).filter (fun c => c.id ∈ idl)).flatMap (·.streams) = [] := by
          rw [List.flatMap_eq_nil_iff]
          intro c' hc'
          obtain ⟨hc'm, hc'i⟩ := List.mem_filter.1 hc'
          obtain ⟨c, hc, rfl⟩ := List.mem_map.1 hc'm
          have hid : (f c).id = c.id := by simp only [f]; split <;> rfl
          rw [hid] at hc'i
          exact haff c hc (by simpa using hc'i)
        rw [this]; rfl
      have hg' : g' = { g with members := g.members.map f, subs := sdel g.subs t, epoch := e } := by
        have hs' : ({ (List.foldl (fun g t => balance parts t g)
            ({ g with members := g.members.map f, subs := sdel g.subs t } : Group)
            (sortDedup (((g.members.map f).filter (fun c => c.id ∈ idl)).flatMap (·.streams)))) with
            epoch := e } : Group) = g' := hs
        rw [hreb] at hs'
        exact hs'.symm
      rw [hg']
      refine ⟨?_, ?_, ?_, ?_⟩
      · intro u hu
        show sget (sdel g.subs t) u = none
        rw [sget_sdel]; simp [hu, h.subsOnly u hu]
      · intro m' hm'
        obtain ⟨m, hm, rfl⟩ := List.mem_map.1 hm'
        by_cases hmi : m.id ∈ idl
        · exact Or.inr (haff m hm hmi)
        · simp only [f, hmi, if_false]; exact h.streams m hm
      · intro m' hm'
        obtain ⟨m, hm, rfl⟩ := List.mem_map.1 hm'
        by_cases hmi : m.id ∈ idl
        · simp only [f, hmi, if_true]
          show (m.removeStreamAssignments t).count = ((asgOf (m.removeStreamAssignments t).asg t).length : Int)
          rw [remove_asg_self]
          simp only [Cons.removeStreamAssignments]
          have := h.count m hm
          simp; omega
        · simp only [f, hmi, if_false]; exact h.count m hm
      · intro a' ha' b' _ hsa _
        exfalso
        obtain ⟨a, ha, rfl⟩ := List.mem_map.1 ha'
        by_cases hai : a.id ∈ idl
        · rw [haff a ha hai] at hsa; simp at hsa
        · simp only [f, hai, if_false] at hsa
          exact hai (hsub ▸ b2_local hinv.b2 t (a.id, a.streams) (mem_shape.2 ⟨a, ha, rfl, rfl⟩) hsa)

/-- All joins of the history name exactly the stream `s` (as a set). -/
def SingleStream (s : String) (ops : List Op) : Prop :=
  ∀ op ∈ ops, match op with
    | .join _ streams _ => sortDedup streams = [s]
    | _ => True

theorem sinv_new (s : String) (e : Nat) : SInv s (Group.new e) :=
  ⟨fun _ _ => rfl, fun m hm => by simp [Group.new] at hm, fun m hm => by simp [Group.new] at hm,
   fun a ha => by simp [Group.new] at ha⟩

theorem sinv_run (parts : String → Nat) (s : String) (g : Group) (ops : List Op)
    (hss : SingleStream s ops) (hinv : Inv parts g) (h : SInv s g) : SInv s (run parts g ops) := by
  induction ops generalizing g with
  | nil => exact h
  | cons op r ih =>
    have hr : SingleStream s r := fun o ho => hss o (List.mem_cons_of_mem _ ho)
    have hop := hss op (by simp)
    apply ih _ hr (inv_applyOp parts g op hinv)
    unfold applyOp
    cases hs : step parts g op with
    | ok g' =>
      simp only []
      cases op with
      | join id streams e => exact sinv_join parts s g g' id streams e hop hinv h hs
      | leave id e => exact sinv_leave parts s g g' id e hinv h hs
      | deleted t e => exact sinv_streamDeleted parts s g g' t e hinv h hs
    | err e => exact h
    | panic => exact h

/-! ### the heap abstraction: `Less` is a strict total order on consumers with distinct ids, so
the root of the heap after `heap.Init` (an element that no other element is `Less` than) is the
same consumer whatever the order of the heap array -/

theorem less_iff (a b : Cons) :
    less a b = true ↔ (a.count = b.count ∧ a.id < b.id) ∨ a.count < b.count := by
  simp only [less, Gen.Groups.lessCountEq, Gen.Groups.lessCount, Gen.Groups.lessId, Cmp.evalInt, cmpStr]
  by_cases e : a.count = b.count
  · simp [e]
  · simp [e]

theorem less_irrefl (a : Cons) : less a a = false := by
  have : ¬ less a a = true := by
    rw [less_iff]; simp
  simpa using this

theorem less_trans {a b c : Cons} (h1 : less a b = true) (h2 : less b c = true) : less a c = true := by
  rw [less_iff] at *
  rcases h1 with ⟨e1, l1⟩ | l1 <;> rcases h2 with ⟨e2, l2⟩ | l2
  · exact Or.inl ⟨e1.trans e2, String.lt_trans l1 l2⟩
  · right; omega
  · right; omega
  · right; omega

theorem less_asymm {a b : Cons} (h1 : less a b = true) : less b a = false := by
  have : ¬ less b a = true := by
    intro h2
    have := less_trans h1 h2
    rw [less_irrefl] at this
    exact absurd this (by simp)
  simpa using this

theorem less_total {a b : Cons} (h : a.id ≠ b.id) : less a b = true ∨ less b a = true := by
  rw [less_iff, less_iff]
  by_cases e : a.count = b.count
  · by_cases l : a.id < b.id
    · exact Or.inl (Or.inl ⟨e, l⟩)
    · right; left
      refine ⟨e.symm, ?_⟩
      have h1 : b.id ≤ a.id := String.not_lt.1 l
      apply Classical.byContradiction
      intro l2
      exact h (String.le_antisymm (String.not_lt.1 l2) h1)
  · by_cases l : a.count < b.count
    · exact Or.inl (Or.inr l)
    · right; right; omega

/-- The fold of `minBy` returns a least element. -/
theorem foldl_least (xs : List Cons) (b : Cons)
    (hT : ∀ x ∈ b :: xs, ∀ y ∈ b :: xs, x = y ∨ less x y = true ∨ less y x = true) :
    let r := xs.foldl (fun best c => if less c best then c else best) b
    (r = b ∨ r ∈ xs) ∧ (r = b ∨ less r b = true) ∧ ∀ c ∈ xs, c = r ∨ less r c = true := by
  induction xs generalizing b with
  | nil => simp
  | cons y ys ih =>
    simp only [List.foldl_cons]
    have hT' : ∀ x ∈ (if less y b then y else b) :: ys, ∀ z ∈ (if less y b then y else b) :: ys,
        x = z ∨ less x z = true ∨ less z x = true := by
      intro x hx z hz
      apply hT
      · rcases List.mem_cons.1 hx with h | h
        · rw [h]; split <;> simp
        · simp [h]
      · rcases List.mem_cons.1 hz with h | h
        · rw [h]; split <;> simp
        · simp [h]
    obtain ⟨h1, h2, h3⟩ := ih _ hT'
    by_cases hl : less y b = true
    · simp only [hl, if_true] at h1 h2 h3 ⊢
      refine ⟨?_, ?_, ?_⟩
      · rcases h1 with h | h
        · right; rw [h]; simp
        · right; simp [h]
      · rcases h2 with h | h
        · right; rw [h]; exact hl
        · right; exact less_trans h hl
      · intro c hc
        rcases List.mem_cons.1 hc with h | h
        · rw [h]
          rcases h2 with h' | h'
          · exact Or.inl h'.symm
          · exact Or.inr h'
        · exact h3 c h
    · have hl' : less y b = false := by simpa using hl
      simp only [hl', Bool.false_eq_true, if_false] at h1 h2 h3 ⊢
      refine ⟨?_, h2, ?_⟩
      · rcases h1 with h | h
        · exact Or.inl h
        · right; simp [h]
      · intro c hc
        rcases List.mem_cons.1 hc with h | h
        · rw [h]
          have hyb : y = b ∨ less b y = true := by
            rcases hT y (by simp) b (by simp) with h' | h' | h'
            · exact Or.inl h'
            · rw [hl'] at h'; exact absurd h' (by simp)
            · exact Or.inr h'
          rcases h2 with h' | h' <;> rcases hyb with h'' | h''
          · left; rw [h'', h']
          · right; rw [h']; exact h''
          · right; rw [h'']; exact h'
          · right; exact less_trans h' h''
        · exact h3 c h

theorem minBy_least (l : List Cons) (m : Cons) (hnd : (ids l).Nodup) (h : minBy l = some m) :
    m ∈ l ∧ ∀ c ∈ l, c = m ∨ less m c = true := by
  refine ⟨minBy_mem l m h, ?_⟩
  cases l with
  | nil => simp [minBy] at h
  | cons x xs =>
    simp only [minBy, Option.some.injEq] at h
    have hT : ∀ a ∈ x :: xs, ∀ b ∈ x :: xs, a = b ∨ less a b = true ∨ less b a = true := by
      intro a ha b hb
      by_cases hab : a.id = b.id
      · exact Or.inl (eq_of_id_eq hnd ha hb hab)
      · exact Or.inr (less_total hab)
    obtain ⟨_, h2, h3⟩ := foldl_least xs x hT
    rw [h] at h2 h3
    intro c hc
    rcases List.mem_cons.1 hc with hc | hc
    · rw [hc]
      rcases h2 with h2 | h2
      · exact Or.inl h2.symm
      · exact Or.inr h2
    · exact h3 c hc

/-- **The minimum does not depend on the order of the heap array.** -/
theorem minBy_perm (l₁ l₂ : List Cons) (hp : l₁.Perm l₂) (hnd : (ids l₁).Nodup) :
    minBy l₁ = minBy l₂ := by
  have hnd2 : (ids l₂).Nodup := (hp.map _).nodup_iff.1 hnd
  cases h1 : minBy l₁ with
  | none =>
    cases l₁ with
    | nil => rw [List.nil_perm.1 hp]; rfl
    | cons x xs => simp [minBy] at h1
  | some m1 =>
    cases h2 : minBy l₂ with
    | none =>
      cases l₂ with
      | nil => rw [List.perm_nil.1 hp] at h1; simp [minBy] at h1
      | cons x xs => simp [minBy] at h2
    | some m2 =>
      obtain ⟨hm1, hl1⟩ := minBy_least l₁ m1 hnd h1
      obtain ⟨hm2, hl2⟩ := minBy_least l₂ m2 hnd2 h2
      rcases hl1 m2 (hp.mem_iff.2 hm2) with h | h
      · rw [h]
      · rcases hl2 m1 (hp.mem_iff.1 hm1) with h' | h'
        · rw [h']
        · rw [less_asymm h] at h'; exact absurd h' (by simp)

/-- `peek` only depends on the set of members and on the set of ids in the heap. -/
theorem peek_perm (ms₁ ms₂ : List Cons) (idl₁ idl₂ : List String) (hp : ms₁.Perm ms₂)
    (hi : ∀ id, id ∈ idl₁ ↔ id ∈ idl₂) (hnd : (ids ms₁).Nodup) :
    peek ms₁ idl₁ = peek ms₂ idl₂ := by
  unfold peek
  have : ms₂.filter (fun c => decide (c.id ∈ idl₂)) = ms₂.filter (fun c => decide (c.id ∈ idl₁)) := by
    apply List.filter_congr
    intro c _
    simp [hi]
  rw [this]
  apply minBy_perm _ _ (hp.filter _)
  exact List.Nodup.sublist (List.Sublist.map _ List.filter_sublist) hnd

/-! ### `rangeStreamsOrdered`: the processing order is a function of the SET of streams -/

theorem str_lt_of_not (x y : String) (h1 : ¬ x < y) (h2 : x ≠ y) : y < x := by
  apply Classical.byContradiction
  intro h3
  exact h2 (String.le_antisymm (String.not_lt.1 h3) (String.not_lt.1 h1))

theorem sorted_insertS (x : String) (l : List String) (h : l.Pairwise (· < ·)) :
    (insertS x l).Pairwise (· < ·) := by
  induction l with
  | nil => simp [insertS]
  | cons y ys ih =>
    rw [List.pairwise_cons] at h
    unfold insertS
    split
    · rename_i hxy
      rw [List.pairwise_cons]
      refine ⟨?_, List.pairwise_cons.2 h⟩
      intro z hz
      rcases List.mem_cons.1 hz with hz | hz
      · rw [hz]; exact hxy
      · exact String.lt_trans hxy (h.1 z hz)
    · split
      · exact List.pairwise_cons.2 h
      · rename_i hxy hne
        rw [List.pairwise_cons]
        refine ⟨?_, ih h.2⟩
        intro z hz
        rcases (mem_insertS x z ys).1 hz with hz | hz
        · rw [hz]; exact str_lt_of_not x y hxy hne
        · exact h.1 z hz

theorem sorted_sortDedup (l : List String) : (sortDedup l).Pairwise (· < ·) := by
  induction l with
  | nil => simp [sortDedup]
  | cons x xs ih => exact sorted_insertS x _ ih

theorem sorted_ext : ∀ (l₁ l₂ : List String), l₁.Pairwise (· < ·) → l₂.Pairwise (· < ·) →
    (∀ x, x ∈ l₁ ↔ x ∈ l₂) → l₁ = l₂ := by
  intro l₁
  induction l₁ with
  | nil =>
    intro l₂ _ _ h
    cases l₂ with
    | nil => rfl
    | cons b r => exact absurd ((h b).2 (by simp)) (by simp)
  | cons a r₁ ih =>
    intro l₂ h1 h2 h
    cases l₂ with
    | nil => exact absurd ((h a).1 (by simp)) (by simp)
    | cons b r₂ =>
      rw [List.pairwise_cons] at h1 h2
      have hab : a = b := by
        rcases List.mem_cons.1 ((h a).1 (by simp)) with e | ha
        · exact e
        · rcases List.mem_cons.1 ((h b).2 (by simp)) with e | hb
          · exact e.symm
          · exact absurd (h1.1 b hb) (String.lt_asymm (h2.1 a ha))
      subst hab
      congr 1
      apply ih r₂ h1.2 h2.2
      intro x
      constructor
      · intro hx
        rcases List.mem_cons.1 ((h x).1 (by simp [hx])) with e | hx'
        · subst e; exact absurd (h1.1 x hx) (String.lt_irrefl x)
        · exact hx'
      · intro hx
        rcases List.mem_cons.1 ((h x).2 (by simp [hx])) with e | hx'
        · subst e; exact absurd (h2.1 x hx) (String.lt_irrefl x)
        · exact hx'

theorem sortDedup_ext (l₁ l₂ : List String) (h : ∀ x, x ∈ l₁ ↔ x ∈ l₂) :
    sortDedup l₁ = sortDedup l₂ :=
  sorted_ext _ _ (sorted_sortDedup l₁) (sorted_sortDedup l₂)
    (fun x => by rw [mem_sortDedup, mem_sortDedup]; exact h x)

end Liftbridge.Proofs.Groups
