/- Reader lemmas of the commit-log model: closed forms of the byte-walks and the reader specs. -/
import Liftbridge.Proofs.Log
namespace Liftbridge.Proofs.Log
open Liftbridge Liftbridge.Log Liftbridge.Log.CLog

/-! ### List helpers -/

/-- A filter by a conjunction of a "from index `k` on" and an "up to index `n`" predicate is a
window of the list. -/
theorem filter_window {α} (p q : α → Bool) :
    ∀ (L : List α) (k n : Nat),
      (∀ a ∈ L.take k, p a = false) → (∀ a ∈ L.drop k, p a = true) →
      (∀ a ∈ L.take n, q a = true) → (∀ a ∈ L.drop n, q a = false) →
      L.filter (fun a => p a && q a) = (L.take n).drop k := by
  intro L
  induction L with
  | nil => intros; simp
  | cons a L ih =>
    intro k n h1 h2 h3 h4
    cases k with
    | zero =>
      cases n with
      | zero =>
        simp only [List.take_zero, List.drop_zero, List.filter_eq_nil_iff]
        intro b hb
        simp [h4 b (by simpa using hb)]
      | succ n =>
        have hp : p a = true := h2 a (by simp)
        have hq : q a = true := h3 a (by simp)
        simp only [List.take_succ_cons, List.drop_zero, List.filter_cons, hp, hq, Bool.and_self,
          if_true, List.cons.injEq, true_and]
        have := ih 0 n (by simp) (fun b hb => h2 b (by simp at hb ⊢; exact Or.inr hb))
          (fun b hb => h3 b (by simp only [List.take_succ_cons, List.mem_cons]; exact Or.inr hb))
          (fun b hb => h4 b (by simpa using hb))
        simpa using this
    | succ k =>
      have hp : p a = false := h1 a (by simp)
      cases n with
      | zero =>
        simp only [List.take_zero, List.drop_nil, List.filter_eq_nil_iff]
        intro b hb
        simp [h4 b (by simpa using hb)]
      | succ n =>
        simp only [List.take_succ_cons, List.drop_succ_cons, List.filter_cons, hp, Bool.false_and,
          Bool.false_eq_true, if_false]
        exact ih k n (fun b hb => h1 b (by simp only [List.take_succ_cons, List.mem_cons]; exact Or.inr hb))
          (fun b hb => h2 b (by simpa using hb))
          (fun b hb => h3 b (by simp only [List.take_succ_cons, List.mem_cons]; exact Or.inr hb))
          (fun b hb => h4 b (by simpa using hb))

theorem sorted_split {rp rq : List Rec} {r : Rec} (h : Sorted (rp ++ r :: rq)) :
    (∀ a ∈ rp, a.offset < r.offset) ∧ (∀ b ∈ rq, r.offset < b.offset) := by
  have := List.pairwise_append.mp h
  exact ⟨fun a ha => this.2.2 a ha r (by simp), (List.pairwise_cons.mp this.2.1).1⟩

/-! ### Uncommitted reader -/

theorem getElem?_split {α} {xs pre post : List α} {x : α} (h : xs = pre ++ x :: post) :
    xs[pre.length]? = some x := by simp [h]

theorem drainFrom_eq {segs : List Seg} (wf : WFC segs) :
    ∀ (post pre : List Seg) (s : Seg) (k fuel : Nat), segs = pre ++ s :: post →
      post.length + 1 ≤ fuel →
      drainFrom segs pre.length k fuel = s.recs.drop k ++ post.flatMap Seg.recs := by
  intro post
  induction post with
  | nil =>
    intro pre s k fuel hs hf
    obtain ⟨f, rfl⟩ : ∃ f, fuel = f + 1 := ⟨fuel - 1, by simp at hf; omega⟩
    have hnone : findSegmentByBaseIdx segs (s.base + 1) = none := by
      apply findSegmentByBaseIdx_none
      intro a ha
      rw [hs] at ha
      rcases List.mem_append.mp ha with ha | ha
      · have := ((wf.split hs).1 a ha).2; omega
      · simp at ha; subst ha; omega
    simp only [drainFrom, getElem?_split hs, hnone, List.flatMap_nil]
  | cons b post ih =>
    intro pre s k fuel hs hf
    obtain ⟨f, rfl⟩ : ∃ f, fuel = f + 1 := ⟨fuel - 1, by simp at hf; omega⟩
    have hs' : segs = (pre ++ [s]) ++ b :: post := by simp [hs]
    have hsome : findSegmentByBaseIdx segs (s.base + 1) = some (pre ++ [s]).length := by
      apply findSegmentByBaseIdx_of_split wf hs'
      · have := ((wf.split hs).2 b (by simp)).2; omega
      · intro a ha
        rcases List.mem_append.mp ha with ha | ha
        · have := ((wf.split hs).1 a ha).2; omega
        · simp at ha; subst ha; omega
    simp only [drainFrom, getElem?_split hs, hsome]
    rw [ih (pre ++ [s]) b 0 f hs' (by simp at hf ⊢; omega)]
    simp

/-- The uncommitted reader on any well-formed segment list (offset gaps allowed). -/
theorem readUncommitted_eq_wfc {l : CLog} (wf : WFC l.segs) (s : Int) (hs : ∃ r ∈ l.abs, s ≤ r.offset) :
    l.readUncommitted s = .ok (l.abs.filter (fun r => decide (s ≤ r.offset))) := by
  rcases first_seg_split l.segs s with hall | ⟨pre, x, post, hsplit, hx, hpre⟩
  · exfalso
    obtain ⟨r, hr, hsr⟩ := hs
    obtain ⟨a, ha, hra⟩ := List.mem_flatMap.mp hr
    have := (wf.segOK ha).lt_next r hra
    have := hall a ha
    omega
  · have okx : SegOK x := wf.segOK (by simp [hsplit])
    have habs : l.abs = pre.flatMap Seg.recs ++ (x.recs ++ post.flatMap Seg.recs) := by
      simp [abs, hsplit]
    have hf1 : (pre.flatMap Seg.recs).filter (fun r => decide (s ≤ r.offset)) = [] := by
      apply List.filter_eq_nil_iff.mpr
      intro r hr
      obtain ⟨a, ha, hra⟩ := List.mem_flatMap.mp hr
      have := (wf.segOK (s := a) (by simp [hsplit, ha])).lt_next r hra
      have := hpre a ha
      simp; omega
    have hf3 : (post.flatMap Seg.recs).filter (fun r => decide (s ≤ r.offset)) = post.flatMap Seg.recs := by
      apply List.filter_eq_self.mpr
      intro r hr
      have := wf.post_ge hsplit r hr
      simp; omega
    have hfuel : post.length + 1 ≤ l.segs.length + 1 := by simp [hsplit]; omega
    rw [habs, List.filter_append, List.filter_append, hf1, hf3, List.nil_append]
    unfold readUncommitted
    rw [findSegmentIdx_of_split wf hsplit hx hpre]
    simp only [getElem?_split hsplit, Gen.Log.containsCmp, Cmp.evalInt, decide_eq_true_eq]
    by_cases hb : x.base ≤ s
    · rw [if_pos hb]
      obtain ⟨rp, r, rq, hrecs, hr, hrp⟩ := okx.first_rec_split hx hb
      rw [findEntryIdx_of_split okx hrecs hr hrp]
      simp only
      rw [drainFrom_eq wf post pre x rp.length _ hsplit hfuel]
      have hsr := sorted_split (by have := okx.sorted; rwa [hrecs] at this)
      have : x.recs.filter (fun r => decide (s ≤ r.offset)) = x.recs.drop rp.length := by
        rw [hrecs, List.filter_append, List.drop_left]
        have e1 : rp.filter (fun r => decide (s ≤ r.offset)) = [] := by
          apply List.filter_eq_nil_iff.mpr
          intro a ha; have := hrp a ha; simp; omega
        have e2 : (r :: rq).filter (fun r => decide (s ≤ r.offset)) = r :: rq := by
          apply List.filter_eq_self.mpr
          intro a ha
          rcases List.mem_cons.mp ha with rfl | ha
          · simpa using hr
          · have := hsr.2 a ha; simp; omega
        rw [e1, e2, List.nil_append]
      rw [this]
    · rw [if_neg hb]
      rw [drainFrom_eq wf post pre x 0 _ hsplit hfuel]
      have : x.recs.filter (fun r => decide (s ≤ r.offset)) = x.recs := by
        apply List.filter_eq_self.mpr
        intro a ha
        have := okx.base_le a ha
        simp; omega
      rw [this, List.drop_zero]

theorem readUncommitted_eq {l : CLog} (h : Inv l) (s : Int) (hs : ∃ r ∈ l.abs, s ≤ r.offset) :
    l.readUncommitted s = .ok (l.abs.filter (fun r => decide (s ≤ r.offset))) :=
  readUncommitted_eq_wfc h.wfc s hs

theorem readUncommitted_none {l : CLog} (h : Inv l) (s : Int) (hn : l.nextOffset ≤ s) :
    ∃ e, l.readUncommitted s = .err e := by
  have : findSegmentIdx l.segs s = none := by
    apply findSegmentIdx_none
    intro a ha
    have := h.seg_next_le a ha
    omega
  unfold readUncommitted
  rw [this]
  exact ⟨_, rfl⟩

/-! ### Committed reader -/

theorem drainCommitted_same {segs pre post : List Seg} {hseg : Seg} (hslot k fuel : Nat)
    (hs : segs = pre ++ hseg :: post) (hf : 1 ≤ fuel) :
    drainCommitted segs pre.length hslot pre.length k fuel = .ok ((hseg.recs.take hslot).drop k) := by
  obtain ⟨f, rfl⟩ : ∃ f, fuel = f + 1 := ⟨fuel - 1, by omega⟩
  simp [drainCommitted, getElem?_split hs]

theorem drainCommitted_eq {segs : List Seg} (wf : WFC segs) (hslot : Nat) (hseg : Seg) (post : List Seg) :
    ∀ (mid pre : List Seg) (s : Seg) (k fuel : Nat), segs = pre ++ s :: (mid ++ hseg :: post) →
      mid.length + 2 ≤ fuel →
      drainCommitted segs (pre.length + 1 + mid.length) hslot pre.length k fuel =
        .ok (s.recs.drop k ++ (mid.flatMap Seg.recs ++ hseg.recs.take hslot)) := by
  intro mid
  induction mid with
  | nil =>
    intro pre s k fuel hs hf
    obtain ⟨f, rfl⟩ : ∃ f, fuel = f + 1 := ⟨fuel - 1, by simp at hf; omega⟩
    have hs' : segs = (pre ++ [s]) ++ hseg :: post := by simp [hs]
    have hsome : findSegmentByBaseIdx segs (s.base + 1) = some (pre ++ [s]).length := by
      apply findSegmentByBaseIdx_of_split wf hs'
      · have := ((wf.split hs).2 hseg (by simp)).2; omega
      · intro a ha
        rcases List.mem_append.mp ha with ha | ha
        · have := ((wf.split hs).1 a ha).2; omega
        · simp at ha; subst ha; omega
    have hne : ¬ (pre.length = pre.length + 1 + 0) := by omega
    have hidx : pre.length + 1 + 0 = (pre ++ [s]).length := by simp
    simp only [drainCommitted, getElem?_split hs, List.length_nil, hne, if_false, hsome]
    rw [hidx, drainCommitted_same hslot 0 f hs' (by simp at hf; omega)]
    simp
  | cons b mid ih =>
    intro pre s k fuel hs hf
    obtain ⟨f, rfl⟩ : ∃ f, fuel = f + 1 := ⟨fuel - 1, by simp at hf; omega⟩
    have hs' : segs = (pre ++ [s]) ++ b :: (mid ++ hseg :: post) := by simp [hs]
    have hsome : findSegmentByBaseIdx segs (s.base + 1) = some (pre ++ [s]).length := by
      apply findSegmentByBaseIdx_of_split wf hs'
      · have := ((wf.split hs).2 b (by simp)).2; omega
      · intro a ha
        rcases List.mem_append.mp ha with ha | ha
        · have := ((wf.split hs).1 a ha).2; omega
        · simp at ha; subst ha; omega
    have hne : ¬ (pre.length = pre.length + 1 + (b :: mid).length) := by simp; omega
    have hidx : pre.length + 1 + (b :: mid).length = (pre ++ [s]).length + 1 + mid.length := by
      simp; omega
    simp only [drainCommitted, getElem?_split hs, hne, if_false, hsome]
    rw [hidx, ih (pre ++ [s]) b 0 f hs' (by simp at hf ⊢; omega)]
    simp

/-- The slot at which a reader positioned at `s` starts in the segment found for `s`. -/
theorem start_slot {x : Seg} (okx : SegOK x) {s : Int} (hx : s < x.nextOffset) :
    ∃ k, (∀ a ∈ x.recs.take k, a.offset < s) ∧ (∀ a ∈ x.recs.drop k, s ≤ a.offset) ∧
      ((x.base ≤ s ∧ x.findEntryIdx s = some k) ∨ (¬ x.base ≤ s ∧ k = 0)) := by
  by_cases hb : x.base ≤ s
  · obtain ⟨rp, r, rq, hrecs, hr, hrp⟩ := okx.first_rec_split hx hb
    have hsr := sorted_split (by have := okx.sorted; rwa [hrecs] at this)
    refine ⟨rp.length, ?_, ?_, Or.inl ⟨hb, findEntryIdx_of_split okx hrecs hr hrp⟩⟩
    · rw [hrecs, List.take_left]; exact hrp
    · rw [hrecs, List.drop_left]
      intro a ha
      rcases List.mem_cons.mp ha with rfl | ha
      · exact hr
      · have := hsr.2 a ha; omega
  · refine ⟨0, by simp, ?_, Or.inr ⟨hb, rfl⟩⟩
    intro a ha
    have := okx.base_le a (by simpa using ha)
    omega

/-- The committed reader on any well-formed segment list (offset gaps allowed) whose first
segment is not empty. -/
theorem readCommitted_eq_wfc {l : CLog} (wf : WFC l.segs) (holdest : l.oldest ≠ -1) (s : Int)
    (hhw : ∃ r ∈ l.abs, r.offset = l.hw) (hs : s ≤ l.hw) :
    l.readCommitted s = .ok (l.abs.filter (fun r => decide (s ≤ r.offset ∧ r.offset ≤ l.hw))) := by
  obtain ⟨r, hr, hrhw⟩ := hhw
  obtain ⟨hseg, hsegmem, hrmem⟩ := List.mem_flatMap.mp hr
  obtain ⟨preh, posth, hsplith⟩ := List.append_of_mem hsegmem
  obtain ⟨rp, rq, hrecsh⟩ := List.append_of_mem hrmem
  have okh : SegOK hseg := wf.segOK hsegmem
  have hsorth := sorted_split (by have := okh.sorted; rwa [hrecsh] at this)
  have hr0 : 0 ≤ r.offset := by
    have := okh.base_le r hrmem; have := okh.base_nonneg; omega
  have hbh : hseg.base ≤ l.hw := by have := okh.base_le r hrmem; omega
  have hnh : l.hw < hseg.nextOffset := by have := okh.lt_next r hrmem; omega
  have hhwne : l.hw ≠ -1 := by omega
  -- position of the high watermark
  have hfindhw : findSegmentIdx l.segs l.hw = some preh.length := by
    apply findSegmentIdx_of_split wf hsplith hnh
    intro a ha
    have := ((wf.split hsplith).1 a ha).1
    omega
  have hentryhw : hseg.findEntryIdx l.hw = some rp.length := by
    apply findEntryIdx_of_split okh hrecsh (by omega)
    intro a ha; have := hsorth.1 a ha; omega
  have hpos : hwPos l.segs l.hw = .ok (preh.length, rp.length + 1) := by
    unfold hwPos; rw [hfindhw]; simp only [getElem?_split hsplith, hentryhw]
    have hget : hseg.recs[rp.length]? = some r := by
      rw [hrecsh]; simp
    have hng : ¬ (r.offset > l.hw) := by omega
    simp [hget, hng]
  have hrecsh' : hseg.recs = (rp ++ [r]) ++ rq := by simp [hrecsh]
  have htakeh : ∀ a ∈ hseg.recs.take (rp.length + 1), a.offset ≤ l.hw := by
    rw [hrecsh', List.take_left' (by simp)]
    intro a ha
    rcases List.mem_append.mp ha with ha | ha
    · have := hsorth.1 a ha; omega
    · simp at ha; subst ha; omega
  have hdroph : ∀ a ∈ hseg.recs.drop (rp.length + 1), l.hw < a.offset := by
    rw [hrecsh', List.drop_left' (by simp)]
    intro a ha
    have := hsorth.2 a ha; omega
  have hpq : (fun (r : Rec) => decide (s ≤ r.offset ∧ r.offset ≤ l.hw)) =
      (fun r => decide (s ≤ r.offset) && decide (r.offset ≤ l.hw)) := by
    funext a; simp [Bool.decide_and]
  have hfpost : (posth.flatMap Seg.recs).filter (fun r => decide (s ≤ r.offset ∧ r.offset ≤ l.hw)) = [] := by
    apply List.filter_eq_nil_iff.mpr
    intro a ha
    have := wf.post_ge hsplith a ha
    simp; omega
  -- segment of the start offset: the first one ending above `s`, at or before the HW segment
  rcases first_seg_split (preh ++ [hseg]) s with hall | ⟨pre, x, mid', hsp, hx, hpre⟩
  · exfalso
    have := hall hseg (by simp)
    omega
  · have hsplit : l.segs = pre ++ x :: (mid' ++ posth) := by
      have : preh ++ hseg :: posth = (preh ++ [hseg]) ++ posth := by simp
      rw [hsplith, this, hsp]; simp
    have hfind : findSegmentIdx l.segs s = some pre.length :=
      findSegmentIdx_of_split wf hsplit hx hpre
    have okx : SegOK x := wf.segOK (by simp [hsplit])
    have hfpre : (pre.flatMap Seg.recs).filter (fun r => decide (s ≤ r.offset ∧ r.offset ≤ l.hw)) = [] := by
      apply List.filter_eq_nil_iff.mpr
      intro a ha
      obtain ⟨b, hb, hab⟩ := List.mem_flatMap.mp ha
      have := (wf.segOK (s := b) (by simp [hsplit, hb])).lt_next a hab
      have := hpre b hb
      simp; omega
    obtain ⟨k, hk1, hk2, hk3⟩ := start_slot okx hx
    -- the walk from slot `k` yields the filtered log
    have key : drainCommitted l.segs preh.length (rp.length + 1) pre.length k (l.segs.length + 1) =
        .ok (l.abs.filter (fun r => decide (s ≤ r.offset ∧ r.offset ≤ l.hw))) := by
      rcases List.eq_nil_or_concat mid' with hm | ⟨mid, h', hm⟩
      · -- start and HW in the same segment
        subst hm
        obtain ⟨e1, e2⟩ := List.append_inj' hsp (by simp)
        simp only [List.cons.injEq, and_true] at e2
        subst e1 e2
        rw [drainCommitted_same _ _ _ hsplith (by omega)]
        have habs : l.abs = preh.flatMap Seg.recs ++ (hseg.recs ++ posth.flatMap Seg.recs) := by
          simp [abs, hsplith]
        rw [habs, List.filter_append, List.filter_append, hfpre, hfpost, List.nil_append,
          List.append_nil, hpq]
        rw [filter_window _ _ hseg.recs k (rp.length + 1)
          (fun a ha => by have := hk1 a ha; simp; omega)
          (fun a ha => by have := hk2 a ha; simp; omega)
          (fun a ha => by have := htakeh a ha; simp; omega)
          (fun a ha => by have := hdroph a ha; simp; omega)]
      · -- the HW segment is a later one
        rw [List.concat_eq_append] at hm
        subst hm
        have hsp' : preh ++ [hseg] = (pre ++ x :: mid) ++ [h'] := by simp [hsp]
        obtain ⟨e1, e2⟩ := List.append_inj' hsp' (by simp)
        simp only [List.cons.injEq, and_true] at e2
        subst e2
        have hsplit' : l.segs = pre ++ x :: (mid ++ hseg :: posth) := by simp [hsplit]
        have hidx : preh.length = pre.length + 1 + mid.length := by simp [e1]; omega
        rw [hidx, drainCommitted_eq wf _ hseg posth mid pre x k _ hsplit' (by simp [hsplit']; omega)]
        have habs : l.abs = pre.flatMap Seg.recs ++ (x.recs ++ (mid.flatMap Seg.recs ++
            (hseg.recs ++ posth.flatMap Seg.recs))) := by
          simp [abs, hsplit']
        have hxh : x.nextOffset ≤ hseg.base := ((wf.split hsplit').2 hseg (by simp)).1
        have hfx : x.recs.filter (fun r => decide (s ≤ r.offset) && decide (r.offset ≤ l.hw)) =
            x.recs.drop k := by
          rw [filter_window _ _ x.recs k x.recs.length
            (fun a ha => by have := hk1 a ha; simp; omega)
            (fun a ha => by have := hk2 a ha; simp; omega)
            (fun a ha => by
              have := okx.lt_next a (by simpa using ha); simp; omega)
            (fun a ha => by simp at ha)]
          simp
        have hfmid : (mid.flatMap Seg.recs).filter (fun r => decide (s ≤ r.offset) && decide (r.offset ≤ l.hw)) =
            mid.flatMap Seg.recs := by
          apply List.filter_eq_self.mpr
          intro a ha
          have h1 := wf.post_ge hsplit' a (by simp [List.flatMap_append]; exact Or.inl (by simpa using ha))
          have h2 := wf.pre_lt hsplith a (by rw [e1]; simp [List.flatMap_append]; exact Or.inr (Or.inr (by simpa using ha)))
          simp; omega
        have hfh : hseg.recs.filter (fun r => decide (s ≤ r.offset) && decide (r.offset ≤ l.hw)) =
            hseg.recs.take (rp.length + 1) := by
          rw [filter_window _ _ hseg.recs 0 (rp.length + 1)
            (fun a ha => by simp at ha)
            (fun a ha => by
              have := okh.base_le a (by simpa using ha); simp; omega)
            (fun a ha => by have := htakeh a ha; simp; omega)
            (fun a ha => by have := hdroph a ha; simp; omega)]
          simp
        rw [habs, List.filter_append, List.filter_append, List.filter_append, List.filter_append,
          hfpre, hfpost, hpq, hfx, hfmid, hfh]
        simp
    unfold readCommitted
    have hgt : ¬ (s > l.hw) := by omega
    simp only [Gen.Log.readerBeyondHWCmp, Cmp.evalInt, hgt, decide_false, Bool.false_or,
      decide_eq_true_eq, holdest, hhwne, ne_eq, not_false_eq_true, if_true, hpos,
      Res.bind_ok, hfind, getElem?_split hsplit, Gen.Log.containsCmp]
    rcases hk3 with ⟨hb, hfe⟩ | ⟨hb, rfl⟩
    · rw [if_pos hb, hfe]
      exact key
    · rw [if_neg hb]
      exact key

theorem readCommitted_eq {l : CLog} (h : Inv l) (s : Int)
    (hhw : ∃ r ∈ l.abs, r.offset = l.hw) (hs : s ≤ l.hw) :
    l.readCommitted s = .ok (l.abs.filter (fun r => decide (s ≤ r.offset ∧ r.offset ≤ l.hw))) := by
  obtain ⟨r, hr, hrhw⟩ := hhw
  exact readCommitted_eq_wfc h.wfc (oldest_ne h (by intro he; rw [he] at hr; cases hr)) s
    ⟨r, hr, hrhw⟩ hs

end Liftbridge.Proofs.Log
