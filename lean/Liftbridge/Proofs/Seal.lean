/-
Helper lemmas about the framing of server/encryption/localkey_handler.go (Model/Seal.lean).
Core Lean only. The property theorems are in Props/C17.lean.
-/
import Liftbridge.Model.Seal

namespace Liftbridge.Seal
open Liftbridge

/-- Cutting a framed value gives back the two parts, provided the wrapped key fits the
one-byte length field. Holds with and without the bounds checks. -/
theorem splitKey_frame (chk : Bool) (w ct : Bytes) (h : w.length < 256) :
    splitKey chk (frame w ct) = .ok (w, ct) := by
  have h0 : (UInt8.ofNat w.length).toNat = w.length := by
    simp [UInt8.toNat_ofNat']; omega
  unfold splitKey frame
  simp [Gen.Seal.guardEmpty, Gen.Seal.guardKeyBeyond, Gen.Seal.keyEndOffset, Gen.Seal.wrappedLo,
    Cmp.evalNat, index, slice, sliceFrom, h0]

theorem splitNonce_append (chk : Bool) (n : Nat) (nonce x : Bytes) (h : nonce.length = n) :
    splitNonce chk n (nonce ++ x) = .ok (nonce, x) := by
  subst h
  unfold splitNonce
  simp [Gen.Seal.guardNonceShort, Cmp.evalNat, slice, sliceFrom]

/-- Whatever `Read` manages to cut is a framed value: the cut is the inverse of `frame`. -/
theorem splitKey_ok_inv (chk : Bool) (b w rest : Bytes) (h : splitKey chk b = .ok (w, rest)) :
    w.length < 256 ∧ b = frame w rest := by
  cases b with
  | nil =>
    cases chk <;> simp [splitKey, Gen.Seal.guardEmpty, Cmp.evalNat, index] at h
  | cons k0 t =>
    have hk : k0.toNat < 256 := k0.toNat_lt
    unfold splitKey at h
    simp only [Gen.Seal.guardEmpty, Gen.Seal.guardKeyBeyond, Gen.Seal.keyEndOffset, Gen.Seal.wrappedLo,
      Cmp.evalNat, index, slice, sliceFrom, List.length_cons] at h
    by_cases hle : k0.toNat ≤ t.length
    · have hlt : ¬ t.length < k0.toNat := by omega
      simp [hle, hlt] at h
      obtain ⟨hw, hr⟩ := h
      subst hw hr
      refine ⟨by simp; omega, ?_⟩
      unfold frame
      simp [List.length_take, Nat.min_eq_left hle]
    · have hlt : t.length < k0.toNat := by omega
      cases chk <;> simp [hle, hlt] at h

theorem splitNonce_ok_inv (chk : Bool) (n : Nat) (ed nonce ct : Bytes)
    (h : splitNonce chk n ed = .ok (nonce, ct)) : nonce.length = n ∧ ed = nonce ++ ct := by
  unfold splitNonce at h
  simp only [Gen.Seal.guardNonceShort, Cmp.evalNat, slice, sliceFrom] at h
  by_cases hle : n ≤ ed.length
  · have hlt : ¬ ed.length < n := by omega
    simp [hle, hlt] at h
    obtain ⟨hn, hc⟩ := h
    subst hn hc
    simp [List.length_take, Nat.min_eq_left hle]
  · have hlt : ed.length < n := by omega
    cases chk <;> simp [hle, hlt] at h

/-- With the bounds checks the first cut never panics. -/
theorem splitKey_checked_ne_panic (b : Bytes) : splitKey true b ≠ .panic := by
  cases b with
  | nil => simp [splitKey, Gen.Seal.guardEmpty, Cmp.evalNat]
  | cons k0 t =>
    unfold splitKey
    simp only [Gen.Seal.guardEmpty, Gen.Seal.guardKeyBeyond, Gen.Seal.keyEndOffset, Gen.Seal.wrappedLo,
      Cmp.evalNat, index, slice, sliceFrom, List.length_cons]
    by_cases hle : k0.toNat ≤ t.length
    · have hlt : ¬ t.length < k0.toNat := by omega
      simp [hle, hlt]
    · have hlt : t.length < k0.toNat := by omega
      simp [hlt]

theorem splitNonce_checked_ne_panic (n : Nat) (ed : Bytes) : splitNonce true n ed ≠ .panic := by
  unfold splitNonce
  simp only [Gen.Seal.guardNonceShort, Cmp.evalNat, slice, sliceFrom]
  by_cases hle : n ≤ ed.length
  · have hlt : ¬ ed.length < n := by omega
    simp [hle, hlt]
  · have hlt : ed.length < n := by omega
    simp [hlt]

/-- Exactly when the unchecked first cut panics. -/
theorem splitKey_unchecked_panic_iff (b : Bytes) :
    splitKey false b = .panic ↔ b = [] ∨ ∃ k0 t, b = k0 :: t ∧ t.length < k0.toNat := by
  cases b with
  | nil => simp [splitKey, index]
  | cons k0 t =>
    unfold splitKey
    simp only [Gen.Seal.keyEndOffset, Gen.Seal.wrappedLo, index, slice, sliceFrom, List.length_cons]
    by_cases hle : k0.toNat ≤ t.length
    · have hlt : ¬ t.length < k0.toNat := by omega
      simp [hle]
    · have hlt : t.length < k0.toNat := by omega
      refine ⟨fun _ => Or.inr ⟨k0, t, rfl, hlt⟩, fun _ => ?_⟩
      simp [hle]

theorem splitNonce_unchecked_panic_iff (n : Nat) (ed : Bytes) :
    splitNonce false n ed = .panic ↔ ed.length < n := by
  unfold splitNonce
  simp only [slice, sliceFrom]
  by_cases hle : n ≤ ed.length
  · have hlt : ¬ ed.length < n := by omega
    simp [hle, hlt]
  · have hlt : ed.length < n := by omega
    simp [hle, hlt]

/-- The checks only replace panics: where the unchecked cut does not panic, both agree. -/
theorem splitKey_conservative (b : Bytes) (h : splitKey false b ≠ .panic) :
    splitKey true b = splitKey false b := by
  cases b with
  | nil => simp [splitKey, index] at h
  | cons k0 t =>
    unfold splitKey at h ⊢
    simp only [Gen.Seal.guardEmpty, Gen.Seal.guardKeyBeyond, Gen.Seal.keyEndOffset, Gen.Seal.wrappedLo,
      Cmp.evalNat, index, slice, sliceFrom, List.length_cons] at h ⊢
    by_cases hle : k0.toNat ≤ t.length
    · have hlt : ¬ t.length < k0.toNat := by omega
      simp [hle, hlt]
    · have hlt : t.length < k0.toNat := by omega
      simp [hle] at h

theorem splitNonce_conservative (n : Nat) (ed : Bytes) (h : splitNonce false n ed ≠ .panic) :
    splitNonce true n ed = splitNonce false n ed := by
  unfold splitNonce at h ⊢
  simp only [Gen.Seal.guardNonceShort, Cmp.evalNat, slice, sliceFrom] at h ⊢
  by_cases hle : n ≤ ed.length
  · have hlt : ¬ ed.length < n := by omega
    simp [hle, hlt]
  · have hlt : ed.length < n := by omega
    simp [hle, hlt] at h

/-- Round trip of the read path on the honest stored form, for either variant. -/
theorem readWith_frame (chk : Bool) (c : Crypto) (w dek nonce p : Bytes)
    (hw : w.length < 256) (hu : c.unwrap w = some dek) (hk : c.keyOk dek = true)
    (hn : nonce.length = c.nonceSize)
    (ho : c.aeadOpen dek nonce (c.aeadSeal dek nonce p) = some p) :
    readWith chk c (frame w (nonce ++ c.aeadSeal dek nonce p)) = .ok p := by
  unfold readWith
  rw [splitKey_frame chk w _ hw]
  simp only [Res.bind_ok, hu]
  unfold decryptDataWith
  simp only [hk, Bool.not_true, Bool.false_eq_true, if_false]
  rw [splitNonce_append chk _ nonce _ hn]
  simp [ho]

/-- Shape of everything `sealData` returns. -/
theorem sealData_ok_inv (c : Crypto) (dek nonce p stored : Bytes)
    (h : sealData c dek nonce p = .ok stored) :
    c.keyOk dek = true ∧ ∃ w, c.wrap dek = some w ∧
      stored = frame w (nonce ++ c.aeadSeal dek nonce p) := by
  unfold sealData encryptData at h
  cases hk : c.keyOk dek with
  | false => simp [hk] at h
  | true =>
    simp only [hk, Bool.not_true, Bool.false_eq_true, if_false, Res.bind_ok] at h
    cases hw : c.wrap dek with
    | none => simp [hw] at h
    | some w =>
      simp only [hw] at h
      injection h with h
      exact ⟨rfl, w, rfl, h.symm⟩

/-- Everything the read path accepts decomposes into a wrapped key that unwraps, a nonce of
the right size and a ciphertext that opens to the returned value. -/
theorem readWith_ok_inv (chk : Bool) (c : Crypto) (b p : Bytes) (h : readWith chk c b = .ok p) :
    ∃ w dek nonce x, w.length < 256 ∧ c.unwrap w = some dek ∧ c.keyOk dek = true ∧
      nonce.length = c.nonceSize ∧ c.aeadOpen dek nonce x = some p ∧ b = frame w (nonce ++ x) := by
  unfold readWith at h
  cases hs : splitKey chk b with
  | panic => simp [hs] at h
  | err e => simp [hs] at h
  | ok wr =>
    obtain ⟨w, rest⟩ := wr
    simp only [hs, Res.bind_ok] at h
    obtain ⟨hwl, hb⟩ := splitKey_ok_inv chk b w rest hs
    cases hu : c.unwrap w with
    | none => simp [hu] at h
    | some dek =>
      simp only [hu] at h
      unfold decryptDataWith at h
      cases hk : c.keyOk dek with
      | false => simp [hk] at h
      | true =>
        simp only [hk, Bool.not_true, Bool.false_eq_true, if_false] at h
        cases hn : splitNonce chk c.nonceSize rest with
        | panic => simp [hn] at h
        | err e => simp [hn] at h
        | ok nx =>
          obtain ⟨nonce, x⟩ := nx
          simp only [hn, Res.bind_ok] at h
          obtain ⟨hnl, hrest⟩ := splitNonce_ok_inv chk _ rest nonce x hn
          cases ho : c.aeadOpen dek nonce x with
          | none => simp [ho] at h
          | some p' =>
            simp only [ho] at h
            injection h with h
            subst h
            exact ⟨w, dek, nonce, x, hwl, hu, hk, hnl, ho, by rw [hb, hrest]⟩

end Liftbridge.Seal
