/-
Helper lemmas about the seal / deliver pipeline (Model/SealPipe.lean), generic in the site
tables. The property theorems, instantiated with the regenerated tables, are in
Props/C17Pipe.lean. Core Lean only.
-/
import Liftbridge.Model.SealPipe

namespace Liftbridge.SealPipe
open Liftbridge

/-- A site with all three facts does exactly `Seal`: stores its result, drops on error. -/
theorem ingest_good (s : IngestSite) (h : (s.guarded && s.seals && s.errSkips) = true)
    (c : Codec) (r : Nat) (v : Bytes) : ingest s true c r v = c.doSeal r v := by
  simp only [Bool.and_eq_true] at h
  obtain ⟨⟨hg, hs⟩, he⟩ := h
  unfold ingest
  simp only [hg, hs, he, Bool.and_self, if_true]
  cases c.doSeal r v <;> rfl

/-- A site without the guard or without the replacement stores the value as received. -/
theorem ingest_unsealed (s : IngestSite) (h : (s.guarded && s.seals) = false)
    (enc : Bool) (c : Codec) (r : Nat) (v : Bytes) : ingest s enc c r v = some v := by
  unfold ingest
  rw [Bool.and_assoc, h]
  simp

/-- Without encryption every site stores the value as received. -/
theorem ingest_plain (s : IngestSite) (c : Codec) (r : Nat) (v : Bytes) :
    ingest s false c r v = some v := by
  simp [ingest]

theorem allSeal_mem {sites : List IngestSite} (h : allSeal sites = true) {s : IngestSite}
    (hs : s ∈ sites) : (s.guarded && s.seals && s.errSkips) = true := by
  unfold allSeal at h
  exact (List.all_eq_true.1 h) s hs

theorem allRead_mem {ds : List DeliverSite} (h : allRead ds = true) {d : DeliverSite}
    (hd : d ∈ ds) :
    d.guarded = true ∧ d.reads = true ∧ d.deliversRead = true ∧ d.errReports = true ∧ d.errEnds = true := by
  unfold allRead at h
  have := (List.all_eq_true.1 h) d hd
  simp only [Bool.and_eq_true] at this
  obtain ⟨⟨⟨⟨a, b⟩, c⟩, e⟩, f⟩ := this
  exact ⟨a, b, c, e, f⟩

/-- Every pair in the log of an encrypted partition whose sites all seal is
(published value, an output of `Seal` on that value), and the value was published. -/
theorem storePairs_sealed (sites : List IngestSite) (h : allSeal sites = true) (c : Codec) :
    ∀ (ps : List Pub) (r : Nat) (vx : Bytes × Bytes), vx ∈ storePairs sites true c r ps →
      (∃ r', c.doSeal r' vx.1 = some vx.2) ∧ ∃ p ∈ ps, p.value = vx.1 := by
  intro ps
  induction ps with
  | nil => intro r vx hvx; simp [storePairs] at hvx
  | cons p ps ih =>
    intro r vx hvx
    unfold storePairs at hvx
    cases hs : sites[p.site]? with
    | none =>
      simp only [hs] at hvx
      obtain ⟨a, q, hq, hv⟩ := ih _ _ hvx
      exact ⟨a, q, List.mem_cons_of_mem _ hq, hv⟩
    | some s =>
      simp only [hs] at hvx
      have hmem : s ∈ sites := List.mem_of_getElem? hs
      rw [ingest_good s (allSeal_mem h hmem)] at hvx
      cases hseal : c.doSeal r p.value with
      | none =>
        simp only [hseal] at hvx
        obtain ⟨a, q, hq, hv⟩ := ih _ _ hvx
        exact ⟨a, q, List.mem_cons_of_mem _ hq, hv⟩
      | some x =>
        simp only [hseal, List.mem_cons] at hvx
        rcases hvx with rfl | hvx
        · exact ⟨⟨r, hseal⟩, p, List.mem_cons_self, rfl⟩
        · obtain ⟨a, q, hq, hv⟩ := ih _ _ hvx
          exact ⟨a, q, List.mem_cons_of_mem _ hq, hv⟩

/-- When `Seal` never fails and every publish is taken at an existing site, nothing is lost on
the way into the log: the published values of the stored pairs are the published values. -/
theorem storePairs_complete (sites : List IngestSite) (h : allSeal sites = true) (c : Codec)
    (htotal : ∀ r v, (c.doSeal r v).isSome = true) :
    ∀ (ps : List Pub) (r : Nat), (∀ p ∈ ps, p.site < sites.length) →
      (storePairs sites true c r ps).map Prod.fst = ps.map Pub.value := by
  intro ps
  induction ps with
  | nil => intro r _; rfl
  | cons p ps ih =>
    intro r hsite
    have hp : p.site < sites.length := hsite p List.mem_cons_self
    have hs : sites[p.site]? = some sites[p.site] := List.getElem?_eq_getElem hp
    unfold storePairs
    simp only [hs]
    rw [ingest_good _ (allSeal_mem h (List.getElem_mem hp))]
    have := htotal r p.value
    cases hseal : c.doSeal r p.value with
    | none => simp [hseal] at this
    | some x =>
      simp only [List.map_cons]
      rw [ih (r + 1) (fun q hq => hsite q (List.mem_cons_of_mem _ hq))]

/-- One step of a read loop with all facts. -/
theorem deliverStep_good (d : DeliverSite)
    (h : d.guarded = true ∧ d.reads = true ∧ d.deliversRead = true ∧ d.errReports = true ∧ d.errEnds = true)
    (c : Codec) (s : Bytes) :
    deliverStep d true c s = match c.doRead s with
      | some p => .deliver p
      | none => .stop true := by
  obtain ⟨a, b, e, f, g⟩ := h
  unfold deliverStep
  simp only [a, b, e, f, g, Bool.and_self, if_true]
  cases c.doRead s <;> rfl

/-- A log whose values all decrypt is delivered completely, decrypted, in order, and the
subscription keeps waiting. -/
theorem subscribe_readable (d : DeliverSite)
    (h : d.guarded = true ∧ d.reads = true ∧ d.deliversRead = true ∧ d.errReports = true ∧ d.errEnds = true)
    (c : Codec) : ∀ (pairs : List (Bytes × Bytes)), (∀ vx ∈ pairs, c.doRead vx.2 = some vx.1) →
      subscribe d true c (pairs.map Prod.snd) = ⟨pairs.map Prod.fst, .waiting⟩ := by
  intro pairs
  induction pairs with
  | nil => intro _; rfl
  | cons vx rest ih =>
    intro hr
    have h1 := hr vx List.mem_cons_self
    have h2 := ih (fun y hy => hr y (List.mem_cons_of_mem _ hy))
    simp only [List.map_cons, subscribe]
    rw [deliverStep_good d h, h1]
    simp only [h2]

/-- The first value that does not decrypt ends the subscription with an error status: what
came before is delivered, nothing of what follows. -/
theorem subscribe_bad (d : DeliverSite)
    (h : d.guarded = true ∧ d.reads = true ∧ d.deliversRead = true ∧ d.errReports = true ∧ d.errEnds = true)
    (c : Codec) (bad : Bytes) (post : List Bytes) (hbad : c.doRead bad = none) :
    ∀ (pre : List (Bytes × Bytes)), (∀ vx ∈ pre, c.doRead vx.2 = some vx.1) →
      subscribe d true c (pre.map Prod.snd ++ bad :: post) = ⟨pre.map Prod.fst, .error⟩ := by
  intro pre
  induction pre with
  | nil =>
    intro _
    simp only [List.map_nil, List.nil_append, subscribe]
    rw [deliverStep_good d h, hbad]
    rfl
  | cons vx rest ih =>
    intro hr
    have h1 := hr vx List.mem_cons_self
    have h2 := ih (fun y hy => hr y (List.mem_cons_of_mem _ hy))
    simp only [List.map_cons, List.cons_append, subscribe]
    rw [deliverStep_good d h, h1]
    simp only [h2]

/-- For ANY log: the subscriber gets the decryptions of a prefix of the log, one per stored
value and in order; either that prefix is the whole log and the subscription is still waiting,
or the value right after it does not decrypt and the subscription ended with an error. Never a
gap, never a silent end. -/
theorem subscribe_prefix (d : DeliverSite)
    (h : d.guarded = true ∧ d.reads = true ∧ d.deliversRead = true ∧ d.errReports = true ∧ d.errEnds = true)
    (c : Codec) : ∀ (log : List Bytes), ∃ k, k ≤ log.length ∧
      (subscribe d true c log).delivered.map some = (log.take k).map c.doRead ∧
      (((subscribe d true c log).ending = .waiting ∧ k = log.length) ∨
       ((subscribe d true c log).ending = .error ∧ ∃ hk : k < log.length, c.doRead log[k] = none)) := by
  intro log
  induction log with
  | nil => exact ⟨0, Nat.le_refl _, rfl, Or.inl ⟨rfl, rfl⟩⟩
  | cons s rest ih =>
    cases hs : c.doRead s with
    | none =>
      refine ⟨0, Nat.zero_le _, ?_, Or.inr ⟨?_, by simp, by simpa using hs⟩⟩
      · simp only [subscribe]
        rw [deliverStep_good d h, hs]
        rfl
      · simp only [subscribe]
        rw [deliverStep_good d h, hs]
        rfl
    | some p =>
      obtain ⟨k, hk, hdel, hend⟩ := ih
      have hsub : subscribe d true c (s :: rest) =
          ⟨p :: (subscribe d true c rest).delivered, (subscribe d true c rest).ending⟩ := by
        simp only [subscribe]
        rw [deliverStep_good d h, hs]
      refine ⟨k + 1, by simpa using hk, ?_, ?_⟩
      · rw [hsub]
        simp only [List.map_cons, List.take_succ_cons, hs, hdel]
      · rw [hsub]
        rcases hend with ⟨he, hk'⟩ | ⟨he, hk', hb⟩
        · exact Or.inl ⟨he, by simp [hk']⟩
        · exact Or.inr ⟨he, by simpa using hk', by simpa using hb⟩

/-- A read loop that does not leave on a `Read` error drops the unreadable value and goes on as
if it had never been stored (why `errEnds` matters). -/
theorem subscribe_skips (d : DeliverSite) (hg : d.guarded = true) (he : d.errEnds = false)
    (c : Codec) (bad : Bytes) (post : List Bytes) (hbad : c.doRead bad = none) :
    subscribe d true c (bad :: post) = subscribe d true c post := by
  simp [subscribe, deliverStep, hg, he, hbad]

end Liftbridge.SealPipe
