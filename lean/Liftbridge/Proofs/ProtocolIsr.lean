/-
ISR membership and the term fence of follower fetches (C02): what `replicator.tick` decides —
through the REGENERATED decision `Gen.Protocol.tickOutOfSync` and the regenerated action table —,
when the "caught up" flag is refreshed, what a follower's fetch carries and which fetches the
leader drops (`Gen.Protocol.replReqReject`), and the invariant that a following server's leader
epoch is positive (it is the index of a Raft log entry), over ALL steps of the model.
-/
import Liftbridge.Model.Protocol
import Liftbridge.Proofs.Protocol
import Liftbridge.Proofs.ProtocolInv

namespace Liftbridge.Proofs.Protocol
open Liftbridge Liftbridge.Log Liftbridge.Log.CLog Liftbridge.Protocol Liftbridge.Proofs.Log

/-! ### `replicator.tick` -/

/-- The regenerated `outOfSync` decision, read back: a replica is out of sync iff it was not seen
OR was not caught up within max lag time. -/
theorem outOfSync_eq (sv : Srv) (r : Sid) :
    outOfSync sv r = (!sv.seen.contains r || (lookup sv.caughtUp r).isNone) := by
  unfold outOfSync
  cases h1 : sv.seen.contains r <;> cases h2 : lookup sv.caughtUp r <;>
    simp [Gen.Protocol.tickOutOfSync, BExp.eval, Cmp.evalInt, lagOf]

/-- `tick` proposes the re-entry of `r` only if `r` is recorded as caught up within max lag time
(and is not in the leader's ISR view). -/
theorem tickExpands_caughtUp {sv : Srv} {r : Sid} (h : tickExpands sv r = true) :
    (∃ v, lookup sv.caughtUp r = some v) ∧ sv.seen.contains r = true ∧ (keys sv.isrOff).contains r = false := by
  unfold tickExpands at h
  rw [outOfSync_eq] at h
  simp only [Gen.Protocol.tickExpandWhen, List.contains_cons, List.contains_nil, Bool.or_false, beq_iff_eq,
    Prod.mk.injEq] at h
  obtain ⟨h1, h2⟩ := h
  refine ⟨?_, ?_, h2⟩
  · generalize sv.seen.contains r = a at h1
    generalize lookup sv.caughtUp r = b at h1 ⊢
    cases a <;> cases b <;> simp at h1 ⊢
  · generalize sv.seen.contains r = a at h1 ⊢
    generalize lookup sv.caughtUp r = b at h1
    cases a <;> cases b <;> simp at h1 ⊢

/-- `tick` proposes the removal of `r` only if `r` is in the ISR and was not caught up (or not even
seen) within max lag time. -/
theorem tickShrinks_spec {sv : Srv} {r : Sid} (h : tickShrinks sv r = true) :
    (sv.seen.contains r = false ∨ lookup sv.caughtUp r = none) ∧ (keys sv.isrOff).contains r = true := by
  unfold tickShrinks at h
  rw [outOfSync_eq] at h
  simp only [Gen.Protocol.tickShrinkWhen, List.contains_cons, List.contains_nil, Bool.or_false, beq_iff_eq,
    Prod.mk.injEq] at h
  obtain ⟨h1, h2⟩ := h
  refine ⟨?_, h2⟩
  generalize sv.seen.contains r = a at h1 ⊢
  generalize lookup sv.caughtUp r = b at h1 ⊢
  cases a <;> cases b <;> simp at h1 ⊢

/-- The expand proposal, taken apart. -/
theorem step_expand {c : Cfg} {st st' : State} {l r : Sid} (h : step c st (.expandDecision l r) = some st') :
    ∃ sv v, st.get l = some sv ∧ isLeaderUp sv = true ∧ r ≠ l ∧ r < c.n ∧ (keys sv.isrOff).contains r = false ∧
      lookup sv.caughtUp r = some v ∧ (c.fixes.expandNow = true → sv.log.hw ≤ v) ∧
      st' = { st with proposed := st.proposed ++ [.expand r] } := by
  simp only [step, Option.bind_eq_bind, Option.bind_eq_some_iff, Option.pure_def] at h
  obtain ⟨sv, hsv, h⟩ := h
  split at h
  · cases h
  · split at h
    · cases h
    · rename_i hg
      simp only [Bool.or_eq_true, Bool.not_eq_true', decide_eq_true_eq, not_or, Bool.not_eq_false,
        decide_eq_false_iff_not, Decidable.not_not] at hg
      obtain ⟨⟨⟨hl, hrl⟩, hrn⟩, hte⟩ := hg
      obtain ⟨⟨v, hv⟩, _, hin⟩ := tickExpands_caughtUp hte
      simp only [hv, Option.getD_some] at h
      split at h
      · cases h
      · rename_i hx
        split at h
        · cases h
        · simp only [Option.some.injEq] at h
          refine ⟨sv, v, hsv, by simpa using hl, hrl, hrn, hin, hv, ?_, h.symm⟩
          intro hfix
          simp only [hfix, Bool.true_and, decide_eq_true_eq, Int.not_lt] at hx
          exact hx

/-! ### the "caught up" flag is refreshed only at the leader's log end -/

theorem serveStep_caughtUp (c : Cfg) (sv : Srv) (src : Sid) (off : Int) (ep rid : Nat) (x : Sid) (w : Int)
    (h : lookup (serveStep c sv src off ep rid).1.caughtUp x = some w) :
    lookup sv.caughtUp x = some w ∨ (x = src ∧ w = off ∧ sv.log.newest ≤ off) := by
  unfold serveStep at h
  split at h
  · exact Or.inl h
  · split at h
    · exact Or.inl h
    · simp only at h
      split at h
      · rename_i hcu
        simp only [Gen.Protocol.caughtUpCmp, Cmp.evalInt, decide_eq_true_eq, ge_iff_le] at hcu
        rcases lookup_mSet _ _ _ _ _ h with ⟨h1, h2⟩ | h
        · exact Or.inr ⟨h1, h2, hcu⟩
        · exact Or.inl h
      · simp only [Gen.Protocol.caughtUpGuarded, if_true] at h
        exact Or.inl h

/-! ### the follower's fetch and the leader's term fence -/

/-- The regenerated term fence, read back: a request is dropped iff it names a non-zero leader
epoch other than the leader's own. -/
theorem rejectFetch_iff (e le : Nat) : rejectFetch e le = true ↔ e ≠ 0 ∧ e ≠ le := by
  simp only [rejectFetch, Gen.Protocol.replReqReject, BExp.eval, Cmp.evalInt, if_true, Bool.and_eq_true,
    decide_eq_true_eq, ne_eq]
  constructor
  · intro ⟨h1, h2⟩; exact ⟨by omega, by simp at h2; omega⟩
  · intro ⟨h1, h2⟩; exact ⟨by omega, by simp; omega⟩

/-- A fetch that names another (non-zero) leader epoch changes NOTHING on the leader and is not
answered. -/
theorem serveStep_other_term (c : Cfg) (sv : Srv) (src : Sid) (off : Int) (ep rid : Nat)
    (h0 : ep ≠ 0) (hne : ep ≠ sv.leaderEpoch) : serveStep c sv src off ep rid = (sv, []) := by
  unfold serveStep
  rw [if_pos ((rejectFetch_iff ep sv.leaderEpoch).mpr ⟨h0, hne⟩)]

/-- The fetch step, taken apart: the request carries the follower's newest offset and the leader
epoch the follower follows. -/
theorem step_fetch {c : Cfg} {st st' : State} {f : Sid} (h : step c st (.fetch f) = some st') :
    ∃ sv, st.get f = some sv ∧ sv.up = true ∧ sv.role = .follower ∧
      st'.net = st.net ++ [.replReq f sv.log.newest sv.leaderEpoch (sv.rid + 1)] ∧ st'.acks = st.acks := by
  simp only [step, Option.bind_eq_bind, Option.bind_eq_some_iff, Option.pure_def] at h
  obtain ⟨sv, hsv, h⟩ := h
  split at h
  · cases h
  · rename_i hg
    simp only [Bool.and_eq_true, decide_eq_true_eq, Bool.not_eq_true', Bool.not_eq_false] at hg
    simp only [Option.some.injEq] at h
    subst h
    refine ⟨sv, hsv, ?_, ?_, ?_, rfl⟩
    · simpa using hg.1
    · simpa using hg.2
    · simp [fetchFieldsOf, Gen.Protocol.fetchOffsetIsNewest, Gen.Protocol.fetchCarriesEpoch]

/-- The serve step, taken apart. -/
theorem step_serve {c : Cfg} {st st' : State} {l : Sid} {m : Net} (h : step c st (.serve l m) = some st') :
    ∃ sv src off ep rid, st.get l = some sv ∧ isLeaderUp sv = true ∧ m = .replReq src off ep rid ∧ m ∈ st.net ∧
      st' = { (st.set l (serveStep c sv src off ep rid).1) with
              net := removeFirst st.net m ++ (serveStep c sv src off ep rid).2 } := by
  simp only [step, Option.bind_eq_bind, Option.bind_eq_some_iff, Option.pure_def] at h
  obtain ⟨sv, hsv, h⟩ := h
  split at h
  · cases h
  · rename_i hc
    simp only [Bool.or_eq_true, Bool.not_eq_true', not_or, Bool.not_eq_false] at hc
    split at h
    · rename_i src off ep rid
      simp only [Option.some.injEq] at h
      exact ⟨sv, src, off, ep, rid, hsv, hc.1, rfl, by simpa using hc.2, h.symm⟩
    all_goals cases h

/-! ### a server that follows (or leads) has a positive leader epoch — over ALL steps -/

/-- A partition object exists whenever the server plays a role, and its leader epoch is the index
(1-based) of the Raft entry that set it. -/
def Good (sv : Srv) : Prop := (sv.role ≠ .idle → sv.hasPart = true) ∧ (sv.hasPart = true → 1 ≤ sv.leaderEpoch)

def EpInv (st : State) : Prop := ∀ s sv, st.get s = some sv → Good sv

theorem Good.of_frame {sv sv' : Srv} (h : Good sv) (hr : sv'.role = sv.role) (hp : sv'.hasPart = sv.hasPart)
    (he : sv'.leaderEpoch = sv.leaderEpoch) : Good sv' := by
  unfold Good; rw [hr, hp, he]; exact h

theorem epInv_set {st : State} (J : EpInv st) (i : Sid) {sv' : Srv} (h : Good sv') : EpInv (st.set i sv') := by
  intro s x hs
  by_cases hsi : s = i
  · subst hsi
    simp only [State.get, State.set, List.getElem?_set] at hs
    split at hs
    · split at hs
      · cases hs; exact h
      · cases hs
    · exact J s x hs
  · rw [get_set_ne sv' hsi] at hs; exact J s x hs

theorem stop_frame (sv : Srv) : sv.stop.hasPart = sv.hasPart ∧ sv.stop.leaderEpoch = sv.leaderEpoch := by
  unfold Srv.stop; split <;> exact ⟨rfl, rfl⟩

theorem startRole_good (c : Cfg) (me : Sid) (sv : Srv) (hp : sv.hasPart = true) (he : 1 ≤ sv.leaderEpoch) :
    Good (startRole c me sv).1 := by
  obtain ⟨h1, h2⟩ := stop_frame sv
  unfold startRole
  split
  · unfold becomeLeader
    exact ⟨fun _ => by simp only; rw [h1]; exact hp, fun _ => by simp only; rw [h2]; exact he⟩
  · unfold becomeFollower
    exact ⟨fun _ => by simp only; rw [h1]; exact hp, fun _ => by simp only; rw [h2]; exact he⟩

theorem applyOp_good (c : Cfg) (me : Sid) (sv : Srv) (idx : Nat) (op : MetaOp) (rec : Bool) (h : Good sv)
    (hi : 1 ≤ idx) : Good (applyOp c me sv idx op rec).1 := by
  cases op with
  | create l =>
    simp only [applyOp]
    split
    · exact ⟨fun _ => rfl, fun _ => hi⟩
    · exact startRole_good c me _ rfl hi
  | shrink r =>
    simp only [applyOp]
    split
    · exact h.of_frame rfl rfl rfl
    · exact h.of_frame rfl rfl rfl
  | expand r =>
    simp only [applyOp]
    split
    · exact h.of_frame rfl rfl rfl
    · exact h.of_frame rfl rfl rfl
  | changeLeader l =>
    simp only [applyOp]
    split
    · exact h.of_frame rfl rfl rfl
    · rename_i hp
      simp only [Bool.not_eq_true', Bool.not_eq_false] at hp
      have hp' : sv.hasPart = true := by simpa using hp
      split
      · exact h.of_frame rfl rfl rfl
      · split
        · exact ⟨fun _ => hp', fun _ => hi⟩
        · exact startRole_good c me _ hp' hi

theorem replay_good (c : Cfg) (me : Sid) (ops : List MetaOp) : ∀ (fuel idx : Nat) (sv : Srv), Good sv → 1 ≤ idx →
    Good (replay c me ops fuel idx sv) := by
  intro fuel
  induction fuel with
  | zero => intro idx sv h _; exact h
  | succ n ih =>
    intro idx sv h hi
    simp only [replay]
    split
    · exact h
    · exact ih (idx + 1) _ (applyOp_good c me sv idx _ true h hi) (by omega)

theorem publishStep_frame {c : Cfg} {me : Sid} {sv sv' : Srv} {b : List PubMsg} {acks : List Ack}
    (h : publishStep c me sv b = some (sv', acks)) :
    sv'.role = sv.role ∧ sv'.hasPart = sv.hasPart ∧ sv'.leaderEpoch = sv.leaderEpoch := by
  unfold publishStep at h
  simp only at h
  generalize screen me sv.leaderEpoch b = sc at h
  obtain ⟨okMsgs, nacks⟩ := sc
  simp only at h
  repeat' (split at h)
  all_goals first
    | (cases h; done)
    | (simp only [Option.some.injEq, Prod.mk.injEq] at h; rw [← h.1]; exact ⟨rfl, rfl, rfl⟩)

theorem commitStep_frame (c : Cfg) (sv : Srv) :
    (commitStep c sv).1.role = sv.role ∧ (commitStep c sv).1.hasPart = sv.hasPart ∧
    (commitStep c sv).1.leaderEpoch = sv.leaderEpoch := by
  unfold commitStep; simp only; split <;> exact ⟨rfl, rfl, rfl⟩

theorem serveStep_frame (c : Cfg) (sv : Srv) (src : Sid) (off : Int) (ep rid : Nat) :
    (serveStep c sv src off ep rid).1.role = sv.role ∧ (serveStep c sv src off ep rid).1.hasPart = sv.hasPart ∧
    (serveStep c sv src off ep rid).1.leaderEpoch = sv.leaderEpoch := by
  unfold serveStep
  split
  · exact ⟨rfl, rfl, rfl⟩
  · split
    · exact ⟨rfl, rfl, rfl⟩
    · simp only; split <;> exact ⟨rfl, rfl, rfl⟩

theorem applyRespStep_frame (sv : Srv) (ep : Nat) (hw : Int) (recs : List Rec) :
    (applyRespStep sv ep hw recs).role = sv.role ∧ (applyRespStep sv ep hw recs).hasPart = sv.hasPart ∧
    (applyRespStep sv ep hw recs).leaderEpoch = sv.leaderEpoch := by
  rw [applyRespStep_eq_core]
  generalize (fun (l : CLog) => if Gen.Protocol.followerHwCapped then (if hw < l.newest then hw else l.newest) else hw) = cap
  generalize Gen.Protocol.followerHwCapped = again
  unfold applyRespCore
  split
  · exact ⟨rfl, rfl, rfl⟩
  · split
    · exact ⟨rfl, rfl, rfl⟩
    · simp only
      generalize cap sv.log = x
      split
      · exact ⟨rfl, rfl, rfl⟩
      · split
        · exact ⟨rfl, rfl, rfl⟩
        · split <;> exact ⟨rfl, rfl, rfl⟩

theorem epInv_step (c : Cfg) (st st' : State) (s : Step) (J : EpInv st) (h : step c st s = some st') : EpInv st' := by
  cases s with
  | publish l b =>
    obtain ⟨sv, sv', as, hsv, _, hp, hst⟩ := step_publish h
    subst hst
    obtain ⟨h1, h2, h3⟩ := publishStep_frame hp
    exact epInv_set J l ((J l sv hsv).of_frame h1 h2 h3)
  | commit l =>
    obtain ⟨sv, hsv, _, _, hst⟩ := step_commit h
    subst hst
    obtain ⟨h1, h2, h3⟩ := commitStep_frame c sv
    exact epInv_set J l ((J l sv hsv).of_frame h1 h2 h3)
  | serve l m =>
    obtain ⟨sv, src, off, ep, rid, hsv, _, _, _, hst⟩ := step_serve h
    subst hst
    obtain ⟨h1, h2, h3⟩ := serveStep_frame c sv src off ep rid
    exact epInv_set J l ((J l sv hsv).of_frame h1 h2 h3)
  | fetch f =>
    simp only [step, Option.bind_eq_bind, Option.bind_eq_some_iff, Option.pure_def] at h
    obtain ⟨sv, hsv, h⟩ := h
    split at h
    · cases h
    · simp only [Option.some.injEq] at h
      subst h
      exact epInv_set J f ((J f sv hsv).of_frame rfl rfl rfl)
  | applyResp f m =>
    simp only [step, Option.bind_eq_bind, Option.bind_eq_some_iff, Option.pure_def] at h
    obtain ⟨sv, hsv, h⟩ := h
    split at h
    · cases h
    · rename_i hc
      split at h
      · rename_i dst rid ep hw recs
        split at h
        · cases h
        · simp only [Option.some.injEq] at h
          subst h
          obtain ⟨h1, h2, h3⟩ := applyRespStep_frame sv ep hw recs
          exact epInv_set J f ((J f sv hsv).of_frame h1 h2 h3)
      all_goals cases h
  | drop m =>
    simp only [step] at h
    split at h
    · simp only [Option.some.injEq] at h; subst h; exact J
    · cases h
  | shrinkDecision l r =>
    simp only [step, Option.bind_eq_bind, Option.bind_eq_some_iff, Option.pure_def] at h
    obtain ⟨sv, _, h⟩ := h
    repeat' (split at h)
    all_goals first
      | (cases h; done)
      | (simp only [Option.some.injEq] at h; subst h; exact J)
  | expandDecision l r =>
    obtain ⟨_, _, _, _, _, _, _, _, _, hst⟩ := step_expand h
    subst hst; exact J
  | clearCaughtUp l r =>
    simp only [step, Option.bind_eq_bind, Option.bind_eq_some_iff, Option.pure_def] at h
    obtain ⟨sv, hsv, h⟩ := h
    split at h
    · cases h
    · simp only [Option.some.injEq] at h
      subst h
      exact epInv_set J l ((J l sv hsv).of_frame rfl rfl rfl)
  | clearSeen l r =>
    simp only [step, Option.bind_eq_bind, Option.bind_eq_some_iff, Option.pure_def] at h
    obtain ⟨sv, hsv, h⟩ := h
    split at h
    · cases h
    · simp only [Option.some.injEq] at h
      subst h
      exact epInv_set J l ((J l sv hsv).of_frame rfl rfl rfl)
  | electDecision cand =>
    simp only [step] at h
    repeat' (split at h)
    all_goals first
      | (cases h; done)
      | (simp only [Option.some.injEq] at h; subst h; exact J)
  | raftCommit op =>
    simp only [step] at h
    repeat' (split at h)
    all_goals first
      | (cases h; done)
      | (simp only [Option.some.injEq] at h; subst h; exact J)
  | offServe l m =>
    simp only [step, Option.bind_eq_bind, Option.bind_eq_some_iff, Option.pure_def] at h
    obtain ⟨sv, hsv, h⟩ := h
    repeat' (split at h)
    all_goals first
      | (cases h; done)
      | (simp only [Option.some.injEq] at h; subst h; exact J)
  | applyNext s =>
    simp only [step, Option.bind_eq_bind, Option.bind_eq_some_iff, Option.pure_def] at h
    obtain ⟨sv, hsv, h⟩ := h
    split at h
    · cases h
    · cases hop : st.committed[sv.applied]? with
      | none => rw [hop] at h; simp at h
      | some op =>
        rw [hop] at h
        simp only [Option.bind_some, Option.some.injEq] at h
        subst h
        exact epInv_set J s (applyOp_good c s sv (sv.applied + 1) op false (J s sv hsv) (by omega))
  | reconcile f m =>
    simp only [step, Option.bind_eq_bind, Option.bind_eq_some_iff, Option.pure_def] at h
    obtain ⟨sv, hsv, h⟩ := h
    split at h
    · cases h
    · rename_i hc
      simp only [Bool.or_eq_true, not_or, Bool.not_eq_false, ne_eq,
        decide_not, Bool.not_eq_eq_eq_not, Bool.not_true, decide_eq_false_iff_not, Decidable.not_not] at hc
      split at h
      · split at h
        · cases h
        · simp only [Option.some.injEq] at h
          subst h
          have g := J f sv hsv
          have hp : sv.hasPart = true := g.1 (by rw [hc.1.2]; decide)
          exact epInv_set J f ⟨fun _ => hp, fun _ => g.2 hp⟩
      all_goals cases h
  | reconcileFail f =>
    simp only [step, Option.bind_eq_bind, Option.bind_eq_some_iff, Option.pure_def] at h
    obtain ⟨sv, hsv, h⟩ := h
    split at h
    · cases h
    · rename_i hc
      simp only [Bool.or_eq_true, not_or, Bool.not_eq_false, ne_eq,
        decide_not, Bool.not_eq_eq_eq_not, Bool.not_true, decide_eq_false_iff_not, Decidable.not_not] at hc
      simp only [Option.some.injEq] at h
      subst h
      have g := J f sv hsv
      have hp : sv.hasPart = true := g.1 (by rw [hc.1.1.2]; decide)
      exact epInv_set J f ⟨fun _ => hp, fun _ => g.2 hp⟩
  | crash s =>
    simp only [step, Option.bind_eq_bind, Option.bind_eq_some_iff, Option.pure_def] at h
    obtain ⟨sv, hsv, h⟩ := h
    split at h
    · cases h
    · simp only [Option.some.injEq] at h
      subst h
      exact epInv_set J s ⟨fun hr => absurd rfl hr, fun hp => by cases hp⟩
  | restart s upTo =>
    simp only [step, Option.bind_eq_bind, Option.bind_eq_some_iff, Option.pure_def] at h
    obtain ⟨sv, hsv, h⟩ := h
    split at h
    · cases h
    · have g0 : Good ({ up := true, log := sv.log.reopen, rid := sv.rid } : Srv) :=
        ⟨fun hr => absurd rfl hr, fun hp => by cases hp⟩
      have g1 := replay_good c s st.committed upTo 1 _ g0 (Nat.le_refl 1)
      split at h
      · rename_i hp
        simp only [Option.some.injEq] at h
        subst h
        have g2 := startRole_good c s _ hp (g1.2 hp)
        exact epInv_set J s (g2.of_frame rfl rfl rfl)
      · simp only [Option.some.injEq] at h
        subst h
        exact epInv_set J s (g1.of_frame rfl rfl rfl)

theorem epInv_init (c : Cfg) : EpInv (Protocol.init c) := by
  intro s sv h
  simp only [State.get, Protocol.init] at h
  have := (List.mem_replicate.mp (List.mem_of_getElem? h)).2
  subst this
  exact ⟨fun hr => absurd rfl hr, fun hp => by cases hp⟩

theorem epInv_run (c : Cfg) : ∀ (steps : List Step) (st st' : State), EpInv st → run c st steps = some st' → EpInv st' := by
  intro steps
  induction steps with
  | nil => intro st st' J h; simp only [run, Option.some.injEq] at h; subst h; exact J
  | cons s ss ih =>
    intro st st' J h
    simp only [run, Option.bind_eq_some_iff] at h
    obtain ⟨st1, h1, h2⟩ := h
    exact ih st1 st' (epInv_step c st st1 s J h1) h2

theorem epInv_reachable {c : Cfg} {st : State} (h : Reachable c st) : EpInv st := by
  obtain ⟨steps, hs⟩ := h
  exact epInv_run c steps _ _ (epInv_init c) hs

/-! ### who can be elected: the controller's ISR, which grows only by committed expand proposals,
which only a leader's `tick` makes -/

theorem step_elect {c : Cfg} {st st' : State} {cand : Sid} (h : step c st (.electDecision cand) = some st') :
    cand ∈ (metaView c.n st.committed).isr ∧ cand ≠ (metaView c.n st.committed).leader ∧
    st' = { st with proposed := st.proposed ++ [.changeLeader cand] } := by
  simp only [step] at h
  split at h
  · cases h
  · split at h
    · cases h
    · split at h
      · cases h
      · rename_i hc
        simp only [Bool.or_eq_true, decide_eq_true_eq, Bool.not_eq_true', not_or, Bool.not_eq_false,
          List.contains_iff_mem] at hc
        simp only [Option.some.injEq] at h
        exact ⟨by simpa using hc.2, hc.1, h.symm⟩

theorem metaFrom_append (n : Nat) : ∀ (ops : List MetaOp) (v : MetaView) (idx : Nat) (op : MetaOp),
    metaFrom n v idx (ops ++ [op]) = (metaFrom n v idx ops).apply n (idx + ops.length) op := by
  intro ops
  induction ops with
  | nil => intro v idx op; simp [metaFrom]
  | cons o os ih =>
    intro v idx op
    simp only [List.cons_append, metaFrom, List.length_cons]
    rw [ih]
    congr 1
    omega

theorem mem_sInsert {xs : List Sid} {x r : Sid} (h : r ∈ sInsert xs x) : r ∈ xs ∨ r = x := by
  unfold sInsert at h
  split at h
  · exact Or.inl h
  · simp only [List.append_assoc, List.cons_append, List.nil_append, List.mem_append, List.mem_filter,
      List.mem_cons] at h
    rcases h with h | h | h
    · exact Or.inl h.1
    · exact Or.inr h
    · exact Or.inl h.1

/-- The controller's ISR gains a member only by a committed `ExpandISR` of that member (or the
creation of the partition). -/
theorem isr_grows_only_by_expand (n : Nat) (ops : List MetaOp) (op : MetaOp) (r : Sid)
    (h : r ∈ (metaView n (ops ++ [op])).isr) :
    r ∈ (metaView n ops).isr ∨ op = .expand r ∨ ∃ l, op = .create l := by
  unfold metaView at h ⊢
  rw [metaFrom_append] at h
  cases op with
  | create l => exact Or.inr (Or.inr ⟨l, rfl⟩)
  | shrink x =>
    simp only [MetaView.apply, List.mem_filter] at h
    exact Or.inl h.1
  | expand x =>
    simp only [MetaView.apply] at h
    rcases mem_sInsert h with h | h
    · exact Or.inl h
    · exact Or.inr (Or.inl (by rw [h]))
  | changeLeader l =>
    simp only [MetaView.apply] at h
    exact Or.inl h

theorem step_proposed_other {c : Cfg} {st st' : State} {s : Step} (h : step c st s = some st')
    (h1 : ∀ l r, s ≠ .shrinkDecision l r) (h2 : ∀ l r, s ≠ .expandDecision l r) (h3 : ∀ x, s ≠ .electDecision x)
    (h4 : ∀ op, s ≠ .raftCommit op) : st'.proposed = st.proposed := by
  cases s with
  | shrinkDecision l r => exact absurd rfl (h1 l r)
  | expandDecision l r => exact absurd rfl (h2 l r)
  | electDecision x => exact absurd rfl (h3 x)
  | raftCommit op => exact absurd rfl (h4 op)
  | publish l b =>
    obtain ⟨_, _, _, _, _, _, hst⟩ := step_publish h
    subst hst; rfl
  | commit l =>
    obtain ⟨_, _, _, _, hst⟩ := step_commit h
    subst hst; rfl
  | _ =>
    simp only [step, Option.bind_eq_bind, Option.bind_eq_some_iff, Option.pure_def] at h
    first
      | (obtain ⟨sv, hsv, h⟩ := h
         first
          | (obtain ⟨op, hop, h⟩ := h; finish_acks h)
          | finish_acks h)
      | finish_acks h

/-- An `ExpandISR r` proposal is only ever made by the `tick` of a leader (`expandDecision`). -/
theorem step_proposed_expand {c : Cfg} {st st' : State} {s : Step} {r : Sid} (h : step c st s = some st')
    (hm : MetaOp.expand r ∈ st'.proposed) : MetaOp.expand r ∈ st.proposed ∨ ∃ l, s = .expandDecision l r := by
  by_cases hx : (∀ l r, s ≠ .shrinkDecision l r) ∧ (∀ l r, s ≠ .expandDecision l r) ∧ (∀ x, s ≠ .electDecision x) ∧
      (∀ op, s ≠ .raftCommit op)
  · rw [step_proposed_other h hx.1 hx.2.1 hx.2.2.1 hx.2.2.2] at hm
    exact Or.inl hm
  · cases s with
    | shrinkDecision l x =>
      simp only [step, Option.bind_eq_bind, Option.bind_eq_some_iff, Option.pure_def] at h
      obtain ⟨sv, _, h⟩ := h
      repeat' (split at h)
      all_goals first
        | (cases h; done)
        | (simp only [Option.some.injEq] at h; subst h
           simp only [List.mem_append, List.mem_singleton] at hm
           rcases hm with hm | hm
           · exact Or.inl hm
           · cases hm)
    | expandDecision l x =>
      obtain ⟨_, _, _, _, _, _, _, _, _, hst⟩ := step_expand h
      subst hst
      simp only [List.mem_append, List.mem_singleton, MetaOp.expand.injEq] at hm
      rcases hm with hm | hm
      · exact Or.inl hm
      · exact Or.inr ⟨l, by rw [hm]⟩
    | electDecision x =>
      obtain ⟨_, _, hst⟩ := step_elect h
      subst hst
      simp only [List.mem_append, List.mem_singleton] at hm
      rcases hm with hm | hm
      · exact Or.inl hm
      · cases hm
    | raftCommit op =>
      simp only [step] at h
      repeat' (split at h)
      all_goals first
        | (cases h; done)
        | (simp only [Option.some.injEq] at h; subst h; exact Or.inl (mem_removeFirst hm))
        | (simp only [Option.some.injEq] at h; subst h; exact Or.inl hm)
    | _ => exact absurd ⟨by intros; simp, by intros; simp, by intros; simp, by intros; simp⟩ hx

end Liftbridge.Proofs.Protocol
