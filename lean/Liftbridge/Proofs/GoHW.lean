/-
Helper lemmas for Props/GoHW.lean: the waking loop of `notifyHWChange` / `notifyReadonly`

    for r, ch := range l.hwWaiters { ch <- b; delete(l.hwWaiters, r) }

as an explicit state transformer, for every waiter map. (Deleting the entry being visited from the map a `range`
iterates over is well defined in Go: every entry present at the start and not deleted before it is reached is
visited once; the embedding iterates over the entries as they were when the loop started - the same thing here,
since an iteration only deletes its own entry.)
-/
import Liftbridge.Proofs.GoCodeBase
import Liftbridge.Gen.GoHW

namespace Liftbridge.Props.GoHW
open Liftbridge Liftbridge.GoMini Liftbridge.GoCode
open Liftbridge.Gen.GoHW

/-- the loop body, for the verdict `b` sent to every waiter -/
def wakeBody (b : Bool) : List Stmt :=
  [(.expr (.call "chan.send" [(.var "ch"), (.bool b)])),
   (.assign [(.sel (.var "l") "hwWaiters")] [(.call "mapDelete" [(.sel (.var "l") "hwWaiters"), (.var "r")])])]

/-- erase the keys of `ws` from `cur`, one after the other -/
def eraseAll : List (String × Val) → List (String × Val) → List (String × Val)
  | [], cur => cur
  | (k, _) :: rest, cur => eraseAll rest (eraseKey k cur)

/-- the sends of the loop, in iteration order -/
def sends (b : Bool) (ws : List (String × Val)) : List (String × List Val) :=
  ws.map fun e => ("chan.send", [e.2, .bool b])

theorem update_update (k : String) (v1 v2 : Val) : ∀ fs : List (String × Val), update k v2 (update k v1 fs) = update k v2 fs := by
  intro fs
  induction fs with
  | nil => simp [update]
  | cons a rest ih =>
    obtain ⟨a1, a2⟩ := a
    by_cases h : k = a1 <;> simp [update, h, ih]

theorem lookup_update_same (k : String) (v : Val) : ∀ fs : List (String × Val), lookup k (update k v fs) = some v := by
  intro fs
  induction fs with
  | nil => simp [update, lookup]
  | cons a rest ih =>
    obtain ⟨a1, a2⟩ := a
    by_cases h : k = a1 <;> simp [update, lookup, h, ih]

@[simp] theorem lk_chansend : evalE.lookup' "chan.send" prog = none := by simp [prog, gomini]
@[simp] theorem lk_mapDelete : evalE.lookup' "mapDelete" prog = none := by simp [prog, gomini]
@[simp] theorem lk_SetHighWatermark : evalE.lookup' "SetHighWatermark" prog = some fn_commitLog_SetHighWatermark := by simp [prog, gomini]
@[simp] theorem lk_OverrideHighWatermark : evalE.lookup' "OverrideHighWatermark" prog = some fn_commitLog_OverrideHighWatermark := by simp [prog, gomini]
@[simp] theorem lk_notifyHWChange : evalE.lookup' "notifyHWChange" prog = some fn_commitLog_notifyHWChange := by simp [prog, gomini]
@[simp] theorem lk_notifyReadonly : evalE.lookup' "notifyReadonly" prog = some fn_commitLog_notifyReadonly := by simp [prog, gomini]
@[simp] theorem lk_removeHWWaiter : evalE.lookup' "removeHWWaiter" prog = some fn_commitLog_removeHWWaiter := by simp [prog, gomini]
@[simp] theorem lk_SetReadonly : evalE.lookup' "SetReadonly" prog = some fn_commitLog_SetReadonly := by simp [prog, gomini]
@[simp] theorem lk_NewestOffset : evalE.lookup' "NewestOffset" prog = none := by simp [prog, gomini]
@[simp] theorem lk_StoreInt32 : evalE.lookup' "atomic.StoreInt32" prog = none := by simp [prog, gomini]
@[simp] theorem lk_int32 : evalE.lookup' "int32" prog = none := by simp [prog, gomini]

/-- The waking loop, for every list of entries still to visit, every current content of the map and every record
`lf` around it: each entry's channel gets the verdict (in order), each entry's key is deleted, nothing else of the
log changes. -/
theorem wake_loop (n : Nat) (b : Bool) (lf : List (String × Val)) (ws : List (String × Val)) :
    ∀ (cur : List (String × Val)) (st : St), st.env "l" = some (.struct (update "hwWaiters" (.struct cur) lf)) →
    ∃ st', runRangeMap (runBlock (exec prog noExt (n+6)) (wakeBody b)) (some "r") (some "ch") ws st = .ok (.next, st') ∧
      st'.env "l" = some (.struct (update "hwWaiters" (.struct (eraseAll ws cur)) lf)) ∧
      st'.eff = st.eff ++ sends b ws := by
  induction ws with
  | nil => intro cur st h; exact ⟨st, by simp [gomini], by simpa [eraseAll] using h, by simp [sends]⟩
  | cons e rest ih =>
    intro cur st hp
    obtain ⟨k, ch⟩ := e
    let st1 : St := (((st.set "r" (.str k)).set "ch" ch).log "chan.send" [ch, .bool b]).set "l"
      (.struct (update "hwWaiters" (.struct (eraseKey k cur)) lf))
    obtain ⟨st', h1, h2, h3⟩ := ih (eraseKey k cur) st1 (by simp [st1, gomini])
    refine ⟨st', ?_, ?_, ?_⟩
    · simp [gomini, wakeBody, hp, builtin, lookup_update_same, update_update]
      simpa [st1, gomini, wakeBody] using h1
    · simpa [eraseAll] using h2
    · rw [h3]; simp [st1, gomini, sends, St.log]

theorem lookup_eraseKey_self (k : String) : ∀ m : List (String × Val), lookup k (eraseKey k m) = none := by
  intro m
  induction m with
  | nil => rfl
  | cons a rest ih =>
    obtain ⟨a1, a2⟩ := a
    by_cases h : a1 = k
    · simp [eraseKey, h, ih]
    · have h' : ¬ k = a1 := fun e => h e.symm
      simp [eraseKey, h, lookup, h', ih]

/-- keys of an association list -/
def keys (m : List (String × Val)) : List String := m.map (·.1)

theorem keys_eraseKey (k : String) : ∀ m : List (String × Val), ∀ x, x ∈ keys (eraseKey k m) → x ∈ keys m ∧ x ≠ k := by
  intro m
  induction m with
  | nil => intro x hx; simp [eraseKey, keys] at hx
  | cons a rest ih =>
    obtain ⟨a1, a2⟩ := a
    intro x hx
    by_cases h : a1 = k
    · simp [eraseKey, h] at hx
      have := ih x hx
      exact ⟨by simp [keys] at this ⊢; exact Or.inr this.1, this.2⟩
    · simp [eraseKey, h, keys] at hx
      rcases hx with hx | hx
      · subst hx; exact ⟨by simp [keys], h⟩
      · have := ih x (by simpa [keys] using hx)
        exact ⟨by simp [keys] at this ⊢; exact Or.inr this.1, this.2⟩

/-- erasing every key of `ws` leaves nothing of a map whose keys are among them -/
theorem eraseAll_sub : ∀ (ws cur : List (String × Val)), (∀ x, x ∈ keys cur → x ∈ keys ws) → eraseAll ws cur = [] := by
  intro ws
  induction ws with
  | nil =>
    intro cur h
    cases cur with
    | nil => rfl
    | cons a rest => exact absurd (h a.1 (by simp [keys])) (by simp [keys])
  | cons e rest ih =>
    obtain ⟨k, v⟩ := e
    intro cur h
    simp only [eraseAll]
    apply ih
    intro x hx
    have := keys_eraseKey k cur x hx
    have hm := h x this.1
    simp [keys] at hm ⊢
    rcases hm with hm | hm
    · exact absurd hm this.2
    · exact hm

/-- after the loop over the whole map the map is empty -/
theorem eraseAll_self (ws : List (String × Val)) : eraseAll ws ws = [] := eraseAll_sub ws ws (fun _ h => h)

end Liftbridge.Props.GoHW
