/-
The consumer-group component of the metadata model (Model/Metadata.lean: members with their
subscriptions, the keys of the subscriber heaps, the epoch) is the PROJECTION of the consumer-group
model of property C12 (Model/Groups.lean, which also carries the partition assignments and the
heap contents): every operation of the C12 model, seen through `Refines`, is the corresponding
operation of the metadata model.  So the C06 theorems speak about the same groups as the C12
theorems, and assignments cannot influence anything C06 observes.
-/
import Liftbridge.Model.Metadata
import Liftbridge.Proofs.Groups
import Liftbridge.Proofs.Metadata

namespace Liftbridge.Proofs.MetadataGroups
open Liftbridge Liftbridge.Groups Liftbridge.Proofs.Groups

def keys (g : Groups.Group) : List String := g.subs.map (·.1)

/-- `lg` (metadata model) is what `g` (C12 model) looks like without assignments and heap contents. -/
structure Refines (lg : Metadata.Group) (g : Groups.Group) : Prop where
  members : lg.members = shape g.members
  keys : ∀ x, x ∈ lg.subKeys ↔ x ∈ keys g
  epoch : lg.epoch = g.epoch

theorem mem_keys_iff (l : Subs) (x : String) : x ∈ l.map (·.1) ↔ (sget l x).isSome := by
  induction l with
  | nil => simp [sget]
  | cons kv r ih =>
    obtain ⟨k, v⟩ := kv
    simp only [List.map_cons, List.mem_cons, sget]
    by_cases h : k = x
    · simp [h]
    · have h' : ¬ x = k := fun e => h e.symm
      simp [h, h', ih]

theorem mem_keys_sset (l : Subs) (t : String) (v : List String) (x : String) :
    x ∈ (sset l t v).map (·.1) ↔ (x = t ∨ x ∈ l.map (·.1)) := by
  rw [mem_keys_iff, mem_keys_iff, sget_sset]
  by_cases h : x = t
  · simp [h]
  · simp [h]

theorem mem_keys_sdel (l : Subs) (s : String) (x : String) :
    x ∈ (sdel l s).map (·.1) ↔ (x ≠ s ∧ x ∈ l.map (·.1)) := by
  rw [mem_keys_iff, mem_keys_iff, sget_sdel]
  by_cases h : x = s
  · simp [h]
  · simp [h]

theorem balance_keys (parts : String → Nat) (t : String) (g : Groups.Group) : keys (balance parts t g) = keys g := by
  unfold keys; rw [balance_subs]

/-- `addConsumer` changes neither identities nor subscriptions; it adds the streams to the heaps. -/
theorem addConsumer_spec (parts : String → Nat) (id : String) : ∀ (ss : List String) (g : Groups.Group),
    shape (addConsumer parts id ss g).members = shape g.members ∧
    (∀ x, x ∈ keys (addConsumer parts id ss g) ↔ (x ∈ keys g ∨ x ∈ ss)) ∧
    (addConsumer parts id ss g).epoch = g.epoch := by
  intro ss
  induction ss with
  | nil => intro g; simp [addConsumer]
  | cons t ss ih =>
    intro g
    have e : addConsumer parts id (t :: ss) g = addConsumer parts id ss (balance parts t (pushSub t id g)) := rfl
    rw [e]
    obtain ⟨h1, h2, h3⟩ := ih (balance parts t (pushSub t id g))
    refine ⟨?_, ?_, ?_⟩
    · rw [h1, balance_shape]; rfl
    · intro x
      rw [h2 x, balance_keys]
      have : keys (pushSub t id g) = (sset g.subs t (subsOf g t ++ [id])).map (·.1) := rfl
      rw [this, mem_keys_sset]
      simp only [keys, List.mem_cons]
      constructor
      · rintro ((h | h) | h)
        · exact Or.inr (Or.inl h)
        · exact Or.inl h
        · exact Or.inr (Or.inr h)
      · rintro (h | h | h)
        · exact Or.inl (Or.inr h)
        · exact Or.inl (Or.inl h)
        · exact Or.inr h
    · rw [h3]
      have : (balance parts t (pushSub t id g)).epoch = (pushSub t id g).epoch := by
        unfold balance; split
        · rfl
        · split <;> rfl
      rw [this]; rfl

theorem addMember_spec (parts : String → Nat) (id : String) (streams : List String) (g : Groups.Group) :
    shape (Groups.addMember parts id streams g).members = shape g.members ++ [(id, sortDedup streams)] ∧
    (∀ x, x ∈ keys (Groups.addMember parts id streams g) ↔ (x ∈ keys g ∨ x ∈ sortDedup streams)) ∧
    (Groups.addMember parts id streams g).epoch = g.epoch := by
  unfold Groups.addMember
  obtain ⟨h1, h2, h3⟩ := addConsumer_spec parts id (sortDedup streams)
    { g with members := g.members ++ [{ id := id, streams := sortDedup streams, asg := [], count := 0 }] }
  refine ⟨?_, h2, h3⟩
  rw [h1]
  simp [shape]

theorem shape_any (ms : List Cons) (id : String) :
    (shape ms).any (fun m => decide (m.1 = id)) = ms.any (fun c => decide (c.id = id)) := by
  simp [shape, List.any_map, Function.comp_def]

theorem light_addMember {lg : Metadata.Group} {g g1 : Groups.Group} (id : String) (streams : List String)
    (h : Refines lg g) (hnew : g.members.any (fun c => decide (c.id = id)) = false)
    (h1 : shape g1.members = shape g.members ++ [(id, sortDedup streams)])
    (h2 : ∀ x, x ∈ keys g1 ↔ (x ∈ keys g ∨ x ∈ sortDedup streams)) :
    (Metadata.addMember lg (id, streams)).members = shape g1.members ∧
    (∀ x, x ∈ (Metadata.addMember lg (id, streams)).subKeys ↔ x ∈ keys g1) := by
  constructor
  · simp only [Metadata.addMember, Metadata.upsertMember]
    have : lg.members.any (fun m => decide (m.1 = id)) = false := by rw [h.members, shape_any]; exact hnew
    rw [this, h1, h.members]
    simp
  · intro x
    simp only [Metadata.addMember]
    rw [Proofs.Metadata.mem_unionKeys, h2 x, h.keys x]

/-- **JoinConsumerGroup.** -/
theorem join_refines (parts : String → Nat) {lg : Metadata.Group} {g g' : Groups.Group} (id : String)
    (streams : List String) (e : Nat) (h : Refines lg g) (hok : Groups.join parts g id streams e = .ok g') :
    Refines { Metadata.addMember lg (id, streams) with epoch := e } g' := by
  unfold Groups.join at hok
  split at hok
  · cases hok
  · split at hok
    · cases hok
    · next hnm =>
      injection hok with hok
      subst hok
      have hnew : g.members.any (fun c => decide (c.id = id)) = false := by simpa using hnm
      obtain ⟨h1, h2, _⟩ := addMember_spec parts id streams g
      obtain ⟨m, k⟩ := light_addMember id streams h hnew h1 h2
      exact ⟨m, k, rfl⟩

/-- One step of `removeConsumer` keeps identities, subscriptions, heap keys and the epoch. -/
theorem removeStep_spec (parts : String → Nat) (cons : Cons) (g : Groups.Group) (t : String) :
    shape (removeStep parts cons g t).members = shape g.members ∧
    (∀ x, x ∈ keys (removeStep parts cons g t) ↔ x ∈ keys g) ∧
    (removeStep parts cons g t).epoch = g.epoch := by
  unfold removeStep
  cases hs : sget g.subs t with
  | none => exact ⟨rfl, fun _ => Iff.rfl, rfl⟩
  | some ids =>
    simp only
    have hk : ∀ x, x ∈ (sset g.subs t (ids.filter (· ≠ cons.id))).map (·.1) ↔ x ∈ g.subs.map (·.1) := by
      intro x
      rw [mem_keys_sset]
      constructor
      · rintro (rfl | h)
        · rw [mem_keys_iff, hs]; rfl
        · exact h
      · exact Or.inr
    have hep : ∀ g0 : Groups.Group, (balance parts t g0).epoch = g0.epoch := by
      intro g0; unfold balance; split
      · rfl
      · split <;> rfl
    split
    · refine ⟨by rw [balance_shape], ?_, by rw [hep]⟩
      intro x; rw [balance_keys]; exact hk x
    · exact ⟨rfl, hk, rfl⟩

theorem removeConsumer_spec (parts : String → Nat) (cons : Cons) : ∀ (ts : List String) (g : Groups.Group),
    shape (ts.foldl (removeStep parts cons) g).members = shape g.members ∧
    (∀ x, x ∈ keys (ts.foldl (removeStep parts cons) g) ↔ x ∈ keys g) ∧
    (ts.foldl (removeStep parts cons) g).epoch = g.epoch := by
  intro ts
  induction ts with
  | nil => intro g; exact ⟨rfl, fun _ => Iff.rfl, rfl⟩
  | cons t ts ih =>
    intro g
    simp only [List.foldl_cons]
    obtain ⟨a1, a2, a3⟩ := ih (removeStep parts cons g t)
    obtain ⟨b1, b2, b3⟩ := removeStep_spec parts cons g t
    exact ⟨a1.trans b1, fun x => (a2 x).trans (b2 x), a3.trans b3⟩

theorem shape_filter (ms : List Cons) (id : String) :
    shape (ms.filter (fun c => decide (c.id ≠ id))) = (shape ms).filter (fun m => decide (m.1 ≠ id)) := by
  unfold shape
  rw [List.filter_map]
  rfl

/-- **LeaveConsumerGroup** (also a liveness expiry). -/
theorem leave_refines (parts : String → Nat) {lg : Metadata.Group} {g g' : Groups.Group} (id : String) (e : Nat)
    (h : Refines lg g) (hok : Groups.leave parts g id e = .ok g') :
    Refines { lg with members := lg.members.filter (fun m => decide (m.1 ≠ id)), epoch := e } g' := by
  unfold Groups.leave at hok
  split at hok
  · cases hok
  · split at hok
    · cases hok
    · next cons _ =>
      injection hok with hok
      subst hok
      obtain ⟨h1, h2, _⟩ := removeConsumer_spec parts cons cons.streams g
      refine ⟨?_, ?_, rfl⟩
      · show lg.members.filter _ = shape ((removeConsumer parts cons g).members.filter _)
        rw [shape_filter]
        unfold removeConsumer
        rw [h1, h.members]
      · intro x
        show x ∈ lg.subKeys ↔ x ∈ keys (removeConsumer parts cons g)
        unfold removeConsumer
        rw [h2 x]; exact h.keys x

theorem foldl_balance_spec (parts : String → Nat) : ∀ (ts : List String) (g : Groups.Group),
    shape (ts.foldl (fun g t => balance parts t g) g).members = shape g.members ∧
    keys (ts.foldl (fun g t => balance parts t g) g) = keys g ∧
    (ts.foldl (fun g t => balance parts t g) g).epoch = g.epoch := by
  intro ts
  induction ts with
  | nil => intro g; exact ⟨rfl, rfl, rfl⟩
  | cons t ts ih =>
    intro g
    simp only [List.foldl_cons]
    obtain ⟨a1, a2, a3⟩ := ih (balance parts t g)
    have hep : (balance parts t g).epoch = g.epoch := by
      unfold balance; split
      · rfl
      · split <;> rfl
    exact ⟨a1.trans (balance_shape parts t g), a2.trans (balance_keys parts t g), a3.trans hep⟩

/-- Under the C12 invariant "some member is subscribed to `s`" (what the metadata model tests) is
"the heap of `s` is not empty" (what `StreamDeleted` tests). -/
theorem subscribed_iff_heap (parts : String → Nat) {lg : Metadata.Group} {g : Groups.Group} (s : String)
    (hinv : Inv parts g) (h : Refines lg g) (ids : List String) (hs : sget g.subs s = some ids) :
    Metadata.subscribed lg s = !ids.isEmpty := by
  have hsub : subsOf' g.subs s = ids := by simp [subsOf', hs]
  unfold Metadata.subscribed
  rw [h.members]
  cases hids : ids with
  | nil =>
    simp only [List.isEmpty_nil, Bool.not_true]
    rw [Bool.eq_false_iff]
    intro hany
    obtain ⟨x, hx, hx2⟩ := List.any_eq_true.1 hany
    have hx2' : s ∈ x.2 := by simpa using hx2
    rcases hinv.b2 x hx s hx2' with h1 | ⟨_, h2⟩
    · rw [hsub, hids] at h1; cases h1
    · cases h2
  | cons i rest =>
    simp only [List.isEmpty_cons, Bool.not_false]
    have hi : i ∈ subsOf' g.subs s := by rw [hsub, hids]; simp
    rcases hinv.b1 s i hi with ⟨x, hx, _, hx2⟩ | ⟨_, h2⟩
    · exact List.any_eq_true.2 ⟨x, hx, by simpa using hx2⟩
    · cases h2

/-- **StreamDeleted** (refused when the epoch is stale: the group stays as it was on both sides).
The metadata model's switch must say what the C12 model does with an empty heap (regenerated fact
`Gen.Groups.emptyHeapKeepsEpoch`); the statement holds for either value of that fact. -/
theorem deleted_refines (parts : String → Nat) (cfg : Metadata.Cfg)
    (hcfg : cfg.emptyHeapNoEpoch = Gen.Groups.emptyHeapKeepsEpoch)
    {lg : Metadata.Group} {g : Groups.Group} (s : String) (e : Nat)
    (hinv : Inv parts g) (h : Refines lg g) :
    Refines (Metadata.notifyGroup cfg s e lg) (Groups.applyOp parts g (.deleted s e)) := by
  unfold Metadata.notifyGroup Groups.applyOp Groups.step Groups.streamDeleted
  rw [hcfg]
  rw [h.epoch]
  by_cases hg : Gen.Groups.epochDeletedCmp.evalNat e g.epoch = true
  · simp only [hg, if_true]; exact h
  · simp only [hg, Bool.false_eq_true, if_false]
    cases hs : sget g.subs s with
    | none =>
      have : lg.subKeys.contains s = false := by
        rw [Bool.eq_false_iff]
        intro hc
        have : s ∈ keys g := (h.keys s).1 (by simpa using hc)
        unfold keys at this
        rw [mem_keys_iff, hs] at this; cases this
      simp only [this, Bool.false_eq_true, if_false]
      exact h
    | some ids =>
      have hc : lg.subKeys.contains s = true := by
        have : s ∈ keys g := by unfold keys; rw [mem_keys_iff, hs]; rfl
        simpa using (h.keys s).2 this
      have hkeys : ∀ x, x ∈ lg.subKeys.filter (fun y => decide (y ≠ s)) ↔ x ∈ (sdel g.subs s).map (·.1) := by
        intro x
        rw [mem_keys_sdel, List.mem_filter, h.keys x]
        unfold keys
        constructor
        · rintro ⟨h1, h2⟩; exact ⟨of_decide_eq_true h2, h1⟩
        · rintro ⟨h1, h2⟩; exact ⟨h2, decide_eq_true h1⟩
      rw [subscribed_iff_heap parts s hinv h ids hs]
      simp only [hc, if_true, Bool.not_not]
      by_cases hb : (Gen.Groups.emptyHeapKeepsEpoch && ids.isEmpty) = true
      · -- empty heap: both sides only drop the heap key
        simp only [hb, if_true]
        exact ⟨h.members, hkeys, rfl⟩
      simp only [hb, Bool.false_eq_true, if_false]
      refine ⟨?_, ?_, rfl⟩
      · show lg.members.map _ = shape (Groups.Group.members (List.foldl _ _ _))
        rw [(foldl_balance_spec parts _ _).1, h.members]
        simp only [shape, List.map_map]
        apply List.map_congr_left
        intro c hc'
        simp only [Function.comp]
        by_cases hid : c.id ∈ ids
        · simp [hid, dropStream_id, dropStream_streams]
        · simp only [hid, if_false]
          congr 1
          rw [List.filter_eq_self]
          intro x hx
          apply decide_eq_true
          rintro rfl
          -- a member subscribed to the stream is in its heap (invariant b2)
          have := hinv.b2 (c.id, c.streams) (mem_shape.2 ⟨c, hc', rfl, rfl⟩) x hx
          rcases this with h1 | ⟨_, h2⟩
          · unfold subsOf' at h1; rw [hs] at h1; exact hid h1
          · cases h2
      · intro x
        show x ∈ lg.subKeys.filter _ ↔ x ∈ keys (List.foldl _ _ _)
        rw [(foldl_balance_spec parts _ _).2.1]
        exact hkeys x

/-- **newConsumerGroup**: a group built from a protobuf (create op or snapshot). -/
theorem mkGroup_refines (parts : String → Nat) (gp : Metadata.GroupP) (r : Bool)
    (hnd : (gp.members.map (·.1)).Nodup) :
    Refines (Metadata.mkGroup gp r)
      (gp.members.foldl (fun g m => Groups.addMember parts m.1 m.2 g) (Group.new gp.epoch)) := by
  unfold Metadata.mkGroup
  have gen : ∀ (ms : List Metadata.Member) (lg : Metadata.Group) (g : Groups.Group), Refines lg g →
      ((shape g.members).map (·.1) ++ ms.map (·.1)).Nodup →
      Refines (ms.foldl Metadata.addMember lg) (ms.foldl (fun g m => Groups.addMember parts m.1 m.2 g) g) := by
    intro ms
    induction ms with
    | nil => intro lg g h _; exact h
    | cons a ms ih =>
      intro lg g h hn
      simp only [List.foldl_cons]
      have hnew : g.members.any (fun c => decide (c.id = a.1)) = false := by
        rw [← shape_any, Bool.eq_false_iff]
        intro hany
        obtain ⟨m, hm, hm1⟩ := List.any_eq_true.1 hany
        rw [List.nodup_append] at hn
        exact hn.2.2 m.1 (List.mem_map.2 ⟨m, hm, rfl⟩) a.1 (by simp) (by simpa using hm1)
      obtain ⟨h1, h2, h3⟩ := addMember_spec parts a.1 a.2 g
      obtain ⟨m, k⟩ := light_addMember a.1 a.2 h hnew h1 h2
      apply ih
      · exact ⟨m, k, by show lg.epoch = _; rw [h3]; exact h.epoch⟩
      · rw [h1, List.map_append]
        simpa [List.append_assoc] using hn
  apply gen
  · exact ⟨rfl, fun x => by simp [keys, Group.new], rfl⟩
  · simpa [shape, Group.new] using hnd

end Liftbridge.Proofs.MetadataGroups
