/- Helper lemmas for cleans racing with appends. -/
import Liftbridge.Model.Compact
import Liftbridge.Proofs.Compact
namespace Liftbridge.Proofs.CleanRace
open Liftbridge Liftbridge.Log Liftbridge.Log.CLog Liftbridge.Compact Liftbridge.Proofs.Compact
open Liftbridge.Proofs.Log

/-- What the clean makes of its snapshot `old`: retention, then (if enabled) compaction. -/
def cleanedSegs (lim : Retention.Limits) (ttl : Int) (c : Bool) (hw : Int) (old : List Seg) : List Seg :=
  if c then (compact hw (Retention.clean lim ttl old)).1 else Retention.clean lim ttl old

/-! ### Retention and compaction on a segment list -/

theorem clean_ne_nil (lim : Retention.Limits) (ttl : Int) {old : List Seg} (h : old ≠ []) :
    Retention.clean lim ttl old ≠ [] := by
  intro he
  have := Retention.clean_keeps_last' lim ttl old h
  rw [he] at this
  exact h (List.getLast?_eq_none_iff.mp this.symm)

theorem cleanedSegs_getLast? (lim : Retention.Limits) (ttl : Int) (c : Bool) (hw : Int)
    {old : List Seg} (h : old ≠ []) : (cleanedSegs lim ttl c hw old).getLast? = old.getLast? := by
  unfold cleanedSegs
  cases c with
  | false => simpa using Retention.clean_keeps_last' lim ttl old h
  | true =>
    simp only [if_true]
    rw [compact_getLast?, Retention.clean_keeps_last' lim ttl old h]

theorem cleanedSegs_ne_nil (lim : Retention.Limits) (ttl : Int) (c : Bool) (hw : Int)
    {old : List Seg} (h : old ≠ []) : cleanedSegs lim ttl c hw old ≠ [] := by
  intro he
  have := cleanedSegs_getLast? lim ttl c hw h
  rw [he] at this
  exact h (List.getLast?_eq_none_iff.mp this.symm)

theorem clean_split (lim : Retention.Limits) (ttl : Int) (old : List Seg) :
    ∃ pre, old = pre ++ Retention.clean lim ttl old := by
  obtain ⟨k, hk⟩ := Retention.clean_suffix' lim ttl old
  exact ⟨old.take k, by rw [hk, List.take_append_drop]⟩

theorem compact_flatMap_sublist (hw : Int) (segs : List Seg) :
    ((compact hw segs).1.flatMap Seg.recs).Sublist (segs.flatMap Seg.recs) := by
  rcases List.eq_nil_or_concat segs with h | ⟨init, last, h⟩
  · subst h; rw [compact_fst_nil]; exact List.Sublist.refl _
  · rw [List.concat_eq_append] at h
    rw [compact_fst_snoc h, List.flatMap_append, flatMap_cleaned]
    conv => rhs; rw [h, List.flatMap_append]
    exact List.Sublist.append List.filter_sublist (List.Sublist.refl _)

theorem cleanedSegs_flatMap_sublist (lim : Retention.Limits) (ttl : Int) (c : Bool) (hw : Int)
    (old : List Seg) :
    ((cleanedSegs lim ttl c hw old).flatMap Seg.recs).Sublist (old.flatMap Seg.recs) := by
  obtain ⟨pre, hpre⟩ := clean_split lim ttl old
  have h1 : ((Retention.clean lim ttl old).flatMap Seg.recs).Sublist (old.flatMap Seg.recs) := by
    conv => rhs; rw [hpre, List.flatMap_append]
    exact List.sublist_append_right _ _
  unfold cleanedSegs
  cases c with
  | false => simpa using h1
  | true =>
    simp only [if_true]
    exact (compact_flatMap_sublist hw _).trans h1

theorem wfc_clean (lim : Retention.Limits) (ttl : Int) {old : List Seg} (wf : WFC old) :
    WFC (Retention.clean lim ttl old) := by
  obtain ⟨pre, hpre⟩ := clean_split lim ttl old
  rw [hpre] at wf
  exact wf.of_append_right

theorem inner_clean (lim : Retention.Limits) (ttl : Int) {old : List Seg}
    (hin : ∀ s ∈ old.dropLast, s.recs ≠ []) :
    ∀ s ∈ (Retention.clean lim ttl old).dropLast, s.recs ≠ [] := by
  obtain ⟨k, hk⟩ := Retention.clean_suffix' lim ttl old
  rw [hk]
  intro s hs
  exact hin s (dropLast_drop_subset _ _ s hs)

theorem wfc_cleanedSegs (lim : Retention.Limits) (ttl : Int) (c : Bool) (hw : Int) {old : List Seg}
    (wf : WFC old) : WFC (cleanedSegs lim ttl c hw old) := by
  unfold cleanedSegs
  cases c with
  | false => simpa using wfc_clean lim ttl wf
  | true => simpa using wfc_compact (hw := hw) (wfc_clean lim ttl wf)

theorem inner_cleanedSegs (lim : Retention.Limits) (ttl : Int) (c : Bool) (hw : Int) {old : List Seg}
    (hin : ∀ s ∈ old.dropLast, s.recs ≠ []) :
    ∀ s ∈ (cleanedSegs lim ttl c hw old).dropLast, s.recs ≠ [] := by
  unfold cleanedSegs
  cases c with
  | false => simpa using inner_clean lim ttl hin
  | true => simpa using inner_compact (hw := hw) (inner_clean lim ttl hin)

/-- Every segment of the compacted list is a segment of the input, possibly with fewer records:
same base, and it does not end later. -/
theorem compact_mem_bound {hw : Int} {segs : List Seg} (wf : WFC segs) :
    ∀ a' ∈ (compact hw segs).1, ∃ a ∈ segs, a'.base = a.base ∧ a'.nextOffset ≤ a.nextOffset := by
  rcases List.eq_nil_or_concat segs with h | ⟨init, last, h⟩
  · subst h; rw [compact_fst_nil]; simp
  · rw [List.concat_eq_append] at h
    rw [compact_fst_snoc h]
    intro a' ha'
    rcases List.mem_append.mp ha' with ha' | ha'
    · obtain ⟨⟨a, ha, rfl⟩, -⟩ := mem_cleaned ha'
      have hm : a ∈ segs := by simp [h, ha]
      exact ⟨a, hm, rfl, nextOffset_filter_le (wf.segOK hm) _⟩
    · have : a' = last := by simpa using ha'
      subst this
      exact ⟨a', by simp [h], rfl, Int.le_refl _⟩

theorem cleanedSegs_mem_bound (lim : Retention.Limits) (ttl : Int) (c : Bool) (hw : Int)
    {old : List Seg} (wf : WFC old) :
    ∀ a' ∈ cleanedSegs lim ttl c hw old,
      ∃ a ∈ old, a'.base = a.base ∧ a'.nextOffset ≤ a.nextOffset := by
  obtain ⟨pre, hpre⟩ := clean_split lim ttl old
  have hsub : ∀ a ∈ Retention.clean lim ttl old, a ∈ old := by
    intro a ha; rw [hpre]; exact List.mem_append_right _ ha
  unfold cleanedSegs
  cases c with
  | false =>
    intro a' ha'
    exact ⟨a', hsub a' (by simpa using ha'), rfl, Int.le_refl _⟩
  | true =>
    intro a' ha'
    obtain ⟨a, ha, hb⟩ := compact_mem_bound (hw := hw) (wfc_clean lim ttl wf) a' (by simpa using ha')
    exact ⟨a, hsub a ha, hb⟩

/-! ### The shape of `cleanLogDuring` -/

theorem cleanLogDuring_hw (lim : Retention.Limits) (ttl : Int) (c : Bool) (n : Nat) (l1 : CLog) :
    (cleanLogDuring lim ttl c n l1).hw = l1.hw := by
  unfold cleanLogDuring
  dsimp only
  split
  · split
    · rfl
    · split <;> rfl
  · split <;> rfl

theorem cleanLogDuring_segs (lim : Retention.Limits) (ttl : Int) (c : Bool) (n : Nat) (l1 : CLog)
    (hold : l1.segs.take n ≠ []) :
    (cleanLogDuring lim ttl c n l1).segs =
      cleanedSegs lim ttl c l1.hw (l1.segs.take n) ++ l1.segs.drop n := by
  have hne := clean_ne_nil lim ttl hold
  obtain ⟨a, t, hat⟩ := List.exists_cons_of_ne_nil hne
  obtain ⟨init, last, hs⟩ : ∃ init last, Retention.clean lim ttl (l1.segs.take n) = init ++ [last] := by
    rcases List.eq_nil_or_concat (Retention.clean lim ttl (l1.segs.take n)) with h | ⟨init, last, h⟩
    · exact absurd h hne
    · exact ⟨init, last, by rw [h, List.concat_eq_append]⟩
  unfold cleanLogDuring cleanedSegs
  cases c with
  | false =>
    simp only [Bool.false_eq_true, if_false]
    rw [hat]
    rfl
  | true =>
    simp only [if_true]
    by_cases hi : init = []
    · have hlen : (Retention.clean lim ttl (l1.segs.take n)).length ≤ 1 := by simp [hs, hi]
      rw [compact_short hlen]
      simp only
      rw [hat]
      rfl
    · rw [compact_long hs hi]

theorem take_ne_nil {α} {xs : List α} {n : Nat} (hn : 0 < n) (hle : n ≤ xs.length) : xs.take n ≠ [] := by
  intro h
  have : (xs.take n).length = 0 := by rw [h]; rfl
  rw [List.length_take] at this
  omega

theorem take_getLast? {α} {xs : List α} {n : Nat} (hn : 0 < n) (hle : n ≤ xs.length) :
    (xs.take n).getLast? = xs[n - 1]? := by
  rw [List.getLast?_eq_getElem?, List.length_take, List.getElem?_take]
  have : min n xs.length - 1 = n - 1 := by omega
  rw [this, if_pos (by omega)]

/-! ### Consequences -/

theorem race_abs (lim : Retention.Limits) (ttl : Int) (c : Bool) (n : Nat) (l1 : CLog)
    (hold : l1.segs.take n ≠ []) :
    (cleanLogDuring lim ttl c n l1).abs =
      (cleanedSegs lim ttl c l1.hw (l1.segs.take n)).flatMap Seg.recs ++
        (l1.segs.drop n).flatMap Seg.recs := by
  unfold abs
  rw [cleanLogDuring_segs lim ttl c n l1 hold, List.flatMap_append]

theorem abs_take_drop (n : Nat) (l1 : CLog) :
    l1.abs = (l1.segs.take n).flatMap Seg.recs ++ (l1.segs.drop n).flatMap Seg.recs := by
  unfold abs
  rw [← List.flatMap_append, List.take_append_drop]

theorem race_sublist (lim : Retention.Limits) (ttl : Int) (c : Bool) (n : Nat) (l1 : CLog)
    (hold : l1.segs.take n ≠ []) : (cleanLogDuring lim ttl c n l1).abs.Sublist l1.abs := by
  rw [race_abs lim ttl c n l1 hold, abs_take_drop n l1]
  exact List.Sublist.append (cleanedSegs_flatMap_sublist _ _ _ _ _) (List.Sublist.refl _)

theorem race_suffix (lim : Retention.Limits) (ttl : Int) (n : Nat) (l1 : CLog)
    (hold : l1.segs.take n ≠ []) : (cleanLogDuring lim ttl false n l1).abs <:+ l1.abs := by
  rw [race_abs lim ttl false n l1 hold, abs_take_drop n l1]
  obtain ⟨pre, hpre⟩ := clean_split lim ttl (l1.segs.take n)
  refine ⟨pre.flatMap Seg.recs, ?_⟩
  conv => rhs; rw [hpre]
  simp [cleanedSegs, List.flatMap_append]

theorem race_rolled (lim : Retention.Limits) (ttl : Int) (c : Bool) (n : Nat) (l1 : CLog)
    (hold : l1.segs.take n ≠ []) :
    ∀ r ∈ (l1.segs.drop n).flatMap Seg.recs, r ∈ (cleanLogDuring lim ttl c n l1).abs := by
  intro r hr
  rw [race_abs lim ttl c n l1 hold]
  exact List.mem_append_right _ hr

theorem race_active (lim : Retention.Limits) (ttl : Int) (c : Bool) (n : Nat) (l1 : CLog)
    (hn : 0 < n) (hle : n ≤ l1.segs.length) (s : Seg) (hs : l1.segs[n - 1]? = some s) :
    ∀ r ∈ s.recs, r ∈ (cleanLogDuring lim ttl c n l1).abs := by
  have hold := take_ne_nil hn hle
  intro r hr
  rw [race_abs lim ttl c n l1 hold]
  apply List.mem_append_left
  have hl : (cleanedSegs lim ttl c l1.hw (l1.segs.take n)).getLast? = some s := by
    rw [cleanedSegs_getLast? lim ttl c l1.hw hold, take_getLast? hn hle, hs]
  exact List.mem_flatMap.mpr ⟨s, List.mem_of_getLast? hl, hr⟩

theorem race_getLast? (lim : Retention.Limits) (ttl : Int) (c : Bool) (n : Nat) (l1 : CLog)
    (hold : l1.segs.take n ≠ []) :
    (cleanLogDuring lim ttl c n l1).segs.getLast? = l1.segs.getLast? := by
  rw [cleanLogDuring_segs lim ttl c n l1 hold, List.getLast?_append,
    cleanedSegs_getLast? lim ttl c l1.hw hold, ← List.getLast?_append, List.take_append_drop]

theorem race_nextOffset (lim : Retention.Limits) (ttl : Int) (c : Bool) (n : Nat) (l1 : CLog)
    (hold : l1.segs.take n ≠ []) : (cleanLogDuring lim ttl c n l1).nextOffset = l1.nextOffset := by
  unfold CLog.nextOffset active
  rw [race_getLast? lim ttl c n l1 hold]

theorem no_race_segs (lim : Retention.Limits) (ttl : Int) (c : Bool) (l : CLog) (hne : l.segs ≠ []) :
    (cleanLogDuring lim ttl c l.segs.length l).segs = (cleanLog lim ttl c l).segs := by
  have hold : l.segs.take l.segs.length ≠ [] := by rw [List.take_length]; exact hne
  rw [cleanLogDuring_segs lim ttl c _ l hold, cleanLog_segs lim ttl c l (clean_ne_nil lim ttl hne)]
  simp [cleanedSegs]

/-! ### The invariant across the junction -/

theorem mem_dropLast_append_left {α} {xs ys : List α} {a : α} (ha : a ∈ xs) (hy : ys ≠ []) :
    a ∈ (xs ++ ys).dropLast := by
  rw [List.dropLast_append_of_ne_nil hy]
  exact List.mem_append_left _ ha

/-- The segment-list part of the invariant for `cleaned old ++ rolled`, given it for
`old ++ rolled`. The last cleaned segment is the untouched last segment of `old`, so the junction
is the original one. -/
theorem race_wfc_inner (lim : Retention.Limits) (ttl : Int) (c : Bool) (hw : Int) {O D : List Seg}
    (hO : O ≠ []) (wf : WFC (O ++ D)) (hin : ∀ s ∈ (O ++ D).dropLast, s.recs ≠ []) :
    WFC (cleanedSegs lim ttl c hw O ++ D) ∧
      ∀ s ∈ (cleanedSegs lim ttl c hw O ++ D).dropLast, s.recs ≠ [] := by
  have wfO : WFC O := wf.of_append
  have wfD : WFC D := wf.of_append_right
  have wfX := wfc_cleanedSegs lim ttl c hw wfO
  have hch := List.pairwise_append.mp wf.chain
  refine ⟨⟨?_, ?_, ?_⟩, ?_⟩
  · have := wf.sorted
    rw [List.flatMap_append] at this ⊢
    exact List.Pairwise.sublist
      (List.Sublist.append (cleanedSegs_flatMap_sublist _ _ _ _ _) (List.Sublist.refl _)) this
  · intro s hs
    rcases List.mem_append.mp hs with hs | hs
    · exact wfX.base_le s hs
    · exact wfD.base_le s hs
  · refine List.pairwise_append.mpr ⟨wfX.chain, wfD.chain, ?_⟩
    intro a' ha' b hb
    obtain ⟨a, ha, hbase, hnext⟩ := cleanedSegs_mem_bound lim ttl c hw wfO a' ha'
    have := hch.2.2 a ha b hb
    exact ⟨by omega, by omega⟩
  · by_cases hD : D = []
    · subst hD
      rw [List.append_nil] at hin ⊢
      exact inner_cleanedSegs lim ttl c hw hin
    · intro s hs
      rw [List.dropLast_append_of_ne_nil hD] at hs hin
      rcases List.mem_append.mp hs with hs | hs
      · -- a cleaned segment: an inner one, or the untouched last segment of `O`
        have hXne := cleanedSegs_ne_nil lim ttl c hw hO
        rcases List.eq_nil_or_concat (cleanedSegs lim ttl c hw O) with hX | ⟨xi, xl, hX⟩
        · exact absurd hX hXne
        · rw [List.concat_eq_append] at hX
          have hl : (cleanedSegs lim ttl c hw O).getLast? = some xl := by rw [hX]; simp
          have hdl : (cleanedSegs lim ttl c hw O).dropLast = xi := by rw [hX]; simp
          rw [hX] at hs
          rcases List.mem_append.mp hs with hs | hs
          · refine inner_cleanedSegs lim ttl c hw (old := O) ?_ s (by rw [hdl]; exact hs)
            intro s' hs'
            exact hin s' (List.mem_append_left _ (List.dropLast_subset _ hs'))
          · have : s = xl := by simpa using hs
            subst this
            rw [cleanedSegs_getLast? lim ttl c hw hO] at hl
            exact hin s (List.mem_append_left _ (List.mem_of_getLast? hl))
      · exact hin s (List.mem_append_right _ hs)

theorem race_invC (lim : Retention.Limits) (ttl : Int) (c : Bool) (n : Nat) (l1 : CLog)
    (h : InvC l1) (hold : l1.segs.take n ≠ []) : InvC (cleanLogDuring lim ttl c n l1) := by
  have hsegs := cleanLogDuring_segs lim ttl c n l1 hold
  have wf : WFC (l1.segs.take n ++ l1.segs.drop n) := by
    rw [List.take_append_drop]; exact h.wfc
  have hin : ∀ s ∈ (l1.segs.take n ++ l1.segs.drop n).dropLast, s.recs ≠ [] := by
    rw [List.take_append_drop]; exact h.inner_nonempty
  obtain ⟨wf', hin'⟩ := race_wfc_inner lim ttl c l1.hw hold wf hin
  refine ⟨?_, ?_, ?_, ?_, ?_⟩
  · rw [hsegs]
    intro he
    exact cleanedSegs_ne_nil lim ttl c l1.hw hold (List.append_eq_nil_iff.mp he).1
  · unfold abs; rw [hsegs]; exact wf'.sorted
  · rw [hsegs]; exact wf'.base_le
  · rw [hsegs]; exact wf'.chain
  · rw [hsegs]; exact hin'

end Liftbridge.Proofs.CleanRace
