/-
Helper lemmas for C05 (crash recovery): the structurally recursive binary search of the model
is Go's `sort.Search`; `InitializePosition` finds exactly the written slots of any well-formed
index file (pre-allocated, shrunk or expanded).
-/
import Liftbridge.Model.Recover
import Liftbridge.Proofs.Search

namespace Liftbridge.Proofs.Recover
open Liftbridge Liftbridge.Log Liftbridge.Recover Liftbridge.Proofs

/-- With enough fuel the structurally recursive search is the literal `sort.Search` mirror. -/
theorem searchFuel_eq (f : Nat → Bool) : ∀ (fuel i j : Nat), j - i ≤ fuel →
    searchFuel f fuel i j = goSearchAux f i j := by
  intro fuel
  induction fuel with
  | zero =>
    intro i j h
    rw [goSearchAux]
    have : ¬ i < j := by omega
    simp [searchFuel, this]
  | succ n ih =>
    intro i j h
    rw [goSearchAux]
    simp only [searchFuel]
    by_cases hij : i < j
    · simp only [hij, if_true, dif_pos]
      by_cases hm : f ((i + j) / 2) = true
      · simp only [hm, if_true]
        exact ih i ((i + j) / 2) (by omega)
      · simp only [hm]
        exact ih ((i + j) / 2 + 1) j (by omega)
    · simp [hij]

theorem goSearchS_eq (n : Nat) (f : Nat → Bool) : goSearchS n f = goSearch n f := by
  unfold goSearchS goSearch
  exact searchFuel_eq f n 0 n (by omega)

/-- A well-formed index file: the written slots fit into the file and none of them is the
all-zero pattern `InitializePosition` takes for "empty" (every entry written by the code has
`Size = 28 + |message| > 0`). -/
structure IdxWF (ix : IdxFile) : Prop where
  fits : ix.slots.length ≤ ix.size
  nonzero : ∀ e ∈ ix.slots, entryIsZero e = false

theorem zeroSlot_isZero (base : Int) : entryIsZero (zeroSlot base) = true := by
  simp [entryIsZero, zeroSlot]

/-- The binary search of `InitializePosition` returns the number of written slots — whatever
the file size (pre-allocated 10 MiB, shrunk to its contents, expanded). -/
theorem search_written (ix : IdxFile) (base : Int) (wf : IdxWF ix) :
    goSearchS ix.size (fun i => entryIsZero (ix.slotAt base i)) = ix.slots.length := by
  rw [goSearchS_eq]
  have hlt : ∀ i, i < ix.slots.length → entryIsZero (ix.slotAt base i) = false := by
    intro i hi
    have : ix.slots[i]? = some ix.slots[i] := List.getElem?_eq_getElem hi
    simp only [IdxFile.slotAt, this, Option.getD_some]
    exact wf.nonzero _ (List.getElem_mem hi)
  have hge : ∀ i, ix.slots.length ≤ i → entryIsZero (ix.slotAt base i) = true := by
    intro i hi
    have : ix.slots[i]? = none := List.getElem?_eq_none hi
    simp only [IdxFile.slotAt, this, Option.getD_none]
    exact zeroSlot_isZero base
  have mono : ∀ i j, i ≤ j → j < ix.size →
      entryIsZero (ix.slotAt base i) = true → entryIsZero (ix.slotAt base j) = true := by
    intro i j hij _ hi
    apply hge
    by_cases h : i < ix.slots.length
    · rw [hlt i h] at hi; exact absurd hi (by simp)
    · omega
  obtain ⟨hle, hlo, hhi⟩ := goSearch_spec ix.size _ mono
  generalize goSearch ix.size (fun i => entryIsZero (ix.slotAt base i)) = r at *
  have h1 : ¬ r < ix.slots.length := by
    intro h
    have := hhi (by have := wf.fits; omega)
    rw [hlt r h] at this
    exact absurd this (by simp)
  have h2 : ¬ ix.slots.length < r := by
    intro h
    have := hlo _ h
    rw [hge _ (Nat.le_refl _)] at this
    exact absurd this (by simp)
  omega

/-- `InitializePosition` on a well-formed index: position = number of written slots, last entry =
the last written slot; `corrupt` exactly when that slot lies below the base offset. -/
theorem initPosition_spec (ix : IdxFile) (base : Int) (wf : IdxWF ix) :
    initPosition ix base =
      match ix.slots.getLast? with
      | none => .ok 0 none
      | some e => if Gen.Recover.corruptCmp.evalInt e.offset base then .corrupt ix.slots.length
                  else .ok ix.slots.length (some e) := by
  unfold initPosition
  simp only [search_written ix base wf]
  cases hs : ix.slots.getLast? with
  | none =>
    have : ix.slots = [] := by simpa using hs
    simp [this]
  | some e =>
    have hne : ix.slots ≠ [] := by intro h; simp [h] at hs
    have hlen : ix.slots.length ≠ 0 := by simpa using hne
    have hlast : ix.slotAt base (ix.slots.length - 1) = e := by
      have h1 : ix.slots.length - 1 < ix.slots.length := by omega
      have : ix.slots[ix.slots.length - 1]? = some e := by
        rw [← hs, List.getLast?_eq_getElem?]
      simp [IdxFile.slotAt, this]
    simp [hlen, hlast]

end Liftbridge.Proofs.Recover
