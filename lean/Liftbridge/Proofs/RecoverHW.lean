/-
C05, clause (c): a small crash Hoare logic over the crash monad `M` (invariants that hold in
EVERY outcome — returned, killed, failed) and its use for the high-watermark clause: no
operation other than `checkpointHW` / `Close` touches the HW checkpoint file, and those write
the in-memory HW.
-/
import Liftbridge.Model.Recover

namespace Liftbridge.Proofs.Recover
open Liftbridge Liftbridge.Log Liftbridge.Recover

/-- `I` holds in every outcome of `m` started in a state satisfying `I`; returned values
additionally satisfy `Q`. -/
structure Keeps {α} (I : St → Prop) (m : M α) (Q : α → Prop := fun _ => True) : Prop where
  run : ∀ s, I s → match m s with
    | .ok a s' => I s' ∧ Q a
    | .crashed s' => I s'
    | .fail _ s' => I s'

theorem keeps_pure {α} (I : St → Prop) (a : α) (Q : α → Prop) (h : Q a) : Keeps I (pure a : M α) Q := by
  constructor; intro s hs; exact ⟨hs, h⟩

theorem keeps_pure' {α} (I : St → Prop) (a : α) : Keeps I (pure a : M α) := by
  constructor; intro s hs; exact ⟨hs, trivial⟩

theorem keeps_bind {α β} {I : St → Prop} {m : M α} {f : α → M β} {Q : α → Prop} {R : β → Prop}
    (hm : Keeps I m Q) (hf : ∀ a, Q a → Keeps I (f a) R) : Keeps I (m >>= f) R := by
  constructor
  intro s hs
  have := hm.run s hs
  show match M.bind m f s with | .ok a s' => _ | .crashed s' => _ | .fail _ s' => _
  unfold M.bind
  cases h : m s with
  | ok a s' =>
    rw [h] at this
    exact (hf a this.2).run s' this.1
  | crashed s' => rw [h] at this; exact this
  | fail e s' => rw [h] at this; exact this

theorem keeps_weaken {α} {I : St → Prop} {m : M α} {Q R : α → Prop}
    (hm : Keeps I m Q) (h : ∀ a, Q a → R a) : Keeps I m R := by
  constructor
  intro s hs
  have := hm.run s hs
  cases hms : m s with
  | ok a s' => rw [hms] at this; exact ⟨this.1, h a this.2⟩
  | crashed s' => rw [hms] at this; exact this
  | fail e s' => rw [hms] at this; exact this

theorem keeps_tick {I : St → Prop} {f : St → St}
    (h : ∀ s, I s → I (f { s with budget := s.budget - 1, steps := s.steps + 1 })) : Keeps I (tick f) := by
  constructor
  intro s hs
  unfold tick
  by_cases hb : s.budget = 0
  · simp [hb]; exact hs
  · simp [hb]; exact h s hs

theorem keeps_getFS {I : St → Prop} : Keeps I getFS := by
  constructor; intro s hs; exact ⟨hs, trivial⟩

theorem keeps_fail {α} {I : St → Prop} {Q : α → Prop} (e : String) : Keeps I (failM e : M α) Q := by
  constructor; intro s hs; exact hs

theorem keeps_ite {α} {I : St → Prop} {c : Prop} [Decidable c] {a b : M α} {Q : α → Prop}
    (ha : c → Keeps I a Q) (hb : ¬ c → Keeps I b Q) : Keeps I (if c then a else b) Q := by
  by_cases h : c
  · simp only [h, if_true]; exact ha h
  · simp only [h, if_false]; exact hb h

/-! ### Invariants that only look at the HW checkpoint file and the ghost HW -/

/-- `I s` depends only on the HW checkpoint file and on the ghost "HW when the last operation
returned". Such an invariant is kept by every step that is not a HW checkpoint write. -/
structure HwOnly (I : St → Prop) : Prop where
  congr : ∀ s s', s.fs.hw = s'.fs.hw → s.hwSeen = s'.hwSeen → I s → I s'

theorem apply_hw (e : Eff) (fs : FS) (h : ∀ v, e ≠ .putHW v) : (e.apply fs).hw = fs.hw := by
  cases e with
  | putHW v => exact absurd rfl (h v)
  | _ => simp only [Eff.apply] <;> (repeat' split) <;> rfl

theorem keeps_eff {I : St → Prop} (hI : HwOnly I) {e : Eff} (h : ∀ v, e ≠ .putHW v) : Keeps I (eff e) := by
  unfold eff
  apply keeps_tick
  intro s hs
  exact hI.congr s _ (apply_hw e s.fs h).symm rfl hs

theorem keeps_mark {I : St → Prop} (hI : HwOnly I) (n : String) : Keeps I (mark n) := by
  unfold mark
  apply keeps_tick
  intro s hs
  exact hI.congr s _ rfl rfl hs

/-- One structural step of a frame proof (`hI : HwOnly I` in the context). -/
macro "hw_step" : tactic => `(tactic| first
  | exact keeps_pure' _ _
  | exact keeps_getFS
  | exact keeps_fail _
  | exact keeps_mark (by assumption) _
  | exact keeps_eff (by assumption) (by intro v h; cases h)
  | apply keeps_bind (Q := fun _ => True)
  | apply keeps_ite
  | intro _
  | split
  | dsimp only)

variable {I : St → Prop}

theorem hw_newIndexM (hI : HwOnly I) (f : FName) : Keeps I (newIndexM f) := by
  unfold newIndexM
  repeat hw_step

theorem hw_rebuild_go (hI : HwOnly I) (f : FName) : ∀ (es : List Entry) (k : Nat), Keeps I (rebuildIndexM.go f k es) := by
  intro es
  induction es with
  | nil => intro k; unfold rebuildIndexM.go; exact keeps_pure' _ _
  | cons e rest ih =>
    intro k
    unfold rebuildIndexM.go
    repeat (first | exact ih _ | hw_step)

theorem hw_rebuildIndexM (hI : HwOnly I) (s : MSeg) (n : Nat) : Keeps I (rebuildIndexM s n) := by
  unfold rebuildIndexM
  repeat (first | exact hw_newIndexM hI _ | exact hw_rebuild_go hI _ _ _ | hw_step)

theorem hw_setupFinM (hI : HwOnly I) (sh : Shape) (s : MSeg) (n : Nat) (last : Option Entry) : Keeps I (setupFinM sh s n last) := by
  unfold setupFinM
  repeat hw_step

theorem hw_setupAgainM (hI : HwOnly I) (sh : Shape) (s : MSeg) (n : Nat) : Keeps I (setupAgainM sh s n) := by
  unfold setupAgainM
  repeat (first | exact hw_rebuildIndexM hI _ _ | exact hw_setupFinM hI _ _ _ _ | hw_step)

theorem hw_setupRestM (hI : HwOnly I) (sh : Shape) (s : MSeg) : Keeps I (setupRestM sh s) := by
  unfold setupRestM
  repeat (first | exact hw_setupAgainM hI _ _ _ | exact hw_setupFinM hI _ _ _ _ | hw_step)

theorem hw_setupIndexM (hI : HwOnly I) (sh : Shape) (s : MSeg) : Keeps I (setupIndexM sh s) := by
  unfold setupIndexM
  repeat (first | exact hw_newIndexM hI _ | exact hw_setupRestM hI _ _ | hw_step)

theorem hw_newSegmentM (hI : HwOnly I) (sh : Shape) (base : Int) (isNew : Bool) (sfx : Sfx) :
    Keeps I (newSegmentM sh base isNew sfx) := by
  unfold newSegmentM
  repeat (first | exact hw_setupIndexM hI _ _ | hw_step)

theorem hw_writeLogM (hI : HwOnly I) (s : MSeg) (recs : List Rec) (es : List Entry) : Keeps I (writeLogM s recs es) := by
  unfold writeLogM
  repeat hw_step

theorem hw_writeIdxM (hI : HwOnly I) (s : MSeg) (es : List Entry) : Keeps I (writeIdxM s es) := by
  unfold writeIdxM
  repeat hw_step

theorem hw_writeM (hI : HwOnly I) (sh : Shape) (s : MSeg) (recs : List Rec) (es : List Entry) : Keeps I (writeM sh s recs es) := by
  unfold writeM
  repeat (first | exact hw_writeLogM hI _ _ _ | exact hw_writeIdxM hI _ _ | hw_step)

theorem hw_sealM (hI : HwOnly I) (s : MSeg) : Keeps I (sealM s) := by
  unfold sealM
  repeat hw_step

theorem hw_closeSegM (hI : HwOnly I) (s : MSeg) : Keeps I (closeSegM s) := by
  unfold closeSegM
  repeat (first | exact hw_sealM hI _ | hw_step)

theorem hw_deleteSegM (hI : HwOnly I) (s : MSeg) : Keeps I (deleteSegM s) := by
  unfold deleteSegM
  repeat (first | exact hw_closeSegM hI _ | hw_step)

theorem hw_replaceM (hI : HwOnly I) (sh : Shape) (new old : MSeg) : Keeps I (replaceM sh new old) := by
  unfold replaceM
  repeat (first | exact hw_closeSegM hI _ | exact hw_setupIndexM hI _ _ | hw_step)

theorem hw_removeStaleM (hI : HwOnly I) (f : FName) : Keeps I (removeStaleM f) := by
  unfold removeStaleM
  repeat hw_step

theorem hw_suffixedM (hI : HwOnly I) (sh : Shape) (base : Int) (sfx : Sfx) : Keeps I (suffixedM sh base sfx) := by
  unfold suffixedM
  repeat (first | exact hw_newSegmentM hI _ _ _ _ | exact hw_removeStaleM hI _ | hw_step)

theorem hw_flushM (hI : HwOnly I) (c : Epochs) : Keeps I (flushM c) := by
  unfold flushM
  repeat hw_step

theorem hw_assignM (hI : HwOnly I) (c : Epochs) (e : Nat) (o : Int) : Keeps I (assignM c e o) := by
  unfold assignM
  repeat (first | exact hw_flushM hI _ | hw_step)

theorem hw_clearLatestM (hI : HwOnly I) (c : Epochs) (o : Int) : Keeps I (clearLatestM c o) := by
  unfold clearLatestM
  repeat (first | exact hw_flushM hI _ | hw_step)

theorem hw_clearEarliestM (hI : HwOnly I) (c : Epochs) (o : Int) : Keeps I (clearEarliestM c o) := by
  unfold clearEarliestM
  repeat (first | exact hw_flushM hI _ | hw_step)

theorem hw_forM' (_hI : HwOnly I) {α} (f : α → M Unit) (hf : ∀ a, Keeps I (f a)) : ∀ xs : List α, Keeps I (forM' xs f) := by
  intro xs
  induction xs with
  | nil => unfold forM'; exact keeps_pure' _ _
  | cons x rest ih => unfold forM'; repeat (first | exact hf _ | exact ih | hw_step)

theorem hw_openAll (hI : HwOnly I) (cfg : Cfg) : ∀ (bs : List Int) (acc : List MSeg), Keeps I (recoverM.openAll cfg bs acc) := by
  intro bs
  induction bs with
  | nil => intro acc; unfold recoverM.openAll; exact keeps_pure' _ _
  | cons b rest ih =>
    intro acc
    unfold recoverM.openAll
    repeat (first | exact ih _ | exact hw_newSegmentM hI _ _ _ _ | hw_step)

theorem hw_splitM (hI : HwOnly I) (m : Mem) : Keeps I (splitM m) (fun m' => m'.hw = m.hw) := by
  unfold splitM
  apply keeps_bind (Q := fun _ => True) (hw_newSegmentM hI _ _ _ _)
  intro s _
  apply keeps_bind (Q := fun _ => True) (keeps_mark hI _)
  intro _ _
  apply keeps_bind (Q := fun _ => True) (hw_sealM hI _)
  intro old' _
  exact keeps_pure _ _ _ rfl

theorem hw_checkSplitM (hI : HwOnly I) (m : Mem) : Keeps I (checkSplitM m) (fun m' => m'.hw = m.hw) := by
  unfold checkSplitM
  apply keeps_ite
  · intro _
    constructor
    intro s hs
    have := (hw_splitM hI m).run s hs
    cases h : splitM m s with
    | ok a s' => rw [h] at this; simpa using this
    | crashed s' => rw [h] at this; simpa using this
    | fail e s' =>
      rw [h] at this
      simpa using this
  · intro _; exact keeps_pure _ _ _ rfl

theorem hw_assignEpochsM (hI : HwOnly I) : ∀ (rs : List Rec) (c : Epochs) (last : Nat), Keeps I (assignEpochsM c last rs) := by
  intro rs
  induction rs with
  | nil => intro c last; unfold assignEpochsM; exact keeps_pure' _ _
  | cons r rest ih =>
    intro c last
    unfold assignEpochsM
    repeat (first | exact ih _ _ | exact hw_assignM hI _ _ _ | hw_step)

theorem keeps_getFS_Q {Q : FS → Prop} (hQ : ∀ s, I s → Q s.fs) : Keeps I getFS Q := by
  constructor; intro s hs; exact ⟨hs, hQ s hs⟩

/-- Frame step that also closes a final `pure` whose value keeps the HW of the `Mem` in scope. -/
macro "hwv_step" : tactic => `(tactic| first
  | exact keeps_pure _ _ _ (by first | rfl | assumption | simp_all [setActive])
  | hw_step)

theorem hw_appendM (hI : HwOnly I) (m : Mem) (e : Nat) (ts : Int) (msgs : List Msg) :
    Keeps I (appendM m e ts msgs) (fun m' => m'.hw = m.hw) := by
  unfold appendM
  apply keeps_bind (hw_checkSplitM hI m)
  intro m1 h1
  repeat (first | exact hw_writeM hI _ _ _ _ | exact hw_assignEpochsM hI _ _ _ | hwv_step)

theorem hw_deleteAllM (hI : HwOnly I) (mk : String) : ∀ segs : List MSeg, Keeps I (deleteAllM mk segs) := by
  intro segs
  induction segs with
  | nil => unfold deleteAllM; exact keeps_pure' _ _
  | cons s rest ih => unfold deleteAllM; repeat (first | exact ih | exact hw_deleteSegM hI _ | hw_step)

theorem hw_truncate_copy (hI : HwOnly I) (m : Mem) : ∀ (items : List (Rec × Entry)) (new : MSeg), Keeps I (truncateM.copy m new items) := by
  intro items
  induction items with
  | nil => intro new; unfold truncateM.copy; exact keeps_pure' _ _
  | cons it rest ih =>
    intro new
    unfold truncateM.copy
    repeat (first | exact ih _ | exact hw_writeM hI _ _ _ _ | hw_step)

theorem hw_truncateM (hI : HwOnly I) (m : Mem) (o : Int) : Keeps I (truncateM m o) (fun m' => m'.hw = m.hw) := by
  unfold truncateM
  repeat (first
    | exact hw_deleteAllM hI _ _ | exact hw_deleteSegM hI _ | exact hw_suffixedM hI _ _ _
    | exact hw_truncate_copy hI _ _ _ | exact hw_replaceM hI _ _ _ | exact hw_clearLatestM hI _ _
    | hwv_step)

theorem hw_limitStageM (hI : HwOnly I) (cmp : Cmp) (limit : Int) (size : MSeg → Int) (segs : List MSeg) :
    Keeps I (limitStageM cmp limit size segs) := by
  unfold limitStageM
  repeat (first | exact hw_deleteAllM hI _ _ | hw_step)

theorem hw_ageStageM (hI : HwOnly I) (ttl : Int) (segs : List MSeg) : Keeps I (ageStageM ttl segs) := by
  unfold ageStageM
  repeat (first | exact hw_deleteAllM hI _ _ | hw_step)

theorem hw_retentionM (hI : HwOnly I) (cfg : Cfg) (ttl : Int) (segs : List MSeg) : Keeps I (retentionM cfg ttl segs) := by
  unfold retentionM
  repeat (first | exact hw_limitStageM hI _ _ _ _ | exact hw_ageStageM hI _ _ | hw_step)

theorem hw_clean_copy (hI : HwOnly I) (sh : Shape) : ∀ (rs : List Rec) (new : MSeg), Keeps I (cleanSegmentM.copy sh new rs) := by
  intro rs
  induction rs with
  | nil => intro new; unfold cleanSegmentM.copy; exact keeps_pure' _ _
  | cons r rest ih =>
    intro new
    unfold cleanSegmentM.copy
    repeat (first | exact ih _ | exact hw_writeM hI _ _ _ _ | hw_step)

theorem hw_cleanSegmentM (hI : HwOnly I) (sh : Shape) (hw : Int) (sc : List (List Rec)) (seg : MSeg) :
    Keeps I (cleanSegmentM sh hw sc seg) := by
  unfold cleanSegmentM
  repeat (first
    | exact hw_suffixedM hI _ _ _ | exact hw_clean_copy hI _ _ _ | exact hw_deleteSegM hI _
    | exact hw_replaceM hI _ _ _ | hw_step)

theorem hw_compact_go (hI : HwOnly I) (sh : Shape) (hw : Int) (sc : List (List Rec)) :
    ∀ (segs acc : List MSeg) (surv : List Rec), Keeps I (compactM.go sh hw sc segs acc surv) := by
  intro segs
  induction segs with
  | nil => intro acc surv; unfold compactM.go; exact keeps_pure' _ _
  | cons s rest ih =>
    intro acc surv
    unfold compactM.go
    repeat (first | exact ih _ _ | exact hw_cleanSegmentM hI _ _ _ _ | hw_step)

theorem hw_compactM (hI : HwOnly I) (sh : Shape) (hw : Int) (segs : List MSeg) : Keeps I (compactM sh hw segs) := by
  unfold compactM
  repeat (first | exact hw_compact_go hI _ _ _ _ _ _ | hw_step)

theorem hw_cleanM (hI : HwOnly I) (m : Mem) (ttl : Int) : Keeps I (cleanM m ttl) (fun m' => m'.hw = m.hw) := by
  unfold cleanM
  repeat (first
    | exact hw_retentionM hI _ _ _ | exact hw_compactM hI _ _ _ | exact hw_flushM hI _ | exact hw_clearEarliestM hI _ _
    | hwv_step)

theorem hw_rollM (hI : HwOnly I) (m : Mem) : Keeps I (rollM m) (fun m' => m'.hw = m.hw) := by
  unfold rollM
  apply keeps_ite
  · intro _; exact keeps_pure _ _ _ rfl
  · intro _; exact hw_splitM hI m

/-- `New` does not touch the HW checkpoint file; the recovered HW is what the file says. -/
theorem hw_recoverM (cfg : Cfg) (h : Option Int) (g : Int) :
    Keeps (fun s => s.fs.hw = h ∧ s.hwSeen = g) (recoverM cfg) (fun m => m.hw = h.getD (-1)) := by
  have hI : HwOnly (fun s => s.fs.hw = h ∧ s.hwSeen = g) :=
    ⟨fun s s' h1 h2 hs => ⟨h1 ▸ hs.1, h2 ▸ hs.2⟩⟩
  unfold recoverM
  apply keeps_bind (keeps_getFS_Q (Q := fun fs => fs.hw = h) (fun s hs => hs.1))
  intro fs hfs
  dsimp only
  apply keeps_bind (Q := fun _ => True)
  · apply hw_forM' hI
    intro a
    obtain ⟨f, ix⟩ := a
    exact keeps_eff hI (by intro v h; cases h)
  intro _ _
  apply keeps_bind (Q := fun _ => True) (hw_openAll hI _ _ _)
  intro segs _
  repeat (first
    | exact keeps_pure _ _ _ (by simp [hfs])
    | exact hw_newSegmentM hI _ _ _ _
    | exact hw_clearLatestM hI _ _ | exact hw_clearEarliestM hI _ _
    | hw_step)

/-! ### The high-watermark clause -/

/-- The ghost HW is `b` and the HW checkpoint file is not above it. -/
def HwInv (b : Int) (s : St) : Prop := s.hwSeen = b ∧ s.fs.hw.getD (-1) ≤ b

theorem hwInv_only (b : Int) : HwOnly (HwInv b) :=
  ⟨fun _ _ h1 h2 hs => ⟨h2 ▸ hs.1, h1 ▸ hs.2⟩⟩

/-- Crash condition: the HW checkpoint file is not above the in-memory HW of the last returned
operation. -/
def HwSafe (s : St) : Prop := s.fs.hw.getD (-1) ≤ s.hwSeen

theorem keeps_putHW {b v : Int} (h : v ≤ b) : Keeps (HwInv b) (eff (.putHW v)) := by
  unfold eff
  apply keeps_tick
  intro s hs
  exact ⟨hs.1, by simpa [Eff.apply] using h⟩

theorem hw_checkpointHWM (m : Mem) (b : Int) (h : m.hw ≤ b) : Keeps (HwInv b) (checkpointHWM m) := by
  have hI := hwInv_only b
  unfold checkpointHWM
  repeat (first | exact keeps_putHW h | hw_step)

theorem hw_close_go (b : Int) : ∀ (segs acc : List MSeg), Keeps (HwInv b) (closeM.go segs acc) := by
  have hI := hwInv_only b
  intro segs
  induction segs with
  | nil => intro acc; unfold closeM.go; exact keeps_pure' _ _
  | cons s rest ih =>
    intro acc
    unfold closeM.go
    repeat (first | exact ih _ | exact hw_closeSegM hI _ | hw_step)

theorem hw_closeM (m : Mem) (b : Int) (h : m.hw ≤ b) : Keeps (HwInv b) (closeM m) := by
  have hI := hwInv_only b
  unfold closeM
  repeat (first | exact hw_checkpointHWM m b h | exact hw_close_go b _ _ | hw_step)

/-- `SetHighWatermark` only raises the HW (`if hw > l.hw`, operator regenerated from the source). -/
theorem setHW_ge (m : Mem) (hw : Int) : m.hw ≤ (setHW m hw).hw := by
  unfold setHW
  split
  · rename_i h
    simp [Gen.Log.setHWCmp, Cmp.evalInt] at h
    simp; omega
  · exact Int.le_refl _

/-- What one operation does to the HW bookkeeping, in every outcome. -/
def StepSpec (m : Mem) (op : Op) : Prop :=
  ∀ s, m.hw = s.hwSeen → HwSafe s →
    match stepOp m op s with
    | .ok m' s' => s'.fs.hw.getD (-1) ≤ m'.hw
    | .crashed s' => HwSafe s'
    | .fail _ s' => HwSafe s'

theorem of_keeps_same {m : Mem} {p : M Mem} (hp : ∀ b, m.hw = b → Keeps (HwInv b) p (fun m' => m'.hw = m.hw)) :
    ∀ s, m.hw = s.hwSeen → HwSafe s →
      match p s with
      | .ok m' s' => s'.fs.hw.getD (-1) ≤ m'.hw
      | .crashed s' => HwSafe s'
      | .fail _ s' => HwSafe s' := by
  intro s hm hs
  have := (hp s.hwSeen hm).run s ⟨rfl, hs⟩
  cases h : p s with
  | ok m' s' =>
    rw [h] at this
    obtain ⟨⟨h1, h2⟩, h3⟩ := this
    show s'.fs.hw.getD (-1) ≤ m'.hw
    rw [h3, hm]; exact h2
  | crashed s' => rw [h] at this; show HwSafe s'; unfold HwSafe; rw [this.1]; exact this.2
  | fail e s' => rw [h] at this; show HwSafe s'; unfold HwSafe; rw [this.1]; exact this.2

theorem stepSpec (m : Mem) (op : Op) : StepSpec m op := by
  cases op with
  | append e ts msgs => exact of_keeps_same (fun b _ => hw_appendM (hwInv_only b) m e ts msgs)
  | truncate o => exact of_keeps_same (fun b _ => hw_truncateM (hwInv_only b) m o)
  | clean ttl => exact of_keeps_same (fun b _ => hw_cleanM (hwInv_only b) m ttl)
  | roll => exact of_keeps_same (fun b _ => hw_rollM (hwInv_only b) m)
  | setHW hw =>
    intro s hm hs
    show (s.fs.hw.getD (-1)) ≤ (setHW m hw).hw
    have := setHW_ge m hw
    unfold HwSafe at hs
    omega
  | checkpointHW =>
    apply of_keeps_same
    intro b hb
    show Keeps (HwInv b) (checkpointHWM m >>= fun _ => pure m) _
    exact keeps_bind (Q := fun _ => True) (hw_checkpointHWM m b (by omega)) (fun _ _ => keeps_pure _ _ _ rfl)
  | reopen =>
    intro s hm hs
    show match (closeM m >>= fun _ => recoverM m.cfg) s with | .ok m' s' => _ | .crashed s' => _ | .fail _ s' => _
    have hc := (hw_closeM m s.hwSeen (by omega)).run s ⟨rfl, hs⟩
    show match M.bind (closeM m) (fun _ => recoverM m.cfg) s with | .ok m' s' => _ | .crashed s' => _ | .fail _ s' => _
    unfold M.bind
    cases h : closeM m s with
    | crashed s1 => rw [h] at hc; show HwSafe s1; unfold HwSafe; rw [hc.1]; exact hc.2
    | fail e s1 => rw [h] at hc; show HwSafe s1; unfold HwSafe; rw [hc.1]; exact hc.2
    | ok m1 s1 =>
      rw [h] at hc
      obtain ⟨⟨h1, h2⟩, _⟩ := hc
      have hr := (hw_recoverM m.cfg s1.fs.hw s1.hwSeen).run s1 ⟨rfl, rfl⟩
      show match recoverM m.cfg s1 with | .ok m' s' => _ | .crashed s' => _ | .fail _ s' => _
      cases h' : recoverM m.cfg s1 with
      | ok m' s' =>
        rw [h'] at hr
        show s'.fs.hw.getD (-1) ≤ m'.hw
        rw [hr.2, hr.1.1]; exact Int.le_refl _
      | crashed s' => rw [h'] at hr; show HwSafe s'; unfold HwSafe; rw [hr.1, hr.2, h1]; exact h2
      | fail e s' => rw [h'] at hr; show HwSafe s'; unfold HwSafe; rw [hr.1, hr.2, h1]; exact h2

theorem runOps_safe : ∀ (ops : List Op) (m : Mem) (s : St), m.hw = s.hwSeen → HwSafe s →
    match runOps m ops s with
    | .ok _ _ => True
    | .crashed s' => HwSafe s'
    | .fail _ s' => HwSafe s' := by
  intro ops
  induction ops with
  | nil => intro m s _ _; unfold runOps; trivial
  | cons op rest ih =>
    intro m s hm hs
    unfold runOps
    have h1 := stepSpec m op s hm hs
    show match M.bind (stepOp m op) (fun m => opDone m >>= fun _ => runOps m rest) s with
      | .ok _ _ => True | .crashed s' => HwSafe s' | .fail _ s' => HwSafe s'
    unfold M.bind
    cases h : stepOp m op s with
    | crashed s' => rw [h] at h1; exact h1
    | fail e s' => rw [h] at h1; exact h1
    | ok m' s' =>
      rw [h] at h1
      show match M.bind (opDone m') (fun _ => runOps m' rest) s' with
        | .ok _ _ => True | .crashed s'' => HwSafe s'' | .fail _ s'' => HwSafe s''
      unfold M.bind opDone
      exact ih m' _ rfl h1

/-- The HW checkpoint file left behind by a crash at ANY step of ANY workload is not above the
in-memory high watermark at that moment. -/
theorem life_safe (cfg : Cfg) (ops : List Op) (k : Nat) :
    match life cfg ops { fs := {}, budget := k } with
    | .ok _ _ => True
    | .crashed s' => HwSafe s'
    | .fail _ s' => HwSafe s' := by
  unfold life
  have hr := (hw_recoverM cfg none (-1)).run { fs := {}, budget := k } ⟨rfl, rfl⟩
  show match M.bind (recoverM cfg) (fun m => opened m >>= fun _ => runOps m ops) { fs := {}, budget := k } with
    | .ok _ _ => True | .crashed s' => HwSafe s' | .fail _ s' => HwSafe s'
  unfold M.bind
  cases h : recoverM cfg { fs := {}, budget := k } with
  | crashed s' => rw [h] at hr; show HwSafe s'; unfold HwSafe; rw [hr.1, hr.2]; decide
  | fail e s' => rw [h] at hr; show HwSafe s'; unfold HwSafe; rw [hr.1, hr.2]; decide
  | ok m s' =>
    rw [h] at hr
    show match M.bind (opened m) (fun _ => runOps m ops) s' with
      | .ok _ _ => True | .crashed s'' => HwSafe s'' | .fail _ s'' => HwSafe s''
    unfold M.bind opened
    apply runOps_safe
    · rfl
    · show s'.fs.hw.getD (-1) ≤ m.hw
      rw [hr.1.1, hr.2]; decide

/-- The HW that `New` recovers is what the checkpoint file says. -/
theorem recover_hw (cfg : Cfg) (fs : FS) (m : Mem) (fs' : FS) (h : recover cfg fs = .ok (m, fs')) :
    m.hw = fs.hw.getD (-1) := by
  unfold recover at h
  have hr := (hw_recoverM cfg fs.hw (-1)).run { fs := fs, budget := noCrash } ⟨rfl, rfl⟩
  cases h' : recoverM cfg { fs := fs, budget := noCrash } with
  | ok m' s' =>
    rw [h'] at hr h
    simp at h
    rw [← h.1]; exact hr.2
  | crashed s' => rw [h'] at h; simp at h
  | fail e s' => rw [h'] at h; simp at h

end Liftbridge.Proofs.Recover
