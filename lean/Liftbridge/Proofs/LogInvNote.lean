/- Why `Inv` needed the extra field `link`: the five originally given fields allow states
(unreachable ones) in which `nextOffset_spec` and `readCommitted_spec` fail. -/
import Liftbridge.Proofs.Log
namespace Liftbridge.Proofs.Log
open Liftbridge Liftbridge.Log Liftbridge.Log.CLog

/-- The five originally given fields of `Inv`. -/
structure Inv0 (l : CLog) : Prop where
  nonempty : l.segs ≠ []
  maxPos : 0 < l.maxSegBytes
  sorted : l.abs.Pairwise (fun a b => a.offset < b.offset)
  base_le : ∀ s ∈ l.segs, 0 ≤ s.base ∧ ∀ r ∈ s.recs, s.base ≤ r.offset
  chain : l.segs.Pairwise (fun a b => a.nextOffset ≤ b.base ∧ a.base < b.base)

def rec0 (o : Int) : Rec := { offset := o, ts := 0, epoch := 0, body := { key := none, val := none, hdrs := [] } }

/-- A gap between the end of a segment and the base of the (empty) next one. -/
def gapLog : CLog :=
  { segs := [{ base := 0, recs := [rec0 0] }, { base := 5, recs := [] }], maxSegBytes := 1, hw := 0,
    epochs := [], readonly := false, occ := false }

/-- An empty segment followed by a non-empty one. -/
def emptyHeadLog : CLog :=
  { segs := [{ base := 0, recs := [] }, { base := 1, recs := [rec0 1] }], maxSegBytes := 1, hw := 1,
    epochs := [], readonly := false, occ := false }

theorem gapLog_inv0 : Inv0 gapLog := by
  refine ⟨by decide, by decide, by decide, ?_, by decide⟩
  intro s hs
  simp only [gapLog, List.mem_cons, List.not_mem_nil, or_false] at hs
  rcases hs with rfl | rfl <;> decide

/-- `nextOffset_spec` fails without `link`: the last record has offset 0 but the next offset is 5. -/
theorem gapLog_next : gapLog.abs.getLast? = some (rec0 0) ∧ gapLog.nextOffset = 5 := by decide

theorem emptyHeadLog_inv0 : Inv0 emptyHeadLog := by
  refine ⟨by decide, by decide, by decide, ?_, by decide⟩
  intro s hs
  simp only [emptyHeadLog, List.mem_cons, List.not_mem_nil, or_false] at hs
  rcases hs with rfl | rfl <;> decide

/-- `readCommitted_spec` fails without `link`: record 1 is retained and committed, yet the reader
parks immediately because the oldest segment is empty (`OldestOffset() == -1`). -/
theorem emptyHeadLog_read :
    emptyHeadLog.readCommitted 1 = .ok [] ∧
    emptyHeadLog.abs.filter (fun r => decide (1 ≤ r.offset ∧ r.offset ≤ emptyHeadLog.hw)) = [rec0 1] := by
  decide

end Liftbridge.Proofs.Log
